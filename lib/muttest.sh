#!/bin/sh
# usage: lib/muttest.sh Cnn <patch.diff> [tier]   -- run ./check Cnn against a scratch worktree of /repo with the patch applied
# (mutation adequacy / seeded-defect testing; never touches /repo's working tree)
set -e
P=$1; PATCH=$(realpath "$2"); TIER=${3:-quick}
WT=/tmp/mt-$P-$$
git -C /repo worktree add --detach "$WT" HEAD >/dev/null 2>&1
trap 'git -C /repo worktree remove --force "$WT" >/dev/null 2>&1 || true' EXIT
git -C "$WT" apply "$PATCH"
cd /verif
set +e
VERIF_REPO="$WT" ./check "$P" --tier "$TIER" > "run/mut_$P.out" 2>&1
RC=$?
tail -4 "run/mut_$P.out"
echo "muttest $P $(basename "$PATCH"): exit=$RC"
