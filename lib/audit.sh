#!/bin/sh
# Stranger's audit of the Coq development: clean full build, forbidden-construct scan, coqchk with axiom listing.
cd /verif/coq && ./mkproject.sh
echo "== forbidden constructs (comments stripped by lib/check.py on every run; raw grep here):"
grep -rnE '\b(Admitted|admit|Axiom|Parameter|Conjecture)\b|Unset Guard|bypass_check|Admit Obligations' --include='*.v' Base Gen Model Proof Properties Run | grep -v '^\S*:[0-9]*:\s*(\*' | head -20
echo "== full build from clean"
make clean >/dev/null 2>&1; timeout 10000 make -j16 2>&1 | grep -E "Error|error" | head
echo "== coqchk -silent -o over every Properties module"
timeout 7200 coqchk -silent -o -Q . K $(ls Properties/*.v | sed 's#Properties/\(.*\)\.v#K.Properties.\1#')
