#!/usr/bin/env python3
"""Runner for one property check:  ./check Cnn [--tier quick|thorough] [--replay f]

Pipeline (DESIGN.md 2.2): regenerate Gen/Consts.v, build the Coq development, build the Go
harness against /repo's working tree, run it, have Coq evaluate the model and the property
oracle on the observed cases, decide, write evidence.
"""
import sys, os, json, re, subprocess, time, fcntl, hashlib, shutil, glob
from concurrent.futures import ThreadPoolExecutor

VERIF = os.path.dirname(os.path.dirname(os.path.abspath(__file__)))
REPO = os.environ.get("VERIF_REPO", "/repo")
COQ = os.path.join(VERIF, "coq")
HARN = os.path.join(VERIF, "harness")
RUN = os.path.join(VERIF, "run")
GOENV = dict(os.environ, GOFLAGS="-mod=mod", GOPROXY="off", VERIF_REPO=REPO)
for k in ("GOSUMDB", "GOTOOLCHAIN"):
    GOENV.pop(k, None)
FORBIDDEN = re.compile(r"\b(Admitted|admit|Axiom|Axioms|Parameter|Parameters|Conjecture|Conjectures|"
                       r"bypass_check|Admit Obligations)\b|Unset\s+Guard|Unset\s+Positivity|"
                       r"Unset\s+Universe\s+Checking|-type-in-type|-impredicative-set")


def sh(cmd, cwd=None, env=None, timeout=None, shell=False):
    p = subprocess.run(cmd, cwd=cwd, env=env, timeout=timeout, shell=shell,
                       stdout=subprocess.PIPE, stderr=subprocess.STDOUT, text=True, errors="replace")
    return p.returncode, p.stdout


class Lock:
    def __init__(self, name):
        os.makedirs(RUN, exist_ok=True)
        self.path = os.path.join(RUN, ".lock." + name)

    def __enter__(self):
        self.f = open(self.path, "w")
        fcntl.flock(self.f, fcntl.LOCK_EX)

    def __exit__(self, *a):
        fcntl.flock(self.f, fcntl.LOCK_UN)
        self.f.close()


def strip_comments(src):
    out, depth, i = [], 0, 0
    while i < len(src):
        if src.startswith("(*", i):
            depth += 1; i += 2
        elif src.startswith("*)", i) and depth:
            depth -= 1; i += 2
        else:
            if not depth:
                out.append(src[i])
            i += 1
    return "".join(out)


def coq_deps(target_v):
    """transitive K.* dependencies (as .v paths) of a .v file, via coqdep"""
    seen, todo = set(), [target_v]
    while todo:
        f = todo.pop()
        if f in seen or not os.path.exists(os.path.join(COQ, f)):
            continue
        seen.add(f)
        rc, out = sh(["coqdep", "-Q", ".", "K", f], cwd=COQ)
        for m in re.finditer(r"(\S+)\.vo\b", out.split(":", 1)[1] if ":" in out else ""):
            d = m.group(1) + ".v"
            if d.startswith("./"):
                d = d[2:]
            if not d.startswith("/") and d not in seen:
                todo.append(d)
    return sorted(seen)


def genconsts(pid, spec):
    gbin = os.path.join(HARN, "bin", "genconsts")
    with Lock("go"):
        os.makedirs(os.path.join(HARN, "bin"), exist_ok=True)
        mod = modfile("genconsts")
        rc, out = sh(["go", "build", "-modfile", mod, "-o", gbin, "./tools/genconsts"], cwd=HARN, env=GOENV, timeout=900)
    if rc != 0:
        return rc, out
    os.makedirs(os.path.join(COQ, "Gen"), exist_ok=True)
    return sh([gbin, REPO, spec, os.path.join(COQ, "Gen", "%s_consts.v" % pid)], cwd=HARN, env=GOENV, timeout=300)


def modfile(pid):
    """harness go.mod/go.sum derived from REPO's, kept per property so that concurrent checks
    (possibly against different VERIF_REPO trees) do not interfere"""
    d = os.path.join(RUN, pid)
    os.makedirs(d, exist_ok=True)
    src = open(os.path.join(REPO, "go.mod")).read()
    src = re.sub(r"^module .*$", "module verifharness", src, count=1, flags=re.M)
    src += "\nrequire github.com/uber/kraken v0.0.0\nreplace github.com/uber/kraken => %s\n" % REPO
    mp = os.path.join(d, "go.mod")
    if not os.path.exists(mp) or open(mp).read() != src:
        open(mp, "w").write(src)
    shutil.copy(os.path.join(REPO, "go.sum"), os.path.join(d, "go.sum"))
    return mp


def build_coq(pid, log):
    """returns dict(proof_ok, run_ok, obligations, discharged, assumptions, broken, forbidden)"""
    res = dict(proof_ok=False, run_ok=False, obligations=0, discharged=0, assumptions={}, broken=[], forbidden=[])
    with Lock("coq"):
        spec = os.path.join(VERIF, "props", pid + ".consts.json")
        if os.path.exists(spec):
            rc, out = genconsts(pid, spec)
            log.write("== genconsts rc=%d\n%s\n" % (rc, out))
            if rc != 0:
                res["broken"].append("literal extraction (genconsts) failed: " + out[-400:])
        sh(["./mkproject.sh"], cwd=COQ)
        prop_v = "Properties/%s.v" % pid
        run_v = "Run/%s_run.v" % pid
        rc2, out2 = sh("timeout 3000 make -j16 Run/%s_run.vo 2>&1" % pid, cwd=COQ, shell=True)
        rc1, out1 = sh("timeout 3000 make -j16 Properties/%s.vo 2>&1" % pid, cwd=COQ, shell=True)
        log.write("== make Run rc=%d\n%s\n== make Properties rc=%d\n%s\n" % (rc2, out2[-3000:], rc1, out1[-3000:]))
        res["proof_ok"] = rc1 == 0 and os.path.exists(os.path.join(COQ, prop_v + "o"))
        res["run_ok"] = rc2 == 0 and os.path.exists(os.path.join(COQ, run_v + "o"))
        if not res["proof_ok"]:
            m = re.findall(r'File "\./([^"]+)", line (\d+)[^\n]*\n(Error[^\n]*(?:\n[^\n]+)?)', out1)
            res["broken"] += ["%s:%s %s" % (f, l, e.replace("\n", " ")) for f, l, e in m] or ["make Properties/%s.vo failed: %s" % (pid, out1[-300:])]
        if not res["run_ok"]:
            res["broken"].append("Run/%s_run.vo does not build: %s" % (pid, out2[-300:]))
    # forbidden constructs anywhere in the files this property depends on
    deps = sorted(set(coq_deps(prop_v) + coq_deps(run_v)))
    res["deps"] = deps
    for f in deps:
        try:
            src = strip_comments(open(os.path.join(COQ, f)).read())
        except OSError:
            continue
        for m in FORBIDDEN.finditer(src):
            res["forbidden"].append("%s: %s" % (f, m.group(0)))
        if re.search(r"^\s*(Variable|Variables|Hypothesis|Hypotheses|Context)\b", src, re.M):
            # allowed only inside a Section
            depth = 0
            for line in src.splitlines():
                if re.match(r"\s*Section\b", line): depth += 1
                elif re.match(r"\s*End\b", line) and depth: depth -= 1
                elif re.match(r"\s*(Variable|Variables|Hypothesis|Hypotheses)\b", line) and depth == 0:
                    res["forbidden"].append("%s: %s outside a section" % (f, line.strip()[:60]))
    if res["forbidden"]:
        res["proof_ok"] = False
        res["broken"] += ["forbidden construct " + x for x in res["forbidden"]]
    # obligations and Print Assumptions
    try:
        psrc = strip_comments(open(os.path.join(COQ, prop_v)).read())
    except OSError:
        psrc = ""
        res["broken"].append(prop_v + " missing")
    thms = re.findall(r"^\s*(?:Theorem|Lemma|Corollary|Example)\s+(\w+)", psrc, re.M)
    res["theorems"] = thms
    res["obligations"] = len(thms)
    bad_close = [t for t in re.findall(r"(?:Theorem|Lemma|Corollary)\s+(\w+)(?:(?!Qed\.).)*?(?<![\w.])Proof\.(?=\s)((?:(?!Qed\.).)*?)Qed\.", psrc, re.S)
                 if not re.fullmatch(r"\s*exact\s+[\w\.@() ]+\.\s*", t[1])]
    if bad_close:
        res["broken"].append("Properties/%s.v: theorems not closed by `exact`: %s" % (pid, [t[0] for t in bad_close]))
        res["proof_ok"] = False
    if res["proof_ok"] and not thms:
        res["proof_ok"] = False
        res["broken"].append("Properties/%s.v states no theorem" % pid)
    if res["proof_ok"]:
        res["discharged"] = len(thms)
        rc, out = sh("timeout 600 coqc -Q . K -w -notation-overridden %s -o /dev/null 2>&1" % prop_v, cwd=COQ, shell=True)
        if rc != 0:
            # -o /dev/null unsupported: compile to a scratch copy
            tmpv = os.path.join(RUN, pid, "PA_%s.v" % pid)
            os.makedirs(os.path.dirname(tmpv), exist_ok=True)
            shutil.copy(os.path.join(COQ, prop_v), tmpv)
            rc, out = sh("timeout 600 coqc -Q %s K -w -notation-overridden %s 2>&1" % (COQ, tmpv), cwd=os.path.dirname(tmpv), shell=True)
        log.write("== Print Assumptions\n" + out + "\n")
        if rc != 0:
            # Properties/Cnn.v does not compile against the current .vo files of its dependencies
            res["proof_ok"] = False
            res["discharged"] = 0
            res["broken"].append("Properties/%s.v no longer compiles: %s" % (pid, out[-400:]))
        blocks = re.split(r"\n(?=Closed under|Axioms:)", "\n" + out)
        axioms = set()
        for b in blocks:
            if b.startswith("Axioms:"):
                for m in re.finditer(r"^(\S+)\s*:", b[len("Axioms:"):], re.M):
                    axioms.add(m.group(1))
        res["assumptions"] = {"closed": out.count("Closed under the global context"),
                              "axioms": sorted(axioms)}
    else:
        # count which theorems still compile is not attempted: none is counted as discharged
        res["discharged"] = 0
    return res


def build_harness(cfg, pid, log):
    h = cfg["harness"]
    with Lock("go-" + pid):
        os.makedirs(os.path.join(HARN, "bin"), exist_ok=True)
        if h["kind"] == "bin":
            out_bin = os.path.join(HARN, "bin", h["pkg"])
            rc, out = sh(["go", "build", "-modfile", modfile(pid), "-tags", "verif", "-o", out_bin, "./" + h["pkg"]], cwd=HARN, env=GOENV, timeout=1800)
        else:  # overlay: in-package driver compiled into the package's test binary
            ov = {"Replace": {}}
            for dst, src in h["files"].items():
                ov["Replace"][os.path.join(REPO, dst)] = os.path.join(VERIF, src)
            os.makedirs(os.path.join(RUN, pid), exist_ok=True)
            # the shared driver library becomes a virtual package inside /repo's module
            hl = open(os.path.join(HARN, "hlib", "hlib.go")).read().replace("package hlib", "package verifhlib", 1)
            hlp = os.path.join(RUN, pid, "hlib_ov.go")
            open(hlp, "w").write(hl)
            ov["Replace"][os.path.join(REPO, "utils/verifhlib/hlib.go")] = hlp
            # sub-packages of hlib (e.g. fstrace) keep their package names
            for root, _, fs in os.walk(os.path.join(HARN, "hlib")):
                rel = os.path.relpath(root, os.path.join(HARN, "hlib"))
                if rel == ".":
                    continue
                for fn in fs:
                    if fn.endswith(".go") and not fn.endswith("_test.go"):
                        ov["Replace"][os.path.join(REPO, "utils/verifhlib", rel, fn)] = os.path.join(root, fn)
            ovp = os.path.join(RUN, pid, "overlay.json")
            json.dump(ov, open(ovp, "w"))
            out_bin = os.path.join(HARN, "bin", "ov_" + pid)
            rc, out = sh(["go", "test", "-c", "-vet=off", "-tags", "verif", "-overlay", ovp, "-o", out_bin, h["pkg"]],
                         cwd=REPO, env=GOENV, timeout=1800)
        log.write("== harness build rc=%d\n%s\n" % (rc, out[-4000:]))
    return rc == 0, out_bin, out


def run_harness(cfg, pid, out_bin, seed, n, tier, obsfile, tmp, log, replay=None):
    h = cfg["harness"]
    shutil.rmtree(tmp, ignore_errors=True)
    os.makedirs(tmp, exist_ok=True)
    to = cfg.get("harness_timeout", {"quick": 900, "thorough": 7200}).get(tier, 900)
    if h["kind"] == "bin":
        cmd = [out_bin, pid, str(seed), str(n), tier, obsfile, tmp] + ([replay] if replay else [])
        env = GOENV
    else:
        cmd = [out_bin, "-test.run", "^" + h["run"] + "$", "-test.timeout", "%ds" % to, "-test.count", "1"]
        env = dict(GOENV, VERIF_PROP=pid, VERIF_SEED=str(seed), VERIF_N=str(n), VERIF_TIER=tier,
                   VERIF_OUT=obsfile, VERIF_TMP=tmp, VERIF_REPLAY=replay or "")
    try:
        rc, out = sh(cmd, cwd=tmp, env=env, timeout=to + 30)
    except subprocess.TimeoutExpired:
        rc, out = 124, "harness timed out"
    log.write("== harness run rc=%d\n%s\n" % (rc, out[-4000:]))
    shutil.rmtree(tmp, ignore_errors=True)
    return rc, out


def eval_cases(cfg, pid, cases, workdir, log):
    """returns (mismatch idx set, violation idx set, error string or None)"""
    shard = cfg.get("shard", 500)
    hdr = cfg.get("cases_header", "From Coq Require Import List NArith ZArith Bool.\nImport ListNotations.\nLocal Open Scope N_scope.\n")
    hdr += "From K.Run Require Import %s_run.\n" % pid
    for f in glob.glob(os.path.join(workdir, "cases_*")):
        os.remove(f)
    jobs = []
    for k in range(0, len(cases), shard):
        chunk = cases[k:k + shard]
        path = os.path.join(workdir, "cases_%d.v" % (k // shard))
        with open(path, "w") as f:
            f.write(hdr)
            f.write("Definition cs : list case := [\n")
            f.write(";\n".join("(" + c["coq"] + ")" for c in chunk))
            f.write("\n].\nDefinition MM := Eval vm_compute in mismatches cs.\nDefinition VV := Eval vm_compute in violations cs.\nPrint MM.\nPrint VV.\n")
        jobs.append((k, path))

    def one(job):
        k, path = job
        rc, out = sh("timeout 1800 coqc -Q %s K -w -notation-overridden %s 2>&1" % (COQ, path), cwd=workdir, shell=True)
        return k, rc, out

    mm, vv, err = set(), set(), None
    with ThreadPoolExecutor(max_workers=16) as ex:
        for k, rc, out in ex.map(one, jobs):
            flat = re.sub(r"\s+", " ", out)
            m1 = re.search(r"MM = (.*?) : list N", flat)
            m2 = re.search(r"VV = (.*?) : list N", flat)
            if rc != 0 or not m1 or not m2:
                err = "coqc failed on cases shard %d: %s" % (k, out[-600:])
                log.write("== cases shard %d rc=%d\n%s\n" % (k, rc, out[-3000:]))
                continue
            mm |= {k + int(x) for x in re.findall(r"\d+", m1.group(1))}
            vv |= {k + int(x) for x in re.findall(r"\d+", m2.group(1))}
    for f in glob.glob(os.path.join(workdir, "cases_*")) + glob.glob(os.path.join(workdir, ".cases_*")):
        if not f.endswith(".v"):
            os.remove(f)
    return mm, vv, err


def load_cases(path):
    cases = []
    if os.path.exists(path):
        for line in open(path):
            line = line.strip()
            if line:
                cases.append(json.loads(line))
    return cases


def load_findings(pid):
    out, seen = [], set()
    for p in (os.path.join(VERIF, "known_findings.json"), os.path.join(VERIF, "findings", pid + ".json")):
        if os.path.exists(p):
            for f in json.load(open(p)).get("findings", []):
                if f.get("property") == pid and f.get("id") not in seen:
                    seen.add(f.get("id")); out.append(f)
    return out


def match_finding(case, findings):
    for f in findings:
        if f.get("status") != "open":
            continue
        sig = f.get("signature", {})
        ok = True
        if "kind_regex" in sig and not re.search(sig["kind_regex"], case.get("kind", "")):
            ok = False
        if "coq_regex" in sig and not re.search(sig["coq_regex"], case.get("coq", "")):
            ok = False
        if "tag" in sig and sig["tag"] not in case.get("tags", []):
            ok = False
        if ok and sig:
            return f
    return None


def setup():
    """offline setup after a fresh restore: generate Gen/*.v, build all of Coq, build every driver"""
    os.makedirs(RUN, exist_ok=True)
    log = open(os.path.join(RUN, "setup.log"), "w")
    pids = sorted(os.path.basename(f)[:-5] for f in glob.glob(os.path.join(VERIF, "props", "C*.json")) if not f.endswith(".consts.json"))
    for pid in pids:
        spec = os.path.join(VERIF, "props", pid + ".consts.json")
        if os.path.exists(spec):
            rc, out = genconsts(pid, spec)
            print("genconsts %s rc=%d %s" % (pid, rc, out[-300:] if rc else ""))
    sh(["./mkproject.sh"], cwd=COQ)
    rc, out = sh("timeout 10000 make -k -j16 2>&1", cwd=COQ, shell=True)
    log.write(out)
    print("coq build rc=%d" % rc)
    if rc != 0:
        print(out[-3000:])
    sh(["go", "build", "./..."], cwd=REPO, env=GOENV, timeout=3600)
    bad = 0
    for pid in pids:
        cfg = json.load(open(os.path.join(VERIF, "props", pid + ".json")))
        ok, _, out = build_harness(cfg, pid, log)
        print("driver %s %s" % (pid, "ok" if ok else "FAILED: " + out[-500:]))
        bad += 0 if ok else 1
    print("setup done")
    sys.exit(0)


def main():
    args = sys.argv[1:]
    if args and args[0] == "--setup":
        setup()
    pid = args[0]
    tier = os.environ.get("VERIF_TIER", "quick")
    replay = None
    i = 1
    while i < len(args):
        if args[i] == "--tier": tier = args[i + 1]; i += 2
        elif args[i] == "--replay": replay = args[i + 1]; i += 2
        else: i += 1
    if tier not in ("quick", "thorough"):
        tier = "quick"
    seed = int(os.environ.get("VERIF_SEED", "1") or "1")
    if replay:
        # a replay re-executes the recorded run (same seed and tier => same generated cases) on both sides
        try:
            rj = json.load(open(replay))
            seed = int(rj.get("seed", seed)); tier = rj.get("tier", tier)
        except Exception as e:
            print("cannot read replay file: %s" % e)
        replay = None
    t0 = time.time()
    cfg = json.load(open(os.path.join(VERIF, "props", pid + ".json")))
    wd = os.path.join(RUN, pid)
    os.makedirs(wd, exist_ok=True)
    os.makedirs(os.path.join(VERIF, "evidence"), exist_ok=True)
    os.makedirs(os.path.join(VERIF, "replays"), exist_ok=True)
    log = open(os.path.join(wd, "log.txt"), "w")
    findings = load_findings(pid)
    violations = []   # (what, replay dict)
    known_seen = []

    coq = build_coq(pid, log)
    ok_h, out_bin, hout = build_harness(cfg, pid, log)
    n = cfg.get("n", {}).get(tier, 300)
    cases, mm, vv, eval_err, hrc = [], set(), set(), None, 0
    if not ok_h:
        violations.append(("harness does not build against the current tree", {"broken": "harness build", "output": hout[-1500:]}, True))
    else:
        obsfile = os.path.join(wd, "obs.jsonl")
        if os.path.exists(obsfile):
            os.remove(obsfile)
        hrc, hout2 = run_harness(cfg, pid, out_bin, seed, n, tier, obsfile, os.path.join(wd, "tmp"), log, replay)
        cases = load_cases(obsfile)
        if hrc != 0:
            violations.append(("harness run failed (rc=%d)" % hrc, {"broken": "harness run", "output": hout2[-3000:]}, True))
    evalable = [c for c in cases if not c.get("inconclusive")]
    if coq["run_ok"] and evalable:
        mm, vv, eval_err = eval_cases(cfg, pid, evalable, wd, log)
        if eval_err:
            violations.append(("model evaluation failed", {"broken": "cases evaluation", "output": eval_err}, True))

    def smallest(idxs):
        return min(idxs, key=lambda i: len(evalable[i]["coq"]))

    # concrete violations of the property oracle on the implementation's observations
    unknown_v = []
    for i in sorted(vv):
        f = match_finding(evalable[i], findings)
        if f:
            if f["id"] not in [k["id"] for k in known_seen]:
                known_seen.append(f)
        else:
            unknown_v.append(i)
    if unknown_v:
        i = smallest(unknown_v)
        violations.append(("property oracle %s_check is false on the implementation's observables" % pid,
                           {"case": evalable[i], "index": i, "model_disagrees": i in mm,
                            "other_violating_cases": len(unknown_v) - 1}, False))
    # correspondence failures without an oracle violation
    mm_only = sorted(i for i in mm if i not in vv)
    mm_unknown = [i for i in mm_only if not match_finding(evalable[i], findings)]
    if mm_unknown and not unknown_v:
        # search further (DESIGN 2.4): more cases, other seeds
        found = None
        if coq["run_ok"] and ok_h and not replay:
            for extra in range(1, 3):
                obs2 = os.path.join(wd, "obs_search.jsonl")
                run_harness(cfg, pid, out_bin, seed + 1000 * extra, n * 3, tier, obs2, os.path.join(wd, "tmp"), log)
                c2 = [c for c in load_cases(obs2) if not c.get("inconclusive")]
                if not c2:
                    continue
                m2, v2, _ = eval_cases(cfg, pid, c2, wd, log)
                v2u = [j for j in v2 if not match_finding(c2[j], findings)]
                if v2u:
                    j = min(v2u, key=lambda j: len(c2[j]["coq"]))
                    found = c2[j]
                    break
        i = smallest(mm_unknown)
        if found:
            violations.append(("model/implementation correspondence broke and the search found a failing input",
                               {"case": found, "first_disagreement": evalable[i]}, False))
        else:
            violations.append(("correspondence K.Run.%s_run.mismatches: the implementation no longer behaves as the model the theorems are about" % pid,
                               {"broken": "correspondence", "theorems_no_longer_about_this_code": coq.get("theorems", []),
                                "case": evalable[i], "disagreeing_cases": len(mm_unknown)}, True))
    if not coq["proof_ok"]:
        if not unknown_v:
            violations.append(("proof obligations of Properties/%s.v no longer check" % pid,
                               {"broken": "proof", "details": coq["broken"]}, True))
    elif not coq["run_ok"]:
        violations.append(("Run/%s_run.v no longer builds" % pid, {"broken": "model", "details": coq["broken"]}, True))
    if ok_h and hrc == 0 and not evalable:
        violations.append(("harness produced no cases", {"broken": "harness produced no cases"}, True))

    # ---- evidence
    nt = [c for c in evalable if c.get("nt")]
    distinct_nt = len({hashlib.sha1((c.get("key") or c["coq"]).encode()).hexdigest() for c in nt})
    hist, kinds = {}, {}
    for c in evalable:
        kinds[c.get("kind", "")] = kinds.get(c.get("kind", ""), 0) + 1
        for o in c.get("hist", []):
            hist[o] = hist.get(o, 0) + 1
    samples, seen_kinds = [], set()
    for c in evalable:
        if c.get("kind") not in seen_kinds and len(samples) < 4:
            seen_kinds.add(c.get("kind"))
            s = c.get("sample") or c["coq"]
            samples.append({"kind": c.get("kind"), "case": s if len(json.dumps(s)) < 3000 else json.dumps(s)[:3000] + "..."})
    tb = ["Coq 8.16.1 kernel incl. vm_compute (no native_compute, no extraction)",
          "Print Assumptions over Properties/%s.v: %s" % (pid, ("%d theorems closed under the global context; axioms: %s" %
                (coq["assumptions"].get("closed", 0), coq["assumptions"].get("axioms") or "none")) if coq["proof_ok"] else "not available (proof broken)"),
          "Go harness driver + generator (%s), lib/check.py runner and Coq output parser" % json.dumps(cfg["harness"]),
          "correspondence by differential execution: model evaluated by vm_compute on the implementation's cases"]
    tb += cfg.get("trusted_extra", [])
    wall = time.time() - t0
    ev = {
        "property_id": pid, "tier": tier, "seed": seed, "level": "proof",
        "coverage": {
            "obligations": max(coq["obligations"], 1), "discharged": coq["discharged"],
            "checker_cmd": "cd /verif/coq && ./mkproject.sh && make -j16 (coqc 8.16.1, full .vo build); coqc on generated run/%s/cases_*.v (vm_compute of mismatches/violations)" % pid,
            "trusted_base": tb,
            "theorems": coq.get("theorems", []),
            "coq_files": coq.get("deps", []),
            "evaluations": len(evalable), "distinct_nontrivial": distinct_nt,
            "rule": cfg.get("rule", ""),
            "samples": samples or [{"note": "no case was produced"}],
            "traces_validated_against_impl": len(evalable) - len(mm),
            "disagreements_checked": len(mm),
            "oracle_violations": len(vv),
            "inconclusive": len(cases) - len(evalable),
            "kind_histogram": kinds, "op_histogram": hist,
            "known_findings_seen": [f["id"] for f in known_seen],
            "modelled_not_verified": cfg.get("modelled", []),
            "explanation": cfg.get("explanation", ""),
        },
        "assumptions": cfg.get("assumptions", []),
        "wall_s": round(wall, 2),
        "violations": len([v for v in violations]),
    }
    if discharged_lt(ev):
        pass
    # runs against a scratch tree (mutation / seeded-defect testing) must not overwrite the evidence of /repo
    ev_path = os.path.join(VERIF, "evidence", pid + ".json") if os.path.realpath(REPO) == "/repo" else os.path.join(wd, "evidence_scratch.json")
    json.dump(ev, open(ev_path, "w"), indent=1)

    for f in known_seen:
        print("KNOWN-FINDING: property=%s %s" % (pid, f["what_fails"]))
    rc = 0
    for k, (what, rep, nofail) in enumerate(violations):
        rp = os.path.join(VERIF, "replays", "%s_%d_%d.json" % (pid, seed, k))
        rep = dict(rep, property=pid, seed=seed, tier=tier, what=what)
        json.dump(rep, open(rp, "w"), indent=1)
        print("%s" % what)
        print("VIOLATION property=%s replay=%s%s" % (pid, rp, " no-failing-input-found" if nofail else ""))
        rc = 1
    print("%s %s: %d cases (%d distinct non-trivial), %d/%d obligations, mismatches=%d oracle-violations=%d known=%d, %.1fs -> %s"
          % (pid, tier, len(evalable), distinct_nt, coq["discharged"], coq["obligations"], len(mm), len(vv), len(known_seen), wall, "FAIL" if rc else "ok"))
    log.close()
    sys.exit(rc)


def discharged_lt(ev):
    return ev["coverage"]["discharged"] < ev["coverage"]["obligations"]


if __name__ == "__main__":
    main()
