#!/bin/bash
# usage: lib/runall.sh [tier] [ids...]  -- run checks (3 lanes), write a summary to run/runall.txt
cd /verif
TIER=${1:-quick}; shift
IDS=${@:-$(python3 -c "import json;print(' '.join(c['property_id'] for c in json.load(open('MANIFEST.json'))['checks']))")}
: > run/runall.txt
printf '%s\n' $IDS | xargs -P 3 -I{} sh -c './check {} --tier '"$TIER"' > run/runall_{}.out 2>&1; echo "{} exit=$? $(grep -c "^KNOWN-FINDING" run/runall_{}.out) known | $(tail -1 run/runall_{}.out)" >> run/runall.txt'
sort run/runall.txt
