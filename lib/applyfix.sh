#!/bin/sh
# usage: lib/applyfix.sh <patch> "<commit message starting with fix:>"
# applies the non-test hunks of a proposed fix to /repo, runs the touched packages' tests, commits.
set -e
PATCH=$(realpath "$1"); MSG=$2
cd /repo
[ -z "$(git status --porcelain)" ] || { echo "/repo working tree not clean"; git status --short; exit 1; }
git apply --exclude='*_test.go' "$PATCH"
export GOFLAGS=-mod=mod GOPROXY=off
PKGS=$(git diff --name-only | xargs -n1 dirname | sort -u | sed 's#^#./#')
go build ./... 2>&1 | grep -v "sqlite3\|warning\|^#\|note:\|~\|\^\||" | head
if go test -vet=off -count=1 $PKGS 2>&1 | tee /tmp/applyfix.out | grep -q "^FAIL\|^---"; then
  cat /tmp/applyfix.out | tail -30; git checkout -- .; echo "TESTS FAILED - reverted"; exit 1
fi
tail -5 /tmp/applyfix.out
git add -A && git commit -q -m "$MSG" && git log --oneline | head -1
