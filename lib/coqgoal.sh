#!/bin/sh
# usage: coqgoal.sh <file.v> <line>  -- show the proof state after the given line
cd /verif/coq
( head -n "$2" "$1"; echo; echo "Show." ) | timeout 120 coqtop -Q . K -w -notation-overridden 2>&1 | tail -n ${3:-40}
