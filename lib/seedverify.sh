#!/bin/bash
# usage: lib/seedverify.sh Cnn [outdir]  -- confirm a seeded defect (demo passes without / fails with the patch, repo builds),
# keep it under /verif/seeded/<id>/, and run ./check Cnn against a scratch worktree carrying the patch.
P=$1; OUT=${2:-/tmp/seed-$P-out}; SID=${3:-$P}
export GOFLAGS=-mod=mod GOPROXY=off
WT=/tmp/sv-$SID-$$
git -C /repo worktree add --detach "$WT" HEAD >/dev/null 2>&1 || exit 2
trap 'git -C /repo worktree remove --force "$WT" >/dev/null 2>&1' EXIT
PLACE=$(python3 -c "import json;print((json.load(open('$OUT/meta.json')).get('demo_place','') or '.').split()[0])")
CMD=$(python3 -c "import json;print(json.load(open('$OUT/meta.json')).get('demo_cmd',''))")
DEMO=$(ls $OUT | grep -v "patch.diff\|meta.json" | head -1)
PLACE=${PLACE#/tmp/seed-$P/}; PLACE=${PLACE#./}
mkdir -p "$WT/$PLACE"
DST="$WT/$PLACE/zz_seed_demo_test.go"; case "$DEMO" in *_test.go) ;; *) DST="$WT/$PLACE/$DEMO";; esac
cp "$OUT/$DEMO" "$DST"
CMD=$(echo "$CMD" | sed "s#/tmp/seed-$P#$WT#g" | sed -E 's#^cd [^&;]*(&&|;) *##')
echo "== demo without patch: $CMD"
(cd "$WT" && timeout 900 bash -c "$CMD" > /tmp/sv-$SID.a 2>&1); A=$?
echo "exit=$A"; tail -3 /tmp/sv-$SID.a
git -C "$WT" apply "$OUT/patch.diff" || { echo "PATCH DOES NOT APPLY"; exit 3; }
(cd "$WT" && go build ./... >/dev/null 2>&1); B=$?
echo "== build with patch exit=$B"
echo "== demo with patch"
(cd "$WT" && timeout 900 bash -c "$CMD" > /tmp/sv-$SID.b 2>&1); C=$?
echo "exit=$C"; tail -3 /tmp/sv-$SID.b
rm -f "$DST"
cd /verif
VERIF_REPO="$WT" ./check "$P" --tier quick > "run/seed_$SID.out" 2>&1; D=$?
tail -3 "run/seed_$SID.out"
echo "SEED $SID: demo_without=$A build=$B demo_with=$C check_exit=$D"
if [ $A -eq 0 ] && [ $B -eq 0 ] && [ $C -ne 0 ]; then
  mkdir -p seeded/$SID && cp "$OUT/patch.diff" seeded/$SID/ && cp "$OUT/$DEMO" seeded/$SID/ && \
  python3 - "$OUT/meta.json" "seeded/$SID/meta.json" "$A" "$C" "$D" <<'PY'
import json,sys
m=json.load(open(sys.argv[1]))
m["confirmed_by_coordinator"]={"demo_exit_without_patch":int(sys.argv[3]),"demo_exit_with_patch":int(sys.argv[4]),"go_build":"ok","check_quick_exit_with_patch":int(sys.argv[5]),"how":"lib/seedverify.sh: scratch worktree of /repo HEAD, demo run before/after git apply, then VERIF_REPO=<worktree> ./check"}
json.dump(m,open(sys.argv[2],"w"),indent=1)
PY
  echo "kept in seeded/$SID"
fi
