#!/usr/bin/env python3
"""Regenerates MANIFEST.json from props/*.json (one file per claimed property)."""
import json, os, glob
V = os.path.dirname(os.path.dirname(os.path.abspath(__file__)))
props = [json.loads(l) for l in open(os.path.join(V, "properties.jsonl")) if l.strip()]
checks, na, engines = [], [], {}
hooks_commits = []
hp = os.path.join(V, "hooks.json")
if os.path.exists(hp):
    hooks_commits = json.load(open(hp)).get("source_commits", [])
na_reasons = {}
nap = os.path.join(V, "not_applicable.json")
if os.path.exists(nap):
    na_reasons = json.load(open(nap))
for p in props:
    pid = p["id"]
    f = os.path.join(V, "props", pid + ".json")
    if not os.path.exists(f):
        na.append({"property_id": pid, "reason": na_reasons.get(pid, "not claimed yet: model, theorems and correspondence harness for this property are not built in this revision")})
        continue
    try:
        c = json.load(open(f))
    except Exception:
        c = {}
    claimed = set(json.load(open(os.path.join(V, "claimed.json")))["claimed"]) if os.path.exists(os.path.join(V, "claimed.json")) else set()
    ready = pid in claimed and all(k in c and c[k] and c[k] != "placeholder" for k in ("harness", "level_text", "level_note", "technique")) \
        and os.path.exists(os.path.join(V, "coq", "Properties", pid + ".v")) \
        and os.path.exists(os.path.join(V, "coq", "Run", pid + "_run.v")) \
        and os.path.exists(os.path.join(V, "evidence", pid + ".json"))
    if not ready:
        na.append({"property_id": pid, "reason": na_reasons.get(pid, "not claimed in this revision: the model/theorems/driver for this property are still under construction")})
        continue
    h = c["harness"]
    eng = "coq+" + (h["pkg"] if h["kind"] == "bin" else "overlay:" + h["pkg"].replace("github.com/uber/kraken/", ""))
    engines.setdefault(eng, []).append(pid)
    checks.append({
        "property_id": pid,
        "quick_cmd": "./check %s --tier quick" % pid,
        "thorough_cmd": "./check %s --tier thorough" % pid,
        "evidence_file": "/verif/evidence/%s.json" % pid,
        "replay_cmd_template": "./check %s --replay {path}" % pid,
        "engine": eng,
        "level_claimed": {"category": "proof", "text": c["level_text"], "design_ref": c.get("design_ref", "DESIGN.md §7 " + pid)},
        "level_note": c["level_note"],
        "technique": c["technique"],
    })
m = {
    "version": 1,
    "setup_cmd": "./setup.sh",
    "hooks": {
        "guard": "verif",
        "enable": "go build -tags verif (harness binaries) / go test -c -tags verif -overlay <generated overlay.json> (in-package drivers kept under /verif/harness/overlay)",
        "baseline_off_cmd": "cd /repo && GOFLAGS=-mod=mod GOPROXY=off go test -vet=off -count=1 -timeout 25m ./...",
        "source_commits": hooks_commits,
        "add_only": True,
    },
    "engines": [{"name": k, "path": "/verif/coq + /verif/harness", "serves_properties": v,
                 "kind_free_text": "Coq 8.16.1 development (Model/Proof/Properties/Run) + Go driver executed against /repo; lib/check.py ties them"} for k, v in sorted(engines.items())],
    "checks": checks,
    "notes": "Every check: regenerate+build the Coq development (theorems in coq/Properties/Cnn.v), build the Go driver against /repo's working tree, run it, evaluate model and property oracle in Coq (vm_compute) on the observed cases. See DESIGN.md.",
    "not_applicable": na,
}
json.dump(m, open(os.path.join(V, "MANIFEST.json"), "w"), indent=1)
print("MANIFEST: %d checks, %d not claimed" % (len(checks), len(na)))
