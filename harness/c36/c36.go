package main

import (
	"fmt"
	"path"
	"regexp"
	"strings"

	"github.com/uber/kraken/lib/backend/namepath"
	"verifharness/hlib"
)

// C36: name -> BlobPath -> NameFromBlobPath on the real Pathers, NameFromBlobPath on mutated
// paths, and cross-checks of the model's regexp engine / path library against Go's regexp / path.
func init() { hlib.Register("C36", c36) }

var c36ids = []string{namepath.DockerTag, namepath.ShardedDockerBlob, namepath.Identity}
var c36sch = []string{"STag", "SBlob", "SIdent"}

// the literals of pather.go as the driver's own copies are NOT used to drive the real code; they
// only build regexp cross-check patterns and mutated paths.
const (
	c36TagRe  = "/(.+)/_manifests/tags/(.+)/current/link"
	c36BlobRe = "/sha256/../(.+)/data"
)

func c36res(f func() (string, error)) (out string, ok bool) {
	defer func() {
		if r := recover(); r != nil {
			out, ok = "Panic", false
		}
	}()
	s, err := f()
	if err != nil {
		return "Err", false
	}
	return "(Ok " + hlib.Str(s) + ")", true
}

type c36gen struct {
	ctx *hlib.Ctx
	r   *hlib.Rng
}

func (g *c36gen) pick(xs []string) string { return xs[g.r.Intn(len(xs))] }

func (g *c36gen) word(alpha string, lo, hi int) string {
	n := g.r.Range(lo, hi)
	b := make([]byte, n)
	for i := range b {
		b[i] = alpha[g.r.Intn(len(alpha))]
	}
	return string(b)
}

const (
	c36lower = "abcdefghijklmnopqrstuvwxyz0123456789"
	c36hex   = "0123456789abcdef"
	c36wordc = "abcxyzABZ019_"
)

// ---- roots

var c36plainComp = []string{"a", "b", "data", "kraken", "prod-1", "v2", "x_y", "docker", "infra", "dockerRegistry", "sha256", "repositories"}
var c36metaComp = []string{"a.b", "a+b", "c++", "x(1)", "[d]", "$x", "^y", "a|b", "x{2}", "q?", "s*", "b\\s", "(", ")", "+", ".+", "(.+)", "a b", "_manifests", "tags", "...", "data"}

// validRoot: absolute; depth 0-4; trailing slashes 0-2; sometimes doubled slashes and ./.. elements
func (g *c36gen) validRoot() string {
	depth := g.r.Intn(5)
	var b strings.Builder
	b.WriteByte('/')
	for i := 0; i < depth; i++ {
		var c string
		switch k := g.r.Intn(20); {
		case k < 12:
			c = g.pick(c36plainComp)
		case k < 16:
			c = g.pick(c36metaComp)
		case k < 17:
			c = ".."
		case k < 18:
			c = "."
		default:
			c = g.word(c36lower+".-_+", 1, 6)
		}
		b.WriteString(c)
		if i < depth-1 {
			b.WriteByte('/')
			if g.r.Chance(8) {
				b.WriteByte('/')
			}
		}
	}
	if depth > 0 {
		switch k := g.r.Intn(10); {
		case k < 4:
		case k < 9:
			b.WriteByte('/')
		default:
			b.WriteString("//")
		}
	} else if g.r.Chance(10) {
		b.WriteByte('/')
	}
	return b.String()
}

func (g *c36gen) anyRoot() string {
	if g.r.Chance(85) {
		return g.validRoot()
	}
	// outside valid_root: relative or empty
	switch g.r.Intn(5) {
	case 0:
		return ""
	case 1:
		return "."
	case 2:
		return "rel/" + g.pick(c36plainComp)
	case 3:
		return "../" + g.pick(c36plainComp) + "/"
	default:
		return strings.TrimPrefix(g.validRoot(), "/")
	}
}

// ---- names

func (g *c36gen) repoComp() string {
	switch k := g.r.Intn(20); {
	case k < 12:
		return g.word(c36lower, 1, 8)
	case k < 15:
		return g.word(c36lower, 1, 4) + g.pick([]string{".", "-", "_", "__"}) + g.word(c36lower, 1, 4)
	case k < 17: // allowed by valid_repo (superset of the Docker grammar) and adversarial for the extractor
		return g.pick([]string{"_manifests", "tags", "current", "link", "repositories", "docker", "a+b", "(x)", "...", "a b", "sha256", "data"})
	default:
		return g.word(c36lower+"._-+()[]$^ ", 1, 6)
	}
}

func (g *c36gen) validRepo() string {
	n := g.r.Range(1, 4)
	cs := make([]string, n)
	for i := range cs {
		c := g.repoComp()
		for c == "." || c == ".." {
			c = g.repoComp()
		}
		cs[i] = c
	}
	return strings.Join(cs, "/")
}

func (g *c36gen) validTag() string {
	switch k := g.r.Intn(20); {
	case k < 12:
		return g.word(c36wordc, 1, 1) + g.word(c36wordc+".-", 0, 12)
	case k < 15:
		return g.pick([]string{"latest", "current", "link", "tags", "_manifests", "v1.0.0-rc.1", "a", "...", "0"})
	default:
		t := g.word(c36lower+"._-+()[]$^ ", 1, 8)
		for t == "." || t == ".." {
			t = g.word(c36lower, 1, 3)
		}
		return t
	}
}

func (g *c36gen) name(sch int, valid bool) string {
	switch sch {
	case 0:
		if valid {
			return g.validRepo() + ":" + g.validTag()
		}
		switch g.r.Intn(12) {
		case 0:
			return g.validRepo()
		case 1:
			return g.validRepo() + ":" + g.validTag() + ":" + g.validTag()
		case 2:
			return ":" + g.validTag()
		case 3:
			return g.validRepo() + ":"
		case 4:
			return ":"
		case 5:
			return g.validRepo() + "//x:" + g.validTag()
		case 6:
			return g.validRepo() + "/..:" + g.validTag()
		case 7:
			return g.validRepo() + "/:" + g.validTag()
		case 8:
			return g.validRepo() + ":" + g.validTag() + "/" + g.validTag()
		case 9:
			return g.validRepo() + ":.."
		case 10:
			return g.validRepo() + "\n:" + g.validTag()
		default:
			return "/" + g.validRepo() + ":" + g.validTag()
		}
	case 1:
		if valid {
			switch k := g.r.Intn(20); {
			case k < 8:
				return g.word(c36hex, 64, 64)
			case k < 14:
				return g.word(c36hex, 3, 12)
			case k < 16:
				return g.word(c36hex, 3, 3)
			default:
				n := g.word(c36lower+"._-+()", 3, 10)
				for strings.HasPrefix(n, "..") {
					n = g.word(c36lower, 3, 5)
				}
				return n
			}
		}
		switch g.r.Intn(8) {
		case 0:
			return ""
		case 1:
			return g.word(c36hex, 1, 1)
		case 2:
			return g.word(c36hex, 2, 2)
		case 3:
			return ".." + g.word(c36hex, 1, 5)
		case 4:
			return g.word(c36hex, 2, 4) + "/" + g.word(c36hex, 1, 4)
		case 5:
			return "a/" + g.word(c36hex, 1, 4)
		case 6:
			return g.word(c36hex, 3, 6) + "\n"
		default:
			return "./" + g.word(c36hex, 1, 4)
		}
	default:
		if valid {
			if g.r.Chance(15) {
				// arbitrary bytes are fine for the identity scheme
				n := g.r.Range(1, 6)
				b := g.r.Bytes(n)
				for i := range b {
					if b[i] == '/' {
						b[i] = 'x'
					}
				}
				s := string(b)
				if s == "." || s == ".." {
					s = "x"
				}
				return s
			}
			return g.validRepo()
		}
		switch g.r.Intn(7) {
		case 0:
			return ""
		case 1:
			return g.validRepo() + "//" + g.repoComp()
		case 2:
			return "./" + g.validRepo()
		case 3:
			return g.validRepo() + "/.."
		case 4:
			return "/" + g.validRepo()
		case 5:
			return g.validRepo() + "/"
		default:
			return "../" + g.validRepo()
		}
	}
}

// ---- cases

func (g *c36gen) round(sch int, root, name, kind string) {
	p, err := namepath.New(root, c36ids[sch])
	if err != nil {
		panic(err)
	}
	var bp string
	obp, ok := c36res(func() (string, error) { s, e := p.BlobPath(name); bp = s; return s, e })
	oname, ok2 := "Err", false
	if ok {
		oname, ok2 = c36res(func() (string, error) { return p.NameFromBlobPath(bp) })
	}
	g.ctx.Emit(hlib.Case{
		Coq:  fmt.Sprintf("CRound %s %s %s %s %s", c36sch[sch], hlib.Str(root), hlib.Str(name), obp, oname),
		NT:   ok && ok2,
		Kind: kind, Key: fmt.Sprintf("R|%d|%q|%q", sch, root, name),
		Hist:   []string{"BlobPath", "NameFromBlobPath"},
		Sample: map[string]string{"scheme": c36ids[sch], "root": root, "name": name, "blobpath": obp, "back": oname},
	})
}

func (g *c36gen) from(sch int, root, p, kind string) {
	pa, err := namepath.New(root, c36ids[sch])
	if err != nil {
		panic(err)
	}
	o, ok := c36res(func() (string, error) { return pa.NameFromBlobPath(p) })
	g.ctx.Emit(hlib.Case{
		Coq:  fmt.Sprintf("CFrom %s %s %s %s", c36sch[sch], hlib.Str(root), hlib.Str(p), o),
		NT:   ok,
		Kind: kind, Key: fmt.Sprintf("F|%d|%q|%q", sch, root, p),
		Hist:   []string{"NameFromBlobPath"},
		Sample: map[string]string{"scheme": c36ids[sch], "root": root, "path": p, "back": o},
	})
}

func (g *c36gen) regex(pat, in, kind string) {
	o := func() (out string) {
		defer func() {
			if r := recover(); r != nil {
				out = "RxPanic"
			}
		}()
		m := regexp.MustCompile(pat).FindStringSubmatch(in)
		if m == nil {
			return "RxNone"
		}
		caps := make([]string, len(m)-1)
		for i := range caps {
			caps[i] = hlib.Str(m[i+1])
		}
		return "(RxSome " + hlib.Str(m[0]) + " " + hlib.List(caps) + ")"
	}()
	g.ctx.Emit(hlib.Case{
		Coq:  fmt.Sprintf("CRegex %s %s %s", hlib.Str(pat), hlib.Str(in), o),
		NT:   strings.HasPrefix(o, "(RxSome"),
		Kind: kind, Key: fmt.Sprintf("X|%q|%q", pat, in),
		Hist:   []string{"regexp"},
		Sample: map[string]string{"pattern": pat, "input": in, "submatch": o},
	})
}

func (g *c36gen) lib(kind string) {
	alpha := "ab./+"
	switch g.r.Intn(3) {
	case 0:
		n := g.r.Range(0, 5)
		el := make([]string, n)
		cel := make([]string, n)
		for i := range el {
			if g.r.Chance(15) {
				el[i] = ""
			} else if g.r.Chance(30) {
				el[i] = g.anyRoot()
			} else {
				el[i] = g.word(alpha+"///..", 1, 8)
			}
			cel[i] = hlib.Str(el[i])
		}
		o := path.Join(el...)
		g.ctx.Emit(hlib.Case{Coq: fmt.Sprintf("CJoin %s %s", hlib.List(cel), hlib.Str(o)), NT: o != "", Kind: kind + "-join",
			Hist: []string{"path.Join"}, Sample: map[string]interface{}{"elems": el, "out": o}})
	case 1:
		s := g.word(alpha+"///..", 0, 14)
		if g.r.Chance(30) {
			s = g.anyRoot()
		}
		o := path.Clean(s)
		g.ctx.Emit(hlib.Case{Coq: fmt.Sprintf("CClean %s %s", hlib.Str(s), hlib.Str(o)), NT: o != s, Kind: kind + "-clean",
			Hist: []string{"path.Clean"}, Sample: map[string]string{"in": s, "out": o}})
	default:
		s := g.word("ab/_-:\\.+*?()|[]{}^$ \n", 0, 12)
		if g.r.Chance(30) {
			s = g.anyRoot()
		}
		o := regexp.QuoteMeta(s)
		g.ctx.Emit(hlib.Case{Coq: fmt.Sprintf("CQuote %s %s", hlib.Str(s), hlib.Str(o)), NT: o != s, Kind: kind + "-quote",
			Hist: []string{"regexp.QuoteMeta"}, Sample: map[string]string{"in": s, "out": o}})
	}
}

// mutate applies one of the mutation operators to a path.
func (g *c36gen) mutate(p string, sch int) string {
	marker := []string{"/_manifests/tags/", "/sha256/", "/"}[sch]
	tail := []string{"/current/link", "/data", "/x"}[sch]
	at := func() int {
		if len(p) == 0 {
			return 0
		}
		// mutate mostly behind the root, where the extractor looks
		if g.r.Chance(70) {
			return len(p)/3 + g.r.Intn(len(p)-len(p)/3)
		}
		return g.r.Intn(len(p))
	}
	switch g.r.Intn(14) {
	case 0: // delete a byte
		if len(p) == 0 {
			return p
		}
		i := at()
		return p[:i] + p[i+1:]
	case 1: // insert a byte
		i := at()
		return p[:i] + g.word("a/._+\n:", 1, 1) + p[i:]
	case 2: // replace a byte
		if len(p) == 0 {
			return p
		}
		i := at()
		return p[:i] + g.word("a/._+\n", 1, 1) + p[i+1:]
	case 3: // junk in front (the patterns are not anchored)
		return g.pick([]string{"/x", "zz", "/", "s3:/", "\n"}) + p
	case 4: // junk behind
		return p + g.pick([]string{"/more", "x", "/", "/current/link", "/data", "\n"})
	case 5: // a second marker
		i := at()
		return p[:i] + marker + p[i:]
	case 6: // a second tail
		i := at()
		return p[:i] + tail + p[i:]
	case 7: // truncate
		return p[:at()]
	case 8: // the path twice
		return p + p
	case 9: // marker removed
		return strings.Replace(p, marker, "/", 1)
	case 10: // tail removed
		return strings.TrimSuffix(p, tail)
	case 11: // slash doubled
		i := strings.LastIndex(p, "/")
		if i < 0 {
			return p
		}
		return p[:i] + "/" + p[i:]
	case 12: // an element between the marker parts
		return strings.Replace(p, marker, marker+g.word("ab/", 1, 3)+marker, 1)
	default: // unrelated path
		return g.validRoot() + g.word("ab/._", 0, 10)
	}
}

// pattern from the modelled subset (literal bytes, \ + punctuation, ., x+, non-nested groups)
// together with a string it matches
func (g *c36gen) pattern() (string, string) {
	var b, m strings.Builder
	item := func() {
		var one func() string
		switch k := g.r.Intn(12); {
		case k < 6:
			c := g.word("ab/_", 1, 1)
			b.WriteString(c)
			one = func() string { return c }
		case k < 9:
			b.WriteByte('.')
			one = func() string { return g.word("ab/_.+(x", 1, 1) }
		default:
			c := g.word("\\.+*?()|[]{}^$", 1, 1)
			b.WriteString("\\" + c)
			one = func() string { return c }
		}
		n := 1
		if g.r.Chance(30) {
			b.WriteByte('+')
			n = g.r.Range(1, 3)
		}
		for i := 0; i < n; i++ {
			m.WriteString(one())
		}
	}
	n := g.r.Range(1, 6)
	for i := 0; i < n; i++ {
		if g.r.Chance(25) {
			b.WriteByte('(')
			k := g.r.Range(0, 3)
			for j := 0; j < k; j++ {
				item()
			}
			b.WriteByte(')')
			// ")+" is outside the subset: a group is never followed by '+'
		} else {
			item()
		}
	}
	s := b.String()
	// compile errors both sides must agree on
	switch g.r.Intn(40) {
	case 0:
		s = "+" + s
	case 1:
		s = s + "a++"
	case 2:
		s = s + "("
	case 3:
		s = s + ")"
	case 4:
		s = s + "(+)"
	}
	return s, m.String()
}

// roots whose bytes stay inside the subset when used unquoted in a pattern
func (g *c36gen) subsetRoot() string {
	for {
		s := g.subsetRoot1()
		// nested groups are outside the subset
		d, ok := 0, true
		for i := 0; i < len(s); i++ {
			if s[i] == '(' {
				d++
				if d > 1 {
					ok = false
				}
			} else if s[i] == ')' && d > 0 {
				d--
			}
		}
		if ok {
			return s
		}
	}
}

func (g *c36gen) subsetRoot1() string {
	depth := g.r.Intn(4)
	s := "/"
	for i := 0; i < depth; i++ {
		s += g.pick([]string{"a", "data", "a.b", "a+b", "c++", "x(1)", "(", ")", "+", ".+", "(.+)", "v2", "..."})
		if i < depth-1 || g.r.Bool() {
			s += "/"
		}
	}
	return strings.ReplaceAll(s, ")+", ")a+")
}

func c36(ctx *hlib.Ctx) {
	g := &c36gen{ctx: ctx, r: hlib.NewRng(ctx.Seed)}

	// ---- seeds (always run): refutation witnesses of the pre-fix code, boundaries
	for _, root := range []string{"/a/", "/", "/a", "/a//", "/a//b", "/a/../b/", "/infra/dockerRegistry/"} {
		g.round(2, root, "bc", "seed-identity-root")
		g.round(2, root, "foo/bar", "seed-identity-root")
	}
	for _, root := range []string{"/a+b", "/c++", "/x(1)", "/a.b", "/[d]/", "/q?", "/", "/root", "/root/"} {
		g.round(0, root, "r:t", "seed-meta-root")
		g.round(0, root, "repo-bar:latest", "seed-meta-root")
		g.round(1, root, "ff85ceb9734a3c2fbb886e0f7cfc66b046eeeae953d8cb430dc5a7ace544b0e9", "seed-meta-root")
		g.round(1, root, "abc", "seed-meta-root")
	}
	for _, n := range []string{"a/_manifests/tags/b:c", "x/current/link:link", "a:current", "_manifests:tags", "a:b:c", ":", "repo:", ":tag", "nocolon", "a//b:c", "a/..:t", "a:..", "a:.", "a:b/c"} {
		g.round(0, "/root", n, "seed-tag-names")
		g.round(0, "/", n, "seed-tag-names")
	}
	for _, n := range []string{"", "4", "4d", "4d5", "..a", "../", "a/b", "sha256", "data", "abc/data"} {
		g.round(1, "/root/", n, "seed-blob-names")
	}
	for _, n := range []string{"", ".", "..", "a/", "/a", "a//b", "./a", "a/../b", "a", "a/b/c"} {
		g.round(2, "/root/", n, "seed-identity-names")
		g.round(2, "/", n, "seed-identity-names")
	}
	for _, p := range []string{"/a", "/a/", "/ab/x", "/a/x", "/", "", "a/x", "/a//x"} {
		g.from(2, "/a", p, "seed-identity-paths")
		g.from(2, "/a/", p, "seed-identity-paths")
		g.from(2, "/", p, "seed-identity-paths")
	}
	for _, root := range []string{"/a+b", "/c++", "/x(1)", "/a.b", "/"} {
		base := path.Join(root, "docker/registry/v2/repositories")
		in := base + "/r/_manifests/tags/t/current/link"
		g.regex(base+c36TagRe, in, "seed-regexp")
		g.regex(regexp.QuoteMeta(base)+c36TagRe, in, "seed-regexp")
		g.regex(base+c36TagRe, "/aab/docker/registry/v2/repositories/r/_manifests/tags/t/current/link", "seed-regexp")
	}

	if ctx.Tier == "thorough" {
		// exhaustive small scope (validates R; not the proof): every root of length <= 4 over {/ a . +}
		// starting with '/', against a few names per scheme
		alpha := "/a.+"
		var roots []string
		var rec func(s string, d int)
		rec = func(s string, d int) {
			roots = append(roots, s)
			if d == 0 {
				return
			}
			for i := 0; i < len(alpha); i++ {
				rec(s+string(alpha[i]), d-1)
			}
		}
		rec("/", 3)
		names := [][]string{{"r:t", "a/b:c.d", "a+:x"}, {"abc", "0123456789abcdef", "a.+b"}, {"x", "a/b", "a+/.b"}}
		for _, root := range roots {
			for sch := 0; sch < 3; sch++ {
				for _, n := range names[sch] {
					g.round(sch, root, n, "exhaustive-roots")
				}
			}
		}
	}

	for i := 0; i < ctx.N; i++ {
		sch := g.r.Intn(3)
		switch k := g.r.Intn(100); {
		case k < 55:
			valid := g.r.Chance(82)
			root := g.anyRoot()
			kind := "round-valid"
			if !valid {
				kind = "round-malformed"
			}
			g.round(sch, root, g.name(sch, valid), kind)
		case k < 77:
			root := g.anyRoot()
			p, err := namepath.New(root, c36ids[sch])
			if err != nil {
				panic(err)
			}
			bp, err := p.BlobPath(g.name(sch, true))
			if err != nil {
				bp = root
			}
			if g.r.Chance(85) {
				bp = g.mutate(bp, sch)
				if g.r.Chance(25) {
					bp = g.mutate(bp, sch)
				}
			}
			g.from(sch, root, bp, "from-mutated")
		case k < 90:
			if g.r.Chance(55) {
				// the patterns pather.go builds, quoted (fixed code) and unquoted (pinned code)
				root := g.subsetRoot()
				lit, baseLit := c36TagRe, "docker/registry/v2/repositories"
				s := 0
				if g.r.Bool() {
					lit, baseLit, s = c36BlobRe, "docker/registry/v2/blobs", 1
				}
				base := path.Join(root, baseLit)
				in := base + strings.NewReplacer("(.+)", g.validRepo(), "..", "ab").Replace(lit)
				if s == 0 {
					in = base + "/" + g.validRepo() + "/_manifests/tags/" + g.validTag() + "/current/link"
				}
				if g.r.Chance(60) {
					in = g.mutate(in, s)
				}
				if g.r.Bool() {
					g.regex(base+lit, in, "regexp-unquoted-root")
				} else {
					g.regex(regexp.QuoteMeta(base)+lit, in, "regexp-quoted-root")
				}
			} else {
				pat, in := g.pattern()
				switch k := g.r.Intn(10); {
				case k < 3:
				case k < 6:
					in = g.word("ab/_.\n", 0, 3) + in + g.word("ab/_.\n", 0, 3)
				case k < 8:
					in = g.mutate(in, 2)
				default:
					in = g.word("ab/_.\n+(", 0, 12)
				}
				g.regex(pat, in, "regexp-random")
			}
		default:
			g.lib("lib")
		}
	}
}
