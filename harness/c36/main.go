// Command c36 hosts the driver of property C36 (lib/backend/namepath, public API only).
package main

import "verifharness/hlib"

func main() { hlib.Main() }
