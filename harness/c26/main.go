// Command pure hosts the drivers that need only public, dependency-light packages.
package main

import "verifharness/hlib"

func main() { hlib.Main() }
