package main

import (
	"bytes"
	"encoding/json"
	"errors"
	"fmt"
	"net/http/httptest"
	"strconv"
	"strings"

	"github.com/andres-erbsen/clock"
	"github.com/uber-go/tally"
	"go.uber.org/zap"

	"github.com/uber/kraken/core"
	"github.com/uber/kraken/tracker/announceclient"
	"github.com/uber/kraken/tracker/peerhandoutpolicy"
	"github.com/uber/kraken/tracker/peerstore"
	"github.com/uber/kraken/tracker/trackerserver"
	"github.com/uber/kraken/utils/log"
	"verifharness/hlib"
)

// C26: announce histories against the real trackerserver HTTP handler (chi router,
// announceHandlerV1/V2 -> announce -> getPeerHandout -> PriorityPolicy.SortPeers) backed by the
// real peerstore.LocalStore. The peer store is wrapped only to RECORD what GetPeers returned
// (the model treats it as a choice oracle) and to inject store failures; the origin store is a
// scripted environment.
func init() { hlib.Register("C26", c26) }

type c26peer struct {
	id, ip, port     int
	origin, complete bool
}

type c26op struct {
	h       int
	peer    c26peer
	updFail bool
	getFail bool
	orgErr  bool
	origins []c26peer
	v1      bool
	// observed
	storeOK  bool // GetPeers was called and returned without error
	storeGot []c26peer
	respErr  bool
	resp     []c26peer
}

type c26cfg struct {
	policy string // "default" | "completeness"
	limit  int
}

// ---- canonical names <-> real values

func c26peerID(i int) core.PeerID {
	var p core.PeerID
	p[0], p[1] = byte(i>>8), byte(i)
	for k := 2; k < 20; k++ {
		p[k] = byte(0xC2 + 6*k)
	}
	return p
}

func c26peerNum(p core.PeerID) int {
	i := int(p[0])<<8 | int(p[1])
	if c26peerID(i) != p {
		return 99999
	}
	return i
}

func c26ip(i int) string { return fmt.Sprintf("10.26.%d.%d", i/256, i%256) }

func c26ipNum(s string) int {
	f := strings.Split(s, ".")
	if len(f) != 4 || f[0] != "10" || f[1] != "26" {
		return 99999
	}
	a, e1 := strconv.Atoi(f[2])
	b, e2 := strconv.Atoi(f[3])
	if e1 != nil || e2 != nil {
		return 99999
	}
	return a*256 + b
}

func c26hash(i int) core.InfoHash {
	var h core.InfoHash
	h[0] = byte(i)
	h[19] = byte(0x26 + i)
	return h
}

func c26digest(i int) core.Digest {
	d, err := core.NewSHA256DigestFromHex(fmt.Sprintf("%02x%062x", i, 0x26))
	if err != nil {
		panic(err)
	}
	return d
}

func (p c26peer) info() *core.PeerInfo {
	return core.NewPeerInfo(c26peerID(p.id), c26ip(p.ip), p.port, p.origin, p.complete)
}

func c26fromInfo(p *core.PeerInfo) c26peer {
	if p == nil {
		return c26peer{id: 99998}
	}
	port := p.Port
	if port < 0 {
		port = 99999
	}
	return c26peer{c26peerNum(p.PeerID), c26ipNum(p.IP), port, p.Origin, p.Complete}
}

// ---- environment

type c26store struct {
	inner   peerstore.Store
	updFail bool
	getFail bool
	ok      bool
	got     []c26peer
}

func (s *c26store) Close() { s.inner.Close() }

func (s *c26store) UpdatePeer(h core.InfoHash, p *core.PeerInfo) error {
	if s.updFail {
		return errors.New("injected peer store failure")
	}
	return s.inner.UpdatePeer(h, p)
}

func (s *c26store) GetPeers(h core.InfoHash, n int) ([]*core.PeerInfo, error) {
	if s.getFail {
		return nil, errors.New("injected peer store failure")
	}
	r, err := s.inner.GetPeers(h, n)
	if err == nil {
		s.ok = true
		s.got = nil
		for _, p := range r {
			s.got = append(s.got, c26fromInfo(p))
		}
	}
	return r, err
}

type c26origins struct {
	want    core.Digest
	err     bool
	origins []c26peer
	bad     bool
}

func (o *c26origins) GetOrigins(d core.Digest) ([]*core.PeerInfo, error) {
	if d != o.want {
		o.bad = true
	}
	if o.err {
		return nil, errors.New("all origins unavailable")
	}
	var r []*core.PeerInfo
	for _, p := range o.origins {
		r = append(r, p.info()) // fresh allocations, as originstore/store.go:80
	}
	return r, nil
}

// c26run executes the history on a fresh tracker and fills in the observed fields.
func c26run(cfg c26cfg, ops []c26op) (incon bool) {
	policy, err := peerhandoutpolicy.NewPriorityPolicy(tally.NoopScope, cfg.policy)
	if err != nil {
		panic(err)
	}
	st := &c26store{inner: peerstore.NewLocalStore(peerstore.LocalConfig{}, clock.NewMock())}
	defer st.Close()
	org := &c26origins{}
	srv := trackerserver.New(trackerserver.Config{PeerHandoutLimit: cfg.limit}, tally.NoopScope, policy, st, org, nil)
	handler := srv.Handler()
	for i := range ops {
		o := &ops[i]
		st.updFail, st.getFail, st.ok, st.got = o.updFail, o.getFail, false, nil
		d := c26digest(o.h)
		org.want, org.err, org.origins = d, o.orgErr, o.origins
		body, err := json.Marshal(&announceclient.Request{
			Name: d.Hex(), Digest: &d, InfoHash: c26hash(o.h), Peer: o.peer.info()})
		if err != nil {
			panic(err)
		}
		method, url := "POST", "/announce/"+c26hash(o.h).Hex()
		if o.v1 {
			method, url = "GET", "/announce"
		}
		rec := httptest.NewRecorder()
		panicked := false
		func() {
			// net/http recovers a handler panic and drops the connection: no response
			defer func() {
				if recover() != nil {
					panicked = true
				}
			}()
			handler.ServeHTTP(rec, httptest.NewRequest(method, url, bytes.NewReader(body)))
		}()
		o.storeOK, o.storeGot = st.ok, st.got
		o.resp = nil
		if panicked || rec.Code != 200 {
			o.respErr = true
			continue
		}
		var resp announceclient.Response
		if err := json.NewDecoder(rec.Body).Decode(&resp); err != nil {
			return true
		}
		for _, p := range resp.Peers {
			o.resp = append(o.resp, c26fromInfo(p))
		}
	}
	return org.bad
}

// ---- printing

func (p c26peer) coq() string {
	if p == c26agent(p.id, p.complete) {
		return fmt.Sprintf("(ag %d %s)", p.id, c26b(p.complete))
	}
	if p == c26origin(p.id) {
		return fmt.Sprintf("(og %d)", p.id)
	}
	return fmt.Sprintf("(mkp %d %d %d %s %s)", p.id, p.ip, p.port, c26b(p.origin), c26b(p.complete))
}

func c26b(b bool) string {
	if b {
		return "T"
	}
	return "F"
}

func c26peers(ps []c26peer) string {
	s := make([]string, len(ps))
	for i, p := range ps {
		s[i] = p.coq()
	}
	return hlib.List(s)
}

func c26case(cfg c26cfg, ops []c26op) (coq string, nt bool, hist []string) {
	var sops, sobs []string
	big := 0
	for _, o := range ops {
		store, origins := "None", "None"
		if o.storeOK {
			store = hlib.Some(c26peers(o.storeGot))
		}
		if !o.orgErr {
			origins = hlib.Some(c26peers(o.origins))
		}
		sops = append(sops, fmt.Sprintf("mka %d %s %s %s %s", o.h, o.peer.coq(), c26b(o.updFail), store, origins))
		k := "announce-incomplete"
		if o.peer.complete {
			k = "announce-complete"
		}
		hist = append(hist, k)
		if o.respErr {
			sobs = append(sobs, "OErr")
			hist = append(hist, "resp-error")
		} else {
			sobs = append(sobs, "OPeers "+c26peers(o.resp))
			if len(o.resp) >= 2 {
				big++
			}
			if len(o.resp) > 0 {
				hist = append(hist, "resp-handout")
			} else {
				hist = append(hist, "resp-empty")
			}
		}
	}
	pol := "PDefault"
	if cfg.policy == "completeness" {
		pol = "PCompleteness"
	}
	coq = fmt.Sprintf("mkcase (mkc %s %s) %s %s", pol, hlib.Z(int64(cfg.limit)), hlib.List(sops), hlib.List(sobs))
	return coq, big >= 1 && len(ops) >= 2, hist
}

// ---- generators

func c26agent(id int, complete bool) c26peer { return c26peer{id, id, 7000 + id, false, complete} }
func c26origin(id int) c26peer             { return c26peer{id, id, 9000 + id, true, true} }

func c26(ctx *hlib.Ctx) {
	log.SetGlobalLogger(zap.NewNop().Sugar())
	r := hlib.NewRng(ctx.Seed)
	emit := func(cfg c26cfg, ops []c26op, kind string, tags ...string) {
		incon := c26run(cfg, ops)
		coq, nt, hist := c26case(cfg, ops)
		ctx.Emit(hlib.Case{Coq: coq, NT: nt, Kind: kind, Hist: hist, Tags: tags, Incon: incon,
			Sample: map[string]string{"case": coq}})
	}
	ann := func(h int, p c26peer, origins ...c26peer) c26op { return c26op{h: h, peer: p, origins: origins} }
	compl, deflt := "completeness", "default"

	// ---- hand-written seeds (always run first)
	// witness of C26_pointer_eq_refuted: the first announcer of a torrent gets itself back
	emit(c26cfg{deflt, 5}, []c26op{ann(0, c26agent(1, false))}, "seed-self-single")
	emit(c26cfg{compl, 5}, []c26op{ann(0, c26agent(1, false)), ann(0, c26agent(2, false)), ann(0, c26agent(1, false)),
		ann(0, c26agent(2, false), c26origin(101))}, "seed-self-two-peers")
	// completion gets an empty answer, also with origins and peers available
	emit(c26cfg{compl, 5}, []c26op{ann(0, c26agent(1, false), c26origin(101)), ann(0, c26agent(2, true), c26origin(101)),
		ann(0, c26agent(1, true), c26origin(101))}, "seed-complete-empty")
	// completeness order: seeders, origins, incomplete
	emit(c26cfg{compl, 10}, []c26op{ann(0, c26agent(1, false)), ann(0, c26agent(2, true)), ann(0, c26agent(3, false)),
		ann(0, c26agent(4, true)), ann(0, c26agent(5, false), c26origin(101), c26origin(102)),
		ann(0, c26agent(6, false), c26origin(102), c26origin(101))}, "seed-priority")
	// the origin store lists a complete peer without the origin flag after an origin: classes are
	// decided by the origin flag first (completeness_policy.go:28), so it must move in front
	emit(c26cfg{compl, 5}, []c26op{ann(0, c26agent(1, true)), ann(0, c26agent(2, false), c26origin(101), c26peer{120, 120, 9120, false, true}),
		ann(0, c26agent(3, false), c26peer{121, 121, 9121, true, false}, c26origin(101))}, "seed-origin-before-seeder")
	// limits: 1, negative, and 0 = default
	for _, l := range []int{1, 2, -1, 0} {
		var ops []c26op
		for i := 1; i <= 4; i++ {
			ops = append(ops, ann(0, c26agent(i, i%2 == 0), c26origin(101)))
		}
		ops = append(ops, ann(0, c26agent(5, false), c26origin(101), c26origin(102)))
		emit(c26cfg{compl, l}, ops, fmt.Sprintf("seed-limit%d", l))
	}
	// nothing available: error response; store failures
	emit(c26cfg{deflt, 3}, []c26op{{h: 0, peer: c26agent(1, false), updFail: true},
		{h: 0, peer: c26agent(1, false), getFail: true}, {h: 0, peer: c26agent(2, false), orgErr: true},
		{h: 0, peer: c26agent(2, true), updFail: true, orgErr: true}, {h: 1, peer: c26agent(1, false), getFail: true, origins: []c26peer{c26origin(101)}}},
		"seed-faults")
	// witness of C26_nodup_overlap_refuted: an origin that also announced as an agent (outside the
	// environment assumption of the no-duplicates clause)
	emit(c26cfg{compl, 5}, []c26op{ann(0, c26peer{101, 101, 9101, true, true}), ann(0, c26agent(1, false), c26origin(101))},
		"seed-origin-announces", "origins-overlap")
	// re-announce with changed address and flags: the handout shows the latest entry only
	emit(c26cfg{compl, 5}, []c26op{ann(0, c26agent(1, false)), ann(0, c26peer{1, 201, 7999, false, true}),
		ann(0, c26agent(2, false)), ann(1, c26agent(2, false)), ann(1, c26agent(1, false))}, "seed-reannounce")

	// ---- thorough: every history of length <= 4 over 2 peers x completion flag, small limits
	if ctx.Tier == "thorough" {
		type letter struct {
			id       int
			complete bool
		}
		alpha := []letter{{1, false}, {1, true}, {2, false}, {2, true}}
		for _, cfg := range []c26cfg{{compl, 1}, {compl, 2}, {deflt, 1}} {
			for _, norg := range []int{0, 1} {
				var rec func(prefix []letter, depth int)
				rec = func(prefix []letter, depth int) {
					if len(prefix) > 0 {
						var ops []c26op
						for _, l := range prefix {
							o := ann(0, c26agent(l.id, l.complete))
							if norg == 1 {
								o.origins = []c26peer{c26origin(101)}
							}
							ops = append(ops, o)
						}
						emit(cfg, ops, "exhaustive")
					}
					if depth == 0 {
						return
					}
					for _, a := range alpha {
						rec(append(append([]letter{}, prefix...), a), depth-1)
					}
				}
				rec(nil, 4)
			}
		}
	}

	// ---- random histories
	maxOps := 20
	if ctx.Tier == "thorough" {
		maxOps = 40
	}
	for i := 0; i < ctx.N; i++ {
		g := r.Fork()
		stream := g.Intn(100)
		kind := "random"
		k := g.Range(2, 6) // peers
		nt := g.Range(1, 2) // torrents
		n := g.Range(2, maxOps)
		malformed := false
		switch {
		case stream < 6:
			kind = "big"
			k = g.Range(13, 58)
			nt = 1
			n = k + g.Range(1, 6)
		case stream < 20:
			kind = "malformed-env"
			malformed = true
		}
		cfg := c26cfg{policy: compl}
		if g.Chance(35) {
			cfg.policy = deflt
		}
		limits := []int{1, 2, 3, 4, 5, k - 1, k, k + 1, 0, -1}
		if kind == "big" {
			limits = []int{0, 0, 12, 13, 49, 50, 51, k - 1, k, k + 1}
		}
		cfg.limit = limits[g.Intn(len(limits))]
		// per torrent: base origin set (0-2 origins, ids 101..), per (torrent, peer): completion
		base := make([][]c26peer, nt)
		for t := range base {
			for j, no := 0, g.Intn(3); j < no; j++ {
				base[t] = append(base[t], c26origin(101+3*t+j))
			}
		}
		done := map[[2]int]bool{}
		var ops []c26op
		var tags []string
		overlap := false
		for j := 0; j < n; j++ {
			t := g.Intn(nt)
			id := 1 + g.Intn(k)
			if kind == "big" && j < k {
				id = j + 1 // everybody announces once, then random re-announces
			}
			key := [2]int{t, id}
			switch {
			case kind == "big" && j < k:
				done[key] = g.Chance(75) // mostly seeders while the swarm fills up (keeps the case small)
			case !done[key] && g.Chance(14):
				done[key] = true
			case done[key] && g.Chance(4):
				done[key] = false // "any completion flags": a peer may report incomplete again
			}
			p := c26agent(id, done[key])
			if g.Chance(8) {
				p.ip, p.port = 200+id, 7500+g.Intn(3) // moved
			}
			if g.Chance(4) {
				p.origin = true // flag on the announcer itself; the store does not keep it
			}
			o := c26op{h: t, peer: p, origins: append([]c26peer{}, base[t]...), v1: g.Chance(10)}
			if g.Chance(6) && len(o.origins) > 0 {
				o.origins = o.origins[:len(o.origins)-1] // an origin became unavailable
			}
			if g.Chance(10) && len(o.origins) > 1 {
				o.origins[0], o.origins[1] = o.origins[1], o.origins[0]
			}
			if g.Chance(5) {
				o.orgErr, o.origins = true, nil
			}
			if malformed {
				switch g.Intn(6) {
				case 0: // an origin whose id is also an agent's
					o.origins = append(o.origins, c26peer{1 + g.Intn(k), 150, 9150, true, true})
					overlap = true
				case 1: // the same origin twice
					if len(o.origins) > 0 {
						o.origins = append(o.origins, o.origins[0])
						overlap = true
					}
				case 2: // origin reported without the origin flag / not complete
					o.origins = append(o.origins, c26peer{120, 120, 9120, false, g.Bool()})
				case 3:
					o.updFail = true
				case 4:
					o.getFail = true
				}
			}
			ops = append(ops, o)
		}
		if overlap {
			tags = append(tags, "origins-overlap")
		}
		emit(cfg, ops, kind, tags...)
	}
}
