package main

import (
	"crypto/sha256"
	"encoding/hex"
	"errors"
	"fmt"
	"net/http"
	"net/http/httptest"
	"net/url"
	"strings"
	"sync"
	"time"

	"github.com/cenkalti/backoff"
	"github.com/uber-go/tally"
	"github.com/uber/kraken/build-index/tagclient"
	"github.com/uber/kraken/core"
	"github.com/uber/kraken/lib/hostlist"
	"github.com/uber/kraken/lib/persistedretry/tagreplication"
	"github.com/uber/kraken/origin/blobclient"
	"github.com/uber/kraken/utils/httputil"
	"github.com/uber/kraken/utils/log"
	"go.uber.org/zap"
	"verifharness/hlib"
)

// C33: the real tagreplication.Executor.Exec against a scripted environment.
//
//	entry 0 "http":  Executor -> real blobclient.ClusterClient -> real ClientResolver / HTTPClient ->
//	                 httptest origins; real tagclient single client -> httptest build-index.
//	                 The trace is what the servers received.  202 answers cost the real poll
//	                 back-off (>= 1 s each), so cases run on a worker pool and scripts hold few 202s.
//	entry 1 "poll":  Executor -> recording fake tag client; fake ClusterClient whose
//	                 ReplicateToRemote is the real blobclient.Poll with a budgeted back-off
//	                 (reaches back-off exhaustion, which the cluster client's 15-minute back-off hides)
//	                 over recording fake origin clients.
//	entry 2 "server": as entry 0, but every origin is a real blobserver.Server (see c33srv.go).
func init() { hlib.Register("C33", c33) }

type c33resp struct {
	net  bool
	code int
	h    *c33h // entry 2: the state the real origin is put in before the request; code is then unused
}

func (r c33resp) coq() string {
	if r.net {
		return "NET"
	}
	return fmt.Sprintf("(C %d)", r.code)
}

type c33origin struct {
	script []c33resp
	budget int
}

type c33dep struct {
	id      int
	resolve bool
	style   int // how a failing resolve fails (entry 0): 0 500, 1 empty header, 2 no response, 3 404
	origins []c33origin
}

type c33case struct {
	ov     *c33overlap // entry 3
	kind   string
	entry  int
	has    c33resp
	origin c33resp
	deps   []c33dep
	put    c33resp
}

const c33bigBudget = 1000 // entry 0: the real back-off never says Stop within a case

func c33digest(s string) core.Digest {
	h := sha256.Sum256([]byte(s))
	d, err := core.NewSHA256DigestFromHex(hex.EncodeToString(h[:]))
	if err != nil {
		panic(err)
	}
	return d
}

func c33depContent(idx, id int) []byte {
	return []byte(fmt.Sprintf("c33 dependency %d of case %d", id, idx))
}

// the dependency blobs are real blobs (entry 2 stores them in a real CAStore); digests are
// per case so that nothing cached by an origin for one case is seen by another
func c33depDigest(idx, id int) core.Digest { return c33digest(string(c33depContent(idx, id))) }

var c33tagDigest = c33digest("c33 tag manifest")

// ---- the recorder shared by both entries

type c33rec struct {
	mu     sync.Mutex
	c      *c33case
	idx    int
	tag    string
	remote string
	pos    int   // index of the dependency being replicated (-1 before the first resolve)
	cnt    []int // requests seen per origin for the current dependency
	evs    []string
	hist   []string
	nrepl  int
	nets   int // requests the environment deliberately left unanswered
	ups    []string // entry 2/3: per request at a real origin "(status, accepted upload during it)"
}

func (r *c33rec) reset(c *c33case, idx int, tag, remote string) {
	r.mu.Lock()
	defer r.mu.Unlock()
	r.c, r.idx, r.tag, r.remote = c, idx, tag, remote
	r.pos = -1
	r.cnt = nil
	r.evs = nil
	r.hist = nil
	r.nrepl = 0
	r.nets = 0
	r.ups = nil
}

func (r *c33rec) add(kind, s string) {
	r.evs = append(r.evs, s)
	r.hist = append(r.hist, kind)
}

func (r *c33rec) bad(k int) {
	r.add("EBad", fmt.Sprintf("EBad %d", k))
}

// has / origin / put: the answer is fixed by the case
func (r *c33rec) tagReq(what string, tag string, d *core.Digest, replicate bool) (c33resp, bool) {
	r.mu.Lock()
	defer r.mu.Unlock()
	switch what {
	case "has":
		if tag != r.tag {
			r.bad(1)
			return c33resp{code: 500}, false
		}
		r.add("EHas", "EHas "+r.c.has.coq())
		return r.c.has, true
	case "origin":
		r.add("EOrigin", "EOrigin "+r.c.origin.coq())
		return r.c.origin, true
	case "put":
		if tag != r.tag || d == nil || *d != c33tagDigest || !replicate {
			r.bad(2)
			return c33resp{code: 500}, false
		}
		r.add("EPut", "EPut "+r.c.put.coq())
		return r.c.put, true
	}
	r.bad(9)
	return c33resp{code: 500}, false
}

// resolve: a new dependency begins.  Returns the environment of that dependency.
func (r *c33rec) resolve(d core.Digest) (*c33dep, bool) {
	r.mu.Lock()
	defer r.mu.Unlock()
	r.pos++
	if r.pos >= len(r.c.deps) || c33depDigest(r.idx, r.c.deps[r.pos].id) != d {
		r.bad(3)
		r.pos = len(r.c.deps) // nothing matches any more
		return nil, false
	}
	de := &r.c.deps[r.pos]
	r.cnt = make([]int, len(de.origins)+4)
	ok := de.resolve
	if r.c.entry != 1 && len(de.origins) == 0 {
		ok = false // Locations: an empty Origin-Locations header is an error (client.go:135)
	}
	r.add("EResolve", fmt.Sprintf("EResolve %d %s", de.id, hlib.B(ok)))
	return de, ok
}

// one replicate request at origin o: the scripted answer, and the function that records the
// answer actually given (entries 0 and 1 give the scripted one)
func (r *c33rec) replBegin(o int, ns string, d core.Digest, remote string) (c33resp, func(c33resp)) {
	r.mu.Lock()
	defer r.mu.Unlock()
	if r.pos < 0 || r.pos >= len(r.c.deps) || ns != r.tag || remote != r.remote ||
		c33depDigest(r.idx, r.c.deps[r.pos].id) != d || o >= len(r.c.deps[r.pos].origins) {
		r.bad(4)
		return c33resp{code: 200}, func(c33resp) {}
	}
	de := &r.c.deps[r.pos]
	k := r.cnt[o]
	r.cnt[o]++
	resp := c33resp{net: true}
	if k < len(de.origins[o].script) {
		resp = de.origins[o].script[k]
	}
	r.nrepl++
	return resp, func(actual c33resp) {
		r.mu.Lock()
		defer r.mu.Unlock()
		r.add("ERepl", fmt.Sprintf("ERepl %d %d %s", de.id, o, actual.coq()))
	}
}

func (r *c33rec) repl(o int, ns string, d core.Digest, remote string) c33resp {
	resp, record := r.replBegin(o, ns, d, remote)
	record(resp)
	return resp
}

func (r *c33rec) badLocked(k int) {
	r.mu.Lock()
	defer r.mu.Unlock()
	r.bad(k)
}

// ---- client-side transport failures.  The real clients use http.DefaultTransport; it is wrapped
// so that a request that failed without the environment having refused it on purpose (connect
// failure or client timeout on a loaded machine) is noticed: such a case is re-run, and if it
// keeps happening it is reported inconclusive, never compared.

type c33transport struct {
	base http.RoundTripper
	mu   sync.Mutex
	errs map[string]int
}

func (t *c33transport) RoundTrip(q *http.Request) (*http.Response, error) {
	resp, err := t.base.RoundTrip(q)
	if err != nil {
		t.mu.Lock()
		t.errs[q.URL.Host]++
		t.mu.Unlock()
	}
	return resp, err
}

func (t *c33transport) count(hosts []string) int {
	t.mu.Lock()
	defer t.mu.Unlock()
	n := 0
	for _, h := range hosts {
		n += t.errs[h]
	}
	return n
}

var c33tr = &c33transport{errs: map[string]int{}}

// ---- entry 0: httptest environment owned by one worker

type c33http struct {
	rec     *c33rec
	tagSrv  *httptest.Server
	cluSrv  *httptest.Server
	origins []*httptest.Server
	real    []*c33blobsrv // entry 2: the real blobserver behind each origin listener
	peer    *c33http      // entry 3: a second executor's environment sharing these origins
	shared  bool          // the origins belong to another environment
	exec    *tagreplication.Executor
}

// recFor: which execution does a request at a (shared) origin belong to
func (e *c33http) recFor(ns string) *c33rec {
	if e.peer != nil {
		e.peer.rec.mu.Lock()
		t := e.peer.rec.tag
		e.peer.rec.mu.Unlock()
		if ns == t {
			return e.peer.rec
		}
	}
	return e.rec
}

func c33addr(s *httptest.Server) string { return strings.TrimPrefix(s.URL, "http://") }

func c33serve(h http.HandlerFunc) *httptest.Server {
	s := httptest.NewUnstartedServer(h)
	// every request on a fresh connection: the client's transport never re-sends a request
	// because a reused connection was found closed
	s.Config.SetKeepAlivesEnabled(false)
	s.Start()
	return s
}

func (e *c33http) answer(w http.ResponseWriter, resp c33resp, body string) {
	if resp.net {
		e.rec.mu.Lock()
		e.rec.nets++
		e.rec.mu.Unlock()
		if hj, ok := w.(http.Hijacker); ok {
			if conn, _, err := hj.Hijack(); err == nil {
				conn.Close()
				return
			}
		}
		panic("c33: cannot hijack")
	}
	w.WriteHeader(resp.code)
	if resp.code == 200 && body != "" {
		w.Write([]byte(body))
	}
}

const c33maxOrigins = 3

func newC33http(real []*c33blobsrv) *c33http { return newC33httpShared(real, nil) }

// newC33httpShared: with from != nil the new environment (own build-index, own locations server,
// own executor) uses the origins of from
func newC33httpShared(real []*c33blobsrv, from *c33http) *c33http {
	e := &c33http{rec: &c33rec{}, real: real}
	if from != nil {
		e.origins, e.shared = from.origins, true
		from.peer = e
	}
	e.tagSrv = c33serve(func(w http.ResponseWriter, q *http.Request) {
		p := q.URL.EscapedPath()
		switch {
		case q.Method == "GET" && p == "/origin":
			resp, _ := e.rec.tagReq("origin", "", nil, false)
			e.answer(w, resp, e.rec.remote)
		case q.Method == "HEAD" && strings.HasPrefix(p, "/tags/") && strings.Count(p, "/") == 2:
			tag, _ := url.PathUnescape(strings.TrimPrefix(p, "/tags/"))
			resp, _ := e.rec.tagReq("has", tag, nil, false)
			e.answer(w, resp, "")
		case q.Method == "PUT" && strings.HasPrefix(p, "/tags/"):
			parts := strings.Split(strings.TrimPrefix(p, "/tags/"), "/")
			if len(parts) != 3 || parts[1] != "digest" {
				e.rec.tagReq("?", "", nil, false)
				w.WriteHeader(500)
				return
			}
			tag, _ := url.PathUnescape(parts[0])
			ds, _ := url.PathUnescape(parts[2])
			var dp *core.Digest
			if d, err := core.ParseSHA256Digest(ds); err == nil {
				dp = &d
			}
			resp, _ := e.rec.tagReq("put", tag, dp, q.URL.Query().Get("replicate") == "true")
			e.answer(w, resp, "")
		default:
			e.rec.tagReq("?", "", nil, false)
			w.WriteHeader(500)
		}
	})
	for i := 0; i < c33maxOrigins && from == nil; i++ {
		i := i
		e.origins = append(e.origins, c33serve(func(w http.ResponseWriter, q *http.Request) {
			// POST /namespace/{namespace}/blobs/{digest}/remote/{remote}
			parts := strings.Split(strings.TrimPrefix(q.URL.EscapedPath(), "/"), "/")
			if q.Method != "POST" || len(parts) != 6 || parts[0] != "namespace" || parts[2] != "blobs" || parts[4] != "remote" {
				e.rec.mu.Lock()
				e.rec.bad(5)
				e.rec.mu.Unlock()
				w.WriteHeader(500)
				return
			}
			ns, _ := url.PathUnescape(parts[1])
			ds, _ := url.PathUnescape(parts[3])
			remote, _ := url.PathUnescape(parts[5])
			d, err := core.ParseSHA256Digest(ds)
			if err != nil {
				e.rec.mu.Lock()
				e.rec.bad(6)
				e.rec.mu.Unlock()
				w.WriteHeader(500)
				return
			}
			if e.real == nil {
				e.answer(w, e.rec.repl(i, ns, d, remote), "")
				return
			}
			rec := e.recFor(ns)
			resp, record := rec.replBegin(i, ns, d, remote)
			if resp.net || resp.h == nil {
				record(c33resp{net: true})
				e.answer(w, c33resp{net: true}, "")
				return
			}
			e.real[i].serve(w, q, rec, d, resp.h, record)
		}))
	}
	e.cluSrv = c33serve(func(w http.ResponseWriter, q *http.Request) {
		// GET /blobs/{digest}/locations
		parts := strings.Split(strings.TrimPrefix(q.URL.EscapedPath(), "/"), "/")
		if q.Method != "GET" || len(parts) != 3 || parts[0] != "blobs" || parts[2] != "locations" {
			e.rec.mu.Lock()
			e.rec.bad(7)
			e.rec.mu.Unlock()
			w.WriteHeader(500)
			return
		}
		ds, _ := url.PathUnescape(parts[1])
		d, err := core.ParseSHA256Digest(ds)
		if err != nil {
			e.rec.mu.Lock()
			e.rec.bad(8)
			e.rec.mu.Unlock()
			w.WriteHeader(500)
			return
		}
		de, ok := e.rec.resolve(d)
		if de == nil {
			w.WriteHeader(500)
			return
		}
		if !ok {
			if de.resolve && len(de.origins) == 0 {
				w.WriteHeader(200) // no Origin-Locations header
				return
			}
			switch de.style {
			case 1:
				w.Header().Set("Origin-Locations", "")
				w.WriteHeader(200)
			case 2:
				e.answer(w, c33resp{net: true}, "")
			case 3:
				w.WriteHeader(404)
			default:
				w.WriteHeader(500)
			}
			return
		}
		var addrs []string
		for i := range de.origins {
			addrs = append(addrs, c33addr(e.origins[i]))
		}
		w.Header().Set("Origin-Locations", strings.Join(addrs, ","))
		w.WriteHeader(200)
	})
	cluster := blobclient.NewClusterClient(
		blobclient.NewClientResolver(blobclient.NewProvider(), hostlist.Fixture(c33addr(e.cluSrv))))
	e.exec = tagreplication.NewExecutor(tally.NoopScope, cluster, tagclient.NewProvider(nil))
	return e
}

func (e *c33http) close() {
	e.tagSrv.Close()
	e.cluSrv.Close()
	if e.shared {
		return
	}
	for _, o := range e.origins {
		o.Close()
	}
	for _, b := range e.real {
		b.close()
	}
}

func c33task(c *c33case, idx int, tag, dest string) *tagreplication.Task {
	var deps core.DigestList
	for _, de := range c.deps {
		deps = append(deps, c33depDigest(idx, de.id))
	}
	return tagreplication.NewTask(tag, c33tagDigest, deps, dest, 0)
}

func (e *c33http) hosts() []string {
	hs := []string{c33addr(e.tagSrv), c33addr(e.cluSrv)}
	for _, o := range e.origins {
		hs = append(hs, c33addr(o))
	}
	return hs
}

// run executes the case once.  incon = the client lost a request that the environment had not
// refused on purpose (connect failure or client-side timeout on a loaded machine); the caller
// then throws this environment away (a late request must not reach the next case) and re-runs.
func (e *c33http) run(c *c33case, idx int) c33out {
	tag := fmt.Sprintf("verif/c33 img:%d", idx) // needs path escaping
	remote := fmt.Sprintf("remote-origin-%d.example:8080", idx)
	e.rec.reset(c, idx, tag, remote)
	before := c33tr.count(e.hosts())
	err := e.exec.Exec(c33task(c, idx, tag, c33addr(e.tagSrv)))
	for _, b := range e.real {
		b.endCase()
	}
	lost := c33tr.count(e.hosts()) - before
	e.rec.mu.Lock()
	defer e.rec.mu.Unlock()
	return c33out{ok: err == nil, evs: e.rec.evs, hist: e.rec.hist, nrepl: e.rec.nrepl, ups: e.rec.ups, incon: lost != e.rec.nets}
}

// ---- entry 1: fakes around the real Poll

type c33fakeTag struct {
	tagclient.Client // nil: any other method panics
	rec              *c33rec
}

func c33err(r c33resp, method string) error {
	if r.net {
		return errors.New("dial tcp: connection refused")
	}
	if r.code == 200 {
		return nil
	}
	return httputil.StatusError{Method: method, URL: "http://fake", Status: r.code}
}

func (f *c33fakeTag) Has(tag string) (bool, error) {
	r, _ := f.rec.tagReq("has", tag, nil, false)
	if !r.net && r.code == 404 {
		return false, nil // singleClient.Has maps 404 to (false, nil)
	}
	if err := c33err(r, "HEAD"); err != nil {
		return false, err
	}
	return true, nil
}

func (f *c33fakeTag) Origin() (string, error) {
	r, _ := f.rec.tagReq("origin", "", nil, false)
	if err := c33err(r, "GET"); err != nil {
		return "", err
	}
	return f.rec.remote, nil
}

func (f *c33fakeTag) PutAndReplicate(tag string, d core.Digest) error {
	r, _ := f.rec.tagReq("put", tag, &d, true)
	return c33err(r, "PUT")
}

type c33fakeProvider struct{ c tagclient.Client }

func (p c33fakeProvider) Provide(string) tagclient.Client { return p.c }

type c33fakeOrigin struct {
	blobclient.Client
	rec *c33rec
	idx int
}

func (o *c33fakeOrigin) Addr() string { return fmt.Sprintf("origin%d:80", o.idx) }

func (o *c33fakeOrigin) ReplicateToRemote(ns string, d core.Digest, remote string) error {
	return c33err(o.rec.repl(o.idx, ns, d, remote), "POST")
}

type c33fakeResolver struct {
	rec *c33rec
	cur *c33dep
}

func (r *c33fakeResolver) Resolve(d core.Digest) ([]blobclient.Client, error) {
	de, ok := r.rec.resolve(d)
	r.cur = de
	if !ok {
		return nil, errors.New("cluster is empty")
	}
	var cs []blobclient.Client
	for i := range de.origins {
		cs = append(cs, &c33fakeOrigin{rec: r.rec, idx: i})
	}
	return cs, nil
}

// c33backoff answers a (zero) duration budget[o] times for the o-th origin since the Poll
// began, then Stop.  Poll calls Reset once per origin.
type c33backoff struct {
	res    *c33fakeResolver
	origin int
	used   int
}

func (b *c33backoff) Reset() { b.origin++; b.used = 0 }
func (b *c33backoff) NextBackOff() time.Duration {
	de := b.res.cur
	if de == nil || b.origin < 0 || b.origin >= len(de.origins) || b.used >= de.origins[b.origin].budget {
		return backoff.Stop
	}
	b.used++
	return 0
}

type c33fakeCluster struct {
	blobclient.ClusterClient
	res *c33fakeResolver
}

// the body of clusterClient.ReplicateToRemote (cluster_client.go:359-364) with the back-off replaced
func (c *c33fakeCluster) ReplicateToRemote(ns string, d core.Digest, remote string) error {
	return blobclient.Poll(c.res, &c33backoff{res: c.res, origin: -1}, d, func(cl blobclient.Client) error {
		return cl.ReplicateToRemote(ns, d, remote)
	})
}

func c33runPoll(c *c33case, idx int) c33out {
	rec := &c33rec{}
	tag := fmt.Sprintf("verif/c33 img:%d", idx)
	rec.reset(c, idx, tag, fmt.Sprintf("remote-origin-%d.example:8080", idx))
	res := &c33fakeResolver{rec: rec}
	ex := tagreplication.NewExecutor(tally.NoopScope, &c33fakeCluster{res: res},
		c33fakeProvider{&c33fakeTag{rec: rec}})
	err := ex.Exec(c33task(c, idx, tag, "remote-build-index:80"))
	return c33out{ok: err == nil, evs: rec.evs, hist: rec.hist, nrepl: rec.nrepl}
}

// ---- Coq printing

func (c *c33case) coqEnv() string {
	var ds []string
	for _, de := range c.deps {
		var os []string
		for _, o := range de.origins {
			var sc []string
			for _, r := range o.script {
				if c.entry >= 2 {
					sc = append(sc, r.h.coq())
				} else {
					sc = append(sc, r.coq())
				}
			}
			if c.entry >= 2 {
				os = append(os, fmt.Sprintf("O (served %s) %d", hlib.List(sc), o.budget))
			} else {
				os = append(os, fmt.Sprintf("O %s %d", hlib.List(sc), o.budget))
			}
		}
		ok := de.resolve
		if c.entry != 1 && len(de.origins) == 0 {
			ok = false
		}
		ds = append(ds, fmt.Sprintf("D %d %s %s", de.id, hlib.B(ok), hlib.List(os)))
	}
	return fmt.Sprintf("(mkenv %s %s %s %s)", c.has.coq(), c.origin.coq(), hlib.List(ds), c.put.coq())
}

type c33out struct {
	ups   []string
	other *c33out // entry 3: the second execution
	note  string
	ok    bool
	evs   []string
	hist  []string
	nrepl int
	incon bool
}

// ---- generators

func rc(code int) c33resp { return c33resp{code: code} }

var rnet = c33resp{net: true}

func c33org(budget int, script ...c33resp) c33origin { return c33origin{script: script, budget: budget} }

// what the generator expects of one origin (used only to prune the enumeration; the verdict
// always comes from Coq): 0 success, 1 final failure, 2 next origin
func c33shadowOrigin(o c33origin) int {
	bud := o.budget
	for _, r := range o.script {
		switch {
		case r.net:
			return 2
		case r.code == 200:
			return 0
		case r.code == 202:
			if bud == 0 {
				return 2
			}
			bud--
		case r.code < 500:
			return 1
		default:
			return 2
		}
	}
	return 2
}

func c33shadowDep(de c33dep, entry int) bool {
	if !de.resolve || (entry != 1 && len(de.origins) == 0) {
		return false
	}
	for _, o := range de.origins {
		switch c33shadowOrigin(o) {
		case 0:
			return true
		case 1:
			return false
		}
	}
	return false
}

// the per-origin behaviours of the exhaustive sweep
func c33behaviours(entry int) []c33origin {
	bb := c33bigBudget
	if entry == 1 {
		bb = 2
	}
	bs := []c33origin{
		c33org(bb, rc(200)),
		c33org(bb, rc(202), rc(200)),
		c33org(bb, rc(404)),
		c33org(bb, rc(503)),
		c33org(bb, rnet),
	}
	if entry == 1 {
		bs = append(bs, c33org(1, rc(202), rc(202), rc(200))) // back-off exhausted
	}
	return bs
}

// every way one dependency can go over [no] origins: behaviours after a final one are not
// reached and are filled with 200
func c33depPatterns(entry, no int) [][]c33origin {
	bs := c33behaviours(entry)
	var out [][]c33origin
	var rec func(prefix []c33origin)
	rec = func(prefix []c33origin) {
		if len(prefix) == no {
			out = append(out, append([]c33origin{}, prefix...))
			return
		}
		for _, b := range bs {
			p := append(append([]c33origin{}, prefix...), b)
			if c33shadowOrigin(b) != 2 {
				for len(p) < no {
					p = append(p, c33org(b.budget, rc(200)))
				}
				out = append(out, p)
				continue
			}
			rec(p)
		}
	}
	rec(nil)
	return out
}

func c33exhaustive(entry, maxDeps, no int, emit func(c c33case)) {
	pats := c33depPatterns(entry, no)
	filler := c33dep{resolve: true, origins: []c33origin{c33org(c33bigBudget, rc(200))}}
	var rec func(prefix []c33dep, nd int)
	rec = func(prefix []c33dep, nd int) {
		if len(prefix) == nd {
			kind := fmt.Sprintf("exhaustive-e%d-%ddeps-%dorigins", entry, nd, no)
			emit(c33case{kind: kind, entry: entry, has: rc(404), origin: rc(200), deps: prefix, put: rc(200)})
			emit(c33case{kind: kind + "-putfails", entry: entry, has: rc(404), origin: rc(200), deps: prefix, put: rc(500)})
			return
		}
		for _, p := range pats {
			de := c33dep{id: len(prefix) + 1, resolve: true, origins: p}
			ds := append(append([]c33dep{}, prefix...), de)
			if !c33shadowDep(de, entry) {
				// the remaining dependencies must not be touched
				for len(ds) < nd {
					f := filler
					f.id = len(ds) + 1
					ds = append(ds, f)
				}
				emit(c33case{kind: fmt.Sprintf("exhaustive-e%d-%ddeps-%dorigins", entry, nd, no), entry: entry,
					has: rc(404), origin: rc(200), deps: ds, put: rc(200)})
				continue
			}
			rec(ds, nd)
		}
	}
	for nd := 1; nd <= maxDeps; nd++ {
		rec(nil, nd)
	}
}

func c33seeds(emit func(c c33case)) {
	ok1 := func(id int) c33dep {
		return c33dep{id: id, resolve: true, origins: []c33origin{c33org(c33bigBudget, rc(200))}}
	}
	for entry := 0; entry <= 1; entry++ {
		bb := c33bigBudget
		if entry == 1 {
			bb = 3
		}
		e := func(kind string, has, org c33resp, deps []c33dep, put c33resp) {
			emit(c33case{kind: "seed-" + kind, entry: entry, has: has, origin: org, deps: deps, put: put})
		}
		two := []c33dep{ok1(1), ok1(2)}
		// the remote already has the tag: nothing else is sent
		e("present", rc(200), rc(200), two, rc(200))
		e("present-nodeps", rc(200), rc(500), nil, rc(500))
		// Has fails / answers oddly: the executor goes on
		e("has-500", rc(500), rc(200), two, rc(200))
		e("has-net", rnet, rc(200), two, rc(200))
		e("has-204", rc(204), rc(200), two, rc(200))
		e("has-202", rc(202), rc(200), two, rc(200))
		// the remote origin cluster cannot be looked up
		e("origin-500", rc(404), rc(500), two, rc(200))
		e("origin-net", rc(404), rnet, two, rc(200))
		e("origin-404", rc(404), rc(404), two, rc(200))
		// no dependencies: the put goes out at once
		e("nodeps", rc(404), rc(200), nil, rc(200))
		e("nodeps-putfails", rc(404), rc(200), nil, rc(409))
		// the put itself fails
		e("put-net", rc(404), rc(200), two, rnet)
		e("put-202", rc(404), rc(200), two, rc(202))
		e("put-503", rc(404), rc(200), two, rc(503))
		// resolve fails for the first / second dependency
		for st := 0; st < 4; st++ {
			e("resolve-fails-1", rc(404), rc(200), []c33dep{{id: 1, style: st}, ok1(2)}, rc(200))
			e("resolve-fails-2", rc(404), rc(200), []c33dep{ok1(1), {id: 2, style: st}}, rc(200))
		}
		// no origin owns the dependency
		e("zero-origins", rc(404), rc(200), []c33dep{{id: 1, resolve: true}, ok1(2)}, rc(200))
		// the same blob listed twice; the second time it fails
		e("dup-dep", rc(404), rc(200), []c33dep{ok1(1), ok1(1)}, rc(200))
		e("dup-dep-second-fails", rc(404), rc(200),
			[]c33dep{ok1(1), {id: 1, resolve: true, origins: []c33origin{c33org(bb, rc(404))}}, ok1(2)}, rc(200))
		e("dup-dep-first-fails", rc(404), rc(200),
			[]c33dep{{id: 1, resolve: true, origins: []c33origin{c33org(bb, rc(500))}}, ok1(1)}, rc(200))
		// 202 runs
		e("202-200", rc(404), rc(200), []c33dep{{id: 1, resolve: true, origins: []c33origin{c33org(bb, rc(202), rc(200))}}, ok1(2)}, rc(200))
		e("202-202-200", rc(404), rc(200), []c33dep{ok1(2), {id: 1, resolve: true, origins: []c33origin{c33org(bb, rc(202), rc(202), rc(200))}}}, rc(200))
		e("202-404", rc(404), rc(200), []c33dep{{id: 1, resolve: true, origins: []c33origin{c33org(bb, rc(202), rc(404)), c33org(bb, rc(200))}}, ok1(2)}, rc(200))
		e("202-503-next", rc(404), rc(200), []c33dep{{id: 1, resolve: true, origins: []c33origin{c33org(bb, rc(202), rc(503)), c33org(bb, rc(200))}}, ok1(2)}, rc(200))
		e("202-net-next", rc(404), rc(200), []c33dep{{id: 1, resolve: true, origins: []c33origin{c33org(bb, rc(202), rnet), c33org(bb, rc(202), rc(200))}}, ok1(2)}, rc(200))
		e("202-gone", rc(404), rc(200), []c33dep{{id: 1, resolve: true, origins: []c33origin{c33org(bb, rc(202)), c33org(bb, rc(200))}}}, rc(200))
		// status boundaries of Poll: < 500 is final, >= 500 moves on, only 200 is success
		for _, code := range []int{201, 204, 400, 409, 499, 500, 501, 599} {
			e(fmt.Sprintf("code-%d", code), rc(404), rc(200),
				[]c33dep{{id: 1, resolve: true, origins: []c33origin{c33org(bb, rc(code)), c33org(bb, rc(200))}}, ok1(2)}, rc(200))
		}
		// every origin fails
		e("all-origins-fail", rc(404), rc(200), []c33dep{ok1(1), {id: 2, resolve: true, origins: []c33origin{c33org(bb, rc(500)), c33org(bb, rnet), c33org(bb, rc(503))}}, ok1(3)}, rc(200))
		e("third-origin-ok", rc(404), rc(200), []c33dep{{id: 2, resolve: true, origins: []c33origin{c33org(bb, rc(500)), c33org(bb, rnet), c33org(bb, rc(200))}}, ok1(3)}, rc(200))
		e("empty-script", rc(404), rc(200), []c33dep{{id: 1, resolve: true, origins: []c33origin{c33org(bb), c33org(bb, rc(200))}}}, rc(200))
	}
	// back-off budgets (entry 1 only)
	for bud := 0; bud <= 3; bud++ {
		for n202 := 0; n202 <= 4; n202++ {
			var sc []c33resp
			for i := 0; i < n202; i++ {
				sc = append(sc, rc(202))
			}
			sc = append(sc, rc(200))
			emit(c33case{kind: "seed-budget", entry: 1, has: rc(404), origin: rc(200),
				deps: []c33dep{{id: 1, resolve: true, origins: []c33origin{{script: sc, budget: bud}}}, ok1(2)}, put: rc(200)})
			emit(c33case{kind: "seed-budget-next", entry: 1, has: rc(404), origin: rc(200),
				deps: []c33dep{{id: 1, resolve: true, origins: []c33origin{{script: sc, budget: bud}, {script: sc, budget: bud + 1}}}, ok1(2)}, put: rc(200)})
		}
	}
}

func c33random(r *hlib.Rng, i int) c33case {
	entry := 0
	if r.Chance(55) {
		entry = 1
	}
	c := c33case{kind: fmt.Sprintf("random-e%d", entry), entry: entry, has: rc(404), origin: rc(200), put: rc(200)}
	pick := func(codes ...int) c33resp {
		k := r.Intn(len(codes) + 1)
		if k == len(codes) {
			return rnet
		}
		return rc(codes[k])
	}
	switch r.Intn(12) {
	case 0:
		c.has = rc(200)
	case 1:
		c.has = pick(500, 503, 204, 403)
	}
	if r.Chance(8) {
		c.origin = pick(500, 404, 503)
	}
	if r.Chance(20) {
		c.put = pick(500, 409, 202, 404, 503)
	}
	nd := r.Intn(5)
	left202 := 3 // entry 0: bound the real sleeping
	healthy := r.Chance(60)
	for j := 0; j < nd; j++ {
		de := c33dep{id: r.Range(1, 3), resolve: true, style: r.Intn(4)}
		if r.Chance(5) {
			de.resolve = false
		}
		no := r.Range(1, 3)
		if r.Chance(4) {
			no = 0
		}
		for o := 0; o < no; o++ {
			var sc []c33resp
			n := r.Range(0, 4)
			for k := 0; k < n; k++ {
				var x c33resp
				q := r.Intn(100)
				switch {
				case q < 35:
					x = rc(202)
				case healthy && q < 90 || q < 55:
					x = rc(200)
				case q < 65:
					x = rc([]int{500, 503, 502, 599}[r.Intn(4)])
				case q < 75:
					x = rc([]int{404, 400, 409, 499, 201}[r.Intn(5)])
				case q < 85:
					x = rnet
				default:
					x = rc(200)
				}
				if x.code == 202 && entry == 0 {
					if left202 == 0 {
						x = rc(200)
					} else {
						left202--
					}
				}
				sc = append(sc, x)
			}
			bud := c33bigBudget
			if entry == 1 {
				bud = r.Intn(4)
			}
			de.origins = append(de.origins, c33origin{script: sc, budget: bud})
		}
		c.deps = append(c.deps, de)
	}
	return c
}

func c33(ctx *hlib.Ctx) {
	c33tr.base = http.DefaultTransport
	http.DefaultTransport = c33tr
	zc := zap.NewProductionConfig()
	zc.OutputPaths = []string{}
	log.ConfigureLogger(zc)

	var cases []c33case
	add := func(c c33case) { cases = append(cases, c) }
	c33seeds(add)
	if ctx.Tier == "thorough" {
		c33exhaustive(1, 3, 2, add)
		c33exhaustive(0, 3, 2, add)
		c33exhaustive(1, 2, 3, add)
		c33exhaustive(1, 3, 1, add)
		c33exhaustive(0, 2, 1, add)
	} else {
		c33exhaustive(1, 2, 2, add)
		c33exhaustive(0, 2, 2, add)
		c33exhaustive(1, 2, 1, add)
	}
	r := hlib.NewRng(ctx.Seed)
	for i := 0; i < ctx.N; i++ {
		add(c33random(r.Fork(), i))
	}
	c33addServerCases(ctx, r, add)

	outs := make([]c33out, len(cases))
	nw := 64
	if ctx.Tier == "thorough" {
		nw = 96
	}
	jobs := make(chan int, len(cases))
	for i := range cases {
		jobs <- i
	}
	close(jobs)
	var wg sync.WaitGroup
	for w := 0; w < nw; w++ {
		w := w
		wg.Add(1)
		go func() {
			defer wg.Done()
			envs := map[int]*c33http{} // per entry (0 http, 2 server), owned by this worker
			gen := 0
			get := func(entry int) *c33http {
				if envs[entry] == nil {
					if entry == 2 {
						gen++
						envs[entry] = newC33http(newC33blobsrvs(ctx, w*1000+gen))
					} else {
						envs[entry] = newC33http(nil)
					}
				}
				return envs[entry]
			}
			for i := range jobs {
				c := &cases[i]
				var o c33out
				for attempt := 0; attempt < 3; attempt++ {
					done := make(chan c33out, 1)
					go func() {
						if c.entry == 1 {
							done <- c33runPoll(c, i)
						} else if c.entry == 3 {
							a := get(2)
							if a.peer == nil {
								newC33httpShared(a.real, a)
							}
							done <- c33runOverlap(a, c, i)
						} else {
							done <- get(c.entry).run(c, i)
						}
					}()
					select {
					case o = <-done:
					case <-time.After(240 * time.Second):
						// never decided by a timeout: not evaluated
						o = c33out{incon: true}
					}
					if !o.incon {
						break
					}
					ek := c.entry
					if ek == 3 {
						ek = 2
					}
					if env := envs[ek]; env != nil {
						delete(envs, ek)
						go env.close() // abandoned; closing waits for its stragglers
					}
					time.Sleep(300 * time.Millisecond)
				}
				outs[i] = o
			}
			for _, env := range envs {
				env.close()
			}
		}()
	}
	wg.Wait()

	emit := func(c *c33case, o c33out, entry string) {
		res := "Err"
		if o.ok {
			res = "Ok"
		}
		env := c.coqEnv()
		ctx.Emit(hlib.Case{
			Coq:   fmt.Sprintf("mkcase %s %s %s %s", env, hlib.List(o.evs), res, hlib.List(o.ups)),
			NT:    o.nrepl > 0,
			Kind:  c.kind,
			Key:   fmt.Sprintf("%s %s", entry, env),
			Hist:  o.hist,
			Incon: o.incon,
			Sample: map[string]interface{}{"entry": entry, "env": env, "trace": o.evs, "result": res,
				"uploads": o.ups, "note": o.note},
		})
	}
	for i := range cases {
		c := &cases[i]
		o := outs[i]
		if c.entry == 3 {
			ob := c33out{incon: true}
			if o.other != nil {
				ob = *o.other
			}
			ob.incon = ob.incon || o.incon
			emit(c, o, "overlap-first")
			emit(c.ov.b, ob, "overlap-second")
			continue
		}
		emit(c, o, []string{"http", "poll", "server"}[c.entry])
	}
}
