// Command c33 hosts the driver of property C33.
package main

import "verifharness/hlib"

func main() { hlib.Main() }
