package main

import (
	"bytes"
	"context"
	"errors"
	"fmt"
	"io"
	"net/http"
	"os"
	"path/filepath"
	"sync"
	"time"

	"github.com/andres-erbsen/clock"
	"github.com/uber-go/tally"
	"github.com/uber/kraken/core"
	"github.com/uber/kraken/lib/backend"
	"github.com/uber/kraken/lib/backend/backenderrors"
	"github.com/uber/kraken/lib/blobrefresh"
	"github.com/uber/kraken/lib/hashring"
	"github.com/uber/kraken/lib/healthcheck"
	"github.com/uber/kraken/lib/hostlist"
	"github.com/uber/kraken/lib/metainfogen"
	"github.com/uber/kraken/lib/store"
	"github.com/uber/kraken/origin/blobclient"
	"github.com/uber/kraken/origin/blobserver"
	"verifharness/hlib"
)

// entry 2: every origin is a real blobserver.Server (real chi routes, real replicateToRemote
// handler, real CAStore, real blobrefresh.Refresher).  Scripted are only the things the handler
// looks at: is the blob in the origin's cache, what does the storage backend say when the origin
// tries to fetch it, and what does the remote cluster say when the origin uploads to it.

// c33h is the state an origin is put in before a replicate request reaches its handler.
type c33h struct {
	cache   int // 0 CPresent, 1 CAbsent
	refresh int // 0 FStarted, 1 FPending, 2 FNotFound, 4 FOther          (cache absent)
	upload  int // 0 UOk, 1 UFail, 2 UNoProvider                           (cache present)
}

func (h *c33h) coq() string {
	return fmt.Sprintf("mkh %s %s %s",
		[]string{"CPresent", "CAbsent"}[h.cache],
		[]string{"FStarted", "FPending", "FNotFound", "FBusy", "FOther"}[h.refresh],
		[]string{"UOk", "UFail", "UNoProvider"}[h.upload])
}

// expected status (generator guidance only)
func (h *c33h) code() int {
	if h.cache == 1 {
		switch h.refresh {
		case 0, 1:
			return 202
		case 2:
			return 404
		default:
			return 500
		}
	}
	if h.upload == 0 {
		return 200
	}
	return 500
}

// ---- scripted storage backend of one origin

type c33backend struct {
	mu      sync.Mutex
	stat    int // 0 ok, 2 not found, 4 error
	size    int64
	release chan struct{} // closed at the end of the case: blocked downloads fail
	active  sync.WaitGroup
}

func (b *c33backend) Stat(namespace, name string) (*core.BlobInfo, error) {
	b.mu.Lock()
	defer b.mu.Unlock()
	switch b.stat {
	case 2:
		return nil, backenderrors.ErrBlobNotFound
	case 4:
		return nil, errors.New("c33: storage backend unavailable")
	}
	return core.NewBlobInfo(b.size), nil
}

// Download: the blob is "still being fetched" for as long as the case lasts
func (b *c33backend) Download(namespace, name string, dst io.Writer) error {
	b.mu.Lock()
	ch := b.release
	b.mu.Unlock()
	<-ch
	return errors.New("c33: download abandoned at the end of the case")
}

func (b *c33backend) Upload(namespace, name string, src io.Reader) error { return errors.New("unused") }
func (b *c33backend) List(prefix string, opts ...backend.ListOption) (*backend.ListResult, error) {
	return nil, errors.New("unused")
}
func (b *c33backend) Close() error { return nil }

// ---- scripted remote cluster of one origin

// c33req is what the harness knows about ONE replicate request that reached a real origin; it
// travels in the request context, which the handler hands to remote.UploadBlob.
type c33req struct {
	ns       string
	d        core.Digest
	blob     []byte
	mode     int           // 0 upload ok, 1 upload fails
	release  chan struct{} // non-nil: the upload parks until this is closed
	uploaded bool          // a correct upload of this request was accepted by the remote cluster
	wrong    bool
}

type c33reqKey struct{}

type c33remote struct {
	blobclient.ClusterClient // nil: any other method panics
	p                        *c33provider
}

type c33provider struct {
	mu         sync.Mutex
	noProvider bool
	wantDNS    string
	wrongDNS   bool
	parked     chan *c33req // non-nil (entry 3): every upload reports here and parks
}

func (p *c33provider) Provide(dns string) (blobclient.ClusterClient, error) {
	p.mu.Lock()
	defer p.mu.Unlock()
	if dns != p.wantDNS {
		p.wrongDNS = true
	}
	if p.noProvider {
		return nil, errors.New("c33: cannot resolve remote cluster")
	}
	return &c33remote{p: p}, nil
}

func (r *c33remote) UploadBlob(ctx context.Context, ns string, d core.Digest, blob io.ReadSeeker, size uint64) error {
	st, _ := ctx.Value(c33reqKey{}).(*c33req)
	if st == nil {
		r.p.mu.Lock()
		r.p.wrongDNS = true // an upload that belongs to no request
		r.p.mu.Unlock()
		return errors.New("c33: upload outside a request")
	}
	got, err := io.ReadAll(blob)
	r.p.mu.Lock()
	parked := r.p.parked
	if err != nil || ns != st.ns || d != st.d || size != uint64(len(st.blob)) || !bytes.Equal(got, st.blob) {
		st.wrong = true
	}
	r.p.mu.Unlock()
	if parked != nil && st.release != nil {
		parked <- st // the transfer is in flight ...
		<-st.release // ... until the harness lets it end
	}
	r.p.mu.Lock()
	defer r.p.mu.Unlock()
	if st.mode == 1 {
		return errors.New("c33: remote cluster refused the blob")
	}
	st.uploaded = !st.wrong
	return nil
}

// ---- one real origin

type c33blobsrv struct {
	h        http.Handler
	cas      *store.CAStore
	be       *c33backend
	prov     *c33provider
	dir      string
	mu       sync.Mutex
	started  map[string]bool // digests for which a fetch from the backend is in flight
	releases []chan struct{}
}

func newC33blobsrvs(ctx *hlib.Ctx, worker int) []*c33blobsrv {
	var out []*c33blobsrv
	for i := 0; i < c33maxOrigins; i++ {
		dir := filepath.Join(ctx.Tmp, fmt.Sprintf("w%d-origin%d", worker, i))
		for _, sub := range []string{"upload", "cache"} {
			if err := os.MkdirAll(filepath.Join(dir, sub), 0o755); err != nil {
				panic(err)
			}
		}
		cas, err := store.NewCAStore(store.CAStoreConfig{
			UploadDir: filepath.Join(dir, "upload"), CacheDir: filepath.Join(dir, "cache")}, tally.NoopScope)
		if err != nil {
			panic(err)
		}
		be := &c33backend{release: make(chan struct{})}
		bm := backend.ManagerFixture()
		if err := bm.Register(".*", be, false); err != nil {
			panic(err)
		}
		mg := metainfogen.Fixture(cas, 4)
		br := blobrefresh.New(blobrefresh.Config{}, tally.NoopScope, cas, bm, mg)
		addr := fmt.Sprintf("c33-origin%d:80", i)
		ring := hashring.New(hashring.Config{MaxReplica: 1}, hostlist.Fixture(addr), healthcheck.IdentityFilter{}, tally.NoopScope)
		prov := &c33provider{}
		s, err := blobserver.New(blobserver.Config{}, tally.NoopScope, clock.New(), addr, ring, cas,
			blobclient.NewProvider(), prov, core.PeerContextFixture(), bm, br, mg, nil)
		if err != nil {
			panic(err)
		}
		out = append(out, &c33blobsrv{h: s.Handler(), cas: cas, be: be, prov: prov, dir: dir, started: map[string]bool{}})
	}
	return out
}

func (b *c33blobsrv) close() {
	b.endCase()
	b.cas.Close()
	os.RemoveAll(b.dir)
}

// endCase lets every blocked backend download of the finished case fail
func (b *c33blobsrv) endCase() {
	b.be.mu.Lock()
	close(b.be.release)
	b.be.release = make(chan struct{})
	b.be.mu.Unlock()
	b.mu.Lock()
	b.started = map[string]bool{}
	b.mu.Unlock()
}

type c33statusWriter struct {
	http.ResponseWriter
	code int
}

func (w *c33statusWriter) WriteHeader(c int) {
	if w.code == 0 {
		w.code = c
	}
	w.ResponseWriter.WriteHeader(c)
}

func (w *c33statusWriter) Write(p []byte) (int, error) {
	if w.code == 0 {
		w.code = 200
	}
	return w.ResponseWriter.Write(p)
}

// serve puts the origin in state h, lets the REAL handler answer the request and records the
// status it wrote.
func (b *c33blobsrv) serve(w http.ResponseWriter, q *http.Request, rec *c33rec, d core.Digest, h *c33h, record func(c33resp)) {
	rec.mu.Lock()
	idx, tag, remote := rec.idx, rec.tag, rec.remote
	var content []byte
	for id := 0; id < 8; id++ {
		if c33depDigest(idx, id) == d {
			content = c33depContent(idx, id)
		}
	}
	rec.mu.Unlock()
	if content == nil {
		rec.badLocked(12)
		w.WriteHeader(500)
		return
	}
	// cache
	if h.cache == 0 {
		if _, err := b.cas.GetCacheFileStat(d.Hex()); err != nil {
			if err := b.cas.CreateCacheFile(d.Hex(), bytes.NewReader(content)); err != nil {
				panic(fmt.Sprintf("c33: cannot store blob: %s", err))
			}
		}
	} else {
		if err := b.cas.DeleteCacheFile(d.Hex()); err != nil && !os.IsNotExist(err) {
			panic(fmt.Sprintf("c33: cannot delete blob: %s", err))
		}
	}
	// storage backend
	b.be.mu.Lock()
	b.be.size = int64(len(content))
	b.be.stat = 0
	if h.cache == 1 && (h.refresh == 2 || h.refresh == 4) {
		b.be.stat = h.refresh
	}
	b.be.mu.Unlock()
	b.mu.Lock()
	if h.cache == 1 && h.refresh == 1 && !b.started[d.Hex()] {
		panic("c33: generator asked for a pending fetch that was never started")
	}
	if h.cache == 1 && h.refresh <= 1 {
		b.started[d.Hex()] = true
	}
	b.mu.Unlock()
	// remote cluster
	st := &c33req{ns: tag, d: d, blob: content, mode: h.upload}
	if h.upload == 2 {
		st.mode = 0
	}
	b.prov.mu.Lock()
	b.prov.noProvider = h.upload == 2
	b.prov.wantDNS = remote
	b.prov.wrongDNS = false
	if b.prov.parked != nil {
		st.release = make(chan struct{})
	}
	b.prov.mu.Unlock()

	sw := &c33statusWriter{ResponseWriter: w}
	b.h.ServeHTTP(sw, q.WithContext(context.WithValue(q.Context(), c33reqKey{}, st)))
	if sw.code == 0 {
		sw.code = 200 // net/http writes 200 when the handler returns without writing
	}
	record(c33resp{code: sw.code})

	b.prov.mu.Lock()
	uploaded, wrong := st.uploaded, st.wrong || b.prov.wrongDNS
	b.prov.mu.Unlock()
	rec.mu.Lock()
	rec.ups = append(rec.ups, fmt.Sprintf("(%d, %s)", sw.code, hlib.B(uploaded)))
	rec.mu.Unlock()
	if wrong {
		rec.badLocked(11) // the origin talked to the wrong cluster or sent the wrong blob
	}
}

// ---- cases

func hP(upload int) c33resp  { return c33resp{h: &c33h{cache: 0, upload: upload}} }
func hA(refresh int) c33resp { return c33resp{h: &c33h{cache: 1, refresh: refresh}} }

func c33srvOrigin(script ...c33resp) c33origin {
	return c33origin{script: script, budget: c33bigBudget}
}

func c33addServerCases(ctx *hlib.Ctx, r *hlib.Rng, add func(c c33case)) {
	ok := func(id int) c33dep {
		return c33dep{id: id, resolve: true, origins: []c33origin{c33srvOrigin(hP(0))}}
	}
	e := func(kind string, deps []c33dep, put c33resp) {
		add(c33case{kind: "server-" + kind, entry: 2, has: rc(404), origin: rc(200), deps: deps, put: put})
	}
	one := func(sc ...c33resp) c33dep {
		return c33dep{id: 1, resolve: true, origins: []c33origin{c33srvOrigin(sc...), c33srvOrigin(hP(0))}}
	}
	e("cached", []c33dep{ok(1), ok(2)}, rc(200))
	e("fetch-then-cached", []c33dep{one(hA(0), hP(0)), ok(2)}, rc(200))
	e("fetch-pending-cached", []c33dep{ok(2), one(hA(0), hA(1), hP(0))}, rc(200))
	e("not-in-backend", []c33dep{one(hA(2)), ok(2)}, rc(200))
	e("backend-down-next-origin", []c33dep{one(hA(4)), ok(2)}, rc(200))
	e("upload-fails-next-origin", []c33dep{one(hP(1)), ok(2)}, rc(200))
	e("no-provider-next-origin", []c33dep{one(hP(2)), ok(2)}, rc(200))
	e("fetch-then-upload-fails", []c33dep{one(hA(0), hP(1)), ok(2)}, rc(200))
	e("fetch-then-gone", []c33dep{one(hA(0)), ok(2)}, rc(200))
	e("fetch-then-not-found", []c33dep{one(hA(0), hA(2)), ok(2)}, rc(200))
	e("all-fail", []c33dep{ok(2), {id: 1, resolve: true, origins: []c33origin{c33srvOrigin(hP(1)), c33srvOrigin(hA(4)), c33srvOrigin(hP(2))}}, ok(3)}, rc(200))
	e("putfails", []c33dep{ok(1)}, rc(500))
	c33addOverlapCases(add)
	n := ctx.N / 6
	if ctx.Tier == "thorough" {
		n = ctx.N / 8
	}
	for i := 0; i < n; i++ {
		c := c33case{kind: "server-random", entry: 2, has: rc(404), origin: rc(200), put: rc(200)}
		if r.Chance(10) {
			c.put = rc(503)
		}
		nd := r.Range(1, 3)
		left202 := 2
		for j := 0; j < nd; j++ {
			de := c33dep{id: j + 1, resolve: true}
			no := r.Range(1, 3)
			for o := 0; o < no; o++ {
				var sc []c33resp
				started := false
				for k := r.Range(1, 3); k > 0; k-- {
					q := r.Intn(100)
					switch {
					case q < 30 && left202 > 0:
						left202--
						if started {
							sc = append(sc, hA(1))
						} else {
							sc = append(sc, hA(0))
						}
						started = true
					case q < 75:
						sc = append(sc, hP(0))
					case q < 82:
						sc = append(sc, hP(1))
					case q < 87:
						sc = append(sc, hP(2))
					case q < 93:
						sc = append(sc, hA(2))
					default:
						sc = append(sc, hA(4))
					}
				}
				de.origins = append(de.origins, c33srvOrigin(sc...))
			}
			c.deps = append(c.deps, de)
		}
		add(c)
	}
}

// ---- entry 3: two executions overlap on one real origin.
//
// Two build-index replicas run a tag replication task for the same dependency and the same remote
// cluster against the same origin.  Every upload to the remote cluster parks at a gate.  The
// schedule is a sequence of rendez-vous, never a delay:
//   1. Exec A starts; wait until its upload is parked.
//   2. Exec B starts; wait until EITHER its own upload is parked OR it has returned.
//   3. release the parked uploads in the scripted order with their scripted outcomes and wait
//      for both executions.
// Each execution is then an ordinary case (environment = what ITS OWN upload is scripted to do),
// and every request carries (status answered, upload accepted during this request).

type c33overlap struct {
	b      *c33case
	bFirst bool // release B's upload before A's
}

func c33runOverlap(a *c33http, c *c33case, idx int) c33out {
	b := a.peer
	tagA := fmt.Sprintf("verif/c33 img:%d", idx)
	tagB := fmt.Sprintf("verif/c33 other:%d", idx)
	remote := fmt.Sprintf("remote-origin-%d.example:8080", idx)
	a.rec.reset(c, idx, tagA, remote)
	b.rec.reset(c.ov.b, idx, tagB, remote)
	parked := make(chan *c33req, 8)
	for _, s := range a.real {
		s.prov.mu.Lock()
		s.prov.parked = parked
		s.prov.mu.Unlock()
	}
	hosts := append(a.hosts(), c33addr(b.tagSrv), c33addr(b.cluSrv))
	before := c33tr.count(hosts)
	type fin struct{ err error }
	doneA, doneB := make(chan fin, 1), make(chan fin, 1)
	var held []*c33req
	incon := false
	limit := time.After(120 * time.Second)
	wait := func(done chan fin, res **fin) bool { // true: an upload parked; false: the execution returned
		select {
		case st := <-parked:
			held = append(held, st)
			return true
		case f := <-done:
			*res = &f
			return false
		case <-limit:
			incon = true
			return false
		}
	}
	var fa, fb *fin
	go func() { doneA <- fin{a.exec.Exec(c33task(c, idx, tagA, c33addr(a.tagSrv)))} }()
	wait(doneA, &fa)
	note := "second execution: its own upload parked"
	go func() { doneB <- fin{b.exec.Exec(c33task(c.ov.b, idx, tagB, c33addr(b.tagSrv)))} }()
	if !incon && !wait(doneB, &fb) && fb != nil {
		note = "second execution returned while the first upload was still in flight"
	}
	b.rec.mu.Lock()
	note += fmt.Sprintf("; its trace at that moment: %v", b.rec.evs)
	b.rec.mu.Unlock()
	// release in the scripted order
	if c.ov.bFirst {
		for i, j := 0, len(held)-1; i < j; i, j = i+1, j-1 {
			held[i], held[j] = held[j], held[i]
		}
	}
	for _, st := range held {
		close(st.release)
		// wait for the execution that owns this upload, or for a further upload to park (next origin)
		for {
			own, res := doneA, &fa
			if st.ns == tagB {
				own, res = doneB, &fb
			}
			if *res != nil || incon {
				break
			}
			if wait(own, res) {
				close(held[len(held)-1].release)
				continue
			}
			break
		}
	}
	for _, p := range []struct {
		d chan fin
		r **fin
	}{{doneA, &fa}, {doneB, &fb}} {
		for *p.r == nil && !incon {
			if wait(p.d, p.r) {
				close(held[len(held)-1].release)
			}
		}
	}
	for _, s := range a.real {
		s.prov.mu.Lock()
		s.prov.parked = nil
		s.prov.mu.Unlock()
		s.endCase()
	}
	if incon {
		// let whatever is parked go so that the abandoned environment can be closed
		for {
			select {
			case st := <-parked:
				close(st.release)
				continue
			default:
			}
			break
		}
		return c33out{incon: true}
	}
	lost := c33tr.count(hosts) - before
	mk := func(r *c33rec, f *fin) c33out {
		r.mu.Lock()
		defer r.mu.Unlock()
		return c33out{ok: f.err == nil, evs: r.evs, hist: r.hist, nrepl: r.nrepl, ups: r.ups, note: note,
			incon: lost != a.rec.nets+b.rec.nets}
	}
	ob := mk(b.rec, fb)
	oa := mk(a.rec, fa)
	oa.other = &ob
	return oa
}

func c33addOverlapCases(add func(c c33case)) {
	for _, ua := range []int{0, 1} {
		for _, ub := range []int{0, 1} {
			for _, bFirst := range []bool{false, true} {
				for _, two := range []bool{false, true} {
					mk := func(u int, who string) *c33case {
						de := c33dep{id: 1, resolve: true, origins: []c33origin{c33srvOrigin(hP(u))}}
						if two {
							de.origins = append(de.origins, c33srvOrigin(hP(0)))
						}
						return &c33case{kind: fmt.Sprintf("overlap-%s-first%d-second%d", who, ua, ub), entry: 3,
							has: rc(404), origin: rc(200), deps: []c33dep{de}, put: rc(200)}
					}
					ca := mk(ua, "first")
					ca.ov = &c33overlap{b: mk(ub, "second"), bFirst: bFirst}
					add(*ca)
				}
			}
		}
	}
}
