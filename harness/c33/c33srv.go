package main

import "verifharness/hlib"

// entry 2 (real blobserver origins): filled in below
type c33server struct{}

func newC33server(ctx *hlib.Ctx) *c33server            { return &c33server{} }
func (s *c33server) run(c *c33case, idx int) c33out   { return c33out{incon: true} }
func (s *c33server) close()                           {}
func c33addServerCases(ctx *hlib.Ctx, r *hlib.Rng, add func(c c33case)) {}
