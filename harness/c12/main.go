// Command c12 hosts the C12 driver (in-memory blob buffers vs an operating-system file).
package main

import "verifharness/hlib"

func main() { hlib.Main() }
