package main

import (
	"fmt"
	"io"
	"os"
	"path/filepath"
	"strings"

	"github.com/uber-go/tally"
	"github.com/uber/kraken/lib/store"
	"github.com/uber/kraken/lib/store/base"
	"github.com/uber/kraken/lib/store/memory"
	"verifharness/hlib"
)

// C12: the same operation history is applied to base.BufferReadWriter, memory.File and a real
// os.File (kind 0), to store.NewBufferFileReader(init) and a read-only os.File (kind 1), or to two
// handles on one memory.File blob (Create + Open) and one os.File opened twice (kind 2).
func init() { hlib.Register("C12", c12) }

type c12op struct {
	k   int // 0 Write 1 WriteAt 2 Read 3 ReadAt 4 Seek 5 Size
	p   []byte
	n   int
	off int64
	w   int // 0 start 1 current 2 end 3 invalid (passed as whence 7)
	h   int // handle (0 or 1), used by the two-handle cases only
}

var c12kinds = [...]string{"Write", "WriteAt", "Read", "ReadAt", "Seek", "Size"}
var c12whence = [...]string{"SeekStart", "SeekCurrent", "SeekEnd", "SeekBad"}

func (o c12op) coq() string {
	switch o.k {
	case 0:
		return "Write " + hlib.Bytes(o.p)
	case 1:
		return "WriteAt " + hlib.Bytes(o.p) + " " + hlib.Z(o.off)
	case 2:
		return "Read " + hlib.N(o.n)
	case 3:
		return "ReadAt " + hlib.N(o.n) + " " + hlib.Z(o.off)
	case 4:
		return "Seek " + hlib.Z(o.off) + " " + c12whence[o.w]
	}
	return "Size"
}

type c12out struct {
	ret       int64
	bytes     []byte
	off, size int64
}

func (o c12out) coq() string {
	return "mko " + hlib.Z(o.ret) + " " + hlib.Bytes(o.bytes) + " " + hlib.Z(o.off) + " " + hlib.Z(o.size)
}

// what every implementation offers (store.FileReader minus Close)
type c12file interface {
	io.Reader
	io.ReaderAt
	io.Seeker
	Size() int64
}

type c12os struct{ *os.File }

func (f c12os) Size() int64 {
	st, err := f.File.Stat()
	if err != nil {
		return -777
	}
	return st.Size()
}

// apply performs one call and then observes position and size through the same API.
// Errors are not part of the observables (the property lists bytes, counts, sizes, offsets).
func c12apply(f c12file, o c12op) (res c12out) {
	defer func() {
		if r := recover(); r != nil {
			res = c12out{ret: -999, off: -999, size: -999}
		}
	}()
	switch o.k {
	case 0:
		n, _ := f.(io.Writer).Write(o.p)
		res.ret = int64(n)
	case 1:
		n, _ := f.(io.WriterAt).WriteAt(o.p, o.off)
		res.ret = int64(n)
	case 2, 3:
		p := make([]byte, o.n)
		for i := range p {
			p[i] = 0xEE
		}
		var n int
		if o.k == 2 {
			n, _ = f.Read(p)
		} else {
			n, _ = f.ReadAt(p, o.off)
		}
		res.ret = int64(n)
		if n >= 0 && n <= len(p) {
			res.bytes = append([]byte{}, p[:n]...)
		}
	case 4:
		w := o.w
		if w == 3 {
			w = 7
		}
		n, _ := f.Seek(o.off, w)
		res.ret = n
	case 5:
		res.ret = f.Size()
	}
	res.off, _ = f.Seek(0, io.SeekCurrent)
	res.size = f.Size()
	return res
}

func c12runOn(f c12file, ops []c12op) []c12out {
	outs := make([]c12out, len(ops))
	for i, o := range ops {
		outs[i] = c12apply(f, o)
	}
	return outs
}

// each operation goes to the handle it names
func c12runOn2(fs [2]c12file, ops []c12op) []c12out {
	outs := make([]c12out, len(ops))
	for i, o := range ops {
		outs[i] = c12apply(fs[o.h], o)
	}
	return outs
}

func c12outs(outs []c12out) string {
	s := make([]string, len(outs))
	for i, o := range outs {
		s[i] = o.coq()
	}
	return hlib.List(s)
}

type c12env struct {
	ctx   *hlib.Ctx
	ms    *memory.Store
	count int
}

func (e *c12env) osFile(init []byte, readonly bool) c12os {
	path := filepath.Join(e.ctx.Tmp, fmt.Sprintf("f%d", e.count))
	if readonly {
		if err := os.WriteFile(path, init, 0o644); err != nil {
			panic(err)
		}
		f, err := os.Open(path)
		if err != nil {
			panic(err)
		}
		return c12os{f}
	}
	f, err := os.OpenFile(path, os.O_RDWR|os.O_CREATE|os.O_TRUNC, 0o644)
	if err != nil {
		panic(err)
	}
	return c12os{f}
}

// emit runs one case on the implementations and writes it out.
func (e *c12env) emit(kind string, reader bool, cap int, init []byte, ops []c12op) {
	e.emitK(kind, map[bool]int{false: 0, true: 1}[reader], cap, init, ops)
}

func (e *c12env) emitK(kind string, ck int, cap int, init []byte, ops []c12op) {
	reader := ck == 1
	e.count++
	sops := make([]string, len(ops))
	var hist []string
	for i, o := range ops {
		sops[i] = o.coq()
		hist = append(hist, c12kinds[o.k])
	}
	var bufO, memO, rdrO, osO []c12out
	if ck == 2 {
		of := e.osFile(nil, false)
		of1, err := os.OpenFile(of.Name(), os.O_RDWR, 0o644)
		if err != nil {
			panic(err)
		}
		osO = c12runOn2([2]c12file{of, c12os{of1}}, ops)
		of.Close()
		of1.Close()
		os.Remove(of.Name())
		key := fmt.Sprintf("k%d", e.count)
		mf0, err := e.ms.Create(key, uint64(cap))
		if err != nil {
			panic(err)
		}
		mf1, err := e.ms.Open(key)
		if err != nil {
			panic(err)
		}
		memO = c12runOn2([2]c12file{mf0, mf1}, ops)
		e.ms.Delete(key)
	} else if reader {
		of := e.osFile(init, true)
		osO = c12runOn(of, ops)
		of.Close()
		os.Remove(of.Name())
		rdrO = c12runOn(store.NewBufferFileReader(append([]byte{}, init...)), ops)
	} else {
		of := e.osFile(nil, false)
		osO = c12runOn(of, ops)
		of.Close()
		os.Remove(of.Name())
		bufO = c12runOn(base.NewBufferReadWriter(uint64(cap)), ops)
		key := fmt.Sprintf("k%d", e.count)
		mf, err := e.ms.Create(key, uint64(cap))
		if err != nil {
			panic(err)
		}
		memO = c12runOn(mf, ops)
		e.ms.Delete(key)
	}
	// non-trivial: the size grew by a write and some read delivered bytes (reader: a read delivered
	// bytes from a non-zero position)
	grew, gotBytes, readAway := false, false, false
	var prevSize, prevOff int64
	used := [2]bool{}
	for i, o := range osO {
		used[ops[i].h] = true
		if (ops[i].k == 0 || ops[i].k == 1) && o.size > prevSize {
			grew = true
		}
		if (ops[i].k == 2 || ops[i].k == 3) && len(o.bytes) > 0 {
			gotBytes = true
			if (ops[i].k == 2 && prevOff > 0) || (ops[i].k == 3 && ops[i].off > 0) {
				readAway = true
			}
		}
		prevSize, prevOff = o.size, o.off
	}
	nt := grew && gotBytes
	k := ck
	if reader {
		nt = readAway
	}
	hs := "[]"
	if ck == 2 {
		nt = nt && used[0] && used[1]
		h := make([]string, len(ops))
		for i, o := range ops {
			h[i] = hlib.B(o.h == 1)
			sops[i] = fmt.Sprintf("h%d.%s", o.h, sops[i])
		}
		hs = hlib.List(h)
	}
	cops := make([]string, len(ops))
	for i, o := range ops {
		cops[i] = o.coq()
	}
	// an in-memory observation list identical to the os.File's is written as None (smaller files)
	sos := c12outs(osO)
	opt := func(o []c12out, used bool) string {
		if !used {
			return "(Some [])"
		}
		if s := c12outs(o); s != sos {
			return hlib.Some(s)
		}
		return "None"
	}
	coq := fmt.Sprintf("mkcase %d %d %s %s %s %s %s %s %s", k, cap, hlib.Bytes(init), hs, hlib.List(cops),
		opt(bufO, ck == 0), opt(memO, ck == 0 || ck == 2), opt(rdrO, reader), sos)
	var tags []string
	for _, o := range ops {
		if (o.k == 0 || o.k == 1) && len(o.p) == 0 {
			tags = append(tags, "zero-length-write")
			break
		}
	}
	e.ctx.Emit(hlib.Case{Coq: coq, NT: nt, Kind: kind, Hist: hist, Tags: tags,
		Key:    fmt.Sprintf("%d|%d|%v|%s", k, cap, init, strings.Join(sops, ";")),
		Sample: map[string]interface{}{"kind": [...]string{"bufrw+memfile", "reader", "memfile-two-handles"}[ck], "cap": cap, "init": init, "ops": sops, "os_file": c12outs(osO)}})
}

// ---- shadow of the file semantics, used only to steer the generator ----
type c12shadow struct {
	size, pos int64
	other    int64 // position of the handle that is not current
	cur      int
}

// use makes handle h the current one
func (s *c12shadow) use(h int) {
	if h != s.cur {
		s.pos, s.other, s.cur = s.other, s.pos, h
	}
}

func (s *c12shadow) step(o c12op) {
	s.use(o.h)
	switch o.k {
	case 0:
		if len(o.p) > 0 {
			if e := s.pos + int64(len(o.p)); e > s.size {
				s.size = e
			}
		}
		s.pos += int64(len(o.p))
	case 1:
		if o.off >= 0 && len(o.p) > 0 {
			if e := o.off + int64(len(o.p)); e > s.size {
				s.size = e
			}
		}
	case 2:
		if s.pos < s.size {
			n := s.size - s.pos
			if int64(o.n) < n {
				n = int64(o.n)
			}
			s.pos += n
		}
	case 4:
		var t int64
		switch o.w {
		case 0:
			t = o.off
		case 1:
			t = s.pos + o.off
		case 2:
			t = s.size + o.off
		default:
			return
		}
		if t >= 0 {
			s.pos = t
		}
	}
}

func c12pick(r *hlib.Rng, xs []int64) int64 { return xs[r.Intn(len(xs))] }

// payload bytes are non-zero so that zero fill is visible
func c12payload(r *hlib.Rng, n int) []byte {
	b := make([]byte, n)
	for i := range b {
		b[i] = byte(1 + r.Intn(255))
	}
	return b
}

func c12len(r *hlib.Rng, cap int, sh *c12shadow) int {
	c := []int64{0, 1, 1, 2, 3, 5, int64(cap), int64(cap) + 1, sh.size - sh.pos, sh.size - sh.pos + 1, int64(r.Intn(12))}
	n := c12pick(r, c)
	if n < 0 {
		n = 0
	}
	if n > 80 {
		n = 80
	}
	return int(n)
}

func c12offset(r *hlib.Rng, cap int, sh *c12shadow) int64 {
	lim := int64(4 * cap)
	if lim < 16 {
		lim = 16
	}
	c := []int64{0, 0, 1, sh.size - 1, sh.size, sh.size, sh.size + 1, sh.size + 3, sh.pos, int64(cap) - 1, int64(cap), int64(cap) + 1,
		2 * int64(cap), lim, int64(r.Intn(int(lim) + 1)), int64(r.Intn(int(sh.size) + 1))}
	o := c12pick(r, c)
	if o < 0 {
		o = 0
	}
	if o > lim+4 {
		o = lim + 4
	}
	return o
}

// one in-extent seek (target within [0,size]) drawn against the shadow
func c12seekIn(r *hlib.Rng, sh *c12shadow) c12op {
	t := c12pick(r, []int64{0, 0, sh.size, sh.size, sh.size - 1, 1, sh.size / 2, int64(r.Intn(int(sh.size) + 1))})
	if t < 0 {
		t = 0
	}
	if t > sh.size {
		t = sh.size
	}
	switch r.Intn(3) {
	case 0:
		return c12op{k: 4, off: t, w: 0}
	case 1:
		return c12op{k: 4, off: t - sh.pos, w: 1}
	}
	return c12op{k: 4, off: t - sh.size, w: 2}
}

// a malformed / out-of-scope operation
func c12bad(r *hlib.Rng, cap int, sh *c12shadow) c12op {
	switch r.Intn(6) {
	case 0:
		return c12op{k: 1, p: c12payload(r, r.Intn(4)), off: -int64(1 + r.Intn(5))}
	case 1:
		return c12op{k: 3, n: r.Intn(5), off: -int64(1 + r.Intn(5))}
	case 2:
		return c12op{k: 4, off: -int64(1+r.Intn(5)) - sh.size, w: 2} // negative position
	case 3:
		return c12op{k: 4, off: sh.size + int64(1+r.Intn(2*cap+4)), w: 0} // beyond the extent
	case 4:
		return c12op{k: 4, off: int64(r.Intn(4)), w: 3} // invalid whence
	}
	return c12op{k: 4, off: int64(1 + r.Intn(6)), w: 2} // beyond the extent, from the end
}

func c12genRW(r *hlib.Rng, cap, n int, malformed bool, handles int) []c12op {
	sh := &c12shadow{}
	badAt := -1
	if malformed {
		badAt = r.Intn(n)
	}
	var ops []c12op
	for j := 0; j < n; j++ {
		var o c12op
		h := 0
		if handles == 2 && r.Chance(45) {
			h = 1
		}
		sh.use(h)
		if j == badAt {
			o = c12bad(r, cap, sh)
		} else {
			switch k := r.Intn(20); {
			case k < 4:
				o = c12op{k: 0, p: c12payload(r, c12len(r, cap, sh))}
			case k < 9:
				o = c12op{k: 1, p: c12payload(r, c12len(r, cap, sh)), off: c12offset(r, cap, sh)}
			case k < 12:
				o = c12op{k: 2, n: c12len(r, cap, sh)}
			case k < 15:
				o = c12op{k: 3, n: c12len(r, cap, sh), off: c12offset(r, cap, sh)}
			case k < 19:
				o = c12seekIn(r, sh)
			default:
				o = c12op{k: 5}
			}
		}
		o.h = h
		sh.step(o)
		ops = append(ops, o)
	}
	// drain: the whole content and the final position/size become observable
	ops = append(ops, c12op{k: 3, n: int(sh.size) + 3, off: 0})
	if handles == 2 {
		ops = append(ops, c12op{k: 5, h: 1})
	}
	return ops
}

func c12genRd(r *hlib.Rng, size, n int, malformed bool) []c12op {
	sh := &c12shadow{size: int64(size)}
	badAt := -1
	if malformed {
		badAt = r.Intn(n)
	}
	var ops []c12op
	for j := 0; j < n; j++ {
		var o c12op
		if j == badAt {
			o = c12bad(r, size, sh)
			if o.k == 1 {
				o = c12op{k: 3, n: 2, off: -1}
			}
		} else {
			switch k := r.Intn(10); {
			case k < 3:
				o = c12op{k: 2, n: c12len(r, size, sh)}
			case k < 6:
				o = c12op{k: 3, n: c12len(r, size, sh), off: c12offset(r, size, sh)}
			case k < 9:
				o = c12seekIn(r, sh)
			default:
				o = c12op{k: 5}
			}
		}
		sh.step(o)
		ops = append(ops, o)
	}
	return ops
}

func c12(ctx *hlib.Ctx) {
	r := hlib.NewRng(ctx.Seed)
	ms, err := memory.NewStore(&memory.Config{CapacityBytes: 1 << 30, GOMEMLIMITBytes: 1 << 40}, tally.NoopScope)
	if err != nil {
		panic(err)
	}
	e := &c12env{ctx: ctx, ms: ms}
	W := func(p ...byte) c12op { return c12op{k: 0, p: p} }
	WA := func(off int64, p ...byte) c12op { return c12op{k: 1, p: p, off: off} }
	R := func(n int) c12op { return c12op{k: 2, n: n} }
	RA := func(n int, off int64) c12op { return c12op{k: 3, n: n, off: off} }
	SK := func(off int64, w int) c12op { return c12op{k: 4, off: off, w: w} }
	SZ := c12op{k: 5}

	// ---- hand-written seeds (always run first) ----
	// witness of C12_zero_len_write_refuted: zero-length positional write past the end
	e.emit("seed-zero-len-writeat-past-eof", false, 0, nil, []c12op{WA(5), SZ, RA(8, 0)})
	e.emit("seed-zero-len-writeat-past-eof", false, 8, nil, []c12op{W(1, 2), WA(6), SZ, RA(8, 0), WA(2), W(), SZ})
	// witness of C12_memfile_seek_outside_refuted (outside the scope of the property)
	e.emit("seed-seek-outside-extent", false, 4, nil, []c12op{SK(5, 0), W(7), SZ, RA(9, 0)})
	e.emit("seed-seek-outside-extent", false, 4, nil, []c12op{SK(5, 0), W(), SZ, SK(2, 2), R(1), W(9), RA(12, 0)})
	// gap left by a positional write, read back across it and across the end
	e.emit("seed-gap", false, 4, nil, []c12op{WA(6, 1, 2), RA(10, 0), W(9), R(3), SK(0, 0), R(100), R(1), SZ})
	e.emit("seed-gap", false, 0, nil, []c12op{W(1), WA(3, 2), WA(7, 3), RA(20, 0), SK(-1, 2), R(5), R(5)})
	// growth beyond the initial capacity keeps old bytes
	e.emit("seed-growth", false, 2, nil, []c12op{W(1, 2, 3), W(4, 5), SK(-2, 2), R(5), SK(0, 0), R(2), W(8, 9), RA(9, 0), WA(4, 6, 6, 6, 6, 6, 6), RA(20, 0)})
	// re-slice inside the capacity exposes zeroed bytes
	e.emit("seed-reslice", false, 16, nil, []c12op{WA(3, 7), RA(16, 0), WA(10, 8), RA(16, 0), WA(15, 9), WA(16, 1), RA(32, 0)})
	// overlapping writes, sequential writes after positional ones
	e.emit("seed-overlap", false, 4, nil, []c12op{W(1, 2, 3, 4), WA(2, 9, 9, 9), WA(0, 5), SK(1, 0), W(6, 6), R(2), RA(10, 0), SZ})
	// reads: zero length, at the end, negative offsets; seeks: all whences, negative, invalid
	e.emit("seed-read-edges", false, 4, nil, []c12op{R(0), R(3), RA(0, 0), RA(3, 0), W(1, 2, 3), R(0), R(2), RA(0, 1), RA(0, 3), RA(0, 9), RA(2, 3), RA(2, 2), RA(2, -1), WA(-1, 4), SK(0, 0), R(2), R(2), R(2), SZ})
	e.emit("seed-seek-edges", false, 4, nil, []c12op{W(1, 2, 3, 4, 5), SK(0, 0), SK(2, 1), SK(-1, 1), SK(0, 2), SK(-5, 2), SK(5, 0), SK(-3, 1), R(9), SK(-1, 0), SK(0, 1), SK(1, 3), SK(-9, 2), SK(0, 1), SK(9, 0), R(1)})
	e.emit("seed-empty", false, 0, nil, []c12op{SZ, R(1), RA(1, 0), SK(0, 2), W(), WA(0), SZ})
	e.emit("seed-reader", true, 6, []byte{1, 2, 3, 4, 5, 6}, []c12op{R(2), RA(3, 4), SK(-1, 2), R(5), R(1), SK(0, 0), R(0), R(9), SZ, RA(2, 6), RA(2, -1), SK(2, 1), SK(-3, 1)})
	e.emit("seed-reader", true, 0, nil, []c12op{R(1), RA(1, 0), SK(0, 2), SZ, SK(3, 0), R(1), SK(-1, 0), SK(0, 3)})

	on1 := func(o c12op) c12op { o.h = 1; return o }
	// handle 1 grows the blob beyond its capacity; handle 0 must see the bytes and keep its position
	e.emitK("seed-two-handles", 2, 2, nil, []c12op{W(1, 2, 3), on1(R(2)), on1(W(9)), on1(WA(8, 7)), R(1), SK(0, 0), R(12), on1(SK(0, 2)), on1(W(5, 5)), RA(20, 0), on1(SZ)})
	e.emitK("seed-two-handles", 2, 0, nil, []c12op{on1(WA(3, 4)), R(2), on1(R(9)), W(8), on1(SK(-1, 2)), on1(R(3)), on1(WA(9)), SZ, RA(9, 0)})
	e.emitK("seed-two-handles", 2, 8, nil, []c12op{W(1, 2), on1(SK(2, 0)), on1(W(3)), SK(3, 0), on1(SK(-1, 2)), W(4), on1(R(5)), on1(RA(9, 0))})

	maxOps := 25
	if ctx.Tier == "thorough" {
		maxOps = 40
		// exhaustive small scope (validates the correspondence; it is not the proof):
		// every history of length <= 4 over 11 operations, initial capacity 0 and 2
		alpha := []c12op{W(1, 2), W(), WA(3, 3), WA(4), WA(0, 5, 6, 7), R(2), RA(3, 1), SK(0, 0), SK(-1, 1), SK(0, 2), SZ}
		for _, cap := range []int{0, 2} {
			var rec func(prefix []c12op, depth int)
			rec = func(prefix []c12op, depth int) {
				if len(prefix) > 0 {
					ops := append(append([]c12op{}, prefix...), RA(12, 0))
					e.emit("exhaustive", false, cap, nil, ops)
				}
				if depth == 0 {
					return
				}
				for _, a := range alpha {
					rec(append(prefix, a), depth-1)
				}
			}
			depth := 4
			if cap == 2 {
				depth = 3
			}
			rec(nil, depth)
		}
	}
	caps := []int{0, 0, 1, 2, 3, 4, 8, 8, 16, 64}
	for i := 0; i < ctx.N; i++ {
		rr := r.Fork()
		n := rr.Range(1, maxOps)
		malformed := rr.Chance(15)
		if rr.Chance(12) {
			size := rr.Intn(41)
			init := c12payload(rr, size)
			kind := "random-reader"
			if malformed {
				kind = "malformed-reader"
			}
			e.emit(kind, true, size, init, c12genRd(rr, size, n, malformed))
			continue
		}
		cap := caps[rr.Intn(len(caps))]
		kind := "random-rw"
		if malformed {
			kind = "malformed-rw"
		}
		if rr.Chance(17) {
			e.emitK(strings.Replace(kind, "-rw", "-two-handles", 1), 2, cap, nil, c12genRW(rr, cap, n, malformed, 2))
			continue
		}
		e.emit(kind, false, cap, nil, c12genRW(rr, cap, n, malformed, 1))
	}
}
