//go:build verif

package disk

// C07 correspondence driver: operation histories on the real disk.Store (through the scoped
// public API of scoped_store.go), with the store's internal state (size counter, evictQueue,
// blob map) recorded after every operation.  Overlaid into lib/store/disk at build time; never
// present in the repository.

import (
	"errors"
	"fmt"
	"io"
	"os"
	"path/filepath"
	"regexp"
	"sort"
	"strconv"
	"strings"
	"sync"
	"testing"

	"github.com/uber-go/tally"
	"go.uber.org/zap"

	storelib "github.com/uber/kraken/lib/store"
	"github.com/uber/kraken/lib/store/metadata"
	"github.com/uber/kraken/utils/log"
	"github.com/uber/kraken/utils/verifhlib"
)

func TestVerifC07(t *testing.T) { verifhlib.MainEnv("C07", c07driver) }

// ---------------------------------------------------------------- metadata type `_vmd<s>`, movable iff s is odd

type c07md struct {
	sfx  int
	data []byte
}

func (m *c07md) GetSuffix() string          { return "_vmd" + strconv.Itoa(m.sfx) }
func (m *c07md) Movable() bool              { return m.sfx%2 == 1 }
func (m *c07md) Serialize() ([]byte, error) { return append([]byte{}, m.data...), nil }
func (m *c07md) Deserialize(b []byte) error { m.data = append([]byte{}, b...); return nil }

type c07mdFactory struct{}

var c07mdRe = regexp.MustCompile(`^_vmd(\d+)$`)

func (c07mdFactory) Create(suffix string) metadata.Metadata {
	n, _ := strconv.Atoi(c07mdRe.FindStringSubmatch(suffix)[1])
	return &c07md{sfx: n}
}

func init() { metadata.Register(c07mdRe, c07mdFactory{}) }

// ---------------------------------------------------------------- ops

const (
	c07CreateW = iota
	c07OpenRead
	c07OpenWriteAt
	c07Has
	c07Stat
	c07MarkComplete
	c07Delete
	c07List
	c07Ban
	c07Unban
	c07SetMd
	c07GetMd
	c07DelMd
	c07ListMd
	c07WriteAtMd
	c07Clean
)

var c07names = []string{"CreateW", "OpenRead", "OpenWriteAt", "Has", "Stat", "MarkComplete", "Delete", "ListK",
	"Ban", "Unban", "SetMd", "GetMd", "DelMd", "ListMd", "WriteAtMd", "Clean"}

type c07op struct {
	kind    int
	key     int
	scope   int // 0 any 1 complete 2 incomplete
	size    uint64
	data    []byte
	off     int64
	sfx     int
	pct     int
	respect bool
}

type c07cfg struct {
	cap    uint64
	shard  int
	reboot bool
}

func c07key(i int) string { return strings.Repeat(fmt.Sprintf("%02x", 0xa0+i), 16) }

var c07scopeCoq = []string{"SAny", "SComplete", "SIncomplete"}

func c07scoped(s *Store, sc int, viaScoped bool) *Store {
	switch sc {
	case 1:
		if viaScoped {
			return s.Scoped(storelib.BlobScopeComplete)
		}
		return s.ScopeComplete()
	case 2:
		if viaScoped {
			return s.Scoped(storelib.BlobScopeIncomplete)
		}
		return s.ScopeIncomplete()
	}
	if viaScoped {
		return s.Scoped(storelib.BlobScopeAny)
	}
	return s
}

func c07err(err error) string {
	switch {
	case err == nil:
		return "OOk"
	case errors.Is(err, storelib.ErrOutOfScope):
		return "OErr EOutOfScope"
	case errors.Is(err, os.ErrNotExist):
		return "OErr ENotExist"
	case errors.Is(err, os.ErrExist):
		return "OErr EExist"
	case errors.Is(err, errNoSpace):
		return "OErr ENoSpace"
	}
	return "OErr EOther"
}

func c07keys(names []string, ids map[string]int) string {
	xs := make([]int, 0, len(names))
	for _, n := range names {
		id, ok := ids[n]
		if !ok {
			id = 999
		}
		xs = append(xs, id)
	}
	sort.Ints(xs)
	return verifhlib.Ns(xs)
}

type c07row struct {
	key                    int
	size                   uint64
	complete, banned, node bool
}

// snapshot of the internal state (single-threaded driver: no lock needed, but take it anyway)
func c07snap(s *store, ids map[string]int) (string, []c07row, []int) {
	queue := []int{}
	for _, k := range s.evictionOrder() {
		id, ok := ids[k]
		if !ok {
			id = 999
		}
		queue = append(queue, id)
	}
	s.mu.RLock()
	rows := make([]c07row, 0, len(s.blobs))
	for k, b := range s.blobs {
		id, ok := ids[k]
		if !ok {
			id = 999
		}
		rows = append(rows, c07row{id, b.size, b.complete, b.evictionBanned, b.node != nil})
	}
	size := s.size
	s.mu.RUnlock()
	sort.Slice(rows, func(i, j int) bool { return rows[i].key < rows[j].key })
	rs := make([]string, len(rows))
	for i, r := range rows {
		rs[i] = fmt.Sprintf("(%d, (%d, %s, %s, %s))", r.key, r.size, verifhlib.B(r.complete), verifhlib.B(r.banned), verifhlib.B(r.node))
	}
	return fmt.Sprintf("mksnap %d %s %s", size, verifhlib.Ns(queue), verifhlib.List(rs)), rows, queue
}

func c07z(i int64) string { return fmt.Sprintf("(%d)%%Z", i) }

// Clean's two map iterations are not observable; derive an iteration order that explains the
// observed outcome (deleted keys first, the one whose deletion was still necessary last).
func c07cleanOrder(before, after []c07row) []int {
	left := map[int]bool{}
	for _, r := range after {
		left[r.key] = true
	}
	var order []int
	for _, wantBanned := range []bool{false, true} {
		var del, keep []c07row
		for _, r := range before {
			if r.banned != wantBanned {
				continue
			}
			if left[r.key] {
				keep = append(keep, r)
			} else {
				del = append(del, r)
			}
		}
		sort.SliceStable(del, func(i, j int) bool { return del[i].size < del[j].size })
		for _, r := range del {
			order = append(order, r.key)
		}
		for _, r := range keep {
			order = append(order, r.key)
		}
	}
	return order
}

type c07result struct {
	coq     string
	nt      bool
	hist    []string
	tags    []string
	evicted int
}

func c07run(ctx *verifhlib.Ctx, dir string, cfg c07cfg, next func(n int, st *store) (c07op, bool)) c07result {
	os.RemoveAll(dir)
	st, err := NewStore(&Config{CapacityBytes: cfg.cap, RootDir: dir, RebootIncompleteBlobs: cfg.reboot, ShardLength: cfg.shard}, tally.NoopScope)
	if err != nil {
		panic(err)
	}
	defer os.RemoveAll(dir)
	ids := map[string]int{}
	for i := 0; i < 16; i++ {
		ids[c07key(i)] = i
	}
	var sops, sobs, hist []string
	tags := map[string]bool{}
	created, completed, removed := 0, 0, 0
	for n := 0; ; n++ {
		o, more := next(n, st.impl)
		if !more {
			break
		}
		key := c07key(o.key)
		sv := c07scoped(st, o.scope, n%3 == 1)
		scq := c07scopeCoq[o.scope]
		_, before, _ := c07snap(st.impl, ids)
		var opq, out string
		func() {
			defer func() {
				if r := recover(); r != nil {
					out = "OPanic"
				}
			}()
			switch o.kind {
			case c07CreateW:
				opq = fmt.Sprintf("CreateW %d %d %s", o.key, o.size, verifhlib.Bytes(o.data))
				if st.impl.size+o.size < st.impl.size {
					tags["size-wrap"] = true
				}
				f, err := sv.Create(key, o.size)
				out = c07err(err)
				if err == nil {
					if _, werr := f.Write(o.data); werr != nil {
						out = "OErr EOther"
					}
					f.Close()
					created++
				}
			case c07OpenRead:
				opq = fmt.Sprintf("OpenRead %d %s", o.key, scq)
				f, err := sv.Open(key)
				out = c07err(err)
				if err == nil {
					b, rerr := io.ReadAll(f)
					f.Close()
					if rerr != nil {
						out = "OErr EOther"
					} else {
						out = "OBytes " + verifhlib.Bytes(b)
					}
				}
			case c07OpenWriteAt:
				opq = fmt.Sprintf("OpenWriteAt %d %s %d %s", o.key, scq, o.off, verifhlib.Bytes(o.data))
				f, err := sv.Open(key)
				out = c07err(err)
				if err == nil {
					if _, werr := f.WriteAt(o.data, o.off); werr != nil {
						out = "OErr EOther"
					}
					f.Close()
				}
			case c07Has:
				opq = fmt.Sprintf("Has %d %s", o.key, scq)
				a, b := sv.Has(key)
				out = fmt.Sprintf("OHas %s %s", verifhlib.B(a), verifhlib.B(b))
			case c07Stat:
				opq = fmt.Sprintf("Stat %d %s", o.key, scq)
				fi, err := sv.Stat(key)
				out = c07err(err)
				if err == nil {
					out = "OSize " + c07z(fi.Size())
				}
			case c07MarkComplete:
				opq = fmt.Sprintf("MarkComplete %d", o.key)
				err := sv.MarkComplete(key)
				out = c07err(err)
				if err == nil {
					completed++
				}
			case c07Delete:
				opq = fmt.Sprintf("Delete %d %s", o.key, scq)
				out = c07err(sv.Delete(key))
			case c07List:
				opq = "ListK " + scq
				out = "OKeys " + c07keys(sv.List(), ids)
			case c07Ban:
				opq = fmt.Sprintf("Ban %d %s", o.key, scq)
				out = c07err(sv.BanEviction(key))
			case c07Unban:
				opq = fmt.Sprintf("Unban %d %s", o.key, scq)
				out = c07err(sv.UnbanEviction(key))
			case c07SetMd:
				opq = fmt.Sprintf("SetMd %d %s %d %s", o.key, scq, o.sfx, verifhlib.Bytes(o.data))
				out = c07err(sv.SetMetadata(key, &c07md{sfx: o.sfx, data: append([]byte{}, o.data...)}))
			case c07GetMd:
				opq = fmt.Sprintf("GetMd %d %s %d", o.key, scq, o.sfx)
				md := &c07md{sfx: o.sfx, data: []byte("stale")}
				ok, err := sv.GetMetadata(key, md)
				switch {
				case err != nil:
					out = c07err(err)
				case !ok:
					out = "ONone"
				default:
					out = "OBytes " + verifhlib.Bytes(md.data)
				}
			case c07DelMd:
				opq = fmt.Sprintf("DelMd %d %s %d", o.key, scq, o.sfx)
				out = c07err(sv.DeleteMetadata(key, (&c07md{sfx: o.sfx}).GetSuffix()))
			case c07ListMd:
				opq = fmt.Sprintf("ListMd %d %s", o.key, scq)
				mds, err := sv.ListMetadata(key)
				out = c07err(err)
				if err == nil {
					xs := []int{}
					for _, m := range mds {
						if v, ok := m.(*c07md); ok {
							xs = append(xs, v.sfx)
						} else {
							xs = append(xs, 999)
						}
					}
					sort.Ints(xs)
					out = "OKeys " + verifhlib.Ns(xs)
				}
			case c07WriteAtMd:
				opq = fmt.Sprintf("WriteAtMd %d %s %d %s %s", o.key, scq, o.sfx, c07z(o.off), verifhlib.Bytes(o.data))
				out = c07err(sv.WriteAtMetadata(key, &c07md{sfx: o.sfx}, o.data, o.off))
			case c07Clean:
				util, err := sv.Clean(o.pct, o.respect)
				_, after, _ := c07snap(st.impl, ids)
				opq = fmt.Sprintf("Clean %s %s %s", c07z(int64(o.pct)), verifhlib.B(o.respect), verifhlib.Ns(c07cleanOrder(before, after)))
				switch {
				case util < 0:
					out = "OPanic"
				case err == nil:
					out = fmt.Sprintf("OClean %d None", util)
				default:
					out = fmt.Sprintf("OClean %d (Some EOther)", util)
				}
			}
		}()
		snap, after, _ := c07snap(st.impl, ids)
		if len(after) < len(before) || (o.kind == c07CreateW && out == "OOk" && len(after) <= len(before)) {
			removed++
		}
		sops = append(sops, opq)
		sobs = append(sobs, "("+out+", "+snap+")")
		hist = append(hist, c07names[o.kind])
	}
	var tl []string
	for t := range tags {
		tl = append(tl, t)
	}
	sort.Strings(tl)
	return c07result{
		coq:  fmt.Sprintf("mkcase %d %s %s", cfg.cap, verifhlib.List(sops), verifhlib.List(sobs)),
		nt:   created >= 2 && completed >= 1 && removed >= 1,
		hist: hist, tags: tl, evicted: removed,
	}
}

// ---------------------------------------------------------------- generators

const c07max = ^uint64(0)

func c07fixed(ops []c07op) func(int, *store) (c07op, bool) {
	return func(n int, _ *store) (c07op, bool) {
		if n >= len(ops) {
			return c07op{}, false
		}
		return ops[n], true
	}
}

// c07gen draws the next operation against the store's CURRENT state (the shadow state is the
// real one: the driver lives in the package), so that most operations take a non-error path.
func c07gen(r *verifhlib.Rng, cfg c07cfg, nkeys, n int, malformed bool) func(int, *store) (c07op, bool) {
	return func(i int, st *store) (c07op, bool) {
		if i >= n {
			return c07op{}, false
		}
		return c07next(r, cfg, nkeys, malformed, st), true
	}
}

type c07shadow struct{ exists, complete, banned map[int]bool }

func c07next(r *verifhlib.Rng, cfg c07cfg, nkeys int, malformed bool, st *store) c07op {
	sh := c07shadow{map[int]bool{}, map[int]bool{}, map[int]bool{}}
	for k := 0; k < nkeys; k++ {
		if b, ok := st.blobs[c07key(k)]; ok {
			sh.exists[k], sh.complete[k], sh.banned[k] = true, b.complete, b.evictionBanned
		}
	}
	free := uint64(0)
	if st.size <= cfg.cap {
		free = cfg.cap - st.size
	}
	miss := false
	pickKey := func(want func(k int) bool) int {
		if !malformed && r.Chance(94) {
			var c []int
			for k := 0; k < nkeys; k++ {
				if want(k) {
					c = append(c, k)
				}
			}
			if len(c) > 0 {
				return c[r.Intn(len(c))]
			}
			miss = true
		}
		return r.Intn(nkeys)
	}
	scopeFor := func(k int) int {
		if malformed || r.Chance(12) {
			return r.Intn(3)
		}
		if r.Chance(50) {
			return 0
		}
		if sh.complete[k] {
			return 1
		}
		return 2
	}
	size := func() uint64 {
		c := cfg.cap
		switch r.Intn(24) {
		case 0:
			return 0
		case 1:
			return 1
		case 2:
			return c
		case 3:
			return c + 1 // wraps to 0 for c = 2^64-1: still a legal uint64
		case 4:
			return c - 1
		case 5:
			if malformed {
				return c07max - uint64(r.Intn(200))
			}
			return c / 2
		case 6:
			if malformed {
				return 1<<63 + uint64(r.Intn(3)) - 1
			}
			return c/2 + 1
		case 7:
			return c / 3
		case 8:
			return free
		case 9:
			return free + 1
		case 10:
			if free > 0 {
				return free - 1
			}
			return 0
		case 11:
			if malformed {
				return c07max - st.size + uint64(r.Intn(3)) // size+space = 2^64-1, 2^64, 2^64+1
			}
			return c / 4
		}
		// typical: a fraction of the capacity so that 2-4 blobs fit
		d := uint64(r.Range(2, 6))
		v := c / d
		if v > 4 && r.Bool() {
			v -= uint64(r.Intn(4))
		}
		return v
	}
	any := func(k int) bool { return sh.exists[k] }
	for try := 0; ; try++ {
		miss = false
		k := r.Intn(100)
		if len(sh.exists) < 2 && r.Chance(50) {
			k = 0
		}
		var o c07op
		switch {
		case k < 20:
			o = c07op{kind: c07CreateW, key: pickKey(func(k int) bool { return !sh.exists[k] }), size: size(), data: r.Bytes(r.Intn(6))}
		case k < 34:
			o = c07op{kind: c07MarkComplete, key: pickKey(func(k int) bool { return sh.exists[k] && !sh.complete[k] })}
		case k < 46:
			o = c07op{kind: c07OpenRead, key: pickKey(any)}
			o.scope = scopeFor(o.key)
		case k < 50:
			o = c07op{kind: c07OpenWriteAt, key: pickKey(any), off: int64(r.Intn(8)), data: r.Bytes(r.Intn(5))}
			o.scope = scopeFor(o.key)
		case k < 55:
			o = c07op{kind: c07Delete, key: pickKey(any)}
			o.scope = scopeFor(o.key)
		case k < 61:
			o = c07op{kind: c07Ban, key: pickKey(func(k int) bool { return sh.exists[k] && !sh.banned[k] })}
			o.scope = scopeFor(o.key)
		case k < 68:
			o = c07op{kind: c07Unban, key: pickKey(func(k int) bool { return sh.exists[k] && sh.banned[k] })}
			o.scope = scopeFor(o.key)
		case k < 71:
			o = c07op{kind: c07Has, key: r.Intn(nkeys), scope: r.Intn(3)}
		case k < 74:
			o = c07op{kind: c07Stat, key: pickKey(any)}
			o.scope = scopeFor(o.key)
		case k < 78:
			o = c07op{kind: c07List, scope: r.Intn(3)}
		case k < 84:
			o = c07op{kind: c07SetMd, key: pickKey(any), sfx: r.Intn(4), data: r.Bytes(r.Intn(5))}
			o.scope = scopeFor(o.key)
		case k < 89:
			o = c07op{kind: c07GetMd, key: pickKey(any), sfx: r.Intn(4)}
			o.scope = scopeFor(o.key)
		case k < 91:
			o = c07op{kind: c07DelMd, key: pickKey(any), sfx: r.Intn(4)}
			o.scope = scopeFor(o.key)
		case k < 94:
			o = c07op{kind: c07ListMd, key: pickKey(any)}
			o.scope = scopeFor(o.key)
		case k < 96:
			o = c07op{kind: c07WriteAtMd, key: pickKey(any), sfx: r.Intn(4), off: int64(r.Intn(6)), data: r.Bytes(r.Intn(4))}
			if malformed && r.Chance(30) {
				o.off = -1
			}
			o.scope = scopeFor(o.key)
		default:
			o = c07op{kind: c07Clean, pct: []int{0, 10, 25, 50, 75, 99, 99, 50}[r.Intn(8)], respect: r.Bool()}
			if malformed && r.Chance(40) {
				o.pct = []int{-1, 100, 101, -50}[r.Intn(4)]
			}
		}
		if !miss || try >= 6 {
			return o
		}
	}
}

func c07driver(ctx *verifhlib.Ctx) {
	log.SetGlobalLogger(zap.NewNop().Sugar())
	r := verifhlib.NewRng(ctx.Seed)
	ncase := 0
	// cases are independent (own store directory, own forked generator): they are queued here and
	// executed by a small worker pool at the end of the driver; results are emitted in queue order
	type job struct {
		cfg  c07cfg
		next func(int, *store) (c07op, bool)
		kind string
	}
	var jobs []job
	emitg := func(cfg c07cfg, next func(int, *store) (c07op, bool), kind string) {
		ncase++
		jobs = append(jobs, job{cfg, next, kind})
	}
	defer func() {
		results := make([]c07result, len(jobs))
		var wg sync.WaitGroup
		ch := make(chan int)
		for w := 0; w < 8; w++ {
			wg.Add(1)
			go func() {
				defer wg.Done()
				for i := range ch {
					results[i] = c07run(ctx, filepath.Join(ctx.Tmp, fmt.Sprintf("s%d", i)), jobs[i].cfg, jobs[i].next)
				}
			}()
		}
		for i := range jobs {
			ch <- i
		}
		close(ch)
		wg.Wait()
		for i, res := range results {
			ctx.Emit(verifhlib.Case{Coq: res.coq, NT: res.nt, Kind: jobs[i].kind, Hist: res.hist, Tags: res.tags,
				Sample: map[string]string{"case": res.coq}})
		}
	}()
	emit := func(cfg c07cfg, ops []c07op, kind string) { emitg(cfg, c07fixed(ops), kind) }
	cw := func(k int, size uint64, data string) c07op {
		return c07op{kind: c07CreateW, key: k, size: size, data: []byte(data)}
	}
	mc := func(k int) c07op { return c07op{kind: c07MarkComplete, key: k} }
	op := func(kind, k, sc int) c07op { return c07op{kind: kind, key: k, scope: sc} }
	std := c07cfg{100, 2, false}

	// ---- seeds: refutation witnesses and the boundaries reasoned about
	// C07_wrap_refuted: 10 + (2^64-5) wraps to 5 <= 100 on the pre-fix code
	emit(std, []c07op{cw(0, 10, "ab"), cw(1, c07max-4, ""), op(c07List, 0, 0), op(c07Delete, 1, 0), op(c07Delete, 0, 0)}, "seed-size-wrap")
	emit(std, []c07op{cw(0, 10, ""), mc(0), cw(1, c07max-9, ""), op(c07List, 0, 0)}, "seed-size-wrap-to-zero")
	emit(c07cfg{c07max, 0, true}, []c07op{cw(0, c07max, ""), cw(1, 1, ""), mc(0), cw(1, 1, ""), cw(2, c07max, ""), op(c07List, 0, 0)}, "seed-max-capacity")
	emit(c07cfg{1 << 63, 1, false}, []c07op{cw(0, 1<<63, ""), cw(1, 1<<63, ""), mc(0), cw(1, 1<<63, ""), {kind: c07Clean, pct: 50}}, "seed-half-capacity")
	// admission boundaries: exactly full, one over, zero size, larger than capacity (evicts everything, then refuses)
	emit(std, []c07op{cw(0, 60, "x"), cw(1, 40, "y"), cw(2, 1, ""), cw(2, 0, ""), mc(0), cw(3, 1, ""), cw(4, 101, ""), op(c07List, 0, 0)}, "seed-admission-boundary")
	// LRU order: open moves to back; ban removes; unban re-enqueues at the back; completion order
	emit(std, []c07op{cw(0, 30, "a"), cw(1, 30, "b"), cw(2, 30, "c"), mc(1), mc(0), mc(2), op(c07OpenRead, 1, 1), op(c07Ban, 0, 0), op(c07Unban, 0, 1),
		cw(3, 30, "d"), cw(4, 30, "e"), cw(5, 30, "f"), op(c07List, 0, 0)}, "seed-lru-order")
	// banned and incomplete blobs are never evicted; failed creation keeps the evictions and releases nothing
	emit(std, []c07op{cw(0, 40, ""), cw(1, 40, ""), mc(0), op(c07Ban, 0, 1), cw(2, 40, ""), op(c07Unban, 0, 0), cw(2, 40, ""), op(c07List, 0, 0)}, "seed-unevictable")
	// ban before completion: MarkComplete must not enqueue
	emit(std, []c07op{cw(0, 50, ""), op(c07Ban, 0, 2), mc(0), cw(1, 60, ""), op(c07Unban, 0, 1), cw(1, 60, ""), op(c07Has, 0, 0)}, "seed-ban-then-complete")
	// scopes
	emit(std, []c07op{cw(0, 10, "in"), cw(1, 10, "co"), mc(1), op(c07OpenRead, 0, 1), op(c07OpenRead, 0, 2), op(c07OpenRead, 1, 1), op(c07OpenRead, 1, 2),
		op(c07Has, 0, 1), op(c07Has, 1, 2), op(c07Has, 5, 0), op(c07List, 0, 0), op(c07List, 0, 1), op(c07List, 0, 2), op(c07Delete, 0, 1), op(c07Delete, 1, 2),
		op(c07Stat, 0, 1), op(c07Stat, 1, 0), op(c07Ban, 0, 1), op(c07Unban, 1, 2)}, "seed-scopes")
	// metadata: last write wins, movable survives completion, immovable disappears, WriteAt patches
	emit(std, []c07op{cw(0, 10, ""), {kind: c07SetMd, key: 0, sfx: 1, data: []byte("m1")}, {kind: c07SetMd, key: 0, sfx: 2, data: []byte("i1")},
		{kind: c07SetMd, key: 0, sfx: 1, data: []byte("m2")}, {kind: c07GetMd, key: 0, sfx: 1}, {kind: c07GetMd, key: 0, sfx: 2}, {kind: c07GetMd, key: 0, sfx: 3},
		op(c07ListMd, 0, 0), {kind: c07WriteAtMd, key: 0, sfx: 1, off: 1, data: []byte("ZZZ")}, {kind: c07WriteAtMd, key: 0, sfx: 3, off: 0, data: []byte("q")},
		mc(0), {kind: c07GetMd, key: 0, sfx: 1}, {kind: c07GetMd, key: 0, sfx: 2}, op(c07ListMd, 0, 1), {kind: c07SetMd, key: 0, sfx: 2, data: []byte("i2")},
		{kind: c07GetMd, key: 0, sfx: 2, scope: 1}, {kind: c07DelMd, key: 0, sfx: 1}, {kind: c07DelMd, key: 0, sfx: 1}, {kind: c07GetMd, key: 0, sfx: 1}, {kind: c07GetMd, key: 0, sfx: 1, scope: 2}}, "seed-metadata")
	// past failure of the MODEL (thorough run, case 32909): a zero-length WriteAtMetadata beyond the end does not extend the file
	emit(std, []c07op{cw(0, 10, ""), {kind: c07SetMd, key: 0, sfx: 1, data: []byte{163}}, {kind: c07WriteAtMd, key: 0, sfx: 1, off: 4, data: nil},
		{kind: c07GetMd, key: 0, sfx: 1}, {kind: c07WriteAtMd, key: 0, sfx: 1, off: 3, data: []byte{7}}, {kind: c07GetMd, key: 0, sfx: 1}}, "seed-zero-length-writeat-metadata")
	// Clean: LRU first, then incomplete, then (only if asked) banned; bad percentages
	emit(std, []c07op{cw(0, 20, ""), cw(1, 20, ""), cw(2, 20, ""), cw(3, 20, ""), mc(0), mc(1), op(c07Ban, 1, 0), op(c07Ban, 3, 0),
		{kind: c07Clean, pct: 100}, {kind: c07Clean, pct: -1}, {kind: c07Clean, pct: 70, respect: true}, {kind: c07Clean, pct: 50, respect: true},
		{kind: c07Clean, pct: 30, respect: true}, {kind: c07Clean, pct: 30, respect: false}, {kind: c07Clean, pct: 0, respect: false}}, "seed-clean")
	// data through handles, re-creation gives a fresh file
	emit(std, []c07op{cw(0, 10, "hello"), {kind: c07OpenWriteAt, key: 0, off: 7, data: []byte("w")}, op(c07OpenRead, 0, 0), op(c07Stat, 0, 0),
		op(c07Delete, 0, 0), op(c07OpenRead, 0, 0), cw(0, 5, ""), op(c07OpenRead, 0, 0), {kind: c07OpenWriteAt, key: 0, off: 3, data: nil}, op(c07Stat, 0, 0)}, "seed-data")

	if ctx.Tier == "thorough" {
		// exhaustive: every history of length <= 4 over 2 keys (validates the correspondence; not the proof)
		alpha := []c07op{cw(0, 60, "a"), cw(1, 60, "b"), mc(0), mc(1), op(c07OpenRead, 0, 0), op(c07OpenRead, 1, 1), op(c07Delete, 0, 0), op(c07Delete, 1, 2),
			op(c07Ban, 0, 0), op(c07Ban, 1, 0), op(c07Unban, 0, 0), op(c07Unban, 1, 0), {kind: c07Clean, pct: 50, respect: true}}
		var rec func(prefix []c07op, depth int)
		rec = func(prefix []c07op, depth int) {
			if len(prefix) > 0 {
				emit(std, append(append([]c07op{}, prefix...), cw(2, 50, ""), op(c07List, 0, 0)), "exhaustive")
			}
			if depth == 0 {
				return
			}
			for _, a := range alpha {
				rec(append(prefix, a), depth-1)
			}
		}
		rec(nil, 4)
	}

	caps := []uint64{100, 100, 100, 1000, 7, 1, 1 << 32, 1 << 63, c07max, c07max / 99}
	maxLen := 30
	if ctx.Tier == "thorough" {
		maxLen = 80
	}
	for i := 0; i < ctx.N; i++ {
		rr := r.Fork()
		cfg := c07cfg{cap: caps[rr.Intn(len(caps))], shard: rr.Intn(3), reboot: rr.Bool()}
		malformed := rr.Chance(15)
		kind := "random"
		if malformed {
			kind = "random-malformed"
		}
		if cfg.cap > 1<<40 {
			kind += "-hugecap"
		}
		emitg(cfg, c07gen(rr, cfg, rr.Range(3, 5), rr.Range(4, maxLen), malformed), kind)
	}
}
