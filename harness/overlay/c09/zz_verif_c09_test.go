//go:build verif

package tiered

// C09 correspondence driver: schedules of client operations against ONE flush worker on the real
// tiered.Store.  The worker is parked at the five verifYield points of flusher.go, at the
// memOpen / ioCopy seams, and (by holding flusher.mu) at its next f.mu.Lock; the driver decides
// when it proceeds.  Overlaid into lib/store/tiered at build time; never present in the repository.

import (
	"bytes"
	"errors"
	"fmt"
	"io"
	"math"
	"os"
	"path/filepath"
	"regexp"
	"runtime"
	"sort"
	"strconv"
	"strings"
	"sync/atomic"
	"testing"
	"time"

	"github.com/uber-go/tally"

	storelib "github.com/uber/kraken/lib/store"
	"github.com/uber/kraken/lib/store/disk"
	"github.com/uber/kraken/lib/store/memory"
	"github.com/uber/kraken/lib/store/metadata"
	"github.com/uber/kraken/utils/verifhlib"
)

func TestVerifC09(t *testing.T) { verifhlib.MainEnv("C09", c09driver) }

// ---------------------------------------------------------------- metadata type `_c09md<s>` (movable)

type c09md struct {
	sfx  int
	data []byte
}

func (m *c09md) GetSuffix() string          { return "_c09md" + strconv.Itoa(m.sfx) }
func (m *c09md) Movable() bool              { return true }
func (m *c09md) Serialize() ([]byte, error) { return append([]byte{}, m.data...), nil }
func (m *c09md) Deserialize(b []byte) error { m.data = append([]byte{}, b...); return nil }

type c09mdFactory struct{}

var c09mdRe = regexp.MustCompile(`^_c09md(\d+)$`)

func (c09mdFactory) Create(suffix string) metadata.Metadata {
	n, _ := strconv.Atoi(c09mdRe.FindStringSubmatch(suffix)[1])
	return &c09md{sfx: n}
}

func init() { metadata.Register(c09mdRe, c09mdFactory{}) }

// ---------------------------------------------------------------- parking the worker

type c09ctl struct {
	parked chan string
	resume chan struct{}
}

var c09cur atomic.Pointer[c09ctl]

func c09park(point string) {
	c := c09cur.Load()
	if c == nil {
		return
	}
	c.parked <- point
	<-c.resume
}

var c09seamsOnce bool

func c09installSeams() {
	if c09seamsOnce {
		return
	}
	c09seamsOnce = true
	verifYieldHook = c09park
	realOpen := memOpen
	memOpen = func(mem *memory.Store, key string) (*memory.File, error) {
		f, err := realOpen(mem, key)
		if err == nil {
			c09park("seam.mem_opened")
		}
		return f, err
	}
	ioCopy = func(dst io.Writer, src io.Reader) (int64, error) {
		c09park("seam.before_copy")
		n, err := io.Copy(dst, src)
		if err == nil {
			c09park("seam.after_copy")
		}
		return n, err
	}
}

var c09points = map[string]int{
	"flusher.flush_start": 1, "seam.mem_opened": 2, "seam.before_copy": 4, "seam.after_copy": 5,
	"flusher.data_flushed": 6, "flusher.md_snapshot": 7, "flusher.md_flushed": 8, "flusher.before_unban": 9,
}

var c09dump = make([]byte, 1<<18)

// c09workerStatus returns the scheduler status of the (single) flush worker goroutine:
// "select" = blocked in worker()'s select (idle), "sync.Mutex.Lock" = blocked on a mutex, ...
func c09workerStatus() (string, int) {
	var n int
	for {
		n = runtime.Stack(c09dump, true)
		if n < len(c09dump) {
			break
		}
		c09dump = make([]byte, 2*len(c09dump))
	}
	status, cnt := "", 0
	for _, blk := range bytes.Split(c09dump[:n], []byte("\n\n")) {
		if !bytes.HasPrefix(blk, []byte("goroutine ")) || !bytes.Contains(blk, []byte("tiered.(*flusher).worker")) {
			continue
		}
		cnt++
		hdrEnd := bytes.IndexByte(blk, '\n')
		if hdrEnd < 0 {
			hdrEnd = len(blk)
		}
		hdr := blk[:hdrEnd]
		lb := bytes.IndexByte(hdr, '[')
		rb := bytes.IndexAny(hdr, ",]")
		if lb >= 0 && rb > lb {
			status = string(hdr[lb+1 : rb])
		}
	}
	return status, cnt
}

// ---------------------------------------------------------------- executing one schedule

const c09nkeys = 4 // keys 1..4 (4 = filler used for memory pressure)

func c09key(i int) string { return fmt.Sprintf("c09blob%02d", i) }

var c09scopeCoq = []string{"SAny", "SComplete", "SIncomplete"}

type c09exec struct {
	s       *Store
	ctl     *c09ctl
	pt      int  // park point of the worker (0 idle)
	wkey    int  // key being flushed (0 when idle)
	inHook  bool // parked inside c09park (needs resume)
	held    bool // driver holds flusher.mu (worker blocked on it)
	aborted bool // while held at pt 3: f.blobs has no entry for wkey
	steps   []string
	hist    []string
	tags    map[string]bool
	incon   bool
	// statistics for the non-triviality rule
	fullFlushes int
	midFlushMut int
	shadow      [c09nkeys + 1]int // 0 absent 1 incomplete 2 complete (generator bias only)
	sample      []string
}

func (x *c09exec) scoped(sc int) *Store {
	switch sc {
	case 1:
		return x.s.ScopeComplete()
	case 2:
		return x.s.ScopeIncomplete()
	}
	return x.s
}

func c09err(err error) string {
	switch {
	case err == nil:
		return "OOk"
	case errors.Is(err, storelib.ErrOutOfScope):
		return "OErr EOutOfScope"
	case errors.Is(err, os.ErrNotExist):
		return "OErr ENotExist"
	case errors.Is(err, os.ErrExist):
		return "OErr EExist"
	}
	return "OErr EOther"
}

func (x *c09exec) emit(op, out, kind string) {
	x.steps = append(x.steps, "("+op+", "+out+")")
	x.hist = append(x.hist, kind)
	if len(x.sample) < 60 {
		x.sample = append(x.sample, op+" -> "+out)
	}
}

func (x *c09exec) emitC(op, out, kind string) { x.emit("C ("+op+")", "MO ("+out+")", kind) }

type c09snap struct{ mem, disk [c09nkeys + 1]bool }

func (x *c09exec) snap() c09snap {
	var sn c09snap
	for k := 1; k <= c09nkeys; k++ {
		sn.mem[k], _ = x.s.impl.mem.Has(c09key(k))
		sn.disk[k], _ = x.s.impl.disk.Has(c09key(k))
	}
	return sn
}

// waitQuiet waits until the worker is parked in a hook, idle in its select, or (when the driver
// holds flusher.mu) blocked on that mutex.
func (x *c09exec) waitQuiet() string {
	deadline := time.Now().Add(20 * time.Second)
	for i := 0; ; i++ {
		select {
		case p := <-x.ctl.parked:
			return p
		default:
		}
		st, cnt := c09workerStatus()
		if cnt == 1 {
			if st == "select" {
				select {
				case p := <-x.ctl.parked:
					return p
				default:
				}
				return "idle"
			}
			if x.held && st == "sync.Mutex.Lock" {
				return "mutex"
			}
		}
		if i < 20 {
			runtime.Gosched()
		} else {
			time.Sleep(50 * time.Microsecond)
			if i%128 == 0 && time.Now().After(deadline) {
				return "timeout"
			}
		}
	}
}

func (x *c09exec) queueSnapshot() []string {
	f := x.s.impl.flusher
	f.mu.Lock()
	defer f.mu.Unlock()
	return append([]string{}, f.queue...)
}

func c09keyIndex(name string) int {
	for k := 1; k <= c09nkeys; k++ {
		if c09key(k) == name {
			return k
		}
	}
	return 99
}

// settle records where the worker came to rest after `release` (or after a client operation
// that woke it up); opKey = key of the client operation that may have enqueued something.
func (x *c09exec) settle(res string, q0 []string, opKey int) {
	prevPt, prevKey := x.pt, x.wkey
	switch res {
	case "timeout":
		x.incon = true
		return
	case "idle":
		x.pt, x.wkey, x.inHook = 0, 0, false
	case "mutex":
		x.inHook = false
		if in, _ := x.s.impl.disk.Has(c09key(x.wkey)); in {
			x.pt = 3
		} else {
			x.pt = 10
		}
		_, tracked := x.s.impl.flusher.blobs[c09key(x.wkey)] // f.mu is held by the driver
		x.aborted = !tracked
	default:
		x.inHook = true
		x.pt = c09points[res]
		if x.pt == 1 {
			// which key was popped: the queue before minus the queue now (last popped), or the
			// key the client operation just enqueued when the worker was idle
			if prevPt == 0 {
				x.wkey = opKey
			} else {
				q1 := x.queueSnapshot()
				np := len(q0) - len(q1)
				if np >= 1 && np <= len(q0) {
					x.wkey = c09keyIndex(q0[np-1])
				} else {
					x.incon = true
				}
			}
		} else {
			x.wkey = prevKey
		}
		if x.pt == 9 && prevPt == 8 {
			x.fullFlushes++
		}
	}
}

// release lets the worker run to its next park point. held=true: with flusher.mu held.
func (x *c09exec) release(hold bool) {
	if x.incon || (x.pt == 0 && !x.held) {
		return
	}
	before := x.snap()
	fromPt, fromKey := x.pt, x.wkey
	var q0 []string
	if !x.held {
		q0 = x.queueSnapshot()
	}
	f := x.s.impl.flusher
	wasHeld := x.held
	if hold && !wasHeld {
		f.mu.Lock()
		x.held = true
	}
	if x.inHook {
		x.inHook = false
		x.ctl.resume <- struct{}{}
	}
	if wasHeld {
		x.held = false
		f.mu.Unlock()
	}
	res := x.waitQuiet()
	if res == "mutex" && !x.held {
		x.incon = true
		return
	}
	if x.held && res != "mutex" {
		// the worker came to rest without needing flusher.mu: give the mutex back
		x.held = false
		f.mu.Unlock()
	}
	x.settle(res, q0, 0)
	if x.incon {
		return
	}
	after := x.snap()
	for v := 1; v <= c09nkeys; v++ {
		if v != fromKey && before.disk[v] && !after.disk[v] {
			x.emitC(fmt.Sprintf("EvictDisk %d", v), "OOk", "EvictDisk")
			x.shadow[v] = 0
		}
	}
	ns := "None"
	if fromPt == 2 && (x.pt == 9 || x.pt == 10) && !before.disk[fromKey] {
		ns = fmt.Sprintf("(Some %d)", fromKey)
	}
	name := "MW"
	if hold {
		name = "MWC"
	}
	x.emit(name+" "+ns, fmt.Sprintf("MP %d %d", x.pt, x.wkey), name)
}

// afterClient: a client operation may have woken an idle worker
func (x *c09exec) afterClient(opKey int) {
	if x.incon || x.pt != 0 || x.held {
		return
	}
	res := x.waitQuiet()
	if res == "idle" {
		return
	}
	x.settle(res, nil, opKey)
	if x.incon {
		return
	}
	x.emit("MW None", fmt.Sprintf("MP %d %d", x.pt, x.wkey), "MW")
}

func (x *c09exec) midFlush(k int) bool { return x.pt != 0 && x.wkey == k }

func (x *c09exec) tagWindow3(k int) {
	if x.held && x.pt == 3 && x.aborted && (k == x.wkey || k == 0) {
		x.tags["resurface-window"] = true
	}
}

func (x *c09exec) mutated(k int) {
	if x.pt != 0 {
		x.midFlushMut++
	}
}

func c09bytes(b []byte) string { return verifhlib.Bytes(b) }

func (x *c09exec) create(k int, data []byte, size uint64) {
	if x.incon {
		return
	}
	before := x.snap()
	f, err := x.s.Create(c09key(k), size)
	if err == nil {
		if _, werr := f.Write(data); werr != nil {
			x.incon = true
		}
		f.Close()
	}
	after := x.snap()
	for v := 1; v <= c09nkeys; v++ {
		if v == k {
			continue
		}
		if before.mem[v] && !after.mem[v] {
			x.emitC(fmt.Sprintf("EvictMem %d", v), "OOk", "EvictMem")
		}
		if before.disk[v] && !after.disk[v] {
			x.emitC(fmt.Sprintf("EvictDisk %d", v), "OOk", "EvictDisk")
		}
		if !after.mem[v] && !after.disk[v] {
			x.shadow[v] = 0
		}
	}
	pl := "PMem"
	switch {
	case err == nil && after.mem[k]:
		pl = "PMem"
	case err == nil:
		pl = "PDisk"
	case errors.Is(err, os.ErrExist):
		pl = "PMem"
	default:
		pl = "PNoSpace"
	}
	if err == nil {
		if x.midFlush(k) {
			x.tags["stale-flush-after-recreate"] = true
		}
		x.shadow[k] = 1
		x.mutated(k)
	}
	x.tagWindow3(k)
	x.emitC(fmt.Sprintf("Create %d %s %s", k, c09bytes(data), pl), c09err(err), "Create")
	x.afterClient(k)
}

func (x *c09exec) open(k, sc int) {
	if x.incon {
		return
	}
	x.tagWindow3(k)
	f, err := x.scoped(sc).Open(c09key(k))
	out := c09err(err)
	if err == nil {
		b, rerr := io.ReadAll(f)
		f.Close()
		if rerr != nil {
			out = "OErr EOther"
		} else {
			out = "OBytes " + c09bytes(b)
		}
	}
	x.emitC(fmt.Sprintf("Open %d %s", k, c09scopeCoq[sc]), out, "Open")
}

func (x *c09exec) has(k, sc int) {
	if x.incon {
		return
	}
	x.tagWindow3(k)
	a, b := x.scoped(sc).Has(c09key(k))
	x.emitC(fmt.Sprintf("Has %d %s", k, c09scopeCoq[sc]), fmt.Sprintf("OHas %v %v", a, b), "Has")
}

func (x *c09exec) list(sc int) {
	if x.incon {
		return
	}
	x.tagWindow3(0)
	names := x.scoped(sc).List()
	ids := make([]int, 0, len(names))
	for _, n := range names {
		ids = append(ids, c09keyIndex(n))
	}
	sort.Ints(ids)
	x.emitC("ListK "+c09scopeCoq[sc], "OKeys "+verifhlib.Ns(ids), "ListK")
}

func (x *c09exec) del(k int) {
	if x.incon || x.held {
		return
	}
	err := x.s.Delete(c09key(k))
	if err == nil {
		x.shadow[k] = 0
		x.mutated(k)
	}
	x.emitC(fmt.Sprintf("Delete %d", k), c09err(err), "Delete")
	x.afterClient(k)
}

func (x *c09exec) mark(k int) {
	if x.incon || x.held {
		return
	}
	err := x.s.MarkComplete(c09key(k))
	if err == nil && x.shadow[k] == 1 {
		x.shadow[k] = 2
		x.mutated(k)
	}
	x.emitC(fmt.Sprintf("MarkComplete %d", k), c09err(err), "MarkComplete")
	x.afterClient(k)
}

func (x *c09exec) setmd(k, sfx int, val []byte) {
	if x.incon || x.held {
		return
	}
	err := x.s.SetMetadata(c09key(k), &c09md{sfx: sfx, data: val})
	if err == nil {
		if x.pt == 9 && x.wkey == k {
			x.tags["unban-window"] = true
		}
		x.mutated(k)
	}
	x.emitC(fmt.Sprintf("SetMd %d %d %s", k, sfx, c09bytes(val)), c09err(err), "SetMd")
	x.afterClient(k)
}

func (x *c09exec) delmd(k, sfx int) {
	if x.incon || x.held {
		return
	}
	err := x.s.DeleteMetadata(c09key(k), (&c09md{sfx: sfx}).GetSuffix())
	if err == nil {
		if x.pt == 9 && x.wkey == k {
			x.tags["unban-window"] = true
		}
		x.mutated(k)
	}
	x.emitC(fmt.Sprintf("DelMd %d %d", k, sfx), c09err(err), "DelMd")
	x.afterClient(k)
}

func (x *c09exec) getmd(k, sfx, sc int) {
	if x.incon {
		return
	}
	x.tagWindow3(k)
	md := &c09md{sfx: sfx}
	ok, err := x.scoped(sc).GetMetadata(c09key(k), md)
	out := c09err(err)
	if err == nil {
		if ok {
			out = "OMd (Some " + c09bytes(md.data) + ")"
		} else {
			out = "OMd None"
		}
	}
	x.emitC(fmt.Sprintf("GetMd %d %d %s", k, sfx, c09scopeCoq[sc]), out, "GetMd")
}

func (x *c09exec) where(k int) {
	if x.incon {
		return
	}
	m1, _ := x.s.impl.mem.Has(c09key(k))
	_, m2 := x.s.impl.mem.ScopeComplete().Has(c09key(k))
	d1, _ := x.s.impl.disk.Has(c09key(k))
	_, d2 := x.s.impl.disk.ScopeComplete().Has(c09key(k))
	x.emitC(fmt.Sprintf("Where %d", k), fmt.Sprintf("OWhere %v %v %v %v", m1, m1 && m2, d1, d1 && d2), "Where")
}

// pressure: a filler blob as large as the memory tier evicts everything evictable from it
func (x *c09exec) pressure(memCap uint64) {
	if x.incon || x.held {
		return
	}
	x.create(c09nkeys, []byte{0}, memCap)
	x.del(c09nkeys)
}

func (x *c09exec) drain() {
	for i := 0; i < 200 && !x.incon && (x.pt != 0 || x.held); i++ {
		x.release(false)
	}
	if x.pt != 0 {
		x.incon = true
	}
}

func (x *c09exec) probes(keys int) {
	for k := 1; k <= keys; k++ {
		x.where(k)
		x.has(k, 0)
		x.open(k, 0)
		x.getmd(k, 1, 0)
		x.getmd(k, 2, 0)
	}
	x.list(0)
}

type c09cfg struct {
	memCap, diskCap uint64
}

// c09run executes one schedule (script drives the executor) on a fresh store and emits the case.
func c09run(ctx *verifhlib.Ctx, dir string, cfg c09cfg, kind string, script func(x *c09exec)) {
	c09installSeams()
	os.RemoveAll(dir)
	defer os.RemoveAll(dir)
	ctl := &c09ctl{parked: make(chan string), resume: make(chan struct{})}
	c09cur.Store(ctl)
	s, _, err := NewStore(&Config{
		NumFlushWorkers: 1,
		DiskConfig:      &disk.Config{RootDir: dir, CapacityBytes: cfg.diskCap},
		MemConfig:       &memory.Config{CapacityBytes: cfg.memCap, GOMEMLIMITBytes: math.MaxInt64},
	}, tally.NoopScope)
	if err != nil {
		panic(err)
	}
	x := &c09exec{s: s, ctl: ctl, tags: map[string]bool{}}
	if x.waitQuiet() != "idle" {
		x.incon = true
	}
	script(x)
	// epilogue: run the worker dry, look at everything, squeeze the memory tier, look again
	x.drain()
	x.probes(3)
	x.pressure(cfg.memCap)
	x.drain()
	x.probes(3)
	// stop the worker
	if x.held {
		x.held = false
		s.impl.flusher.mu.Unlock()
	}
	if x.inHook {
		c09cur.Store(nil)
		x.ctl.resume <- struct{}{}
	}
	c09cur.Store(nil)
	close(s.impl.flusher.stop)
	for i := 0; i < 200000; i++ {
		select {
		case <-ctl.parked:
			ctl.resume <- struct{}{}
		default:
		}
		if _, cnt := c09workerStatus(); cnt == 0 {
			break
		}
		time.Sleep(50 * time.Microsecond)
	}
	var tags []string
	for t := range x.tags {
		tags = append(tags, t)
	}
	sort.Strings(tags)
	ctx.Emit(verifhlib.Case{
		Coq:    "mkcase [" + strings.Join(x.steps, ";\n ") + "]",
		NT:     x.fullFlushes >= 1 && x.midFlushMut >= 1,
		Kind:   kind,
		Hist:   x.hist,
		Sample: map[string]interface{}{"memCap": cfg.memCap, "diskCap": cfg.diskCap, "steps": x.sample},
		Tags:   tags,
		Incon:  x.incon,
	})
}

// ---------------------------------------------------------------- schedules

// relTo releases the worker until it rests at park point pt, has passed it, or goes idle
func (x *c09exec) relTo(pt int) {
	for i := 0; i < 40 && !x.incon && x.pt < pt && x.pt != 0; i++ {
		x.release(false)
	}
}

type c09ins struct {
	name string
	f    func(x *c09exec, memCap uint64)
	// usable while the driver holds flusher.mu (does not enter the flusher)
	heldOK bool
}

var c09alphabet = []c09ins{
	{"setmd", func(x *c09exec, _ uint64) { x.setmd(1, 1, []byte{9}) }, false},
	{"setmd2", func(x *c09exec, _ uint64) { x.setmd(1, 2, []byte{5, 5}) }, false},
	{"delmd", func(x *c09exec, _ uint64) { x.delmd(1, 1) }, false},
	{"delete", func(x *c09exec, _ uint64) { x.del(1) }, false},
	{"recreate", func(x *c09exec, _ uint64) { x.del(1); x.create(1, []byte{8, 8}, 2); x.mark(1) }, false},
	{"open", func(x *c09exec, _ uint64) { x.open(1, 0) }, true},
	{"has", func(x *c09exec, _ uint64) { x.has(1, 0) }, true},
	{"getmd", func(x *c09exec, _ uint64) { x.getmd(1, 1, 0) }, true},
	{"list", func(x *c09exec, _ uint64) { x.list(0); x.list(2) }, true},
	{"mark", func(x *c09exec, _ uint64) { x.mark(1) }, false},
	{"createdup", func(x *c09exec, _ uint64) { x.create(1, []byte{6}, 2) }, true},
	{"pressure", func(x *c09exec, c uint64) { x.pressure(c) }, false},
	{"other", func(x *c09exec, _ uint64) { x.create(2, []byte{3}, 2); x.mark(2); x.setmd(2, 1, []byte{4}) }, false},
}

// data flush of key 1 with the instruction(s) placed at the given park points
func c09placed(premd bool, at map[int][]int, memCap uint64) func(x *c09exec) {
	return func(x *c09exec) {
		x.create(1, []byte{7}, 2)
		if premd {
			x.setmd(1, 1, []byte{1})
		}
		x.mark(1)
		for _, pt := range []int{1, 2, 3, 4, 5, 6, 7, 8, 9} {
			if x.pt == 0 || x.incon {
				break
			}
			ins, ok := at[pt]
			if pt == 3 {
				if !ok || x.pt != 2 {
					continue
				}
				x.release(true)
			} else {
				x.relTo(pt)
			}
			if x.pt != pt {
				continue
			}
			for _, i := range ins {
				if x.held && !c09alphabet[i].heldOK {
					continue
				}
				c09alphabet[i].f(x, memCap)
			}
		}
	}
}

// metadata-only flush of key 1 (already flushed and unbanned) with instructions placed
func c09placedMd(at map[int][]int, memCap uint64) func(x *c09exec) {
	return func(x *c09exec) {
		x.create(1, []byte{7}, 2)
		x.mark(1)
		x.drain()
		x.setmd(1, 1, []byte{2})
		for _, pt := range []int{1, 6, 7, 8, 9} {
			if x.pt == 0 || x.incon {
				break
			}
			x.relTo(pt)
			if x.pt != pt {
				continue
			}
			for _, i := range at[pt] {
				c09alphabet[i].f(x, memCap)
			}
		}
	}
}

func c09seeds(ctx *verifhlib.Ctx, dir func() string) {
	roomy := c09cfg{memCap: 8, diskCap: 100}
	// (a) C09_unban_window_refuted: SetMetadata between delete(f.blobs,k) and UnbanEviction(k)
	c09run(ctx, dir(), roomy, "seed-unban-window", func(x *c09exec) {
		x.create(1, []byte{7}, 2)
		x.mark(1)
		x.relTo(9)
		x.setmd(1, 1, []byte{9})
		x.release(false)
		x.pressure(8)
		x.getmd(1, 1, 0)
	})
	// (b) C09_recreate_refuted: Delete+Create+MarkComplete while the flush of the old incarnation is in flight
	c09run(ctx, dir(), roomy, "seed-stale-flush-after-recreate", func(x *c09exec) {
		x.create(1, []byte{7}, 2)
		x.mark(1)
		x.relTo(8)
		x.del(1)
		x.create(1, []byte{8, 8}, 2)
		x.mark(1)
		x.drain()
		x.pressure(8)
		x.open(1, 0)
	})
	// (c) C09_resurface_refuted: Delete between memOpen and disk.Create; the entry created by the
	// aborted flush is visible until the abort check
	c09run(ctx, dir(), roomy, "seed-resurface-window", func(x *c09exec) {
		x.create(1, []byte{7}, 2)
		x.mark(1)
		x.relTo(2)
		x.del(1)
		x.release(true)
		x.has(1, 0)
		x.create(1, []byte{6}, 2)
		x.release(false)
		x.has(1, 0)
	})
	// typical: flush with metadata, later metadata-only flush, eviction from memory, reads from disk
	c09run(ctx, dir(), roomy, "seed-typical", func(x *c09exec) {
		x.create(1, []byte{7, 7, 7}, 3)
		x.setmd(1, 1, []byte{1})
		x.mark(1)
		x.relTo(6)
		x.setmd(1, 2, []byte{2})
		x.relTo(8)
		x.setmd(1, 1, []byte{3})
		x.drain()
		x.setmd(1, 2, []byte{4})
		x.delmd(1, 1)
		x.drain()
		x.pressure(8)
		x.open(1, 0)
		x.getmd(1, 1, 0)
		x.getmd(1, 2, 0)
	})
	// metadata written before completion must reach the disk with the data
	c09run(ctx, dir(), roomy, "seed-metadata-before-complete", func(x *c09exec) {
		x.create(1, []byte{7}, 2)
		x.setmd(1, 1, []byte{1})
		x.setmd(1, 2, []byte{2, 2})
		x.mark(1)
		x.drain()
		x.pressure(8)
		x.getmd(1, 1, 0)
		x.getmd(1, 2, 0)
	})
	// a metadata update of a flushed, unbanned blob must pin it in memory until it is flushed
	c09run(ctx, dir(), roomy, "seed-setmd-then-pressure", func(x *c09exec) {
		x.create(1, []byte{7}, 2)
		x.mark(1)
		x.drain()
		x.setmd(1, 1, []byte{6}) // the worker starts a metadata-only flush and is parked
		x.pressure(8)
		x.getmd(1, 1, 0)
		x.drain()
		x.pressure(8)
		x.getmd(1, 1, 0)
	})
	// delete at every stage of a flush, then re-create after the flush has ended (allowed by H2)
	for _, pt := range []int{1, 2, 4, 5, 6, 7, 8, 9} {
		pt := pt
		c09run(ctx, dir(), roomy, "seed-delete-then-recreate", func(x *c09exec) {
			x.create(1, []byte{7}, 2)
			x.setmd(1, 1, []byte{1})
			x.mark(1)
			x.relTo(pt)
			x.del(1)
			x.has(1, 0)
			x.drain()
			x.create(1, []byte{8}, 2)
			x.mark(1)
			x.drain()
			x.open(1, 0)
		})
	}
	// the flush fails for lack of disk space (unevictable incomplete blob fills the disk tier)
	c09run(ctx, dir(), c09cfg{memCap: 4, diskCap: 4}, "seed-flush-nospace", func(x *c09exec) {
		x.create(1, []byte{7}, 4)
		x.mark(1)
		x.create(2, []byte{5}, 4) // memory full of banned data -> disk, incomplete, fills it
		x.relTo(2)
		x.release(false)
		x.drain()
		x.open(1, 0)
	})
	// blob that never fits in memory: created on disk, completed there, metadata goes straight to disk
	c09run(ctx, dir(), roomy, "seed-disk-fallback", func(x *c09exec) {
		x.create(1, []byte{7}, 9)
		x.setmd(1, 1, []byte{1})
		x.mark(1)
		x.setmd(1, 2, []byte{2})
		x.open(1, 1)
	})
	// eviction from disk while the memory copy is still there ends the obligation
	c09run(ctx, dir(), c09cfg{memCap: 8, diskCap: 4}, "seed-disk-eviction", func(x *c09exec) {
		x.create(1, []byte{7}, 2)
		x.mark(1)
		x.drain()
		x.create(2, []byte{5, 5, 5, 5}, 9) // to disk, needs all 4 bytes: evicts key 1 from disk
		x.setmd(1, 1, []byte{1})
		x.drain()
	})
}

func c09exhaustive(ctx *verifhlib.Ctx, dir func() string) {
	roomy := c09cfg{memCap: 8, diskCap: 100}
	pts := []int{1, 2, 3, 4, 5, 6, 7, 8, 9}
	// every placement of one instruction in a data flush
	for _, premd := range []bool{false, true} {
		for _, pt := range pts {
			for i := range c09alphabet {
				if pt == 3 && !c09alphabet[i].heldOK {
					continue
				}
				c09run(ctx, dir(), roomy, "exhaustive-one-in-data-flush",
					c09placed(premd, map[int][]int{pt: {i}}, 8))
			}
		}
	}
	// ... and in a metadata-only flush
	for _, pt := range []int{1, 6, 7, 8, 9} {
		for i := range c09alphabet {
			c09run(ctx, dir(), roomy, "exhaustive-one-in-md-flush", c09placedMd(map[int][]int{pt: {i}}, 8))
		}
	}
	// every placement of two mutators (setmd, delmd, delete, pressure, setmd2) at two points
	muts := []int{0, 1, 2, 3, 11}
	for a := 0; a < len(pts); a++ {
		for b := a; b < len(pts); b++ {
			if pts[a] == 3 || pts[b] == 3 {
				continue
			}
			for _, i := range muts {
				for _, j := range muts {
					at := map[int][]int{pts[a]: {i}}
					at[pts[b]] = append(at[pts[b]], j)
					c09run(ctx, dir(), roomy, "exhaustive-two-in-data-flush", c09placed(true, at, 8))
				}
			}
		}
	}
}

func c09random(ctx *verifhlib.Ctx, r *verifhlib.Rng, dir string, long bool) {
	cfg := c09cfg{memCap: []uint64{8, 8, 4}[r.Intn(3)], diskCap: []uint64{100, 100, 100, 8, 4}[r.Intn(5)]}
	respect := r.Chance(80)
	kind := "random-respecting"
	if !respect {
		kind = "random-any"
	}
	n := r.Range(8, 30)
	if long {
		n = r.Range(15, 60)
	}
	c09run(ctx, dir, cfg, kind, func(x *c09exec) {
		for i := 0; i < n && !x.incon; i++ {
			if x.held {
				// only operations that stay out of the flusher, or let the worker go
				switch c := r.Intn(10); {
				case c < 4:
					x.release(false)
				default:
					k := r.Range(1, 2)
					if respect && k == x.wkey && x.aborted {
						k = 3 - k
					}
					switch r.Intn(5) {
					case 0:
						x.has(k, r.Intn(3))
					case 1:
						x.open(k, r.Intn(3))
					case 2:
						x.getmd(k, r.Range(1, 2), 0)
					case 3:
						if respect && x.aborted {
							x.where(k)
						} else {
							x.list(r.Intn(3))
						}
					case 4:
						if !(respect && x.midFlush(k)) {
							x.create(k, r.Bytes(r.Range(1, 2)), 2)
						}
					}
				}
				continue
			}
			if x.pt != 0 && r.Chance(45) {
				x.release(x.pt == 2 && r.Chance(20))
				continue
			}
			k := r.Range(1, 2)
			if r.Chance(8) {
				k = 3
			}
			// weights per (believed) state of the key: mostly valid operations
			type w struct {
				op string
				n  int
			}
			var ws []w
			switch x.shadow[k] {
			case 0:
				ws = []w{{"create", 80}, {"setmd", 4}, {"getmd", 4}, {"open", 4}, {"has", 3}, {"del", 3}, {"mark", 2}}
			case 1:
				ws = []w{{"mark", 40}, {"setmd", 20}, {"delmd", 5}, {"getmd", 8}, {"open", 8}, {"has", 3}, {"list", 3},
					{"del", 6}, {"pressure", 4}, {"create", 3}}
			default:
				ws = []w{{"setmd", 26}, {"delmd", 8}, {"getmd", 12}, {"open", 12}, {"has", 4}, {"list", 4}, {"del", 12},
					{"pressure", 10}, {"mark", 3}, {"create", 3}, {"where", 6}}
			}
			tot := 0
			for _, e := range ws {
				tot += e.n
			}
			c := r.Intn(tot)
			op := ""
			for _, e := range ws {
				if c < e.n {
					op = e.op
					break
				}
				c -= e.n
			}
			switch op {
			case "create":
				if respect && x.midFlush(k) {
					continue
				}
				size := uint64([]int{2, 2, 4, 9}[r.Intn(4)])
				x.create(k, r.Bytes(r.Range(0, 3)), size)
			case "mark":
				x.mark(k)
			case "setmd":
				if respect && x.pt == 9 && x.wkey == k {
					continue
				}
				x.setmd(k, r.Range(1, 2), r.Bytes(r.Range(0, 2)))
			case "delmd":
				if respect && x.pt == 9 && x.wkey == k {
					continue
				}
				x.delmd(k, r.Range(1, 2))
			case "getmd":
				x.getmd(k, r.Range(1, 2), r.Intn(3))
			case "open":
				x.open(k, r.Intn(3))
			case "has":
				x.has(k, r.Intn(3))
			case "list":
				x.list(r.Intn(3))
			case "del":
				x.del(k)
			case "pressure":
				x.pressure(cfg.memCap)
			default:
				x.where(k)
			}
		}
	})
}

func c09driver(ctx *verifhlib.Ctx) {
	r := verifhlib.NewRng(ctx.Seed)
	n := 0
	dir := func() string { n++; return filepath.Join(ctx.Tmp, fmt.Sprintf("s%d", n)) }
	c09seeds(ctx, dir)
	if ctx.Tier == "thorough" {
		c09exhaustive(ctx, dir)
	}
	for i := 0; i < ctx.N; i++ {
		c09random(ctx, r.Fork(), dir(), ctx.Tier == "thorough" && i%2 == 0)
	}
}
