//go:build verif

package scheduler

// C19 driver: in-process swarms of REAL schedulers (newScheduler + start, the constructors the
// package's own tests use) around an in-process tracker (trackerserver.New with the fixture's
// policy and test peer store, plus an origin store so that an origin scheduler on
// originstorage.Torrent can seed), 1-5 leeching agents on real CADownloadStores, a seeder (agent
// with the whole blob, or origin), optionally one corrupting peer (a raw connection speaking the
// protocol through the real conn.Handshaker / conn.Conn) and departures / restarts.  Everything
// runs on the real clock and real TCP; every swarm has a wall-clock budget.
//
// Observed: every Download result, the final `_status` bitfield and the cached bytes of every
// agent, every receive_piece / request_piece network event (TestProducer), every payload the
// corrupting peer sent.  From the events the driver builds a label sequence of the Coq swarm
// model that explains them (Join, Connect, Request, Serve, RecvBegin, RecvEnd, Inject, Depart);
// Coq checks that every label is enabled and that the model ends with the same verified sets,
// completion flags and file contents (mismatches), and evaluates the property oracle C19_check
// on the observations alone (violations).  A swarm that does not converge within its budget is
// counted as inconclusive (an extra `inconclusive` line); its observations are still checked
// for safety and monotonicity.

import (
	"bytes"
	"fmt"
	"hash/crc32"
	"io"
	"net"
	"os"
	"path/filepath"
	"sort"
	"strings"
	"sync"
	"testing"
	"time"

	"github.com/andres-erbsen/clock"
	"github.com/uber-go/tally"
	"github.com/willf/bitset"
	"go.uber.org/zap"

	"github.com/uber/kraken/core"
	"github.com/uber/kraken/gen/go/proto/p2p"
	"github.com/uber/kraken/lib/hashring"
	"github.com/uber/kraken/lib/hostlist"
	"github.com/uber/kraken/lib/store"
	"github.com/uber/kraken/lib/store/metadata"
	"github.com/uber/kraken/lib/torrent/networkevent"
	"github.com/uber/kraken/lib/torrent/scheduler/announcequeue"
	"github.com/uber/kraken/lib/torrent/scheduler/conn"
	"github.com/uber/kraken/lib/torrent/scheduler/connstate"
	"github.com/uber/kraken/lib/torrent/scheduler/dispatch"
	"github.com/uber/kraken/lib/torrent/storage"
	"github.com/uber/kraken/lib/torrent/storage/agentstorage"
	"github.com/uber/kraken/lib/torrent/storage/originstorage"
	"github.com/uber/kraken/lib/torrent/storage/piecereader"
	"github.com/uber/kraken/tracker/announceclient"
	"github.com/uber/kraken/tracker/peerhandoutpolicy"
	"github.com/uber/kraken/tracker/peerstore"
	"github.com/uber/kraken/tracker/trackerserver"
	"github.com/uber/kraken/utils/bandwidth"
	"github.com/uber/kraken/utils/log"
	"github.com/uber/kraken/utils/testutil"
	hlib "github.com/uber/kraken/utils/verifhlib"
)

func TestVerifC19(t *testing.T) { hlib.MainEnv("C19", c19driver) }

const c19NS = "verif-c19"

// ---- swarm specification (everything random derives from the run's seed)
type c19spec struct {
	kind      string
	size      int
	pieceLen  int
	nLeech    int
	seeder    string // "agent" | "origin"
	maxConn   int
	aLimit    int
	oLimit    int
	endgame   int
	noEndgame bool
	policy    string
	reqTO     time.Duration
	connTTI   time.Duration
	blacklist time.Duration
	slow      bool
	prepop    [][]int         // per leecher: pieces it already holds
	delay     []time.Duration // per leecher: arrival
	seedDelay time.Duration   // arrival of the seeder
	corrupt   bool
	collide   bool // the corrupting peer serves CRC-32 colliding pieces
	unsol     bool // ... and also pushes payloads nobody asked for
	depart    int  // leecher that leaves mid-transfer (-1: none)
	departAt  int  // ... once it verified this many pieces
	rejoin    bool // ... and comes back with the same store
	budget    time.Duration
	expect    bool // fault-free baseline: must converge
	content   []byte
}

// ---- in-process pieces of the environment
type c19metainfo struct{ mi *core.MetaInfo }

func (c c19metainfo) Download(namespace string, d core.Digest) (*core.MetaInfo, error) {
	return c.mi, nil
}

type c19origins struct {
	mu sync.Mutex
	l  []*core.PeerInfo
}

func (o *c19origins) GetOrigins(d core.Digest) ([]*core.PeerInfo, error) {
	o.mu.Lock()
	defer o.mu.Unlock()
	var out []*core.PeerInfo
	for _, p := range o.l {
		c := *p
		out = append(out, &c)
	}
	return out, nil
}

type c19connEvents struct{}

func (c19connEvents) ConnClosed(*conn.Conn) {}

// one peer of the swarm
type c19peer struct {
	idx     int
	kind    string // "agent" | "origin" | "corrupt"
	pctx    core.PeerContext
	dir     string
	have0   []int
	cads    *store.CADownloadStore
	cas     *store.CAStore
	casStop func()
	sched   *scheduler
	prods   []*networkevent.TestProducer
	resc    chan error
	asked   bool
	result  string // "ok" | "err" | "pending" | "none"
	joins   []time.Time
	departs []time.Time
	up      bool
}

type c19bad struct {
	t    time.Time
	to   core.PeerID
	i    int
	mode string // "data" | "err"
	pid  int    // payload id (mode data)
}

type c19swarm struct {
	sp      c19spec
	dir     string
	blob    *core.BlobFixture
	n       int
	tracker string
	stopTr  func()
	orig    *c19origins
	peers   []*c19peer
	byID    map[string]int
	mu      sync.Mutex
	bads    []c19bad
	// payload table: id -> bytes (ids 0..n-1 are the blob's pieces)
	pay    [][]byte
	lstop  []func()
	errs   []string
	broken bool // the harness itself failed (ports, stores): the case is not evaluated
}

func c19peerID(r *hlib.Rng) core.PeerID {
	var p core.PeerID
	copy(p[:], r.Bytes(len(p)))
	return p
}

func (sw *c19swarm) schedConfig() Config {
	sp := sw.sp
	cc := conn.Config{}
	if sp.slow {
		// a piece must fit in one second's budget; the whole blob takes a few seconds per source
		rate := uint64(sp.size / 3)
		if rate < uint64(sp.pieceLen) {
			rate = uint64(sp.pieceLen)
		}
		if rate < 64 {
			rate = 64
		}
		cc.Bandwidth = bandwidth.Config{EgressBitsPerSec: rate * 8, IngressBitsPerSec: rate * 8 * 4, TokenSize: 64, Enable: true}
	}
	return Config{
		SeederTTI:          5 * time.Minute,
		LeecherTTI:         5 * time.Minute,
		PreemptionInterval: 200 * time.Millisecond,
		ConnTTI:            sp.connTTI,
		ConnTTL:            5 * time.Minute,
		ConnState: connstate.Config{
			MaxOpenConnectionsPerTorrent: sp.maxConn,
			BlacklistDuration:            sp.blacklist,
		},
		Conn: cc,
		Dispatch: dispatch.Config{
			PieceRequestMinTimeout:   sp.reqTO,
			PieceRequestTimeoutPerMb: sp.reqTO,
			PieceRequestPolicy:       sp.policy,
			AgentPipelineLimit:       sp.aLimit,
			OriginPipelineLimit:      sp.oLimit,
			EndgameThreshold:         sp.endgame,
			DisableEndgame:           sp.noEndgame,
		},
		TorrentLog: log.Config{Disable: true},
		Log:        log.Config{Disable: true},
	}
}

func (sw *c19swarm) announceClient(pctx core.PeerContext) announceclient.Client {
	return announceclient.New(pctx, hashring.NoopPassiveRing(hostlist.Fixture(sw.tracker)), nil)
}

func (sw *c19swarm) openStore(p *c19peer) {
	cads, err := store.NewCADownloadStore(store.CADownloadStoreConfig{
		DownloadDir: filepath.Join(p.dir, "download"),
		CacheDir:    filepath.Join(p.dir, "cache"),
	}, tally.NoopScope)
	if err != nil {
		panic(err)
	}
	p.cads = cads
}

// start (or restart) an agent: a new scheduler over the peer's store, then Download
func (sw *c19swarm) join(p *c19peer, ask bool) {
	sw.openStore(p)
	ta := agentstorage.NewTorrentArchive(tally.NoopScope, p.cads, c19metainfo{sw.blob.MetaInfo})
	if len(p.joins) == 0 && len(p.have0) > 0 {
		t, err := ta.CreateTorrent(c19NS, sw.blob.Digest)
		if err != nil {
			panic(err)
		}
		for _, i := range p.have0 {
			if err := t.WritePiece(piecereader.NewBuffer(sw.pay[i]), i); err != nil {
				panic(err)
			}
		}
	}
	tp := networkevent.NewTestProducer()
	p.prods = append(p.prods, tp)
	var s *scheduler
	nj := len(p.joins)
	for try := 0; ; try++ {
		var err error
		s, err = newScheduler(sw.schedConfig(), ta, tally.NewTestScope("", nil), p.pctx, sw.announceClient(p.pctx), tp)
		if err != nil {
			panic(err)
		}
		if len(p.joins) == nj {
			p.joins = append(p.joins, time.Now())
		} else {
			p.joins[len(p.joins)-1] = time.Now()
		}
		if err = s.start(announcequeue.New()); err == nil {
			break
		}
		// the port was taken meanwhile (other processes on the box): move
		if try >= 20 {
			panic(err)
		}
		p.pctx.Port = findFreePort()
	}
	p.sched = s
	p.up = true
	if ask {
		p.asked = true
		resc := make(chan error, 1)
		p.resc = resc
		go func() { resc <- s.Download(c19NS, sw.blob.Digest) }()
	}
}

func (sw *c19swarm) depart(p *c19peer) {
	p.sched.Stop()
	p.departs = append(p.departs, time.Now())
	p.up = false
	// the Download call of this incarnation ends with the scheduler
	if p.resc != nil {
		select {
		case err := <-p.resc:
			if err == nil {
				p.result = "ok"
			} else {
				p.result = "stopped"
			}
		case <-time.After(5 * time.Second):
			p.result = "pending"
		}
		p.resc = nil
	}
	p.cads.Close()
}

func (sw *c19swarm) startOrigin(p *c19peer) {
	cas, stop := store.CAStoreFixture()
	p.cas, p.casStop = cas, stop
	hex := sw.blob.Digest.Hex()
	if err := cas.CreateCacheFile(hex, bytes.NewReader(sw.blob.Content)); err != nil {
		panic(err)
	}
	if _, err := cas.SetCacheFileMetadata(hex, metadata.NewTorrentMeta(sw.blob.MetaInfo)); err != nil {
		panic(err)
	}
	tp := networkevent.NewTestProducer()
	p.prods = append(p.prods, tp)
	var s *scheduler
	for try := 0; ; try++ {
		var err error
		s, err = newScheduler(sw.schedConfig(), originstorage.NewTorrentArchive(cas, nil), tally.NewTestScope("", nil),
			p.pctx, announceclient.Disabled(), tp)
		if err != nil {
			panic(err)
		}
		if err = s.start(announcequeue.Disabled()); err == nil {
			break
		}
		if try >= 20 {
			panic(err)
		}
		p.pctx.Port = findFreePort()
	}
	p.joins = append(p.joins, time.Now())
	p.sched = s
	p.up = true
	sw.orig.mu.Lock()
	sw.orig.l = append(sw.orig.l, core.NewPeerInfo(p.pctx.PeerID, p.pctx.IP, p.pctx.Port, true, true))
	sw.orig.mu.Unlock()
}

// ---- the corrupting peer: accepts connections with the real handshaker, claims every piece,
// answers piece requests with payloads that are not the piece
func (sw *c19swarm) payloadID(b []byte) int {
	sw.mu.Lock()
	defer sw.mu.Unlock()
	for k, x := range sw.pay {
		if bytes.Equal(x, b) {
			return k
		}
	}
	sw.pay = append(sw.pay, append([]byte{}, b...))
	return len(sw.pay) - 1
}

// a payload of the same length and the same CRC-32 as b, different from b (needs >= 5 bytes):
// xor with the generator polynomial, which leaves the remainder unchanged
func c19collide(b []byte) []byte {
	if len(b) < 5 {
		return nil
	}
	out := append([]byte{}, b...)
	// x^32+x^26+x^23+x^22+x^16+x^12+x^11+x^10+x^8+x^7+x^5+x^4+x^2+x+1, highest degree first;
	// CRC-32/IEEE consumes each byte least significant bit first
	exps := map[int]bool{32: true, 26: true, 23: true, 22: true, 16: true, 12: true, 11: true, 10: true, 8: true, 7: true, 5: true, 4: true, 2: true, 1: true, 0: true}
	for k := 0; k <= 32; k++ {
		if exps[32-k] {
			out[k/8] ^= 1 << uint(k%8)
		}
	}
	if crc32.ChecksumIEEE(out) != crc32.ChecksumIEEE(b) || bytes.Equal(out, b) {
		return nil
	}
	return out
}

func (sw *c19swarm) corruptPayload(r *hlib.Rng, i int) ([]byte, string) {
	good := sw.pay[i]
	if sw.sp.collide {
		if c := c19collide(good); c != nil {
			return c, "data"
		}
	}
	switch r.Intn(10) {
	case 0: // error reply
		return nil, "err"
	case 1: // silence
		return nil, "drop"
	case 2: // wrong length
		if r.Bool() && len(good) > 1 {
			return append([]byte{}, good[:len(good)-1]...), "data"
		}
		return append(append([]byte{}, good...), 7), "data"
	}
	for {
		b := append([]byte{}, good...)
		for k := 0; k < 1+r.Intn(3); k++ {
			b[r.Intn(len(b))] ^= byte(1 + r.Intn(255))
		}
		if crc32.ChecksumIEEE(b) != crc32.ChecksumIEEE(good) {
			return b, "data"
		}
	}
}

func (sw *c19swarm) startCorrupter(p *c19peer, r *hlib.Rng) {
	hs, err := conn.NewHandshaker(conn.Config{}, tally.NoopScope, clock.New(), networkevent.NewTestProducer(),
		p.pctx.PeerID, c19connEvents{}, zap.NewNop().Sugar())
	if err != nil {
		panic(err)
	}
	var l net.Listener
	for try := 0; ; try++ {
		l, err = net.Listen("tcp", fmt.Sprintf(":%d", p.pctx.Port))
		if err == nil {
			break
		}
		if try >= 20 {
			panic(err)
		}
		p.pctx.Port = findFreePort()
	}
	done := make(chan struct{})
	var rmu sync.Mutex
	full := bitset.New(uint(sw.n)).Complement()
	info := storage.NewTorrentInfo(sw.blob.MetaInfo, full)
	send := func(c *conn.Conn, to core.PeerID, i int) {
		rmu.Lock()
		b, mode := sw.corruptPayload(r, i)
		rmu.Unlock()
		switch mode {
		case "drop":
			return
		case "err":
			sw.mu.Lock()
			sw.bads = append(sw.bads, c19bad{time.Now(), to, i, "err", 0})
			sw.mu.Unlock()
			c.Send(conn.NewErrorMessage(i, p2p.ErrorMessage_PIECE_REQUEST_FAILED, fmt.Errorf("no")))
		default:
			pid := sw.payloadID(b)
			sw.mu.Lock()
			sw.bads = append(sw.bads, c19bad{time.Now(), to, i, "data", pid})
			sw.mu.Unlock()
			c.Send(conn.NewPiecePayloadMessage(i, piecereader.NewBuffer(b)))
		}
	}
	go func() {
		for {
			nc, err := l.Accept()
			if err != nil {
				return
			}
			go func() {
				pc, err := hs.Accept(nc)
				if err != nil {
					nc.Close()
					return
				}
				if pc.InfoHash() != sw.blob.MetaInfo.InfoHash() {
					pc.Close()
					return
				}
				c, err := hs.Establish(pc, info, nil)
				if err != nil {
					pc.Close()
					return
				}
				c.Start()
				if sw.sp.unsol {
					for k := 0; k < 2 && k < sw.n; k++ {
						rmu.Lock()
						i := r.Intn(sw.n)
						rmu.Unlock()
						send(c, pc.PeerID(), i)
					}
				}
				for {
					select {
					case <-done:
						c.Close()
						return
					case msg, ok := <-c.Receiver():
						if !ok {
							return
						}
						if msg.Message.Type == p2p.Message_PIECE_REQUEST {
							i := int(msg.Message.PieceRequest.Index)
							if i >= 0 && i < sw.n {
								send(c, pc.PeerID(), i)
							}
						}
					}
				}
			}()
		}
	}()
	// it keeps telling the tracker that it seeds the torrent
	ac := sw.announceClient(p.pctx)
	ann := func() { ac.Announce(sw.blob.Digest, sw.blob.MetaInfo.InfoHash(), true, announceclient.V2) }
	ann()
	go func() {
		for {
			select {
			case <-done:
				return
			case <-time.After(300 * time.Millisecond):
				ann()
			}
		}
	}()
	p.joins = append(p.joins, time.Now())
	p.up = true
	sw.lstop = append(sw.lstop, func() { close(done); l.Close() })
}

// ---- one swarm run
func c19runSwarm(sp c19spec, dir string, r *hlib.Rng) (sw *c19swarm) {
	sw = &c19swarm{sp: sp, dir: dir, byID: map[string]int{}, orig: &c19origins{}}
	d, err := core.NewDigester().FromBytes(sp.content)
	if err != nil {
		panic(err)
	}
	mi, err := core.NewMetaInfo(d, bytes.NewReader(sp.content), int64(sp.pieceLen))
	if err != nil {
		panic(err)
	}
	sw.blob = core.CustomBlobFixture(sp.content, d, mi)
	sw.n = mi.NumPieces()
	for i := 0; i < sw.n; i++ {
		st := i * sp.pieceLen
		en := st + int(mi.GetPieceLength(i))
		sw.pay = append(sw.pay, sp.content[st:en])
	}
	srv := trackerserver.New(trackerserver.Config{AnnounceInterval: 250 * time.Millisecond}, tally.NoopScope,
		peerhandoutpolicy.DefaultPriorityPolicyFixture(), peerstore.NewTestStore(), sw.orig, nil)
	sw.tracker, sw.stopTr = testutil.StartServer(srv.Handler())

	mk := func(kind string, have []int) *c19peer {
		p := &c19peer{idx: len(sw.peers), kind: kind, have0: have, result: "none"}
		p.pctx = core.PeerContext{PeerID: c19peerID(r), Zone: "zone1", Cluster: "c", IP: "localhost", Port: findFreePort(), Origin: kind == "origin"}
		p.dir = filepath.Join(dir, fmt.Sprintf("p%d", p.idx))
		sw.byID[p.pctx.PeerID.String()] = p.idx
		sw.peers = append(sw.peers, p)
		return p
	}
	all := make([]int, sw.n)
	for i := range all {
		all[i] = i
	}
	seed := mk(sp.seeder, all)
	var leech []*c19peer
	for k := 0; k < sp.nLeech; k++ {
		leech = append(leech, mk("agent", sp.prepop[k]))
	}
	var corr *c19peer
	if sp.corrupt {
		corr = mk("corrupt", nil)
	}
	defer func() {
		if e := recover(); e != nil {
			sw.errs = append(sw.errs, fmt.Sprint("harness: ", e))
			sw.broken = true
		}
	}()

	t0 := time.Now()
	var wg sync.WaitGroup
	var smu sync.Mutex // serialises join/depart bookkeeping
	if corr != nil {
		sw.startCorrupter(corr, r.Fork())
	}
	wg.Add(1)
	guard := func() {
		if e := recover(); e != nil {
			sw.mu.Lock()
			sw.errs = append(sw.errs, fmt.Sprint("harness: ", e))
			sw.broken = true
			sw.mu.Unlock()
		}
	}
	go func() {
		defer wg.Done()
		defer guard()
		time.Sleep(sp.seedDelay)
		smu.Lock()
		defer smu.Unlock()
		if sp.seeder == "origin" {
			sw.startOrigin(seed)
		} else {
			sw.join(seed, true)
		}
	}()
	for k, p := range leech {
		k, p := k, p
		wg.Add(1)
		go func() {
			defer wg.Done()
			defer guard()
			time.Sleep(sp.delay[k])
			smu.Lock()
			defer smu.Unlock()
			sw.join(p, true)
		}()
	}
	wg.Wait()

	received := func(p *c19peer) int {
		c := 0
		for _, tp := range p.prods {
			for _, e := range tp.Events() {
				if e.Name == networkevent.ReceivePiece {
					c++
				}
			}
		}
		return c
	}
	departed, rejoined := false, false
	var departedAt time.Time
	deadline := t0.Add(sp.budget)
	for time.Now().Before(deadline) {
		alldone := true
		for _, p := range sw.peers {
			if p.kind != "agent" || !p.up || p.resc == nil {
				if p.kind == "agent" && !p.up && sp.rejoin && !rejoined {
					alldone = false
				}
				continue
			}
			select {
			case err := <-p.resc:
				p.resc = nil
				if err == nil {
					p.result = "ok"
				} else {
					p.result = "err"
					sw.errs = append(sw.errs, fmt.Sprintf("peer %d: %v", p.idx, err))
				}
			default:
				alldone = false
			}
		}
		if sp.depart >= 0 && !departed {
			p := leech[sp.depart]
			if p.up && p.resc != nil && received(p) >= sp.departAt {
				sw.depart(p)
				departed, departedAt = true, time.Now()
			}
		}
		if departed && sp.rejoin && !rejoined && time.Since(departedAt) > 400*time.Millisecond {
			sw.join(leech[sp.depart], true)
			rejoined = true
		}
		if alldone {
			break
		}
		time.Sleep(20 * time.Millisecond)
	}
	for _, p := range sw.peers {
		if p.kind == "agent" && p.up && p.resc != nil {
			p.result = "pending"
		}
	}
	// everybody stops; then the stores are read
	for _, f := range sw.lstop {
		f()
	}
	for _, p := range sw.peers {
		if p.up && p.sched != nil {
			p.sched.Stop()
			p.departs = append(p.departs, time.Now())
		}
	}
	time.Sleep(50 * time.Millisecond)
	for _, p := range sw.peers {
		if p.up && p.cads != nil {
			p.cads.Close()
		}
	}
	return sw
}

func (sw *c19swarm) cleanup() {
	for _, p := range sw.peers {
		if p.casStop != nil {
			p.casStop()
		}
	}
	sw.stopTr()
	os.RemoveAll(sw.dir)
}

// ---- observation -> Coq case
type c19item struct {
	t       time.Time
	k       string // join depart recv bad
	a, p, i int
	mode    string
	pid     int
	done    bool
}

func c19ns(xs []int) string {
	s := make([]string, len(xs))
	for i, x := range xs {
		s[i] = fmt.Sprint(x)
	}
	return "[" + strings.Join(s, "; ") + "]"
}

func (sw *c19swarm) emit(ctx *hlib.Ctx) {
	sp := sw.sp
	if sw.broken {
		ctx.Emit(hlib.Case{Incon: true, Kind: "harness-step-failed", Coq: "", Sample: map[string]interface{}{"errors": sw.errs}})
		return
	}
	n := sw.n
	np := len(sw.peers)
	hist := []string{}
	// ---- events
	var items []*c19item
	nreq, nadd, ndrop, nbl := 0, 0, 0, 0
	type reqev struct {
		t       time.Time
		a, p, i int
	}
	var reqs []reqev
	for _, p := range sw.peers {
		for _, t := range p.joins {
			items = append(items, &c19item{t: t, k: "join", a: p.idx})
		}
		if p.kind != "agent" {
			continue
		}
		for k, t := range p.departs {
			// a departure that is followed by a restart, or the final stop
			_ = k
			items = append(items, &c19item{t: t, k: "depart", a: p.idx})
		}
		for _, tp := range p.prods {
			for _, e := range tp.Events() {
				q, ok := sw.byID[e.Peer]
				switch e.Name {
				case networkevent.ReceivePiece:
					if !ok {
						q = np // unknown sender
					}
					items = append(items, &c19item{t: e.Time, k: "recv", a: p.idx, p: q, i: e.Piece})
				case networkevent.RequestPiece:
					nreq++
					if ok {
						reqs = append(reqs, reqev{e.Time, p.idx, q, e.Piece})
					}
				case networkevent.AddActiveConn:
					nadd++
				case networkevent.DropActiveConn:
					ndrop++
				case networkevent.BlacklistConn:
					nbl++
				}
			}
		}
	}
	sw.mu.Lock()
	for _, b := range sw.bads {
		a, ok := sw.byID[b.to.String()]
		if ok {
			items = append(items, &c19item{t: b.t, k: "bad", a: a, p: np - 1, i: b.i, mode: b.mode, pid: b.pid})
		}
	}
	sw.mu.Unlock()
	sort.SliceStable(items, func(x, y int) bool { return items[x].t.Before(items[y].t) })
	// a legitimate swarm has at most leechers x pieces (<= 4 x 48) receive events, a few more with
	// restarts; a run with thousands of them (an agent losing and re-fetching a piece for ever) is
	// cut after the first 1500: the repetition the oracle looks for is in that prefix
	{
		cnt, cut := 0, len(items)
		for k, it := range items {
			if it.k == "recv" {
				cnt++
				if cnt > 1500 {
					cut = k
					break
				}
			}
		}
		if cut < len(items) {
			var kept []*c19item
			for k, it := range items {
				if k < cut || it.k == "join" || it.k == "depart" {
					kept = append(kept, it)
				}
			}
			items = kept
			hist = append(hist, "receive-log-truncated")
		}
	}
	// a departure takes effect in the model after the last payload of / for that peer that was
	// already under way is consumed (messages in flight are still delivered; dispatcher goroutines
	// of a stopped in-process scheduler may finish a write)
	for k := 0; k < len(items); k++ {
		it := items[k]
		if it.k != "depart" {
			continue
		}
		last := k
		for m := k + 1; m < len(items); m++ {
			o := items[m]
			if o.k == "join" && o.a == it.a {
				break
			}
			if o.k == "recv" && (o.a == it.a || o.p == it.a) {
				last = m
			}
		}
		if last > k {
			copy(items[k:last], items[k+1:last+1])
			items[last] = it
			k--
		}
	}
	// re-routing after a bad payload: a request of the same piece to another peer later on
	reroute := 0
	for _, it := range items {
		if it.k != "bad" {
			continue
		}
		for _, q := range reqs {
			if q.a == it.a && q.i == it.i && q.p != it.p && q.t.After(it.t) {
				reroute++
				break
			}
		}
	}

	// ---- shadow of the model state, used only to PROPOSE labels; Coq decides whether they are enabled
	up := make([]bool, np)
	have := make([][]bool, np)
	conns := make([]map[int]bool, np)
	kindOf := func(x int) string {
		if x < np {
			return sw.peers[x].kind
		}
		return "agent"
	}
	for x := 0; x < np; x++ {
		have[x] = make([]bool, n)
		for _, i := range sw.peers[x].have0 {
			have[x][i] = true
		}
		conns[x] = map[int]bool{}
	}
	var labels []string
	var recvs []string
	nrecv, nbad := 0, 0
	claim := c19ns(func() []int {
		a := make([]int, n)
		for i := range a {
			a[i] = i
		}
		return a
	}())
	ensure := func(a, p int) {
		if conns[a][p] && conns[p][a] {
			return
		}
		if conns[a][p] {
			labels = append(labels, fmt.Sprintf("Disconnect %d %d", a, p))
			delete(conns[a], p)
		}
		if conns[p][a] {
			labels = append(labels, fmt.Sprintf("Disconnect %d %d", p, a))
			delete(conns[p], a)
		}
		for _, x := range [][2]int{{a, p}, {p, a}} {
			if len(conns[x[0]]) >= sp.maxConn {
				var qs []int
				for q := range conns[x[0]] {
					qs = append(qs, q)
				}
				sort.Ints(qs)
				labels = append(labels, fmt.Sprintf("Disconnect %d %d", x[0], qs[0]))
				delete(conns[x[0]], qs[0])
			}
		}
		labels = append(labels, fmt.Sprintf("Connect %d %d %s", a, p, claim))
		conns[a][p], conns[p][a] = true, true
	}
	var process func(k int)
	process = func(k int) {
		it := items[k]
		if it.done {
			return
		}
		it.done = true
		switch it.k {
		case "join":
			if up[it.a] {
				return
			}
			labels = append(labels, fmt.Sprintf("Join %d", it.a))
			up[it.a] = true
			conns[it.a] = map[int]bool{}
		case "depart":
			if !up[it.a] {
				return
			}
			labels = append(labels, fmt.Sprintf("Depart %d", it.a))
			up[it.a] = false
		case "recv":
			nrecv++
			recvs = append(recvs, fmt.Sprintf("(%d, %d, %d)", it.a, it.p, it.i))
			if it.p >= np || it.i < 0 || it.i >= n {
				// nothing the model could explain: leave it to the comparison
				return
			}
			if kindOf(it.p) == "corrupt" {
				// the payload the corrupting peer sent last for this piece was accepted
				pid := -1
				for m := k - 1; m >= 0; m-- {
					o := items[m]
					if o.k == "bad" && o.a == it.a && o.i == it.i && o.mode == "data" {
						pid = o.pid
						break
					}
				}
				if pid >= 0 && up[it.a] && !have[it.a][it.i] {
					ensure(it.a, it.p)
					labels = append(labels, fmt.Sprintf("Inject %d (MPay %d %d %d %d)", it.p, it.p, it.a, it.i, pid),
						fmt.Sprintf("RecvBegin %d %d %d", it.a, it.p, it.i), fmt.Sprintf("RecvEnd %d %d", it.a, it.i))
					have[it.a][it.i] = true
				}
				return
			}
			if !have[it.p][it.i] {
				// the sender's own receive event may have been emitted a moment later
				for m := k + 1; m < len(items); m++ {
					o := items[m]
					if o.k == "recv" && !o.done && o.a == it.p && o.i == it.i {
						process(m)
						break
					}
				}
			}
			if !up[it.a] || !up[it.p] {
				return
			}
			ensure(it.a, it.p)
			// the sender announced the piece if it verified it after the handshake
			labels = append(labels, fmt.Sprintf("AnnouncePiece %d %d %d", it.p, it.a, it.i))
			labels = append(labels, fmt.Sprintf("Request %d %d [%d] 1", it.a, it.p, it.i), fmt.Sprintf("Serve %d %d %d", it.p, it.a, it.i),
				fmt.Sprintf("RecvBegin %d %d %d", it.a, it.p, it.i), fmt.Sprintf("RecvEnd %d %d", it.a, it.i))
			have[it.a][it.i] = true
		case "bad":
			nbad++
			if !up[it.a] || !up[it.p] {
				return
			}
			// was this payload the one the agent accepted?  then the recv item explains it
			for m := k + 1; m < len(items); m++ {
				o := items[m]
				if o.k == "recv" && o.a == it.a && o.p == it.p && o.i == it.i {
					return
				}
				if o.k == "bad" && o.a == it.a && o.i == it.i {
					break
				}
			}
			ensure(it.a, it.p)
			if it.mode == "err" {
				labels = append(labels, fmt.Sprintf("Inject %d (MErr %d %d %d)", it.p, it.p, it.a, it.i), fmt.Sprintf("RecvErr %d %d %d", it.a, it.p, it.i))
				return
			}
			labels = append(labels, fmt.Sprintf("Inject %d (MPay %d %d %d %d)", it.p, it.p, it.a, it.i, it.pid), fmt.Sprintf("RecvBegin %d %d %d", it.a, it.p, it.i))
			if !have[it.a][it.i] && len(sw.pay[it.pid]) == len(sw.pay[it.i]) {
				labels = append(labels, fmt.Sprintf("RecvEnd %d %d", it.a, it.i))
				if crc32.ChecksumIEEE(sw.pay[it.pid]) == crc32.ChecksumIEEE(sw.pay[it.i]) {
					have[it.a][it.i] = true // a colliding payload: the model accepts it, as the code does
				}
			}
		}
	}
	for k := range items {
		process(k)
	}

	// ---- final observations
	var pobs, pinit []string
	converged := true
	okc, pend := 0, 0
	for _, p := range sw.peers {
		switch p.kind {
		case "corrupt":
			pinit = append(pinit, "(Corrupting, false, [])")
			pobs = append(pobs, "mkpobs Corrupting [] RkNone [] false []")
			continue
		case "origin":
			pinit = append(pinit, fmt.Sprintf("(Honest, true, %s)", c19ns(p.have0)))
		default:
			pinit = append(pinit, fmt.Sprintf("(Honest, false, %s)", c19ns(p.have0)))
		}
		var bits []int
		cached := false
		var content []int
		if p.kind == "origin" {
			for i := 0; i < n; i++ {
				bits = append(bits, i)
			}
			if f, err := p.cas.GetCacheFileReader(sw.blob.Digest.Hex()); err == nil {
				b, _ := io.ReadAll(f)
				f.Close()
				cached = true
				content = sw.contentIDs(b)
			}
		} else {
			sw.openStore(p)
			ta := agentstorage.NewTorrentArchive(tally.NoopScope, p.cads, c19metainfo{sw.blob.MetaInfo})
			if info, err := ta.Stat(c19NS, sw.blob.Digest); err == nil {
				bf := info.Bitfield()
				for i := 0; i < n; i++ {
					if bf.Test(uint(i)) {
						bits = append(bits, i)
					}
				}
			}
			if f, err := p.cads.Cache().GetFileReader(sw.blob.Digest.Hex()); err == nil {
				b, _ := io.ReadAll(f)
				f.Close()
				cached = true
				content = sw.contentIDs(b)
				// a file in the cache has no `_status` of interest any more: every piece is verified
				bits = bits[:0]
				for i := 0; i < n; i++ {
					bits = append(bits, i)
				}
			}
			p.cads.Close()
		}
		rk := "RkNone"
		switch p.result {
		case "ok":
			rk = "RkOk"
			okc++
		case "err":
			rk = "RkErr"
			converged = false
		case "stopped":
			rk = "RkErr"
		case "pending":
			rk = "RkPending"
			pend++
			converged = false
		}
		if p.kind == "agent" && p.asked && p.result == "stopped" && !(sp.depart >= 0 && !sp.rejoin) {
			converged = false
		}
		pobs = append(pobs, fmt.Sprintf("mkpobs Honest %s %s %s %s %s", c19ns(p.have0), rk, c19ns(bits), hlib.B(cached), c19ns(content)))
	}
	if len(sw.errs) > 0 {
		converged = false
	}
	// payload table
	var tab, badids []string
	sw.mu.Lock()
	for k, b := range sw.pay {
		tab = append(tab, fmt.Sprintf("(%d, (%d%%N, %d%%N))", k, len(b), crc32.ChecksumIEEE(b)))
		if k >= n {
			badids = append(badids, fmt.Sprint(k))
		}
	}
	sw.mu.Unlock()
	blobids := make([]int, n)
	var sums []string
	for i := 0; i < n; i++ {
		blobids[i] = i
		sums = append(sums, fmt.Sprintf("%d%%N", sw.blob.MetaInfo.GetPieceSum(i)))
	}
	al, ol, eg := sp.aLimit, sp.oLimit, sp.endgame
	if al == 0 {
		al = 3
	}
	if ol == 0 {
		ol = 5
	}
	if eg == 0 {
		eg = al
	}
	cfg := fmt.Sprintf("(mkcfg %s [%s] %d %d %d %s %d)", c19ns(blobids), strings.Join(sums, "; "), al, ol, eg, hlib.B(sp.noEndgame), sp.maxConn)
	coq := fmt.Sprintf("mkcase [%s] %s [%s] [%s] [%s] [%s] [%s] %s",
		strings.Join(tab, "; "), cfg, strings.Join(pinit, "; "), strings.Join(labels, "; "),
		strings.Join(badids, "; "), strings.Join(recvs, "; "), strings.Join(pobs, "; "), hlib.B(sp.expect))

	if converged {
		hist = append(hist, "swarm-converged")
	} else {
		hist = append(hist, "swarm-not-converged")
	}
	add := func(name string, c int) {
		for k := 0; k < c && k < 2000; k++ {
			hist = append(hist, name)
		}
	}
	add("agent-ok", okc)
	add("agent-pending", pend)
	add("recv-piece", nrecv)
	add("bad-payload", nbad)
	add("rerouted-after-bad-payload", reroute)
	add("request-piece/10", nreq/10)
	add("conn-add", nadd)
	add("conn-drop", ndrop)
	add("blacklist", nbl)
	if sp.depart >= 0 {
		hist = append(hist, "departure")
		if sp.rejoin {
			hist = append(hist, "restart")
		}
	}
	var tags []string
	if sp.collide {
		tags = append(tags, "crc-collision")
	}
	kind := sp.kind
	if !converged {
		kind += "/not-converged"
	}
	sample := map[string]interface{}{
		"size": sp.size, "piece_len": sp.pieceLen, "pieces": n, "leechers": sp.nLeech, "seeder": sp.seeder,
		"max_conn": sp.maxConn, "agent_pipeline": sp.aLimit, "origin_pipeline": sp.oLimit, "endgame": sp.endgame, "no_endgame": sp.noEndgame,
		"policy": sp.policy, "corrupter": sp.corrupt, "depart": sp.depart, "rejoin": sp.rejoin, "slow": sp.slow,
		"converged": converged, "results": func() []string {
			var rs []string
			for _, p := range sw.peers {
				rs = append(rs, p.kind+":"+p.result)
			}
			return rs
		}(), "recv_events": nrecv, "bad_payloads": nbad, "labels": len(labels), "errors": sw.errs,
	}
	ctx.Emit(hlib.Case{Coq: coq, NT: nrecv > 0, Kind: kind, Hist: hist, Sample: sample, Tags: tags,
		Key: fmt.Sprintf("%s/%d/%d/%d/%s/%v/%v/%d", sp.kind, sp.size, sp.pieceLen, sp.nLeech, sp.seeder, sp.corrupt, sp.depart, len(labels))})
	if !converged && !sp.expect {
		ctx.Emit(hlib.Case{Incon: true, Kind: "not-converged-within-budget", Coq: "", Sample: sample})
	}
}

// the cached file cut into pieces, each mapped to its payload id
func (sw *c19swarm) contentIDs(b []byte) []int {
	var out []int
	pl := sw.sp.pieceLen
	for st := 0; st < len(b); st += pl {
		en := st + pl
		if en > len(b) {
			en = len(b)
		}
		out = append(out, sw.payloadID(b[st:en]))
	}
	return out
}

// ---- generator
func c19gen(r *hlib.Rng, kind string, tier string) c19spec {
	sp := c19spec{kind: kind, depart: -1, seeder: "agent", policy: "default"}
	sizes := []int{1, 2, 7, 64, 255, 256, 257, 1000, 4096, 4097, 16384, 65536}
	sp.size = sizes[r.Intn(len(sizes))]
	if r.Chance(40) {
		sp.size = r.Range(1, 65536)
	}
	// at most 48 pieces
	minPL := (sp.size + 47) / 48
	pls := []int{1, 2, 3, 8, 64, 256, 1024, 4096, 65536}
	for {
		sp.pieceLen = pls[r.Intn(len(pls))]
		if r.Chance(30) {
			sp.pieceLen = r.Range(1, 4096)
		}
		if sp.pieceLen >= minPL {
			break
		}
	}
	sp.content = r.Bytes(sp.size)
	n := (sp.size + sp.pieceLen - 1) / sp.pieceLen
	sp.nLeech = r.Range(1, 4)
	if r.Chance(30) {
		sp.seeder = "origin"
	}
	sp.maxConn = []int{1, 2, 3, 10}[r.Intn(4)]
	sp.aLimit = r.Range(1, 4)
	sp.oLimit = r.Range(1, 5)
	sp.endgame = r.Range(0, 3)
	sp.noEndgame = r.Chance(25)
	if r.Chance(30) {
		sp.policy = "rarest_first"
	}
	sp.reqTO = time.Duration(r.Range(300, 800)) * time.Millisecond
	sp.connTTI = time.Duration(r.Range(800, 1500)) * time.Millisecond
	sp.blacklist = time.Duration(r.Range(200, 600)) * time.Millisecond
	for k := 0; k < sp.nLeech; k++ {
		var pre []int
		if r.Chance(25) {
			for i := 0; i < n; i++ {
				if r.Chance(30) {
					pre = append(pre, i)
				}
			}
			if len(pre) == n { // a leecher has something to fetch
				pre = pre[1:]
			}
		}
		sp.prepop = append(sp.prepop, pre)
		sp.delay = append(sp.delay, time.Duration(r.Intn(400))*time.Millisecond)
	}
	sp.seedDelay = time.Duration(r.Intn(300)) * time.Millisecond
	sp.budget = 15 * time.Second
	switch kind {
	case "baseline":
		// no fault; convergence within the budget is demanded only when every peer can be
		// connected to every other at once (with tighter limits the swarm may crawl: see notes)
		sp.expect = sp.maxConn >= sp.nLeech+1
		if !sp.expect {
			sp.kind = "baseline-tight"
		}
		sp.budget = 40 * time.Second
	case "faulty":
		sp.corrupt = r.Chance(70)
		sp.unsol = sp.corrupt && r.Chance(30)
		sp.slow = r.Chance(50)
		if (sp.nLeech >= 2 || !sp.corrupt) && n >= 2 && r.Chance(60) {
			sp.depart = r.Intn(sp.nLeech)
			sp.departAt = r.Range(0, n/2)
			sp.rejoin = r.Chance(60)
			sp.slow = true
		}
		if !sp.corrupt && sp.depart < 0 {
			sp.corrupt = true
		}
	}
	return sp
}

func c19driver(ctx *hlib.Ctx) {
	r := hlib.NewRng(ctx.Seed)
	var specs []c19spec
	// seeds: the plain seeder + leecher swarm of the repository's own tests; an origin seeder;
	// a corrupting peer that is alone with the leecher until the seeder arrives; a departure
	{
		sp := c19gen(r.Fork(), "baseline", ctx.Tier)
		sp.kind, sp.size, sp.pieceLen, sp.nLeech = "seed-seeder-leecher", 256, 8, 1
		sp.content = r.Bytes(sp.size)
		sp.prepop, sp.delay, sp.seeder, sp.maxConn = [][]int{nil}, []time.Duration{100 * time.Millisecond}, "agent", 10
		sp.seedDelay = 0
		specs = append(specs, sp)
	}
	{
		sp := c19gen(r.Fork(), "baseline", ctx.Tier)
		sp.kind, sp.size, sp.pieceLen, sp.nLeech = "seed-origin-two-leechers", 4097, 256, 2
		sp.content = r.Bytes(sp.size)
		sp.prepop, sp.delay, sp.seeder = [][]int{nil, {0, 3}}, []time.Duration{50 * time.Millisecond, 0}, "origin"
		sp.seedDelay = 0
		specs = append(specs, sp)
	}
	{
		sp := c19gen(r.Fork(), "faulty", ctx.Tier)
		sp.kind, sp.size, sp.pieceLen, sp.nLeech = "seed-corrupter-first", 2048, 128, 1
		sp.content = r.Bytes(sp.size)
		sp.prepop, sp.delay, sp.seeder = [][]int{nil}, []time.Duration{0}, "agent"
		sp.corrupt, sp.unsol, sp.depart, sp.slow, sp.maxConn = true, true, -1, false, 2
		sp.seedDelay = 1200 * time.Millisecond
		specs = append(specs, sp)
	}
	{
		sp := c19gen(r.Fork(), "faulty", ctx.Tier)
		sp.kind, sp.size, sp.pieceLen, sp.nLeech = "seed-depart-restart", 16384, 512, 2
		sp.content = r.Bytes(sp.size)
		sp.prepop, sp.delay, sp.seeder = [][]int{nil, nil}, []time.Duration{0, 50 * time.Millisecond}, "agent"
		sp.corrupt, sp.depart, sp.departAt, sp.rejoin, sp.slow, sp.maxConn = false, 0, 4, true, true, 3
		sp.seedDelay = 0
		specs = append(specs, sp)
	}
	{
		// the hypothesis of C19_safety is necessary on the real code: CRC-32 colliding pieces are accepted
		sp := c19gen(r.Fork(), "faulty", ctx.Tier)
		sp.kind, sp.size, sp.pieceLen, sp.nLeech = "seed-crc-collision", 1024, 128, 1
		sp.content = r.Bytes(sp.size)
		sp.prepop, sp.delay, sp.seeder = [][]int{nil}, []time.Duration{0}, "agent"
		sp.corrupt, sp.collide, sp.unsol, sp.depart, sp.slow, sp.maxConn = true, true, false, -1, false, 2
		sp.seedDelay = 4 * time.Second
		specs = append(specs, sp)
	}
	for len(specs) < ctx.N {
		k := "faulty"
		if r.Chance(30) {
			k = "baseline"
		}
		specs = append(specs, c19gen(r.Fork(), k, ctx.Tier))
	}
	par := 6
	if ctx.Tier == "thorough" {
		par = 8
	}
	out := make([]*c19swarm, len(specs))
	sem := make(chan struct{}, par)
	var wg sync.WaitGroup
	for k := range specs {
		k := k
		wg.Add(1)
		sem <- struct{}{}
		go func() {
			defer wg.Done()
			defer func() { <-sem }()
			out[k] = c19runSwarm(specs[k], filepath.Join(ctx.Tmp, fmt.Sprintf("sw%d", k)), hlib.NewRng(ctx.Seed*1000003+uint64(k)))
		}()
	}
	wg.Wait()
	for _, sw := range out {
		sw.emit(ctx)
		sw.cleanup()
	}
}
