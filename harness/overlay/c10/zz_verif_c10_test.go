//go:build verif

package store

// C10 correspondence driver: histories on a real CAStore (LRU file map of capacity 1..8 or the
// default, mock clock, data mtimes set with os.Chtimes) mixing file creation, reads, stats,
// persist/LAT sidecar changes, explicit deletes, store re-opens, and the real cleanup code
// (cleanupManager.addJob with its ticker / cleanup / ttlBasedCleanup / customPolicyBasedCleanup with an injected disk
// usage and a recording FileOp wrapper that can also force the list of scanned names), plus the
// real blobserver.maybeDelete (through the external half of the driver, zz_verif_c10_x_test.go). After every operation the driver records the result,
// the files on disk with their sidecars (read raw, not through the store) and the names in the
// in-memory file map. Two pure streams call cachedInAgentPolicy and CleanupConfig.applyDefaults.
// Overlaid into lib/store at build time; never present in the repository.

import (
	"bytes"
	"encoding/binary"
	"errors"
	"fmt"
	"os"
	"path/filepath"
	"sort"
	"strconv"
	"strings"
	"sync"
	"sync/atomic"
	"testing"
	"time"

	"github.com/andres-erbsen/clock"
	"github.com/uber-go/tally"
	"go.uber.org/zap"

	"github.com/uber/kraken/lib/store/base"
	"github.com/uber/kraken/lib/store/metadata"
	"github.com/uber/kraken/utils/diskspaceutil"
	"github.com/uber/kraken/utils/log"
	"github.com/uber/kraken/utils/verifhlib"
)

func TestVerifC10(t *testing.T) { verifhlib.MainEnv("C10", c10driver) }

// VerifC10MaybeDelete runs the real origin/blobserver maybeDelete on cas; it is set by the external
// half of the driver (zz_verif_c10_x_test.go, package store_test), which can import blobserver.
var VerifC10MaybeDelete func(cas *CAStore, clk clock.Clock, name string, ttl time.Duration, owns bool, wb []bool) (bool, error)

const (
	c10NS  = int64(1000000000)
	c10T0  = int64(1000000) * c10NS // clock at the start of every history
	c10Min = 60 * c10NS
	c10Hr  = 3600 * c10NS
)

// eight valid sha256 hex names, ascending, with shared and distinct shard directories
var c10names = func() []string {
	pre := []string{"0a1b", "0a1b", "0a7c", "3d00", "3d00", "3dff", "9e10", "f0f0"}
	out := make([]string, len(pre))
	for i, p := range pre {
		out[i] = p + strings.Repeat(strconv.Itoa(i+1), 60)
	}
	return out
}()

func c10id(name string) int {
	for i, n := range c10names {
		if n == name {
			return i
		}
	}
	return -1
}

// ---------------------------------------------------------------- operations

type c10usage struct{ util, total, used int64 }

type c10cfg struct{ interval, tti, ttl, athr, attl, alow int64 }

type c10op struct {
	kind   string
	n      int
	a, b   int64
	flag   bool
	flag2  bool
	tti    int64
	ttl    int64
	thr    int64
	usage  *c10usage // nil = the usage call fails
	cfg    c10cfg
	forced []int // nil = natural ListNames
	useF   bool
	wb     []bool // force: outcomes of the pending write-back tasks
	// filled when executed
	scan  []int
	order []int
}

func c10z(i int64) string {
	if i < 0 {
		return fmt.Sprintf("(%d)", i)
	}
	return strconv.FormatInt(i, 10)
}

func c10ns(xs []int) string {
	s := make([]string, len(xs))
	for i, x := range xs {
		s[i] = strconv.Itoa(x)
	}
	return "[" + strings.Join(s, "; ") + "]%N"
}

func c10us(u *c10usage) string {
	if u == nil {
		return "None"
	}
	return fmt.Sprintf("(Some (mku %s %s %s))", c10z(u.util), c10z(u.total), c10z(u.used))
}

func (o *c10op) coq() string {
	switch o.kind {
	case "tick":
		return "Tick " + c10z(o.a)
	case "create":
		return fmt.Sprintf("Create %d %s %s", o.n, c10z(o.a), c10z(o.b))
	case "read":
		return fmt.Sprintf("Read %d", o.n)
	case "stat":
		return fmt.Sprintf("Stat %d", o.n)
	case "setp":
		return fmt.Sprintf("SetPersist %d %s", o.n, verifhlib.B(o.flag))
	case "clrp":
		return fmt.Sprintf("ClearPersist %d", o.n)
	case "setlat":
		return fmt.Sprintf("SetLat %d %s", o.n, c10z(o.a))
	case "dellat":
		return fmt.Sprintf("DelLat %d", o.n)
	case "delete":
		return fmt.Sprintf("Delete %d", o.n)
	case "reopen":
		return "Reopen"
	case "ttl":
		return fmt.Sprintf("TtlPass %s %s %s %s %s", c10z(o.tti), c10z(o.ttl), c10z(o.thr), c10us(o.usage), c10ns(o.scan))
	case "policy":
		tot := "None"
		if o.usage != nil {
			tot = "(Some " + c10z(o.usage.total) + ")"
		}
		return fmt.Sprintf("PolicyPass %s %s %s %s", c10z(o.thr), tot, c10ns(o.scan), c10ns(o.order))
	case "cleanup":
		c := o.cfg
		return fmt.Sprintf("Cleanup (mkcfg %s %s %s %s %s %s) %s %s %s %s", c10z(c.interval), c10z(c.tti), c10z(c.ttl),
			c10z(c.athr), c10z(c.attl), c10z(c.alow), verifhlib.B(o.flag), c10us(o.usage), c10ns(o.scan), c10ns(o.order))
	case "job":
		c := o.cfg
		return fmt.Sprintf("Job (mkcfg %s %s %s %s %s %s) %s %s %s %s %s", c10z(c.interval), c10z(c.tti), c10z(c.ttl),
			c10z(c.athr), c10z(c.attl), c10z(c.alow), verifhlib.B(o.flag), c10z(o.a), c10us(o.usage), c10ns(o.scan), c10ns(o.order))
	case "force":
		bs := make([]string, len(o.wb))
		for i, b := range o.wb {
			bs[i] = verifhlib.B(b)
		}
		return fmt.Sprintf("ForceDelete %d %s %s %s", o.n, c10z(o.ttl), verifhlib.B(o.flag), verifhlib.List(bs))
	}
	panic("c10: unknown op " + o.kind)
}

// ---------------------------------------------------------------- observations

type c10file struct {
	id     int
	mtime  int64
	size   int64
	hasLat bool
	lat    int64
	hasP   bool
	p      bool
}

func (f c10file) coq() string {
	lat, p := "None", "None"
	if f.hasLat {
		lat = "(Some " + c10z(f.lat) + ")"
	}
	if f.hasP {
		p = "(Some " + verifhlib.B(f.p) + ")"
	}
	return fmt.Sprintf("(%d%%N, mkf %s %s %s %s)", f.id, c10z(f.mtime), c10z(f.size), lat, p)
}

func c10res(err error) string {
	switch {
	case err == nil:
		return "ROk"
	case err == base.ErrFilePersisted:
		return "RPersisted"
	case os.IsNotExist(err):
		return "RNotExist"
	}
	return "RErr"
}

// ---------------------------------------------------------------- environment

type c10env struct {
	dir    string
	capCfg int
	clk    *clock.Mock
	cas    *CAStore
	incon  string
}

func (e *c10env) config() CAStoreConfig {
	return CAStoreConfig{
		UploadDir:            filepath.Join(e.dir, "upload"),
		CacheDir:             filepath.Join(e.dir, "cache"),
		Capacity:             e.capCfg,
		UploadCleanup:        CleanupConfig{Disabled: true},
		CacheCleanup:         CleanupConfig{Disabled: true},
		SkipHashVerification: true,
	}
}

func (e *c10env) open() {
	cas, err := newCAStore(e.config(), tally.NoopScope, e.clk)
	if err != nil {
		panic(err)
	}
	e.cas = cas
}

func (e *c10env) fileDir(id int) string {
	n := c10names[id]
	return filepath.Join(e.dir, "cache", n[0:2], n[2:4], n)
}

func (e *c10env) now() int64 { return e.clk.Now().UnixNano() }

// snapshot reads the cache directory without going through the store.
func (e *c10env) snapshot() []c10file {
	var out []c10file
	for id := range c10names {
		d := e.fileDir(id)
		st, err := os.Stat(filepath.Join(d, "data"))
		if err != nil {
			continue
		}
		f := c10file{id: id, mtime: st.ModTime().UnixNano(), size: st.Size()}
		if b, err := os.ReadFile(filepath.Join(d, "_last_access_time")); err == nil {
			v, n := binary.Varint(b)
			if n <= 0 {
				e.incon = "unreadable LAT sidecar"
			}
			f.hasLat, f.lat = true, v
		}
		if b, err := os.ReadFile(filepath.Join(d, "_persist")); err == nil {
			v, perr := strconv.ParseBool(string(b))
			if perr != nil {
				e.incon = "unreadable persist sidecar"
			}
			f.hasP, f.p = true, v
		}
		out = append(out, f)
	}
	return out
}

func (e *c10env) mapNames() []int {
	names, ok := base.VerifC10MapNames(e.cas.cacheStore.backend)
	if !ok {
		e.incon = "file map not accessible"
	}
	ids := make([]int, 0, len(names))
	for _, n := range names {
		id := c10id(n)
		if id < 0 {
			e.incon = "foreign name in file map"
			continue
		}
		ids = append(ids, id)
	}
	sort.Ints(ids)
	return ids
}

// recording FileOp: remembers the names the pass scanned and the deletions it attempted, and can
// force the list of names (a stale or partial listing = a pass interleaved with other clients).
type c10fileop struct {
	base.FileOp
	closed atomic.Bool // set when the pass is over: a late tick of a stopped job must not touch the store
	useF   bool
	forced []string
	scan   []string
	dels   []string
}

func (w *c10fileop) ListNames() ([]string, error) {
	if w.closed.Load() {
		return nil, errors.New("pass is over")
	}
	if w.useF {
		w.scan = append([]string(nil), w.forced...)
		return append([]string(nil), w.forced...), nil
	}
	names, err := w.FileOp.ListNames()
	w.scan = append([]string(nil), names...)
	return names, err
}

func (w *c10fileop) DeleteFile(name string) error {
	w.dels = append(w.dels, name)
	return w.FileOp.DeleteFile(name)
}

func (e *c10env) wrap(o *c10op) *c10fileop {
	w := &c10fileop{FileOp: e.cas.cacheStore.newFileOp(), useF: o.useF}
	for _, id := range o.forced {
		w.forced = append(w.forced, c10names[id])
	}
	return w
}

func (e *c10env) ids(names []string) []int {
	out := make([]int, 0, len(names))
	for _, n := range names {
		id := c10id(n)
		if id < 0 {
			e.incon = "foreign name listed"
			continue
		}
		out = append(out, id)
	}
	return out
}

// stats scope that signals when the job's disk_usage gauge is updated, i.e. a pass is over
type c10scope struct {
	tally.Scope
	done chan struct{}
}

func (s c10scope) Tagged(t map[string]string) tally.Scope { return c10scope{s.Scope.Tagged(t), s.done} }
func (s c10scope) Gauge(name string) tally.Gauge          { return c10gauge{s.Scope.Gauge(name), s.done} }

type c10gauge struct {
	tally.Gauge
	done chan struct{}
}

func (g c10gauge) Update(v float64) {
	g.Gauge.Update(v)
	select {
	case g.done <- struct{}{}:
	default:
	}
}

func (c c10cfg) real(disabled bool) CleanupConfig {
	return CleanupConfig{Disabled: disabled, Interval: time.Duration(c.interval), TTI: time.Duration(c.tti), TTL: time.Duration(c.ttl),
		AggressiveThreshold: int(c.athr), AggressiveTTL: time.Duration(c.attl), AggressiveLowerThreshold: int(c.alow)}
}

// usageStable records the real disk usage read before the pass as the environment's answer and
// marks the case inconclusive when it changed in a way that could change the pass.
func (e *c10env) usageStable(o *c10op, u1 diskspaceutil.UsageInfo, err1 error) {
	u2, err2 := diskspaceutil.Usage()
	if err1 != nil || err2 != nil || u1.Util != u2.Util || u1.TotalBytes != u2.TotalBytes {
		e.incon = "disk usage changed during the pass"
	}
	if o.cfg.alow > 0 {
		// ttl mode compares used bytes with the lower threshold: require a clear margin
		low := u1.TotalBytes * uint64(o.cfg.alow) / 100
		const margin = uint64(1) << 26
		above := func(u uint64) bool { return u > low+margin }
		below := func(u uint64) bool { return u+margin <= low }
		if !(above(u1.UsedBytes) && above(u2.UsedBytes)) && !(below(u1.UsedBytes) && below(u2.UsedBytes)) {
			e.incon = "disk usage too close to the lower threshold"
		}
	}
	o.usage = &c10usage{int64(u1.Util), int64(u1.TotalBytes), int64(u1.UsedBytes)}
}

func c10usageFn(u *c10usage) diskUsageFn {
	return func() (diskspaceutil.UsageInfo, error) {
		if u == nil {
			return diskspaceutil.UsageInfo{}, errors.New("no usage")
		}
		return diskspaceutil.UsageInfo{Util: int(u.util), TotalBytes: uint64(u.total), UsedBytes: uint64(u.used),
			FreeBytes: uint64(u.total - u.used)}, nil
	}
}

// exec runs one operation on the real store and returns the Coq term of its result.
func (e *c10env) exec(o *c10op) string {
	name := ""
	if o.n >= 0 && o.n < len(c10names) {
		name = c10names[o.n]
	}
	switch o.kind {
	case "tick":
		e.clk.Add(time.Duration(o.a))
		return "ORes ROk"
	case "create":
		data := filepath.Join(e.fileDir(o.n), "data")
		_, serr := os.Stat(data)
		err := e.cas.CreateCacheFile(name, bytes.NewReader(make([]byte, o.a)))
		if err == nil && serr != nil {
			t := time.Unix(0, o.b)
			if cerr := os.Chtimes(data, t, t); cerr != nil {
				e.incon = "chtimes failed"
			} else if st, err2 := os.Stat(data); err2 != nil || st.ModTime().UnixNano() != o.b {
				e.incon = "mtime not set exactly"
			}
		}
		return "ORes " + c10res(err)
	case "read":
		r, err := e.cas.GetCacheFileReader(name)
		if err == nil {
			r.Close()
		}
		return "ORes " + c10res(err)
	case "stat":
		_, err := e.cas.GetCacheFileStat(name)
		return "ORes " + c10res(err)
	case "setp":
		_, err := e.cas.SetCacheFileMetadata(name, metadata.NewPersist(o.flag))
		return "ORes " + c10res(err)
	case "clrp":
		return "ORes " + c10res(e.cas.DeleteCacheFileMetadata(name, &metadata.Persist{}))
	case "setlat":
		_, err := e.cas.SetCacheFileMetadata(name, metadata.NewLastAccessTime(time.Unix(o.a, 0)))
		return "ORes " + c10res(err)
	case "dellat":
		return "ORes " + c10res(e.cas.DeleteCacheFileMetadata(name, &metadata.LastAccessTime{}))
	case "delete":
		return "ORes " + c10res(e.cas.DeleteCacheFile(name))
	case "reopen":
		e.cas.Close()
		e.open()
		return "ORes ROk"
	case "ttl":
		w := e.wrap(o)
		_, err := e.cas.cleanup.ttlBasedCleanup(w, time.Duration(o.tti), time.Duration(o.ttl), int(o.thr), c10usageFn(o.usage))
		o.scan = e.ids(w.scan)
		return "OPass true " + verifhlib.B(err != nil)
	case "policy":
		w := e.wrap(o)
		_, err := e.cas.cleanup.customPolicyBasedCleanup(w, CleanupConfig{AggressiveLowerThreshold: int(o.thr)}, cachedInAgentPolicy, c10usageFn(o.usage))
		o.scan, o.order = e.ids(w.scan), e.ids(w.dels)
		return "OPass true " + verifhlib.B(err != nil)
	case "cleanup":
		// the dispatcher reads the real disk usage of "/": it is the environment's answer, passed
		// to the model; the case is inconclusive when the answer is not stable around the call
		u1, err1 := diskspaceutil.Usage()
		w := e.wrap(o)
		var pol func(a, b fInfo) int
		if o.flag {
			pol = cachedInAgentPolicy
		}
		_, err := e.cas.cleanup.cleanup(w, o.cfg.real(false), pol)
		e.usageStable(o, u1, err1)
		o.scan, o.order = e.ids(w.scan), e.ids(w.dels)
		return "OPass true " + verifhlib.B(err != nil)
	case "job":
		// the periodic job itself: addJob on a fresh manager sharing the store's clock, the clock
		// advances by o.a (exactly one period, or just short of it), the job is stopped. The end of
		// the pass is observed through the disk_usage gauge the job updates after each run.
		u1, err1 := diskspaceutil.Usage()
		done := make(chan struct{}, 4)
		m := newCleanupManager(e.clk, c10scope{tally.NoopScope, done})
		w := e.wrap(o)
		cc := o.cfg.real(o.flag)
		m.addJob("cache", cc, w)
		fires := !o.flag && o.a >= int64(cc.applyDefaults().Interval)
		e.clk.Add(time.Duration(o.a))
		if fires {
			select {
			case <-done:
			case <-time.After(20 * time.Second):
				e.incon = "periodic job did not finish"
			}
		} else {
			time.Sleep(2 * time.Millisecond)
		}
		w.closed.Store(true)
		m.stop()
		e.usageStable(o, u1, err1)
		o.scan, o.order = e.ids(w.scan), e.ids(w.dels)
		return "OPass true false"
	case "force":
		if VerifC10MaybeDelete == nil {
			panic("c10: external half of the driver is missing")
		}
		deleted, err := VerifC10MaybeDelete(e.cas, e.clk, name, time.Duration(o.ttl), o.flag, o.wb)
		return fmt.Sprintf("ODel %s %s", verifhlib.B(deleted), verifhlib.B(err != nil))
	}
	panic("c10: unknown op " + o.kind)
}

// ---------------------------------------------------------------- generation

type c10params struct {
	capCfg int
	tti    int64
	ttl    int64
	nops   int
	kind   string
}

func c10pick(r *verifhlib.Rng, xs []int64) int64 { return xs[r.Intn(len(xs))] }

func c10present(snap []c10file) (pres, abs []int) {
	in := map[int]bool{}
	for _, f := range snap {
		in[f.id] = true
		pres = append(pres, f.id)
	}
	for id := range c10names {
		if !in[id] {
			abs = append(abs, id)
		}
	}
	return
}

func c10perm(r *verifhlib.Rng, xs []int) []int {
	out := append([]int(nil), xs...)
	for i := len(out) - 1; i > 0; i-- {
		j := r.Intn(i + 1)
		out[i], out[j] = out[j], out[i]
	}
	return out
}

// forcedScan chooses the list of names a pass will walk: usually the natural listing, sometimes a
// permutation, a partial or stale listing (absent names); never a duplicate, as in a directory.
func c10forced(r *verifhlib.Rng, o *c10op, snap []c10file) {
	pres, abs := c10present(snap)
	x := r.Intn(100)
	switch {
	case x < 65:
		return
	case x < 82:
		o.useF, o.forced = true, c10perm(r, pres)
	case x < 92:
		p := c10perm(r, pres)
		o.useF, o.forced = true, p[:r.Intn(len(p)+1)]
	default:
		p := c10perm(r, pres)
		if len(abs) > 0 {
			p = append(p, abs[r.Intn(len(abs))])
		}
		o.useF, o.forced = true, c10perm(r, p)
	}
	if o.forced == nil {
		o.forced = []int{}
	}
}

func c10gen(r *verifhlib.Rng, p c10params, snap []c10file, now int64) *c10op {
	pres, abs := c10present(snap)
	anyName := func(preferPresent int) int {
		if len(pres) > 0 && (len(abs) == 0 || r.Chance(preferPresent)) {
			return pres[r.Intn(len(pres))]
		}
		return abs[r.Intn(len(abs))]
	}
	ages := []int64{0, c10NS, c10NS + 1, p.ttl - 1, p.ttl, p.ttl + 1, p.ttl + c10NS, p.tti, 45 * c10Min, 45*c10Min + 1,
		45*c10Min + c10NS, 2 * c10Hr, 7 * c10Hr, -10 * c10NS, 500000000}
	sizes := []int64{0, 1, 10, 25, 50, 60}
	x := r.Intn(100)
	if p.kind == "policy" && x >= 60 {
		x = 80 // more policy passes
	}
	switch {
	case x < 13:
		ticks := []int64{0, 1, c10NS, 299 * c10NS, 300*c10NS - 1, 300 * c10NS, 300*c10NS + 1, p.tti - c10NS, p.tti, p.tti + 1,
			p.tti + c10NS, p.ttl - 1, p.ttl, p.ttl + 1, 45 * c10Min, 45*c10Min + c10NS, c10Hr, 6 * c10Hr, 500000000, 999999999}
		d := c10pick(r, ticks)
		if d < 0 {
			d = 0
		}
		return &c10op{kind: "tick", a: d}
	case x < 31:
		n := anyName(15)
		mt := now - c10pick(r, ages)
		if mt < 0 {
			mt = 0
		}
		return &c10op{kind: "create", n: n, a: c10pick(r, sizes), b: mt}
	case x < 38:
		return &c10op{kind: "read", n: anyName(88)}
	case x < 42:
		return &c10op{kind: "stat", n: anyName(88)}
	case x < 51:
		return &c10op{kind: "setp", n: anyName(90), flag: r.Chance(78)}
	case x < 54:
		return &c10op{kind: "clrp", n: anyName(90)}
	case x < 60:
		back := []int64{0, c10NS, p.tti - c10NS, p.tti, p.tti + c10NS, 45 * c10Min, c10Hr, 7 * c10Hr, 2 * c10NS}
		s := (now - c10pick(r, back)) / c10NS
		if s < 0 {
			s = 0
		}
		return &c10op{kind: "setlat", n: anyName(90), a: s}
	case x < 62:
		return &c10op{kind: "dellat", n: anyName(90)}
	case x < 69:
		return &c10op{kind: "delete", n: anyName(85)}
	case x < 71:
		return &c10op{kind: "reopen"}
	case x < 83 && p.kind != "policy":
		o := &c10op{kind: "ttl", tti: p.tti, ttl: p.ttl}
		if r.Chance(12) {
			o.ttl = 0
		}
		if r.Chance(22) {
			o.thr = c10pick(r, []int64{1, 50, 90, 99, 100})
			if r.Chance(90) {
				o.usage = &c10usage{util: 80, total: 1000, used: c10pick(r, []int64{0, 10, 500, 505, 520, 900, 950, 1000})}
			}
		}
		c10forced(r, o, snap)
		return o
	case x < 90:
		o := &c10op{kind: "policy", thr: c10pick(r, []int64{0, 50, 80, 90, 95, 99, 100})}
		if r.Chance(93) {
			o.usage = &c10usage{util: 90, total: c10pick(r, []int64{100, 200, 500, 1000}), used: 0}
		}
		c10forced(r, o, snap)
		return o
	case x < 93:
		c := c10cfg{tti: p.tti, ttl: p.ttl,
			athr: c10pick(r, []int64{0, 0, 0, 1, 1, 100, 101}),
			attl: c10pick(r, []int64{0, c10NS, p.ttl / 2, p.ttl}),
			alow: c10pick(r, []int64{0, 0, 1, 99, 100})}
		o := &c10op{kind: "cleanup", cfg: c, flag: r.Chance(60)}
		c10forced(r, o, snap)
		return o
	case x < 96:
		// the periodic job: small explicit interval or the 30 min default; tti possibly defaulted
		c := c10cfg{interval: c10pick(r, []int64{0, 10 * c10NS, 60 * c10NS}), tti: c10pick(r, []int64{p.tti, p.tti, 0}), ttl: p.ttl,
			athr: c10pick(r, []int64{0, 0, 0, 1, 101}), attl: c10pick(r, []int64{0, c10NS, p.ttl}), alow: c10pick(r, []int64{0, 0, 99, 100})}
		period := c.interval
		if period == 0 {
			period = 30 * c10Min
		}
		o := &c10op{kind: "job", cfg: c, flag: r.Chance(12), a: period}
		if r.Chance(15) {
			o.a = period - 1
		}
		c10forced(r, o, snap)
		return o
	default:
		wbs := [][]bool{{}, {true}, {true}, {false}, {true, true}, {true, false}, {false, true}}
		return &c10op{kind: "force", n: anyName(88), ttl: c10pick(r, []int64{0, p.ttl, c10Hr, 24 * c10Hr}), flag: r.Chance(50), wb: wbs[r.Intn(len(wbs))]}
	}
}

// ---------------------------------------------------------------- one history

type c10result struct {
	cs verifhlib.Case
}

func c10run(dir string, p c10params, fixed []*c10op, r *verifhlib.Rng) verifhlib.Case {
	e := &c10env{dir: dir, capCfg: p.capCfg, clk: clock.NewMock()}
	e.clk.Set(time.Unix(0, c10T0))
	if err := os.MkdirAll(dir, 0o775); err != nil {
		panic(err)
	}
	e.open()
	defer func() {
		e.cas.Close()
		os.RemoveAll(dir)
	}()
	var ops, obs, hist, sample []string
	snap := e.snapshot()
	nt := false
	tags := map[string]bool{}
	n := p.nops
	if fixed != nil {
		n = len(fixed)
	}
	for i := 0; i < n; i++ {
		var o *c10op
		if fixed != nil {
			o = fixed[i]
		} else {
			o = c10gen(r, p, snap, e.now())
		}
		before := snap
		out := e.exec(o)
		snap = e.snapshot()
		mp := e.mapNames()
		fs := make([]string, len(snap))
		for j, f := range snap {
			fs[j] = f.coq()
		}
		ops = append(ops, o.coq())
		obs = append(obs, fmt.Sprintf("(%s, %s, %s)", out, verifhlib.List(fs), c10ns(mp)))
		hist = append(hist, o.kind)
		sample = append(sample, o.coq()+" => "+out)
		// non-trivial: a deletion path removed a file, or refused a protected one
		if len(snap) < len(before) || strings.Contains(out, "RPersisted") {
			nt = true
		}
		if o.kind == "ttl" || o.kind == "policy" || o.kind == "cleanup" || o.kind == "job" {
			for _, f := range before {
				if f.hasP && f.p {
					nt = true
				}
			}
			tags[o.kind] = true
		}
	}
	coq := fmt.Sprintf("CHist %d %s %s %s", p.capCfg, c10z(c10T0), verifhlib.List(ops), verifhlib.List(obs))
	var tl []string
	for t := range tags {
		tl = append(tl, t)
	}
	sort.Strings(tl)
	return verifhlib.Case{Coq: coq, NT: nt, Kind: p.kind, Hist: hist, Sample: sample, Tags: tl, Incon: e.incon != ""}
}

// ---------------------------------------------------------------- seeds

func c10seeds() []struct {
	p   c10params
	ops []*c10op
} {
	T := func(d int64) *c10op { return &c10op{kind: "tick", a: d} }
	C := func(n int, sz, age int64) *c10op { return &c10op{kind: "create", n: n, a: sz, b: -age} } // b fixed up below
	P := func(n int, b bool) *c10op { return &c10op{kind: "setp", n: n, flag: b} }
	ttl := func(tti, ttl int64) *c10op { return &c10op{kind: "ttl", tti: tti, ttl: ttl} }
	pol := func(thr, total int64) *c10op {
		return &c10op{kind: "policy", thr: thr, usage: &c10usage{util: 90, total: total}}
	}
	day := 24 * c10Hr
	type S = struct {
		p   c10params
		ops []*c10op
	}
	seeds := []S{
		// explicit delete of a protected file is refused, also after the map entry was dropped
		{c10params{capCfg: 4, kind: "seed-delete"}, []*c10op{C(0, 10, 0), P(0, true), {kind: "delete", n: 0}, {kind: "stat", n: 0},
			{kind: "delete", n: 0}, {kind: "clrp", n: 0}, {kind: "delete", n: 0}, {kind: "delete", n: 0}}},
		// LRU eviction: the protected victim stays on disk, the unprotected one is deleted
		{c10params{capCfg: 2, kind: "seed-evict"}, []*c10op{C(0, 10, 0), P(0, true), C(1, 10, 0), C(2, 10, 0), {kind: "stat", n: 0},
			C(3, 5, 0), {kind: "reopen"}, {kind: "read", n: 0}, {kind: "read", n: 2}, {kind: "read", n: 3}}},
		// ttl boundary: age == ttl stays, ttl + 1ns goes
		{c10params{capCfg: 0, kind: "seed-ttl"}, []*c10op{C(0, 10, 0), C(1, 10, 1), T(c10Hr), ttl(day, c10Hr), T(1), ttl(day, c10Hr)}},
		// tti boundary on whole seconds
		{c10params{capCfg: 0, kind: "seed-tti"}, []*c10op{C(0, 10, 0), T(10 * c10NS), C(1, 10, 0), T(50 * c10NS), ttl(60*c10NS, 0),
			T(c10NS), ttl(60*c10NS, 0), T(9 * c10NS), ttl(60*c10NS, 0), T(c10NS), ttl(60*c10NS, 0)}},
		// protected files survive normal, aggressive and policy cleanup, and forced cleanup without write-back
		{c10params{capCfg: 0, kind: "seed-protected"}, []*c10op{C(0, 10, 0), C(1, 10, 0), P(0, true), T(7 * c10Hr), ttl(c10Hr, c10Hr),
			C(2, 50, 0), P(2, true), T(2 * c10Hr),
			{kind: "ttl", tti: c10Hr, ttl: c10Hr, thr: 50, usage: &c10usage{util: 95, total: 1000, used: 900}},
			pol(0, 1000), {kind: "force", n: 0, ttl: 0, flag: true, wb: []bool{false}}, {kind: "force", n: 2, ttl: 0, flag: true, wb: []bool{true, false}},
			{kind: "force", n: 0, ttl: 0, flag: true, wb: []bool{true}}, C(3, 5, 0), P(3, true), {kind: "force", n: 3, ttl: c10Hr, flag: false, wb: []bool{}}}},
		// policy order: consumer-served first (surely-in-agent before), then least recently accessed; budget 30 bytes
		{c10params{capCfg: 0, kind: "seed-policy"}, []*c10op{C(0, 10, 0), C(1, 10, 0), C(2, 10, 0), C(3, 10, 0), C(4, 10, 0),
			{kind: "setlat", n: 1, a: (c10T0 + 10*c10NS) / c10NS}, {kind: "setlat", n: 2, a: (c10T0 + 50*c10Min) / c10NS},
			{kind: "setlat", n: 3, a: (c10T0 + 5*c10NS) / c10NS}, T(c10Hr), pol(97, 1000), pol(99, 1000), pol(100, 1000), pol(0, 15)}},
		// gap boundaries: exactly 1 s / 45 min is not "served" / "surely in agent"
		{c10params{capCfg: 0, kind: "seed-policy-boundary"}, []*c10op{C(0, 10, 0), C(1, 10, 0), C(2, 10, 0), C(3, 10, 0),
			{kind: "setlat", n: 0, a: c10T0/c10NS + 1}, {kind: "setlat", n: 1, a: c10T0/c10NS + 2},
			{kind: "setlat", n: 2, a: c10T0/c10NS + 2700}, {kind: "setlat", n: 3, a: c10T0/c10NS + 2701}, pol(99, 1000), pol(99, 1000), pol(99, 1000)}},
		// eviction pressure: a pass over more files than the map holds deletes fresh files by eviction
		{c10params{capCfg: 2, kind: "seed-pressure"}, []*c10op{C(0, 10, 0), P(0, true), C(1, 10, 0), P(1, true), C(2, 10, 0), P(2, true),
			{kind: "reopen"}, {kind: "clrp", n: 0}, {kind: "reopen"}, ttl(day, day)}},
		// no LAT sidecar: never idle; reloaded by the scan it gets LAT = now
		{c10params{capCfg: 0, kind: "seed-nolat"}, []*c10op{C(0, 10, 0), C(1, 10, 0), {kind: "dellat", n: 0}, {kind: "dellat", n: 1},
			{kind: "reopen"}, {kind: "stat", n: 1}, {kind: "dellat", n: 1}, T(7 * c10Hr), ttl(c10Hr, 0), T(7 * c10Hr), ttl(c10Hr, 0)}},
		// LAT resolution: an access 5 min - 1 ns after the last LAT update is not recorded
		{c10params{capCfg: 0, kind: "seed-resolution"}, []*c10op{C(0, 10, 0), T(300*c10NS - 1), {kind: "read", n: 0}, T(1), {kind: "read", n: 0},
			T(299 * c10NS), {kind: "read", n: 0}, ttl(299*c10NS, 0), T(1 * c10NS), ttl(299*c10NS, 0)}},
		// sub-second clock: LAT truncation
		{c10params{capCfg: 0, kind: "seed-subsecond"}, []*c10op{T(900000000), C(0, 10, 0), T(200000000), ttl(c10NS, 0), T(900000000), ttl(c10NS, 0)}},
		// the periodic job with defaults: idle limit 6 h, period 30 min; not fired one ns early; disabled
		{c10params{capCfg: 0, kind: "seed-job"}, []*c10op{C(0, 10, 0), C(1, 10, 0), P(1, true), T(6*c10Hr - 30*c10Min),
			{kind: "job", a: 30*c10Min - 1}, {kind: "job", a: 1, flag: true}, {kind: "job", a: 30 * c10Min}, {kind: "job", a: 30 * c10Min},
			C(2, 10, 0), {kind: "job", cfg: c10cfg{interval: 10 * c10NS, tti: 5 * c10NS}, a: 10 * c10NS}}},
		// lower threshold in ttl mode: stop deleting once used - scanned <= low
		{c10params{capCfg: 0, kind: "seed-lowthr"}, []*c10op{C(0, 10, 0), C(1, 10, 0), C(2, 10, 0), T(2 * c10Hr),
			{kind: "ttl", tti: c10Hr, ttl: c10Hr, thr: 50, usage: &c10usage{util: 95, total: 1000, used: 515}}}},
	}
	// create's mtime = clock at that point - age: computed by replaying the ticks
	for _, s := range seeds {
		now := c10T0
		for _, o := range s.ops {
			switch o.kind {
			case "tick", "job":
				now += o.a
			case "create":
				o.b = now + o.b
			}
		}
	}
	return seeds
}

// ---------------------------------------------------------------- pure streams

func c10pure(ctx *verifhlib.Ctx, r *verifhlib.Rng, n int) {
	gaps := []int64{0, 1, c10NS - 1, c10NS, c10NS + 1, 2 * c10NS, 45*c10Min - 1, 45 * c10Min, 45*c10Min + 1, 46 * c10Min, c10Hr, 30 * c10Min}
	mk := func() (acc, dl int64) {
		acc = c10T0 + int64(r.Intn(4))*c10NS*int64(1+r.Intn(3000))
		g := c10pick(r, gaps)
		if r.Chance(50) {
			g = -g
		}
		return acc, acc + g
	}
	fi := func(i int, acc, dl int64) (fInfo, string) {
		return fInfo{name: c10names[i], accessTime: time.Unix(0, acc), downloadTime: time.Unix(0, dl), size: 1},
			fmt.Sprintf("(mkfi %d %s %s 1)", i, c10z(acc), c10z(dl))
	}
	for i := 0; i < n; i++ {
		a1, d1 := mk()
		a2, d2 := mk()
		if r.Chance(15) {
			a2 = a1
		}
		l, ls := fi(0, a1, d1)
		rr, rs := fi(1, a2, d2)
		v := cachedInAgentPolicy(l, rr)
		sg := 0
		if v < 0 {
			sg = -1
		} else if v > 0 {
			sg = 1
		}
		ctx.Emit(verifhlib.Case{Coq: fmt.Sprintf("CCmp %s %s %s", ls, rs, c10z(int64(sg))), NT: sg != 0, Kind: "policy-cmp",
			Hist: []string{"cmp"}, Sample: fmt.Sprintf("cachedInAgentPolicy(%s, %s) sign %d", ls, rs, sg)})
	}
	durs := []int64{0, 0, 1, c10NS, 30 * c10Min, c10Hr, 6 * c10Hr}
	for i := 0; i < n/4+4; i++ {
		c := c10cfg{c10pick(r, durs), c10pick(r, durs), c10pick(r, durs), c10pick(r, []int64{0, 0, 1, 80}), c10pick(r, durs), c10pick(r, []int64{0, 50})}
		d := CleanupConfig{Interval: time.Duration(c.interval), TTI: time.Duration(c.tti), TTL: time.Duration(c.ttl),
			AggressiveThreshold: int(c.athr), AggressiveTTL: time.Duration(c.attl), AggressiveLowerThreshold: int(c.alow)}.applyDefaults()
		s := func(c c10cfg) string {
			return fmt.Sprintf("(mkcfg %s %s %s %s %s %s)", c10z(c.interval), c10z(c.tti), c10z(c.ttl), c10z(c.athr), c10z(c.attl), c10z(c.alow))
		}
		dc := c10cfg{int64(d.Interval), int64(d.TTI), int64(d.TTL), int64(d.AggressiveThreshold), int64(d.AggressiveTTL), int64(d.AggressiveLowerThreshold)}
		ctx.Emit(verifhlib.Case{Coq: fmt.Sprintf("CDef %s %s", s(c), s(dc)), NT: dc != c, Kind: "defaults", Hist: []string{"defaults"},
			Sample: fmt.Sprintf("applyDefaults %s = %s", s(c), s(dc))})
	}
}

// ---------------------------------------------------------------- driver

func c10driver(ctx *verifhlib.Ctx) {
	log.SetGlobalLogger(zap.NewNop().Sugar())
	master := verifhlib.NewRng(ctx.Seed)
	root := filepath.Join(ctx.Tmp, "c10")
	os.MkdirAll(root, 0o775)

	type job struct {
		p     c10params
		fixed []*c10op
		r     *verifhlib.Rng
	}
	var jobs []job
	for _, s := range c10seeds() {
		jobs = append(jobs, job{p: s.p, fixed: s.ops})
	}
	nh := ctx.N * 8 / 10
	maxOps := 22
	if ctx.Tier == "thorough" {
		maxOps = 36
	}
	ttis := []int64{c10NS, 10 * c10NS, 60 * c10NS, 5 * c10Min, c10Hr, 6 * c10Hr}
	ttls := []int64{0, 10 * c10NS, c10Hr, 24 * c10Hr}
	for i := 0; i < nh; i++ {
		r := master.Fork()
		p := c10params{tti: c10pick(r, ttis), ttl: c10pick(r, ttls), nops: r.Range(4, maxOps)}
		switch x := r.Intn(100); {
		case x < 40:
			p.kind, p.capCfg = "hist-roomy", []int{0, 8, 8, 12}[r.Intn(4)]
		case x < 75:
			p.kind, p.capCfg = "hist-pressure", r.Range(1, 4)
		default:
			p.kind, p.capCfg = "policy", []int{0, 8, 3}[r.Intn(3)]
		}
		jobs = append(jobs, job{p: p, r: r})
	}
	if ctx.Tier == "thorough" {
		// exhaustive small scope: every history of length <= 3 over 13 operations on two files with
		// a one-entry map (maximal eviction pressure), ttl pass and policy pass included
		alpha := func() []*c10op {
			var a []*c10op
			for n := 0; n < 2; n++ {
				a = append(a, &c10op{kind: "create", n: n, a: 10, b: c10T0},
					&c10op{kind: "read", n: n}, &c10op{kind: "setp", n: n, flag: true},
					&c10op{kind: "clrp", n: n}, &c10op{kind: "delete", n: n})
			}
			a = append(a, &c10op{kind: "tick", a: 2 * c10Hr},
				&c10op{kind: "ttl", tti: c10Hr, ttl: 0},
				&c10op{kind: "policy", thr: 0, usage: &c10usage{util: 90, total: 15}})
			return a
		}
		k := len(alpha())
		var rec func(prefix []int)
		rec = func(prefix []int) {
			if len(prefix) > 0 {
				a := alpha() // fresh op objects: exec fills scan/order in place
				ops := make([]*c10op, len(prefix))
				for i, x := range prefix {
					c := *a[x]
					ops[i] = &c
				}
				jobs = append(jobs, job{p: c10params{capCfg: 1, kind: "exhaustive"}, fixed: ops})
			}
			if len(prefix) == 3 {
				return
			}
			for x := 0; x < k; x++ {
				rec(append(append([]int(nil), prefix...), x))
			}
		}
		rec(nil)
	}
	out := make([]verifhlib.Case, len(jobs))
	var wg sync.WaitGroup
	sem := make(chan struct{}, 12)
	for i := range jobs {
		wg.Add(1)
		sem <- struct{}{}
		go func(i int) {
			defer wg.Done()
			defer func() { <-sem }()
			out[i] = c10run(filepath.Join(root, strconv.Itoa(i)), jobs[i].p, jobs[i].fixed, jobs[i].r)
		}(i)
	}
	wg.Wait()
	for _, c := range out {
		ctx.Emit(c)
	}
	c10pure(ctx, master.Fork(), ctx.N-nh)
}
