//go:build verif

package base

// Export for the C10 correspondence driver (overlaid at build time, never present in the
// repository): the names currently held by a file store's in-memory file map.

// VerifC10MapNames returns the names in the store's lruFileMap in queue order (front first),
// or nil, false when fs is not a local file store with an lruFileMap.
func VerifC10MapNames(fs FileStore) ([]string, bool) {
	s, ok := fs.(*localFileStore)
	if !ok {
		return nil, false
	}
	fm, ok := s.fileMap.(*lruFileMap)
	if !ok {
		return nil, false
	}
	fm.Lock()
	defer fm.Unlock()
	var names []string
	for e := fm.queue.Front(); e != nil; e = e.Next() {
		if w, ok := e.Value.(*fileEntryWithAccessTime); ok {
			names = append(names, w.fe.GetName())
		}
	}
	return names, true
}
