//go:build verif

package store_test

// Second half of the C10 driver: it lives in the external test package so that it can import
// origin/blobserver (which imports lib/store) and run the REAL maybeDelete on the CAStore of the
// in-package driver, with a fake hash ring (ownership is an input) and a fake write-back manager
// whose tasks succeed or fail as the case says; a successful task deletes the persist sidecar
// exactly as writeback.Executor.Exec does (executor.go:93).

import (
	"errors"
	"time"

	"github.com/andres-erbsen/clock"
	"github.com/uber-go/tally"

	"github.com/uber/kraken/core"
	"github.com/uber/kraken/lib/persistedretry"
	"github.com/uber/kraken/lib/persistedretry/writeback"
	"github.com/uber/kraken/lib/store"
	"github.com/uber/kraken/lib/store/metadata"
	"github.com/uber/kraken/origin/blobserver"
	"github.com/uber/kraken/utils/stringset"
)

const c10addr = "origin-self:80"

type c10ring struct{ owns bool }

func (r c10ring) Locations(d core.Digest) []string {
	if r.owns {
		return []string{"origin-other:80", c10addr}
	}
	return []string{"origin-other:80", "origin-third:80"}
}
func (r c10ring) Contains(addr string) bool         { return true }
func (r c10ring) WaitForContains(addr string) error { return nil }
func (r c10ring) Members() stringset.Set            { return stringset.New(c10addr) }
func (r c10ring) Monitor(stop <-chan struct{})      {}
func (r c10ring) Refresh()                          {}

type c10manager struct {
	cas      *store.CAStore
	name     string
	outcomes []bool
	next     int
}

func (m *c10manager) Add(persistedretry.Task) error { return nil }
func (m *c10manager) Close()                        {}
func (m *c10manager) Find(query interface{}) ([]persistedretry.Task, error) {
	if _, ok := query.(*writeback.NameQuery); !ok {
		return nil, errors.New("unexpected query")
	}
	tasks := make([]persistedretry.Task, len(m.outcomes))
	for i := range m.outcomes {
		tasks[i] = writeback.NewTask("ns"+string(rune('a'+i)), m.name, 0)
	}
	return tasks, nil
}
func (m *c10manager) SyncExec(t persistedretry.Task) error {
	ok := m.next < len(m.outcomes) && m.outcomes[m.next]
	m.next++
	if !ok {
		return errors.New("backend unavailable")
	}
	// the upload succeeded: what Executor.Exec does next (executor.go:93)
	if err := m.cas.DeleteCacheFileMetadata(m.name, &metadata.Persist{}); err != nil {
		return err
	}
	return nil
}

func init() {
	store.VerifC10MaybeDelete = func(cas *store.CAStore, clk clock.Clock, name string, ttl time.Duration, owns bool, wb []bool) (bool, error) {
		mgr := &c10manager{cas: cas, name: name, outcomes: wb}
		s, err := blobserver.New(blobserver.Config{}, tally.NoopScope, clk, c10addr, c10ring{owns}, cas,
			nil, nil, core.PeerContext{}, nil, nil, nil, mgr)
		if err != nil {
			panic(err)
		}
		return blobserver.VerifC10MaybeDelete(s, name, ttl)
	}
}
