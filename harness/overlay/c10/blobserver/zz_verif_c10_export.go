//go:build verif

package blobserver

import "time"

// Export for the C10 correspondence driver (overlaid at build time, never present in the
// repository): forced cleanup's per-blob decision, maybeDelete, is unexported.

// VerifC10MaybeDelete calls s.maybeDelete(name, ttl).
func VerifC10MaybeDelete(s *Server, name string, ttl time.Duration) (bool, error) {
	return s.maybeDelete(name, ttl)
}
