//go:build verif

package peerstore

// In-package driver for property C27 (the in-memory peer store returns fresh, distinct
// announcements). Histories of UpdatePeer / GetPeers / clock advances / the two cleanup
// passes run on a real LocalStore whose clock is scripted by the driver.
//
// The clock is the only seam the code offers inside its lock regions, and the driver uses it
// to realise, deterministically, the one interleaving the lock structure allows a test to
// force: cleanupExpiredPeerEntries reads the clock under g.mu.RLock while it scans a group;
// on the first such read the clock starts a goroutine that calls UpdatePeer on the same
// torrent and waits until that goroutine is the pending writer of g.mu. sync.RWMutex then
// guarantees the order  scan ; UpdatePeer ; remove-with-re-check  (the cleanup's g.mu.Lock
// queues behind the pending writer). The announcing goroutine may also advance the clock
// while it holds g.mu.

import (
	"fmt"
	"math/rand"
	"os"
	"runtime"
	"strconv"
	"strings"
	"sync"
	"sync/atomic"
	"testing"
	"time"

	"github.com/andres-erbsen/clock"

	"github.com/uber/kraken/core"
	"github.com/uber/kraken/utils/verifhlib"
)

func TestVerifC27(t *testing.T) { verifhlib.MainEnv("C27", c27driver) }

// ---- canonical names ----

func c27hash(i int) core.InfoHash {
	var h core.InfoHash
	h[0] = byte(i + 1)
	h[7] = byte(3*i + 1)
	h[19] = 0xC2
	return h
}

func c27pid(i int) core.PeerID {
	var p core.PeerID
	p[0] = byte(i + 1)
	p[11] = byte(5*i + 2)
	p[19] = 0x27
	return p
}

type c27peer struct {
	id, ip, port int
	complete     bool
}

func (p c27peer) info() *core.PeerInfo {
	return core.NewPeerInfo(c27pid(p.id), fmt.Sprintf("10.0.0.%d", p.ip), p.port, false, p.complete)
}

func (p c27peer) coq() string {
	return fmt.Sprintf("(mkpeer %d %d %d %s)", p.id, p.ip, p.port, verifhlib.B(p.complete))
}

// c27unpeer maps a returned PeerInfo back to canonical numbers (unknown values become 9xx so
// that the model cannot match them).
func c27unpeer(pi *core.PeerInfo) c27peer {
	out := c27peer{id: 900, ip: 900, port: pi.Port, complete: pi.Complete}
	for i := 0; i < 16; i++ {
		if pi.PeerID == c27pid(i) {
			out.id = i
		}
	}
	var k int
	if n, err := fmt.Sscanf(pi.IP, "10.0.0.%d", &k); err == nil && n == 1 && fmt.Sprintf("10.0.0.%d", k) == pi.IP {
		out.ip = k
	}
	if pi.Origin {
		out.ip = 901
	}
	if out.port < 0 {
		out.port = 902
	}
	return out
}

// ---- the scripted clock ----

type c27mid struct {
	dt1  int
	peer c27peer
	dt2  int
}

type c27clock struct {
	clock.Clock // real clock for everything but Now (LocalStore only calls Now)

	mu   sync.Mutex
	base time.Time
	cur  int64 // ns since base

	// state of a running cleanupExpiredPeerEntries pass
	s         *LocalStore
	inPass    bool
	passG     int64
	groups    map[int]*peerGroup // hash index -> group, snapshot taken before the pass
	scanned   map[int]bool
	remaining int // clock reads still to come from the current scan region
	mids      map[int]*c27mid
	order     []int
	fired     map[int]bool
	pending   chan struct{}
	midNow    *c27mid
	failed    string
}

func c27goid() int64 {
	var buf [64]byte
	n := runtime.Stack(buf[:], false)
	f := strings.Fields(string(buf[:n]))
	if len(f) < 2 {
		return -1
	}
	id, err := strconv.ParseInt(f[1], 10, 64)
	if err != nil {
		return -1
	}
	return id
}

func (c *c27clock) at(ns int64) time.Time { return c.base.Add(time.Duration(ns)) }

func (c *c27clock) Now() time.Time {
	c.mu.Lock()
	if !c.inPass {
		t := c.cur
		c.mu.Unlock()
		return c.at(t)
	}
	if c27goid() != c.passG {
		// the announcement started by the pass hook: it holds g.mu here, the pass is
		// blocked in g.mu.Lock (or has moved on to another group and waits in this clock)
		m := c.midNow
		t := c.cur + int64(m.dt1)
		c.cur = t + int64(m.dt2)
		c.mu.Unlock()
		return c.at(t)
	}
	// the cleanup pass reads the clock
	if c.remaining > 0 {
		c.remaining--
		t := c.cur
		c.mu.Unlock()
		return c.at(t)
	}
	if c.pending != nil {
		// the previous group's scan found nothing to remove, so nothing ordered the pass
		// behind the announcement: wait for it here (different group, no lock is shared)
		ch := c.pending
		c.pending = nil
		c.mu.Unlock()
		<-ch
		c.mu.Lock()
	}
	// either the remove region of an already scanned group, or the first read of a new scan
	idx := -1
	var g *peerGroup
	for i, gi := range c.groups {
		if c.scanned[i] {
			continue
		}
		if gi.mu.TryLock() {
			gi.mu.Unlock()
			continue
		}
		idx, g = i, gi
	}
	if g == nil {
		t := c.cur
		c.mu.Unlock()
		return c.at(t)
	}
	c.scanned[idx] = true
	c.order = append(c.order, idx)
	c.remaining = len(g.peerList) - 1 // this goroutine holds g.mu.RLock
	t := c.cur
	m := c.mids[idx]
	if m == nil {
		c.mu.Unlock()
		return c.at(t)
	}
	c.fired[idx] = true
	c.midNow = m
	done := make(chan struct{})
	c.pending = done
	s := c.s
	c.mu.Unlock()
	go func() {
		defer close(done)
		if err := s.UpdatePeer(c27hash(idx), m.peer.info()); err != nil {
			c.mu.Lock()
			c.failed = "UpdatePeer: " + err.Error()
			c.mu.Unlock()
		}
	}()
	// wait until the announcer is the pending writer of g.mu (readers are refused from then on)
	for spins := 0; ; spins++ {
		if g.mu.TryRLock() {
			g.mu.RUnlock()
			if spins > 200 {
				time.Sleep(20 * time.Microsecond)
			} else {
				runtime.Gosched()
			}
			continue
		}
		break
	}
	return c.at(t)
}

// ---- one history ----

type c27op struct {
	k    int // 0 tick 1 ann 2 get 3 cleanE 4 cleanG
	dt   int
	h    int
	p    c27peer
	n    int
	mids map[int]*c27mid // cleanE: wanted mid announcements by hash index
}

type c27result struct {
	ops      []string
	hist     []string
	anns     int
	nonempty int
	removed  bool
	midFired int
	incon    string
}

const c27nh = 4

func c27run(ttl int, ops []c27op) c27result {
	nh := 1
	for _, o := range ops {
		if (o.k == 1 || o.k == 2) && o.h+1 > nh {
			nh = o.h + 1
		}
	}
	if nh > c27nh {
		nh = c27nh
	}
	clk := &c27clock{Clock: clock.New(), base: time.Date(2019, time.November, 1, 1, 0, 0, 0, time.UTC)}
	s := NewLocalStore(LocalConfig{TTL: time.Duration(ttl)}, clk)
	defer s.Close()
	clk.s = s
	var res c27result
	lastTotal := -1
	get := func(h, n int) []c27peer {
		infos, err := s.GetPeers(c27hash(h), n)
		if err != nil {
			res.incon = "GetPeers: " + err.Error()
		}
		out := make([]c27peer, 0, len(infos))
		for _, pi := range infos {
			out = append(out, c27unpeer(pi))
		}
		return out
	}
	emitGet := func(h, n int, ps []c27peer) {
		var l []string
		for _, p := range ps {
			l = append(l, p.coq())
		}
		res.ops = append(res.ops, fmt.Sprintf("OGet %d (%d)%%Z %s", h, n, verifhlib.List(l)))
		res.hist = append(res.hist, "Get")
		if len(ps) > 0 {
			res.nonempty++
		}
	}
	// count observes the size of the store without adding to the case
	count := func() {
		lastTotal = 0
		for h := 0; h < nh; h++ {
			lastTotal += len(get(h, 1000))
		}
	}
	// dump makes the whole state observable through GetPeers
	dump := func() {
		total := 0
		for h := 0; h < nh; h++ {
			ps := get(h, 1000)
			total += len(ps)
			emitGet(h, 1000, ps)
		}
		if lastTotal >= 0 && total < lastTotal {
			res.removed = true
		}
		lastTotal = total
	}
	for _, o := range ops {
		switch o.k {
		case 0:
			clk.mu.Lock()
			clk.cur += int64(o.dt)
			clk.mu.Unlock()
			res.ops = append(res.ops, fmt.Sprintf("OTick %d", o.dt))
			res.hist = append(res.hist, "Tick")
		case 1:
			if err := s.UpdatePeer(c27hash(o.h), o.p.info()); err != nil {
				res.incon = "UpdatePeer: " + err.Error()
			}
			res.anns++
			lastTotal = -1
			res.ops = append(res.ops, fmt.Sprintf("OAnn %d %s", o.h, o.p.coq()))
			res.hist = append(res.hist, "Ann")
		case 2:
			emitGet(o.h, o.n, get(o.h, o.n))
		case 3:
			// snapshot the groups so that the clock can tell which one is being scanned
			groups := map[int]*peerGroup{}
			nonempty := map[int]bool{}
			s.mu.RLock()
			for h := 0; h < c27nh; h++ {
				if g, ok := s.peerGroups[c27hash(h)]; ok {
					groups[h] = g
					g.mu.RLock()
					nonempty[h] = len(g.peerList) > 0
					g.mu.RUnlock()
				}
			}
			s.mu.RUnlock()
			mids := map[int]*c27mid{}
			for h, m := range o.mids {
				if nonempty[h] {
					mids[h] = m
				}
			}
			count()
			clk.mu.Lock()
			clk.inPass, clk.passG = true, c27goid()
			clk.groups, clk.scanned, clk.remaining = groups, map[int]bool{}, 0
			clk.mids, clk.order, clk.fired, clk.pending = mids, nil, map[int]bool{}, nil
			clk.mu.Unlock()
			s.cleanupExpiredPeerEntries()
			clk.mu.Lock()
			pend := clk.pending
			clk.pending = nil
			clk.mu.Unlock()
			if pend != nil {
				<-pend
			}
			clk.mu.Lock()
			clk.inPass = false
			order, fired := clk.order, clk.fired
			if clk.failed != "" {
				res.incon = clk.failed
			}
			clk.mu.Unlock()
			var evs []string
			for _, h := range order {
				if m := mids[h]; m != nil {
					if !fired[h] {
						res.incon = "mid announcement not started"
					}
					evs = append(evs, fmt.Sprintf("(%d, Some (mkmid %d %s %d))", h, m.dt1, m.peer.coq(), m.dt2))
					res.midFired++
					res.anns++
				} else {
					evs = append(evs, fmt.Sprintf("(%d, None)", h))
				}
			}
			if len(fired) != len(mids) {
				res.incon = "mid announcement not started"
			}
			res.ops = append(res.ops, "OCleanE "+verifhlib.List(evs))
			res.hist = append(res.hist, "CleanE")
			if len(mids) > 0 {
				res.hist = append(res.hist, "CleanE+mid")
				lastTotal = -1
			}
			dump()
		case 4:
			count()
			s.cleanupExpiredPeerGroups()
			res.ops = append(res.ops, "OCleanG")
			res.hist = append(res.hist, "CleanG")
			dump()
		}
	}
	dump()
	return res
}

// ---- generators ----

func c27emit(ctx *verifhlib.Ctx, kind string, ttl int, ops []c27op) {
	r := c27run(ttl, ops)
	coq := fmt.Sprintf("mkcase %d %s", ttl, verifhlib.List(r.ops))
	ctx.Emit(verifhlib.Case{
		Coq: coq, Kind: kind, Hist: r.hist,
		NT:     r.anns > 0 && r.nonempty > 0 && (r.removed || r.midFired > 0),
		Incon:  r.incon != "",
		Sample: map[string]interface{}{"ttl": ttl, "ops": r.ops, "inconclusive": r.incon},
	})
}

func c27tick(dt int) c27op                 { return c27op{k: 0, dt: dt} }
func c27ann(h int, p c27peer) c27op        { return c27op{k: 1, h: h, p: p} }
func c27get(h, n int) c27op                { return c27op{k: 2, h: h, n: n} }
func c27ce(mids map[int]*c27mid) c27op     { return c27op{k: 3, mids: mids} }
func c27cg() c27op                         { return c27op{k: 4} }
func c27p(id, ip, port int, c bool) c27peer { return c27peer{id, ip, port, c} }

func c27seeds(ctx *verifhlib.Ctx) {
	a, b, c, d := c27p(0, 0, 100, false), c27p(1, 1, 101, false), c27p(2, 2, 102, false), c27p(3, 0, 103, true)
	a2 := c27p(0, 1, 200, true)
	// the scripted scenario of local_test.go
	c27emit(ctx, "seed-local-test", 10, []c27op{c27get(0, 0), c27get(0, 1), c27ann(0, a), c27ann(0, b), c27get(0, 2), c27get(0, 50), c27get(0, 1),
		c27tick(5), c27ann(0, c), c27ce(nil), c27cg(), c27get(0, 3), c27ann(0, c27p(2, 2, 102, true)), c27get(0, 3),
		c27tick(6), c27ce(nil), c27get(0, 3), c27tick(6), c27ce(nil), c27get(0, 1), c27cg()})
	// renewal between scan and remove: the re-check keeps the entry (local.go:230)
	c27emit(ctx, "seed-renew-between-scan-and-remove", 10, []c27op{c27ann(0, a), c27ann(0, b), c27tick(11),
		c27ce(map[int]*c27mid{0: {0, a2, 0}}), c27get(0, 5)})
	c27emit(ctx, "seed-renew-then-clock-moves", 10, []c27op{c27ann(0, a), c27ann(0, b), c27tick(11),
		c27ce(map[int]*c27mid{0: {2, a2, 7}}), c27get(0, 5)})
	// witness of C27_strict_boundary_refuted: renewed at 11 (expires 21), removal region runs at exactly 21
	c27emit(ctx, "seed-boundary-now-eq-expiry", 10, []c27op{c27ann(0, a), c27tick(11),
		c27ce(map[int]*c27mid{0: {0, a2, 10}}), c27get(0, 5)})
	c27emit(ctx, "seed-boundary-one-before-expiry", 10, []c27op{c27ann(0, a), c27tick(11),
		c27ce(map[int]*c27mid{0: {0, a2, 9}}), c27get(0, 5)})
	// a new peer appended between scan and remove (indexes of the scan stay valid)
	c27emit(ctx, "seed-append-between-scan-and-remove", 10, []c27op{c27ann(0, a), c27ann(0, b), c27ann(0, c), c27tick(11),
		c27ce(map[int]*c27mid{0: {0, d, 0}}), c27get(0, 5)})
	// expiry boundary: now == expiresAt is kept by the scan, now == expiresAt+1 is removed
	c27emit(ctx, "seed-expiry-edge", 10, []c27op{c27ann(0, a), c27tick(10), c27ce(nil), c27get(0, 5), c27cg(), c27get(0, 5), c27tick(1), c27ce(nil), c27get(0, 5), c27cg(), c27ann(0, b), c27get(0, 5)})
	// swap-remove patterns: expired at the front, the back, interleaved
	for _, pat := range [][]bool{{true, true, false, false}, {false, false, true, true}, {true, false, true, false}, {false, true, false, true}, {true, false, false, true}, {true, true, true, true}, {false, true, true, false}} {
		ps := []c27peer{a, b, c, d}
		// announce all in list order, then renew the ones that are to stay
		ops := []c27op{c27ann(0, a), c27ann(0, b), c27ann(0, c), c27ann(0, d), c27tick(6)}
		for j, old := range pat {
			if !old {
				ops = append(ops, c27ann(0, ps[j]))
			}
		}
		ops = append(ops, c27tick(5), c27ce(nil), c27get(0, 4), c27tick(6), c27ce(nil), c27cg())
		c27emit(ctx, "seed-swap-remove", 10, ops)
	}
	// group deleted and re-created; lastExpiresAt follows the newest entry
	c27emit(ctx, "seed-group-recreate", 5, []c27op{c27ann(1, a), c27tick(3), c27ann(1, b), c27tick(3), c27cg(), c27get(1, 5), c27ce(nil), c27tick(3), c27cg(), c27ann(1, c), c27get(1, 5)})
	c27emit(ctx, "seed-group-kept-by-last", 5, []c27op{c27ann(1, a), c27tick(5), c27ann(1, b), c27tick(1), c27cg(), c27get(1, 5), c27ce(nil), c27get(1, 5)})
	// n boundaries
	c27emit(ctx, "seed-n-bounds", 10, []c27op{c27ann(0, a), c27ann(0, b), c27ann(0, c), c27get(0, -1), c27get(0, 0), c27get(0, 1), c27get(0, 2), c27get(0, 3), c27get(0, 4), c27get(1, 3)})
	// same peer on two torrents, renewed with different data
	c27emit(ctx, "seed-two-torrents", 4, []c27op{c27ann(0, a), c27ann(1, a2), c27tick(3), c27ann(0, a2), c27tick(2), c27ce(nil), c27cg(), c27tick(3), c27ce(map[int]*c27mid{0: {0, a, 1}}), c27cg()})
}

func c27random(ctx *verifhlib.Ctx, r *verifhlib.Rng, maxLen int) {
	ttl := []int{1, 2, 3, 5, 8, 12}[r.Intn(6)]
	nh := r.Range(1, 3)
	np := r.Range(1, 5)
	n := r.Range(3, maxLen)
	var ops []c27op
	rp := func() c27peer {
		id := r.Intn(np)
		return c27peer{id, r.Intn(3), 100 + id + 10*r.Intn(2), r.Chance(30)}
	}
	dts := []int{0, 1, 1, 2, ttl - 1, ttl, ttl + 1, ttl / 2, 2*ttl + 1}
	for j := 0; j < n; j++ {
		k := r.Intn(100)
		switch {
		case k < 38:
			ops = append(ops, c27ann(r.Intn(nh), rp()))
		case k < 60:
			ops = append(ops, c27tick(dts[r.Intn(len(dts))]))
		case k < 74:
			ns := []int{-1, 0, 1, 2, 3, np, np + 1, 1000}
			h := r.Intn(nh)
			if r.Chance(5) {
				h = nh // a torrent nobody announced
			}
			ops = append(ops, c27get(h, ns[r.Intn(len(ns))]))
		case k < 92:
			var mids map[int]*c27mid
			if r.Chance(55) {
				mids = map[int]*c27mid{}
				for h := 0; h < nh; h++ {
					if r.Chance(60) {
						mids[h] = &c27mid{dts[r.Intn(len(dts))], rp(), dts[r.Intn(len(dts))]}
						if r.Chance(50) {
							mids[h].dt1 = 0
						}
					}
				}
			}
			ops = append(ops, c27ce(mids))
		default:
			ops = append(ops, c27cg())
		}
	}
	c27emit(ctx, "random", ttl, ops)
}

func c27driver(ctx *verifhlib.Ctx) {
	c27seeds(ctx)
	if ctx.Tier == "thorough" {
		// every word of length <= 5 over a small alphabet (validates the model; not the proof)
		a, b := c27p(0, 0, 100, false), c27p(1, 1, 101, true)
		alpha := []c27op{c27ann(0, a), c27ann(0, b), c27tick(1), c27ce(nil), c27ce(map[int]*c27mid{0: {0, a, 2}}), c27cg()}
		var rec func(prefix []c27op, depth int)
		rec = func(prefix []c27op, depth int) {
			if len(prefix) > 0 {
				c27emit(ctx, "exhaustive", 2, append([]c27op{}, prefix...))
			}
			if depth == 0 {
				return
			}
			for _, x := range alpha {
				rec(append(prefix, x), depth-1)
			}
		}
		rec(nil, 5)
	}
	r := verifhlib.NewRng(ctx.Seed)
	maxLen := 30
	if ctx.Tier == "thorough" {
		maxLen = 60
	}
	for i := 0; i < ctx.N; i++ {
		c27random(ctx, r.Fork(), maxLen)
	}
}

// ---- supporting evidence only: concurrent stress, meant to be run with -race ----
//
//	go test -race -tags verif -overlay <overlay.json> -run TestVerifC27Race ./tracker/peerstore
//
// Announcers, readers and both cleanup passes run concurrently on a real clock with a tiny
// TTL; every GetPeers result is checked for the clauses that need no linearisation point
// (at most n, distinct ids, every peer carries data that was announced for that id), and at
// the end the double index of every group is checked for agreement.
func TestVerifC27Race(t *testing.T) {
	rounds := 30
	if v, err := strconv.Atoi(strings.TrimSpace(getenvDefault("VERIF_RACE_ROUNDS", "30"))); err == nil {
		rounds = v
	}
	for round := 0; round < rounds; round++ {
		s := NewLocalStore(LocalConfig{TTL: 200 * time.Microsecond}, clock.New())
		var stop int32
		var wg sync.WaitGroup
		var bad atomic.Value
		for w := 0; w < 4; w++ {
			wg.Add(1)
			go func(w int) {
				defer wg.Done()
				rng := rand.New(rand.NewSource(int64(round*100 + w)))
				for atomic.LoadInt32(&stop) == 0 {
					id := rng.Intn(6)
					p := c27peer{id, id % 3, 100 + id, rng.Intn(2) == 0}
					if err := s.UpdatePeer(c27hash(rng.Intn(2)), p.info()); err != nil {
						bad.Store("UpdatePeer: " + err.Error())
					}
				}
			}(w)
		}
		for w := 0; w < 3; w++ {
			wg.Add(1)
			go func(w int) {
				defer wg.Done()
				rng := rand.New(rand.NewSource(int64(round*100 + 50 + w)))
				for atomic.LoadInt32(&stop) == 0 {
					n := rng.Intn(8)
					infos, err := s.GetPeers(c27hash(rng.Intn(2)), n)
					if err != nil {
						bad.Store("GetPeers: " + err.Error())
					}
					if len(infos) > n {
						bad.Store(fmt.Sprintf("GetPeers returned %d > n=%d", len(infos), n))
					}
					seen := map[core.PeerID]bool{}
					for _, pi := range infos {
						if seen[pi.PeerID] {
							bad.Store("duplicate peer id in one result")
						}
						seen[pi.PeerID] = true
						u := c27unpeer(pi)
						if u.id >= 6 || u.ip != u.id%3 || u.port != 100+u.id {
							bad.Store(fmt.Sprintf("peer data never announced: %+v", u))
						}
					}
				}
			}(w)
		}
		for w := 0; w < 2; w++ {
			wg.Add(1)
			go func(w int) {
				defer wg.Done()
				for atomic.LoadInt32(&stop) == 0 {
					if w == 0 {
						s.cleanupExpiredPeerEntries()
					} else {
						s.cleanupExpiredPeerGroups()
					}
					time.Sleep(50 * time.Microsecond)
				}
			}(w)
		}
		time.Sleep(30 * time.Millisecond)
		atomic.StoreInt32(&stop, 1)
		wg.Wait()
		// quiescent: the double index must agree in every live group
		s.mu.RLock()
		for _, g := range s.peerGroups {
			g.mu.RLock()
			if len(g.peerList) != len(g.peerMap) {
				bad.Store(fmt.Sprintf("peerList has %d entries, peerMap %d", len(g.peerList), len(g.peerMap)))
			}
			for _, e := range g.peerList {
				if g.peerMap[e.id] != e {
					bad.Store("peerList entry not indexed by peerMap under its id")
				}
			}
			if g.deleted {
				bad.Store("deleted group still in peerGroups")
			}
			g.mu.RUnlock()
		}
		s.mu.RUnlock()
		// a peer announced now is returned now, whatever the cleanup passes did before
		p := c27peer{7, 1, 107, true}
		s2 := NewLocalStore(LocalConfig{TTL: time.Hour}, clock.New())
		_ = s2.UpdatePeer(c27hash(0), p.info())
		if got, _ := s2.GetPeers(c27hash(0), 10); len(got) != 1 || c27unpeer(got[0]) != p {
			bad.Store("fresh announcement not returned")
		}
		s2.Close()
		s.Close()
		if v := bad.Load(); v != nil {
			t.Fatalf("round %d: %v", round, v)
		}
	}
}

func getenvDefault(k, d string) string {
	if v, ok := os.LookupEnv(k); ok {
		return v
	}
	return d
}
