//go:build verif

package blobserver

// C31 driver: the real blobserver.Server + store.CAStore (mock clock) + the real
// persistedretry.Manager on the real SQLite writeback.Store + the real writeback.Executor,
// with scripted per-namespace backends.  Every interface the server / executor / manager call
// through (persistedretry.Manager, persistedretry.Store, persistedretry.Executor,
// writeback.FileStore, backend.Client, hashring.Ring) is wrapped by a gate that parks the calling
// thread; a sequential controller releases one thread at a time, so a case is a deterministic
// interleaving at the model's granularity (coq/Model/C31.v).  Restarts kill every thread of the
// process generation and re-open everything on the same directories.

import (
	"bytes"
	"database/sql"
	"encoding/json"
	"fmt"
	"io"
	"net/http"
	"net/http/httptest"
	"os"
	"path/filepath"
	"runtime"
	"sort"
	"strconv"
	"strings"
	"sync"
	"syscall"
	"testing"
	"time"

	"github.com/andres-erbsen/clock"
	"github.com/jmoiron/sqlx"
	"github.com/uber-go/tally"

	"github.com/uber/kraken/core"
	"github.com/uber/kraken/lib/backend"
	"github.com/uber/kraken/lib/backend/backenderrors"
	"github.com/uber/kraken/lib/blobrefresh"
	"github.com/uber/kraken/lib/metainfogen"
	"github.com/uber/kraken/lib/persistedretry"
	"github.com/uber/kraken/lib/persistedretry/writeback"
	"github.com/uber/kraken/lib/store"
	"github.com/uber/kraken/lib/store/base"
	"github.com/uber/kraken/lib/store/metadata"
	"github.com/uber/kraken/localdb"
	"github.com/uber/kraken/utils/httputil"
	"github.com/uber/kraken/utils/stringset"
	hl "github.com/uber/kraken/utils/verifhlib"
)

func TestVerifC31(t *testing.T) { hl.MainEnv("C31", c31Driver) }

const c31Addr = "c31-origin:80"
const c31Wait = 20 * time.Second

// ---------------------------------------------------------------- goroutine identity

func c31Goid() int64 {
	var buf [64]byte
	n := runtime.Stack(buf[:], false)
	f := strings.Fields(string(buf[:n]))
	id, _ := strconv.ParseInt(f[1], 10, 64)
	return id
}

// ---------------------------------------------------------------- threads and gates

type c31Rel struct {
	up bool
}

type c31Thr struct {
	id     int
	kind   string // "up" | "ex" | "fc"
	ns, d  int
	toCtl  chan string // park point, or "done"
	rel    chan c31Rel
	point  string
	done   bool
	req    string // upload thread: request in flight ("start" | "patch" | "commit")
	status int    // upload thread: final HTTP status; fc: 1 deleted, 0 kept, -1 error
	fin    string // ex thread: "removed" | "failed"
	dead   bool
}

type c31Pending struct {
	start chan *c31Thr
}

type c31Gen struct {
	w       *c31World
	die     chan struct{}
	cas     *store.CAStore
	casStop func()
	db      *sqlx.DB
	mgr     persistedretry.Manager
	srv     *Server
	handler http.Handler
}

type c31World struct {
	dir     string
	lru     bool
	clk     *clock.Mock
	blobs   []*core.BlobFixture
	backMu  sync.Mutex
	back    map[string]bool // "ns/name"
	gen     *c31Gen
	mu      sync.Mutex
	byGoid  map[int64]*c31Thr
	pending map[string]*c31Pending // "ns/name" -> worker parked at the executor's entry
	incon   string
	fill    int
}

func (w *c31World) lookup() *c31Thr {
	id := c31Goid()
	w.mu.Lock()
	defer w.mu.Unlock()
	return w.byGoid[id]
}

func (w *c31World) register(th *c31Thr) {
	id := c31Goid()
	w.mu.Lock()
	w.byGoid[id] = th
	w.mu.Unlock()
}

func (w *c31World) unregister() {
	id := c31Goid()
	w.mu.Lock()
	delete(w.byGoid, id)
	w.mu.Unlock()
}

// park blocks a registered thread at a gate until the controller releases it.
func (g *c31Gen) park(point string) c31Rel {
	th := g.w.lookup()
	if th == nil {
		return c31Rel{up: true}
	}
	select {
	case th.toCtl <- point:
	case <-g.die:
		runtime.Goexit()
	}
	select {
	case m := <-th.rel:
		return m
	case <-g.die:
		runtime.Goexit()
	}
	return c31Rel{}
}

// ---- persistedretry.Manager seen by the server
type c31Manager struct {
	g    *c31Gen
	real persistedretry.Manager
}

func (m *c31Manager) Add(t persistedretry.Task) error {
	if r := m.g.park("add"); !r.up {
		// oracle "Add fails": the task table does not answer (database locked, manager closing)
		return fmt.Errorf("store: database is locked")
	}
	err := m.real.Add(t)
	m.g.park("added")
	return err
}
func (m *c31Manager) Find(q interface{}) ([]persistedretry.Task, error) {
	m.g.park("find")
	r, err := m.real.Find(q)
	if err == nil && len(r) == 0 {
		m.g.park("found0")
	}
	return r, err
}
func (m *c31Manager) SyncExec(t persistedretry.Task) error {
	err := m.real.SyncExec(t)
	if err == nil {
		m.g.park("syncret")
	}
	return err
}
func (m *c31Manager) Close() { m.real.Close() }

// ---- persistedretry.Store seen by the manager
type c31Store struct {
	g *c31Gen
	persistedretry.Store
}

func (s *c31Store) finish(kind string, f func() error) error {
	th := s.g.w.lookup()
	if th == nil || th.kind != "ex" {
		return f()
	}
	s.g.park("fin")
	err := f()
	th.fin = kind
	s.g.w.unregister()
	select {
	case th.toCtl <- "done":
	case <-s.g.die:
		runtime.Goexit()
	}
	return err
}
func (s *c31Store) Remove(t persistedretry.Task) error {
	return s.finish("removed", func() error { return s.Store.Remove(t) })
}
func (s *c31Store) MarkFailed(t persistedretry.Task) error {
	return s.finish("failed", func() error { return s.Store.MarkFailed(t) })
}

// ---- persistedretry.Executor seen by the manager
type c31Executor struct {
	g    *c31Gen
	real *writeback.Executor
}

func (e *c31Executor) Name() string { return e.real.Name() }
func (e *c31Executor) Exec(t persistedretry.Task) error {
	w := e.g.w
	if th := w.lookup(); th != nil {
		return e.real.Exec(t) // SyncExec inside a forced-cleanup thread
	}
	wt := t.(*writeback.Task)
	pe := &c31Pending{start: make(chan *c31Thr, 1)}
	key := wt.Namespace + "/" + wt.Name
	w.mu.Lock()
	w.pending[key] = pe
	w.mu.Unlock()
	var th *c31Thr
	select {
	case th = <-pe.start:
	case <-e.g.die:
		runtime.Goexit()
	}
	w.register(th)
	return e.real.Exec(t)
}

// ---- writeback.FileStore seen by the executor
type c31FS struct {
	g *c31Gen
}

func (f *c31FS) GetCacheFileReader(name string) (store.FileReader, error) {
	f.g.park("read")
	return f.g.cas.GetCacheFileReader(name)
}
func (f *c31FS) DeleteCacheFileMetadata(name string, md metadata.Metadata) error {
	f.g.park("clr")
	return f.g.cas.DeleteCacheFileMetadata(name, md)
}

// ---- backend.Client (one per namespace; contents survive restarts)
type c31Backend struct {
	w *c31World
	g *c31Gen
}

func (b *c31Backend) Stat(namespace, name string) (*core.BlobInfo, error) {
	m := b.g.park("stat")
	if !m.up {
		return nil, fmt.Errorf("backend unavailable")
	}
	b.w.backMu.Lock()
	defer b.w.backMu.Unlock()
	if b.w.back[namespace+"/"+name] {
		return core.NewBlobInfo(32), nil
	}
	return nil, backenderrors.ErrBlobNotFound
}
func (b *c31Backend) Upload(namespace, name string, src io.Reader) error {
	m := b.g.park("upl")
	if !m.up {
		return fmt.Errorf("backend unavailable")
	}
	data, err := io.ReadAll(src)
	if err != nil {
		return err
	}
	d, err := core.NewDigester().FromBytes(data)
	if err != nil || d.Hex() != name {
		return fmt.Errorf("backend received wrong content for %s", name)
	}
	b.w.backMu.Lock()
	b.w.back[namespace+"/"+name] = true
	b.w.backMu.Unlock()
	return nil
}
func (b *c31Backend) Download(namespace, name string, dst io.Writer) error {
	return backenderrors.ErrBlobNotFound
}
func (b *c31Backend) List(prefix string, opts ...backend.ListOption) (*backend.ListResult, error) {
	return &backend.ListResult{}, nil
}
func (b *c31Backend) Close() error { return nil }

// ---- hashring.Ring seen by the server: this origin owns everything, no replicas
type c31Ring struct {
	g *c31Gen
}

func (r *c31Ring) Locations(d core.Digest) []string {
	r.g.park("ring")
	return []string{c31Addr}
}
func (r *c31Ring) Contains(addr string) bool        { return addr == c31Addr }
func (r *c31Ring) WaitForContains(addr string) error { return nil }
func (r *c31Ring) Members() stringset.Set            { return stringset.New(c31Addr) }
func (r *c31Ring) Monitor(stop <-chan struct{})      {}
func (r *c31Ring) Refresh()                          {}

// ---------------------------------------------------------------- process generations

func c31NsName(ns int) string { return fmt.Sprintf("ns%d", ns) }

var c31OpenMu sync.Mutex

func (w *c31World) open() error {
	c31OpenMu.Lock()
	defer c31OpenMu.Unlock()
	g := &c31Gen{w: w, die: make(chan struct{})}
	cfg := store.CAStoreConfig{
		UploadDir:     filepath.Join(w.dir, "upload"),
		CacheDir:      filepath.Join(w.dir, "cache"),
		UploadCleanup: store.CleanupConfig{Disabled: true},
		CacheCleanup:  store.CleanupConfig{Disabled: true},
	}
	if w.lru {
		cfg.Capacity = 1
	}
	g.cas, g.casStop = store.CAStoreFixtureWithClock(cfg, w.clk)
	db, err := localdb.New(localdb.Config{Source: filepath.Join(w.dir, "tasks.db")})
	if err != nil {
		return err
	}
	g.db = db
	bm := backend.ManagerFixture()
	for ns := 0; ns < 2; ns++ {
		if err := bm.Register(c31NsName(ns), &c31Backend{w, g}, false); err != nil {
			return err
		}
	}
	ex := &c31Executor{g, writeback.NewExecutor(tally.NoopScope, &c31FS{g}, bm)}
	mgr, err := persistedretry.NewManager(persistedretry.Config{
		IncomingBuffer: 16, RetryBuffer: 16, NumIncomingWorkers: 6, NumRetryWorkers: 6,
		MaxTaskThroughput: time.Nanosecond, RetryInterval: time.Nanosecond,
		PollRetriesInterval: 10000 * time.Hour,
		SyncRetryBackoff: httputil.ExponentialBackOffConfig{
			Enabled: true, InitialInterval: time.Millisecond, RandomizationFactor: 0.01,
			Multiplier: 1.01, MaxInterval: 2 * time.Millisecond, MaxRetries: 1},
	}, tally.NoopScope, &c31Store{g, writeback.NewStore(db)}, ex)
	if err != nil {
		return err
	}
	g.mgr = mgr
	mg := metainfogen.Fixture(g.cas, 4)
	br := blobrefresh.New(blobrefresh.Config{}, tally.NoopScope, g.cas, bm, mg)
	srv, err := New(Config{}, tally.NoopScope, w.clk, c31Addr, &c31Ring{g}, g.cas, nil, nil,
		core.PeerContextFixture(), bm, br, mg, &c31Manager{g, mgr})
	if err != nil {
		return err
	}
	g.srv = srv
	g.handler = srv.Handler()
	w.gen = g
	w.mu.Lock()
	w.byGoid = map[int64]*c31Thr{}
	w.pending = map[string]*c31Pending{}
	w.mu.Unlock()
	return nil
}

// crash: every thread of the generation stops where it is parked; nothing more touches the
// disk or the database; volatile state is dropped.
func (w *c31World) crash() {
	g := w.gen
	close(g.die)
	g.mgr.Close()
	g.db.Close()
	g.casStop()
	w.gen = nil
}

// ---------------------------------------------------------------- observation (bypasses the store)

func (w *c31World) dataPath(name string) string {
	rel := base.NewCASFileEntryFactory().GetRelativePath(name)
	return filepath.Join(w.dir, "cache", rel)
}

func (w *c31World) filePresent(d int) bool {
	_, err := os.Stat(w.dataPath(w.blobs[d].Digest.Hex()))
	return err == nil
}
func (w *c31World) filePersist(d int) bool {
	p := filepath.Join(filepath.Dir(w.dataPath(w.blobs[d].Digest.Hex())), "_persist")
	b, err := os.ReadFile(p)
	return err == nil && string(b) == "true"
}

func (w *c31World) dIndex(name string) int {
	for i, b := range w.blobs {
		if b.Digest.Hex() == name {
			return i
		}
	}
	return 99
}

func (w *c31World) taskRows() [][2]int {
	var out [][2]int
	rows, err := w.gen.db.Query("SELECT namespace, name FROM writeback_task")
	if err != nil {
		w.incon = "query: " + err.Error()
		return nil
	}
	defer rows.Close()
	for rows.Next() {
		var ns, name string
		if err := rows.Scan(&ns, &name); err != nil {
			w.incon = "scan: " + err.Error()
			return nil
		}
		n, _ := strconv.Atoi(strings.TrimPrefix(ns, "ns"))
		out = append(out, [2]int{n, w.dIndex(name)})
	}
	sort.Slice(out, func(i, j int) bool { return out[i][0]*100+out[i][1] < out[j][0]*100+out[j][1] })
	return out
}

func (w *c31World) backKeys() [][2]int {
	var out [][2]int
	w.backMu.Lock()
	for k := range w.back {
		p := strings.SplitN(k, "/", 2)
		n, _ := strconv.Atoi(strings.TrimPrefix(p[0], "ns"))
		out = append(out, [2]int{n, w.dIndex(p[1])})
	}
	w.backMu.Unlock()
	sort.Slice(out, func(i, j int) bool { return out[i][0]*100+out[i][1] < out[j][0]*100+out[j][1] })
	return out
}

func c31Keys(ks [][2]int) string {
	s := make([]string, len(ks))
	for i, k := range ks {
		s[i] = hl.Pair(hl.N(k[0]), hl.N(k[1]))
	}
	return hl.List(s)
}

func c31HasKey(ks [][2]int, ns, d int) bool {
	for _, k := range ks {
		if k[0] == ns && k[1] == d {
			return true
		}
	}
	return false
}

// ---------------------------------------------------------------- the controller (one case)

type c31Case struct {
	w       *c31World
	ops     []string // Coq ops
	obs     []string // Coq results (implementation)
	hist    []string
	threads map[int]*c31Thr
	nextID  int
	acks    [][2]int
	tags    map[string]bool
	// bookkeeping for the finding signatures
	claimCleared map[int]map[int]bool // d -> namespaces whose claim on d lost the persist flag to another namespace's execution
	fcWindow     map[int]bool         // fc thread id -> an Add for its digest was inserted inside [Find, Delete)
	nAck, nDel, nUpl, nRestart, nFault int
	sample  []string
	halt    bool
}

func (c *c31Case) emit(op, res, h string) {
	c.ops = append(c.ops, op)
	c.obs = append(c.obs, res)
	c.hist = append(c.hist, h)
	if len(c.sample) < 120 {
		c.sample = append(c.sample, op+" => "+res)
	}
}

func (c *c31Case) observe() {
	w := c.w
	var fs []string
	for d := range w.blobs {
		if w.filePresent(d) {
			fs = append(fs, hl.Pair(hl.N(d), hl.B(w.filePersist(d))))
		}
	}
	c.emit("OObs", "RObs "+hl.List(fs)+" "+c31Keys(w.taskRows())+" "+c31Keys(w.backKeys()), "obs")
}

// wait for thread th to park again or finish
func (c *c31Case) await(th *c31Thr) bool {
	select {
	case p := <-th.toCtl:
		if p == "done" {
			th.done = true
			th.point = ""
		} else {
			th.point = p
		}
		return true
	case <-time.After(c31Wait):
		c.w.incon = fmt.Sprintf("thread %d (%s) did not reach a gate from %q", th.id, th.kind, th.point)
		return false
	}
}

func (c *c31Case) release(th *c31Thr, up bool) bool {
	select {
	case th.rel <- c31Rel{up: up}:
	case <-time.After(c31Wait):
		c.w.incon = "release timeout"
		return false
	}
	return c.await(th)
}

func (c *c31Case) newThr(kind string, ns, d int) *c31Thr {
	th := &c31Thr{id: c.nextID, kind: kind, ns: ns, d: d, toCtl: make(chan string), rel: make(chan c31Rel)}
	c.nextID++
	c.threads[th.id] = th
	return th
}

// ---- upload thread: what a client does (start, patch, commit); 409 after writeBack = acknowledged
func (c *c31Case) spawnUp(ns, d int) *c31Thr {
	th := c.newThr("up", ns, d)
	g := c.w.gen
	blob := c.w.blobs[d]
	go func() {
		g.w.register(th)
		defer g.w.unregister()
		g.park("begin")
		do := func(method, url string, body []byte, hdr map[string]string) *httptest.ResponseRecorder {
			req := httptest.NewRequest(method, url, bytes.NewReader(body))
			for k, v := range hdr {
				req.Header.Set(k, v)
			}
			rec := httptest.NewRecorder()
			g.handler.ServeHTTP(rec, req)
			return rec
		}
		basePath := fmt.Sprintf("/namespace/%s/blobs/%s/uploads", c31NsName(ns), blob.Digest.String())
		th.req = "start"
		rec := do("POST", basePath, nil, nil)
		st := rec.Code
		if st == 200 {
			uid := rec.Header().Get("Location")
			th.req = "patch"
			rec = do("PATCH", basePath+"/"+uid, blob.Content,
				map[string]string{"Content-Range": fmt.Sprintf("0-%d", len(blob.Content))})
			st = rec.Code
			if st == 200 {
				th.req = "commit"
				rec = do("PUT", basePath+"/"+uid, nil, nil)
				st = rec.Code
			}
		}
		th.status = st
		select {
		case th.toCtl <- "done":
		case <-g.die:
		}
	}()
	c.await(th)
	c.emit(fmt.Sprintf("OSpawnUp %d %d %d", th.id, ns, d), "RNext", "spawn-up")
	return th
}

func (c *c31Case) spawnFc(d int) *c31Thr {
	th := c.newThr("fc", 0, d)
	g := c.w.gen
	name := c.w.blobs[d].Digest.Hex()
	c.w.clk.Add(time.Hour)
	go func() {
		g.w.register(th)
		defer g.w.unregister()
		g.park("begin")
		deleted, err := g.srv.maybeDelete(name, 0)
		switch {
		case err != nil:
			th.status = -1
		case deleted:
			th.status = 1
		default:
			th.status = 0
		}
		select {
		case th.toCtl <- "done":
		case <-g.die:
		}
	}()
	c.await(th)
	c.emit(fmt.Sprintf("OSpawnFc %d %d", th.id, d), "RNext", "spawn-fc")
	return th
}

// a worker hands the stored row (ns,d) to the executor
func (c *c31Case) spawnEx(ns, d int) *c31Thr {
	w := c.w
	key := c31NsName(ns) + "/" + w.blobs[d].Digest.Hex()
	polled := false
	deadline := time.Now().Add(c31Wait)
	var status string
	if err := w.gen.db.QueryRow("SELECT status FROM writeback_task WHERE namespace=? AND name=?",
		c31NsName(ns), w.blobs[d].Digest.Hex()).Scan(&status); err == nil && status == "failed" {
		w.mu.Lock()
		have := w.pending[key] != nil
		w.mu.Unlock()
		if !have {
			persistedretry.VerifC31PollRetries(w.gen.mgr)
			polled = true
		}
	}
	var pe *c31Pending
	for {
		w.mu.Lock()
		pe = w.pending[key]
		if pe != nil {
			delete(w.pending, key)
		}
		w.mu.Unlock()
		if pe != nil {
			break
		}
		if !polled && time.Now().After(deadline.Add(-c31Wait+150*time.Millisecond)) {
			persistedretry.VerifC31PollRetries(w.gen.mgr)
			polled = true
		}
		if time.Now().After(deadline) {
			w.incon = "no worker offered task " + key
			return nil
		}
		time.Sleep(2 * time.Millisecond)
	}
	th := c.newThr("ex", ns, d)
	pe.start <- th
	c.await(th)
	c.emit(fmt.Sprintf("OSpawnEx %d %d %d", th.id, ns, d), "RNext", "spawn-ex")
	return th
}

func (c *c31Case) stepOp(th *c31Thr, up bool, res, h string) {
	c.emit(fmt.Sprintf("OStep %d %s", th.id, hl.B(up)), res, h)
}

// bookkeeping when an execution clears the persist flag of d on behalf of namespace ns
func (c *c31Case) noteClear(ns, d int, wasPersisted bool) {
	if !wasPersisted {
		return
	}
	rows := c.w.taskRows()
	back := c.backKeys()
	for o := 0; o < 2; o++ {
		if o == ns || c31HasKey(back, o, d) {
			continue
		}
		claim := c31HasKey(rows, o, d)
		for _, t := range c.threads {
			if t.kind == "up" && !t.done && !t.dead && t.ns == o && t.d == d && (t.point == "add" || t.point == "added" || t.point == "ring") {
				claim = true
			}
		}
		if claim {
			if c.claimCleared[d] == nil {
				c.claimCleared[d] = map[int]bool{}
			}
			c.claimCleared[d][o] = true
		}
	}
}
func (c *c31Case) backKeys() [][2]int { return c.w.backKeys() }

// bookkeeping when d was really deleted
func (c *c31Case) noteDeleted(d int, byFc *c31Thr) {
	c.nDel++
	rows := c.w.taskRows()
	back := c.backKeys()
	for ns := range c.claimCleared[d] {
		live := c31HasKey(rows, ns, d)
		for _, t := range c.threads {
			if t.kind == "up" && !t.done && !t.dead && t.ns == ns && t.d == d {
				live = true
			}
		}
		if live && !c31HasKey(back, ns, d) {
			c.tags["persist-flag-shared"] = true
		}
	}
	delete(c.claimCleared, d)
	if byFc != nil && c.fcWindow[byFc.id] {
		c.tags["forced-cleanup-add-race"] = true
	}
}

// advance thread th by one gate-to-gate segment; emits the model steps that segment consists of
func (c *c31Case) advance(th *c31Thr, up bool) {
	if th.done || th.dead || c.w.incon != "" || c.halt {
		return
	}
	w := c.w
	from := th.point
	presentBefore := w.filePresent(th.d)
	persistBefore := w.filePersist(th.d)
	rowsBefore := w.taskRows()
	if !c.release(th, up) {
		return
	}
	to := th.point
	if th.done {
		to = "done"
	}
	// a gate sequence the model has no step for is a deviation of the code, not an inconclusive run:
	// report it as a result the model never gives for an enabled step and stop the case
	bad := func() {
		c.stepOp(th, up, "RIllegal", fmt.Sprintf("unexpected-gate-%s-after-%s", to, from))
		c.halt = true
	}
	// executor segments, shared by worker threads and SyncExec inside forced cleanup
	execSeg := func() bool {
		switch from {
		case "stat":
			switch to {
			case "clr":
				c.stepOp(th, up, "RFound", "ex-stat-found")
			case "read":
				c.stepOp(th, up, "RNext", "ex-stat")
			default:
				bad()
			}
		case "read":
			switch to {
			case "upl":
				c.stepOp(th, up, "RNext", "ex-look")
				c.stepOp(th, up, "RNext", "ex-open")
			case "clr":
				c.stepOp(th, up, "RMissing", "ex-missing")
				c.nFault++
			default:
				bad()
			}
		case "upl":
			if up && (to == "clr") {
				c.stepOp(th, up, "RNext", "ex-upload")
				c.nUpl++
			} else if !up && to != "clr" {
				c.stepOp(th, up, "RErr", "ex-upload-fail")
				c.nFault++
				return false // caller handles what follows a failed Exec
			} else {
				bad()
			}
		case "clr":
			c.stepOp(th, up, "RNext", "ex-clear")
			ns := th.ns
			if th.kind == "fc" {
				ns = -1 // maybeDelete executes every task of the name: not a foreign clear
			}
			if ns >= 0 {
				c.noteClear(ns, th.d, persistBefore)
			}
		default:
			return false
		}
		return true
	}
	switch th.kind {
	case "up":
		switch from {
		case "begin":
			conflict := th.req != "commit" || presentBefore
			if to == "done" && th.req == "commit" && th.status != 409 {
				conflict = false
			}
			r := "RNext"
			if conflict {
				r = "RConflict"
			}
			c.stepOp(th, up, r, "up-move")
			if to == "add" {
				c.stepOp(th, up, "RNext", "up-setpersist")
			} else if to == "done" && (th.status == 200 || th.status == 409) {
				// the request was acknowledged without ever reaching writeBack's Add
				c.stepOp(th, up, "RAck", "up-ack-without-writeback")
				c.acks = append(c.acks, [2]int{th.ns, th.d})
				c.nAck++
			} else if to == "done" {
				c.stepOp(th, up, "RErr", "up-setpersist-err")
			} else {
				bad()
			}
		case "add":
			if !up && to == "done" && th.status != 200 && th.status != 409 {
				c.stepOp(th, up, "RErr", "up-add-fails")
				c.nFault++
				return
			}
			if to != "added" || !up {
				bad()
				return
			}
			c.stepOp(th, up, "RNext", "up-add")
			if !c31HasKey(rowsBefore, th.ns, th.d) {
				for _, f := range c.threads {
					if f.kind == "fc" && !f.done && !f.dead && f.d == th.d &&
						(f.point == "found0" || f.point == "stat" || f.point == "read" || f.point == "upl" || f.point == "clr" || f.point == "syncret") {
						c.fcWindow[f.id] = true
					}
				}
			}
		case "added":
			switch {
			case to == "ring":
				c.stepOp(th, up, "RNext", "up-meta")
			case to == "done" && (th.status == 409):
				c.stepOp(th, up, "RNext", "up-meta")
				c.stepOp(th, up, "RAck", "up-ack")
				c.acks = append(c.acks, [2]int{th.ns, th.d})
				c.nAck++
			case to == "done":
				c.stepOp(th, up, "RErr", "up-meta-err")
			default:
				bad()
			}
		case "ring":
			if to == "done" && th.status == 200 {
				c.stepOp(th, up, "RAck", "up-ack")
				c.acks = append(c.acks, [2]int{th.ns, th.d})
				c.nAck++
			} else {
				bad()
			}
		default:
			bad()
		}
	case "ex":
		if from == "fin" {
			if to != "done" {
				bad()
				return
			}
			if th.fin == "removed" {
				c.stepOp(th, up, "RRemoved", "ex-remove")
			} else {
				c.stepOp(th, up, "RFailed", "ex-markfailed")
			}
			return
		}
		ok := execSeg()
		if w.incon != "" || c.halt {
			return
		}
		if (ok && from == "clr" && to != "fin") || (!ok && to != "fin") {
			bad()
		}
	case "fc":
		tail := func() { // what maybeDelete does after the last gate: delete persist, DeleteCacheFile
			switch th.status {
			case 1:
				c.stepOp(th, up, "RNext", "fc-delpersist")
				c.stepOp(th, up, "RDeleted", "fc-delete")
				c.noteDeleted(th.d, th)
			default:
				if !w.filePresent(th.d) {
					c.stepOp(th, up, "RErr", "fc-delpersist-err")
				} else {
					c.stepOp(th, up, "RNext", "fc-delpersist")
					c.stepOp(th, up, "RPersisted", "fc-delete-refused")
				}
			}
		}
		switch from {
		case "begin":
			switch to {
			case "ring":
				c.stepOp(th, up, "RNext", "fc-stat")
			case "done":
				c.stepOp(th, up, "RErr", "fc-stat-err")
			default:
				bad()
			}
		case "ring":
			switch to {
			case "find":
				c.stepOp(th, up, "RNext", "fc-getpersist")
			case "done":
				c.stepOp(th, up, "RNext", "fc-getpersist")
				switch {
				case th.status == 1:
					c.stepOp(th, up, "RDeleted", "fc-delete")
					c.noteDeleted(th.d, th)
				case w.filePresent(th.d):
					c.stepOp(th, up, "RPersisted", "fc-delete-refused")
				default:
					c.stepOp(th, up, "RNotExist", "fc-delete-gone")
				}
			default:
				bad()
			}
		case "find":
			switch to {
			case "found0", "stat":
				c.stepOp(th, up, "RNext", "fc-find")
			default:
				bad()
			}
		case "found0":
			if to != "done" {
				bad()
				return
			}
			tail()
		case "syncret":
			c.stepOp(th, up, "RNext", "fc-syncret")
			if to == "done" {
				tail()
			} else if to != "stat" {
				bad()
			}
		default:
			ok := execSeg()
			if w.incon != "" || c.halt {
				return
			}
			if ok {
				if from == "clr" && to != "syncret" {
					bad()
				}
			} else if from == "upl" {
				// failed attempt: backoff.Retry runs Exec again (gate "stat"), or gives up
				switch to {
				case "stat":
					c.stepOp(th, up, "RNext", "fc-retry")
				case "done":
					c.stepOp(th, up, "RErr", "fc-giveup")
				default:
					bad()
				}
			} else {
				bad()
			}
		}
	}
}

func (c *c31Case) runToEnd(th *c31Thr, up bool) {
	for i := 0; i < 40 && th != nil && !th.done && !th.dead && c.w.incon == ""; i++ {
		c.advance(th, up)
	}
}

// ---- deletion attempts
func (c *c31Case) del(d int, mech string) {
	w := c.w
	if w.incon != "" {
		return
	}
	name := w.blobs[d].Digest.Hex()
	pres := w.filePresent(d)
	switch mech {
	case "http":
		req := httptest.NewRequest("DELETE", "/internal/blobs/"+w.blobs[d].Digest.String(), nil)
		rec := httptest.NewRecorder()
		w.gen.handler.ServeHTTP(rec, req)
		switch rec.Code {
		case 202:
			c.emit(fmt.Sprintf("ODel %d", d), "RDeleted", "del-http")
			c.noteDeleted(d, nil)
		case 404:
			c.emit(fmt.Sprintf("ODel %d", d), "RNotExist", "del-http-404")
		default:
			if w.filePresent(d) {
				c.emit(fmt.Sprintf("ODel %d", d), "RPersisted", "del-http-refused")
			} else {
				c.emit(fmt.Sprintf("ODel %d", d), "RErr", "del-http-err")
			}
		}
		return
	case "lru":
		if pres {
			if _, err := w.gen.cas.GetCacheFileStat(name); err != nil { // make d the only entry of the map
				w.incon = "lru touch: " + err.Error()
				return
			}
			w.fill++
			fb := core.SizedBlobFixture(16, 4)
			if err := w.gen.cas.CreateCacheFile(fb.Digest.Hex(), bytes.NewReader(fb.Content)); err != nil {
				w.incon = "lru filler: " + err.Error()
				return
			}
		}
	default: // periodic cleanup pass: every digest is idle for longer than the TTI
		w.clk.Add(2 * time.Hour)
		others := []int{}
		for o := range w.blobs {
			if o != d && w.filePresent(o) {
				others = append(others, o)
			}
		}
		if err := store.VerifC31CleanupCache(w.gen.cas, store.CleanupConfig{TTI: time.Hour}); err != nil {
			w.incon = "cleanup: " + err.Error()
			return
		}
		defer func() {
			for _, o := range others {
				c.delResult(o, true, "del-cleanup")
			}
		}()
	}
	c.delResult(d, pres, "del-"+mech)
}

func (c *c31Case) delResult(d int, pres bool, h string) {
	switch {
	case !pres:
		c.emit(fmt.Sprintf("ODel %d", d), "RNotExist", h+"-absent")
	case c.w.filePresent(d):
		c.emit(fmt.Sprintf("ODel %d", d), "RPersisted", h+"-refused")
	default:
		c.emit(fmt.Sprintf("ODel %d", d), "RDeleted", h)
		c.noteDeleted(d, nil)
	}
}

// stale look-up: a deletion attempt on the persisted d between the executor's map look-up and its
// entry lock.  The persist sidecar is replaced by a FIFO so that the deleter blocks inside
// localFileEntry.Delete (holding the entry lock) until the reader has looked the entry up.
func (c *c31Case) staleRead(th *c31Thr) {
	w := c.w
	if th == nil || th.done || th.point != "read" || !w.filePersist(th.d) || w.incon != "" {
		c.advance(th, true)
		return
	}
	name := w.blobs[th.d].Digest.Hex()
	p := filepath.Join(filepath.Dir(w.dataPath(name)), "_persist")
	os.Remove(p)
	if err := syscall.Mkfifo(p, 0644); err != nil {
		w.incon = "mkfifo: " + err.Error()
		return
	}
	delDone := make(chan error, 1)
	go func() { delDone <- w.gen.cas.DeleteCacheFile(name) }()
	var fifo *os.File
	for i := 0; i < 5000; i++ { // the open succeeds only once the deleter is reading the FIFO
		f, err := os.OpenFile(p, os.O_WRONLY|syscall.O_NONBLOCK, 0)
		if err == nil {
			fifo = f
			break
		}
		time.Sleep(time.Millisecond)
	}
	if fifo == nil {
		w.incon = "deleter never opened the persist sidecar"
		return
	}
	th.rel <- c31Rel{up: true}
	time.Sleep(60 * time.Millisecond) // the reader is now waiting for the entry lock (not observable)
	fifo.Write([]byte("true"))
	fifo.Close()
	err := <-delDone
	os.Remove(p)
	os.WriteFile(p, []byte("true"), 0775)
	if !c.await(th) {
		return
	}
	if err != base.ErrFilePersisted || th.point != "clr" {
		w.incon = "stale look-up did not materialise"
		return
	}
	c.stepOp(th, true, "RNext", "ex-look")
	c.emit(fmt.Sprintf("ODel %d", th.d), "RPersisted", "del-during-lookup")
	c.stepOp(th, true, "RMissing", "ex-open-stale")
	c.tags["stale-entry-lookup"] = true
	c.nFault++
}

// an upload whose process dies right after the move to cache (before the persist flag is set)
func (c *c31Case) upCrash(ns, d int) {
	w := c.w
	g := w.gen
	blob := w.blobs[d]
	id := c.nextID
	c.nextID++
	c.threads[id] = &c31Thr{id: id, kind: "up", ns: ns, d: d, done: true}
	c.emit(fmt.Sprintf("OSpawnUp %d %d %d", id, ns, d), "RNext", "spawn-up")
	if w.filePresent(d) {
		c.emit(fmt.Sprintf("OStep %d true", id), "RConflict", "up-move")
	} else {
		uid, err := g.srv.uploader.start(blob.Digest)
		if err == nil {
			err = g.srv.uploader.patch(blob.Digest, uid, bytes.NewReader(blob.Content), 0, int64(len(blob.Content)))
		}
		if err == nil {
			err = g.srv.uploader.commit(blob.Digest, uid)
		}
		if err != nil {
			w.incon = "upcrash: " + err.Error()
			return
		}
		c.emit(fmt.Sprintf("OStep %d true", id), "RNext", "up-move")
	}
	c.restart()
}

func (c *c31Case) restart() {
	w := c.w
	if w.incon != "" {
		return
	}
	for _, t := range c.threads {
		if !t.done {
			t.dead = true
		}
	}
	w.crash()
	if err := w.open(); err != nil {
		w.incon = "reopen: " + err.Error()
		return
	}
	c.nRestart++
	c.emit("ORestart", "RNext", "restart")
}

// drain: restart, then let every stored row run with a healthy backend until the table is empty
func (c *c31Case) drain() {
	c.restart()
	for round := 0; round < 6 && c.w.incon == ""; round++ {
		rows := c.w.taskRows()
		if len(rows) == 0 {
			break
		}
		for _, r := range rows {
			if r[1] > 9 {
				continue
			}
			th := c.spawnEx(r[0], r[1])
			c.runToEnd(th, true)
		}
	}
	c.observe()
}

// ---------------------------------------------------------------- scripts

type c31Act struct {
	A  string `json:"a"`           // up | fc | ex | step | run | del | restart | stale | obs | upcrash
	T  int    `json:"t,omitempty"` // thread index in order of spawning (step/run/stale)
	Ns int    `json:"ns,omitempty"`
	D  int    `json:"d,omitempty"`
	Up *bool  `json:"up,omitempty"`
	M  string `json:"m,omitempty"`
	N  int    `json:"n,omitempty"` // step: how many segments
}

func c31Up(a c31Act) bool { return a.Up == nil || *a.Up }

func (c *c31Case) perform(a c31Act) {
	if c.w.incon != "" || c.halt {
		return
	}
	switch a.A {
	case "up":
		c.spawnUp(a.Ns, a.D)
	case "fc":
		c.spawnFc(a.D)
	case "ex":
		rows := c.w.taskRows()
		busy := false
		for _, t := range c.threads {
			if t.kind == "ex" && !t.done && !t.dead && t.ns == a.Ns && t.d == a.D {
				busy = true
			}
		}
		if !c31HasKey(rows, a.Ns, a.D) || busy {
			// not enabled: the model must say so too
			id := c.nextID
			c.nextID++
			c.emit(fmt.Sprintf("OSpawnEx %d %d %d", id, a.Ns, a.D), "RIllegal", "spawn-ex-illegal")
			c.threads[id] = &c31Thr{id: id, kind: "ex", done: true}
			return
		}
		c.spawnEx(a.Ns, a.D)
	case "step":
		n := a.N
		if n == 0 {
			n = 1
		}
		for i := 0; i < n; i++ {
			if th := c.threads[a.T]; th != nil {
				c.advance(th, c31Up(a))
			}
		}
	case "run":
		c.runToEnd(c.threads[a.T], c31Up(a))
	case "stale":
		c.staleRead(c.threads[a.T])
	case "del":
		m := a.M
		if m == "" {
			m = "cleanup"
		}
		if m == "lru" && !c.w.lru {
			m = "cleanup"
		}
		c.del(a.D, m)
	case "restart":
		c.restart()
	case "upcrash":
		c.upCrash(a.Ns, a.D)
	case "obs":
	}
	c.observe()
}

func c31RunCaseTo(cc *c31Collector, tmp string, idx int, kind string, lru bool, acts []c31Act, gen func(c *c31Case)) {
	dir := filepath.Join(tmp, fmt.Sprintf("case%d", idx))
	os.MkdirAll(dir, 0775)
	defer os.RemoveAll(dir)
	w := &c31World{dir: dir, lru: lru, clk: clock.NewMock(), back: map[string]bool{}}
	w.clk.Set(time.Now())
	for i := 0; i < 2; i++ {
		w.blobs = append(w.blobs, core.SizedBlobFixture(32, 4))
	}
	c := &c31Case{w: w, threads: map[int]*c31Thr{}, tags: map[string]bool{},
		claimCleared: map[int]map[int]bool{}, fcWindow: map[int]bool{}}
	if err := w.open(); err != nil {
		w.incon = "open: " + err.Error()
	}
	if w.incon == "" {
		for _, a := range acts {
			c.perform(a)
		}
		if gen != nil {
			gen(c)
		}
		if w.incon == "" && !c.halt {
			c.drain()
		}
	}
	if w.gen != nil {
		w.crash()
	}
	var tags []string
	for t := range c.tags {
		tags = append(tags, t)
	}
	sort.Strings(tags)
	coq := "mkcase false " + hl.List(c.ops) + " " + hl.List(c.obs)
	cc.c = &hl.Case{
		Coq:  coq,
		NT:   c.nAck >= 1 && c.nUpl >= 1 && (c.nDel+c.nRestart+c.nFault) >= 2,
		Kind: kind, Hist: c.hist, Tags: tags, Incon: w.incon != "",
		Sample: map[string]interface{}{"lru": lru, "trace": c.sample, "inconclusive": w.incon},
	}
}

// ---------------------------------------------------------------- generators

var c31False = false

func c31Seeds() []struct {
	kind string
	lru  bool
	acts []c31Act
} {
	f := &c31False
	return []struct {
		kind string
		lru  bool
		acts []c31Act
	}{
		// the refutation witness of C31_multi_namespace_refuted
		{"seed-multi-namespace", false, []c31Act{
			{A: "up", Ns: 0, D: 0}, {A: "run", T: 0}, {A: "up", Ns: 1, D: 0}, {A: "run", T: 1},
			{A: "ex", Ns: 0, D: 0}, {A: "run", T: 2}, {A: "del", D: 0}, {A: "ex", Ns: 1, D: 0}, {A: "run", T: 3}}},
		// same, the second namespace's commit still in flight (persist set, row not yet added)
		{"seed-multi-namespace-inflight", false, []c31Act{
			{A: "up", Ns: 0, D: 0}, {A: "run", T: 0}, {A: "up", Ns: 1, D: 0}, {A: "step", T: 1},
			{A: "ex", Ns: 0, D: 0}, {A: "run", T: 2}, {A: "run", T: 1}, {A: "del", D: 0, M: "http"},
			{A: "ex", Ns: 1, D: 0}, {A: "run", T: 3}}},
		// forced cleanup after the first namespace's execution
		{"seed-multi-namespace-forced", false, []c31Act{
			{A: "up", Ns: 1, D: 1}, {A: "run", T: 0}, {A: "up", Ns: 0, D: 1}, {A: "run", T: 1},
			{A: "ex", Ns: 1, D: 1}, {A: "run", T: 2}, {A: "fc", D: 1}, {A: "run", T: 3}}},
		// the witness of C31_forced_cleanup_race_refuted: one namespace; crash between set-persist and
		// Add; forced cleanup finds no row; the client's retry is acknowledged; cleanup deletes
		{"seed-forced-cleanup-race", false, []c31Act{
			{A: "up", Ns: 0, D: 0}, {A: "step", T: 0}, {A: "restart"},
			{A: "fc", D: 0}, {A: "step", T: 1, N: 3}, {A: "up", Ns: 0, D: 0}, {A: "run", T: 2},
			{A: "run", T: 1}, {A: "ex", Ns: 0, D: 0}, {A: "run", T: 3}}},
		// the witness of C31_stale_lookup_refuted
		{"seed-stale-lookup", false, []c31Act{
			{A: "up", Ns: 0, D: 0}, {A: "run", T: 0}, {A: "ex", Ns: 0, D: 0}, {A: "step", T: 1},
			{A: "stale", T: 1}, {A: "run", T: 1}, {A: "del", D: 0}}},
		// benign: outage, retries, crash in the middle of an execution, every deletion path refused
		{"seed-outage-restart", false, []c31Act{
			{A: "up", Ns: 0, D: 0}, {A: "run", T: 0}, {A: "del", D: 0}, {A: "del", D: 0, M: "http"},
			{A: "ex", Ns: 0, D: 0}, {A: "run", T: 1, Up: f}, {A: "del", D: 0},
			{A: "ex", Ns: 0, D: 0}, {A: "step", T: 2, N: 2}, {A: "restart"}, {A: "del", D: 0},
			{A: "ex", Ns: 0, D: 0}, {A: "step", T: 3, N: 3}, {A: "restart"},
			{A: "ex", Ns: 0, D: 0}, {A: "run", T: 4}, {A: "del", D: 0}}},
		{"seed-lru", true, []c31Act{
			{A: "up", Ns: 0, D: 0}, {A: "run", T: 0}, {A: "del", D: 0, M: "lru"}, {A: "del", D: 0, M: "lru"},
			{A: "ex", Ns: 0, D: 0}, {A: "run", T: 1}, {A: "del", D: 0, M: "lru"}}},
		// forced cleanup executes the pending write-back itself, then deletes
		{"seed-forced-sync", false, []c31Act{
			{A: "up", Ns: 0, D: 0}, {A: "run", T: 0}, {A: "up", Ns: 1, D: 0}, {A: "run", T: 1},
			{A: "fc", D: 0}, {A: "run", T: 2}}},
		// forced cleanup with the backend down: gives up, nothing deleted
		{"seed-forced-outage", false, []c31Act{
			{A: "up", Ns: 0, D: 0}, {A: "run", T: 0}, {A: "fc", D: 0}, {A: "run", T: 1, Up: f},
			{A: "fc", D: 0}, {A: "step", T: 2, N: 6, Up: f}, {A: "run", T: 2}}},
		// crash after the move to cache, before the persist flag; the client's retry takes the conflict path
		{"seed-crash-after-move", false, []c31Act{
			{A: "upcrash", Ns: 0, D: 0}, {A: "del", D: 0, M: "http"}, {A: "upcrash", Ns: 0, D: 0},
			{A: "up", Ns: 0, D: 0}, {A: "run", T: 2}, {A: "del", D: 0}}},
		// Add fails on the conflict path of an already acknowledged blob whose row is pending: the flag
		// set by the earlier commit must survive (cleanup, forced cleanup with the backend down, DELETE)
		{"seed-add-fails-on-conflict", false, []c31Act{
			{A: "up", Ns: 0, D: 0}, {A: "run", T: 0}, {A: "ex", Ns: 0, D: 0}, {A: "run", T: 1, Up: f},
			{A: "up", Ns: 0, D: 0}, {A: "step", T: 2}, {A: "step", T: 2, Up: f},
			{A: "del", D: 0}, {A: "fc", D: 0}, {A: "run", T: 3, Up: f}, {A: "del", D: 0, M: "http"},
			{A: "ex", Ns: 0, D: 0}, {A: "run", T: 4}, {A: "del", D: 0}}},
		// Add fails on a first commit: not acknowledged, flag leaked, nothing lost
		{"seed-add-fails-first-commit", false, []c31Act{
			{A: "up", Ns: 0, D: 0}, {A: "step", T: 0}, {A: "step", T: 0, Up: f}, {A: "del", D: 0},
			{A: "up", Ns: 0, D: 0}, {A: "run", T: 1}, {A: "del", D: 0}}},
		{"seed-add-fails-on-conflict-lru", true, []c31Act{
			{A: "up", Ns: 0, D: 0}, {A: "run", T: 0}, {A: "up", Ns: 0, D: 0}, {A: "step", T: 1}, {A: "step", T: 1, Up: f},
			{A: "del", D: 0, M: "lru"}, {A: "ex", Ns: 0, D: 0}, {A: "run", T: 2}}},
		// deletion between the move and the persist flag: the commit fails, nothing acknowledged
		{"seed-two-digests", false, []c31Act{
			{A: "up", Ns: 0, D: 0}, {A: "up", Ns: 1, D: 1}, {A: "step", T: 0}, {A: "step", T: 1, N: 2},
			{A: "del", D: 0}, {A: "run", T: 0}, {A: "run", T: 1}, {A: "ex", Ns: 1, D: 1}, {A: "run", T: 2}, {A: "del", D: 1}}},
	}
}

func c31Random(rng *hl.Rng, tier string, lru bool) func(c *c31Case) {
	return func(c *c31Case) {
		steps := rng.Range(6, 22)
		if tier == "thorough" {
			steps = rng.Range(6, 40)
		}
		nd := 2
		if lru || rng.Chance(45) {
			nd = 1
		}
		nns := 2
		if rng.Chance(40) {
			nns = 1
		}
		mechs := []string{"cleanup", "http"}
		if lru {
			mechs = []string{"lru", "http", "lru"}
		}
		live := func() []*c31Thr {
			var l []*c31Thr
			for i := 0; i < c.nextID; i++ {
				if t := c.threads[i]; t != nil && !t.done && !t.dead {
					l = append(l, t)
				}
			}
			return l
		}
		for i := 0; i < steps && c.w.incon == ""; i++ {
			l := live()
			r := rng.Intn(100)
			up := rng.Chance(70)
			switch {
			case len(l) > 0 && r < 45:
				th := l[rng.Intn(len(l))]
				if th.kind == "up" && !up && rng.Chance(60) {
					up = true
				}
				if rng.Chance(50) {
					c.perform(c31Act{A: "run", T: th.id, Up: &up})
				} else {
					c.perform(c31Act{A: "step", T: th.id, Up: &up, N: rng.Range(1, 2)})
				}
			case r < 60 && len(l) < 5:
				c.perform(c31Act{A: "up", Ns: rng.Intn(nns), D: rng.Intn(nd)})
			case r < 72 && len(l) < 5:
				rows := c.w.taskRows()
				if len(rows) > 0 && rng.Chance(90) {
					k := rows[rng.Intn(len(rows))]
					c.perform(c31Act{A: "ex", Ns: k[0], D: k[1]})
				} else {
					c.perform(c31Act{A: "ex", Ns: rng.Intn(nns), D: rng.Intn(nd)})
				}
			case r < 80 && len(l) < 5:
				c.perform(c31Act{A: "fc", D: rng.Intn(nd)})
			case r < 94:
				c.perform(c31Act{A: "del", D: rng.Intn(nd), M: mechs[rng.Intn(len(mechs))]})
			default:
				c.perform(c31Act{A: "restart"})
			}
		}
	}
}

func c31Driver(ctx *hl.Ctx) {
	rng := hl.NewRng(ctx.Seed)
	type job struct {
		idx  int
		kind string
		lru  bool
		acts []c31Act
		gen  func(c *c31Case)
	}
	var jobs []job
	for _, s := range c31Seeds() {
		jobs = append(jobs, job{len(jobs), s.kind, s.lru, s.acts, nil})
	}
	if ctx.Corpus != "" {
		files, _ := filepath.Glob(filepath.Join(ctx.Corpus, "*.json"))
		sort.Strings(files)
		for _, fn := range files {
			b, err := os.ReadFile(fn)
			var acts []c31Act
			if err == nil && json.Unmarshal(b, &acts) == nil {
				jobs = append(jobs, job{len(jobs), "corpus-" + filepath.Base(fn), false, acts, nil})
			}
		}
	}
	for len(jobs) < ctx.N {
		lru := rng.Chance(15)
		kind := "random"
		if lru {
			kind = "random-lru"
		}
		jobs = append(jobs, job{len(jobs), kind, lru, nil, c31Random(rng.Fork(), ctx.Tier, lru)})
	}
	// cases are independent worlds: run them on a pool, emit in order
	results := make([]chan struct{}, len(jobs))
	sem := make(chan struct{}, 6)
	var mu sync.Mutex
	out := make([]*hl.Case, len(jobs))
	for i := range jobs {
		results[i] = make(chan struct{})
		go func(j job, done chan struct{}) {
			sem <- struct{}{}
			defer func() { <-sem; close(done) }()
			cc := &c31Collector{}
			c31RunCaseTo(cc, ctx.Tmp, j.idx, j.kind, j.lru, j.acts, j.gen)
			mu.Lock()
			out[j.idx] = cc.c
			mu.Unlock()
		}(jobs[i], results[i])
	}
	for i := range jobs {
		<-results[i]
		if out[i] != nil {
			ctx.Emit(*out[i])
		}
	}
}

type c31Collector struct{ c *hl.Case }

var _ = sql.ErrNoRows
