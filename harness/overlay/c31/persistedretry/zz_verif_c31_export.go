//go:build verif

package persistedretry

// In-package half of the C31 driver (overlaid into lib/persistedretry, never present in /repo).

// VerifC31PollRetries runs one pass of the retry poller (what tickerLoop does on every tick).
func VerifC31PollRetries(m Manager) { m.(*manager).pollRetries() }
