//go:build verif

package store

// In-package half of the C31 driver (overlaid into lib/store, never present in /repo).

// VerifC31CleanupCache runs one pass of the periodic cache cleanup job (what the ticker
// goroutine of cleanupManager.addJob does on every tick) with the given configuration.
func VerifC31CleanupCache(s *CAStore, config CleanupConfig) error {
	_, err := s.cleanup.cleanup(s.cacheStore.newFileOp(), config.applyDefaults(), cachedInAgentPolicy)
	return err
}
