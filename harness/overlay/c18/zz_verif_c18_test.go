//go:build verif

package scheduler

// In-package driver for property C18 (idle timeouts follow real activity and never delete
// completed blobs). One torrent is followed on a real scheduler (controlled event loop, mock
// clock, real agentstorage archive, real dispatcher). Pieces are uploaded and downloaded
// through the real dispatcher by fake peers; ticks and removals are real events.

import (
	"fmt"
	"strings"
	"sync"
	"testing"
	"time"

	"github.com/andres-erbsen/clock"
	"github.com/uber-go/tally"
	"github.com/willf/bitset"

	"github.com/uber/kraken/core"
	"github.com/uber/kraken/gen/go/proto/p2p"
	"github.com/uber/kraken/lib/store"
	"github.com/uber/kraken/lib/torrent/networkevent"
	"github.com/uber/kraken/lib/torrent/scheduler/announcequeue"
	"github.com/uber/kraken/lib/torrent/scheduler/conn"
	"github.com/uber/kraken/lib/torrent/storage/agentstorage"
	"github.com/uber/kraken/lib/torrent/storage/piecereader"
	"github.com/uber/kraken/tracker/announceclient"
	"github.com/uber/kraken/tracker/metainfoclient"
	"github.com/uber/kraken/utils/verifhlib"
)

func TestVerifC18(t *testing.T) { verifhlib.MainEnv("C18", c18driver) }

// ---- controlled event loop (events park in send until the driver applies them) ----

type c18pend struct {
	e    event
	done chan bool
}

type c18loop struct {
	mu      sync.Mutex
	pend    []*c18pend
	stopped bool
	st      *state
	ready   chan struct{}
	stopc   chan struct{}
}

func (l *c18loop) send(e event) bool {
	l.mu.Lock()
	if l.stopped {
		l.mu.Unlock()
		return false
	}
	p := &c18pend{e, make(chan bool, 1)}
	l.pend = append(l.pend, p)
	l.mu.Unlock()
	return <-p.done
}

func (l *c18loop) sendTimeout(e event, timeout time.Duration) error {
	if l.send(e) {
		return nil
	}
	return ErrSchedulerStopped
}

func (l *c18loop) run(s *state) { l.st = s; close(l.ready); <-l.stopc }

func (l *c18loop) stop() {
	l.mu.Lock()
	if l.stopped {
		l.mu.Unlock()
		return
	}
	l.stopped = true
	ps := l.pend
	l.pend = nil
	l.mu.Unlock()
	for _, p := range ps {
		p.done <- false
	}
	close(l.stopc)
}

func (l *c18loop) take(f func(event) bool) *c18pend {
	l.mu.Lock()
	defer l.mu.Unlock()
	for i, p := range l.pend {
		if f(p.e) {
			l.pend = append(l.pend[:i:i], l.pend[i+1:]...)
			return p
		}
	}
	return nil
}

// applyWhenParked waits for a parked event matching f and applies it.
func (l *c18loop) applyWhenParked(f func(event) bool) bool {
	var p *c18pend
	if !c18wait(func() bool { p = l.take(f); return p != nil }) {
		return false
	}
	p.done <- true
	p.e.apply(l.st)
	return true
}

func c18wait(cond func() bool) bool {
	for i := 0; i < 20000; i++ {
		if cond() {
			return true
		}
		time.Sleep(300 * time.Microsecond)
	}
	return false
}

type c18mic struct{ blob *core.BlobFixture }

func (m *c18mic) Download(namespace string, d core.Digest) (*core.MetaInfo, error) {
	if d == m.blob.Digest {
		return m.blob.MetaInfo, nil
	}
	return nil, metainfoclient.ErrNotFound
}

// c18peer is the remote side of one connection. Like conn.Conn it closes the reader of a
// piece payload it accepted (conn.go sendPiecePayload); with drop set, Send fails and the
// reader is never closed.
type c18peer struct {
	recv chan *conn.Message
	sent chan *conn.Message
	drop bool
	once sync.Once
}

func (m *c18peer) Send(msg *conn.Message) error {
	if m.drop && msg.Message.Type == p2p.Message_PIECE_PAYLOAD {
		m.sent <- msg
		return fmt.Errorf("conn closed")
	}
	if msg.Message.Type == p2p.Message_PIECE_PAYLOAD && msg.Payload != nil {
		msg.Payload.Close()
	}
	m.sent <- msg
	return nil
}
func (m *c18peer) Receiver() <-chan *conn.Message { return m.recv }
func (m *c18peer) Close()                         { m.once.Do(func() { close(m.recv) }) }

type c18op struct {
	k string // Advance Serve Write Tick Cancel
	a int
	b bool
}

type c18snap struct {
	present, complete   bool
	lastr, lastw        int64
	blob, partial       bool
}

func c18run(ctx *verifhlib.Ctx, kind string, seeding bool, sTTI, lTTI int, t0 int64, ops []c18op) {
	cads, cleanup := store.CADownloadStoreFixture()
	defer cleanup()
	blob := core.SizedBlobFixture(24, 8)
	n := blob.MetaInfo.NumPieces()
	stats := tally.NewTestScope("", nil)
	ta := agentstorage.NewTorrentArchive(stats, cads, &c18mic{blob})
	pctx := core.PeerContext{PeerID: core.PeerIDFixture(), Zone: "zone1", IP: "localhost", Port: findFreePort()}
	cfg := configFixture()
	cfg.DisablePreemption = true
	cfg.EmitStatsInterval = 1000000 * time.Hour
	cfg.SeederTTI = time.Duration(sTTI) * time.Second
	cfg.LeecherTTI = time.Duration(lTTI) * time.Second
	clk := clock.NewMock()
	clk.Set(time.Unix(t0, 0))
	loop := &c18loop{ready: make(chan struct{}), stopc: make(chan struct{})}
	s, err := newScheduler(cfg, ta, stats, pctx, announceclient.Disabled(), networkevent.NewTestProducer(),
		withClock(clk), withEventLoop(loop))
	if err != nil {
		panic(err)
	}
	if err := s.start(announcequeue.New()); err != nil {
		panic(err)
	}
	<-loop.ready
	incon := false
	piece := func(i int) []byte {
		pl := int(blob.MetaInfo.PieceLength())
		end := (i + 1) * pl
		if end > len(blob.Content) {
			end = len(blob.Content)
		}
		return blob.Content[i*pl : end]
	}
	if seeding {
		t, err := ta.CreateTorrent("ns", blob.Digest)
		if err != nil {
			panic(err)
		}
		for i := 0; i < n; i++ {
			if err := t.WritePiece(piecereader.NewBuffer(piece(i)), i); err != nil {
				panic(err)
			}
		}
	}
	// the local request that creates the torrent control at t0
	res := make(chan error, 1)
	go func() { res <- s.Download("ns", blob.Digest) }()
	isNew := func(e event) bool { _, ok := e.(newTorrentEvent); return ok }
	isDone := func(e event) bool { _, ok := e.(dispatcherCompleteEvent); return ok }
	isTick := func(e event) bool { _, ok := e.(preemptionTickEvent); return ok }
	isRemove := func(e event) bool { _, ok := e.(removeTorrentEvent); return ok }
	isShut := func(e event) bool { _, ok := e.(shutdownEvent); return ok }
	if !loop.applyWhenParked(isNew) {
		incon = true
	}
	if seeding && !incon && !loop.applyWhenParked(isDone) {
		incon = true
	}
	h := blob.MetaInfo.InfoHash()
	last := c18snap{present: true, complete: seeding, lastr: t0, lastw: t0}
	observe := func() c18snap {
		sn := last
		ctrl := loop.st.torrentControls[h]
		sn.present = ctrl != nil
		if ctrl != nil {
			sn.complete = ctrl.dispatcher.Complete()
			sn.lastr = ctrl.dispatcher.LastReadTime().Unix()
			sn.lastw = ctrl.dispatcher.LastWriteTime().Unix()
		}
		_, e1 := cads.Cache().GetFileStat(blob.Digest.Hex())
		sn.blob = e1 == nil
		_, e2 := cads.Download().GetFileStat(blob.Digest.Hex())
		sn.partial = e2 == nil
		last = sn
		return sn
	}
	newPeer := func(drop bool) *c18peer {
		ctrl := loop.st.torrentControls[h]
		if ctrl == nil {
			return nil
		}
		p := &c18peer{recv: make(chan *conn.Message, 8), sent: make(chan *conn.Message, 64), drop: drop}
		if err := ctrl.dispatcher.AddPeer(core.PeerIDFixture(), false, bitset.New(uint(n)), p); err != nil {
			panic(err)
		}
		return p
	}
	// barrier: a malformed request is answered by an error message once everything before it
	// on this connection has been handled (the dispatcher feeds one connection sequentially)
	barrier := func(p *c18peer) bool {
		p.recv <- &conn.Message{Message: &p2p.Message{Type: p2p.Message_PIECE_REQUEST,
			PieceRequest: &p2p.PieceRequestMessage{Index: 0, Offset: 1, Length: 1}}}
		ok := false
		deadline := time.After(10 * time.Second)
		for !ok {
			select {
			case m := <-p.sent:
				if m.Message.Type == p2p.Message_ERROR && m.Message.Error != nil && m.Message.Error.Index == 0 &&
					m.Message.Error.Code == p2p.ErrorMessage_PIECE_REQUEST_FAILED && strings.Contains(m.Message.Error.Error, "chunk") {
					ok = true
				}
			case <-deadline:
				return false
			}
		}
		return true
	}
	var sops, sobs, hist []string
	for _, o := range ops {
		if incon {
			break
		}
		switch o.k {
		case "Advance":
			clk.Add(time.Duration(o.a) * time.Second)
			sops = append(sops, fmt.Sprintf("Advance %d", o.a))
		case "Serve":
			sops = append(sops, fmt.Sprintf("Serve %d %s", o.a, verifhlib.B(o.b)))
			if p := newPeer(!o.b); p != nil {
				p.recv <- conn.NewPieceRequestMessage(o.a, int64(len(piece(o.a))))
				if !barrier(p) {
					incon = true
				}
				p.Close()
			}
		case "Write":
			sops = append(sops, fmt.Sprintf("Write %d %s", o.a, verifhlib.B(o.b)))
			if p := newPeer(false); p != nil {
				data := append([]byte{}, piece(o.a)...)
				if !o.b {
					data[0] ^= 0x5a
				}
				p.recv <- conn.NewPiecePayloadMessage(o.a, piecereader.NewBuffer(data))
				if !barrier(p) {
					incon = true
				}
				p.Close()
				// a completion notice, if any, is applied right away (it does not touch what is observed)
				if ctrl := loop.st.torrentControls[h]; ctrl != nil && ctrl.dispatcher.Complete() && !last.complete {
					if !loop.applyWhenParked(isDone) {
						incon = true
					}
				}
			}
		case "Tick":
			sops = append(sops, "Tick")
			go s.eventLoop.send(preemptionTickEvent{})
			if !loop.applyWhenParked(isTick) {
				incon = true
			}
		case "Cancel":
			sops = append(sops, "Cancel")
			go s.RemoveTorrent(blob.Digest)
			if !loop.applyWhenParked(isRemove) {
				incon = true
			}
		}
		hist = append(hist, o.k)
		sn := observe()
		sobs = append(sobs, fmt.Sprintf("mkSnap %s %s %d %d %s %s", verifhlib.B(sn.present), verifhlib.B(sn.complete),
			sn.lastr, sn.lastw, verifhlib.B(sn.blob), verifhlib.B(sn.partial)))
	}
	go s.Stop()
	loop.applyWhenParked(isShut)
	select {
	case <-res:
	case <-time.After(5 * time.Second):
	}
	nt := false
	for _, k := range hist {
		if k == "Tick" {
			nt = true
		}
	}
	coq := fmt.Sprintf("mkcase %s (mkCfg %d %d %d) %d %s %s", verifhlib.B(seeding), sTTI, lTTI, n, t0,
		verifhlib.List(sops), verifhlib.List(sobs))
	ctx.Emit(verifhlib.Case{Coq: coq, NT: nt, Kind: kind, Hist: hist, Incon: incon,
		Sample: map[string]interface{}{"seeding": seeding, "seeder_tti": sTTI, "leecher_tti": lTTI, "ops": sops, "obs": sobs}})
}

func c18driver(ctx *verifhlib.Ctx) {
	r := verifhlib.NewRng(ctx.Seed)
	A := func(dt int) c18op { return c18op{"Advance", dt, false} }
	S := func(i int, closed bool) c18op { return c18op{"Serve", i, closed} }
	W := func(i int, good bool) c18op { return c18op{"Write", i, good} }
	T := c18op{"Tick", 0, false}
	C := c18op{"Cancel", 0, false}
	// seeds
	c18run(ctx, "seed-serve-postpones-seeder-timeout", true, 10, 60, 100, []c18op{A(9), S(0, true), A(2), T, A(7), T, A(1), T})
	c18run(ctx, "seed-seeder-never-served", true, 10, 60, 100, []c18op{A(9), T, A(1), T})
	c18run(ctx, "seed-dropped-reader-does-not-count", true, 10, 60, 100, []c18op{A(9), S(1, false), A(1), T})
	c18run(ctx, "seed-leecher-timeout-deletes-partial", false, 10, 20, 100, []c18op{A(5), W(1, true), A(19), T, A(1), T})
	c18run(ctx, "seed-bad-piece-does-not-count", false, 10, 20, 100, []c18op{A(15), W(1, false), A(5), T})
	c18run(ctx, "seed-complete-then-seed", false, 10, 20, 100, []c18op{W(0, true), A(3), W(1, true), W(2, true), A(9), T, S(2, true), A(9), T, A(1), T})
	c18run(ctx, "seed-cancel-partial", false, 10, 20, 100, []c18op{W(0, true), C, T})
	c18run(ctx, "seed-cancel-complete", true, 10, 20, 100, []c18op{S(0, true), C})
	c18run(ctx, "seed-leecher-serves-written-piece", false, 10, 20, 100, []c18op{W(1, true), A(2), S(1, true), S(0, true), A(18), T})
	for i := 0; i < ctx.N; i++ {
		seeding := r.Bool()
		sT := []int{1, 5, 10}[r.Intn(3)]
		lT := []int{2, 8, 20}[r.Intn(3)]
		lim := sT
		if !seeding {
			lim = lT
		}
		nops := r.Range(3, 22)
		if ctx.Tier == "thorough" {
			nops = r.Range(3, 40)
		}
		var ops []c18op
		for j := 0; j < nops; j++ {
			k := r.Intn(100)
			switch {
			case k < 30:
				// advances concentrated around the limit boundary
				dts := []int{0, 1, lim - 1, lim, lim + 1, lim / 2, r.Intn(lim + 2)}
				dt := dts[r.Intn(len(dts))]
				if dt < 0 {
					dt = 0
				}
				ops = append(ops, A(dt))
			case k < 50:
				ops = append(ops, S(r.Intn(3), r.Chance(85)))
			case k < 72:
				ops = append(ops, W(r.Intn(3), r.Chance(85)))
			case k < 97:
				ops = append(ops, T)
			default:
				ops = append(ops, C)
			}
		}
		c18run(ctx, "random", seeding, sT, lT, int64(100+r.Intn(50)), ops)
	}
}
