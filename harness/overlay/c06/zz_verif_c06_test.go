//go:build verif

package disk

// C06 crash-recovery driver.  One case = one operation history on the real disk.Store, executed in a
// child process under strace (hlib/fstrace), plus, for EVERY prefix of the history's mutating
// file-system calls, the observables of the REAL recovery (disk.NewStore) run on a fresh directory
// into which exactly that prefix was replayed ("the disk after a crash at that point"), plus a probe
// that every key can be deleted / created / completed again on the recovered store.
// The Coq side (K.Run.C06_run) compares (1) the normalised call trace with the model program's trace
// and (2) every prefix's observables with the model's `recover`.
// Overlaid into lib/store/disk at build time; never present in the repository.

import (
	"encoding/json"
	"errors"
	"fmt"
	"io"
	"os"
	"os/exec"
	"path/filepath"
	"regexp"
	"sort"
	"strconv"
	"strings"
	"sync"
	"testing"

	"github.com/uber-go/tally"
	"go.uber.org/zap"

	"github.com/uber/kraken/lib/store/metadata"
	"github.com/uber/kraken/utils/log"
	"github.com/uber/kraken/utils/verifhlib"
	"github.com/uber/kraken/utils/verifhlib/fstrace"
)

func TestVerifC06(t *testing.T) { verifhlib.MainEnv("C06", c06driver) }

// The traced child: runs one history on a store rooted at $VERIF_C06_BASE/store.
func TestVerifC06Child(t *testing.T) {
	if os.Getenv("VERIF_C06_CHILD") == "" {
		return
	}
	c06child()
}

// ---------------------------------------------------------------- metadata `_c6md<s>`, movable iff s is odd

type c06md struct {
	sfx  int
	data []byte
}

func (m *c06md) GetSuffix() string          { return "_c6md" + strconv.Itoa(m.sfx) }
func (m *c06md) Movable() bool              { return m.sfx%2 == 1 }
func (m *c06md) Serialize() ([]byte, error) { return append([]byte{}, m.data...), nil }
func (m *c06md) Deserialize(b []byte) error { m.data = append([]byte{}, b...); return nil }

type c06mdFactory struct{}

var c06mdRe = regexp.MustCompile(`^_c6md(\d)$`)

func (c06mdFactory) Create(suffix string) metadata.Metadata {
	n, _ := strconv.Atoi(c06mdRe.FindStringSubmatch(suffix)[1])
	return &c06md{sfx: n}
}

func init() { metadata.Register(c06mdRe, c06mdFactory{}) }

// ---------------------------------------------------------------- histories

const (
	c06Create = iota
	c06WriteAt
	c06MarkComplete
	c06Delete
	c06Ban
	c06Unban
	c06SetMd
	c06DelMd
	c06WriteAtMd
)

var c06names = []string{"Create", "WriteAt", "MarkComplete", "Delete", "Ban", "Unban", "SetMd", "DelMd", "WriteAtMd"}

type c06op struct {
	K    int    `json:"k"`
	Key  int    `json:"key"`
	Size uint64 `json:"size,omitempty"`
	Off  int64  `json:"off,omitempty"`
	Data []byte `json:"data,omitempty"`
	Sfx  int    `json:"sfx,omitempty"`
}

type c06cfg struct {
	Cap    uint64 `json:"cap"`
	Shard  int    `json:"shard"`
	Reboot bool   `json:"reboot"`
}

type c06hist struct {
	Cfg  c06cfg  `json:"cfg"`
	Ops  []c06op `json:"ops"`            // explicit history (seeds) ...
	Seed uint64  `json:"seed,omitempty"` // ... or adaptive random generation inside the child
	N    int     `json:"n,omitempty"`
	Bad  int     `json:"bad,omitempty"` // percentage of deliberately failing operations
	// os.RemoveAll unlinks in readdir order, which depends on the file system. The driver explores
	// other orders by permuting the recorded unlink calls of one RemoveAll before replaying:
	// 0 as recorded, 1 random, 2 data file first, 3 data file last.
	Perm int `json:"perm,omitempty"`
}

type c06childOut struct {
	Ops  []c06op `json:"ops"`
	Outs []int   `json:"outs"` // 0 ok 1 not-exist 2 exist 3 no-space 4 other error
}

const (
	c06NKeys = 3
	c06NSfx  = 3
)

// key i: 16 bytes in hex; keys 0 and 1 share the first shard byte, key 2 does not
func c06key(i int) string {
	b0 := []int{0xa0, 0xa0, 0xa1, 0xa2, 0xa3}[i%5]
	b1 := 0xb0 + i
	return fmt.Sprintf("%02x%02x", b0, b1) + strings.Repeat(fmt.Sprintf("%02x", 0xc0+i), 14)
}

func c06errKind(err error) int {
	switch {
	case err == nil:
		return 0
	case errors.Is(err, os.ErrNotExist):
		return 1
	case errors.Is(err, os.ErrExist):
		return 2
	case errors.Is(err, errNoSpace):
		return 3
	}
	return 4
}

func c06apply(st *Store, o c06op) error {
	key := c06key(o.Key)
	switch o.K {
	case c06Create:
		f, err := st.Create(key, o.Size)
		if err == nil {
			f.Close()
		}
		return err
	case c06WriteAt:
		f, err := st.Open(key)
		if err != nil {
			return err
		}
		defer f.Close()
		_, err = f.WriteAt(o.Data, o.Off)
		return err
	case c06MarkComplete:
		return st.MarkComplete(key)
	case c06Delete:
		return st.Delete(key)
	case c06Ban:
		return st.BanEviction(key)
	case c06Unban:
		return st.UnbanEviction(key)
	case c06SetMd:
		return st.SetMetadata(key, &c06md{sfx: o.Sfx, data: o.Data})
	case c06DelMd:
		return st.DeleteMetadata(key, (&c06md{sfx: o.Sfx}).GetSuffix())
	case c06WriteAtMd:
		return st.WriteAtMetadata(key, &c06md{sfx: o.Sfx}, o.Data, o.Off)
	}
	panic("bad op")
}

// adaptive generator: draws the next operation against the store's real in-memory state, so that
// most operations take their non-error path (structured, mostly valid); `bad` % are meant to fail.
func c06next(r *verifhlib.Rng, st *store, cfg c06cfg, bad int) c06op {
	var absent, incomplete, complete, any []int
	for i := 0; i < c06NKeys; i++ {
		b, ok := st.blobs[c06key(i)]
		switch {
		case !ok:
			absent = append(absent, i)
		case b.complete:
			complete = append(complete, i)
			any = append(any, i)
		default:
			incomplete = append(incomplete, i)
			any = append(any, i)
		}
	}
	pick := func(l []int) int { return l[r.Intn(len(l))] }
	small := func() []byte { return r.Bytes(r.Range(0, 4)) }
	if r.Chance(bad) {
		// malformed stream: wrong-state targets, absent metadata, impossible reservations
		k := r.Intn(c06NKeys)
		switch r.Intn(8) {
		case 0:
			if len(any) > 0 {
				return c06op{K: c06Create, Key: pick(any), Size: 3}
			}
		case 1:
			return c06op{K: c06Create, Key: k, Size: cfg.Cap + uint64(r.Range(1, 3))}
		case 2:
			if len(absent) > 0 {
				return c06op{K: []int{c06MarkComplete, c06Delete, c06Ban, c06Unban, c06WriteAt}[r.Intn(5)], Key: pick(absent), Data: []byte{1}}
			}
		case 3:
			return c06op{K: c06WriteAtMd, Key: k, Sfx: r.Intn(c06NSfx), Data: []byte{7}, Off: 1}
		case 4:
			return c06op{K: c06DelMd, Key: k, Sfx: r.Intn(c06NSfx)}
		case 5:
			return c06op{K: c06Unban, Key: k}
		case 6:
			return c06op{K: c06MarkComplete, Key: k}
		default:
			return c06op{K: c06Ban, Key: k}
		}
	}
	for try := 0; try < 20; try++ {
		switch c := r.Intn(100); {
		case c < 22: // Create (may evict)
			if len(absent) == 0 {
				continue
			}
			sz := uint64(r.Range(0, 8))
			if cfg.Cap < 100 {
				// tight capacity: reservations of a quarter to a half of it, so that Creates evict
				sz = uint64(r.Range(int(cfg.Cap)/4, int(cfg.Cap)/2+1))
			}
			if r.Chance(20) {
				sz = []uint64{0, 1, cfg.Cap / 2, cfg.Cap/2 + 1, cfg.Cap}[r.Intn(5)]
			}
			if sz > 12 {
				sz = 12
			}
			return c06op{K: c06Create, Key: pick(absent), Size: sz}
		case c < 40: // data write within the reserved size
			if len(any) == 0 {
				continue
			}
			k := pick(any)
			sz := int(st.blobs[c06key(k)].size)
			if sz == 0 {
				return c06op{K: c06WriteAt, Key: k, Off: 0, Data: nil}
			}
			off := r.Intn(sz)
			n := r.Range(0, sz-off)
			if r.Chance(40) {
				off, n = 0, sz
			}
			return c06op{K: c06WriteAt, Key: k, Off: int64(off), Data: r.Bytes(n)}
		case c < 55 || (cfg.Cap < 100 && c < 65 && len(incomplete) > 0):
			if len(incomplete) == 0 {
				continue
			}
			return c06op{K: c06MarkComplete, Key: pick(incomplete)}
		case c < 65:
			if len(any) == 0 {
				continue
			}
			return c06op{K: c06Delete, Key: pick(any)}
		case c < 72:
			if len(any) == 0 {
				continue
			}
			return c06op{K: c06Ban, Key: pick(any)}
		case c < 77:
			if len(any) == 0 {
				continue
			}
			return c06op{K: c06Unban, Key: pick(any)}
		case c < 90:
			if len(any) == 0 {
				continue
			}
			return c06op{K: c06SetMd, Key: pick(any), Sfx: r.Intn(c06NSfx), Data: small()}
		case c < 94:
			if len(any) == 0 {
				continue
			}
			return c06op{K: c06DelMd, Key: pick(any), Sfx: r.Intn(c06NSfx)}
		default:
			if len(any) == 0 {
				continue
			}
			return c06op{K: c06WriteAtMd, Key: pick(any), Sfx: r.Intn(c06NSfx), Off: int64(r.Intn(3)), Data: small()}
		}
	}
	return c06op{K: c06Create, Key: 0, Size: 1}
}

func c06child() {
	log.SetGlobalLogger(zap.NewNop().Sugar())
	var h c06hist
	b, err := os.ReadFile(os.Getenv("VERIF_C06_HIST"))
	if err != nil {
		panic(err)
	}
	if err := json.Unmarshal(b, &h); err != nil {
		panic(err)
	}
	base := os.Getenv("VERIF_C06_BASE")
	st, err := NewStore(&Config{CapacityBytes: h.Cfg.Cap, RootDir: filepath.Join(base, "store"),
		RebootIncompleteBlobs: h.Cfg.Reboot, ShardLength: h.Cfg.Shard}, tally.NoopScope)
	if err != nil {
		panic(err)
	}
	var out c06childOut
	r := verifhlib.NewRng(h.Seed)
	n := len(h.Ops)
	if n == 0 {
		n = h.N
	}
	for i := 0; i < n; i++ {
		var o c06op
		if len(h.Ops) > 0 {
			o = h.Ops[i]
		} else {
			o = c06next(r, st.impl, h.Cfg, h.Bad)
		}
		e := c06apply(st, o)
		out.Ops = append(out.Ops, o)
		out.Outs = append(out.Outs, c06errKind(e))
		// operation boundary marker (a traced call outside the store directory)
		if err := os.Mkdir(filepath.Join(base, "marks", strconv.Itoa(i)), 0o755); err != nil {
			panic(err)
		}
	}
	ob, _ := json.Marshal(out)
	if err := os.WriteFile(os.Getenv("VERIF_C06_OUT"), ob, 0o644); err != nil {
		panic(err)
	}
}

// ---------------------------------------------------------------- trace normalisation

type c06ncall struct {
	coq   string
	area  string // AComp / AInc
	key   int
	kind  string // MkShard MkBlob Open Write RenDir RenFile Unlink RmBlob Bad
	fname string
}

func c06fname(s string) (string, bool) {
	switch s {
	case "data":
		return "FData", true
	case "_size":
		return "FSize", true
	case "_eviction_banned":
		return "FBan", true
	}
	if m := regexp.MustCompile(`^_c6md(\d)(-tmp)?$`).FindStringSubmatch(s); m != nil {
		if m[2] != "" {
			return "(FTmp " + m[1] + ")", true
		}
		return "(FMd " + m[1] + ")", true
	}
	return "", false
}

type c06loc struct {
	area  string
	depth int   // 0 area root, 1..shard shard dirs, shard+1 blob dir, shard+2 file
	comps []int // shard components
	key   int
	fname string
	ok    bool
}

func c06locate(root, p string, shard int, ids map[string]int) c06loc {
	rel := fstrace.Rel(root, p)
	if rel == "" || rel == "." {
		return c06loc{}
	}
	parts := strings.Split(rel, "/")
	var l c06loc
	switch parts[0] {
	case "complete":
		l.area = "AComp"
	case "incomplete":
		l.area = "AInc"
	default:
		return c06loc{}
	}
	l.depth = len(parts) - 1
	if l.depth > shard+2 {
		return c06loc{}
	}
	for i := 1; i <= l.depth && i <= shard; i++ {
		v, err := strconv.ParseUint(parts[i], 16, 8)
		if err != nil || len(parts[i]) != 2 {
			return c06loc{}
		}
		l.comps = append(l.comps, int(v))
	}
	if l.depth >= shard+1 {
		id, ok := ids[parts[shard+1]]
		if !ok {
			return c06loc{}
		}
		l.key = id
	}
	if l.depth == shard+2 {
		fn, ok := c06fname(parts[shard+2])
		if !ok {
			return c06loc{}
		}
		l.fname = fn
	}
	l.ok = true
	return l
}

// c06normalise maps the mutating calls to terms of the model's `call` type. Sequential writes carry
// the offset the descriptor had (tracked from the open).
func c06normalise(calls []fstrace.Call, root string, shard int, ids map[string]int) []c06ncall {
	var out []c06ncall
	fdOff := map[int]int64{}
	bad := func(c fstrace.Call) c06ncall {
		return c06ncall{coq: fmt.Sprintf("CBad %d", c.Seq), kind: "Bad"}
	}
	for _, c := range calls {
		switch c.Name {
		case "open", "openat", "creat":
			fdOff[c.Fd] = 0
		case "lseek":
			switch c.Whence {
			case 0:
				fdOff[c.Fd] = c.Off
			default:
				fdOff[c.Fd] = -1 << 40
			}
		case "read":
			fdOff[c.Fd] += c.Ret
		}
		if !c.Mutating {
			continue
		}
		var n c06ncall
		switch c.Name {
		case "mkdir", "mkdirat":
			l := c06locate(root, c.Path, shard, ids)
			switch {
			case !l.ok:
				n = bad(c)
			case l.depth <= shard:
				n = c06ncall{coq: fmt.Sprintf("CMkShard %s %s", l.area, verifhlib.Ns(l.comps)), area: l.area, kind: "MkShard"}
			case l.depth == shard+1:
				n = c06ncall{coq: fmt.Sprintf("CMkBlob %s %d", l.area, l.key), area: l.area, key: l.key, kind: "MkBlob"}
			default:
				n = bad(c)
			}
		case "open", "openat", "creat":
			l := c06locate(root, c.Path, shard, ids)
			if !l.ok || l.depth != shard+2 {
				n = bad(c)
				break
			}
			mode := "OPlain"
			if strings.Contains(c.Flags, "O_EXCL") {
				mode = "OExcl"
			} else if strings.Contains(c.Flags, "O_TRUNC") {
				mode = "OTrunc"
			}
			n = c06ncall{coq: fmt.Sprintf("COpen %s %d %s %s", l.area, l.key, l.fname, mode), area: l.area, key: l.key, kind: "Open", fname: l.fname}
		case "write", "pwrite64":
			l := c06locate(root, c.FdPath, shard, ids)
			off := c.Off
			if c.Name == "write" {
				off = fdOff[c.Fd]
				fdOff[c.Fd] += c.Ret
			}
			if !l.ok || l.depth != shard+2 || off < 0 {
				n = bad(c)
				break
			}
			n = c06ncall{coq: fmt.Sprintf("CWrite %s %d %s %d %s", l.area, l.key, l.fname, off, verifhlib.Bytes(c.Data)), area: l.area, key: l.key, kind: "Write", fname: l.fname}
		case "rename", "renameat", "renameat2":
			a, b := c06locate(root, c.Path, shard, ids), c06locate(root, c.Path2, shard, ids)
			switch {
			case !a.ok || !b.ok || a.key != b.key || a.depth != b.depth:
				n = bad(c)
			case a.depth == shard+1 && a.area == "AInc" && b.area == "AComp":
				n = c06ncall{coq: fmt.Sprintf("CRenDir %d", a.key), area: "AComp", key: a.key, kind: "RenDir"}
			case a.depth == shard+2 && a.area == b.area:
				n = c06ncall{coq: fmt.Sprintf("CRenFile %s %d %s %s", a.area, a.key, a.fname, b.fname), area: a.area, key: a.key, kind: "RenFile", fname: a.fname}
			default:
				n = bad(c)
			}
		case "unlink", "unlinkat", "rmdir":
			l := c06locate(root, c.Path, shard, ids)
			isDir := c.Name == "rmdir" || strings.Contains(c.Flags, "AT_REMOVEDIR")
			switch {
			case !l.ok:
				n = bad(c)
			case isDir && l.depth == shard+1:
				n = c06ncall{coq: fmt.Sprintf("CRmBlob %s %d", l.area, l.key), area: l.area, key: l.key, kind: "RmBlob"}
			case !isDir && l.depth == shard+2:
				n = c06ncall{coq: fmt.Sprintf("CUnlink %s %d %s", l.area, l.key, l.fname), area: l.area, key: l.key, kind: "Unlink", fname: l.fname}
			default:
				n = bad(c)
			}
		default:
			n = bad(c)
		}
		out = append(out, n)
	}
	return out
}

// c06permute reorders, inside one operation's calls, the file unlinks of each RemoveAll (same parent
// directory) according to mode; every order is one some file system's readdir could produce.
func c06permute(group []fstrace.Call, mode int, r *verifhlib.Rng) {
	if mode == 0 {
		return
	}
	byDir := map[string][]int{}
	var dirs []string
	for i, c := range group {
		if !c.Mutating || (c.Name != "unlink" && c.Name != "unlinkat") || strings.Contains(c.Flags, "AT_REMOVEDIR") {
			continue
		}
		d := filepath.Dir(c.Path)
		if _, ok := byDir[d]; !ok {
			dirs = append(dirs, d)
		}
		byDir[d] = append(byDir[d], i)
	}
	for _, d := range dirs {
		idx := byDir[d]
		vals := make([]fstrace.Call, len(idx))
		for j, i := range idx {
			vals[j] = group[i]
		}
		switch mode {
		case 1:
			for j := len(vals) - 1; j > 0; j-- {
				k := r.Intn(j + 1)
				vals[j], vals[k] = vals[k], vals[j]
			}
		case 2, 3:
			for j, v := range vals {
				if filepath.Base(v.Path) == _blobFileName {
					rest := append(append([]fstrace.Call{}, vals[:j]...), vals[j+1:]...)
					if mode == 2 {
						vals = append([]fstrace.Call{v}, rest...)
					} else {
						vals = append(rest, v)
					}
					break
				}
			}
		}
		for j, i := range idx {
			seq := group[i].Seq
			group[i] = vals[j]
			group[i].Seq = seq
		}
	}
}

// ---------------------------------------------------------------- observables of a recovered store

func c06optBytes(ok bool, b []byte) string {
	if !ok {
		return "None"
	}
	return verifhlib.Some(verifhlib.Bytes(b))
}

// c06observe runs the REAL recovery on dir and projects what the property speaks about; then probes
// that every key can be (deleted,) created and completed again.
func c06observe(dir string, cfg c06cfg) (coq string, ok bool, ncomplete int) {
	st, err := NewStore(&Config{CapacityBytes: cfg.Cap, RootDir: dir, RebootIncompleteBlobs: cfg.Reboot, ShardLength: cfg.Shard}, tally.NoopScope)
	if err != nil {
		return "mkrobs false 0 [] []", false, 0
	}
	var keys, probe []string
	listed := map[string]bool{}
	for _, k := range st.List() {
		listed[k] = true
	}
	listedC := map[string]bool{}
	for _, k := range st.ScopeComplete().List() {
		listedC[k] = true
	}
	for i := 0; i < c06NKeys; i++ {
		key := c06key(i)
		b, present := st.impl.blobs[key]
		if inStore, _ := st.Has(key); inStore != present || listed[key] != present {
			panic("Has/List disagree with the blob map")
		}
		if !present {
			keys = append(keys, "ab")
			continue
		}
		if listedC[key] != b.complete {
			panic("scoped List disagrees with the blob map")
		}
		if b.complete {
			ncomplete++
		}
		var data []byte
		f, err := st.Open(key)
		dataOK := err == nil
		if dataOK {
			data, err = io.ReadAll(f)
			dataOK = err == nil
			f.Close()
		}
		var mds []string
		for s := 0; s < c06NSfx; s++ {
			md := &c06md{sfx: s}
			got, err := st.GetMetadata(key, md)
			mds = append(mds, c06optBytes(err == nil && got, md.data))
		}
		if !dataOK {
			// listed but unreadable: make it visible as an impossible size
			keys = append(keys, fmt.Sprintf("mkkobs true %s 999999 %s [] %s", verifhlib.B(b.complete), verifhlib.B(b.evictionBanned), verifhlib.List(mds)))
			continue
		}
		mdq := verifhlib.List(mds)
		if mdq == "[None; None; None]" {
			mdq = "n3"
		}
		keys = append(keys, fmt.Sprintf("mkkobs true %s %d %s %s %s", verifhlib.B(b.complete), b.size, verifhlib.B(b.evictionBanned),
			verifhlib.Bytes(data), mdq))
	}
	total := st.impl.size
	// probe: with ample capacity every key can be created and completed again
	st.impl.capacity = 1 << 40
	for i := 0; i < c06NKeys; i++ {
		key := c06key(i)
		delOK, creOK, mcOK := true, false, false
		if in, _ := st.Has(key); in {
			delOK = st.Delete(key) == nil
		}
		f, err := st.Create(key, 1)
		if err == nil {
			creOK = true
			f.Close()
		}
		if st.MarkComplete(key) == nil {
			if _, inScope := st.ScopeComplete().Has(key); inScope {
				mcOK = true
			}
		}
		probe = append(probe, fmt.Sprintf("(%s, %s, %s)", verifhlib.B(delOK), verifhlib.B(creOK), verifhlib.B(mcOK)))
	}
	pq := verifhlib.List(probe)
	if pq == "[(true, true, true); (true, true, true); (true, true, true)]" {
		pq = "p3"
	}
	return fmt.Sprintf("mkrobs true %d %s %s", total, verifhlib.List(keys), pq), true, ncomplete
}

// ---------------------------------------------------------------- one case

type c06result struct {
	cs  verifhlib.Case
	err error
}

func c06run(tmp string, idx int, h c06hist, kind string) c06result {
	fail := func(err error) c06result {
		return c06result{cs: verifhlib.Case{Coq: "mkcase (mkcfg false 0 0 []) [] [] [] []", Kind: kind, Incon: true,
			Sample: map[string]string{"error": err.Error()}}, err: err}
	}
	base := filepath.Join(tmp, fmt.Sprintf("h%d", idx))
	root := filepath.Join(base, "store")
	os.RemoveAll(base)
	if err := os.MkdirAll(root, 0o755); err != nil {
		return fail(err)
	}
	if err := os.MkdirAll(filepath.Join(base, "marks"), 0o755); err != nil {
		return fail(err)
	}
	defer os.RemoveAll(base)
	histPath, outPath, logPath := base+".hist.json", base+".out.json", base+".strace"
	defer os.Remove(histPath)
	defer os.Remove(outPath)
	defer os.Remove(logPath)
	hb, _ := json.Marshal(h)
	if err := os.WriteFile(histPath, hb, 0o644); err != nil {
		return fail(err)
	}
	self, err := os.Executable()
	if err != nil {
		return fail(err)
	}
	var all []fstrace.Call
	var ob []byte
	// The child is the real store running the history. If it dies (a panic in the store, a failing
	// NewStore) the case is reported as a disagreement, not skipped; tracing hiccups get three tries.
	for try := 0; ; try++ {
		os.RemoveAll(root)
		os.RemoveAll(filepath.Join(base, "marks"))
		os.MkdirAll(root, 0o755)
		os.MkdirAll(filepath.Join(base, "marks"), 0o755)
		os.Remove(outPath)
		cmd := exec.Command(self, "-test.run", "^TestVerifC06Child$", "-test.count", "1")
		cmd.Env = append(os.Environ(), "VERIF_C06_CHILD=1", "VERIF_C06_HIST="+histPath, "VERIF_C06_OUT="+outPath, "VERIF_C06_BASE="+base)
		cmd.Dir = tmp
		var cerr error
		all, cerr = fstrace.Record(cmd, base, logPath)
		if cerr == nil {
			ob, cerr = os.ReadFile(outPath)
		}
		if cerr == nil {
			break
		}
		if try >= 2 {
			return c06result{cs: verifhlib.Case{Coq: "mkcase (mkcfg false 0 0 []) [] [OErr] [CBad 0] []", Kind: kind + "-child-died",
				Tags: []string{"child-died"}, Sample: map[string]string{"error": cerr.Error(), "history": string(hb)}}, err: cerr}
		}
	}
	var co c06childOut
	if err := json.Unmarshal(ob, &co); err != nil {
		return fail(err)
	}
	// split at the markers
	var storeCalls []fstrace.Call
	var perOp [][]fstrace.Call
	var cur []fstrace.Call
	marksDir := filepath.Join(base, "marks")
	for _, c := range all {
		p := c.Path
		if p == "" {
			p = strings.TrimSuffix(c.FdPath, " (deleted)")
		}
		if p == marksDir || strings.HasPrefix(p, marksDir+"/") {
			if c.Mutating {
				perOp = append(perOp, cur)
				cur = nil
			}
			continue
		}
		if fstrace.Rel(root, p) == "" && !(c.Path2 != "" && fstrace.Rel(root, c.Path2) != "") {
			continue
		}
		storeCalls = append(storeCalls, c)
		cur = append(cur, c)
	}
	if len(cur) != 0 || len(perOp) != len(co.Ops) {
		return fail(fmt.Errorf("marker split: %d groups for %d ops, %d trailing calls", len(perOp), len(co.Ops), len(cur)))
	}
	// explore RemoveAll orders other than this file system's readdir order
	pr := verifhlib.NewRng(h.Seed ^ 0x5ca1ab1e)
	storeCalls = storeCalls[:0]
	for i, o := range co.Ops {
		if o.K == c06Delete || o.K == c06Create {
			c06permute(perOp[i], h.Perm, pr)
		}
		storeCalls = append(storeCalls, perOp[i]...)
	}
	if err := fstrace.SelfCheck(storeCalls, root, filepath.Join(base, "selfcheck")); err != nil {
		return fail(fmt.Errorf("fstrace self-check: %v", err))
	}
	ids := map[string]int{}
	for i := 0; i < 5; i++ {
		ids[c06key(i)] = i
	}
	// ops with their oracles (what the implementation chose), the normalised trace
	var sops, souts, strace, hist []string
	completedOK := 0
	for i, o := range co.Ops {
		nc := c06normalise(perOp[i], root, h.Cfg.Shard, ids)
		for _, c := range nc {
			strace = append(strace, c.coq)
		}
		hist = append(hist, c06names[o.K])
		var s string
		switch o.K {
		case c06Create:
			// leading removals in the complete area = iterations of ensureFreeSpace's eviction loop; each is
			// its own model step (Evict y sz order), completed successfully by construction
			j := 0
			for j < len(nc) && nc[j].area == "AComp" && (nc[j].kind == "Unlink" || nc[j].kind == "RmBlob") {
				k := nc[j].key
				var fn []string
				for j < len(nc) && nc[j].area == "AComp" && nc[j].key == k && nc[j].kind == "Unlink" {
					fn = append(fn, nc[j].fname)
					j++
				}
				if j < len(nc) && nc[j].area == "AComp" && nc[j].key == k && nc[j].kind == "RmBlob" {
					j++
				}
				sops = append(sops, fmt.Sprintf("Evict %d %d %s", k, o.Size, verifhlib.List(fn)))
				souts = append(souts, "OOk")
				hist = append(hist, "Evict")
			}
			s = fmt.Sprintf("Create %d %d", o.Key, o.Size)
		case c06WriteAt:
			s = fmt.Sprintf("WriteAt %d %d %s", o.Key, o.Off, verifhlib.Bytes(o.Data))
		case c06MarkComplete:
			s = fmt.Sprintf("MarkComplete %d", o.Key)
			if co.Outs[i] == 0 {
				completedOK++
			}
		case c06Delete:
			var fn []string
			for _, c := range nc {
				if c.kind == "Unlink" {
					fn = append(fn, c.fname)
				}
			}
			s = fmt.Sprintf("Delete %d %s", o.Key, verifhlib.List(fn))
		case c06Ban:
			s = fmt.Sprintf("Ban %d", o.Key)
		case c06Unban:
			s = fmt.Sprintf("Unban %d", o.Key)
		case c06SetMd:
			s = fmt.Sprintf("SetMd %d %d %s", o.Key, o.Sfx, verifhlib.Bytes(o.Data))
		case c06DelMd:
			s = fmt.Sprintf("DelMd %d %d", o.Key, o.Sfx)
		case c06WriteAtMd:
			s = fmt.Sprintf("WriteAtMd %d %d %d %s", o.Key, o.Sfx, o.Off, verifhlib.Bytes(o.Data))
		}
		sops = append(sops, s)
		souts = append(souts, []string{"OOk", "ONotExist", "OExist", "ONoSpace", "OErr"}[co.Outs[i]])
	}
	// every crash point: replay the prefix, run the real recovery, observe
	nm := fstrace.NumMutating(storeCalls)
	if nm != len(strace) {
		return fail(fmt.Errorf("mutating calls %d != normalised %d", nm, len(strace)))
	}
	var recs []string
	failedReopen, sawComplete := 0, false
	for k := 0; k <= nm; k++ {
		rdir := filepath.Join(base, fmt.Sprintf("r%d", k))
		if err := os.MkdirAll(rdir, 0o755); err != nil {
			return fail(err)
		}
		done, err := fstrace.Replay(storeCalls, k, root, rdir)
		if err != nil || done != k {
			return fail(fmt.Errorf("replay of prefix %d: done=%d err=%v", k, done, err))
		}
		r, ok, nc := c06observe(rdir, h.Cfg)
		if !ok {
			failedReopen++
		}
		if nc > 0 {
			sawComplete = true
		}
		recs = append(recs, r)
		os.RemoveAll(rdir)
	}
	var kp []string
	for i := 0; i < c06NKeys; i++ {
		v, _ := strconv.ParseUint(c06key(i)[0:2], 16, 8)
		w, _ := strconv.ParseUint(c06key(i)[2:4], 16, 8)
		comps := []int{int(v), int(w)}[:h.Cfg.Shard]
		kp = append(kp, verifhlib.Pair(strconv.Itoa(i), verifhlib.Ns(comps)))
	}
	cfgq := fmt.Sprintf("(mkcfg %s %d %d %s)", verifhlib.B(h.Cfg.Reboot), h.Cfg.Cap, c06NSfx, verifhlib.List(kp))
	// run-length encode the per-crash-point observations
	var rle []string
	for i := 0; i < len(recs); {
		j := i
		for j < len(recs) && recs[j] == recs[i] {
			j++
		}
		rle = append(rle, fmt.Sprintf("(%d%%nat, %s)", j-i, recs[i]))
		i = j
	}
	coq := fmt.Sprintf("mkcase %s %s %s %s %s", cfgq, verifhlib.List(sops), verifhlib.List(souts), verifhlib.List(strace), verifhlib.List(rle))
	var tags []string
	if failedReopen > 0 {
		tags = append(tags, "reopen-failed")
	}
	// counted in the evidence's op histogram: crash points explored, trace equalities compared
	for k := 0; k <= nm; k++ {
		hist = append(hist, "crash-point")
	}
	hist = append(hist, "trace-equality")
	sample := map[string]interface{}{"cfg": h.Cfg, "ops": sops, "outs": souts, "trace": strace, "crash_points": nm + 1, "removeall_order_mode": h.Perm,
		"recovered_at_last_point": recs[len(recs)-1]}
	return c06result{cs: verifhlib.Case{Coq: coq, NT: completedOK > 0 && sawComplete && nm >= 6, Kind: kind, Hist: hist, Tags: tags, Sample: sample,
		Key: cfgq + verifhlib.List(sops)}}
}

// ---------------------------------------------------------------- driver

func c06driver(ctx *verifhlib.Ctx) {
	log.SetGlobalLogger(zap.NewNop().Sugar())
	r := verifhlib.NewRng(ctx.Seed)
	type job struct {
		h    c06hist
		kind string
	}
	var jobs []job
	addp := func(cfg c06cfg, perm int, kind string, ops ...c06op) {
		jobs = append(jobs, job{c06hist{Cfg: cfg, Ops: ops, Perm: perm}, kind})
	}
	add := func(cfg c06cfg, kind string, ops ...c06op) { addp(cfg, 0, kind, ops...) }
	cr := func(k int, sz uint64) c06op { return c06op{K: c06Create, Key: k, Size: sz} }
	wr := func(k int, off int64, d string) c06op { return c06op{K: c06WriteAt, Key: k, Off: off, Data: []byte(d)} }
	mc := func(k int) c06op { return c06op{K: c06MarkComplete, Key: k} }
	del := func(k int) c06op { return c06op{K: c06Delete, Key: k} }
	ban := func(k int) c06op { return c06op{K: c06Ban, Key: k} }
	unban := func(k int) c06op { return c06op{K: c06Unban, Key: k} }
	smd := func(k, s int, d string) c06op { return c06op{K: c06SetMd, Key: k, Sfx: s, Data: []byte(d)} }
	dmd := func(k, s int) c06op { return c06op{K: c06DelMd, Key: k, Sfx: s} }
	wmd := func(k, s int, off int64, d string) c06op {
		return c06op{K: c06WriteAtMd, Key: k, Sfx: s, Off: off, Data: []byte(d)}
	}
	big := uint64(1000)

	// ---- seeds: the refutation witnesses and the boundaries reasoned about
	// C06_empty_size_refuted: crash between create and write of the `_size` sidecar
	add(c06cfg{big, 0, true}, "seed-empty-size-sidecar", cr(0, 5))
	// C06_leftover_dir_refuted: interrupted Delete of a complete blob (data gone, sidecars left)
	addp(c06cfg{big, 0, false}, 2, "seed-leftover-complete-dir", cr(0, 3), wr(0, 0, "abc"), smd(0, 1, "m"), ban(0), mc(0), del(0))
	// interrupted Delete of an incomplete blob: leftover data without `_size` / `_size` without data
	addp(c06cfg{big, 1, true}, 2, "seed-leftover-incomplete-dir", cr(1, 4), wr(1, 0, "wxyz"), smd(1, 0, "i"), smd(1, 1, "j"), del(1))
	addp(c06cfg{big, 1, true}, 3, "seed-leftover-incomplete-dir-data-last", cr(1, 4), wr(1, 0, "wxyz"), smd(1, 0, "i"), ban(1), del(1))
	// typical life cycle with every sidecar kind, sharded
	add(c06cfg{big, 2, true}, "seed-typical-sharded", cr(0, 4), wr(0, 0, "ab"), wr(0, 2, "cd"), smd(0, 0, "imm"), smd(0, 1, "mov"), ban(0), mc(0),
		smd(0, 1, "mov2"), wmd(0, 1, 1, "ZZ"), unban(0), dmd(0, 1), cr(1, 2), del(0))
	// eviction: capacity 10, two complete blobs, a third Create evicts the oldest (and a fourth both)
	addp(c06cfg{10, 1, false}, 2, "seed-eviction", cr(0, 4), wr(0, 0, "0123"), mc(0), cr(1, 4), wr(1, 0, "4567"), smd(1, 1, "k"), mc(1), cr(2, 5), mc(2), cr(0, 10))
	// no space: banned / incomplete blobs cannot be evicted; the evictable one goes first
	add(c06cfg{10, 0, true}, "seed-no-space", cr(0, 4), mc(0), cr(1, 4), ban(1), mc(1), cr(2, 7), cr(2, 2))
	// metadata atomicity: overwrite, leftover tmp, delete, in-place write
	add(c06cfg{big, 0, true}, "seed-metadata", cr(0, 2), smd(0, 0, "old"), smd(0, 0, "new"), smd(0, 2, ""), wmd(0, 0, 1, "EW"), dmd(0, 0), dmd(0, 0), mc(0), smd(0, 1, "c"))
	// immovable metadata is removed on completion; zero-size blob; errors
	add(c06cfg{big, 1, false}, "seed-immovable-and-errors", cr(0, 0), smd(0, 0, "a"), smd(0, 2, "b"), smd(0, 1, "c"), mc(0), mc(0), cr(0, 1), del(1), unban(0),
		wmd(0, 0, 0, "x"), wr(2, 0, "q"), ban(0), ban(0), mc(2))
	// ban flag of an incomplete blob survives completion; unban then crash
	add(c06cfg{big, 2, true}, "seed-ban-lifecycle", cr(2, 3), ban(2), wr(2, 0, "xyz"), mc(2), unban(2), ban(2), del(2), cr(2, 1), mc(2))

	cfgs := []c06cfg{{big, 0, true}, {big, 1, false}, {12, 2, true}, {big, 2, false}, {14, 0, false}, {16, 1, true}}
	for i := 0; i < ctx.N; i++ {
		cfg := cfgs[i%len(cfgs)]
		n := r.Range(6, 14)
		if ctx.Tier == "thorough" && r.Chance(30) {
			n = r.Range(14, 22)
		}
		bad := 12
		kind := "random"
		if i%5 == 4 {
			bad, kind = 35, "random-malformed"
		}
		jobs = append(jobs, job{c06hist{Cfg: cfg, Seed: r.U64(), N: n, Bad: bad, Perm: []int{0, 1, 1, 2}[r.Intn(4)]},
			kind + fmt.Sprintf("-ri%v-sh%d", cfg.Reboot, cfg.Shard)})
	}

	// run on a worker pool, emit in queue order
	res := make([]c06result, len(jobs))
	var wg sync.WaitGroup
	sem := make(chan struct{}, 8)
	for i := range jobs {
		wg.Add(1)
		sem <- struct{}{}
		go func(i int) {
			defer wg.Done()
			defer func() { <-sem }()
			res[i] = c06run(ctx.Tmp, i, jobs[i].h, jobs[i].kind)
		}(i)
	}
	wg.Wait()
	var errs []string
	for i := range res {
		if res[i].err != nil {
			errs = append(errs, fmt.Sprintf("case %d (%s): %v", i, jobs[i].kind, res[i].err))
		}
		ctx.Emit(res[i].cs)
	}
	sort.Strings(errs)
	if len(errs) > 0 {
		fmt.Fprintln(os.Stderr, "C06 driver: inconclusive cases:\n"+strings.Join(errs, "\n"))
	}
}
