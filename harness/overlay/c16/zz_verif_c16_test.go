//go:build verif

package scheduler

// C16 driver: histories over the real connstate.State (public API, connections made by the real
// Handshaker against conn.FakePeer) and over the scheduler's event handlers of events.go
// (announceResultEvent = the dial decision, connClosedEvent, failedOutgoingHandshakeEvent,
// failedIncomingHandshakeEvent, dispatcherCompleteEvent) applied to a real scheduler state.

import (
	"fmt"
	"net"
	"os"
	"path/filepath"
	"runtime"
	"sort"
	"sync"
	"testing"
	"time"

	"github.com/andres-erbsen/clock"
	"github.com/uber-go/tally"
	"github.com/willf/bitset"
	"go.uber.org/zap"

	"github.com/uber/kraken/core"
	"github.com/uber/kraken/lib/store"
	"github.com/uber/kraken/lib/torrent/networkevent"
	"github.com/uber/kraken/lib/torrent/scheduler/announcequeue"
	"github.com/uber/kraken/lib/torrent/scheduler/conn"
	"github.com/uber/kraken/lib/torrent/scheduler/connstate"
	"github.com/uber/kraken/lib/torrent/storage"
	"github.com/uber/kraken/lib/torrent/storage/agentstorage"
	"github.com/uber/kraken/lib/torrent/storage/piecereader"
	"github.com/uber/kraken/tracker/announceclient"
	"github.com/uber/kraken/utils/log"
	hlib "github.com/uber/kraken/utils/verifhlib"
)

func TestVerifC16(t *testing.T) { hlib.MainEnv("C16", c16driver) }

const (
	c16NP   = 12 // peers 0..11 (each backed by a conn.FakePeer)
	c16NH   = 4  // torrents 0,1 leeching; 2 complete; 3 unknown to the scheduler
	c16NK   = 4  // connections per (hash, peer): 0,1 open; 2 closed; 3 open, used by the drain probes
	c16Self = 99 // canonical id of the local peer
	c16NS   = "verif-c16"
	c16Unk  = 9999
)

// ---- op encoding
const (
	kAdd = iota
	kDelPending
	kMove
	kDelActive
	kBlacklist
	kClearBl
	kTick
	kAnnounce
	kEvClosed
	kEvFailedOut
	kEvFailedIn
	kEvComplete
	kEvIncoming
	kQActive
	kQSaturated
	kQBlacklisted
	kQSnapshot
)

var c16names = [...]string{"AddPending", "DeletePending", "MoveToActive", "DeleteActive", "Blacklist", "ClearBlacklist",
	"Tick", "Announce", "EvConnClosed", "EvFailedOut", "EvFailedIn", "EvComplete", "EvIncoming", "QActive", "QSaturated", "QBlacklisted", "QSnapshot"}

type c16op struct {
	k     int
	c     int // connection slot 0..c16NK-1 (identity = connID(h,p,c))
	p, h  int
	nbrs  []int
	dt    int64
	peers []int // Announce: peer ids, c16Self allowed
}

type c16cfg struct {
	max, mutual int
	nobl        bool
	dur         int64
}

func (c c16cfg) coq() string {
	return fmt.Sprintf("(mkcfg %s %s %s %s)", hlib.Z(int64(c.max)), hlib.Z(int64(c.mutual)), hlib.B(c.nobl), hlib.Z(c.dur))
}

func connID(h, p, k int) int { return (h*c16NP+p)*c16NK + k }

// ---- fakes
type c16clock struct {
	clock.Clock
	mu  sync.Mutex
	now time.Time
}

func (c *c16clock) Now() time.Time      { c.mu.Lock(); defer c.mu.Unlock(); return c.now }
func (c *c16clock) set(t time.Time)     { c.mu.Lock(); c.now = t; c.mu.Unlock() }
func (c *c16clock) add(d time.Duration) { c.mu.Lock(); c.now = c.now.Add(d); c.mu.Unlock() }

type c16producer struct{}

func (c16producer) Produce(*networkevent.Event) {}
func (c16producer) Close() error                { return nil }

type c16connEvents struct{}

func (c16connEvents) ConnClosed(*conn.Conn) {}

// c16loop records the events sent by goroutines the handlers start; nothing is applied.
type c16loop struct {
	mu  sync.Mutex
	evs []event
}

func (l *c16loop) send(e event) bool {
	l.mu.Lock()
	l.evs = append(l.evs, e)
	l.mu.Unlock()
	return true
}
func (l *c16loop) sendTimeout(e event, _ time.Duration) error { l.send(e); return nil }
func (l *c16loop) run(*state)                                 {}
func (l *c16loop) stop()                                      {}
func (l *c16loop) take() []event {
	l.mu.Lock()
	defer l.mu.Unlock()
	r := l.evs
	l.evs = nil
	return r
}

type c16mic struct {
	mis map[core.Digest]*core.MetaInfo
}

func (m c16mic) Download(ns string, d core.Digest) (*core.MetaInfo, error) {
	if mi, ok := m.mis[d]; ok {
		return mi, nil
	}
	return nil, fmt.Errorf("no metainfo")
}

// ---- environment shared by all cases
type c16env struct {
	clk     *c16clock
	peerIDs [c16NP]core.PeerID
	hashes  [c16NH]core.InfoHash
	conns   map[int]*conn.Conn
	connIdx map[*conn.Conn]int
	peerIdx map[core.PeerID]int
	hashIdx map[core.InfoHash]int
	selfID  core.PeerID

	sched    *scheduler
	loop     *c16loop
	controls map[core.InfoHash]*torrentControl
	deadPort int
	remoteHS [c16NP]*conn.Handshaker // handshakers speaking as peer p
	infos    [c16NH]*storage.TorrentInfo
}

func c16setup(tmp string) *c16env {
	e := &c16env{clk: &c16clock{Clock: clock.NewMock(), now: time.Unix(0, 0)},
		conns: map[int]*conn.Conn{}, connIdx: map[*conn.Conn]int{}, peerIdx: map[core.PeerID]int{}, hashIdx: map[core.InfoHash]int{}}
	nop := zap.NewNop().Sugar()
	log.SetGlobalLogger(nop)

	// torrents
	blobs := make([]*core.BlobFixture, c16NH)
	mic := c16mic{map[core.Digest]*core.MetaInfo{}}
	for h := 0; h < c16NH; h++ {
		blobs[h] = core.SizedBlobFixture(64, 16)
		mic.mis[blobs[h].Digest] = blobs[h].MetaInfo
		e.hashes[h] = blobs[h].MetaInfo.InfoHash()
		e.hashIdx[e.hashes[h]] = h
	}

	// scheduler (never started: no listener, no loops); events.go handlers are applied directly
	must := func(err error) {
		if err != nil {
			panic(err)
		}
	}
	dl, ca := filepath.Join(tmp, "download"), filepath.Join(tmp, "cache")
	must(os.MkdirAll(dl, 0o755))
	must(os.MkdirAll(ca, 0o755))
	cads, err := store.NewCADownloadStore(store.CADownloadStoreConfig{DownloadDir: dl, CacheDir: ca}, tally.NoopScope)
	must(err)
	ta := agentstorage.NewTorrentArchive(tally.NoopScope, cads, mic)
	pctx := core.PeerContextFixture()
	e.selfID = pctx.PeerID
	e.peerIdx[e.selfID] = c16Self
	e.loop = &c16loop{}
	cfg := Config{DisablePreemption: true, Log: log.Config{Disable: true}, TorrentLog: log.Config{Disable: true}}
	s, err := newScheduler(cfg, ta, tally.NoopScope, pctx, announceclient.Disabled(), c16producer{},
		withClock(e.clk), withEventLoop(e.loop))
	must(err)
	s.logger = nop
	e.sched = s
	st0 := newState(s, announcequeue.New())
	for h := 0; h < 3; h++ {
		tor, err := ta.CreateTorrent(c16NS, blobs[h].Digest)
		must(err)
		if h == 2 { // complete torrent
			for i := 0; i < tor.NumPieces(); i++ {
				start := int64(i) * blobs[h].MetaInfo.PieceLength()
				must(tor.WritePiece(piecereader.NewBuffer(blobs[h].Content[start:start+tor.PieceLength(i)]), i))
			}
		}
		_, err = st0.addTorrent(c16NS, tor, false)
		must(err)
	}
	e.controls = st0.torrentControls
	if !e.controls[e.hashes[2]].dispatcher.Complete() || e.controls[e.hashes[0]].dispatcher.Complete() {
		panic("c16: torrent completeness fixture")
	}

	// peers and the connection pool (real handshakes)
	hs, err := conn.NewHandshaker(conn.Config{SenderBufferSize: 1, ReceiverBufferSize: 1}, tally.NoopScope, e.clk,
		c16producer{}, e.selfID, c16connEvents{}, nop)
	must(err)
	for p := 0; p < c16NP; p++ {
		fp, err := conn.NewFakePeer()
		must(err)
		e.peerIDs[p] = fp.PeerID()
		e.peerIdx[fp.PeerID()] = p
		rh, err := conn.NewHandshaker(conn.Config{SenderBufferSize: 1, ReceiverBufferSize: 1}, tally.NoopScope, e.clk,
			c16producer{}, fp.PeerID(), c16connEvents{}, nop)
		must(err)
		e.remoteHS[p] = rh
		for h := 0; h < c16NH; h++ {
			info := storage.NewTorrentInfo(blobs[h].MetaInfo, bitset.New(uint(blobs[h].MetaInfo.NumPieces())))
			e.infos[h] = info
			for k := 0; k < c16NK; k++ {
				r, err := hs.Initialize(fp.PeerID(), false, fp.Addr(), info, nil, c16NS)
				must(err)
				if r.Conn.PeerID() != fp.PeerID() || r.Conn.InfoHash() != e.hashes[h] {
					panic("c16: conn fixture identity")
				}
				if k == 2 {
					r.Conn.Close()
				}
				id := connID(h, p, k)
				e.conns[id] = r.Conn
				e.connIdx[r.Conn] = id
			}
		}
	}
	// a port nobody listens on: dials are refused at once
	e.deadPort = findFreePort()
	time.Sleep(50 * time.Millisecond) // let the Close() goroutines of the closed fixtures end
	return e
}

// quiesce waits until the goroutines started by an event handler have ended.
func c16quiesce(base int) bool {
	deadline := time.Now().Add(10 * time.Second)
	for runtime.NumGoroutine() > base {
		if time.Now().After(deadline) {
			return false
		}
		time.Sleep(20 * time.Microsecond)
	}
	return true
}

type c16result struct {
	ops, obs []string
	hist     []string
	changes  int
	incon    bool
}

// c16run executes one history. sched=false: a State made by connstate.New (public API only);
// sched=true: the State inside a scheduler state, event handlers available.
func c16run(e *c16env, cfg c16cfg, ops []c16op, sched bool) c16result {
	var res c16result
	e.clk.set(time.Unix(0, 0))
	cc := connstate.Config{MaxOpenConnectionsPerTorrent: cfg.max, MaxMutualConnections: cfg.mutual,
		DisableBlacklist: cfg.nobl, BlacklistDuration: time.Duration(cfg.dur)}
	var cs *connstate.State
	var st *state
	if sched {
		e.sched.config.ConnState = cc
		st = newState(e.sched, announcequeue.New())
		st.torrentControls = e.controls
		cs = st.conns
		e.loop.take()
	} else {
		cs = connstate.New(cc, e.clk, e.selfID, c16producer{}, zap.NewNop().Sugar())
	}
	pid := func(p int) core.PeerID {
		if p == c16Self {
			return e.selfID
		}
		return e.peerIDs[p]
	}
	add := func(o, r string) { res.ops = append(res.ops, o); res.obs = append(res.obs, r) }
	for _, o := range ops {
		res.hist = append(res.hist, c16names[o.k])
		switch o.k {
		case kAdd:
			nb := make([]core.PeerID, len(o.nbrs))
			for i, x := range o.nbrs {
				nb[i] = pid(x)
			}
			if len(nb) == 0 {
				nb = nil
			}
			err := cs.AddPending(pid(o.p), e.hashes[o.h], nb)
			r := "AlreadyPending"
			switch err {
			case nil:
				r = "AddOk"
				res.changes++
			case connstate.ErrTorrentAtCapacity:
				r = "AtCapacity"
			case connstate.ErrConnAlreadyActive:
				r = "AlreadyActive"
			case connstate.ErrTooManyMutualConns:
				r = "TooManyMutual"
			}
			add(fmt.Sprintf("AddPending %d %d %s", o.p, o.h, hlib.Ns(o.nbrs)), "OAdd "+r)
		case kDelPending:
			cs.DeletePending(pid(o.p), e.hashes[o.h])
			add(fmt.Sprintf("DeletePending %d %d", o.p, o.h), "OUnit")
		case kMove:
			c := e.conns[connID(o.h, o.p, o.c)]
			err := cs.MovePendingToActive(c)
			r := "MoveInvalid"
			switch err {
			case nil:
				r = "MoveOk"
				res.changes++
			case connstate.ErrConnClosed:
				r = "MoveClosed"
			}
			add(fmt.Sprintf("MoveToActive %d %d %d %s", connID(o.h, o.p, o.c), o.p, o.h, hlib.B(c.IsClosed())), "OMove "+r)
		case kDelActive:
			cs.DeleteActive(e.conns[connID(o.h, o.p, o.c)])
			add(fmt.Sprintf("DeleteActive %d %d %d", connID(o.h, o.p, o.c), o.p, o.h), "OUnit")
		case kBlacklist:
			err := cs.Blacklist(pid(o.p), e.hashes[o.h])
			if err == nil {
				res.changes++
			}
			add(fmt.Sprintf("Blacklist %d %d", o.p, o.h), "OBl "+hlib.B(err == nil))
		case kClearBl:
			cs.ClearBlacklist(e.hashes[o.h])
			add(fmt.Sprintf("ClearBlacklist %d", o.h), "OUnit")
		case kTick:
			e.clk.add(time.Duration(o.dt))
			add(fmt.Sprintf("Tick %d", o.dt), "OUnit")
		case kAnnounce:
			ctrl, known := e.controls[e.hashes[o.h]]
			complete := known && ctrl.dispatcher.Complete()
			var infos []*core.PeerInfo
			for _, p := range o.peers {
				infos = append(infos, core.NewPeerInfo(pid(p), "127.0.0.1", e.deadPort, false, false))
			}
			e.loop.take()
			base := runtime.NumGoroutine()
			announceResultEvent{e.hashes[o.h], infos}.apply(st)
			if !c16quiesce(base) {
				res.incon = true
			}
			// every dial goroutine ends by reporting its outcome to the event loop
			seen := map[int]int{}
			for _, ev := range e.loop.take() {
				switch v := ev.(type) {
				case failedOutgoingHandshakeEvent:
					seen[c16peer(e, v.peerID)]++
				case outgoingConnEvent:
					seen[c16peer(e, v.c.PeerID())]++
				}
			}
			// the dials run concurrently: list them in the order of the announce response
			var dialled []int
			for _, p := range o.peers {
				for ; seen[p] > 0; seen[p]-- {
					dialled = append(dialled, p)
				}
			}
			var rest []int
			for p, n := range seen {
				for ; n > 0; n-- {
					rest = append(rest, p)
				}
			}
			sort.Ints(rest)
			dialled = append(dialled, rest...)
			res.changes += len(dialled)
			add(fmt.Sprintf("Announce %d %s %s %d %s", o.h, hlib.B(known), hlib.B(complete), c16Self, hlib.Ns(o.peers)),
				"ODial "+hlib.Ns(dialled))
		case kEvClosed:
			c := e.conns[connID(o.h, o.p, o.c)]
			connClosedEvent{c}.apply(st)
			add(fmt.Sprintf("EvConnClosed %d %d %d", connID(o.h, o.p, o.c), o.p, o.h), "OUnit")
		case kEvFailedOut:
			failedOutgoingHandshakeEvent{pid(o.p), e.hashes[o.h]}.apply(st)
			add(fmt.Sprintf("EvFailedOut %d %d", o.p, o.h), "OUnit")
		case kEvFailedIn:
			failedIncomingHandshakeEvent{pid(o.p), e.hashes[o.h]}.apply(st)
			add(fmt.Sprintf("EvFailedIn %d %d", o.p, o.h), "OUnit")
		case kEvComplete:
			base := runtime.NumGoroutine()
			dispatcherCompleteEvent{e.controls[e.hashes[o.h]].dispatcher}.apply(st)
			if !c16quiesce(base) {
				res.incon = true
			}
			e.loop.take()
			add(fmt.Sprintf("EvComplete %d", o.h), "OUnit")
		case kEvIncoming:
			// a real incoming handshake from peer p announcing the neighbours nbrs, accepted by the
			// scheduler's own handshaker, then incomingHandshakeEvent
			r := c16incoming(e, st, o, pid)
			if r == "" {
				res.incon = true
				r = "AlreadyPending"
			}
			if r == "AddOk" {
				res.changes++
			}
			add(fmt.Sprintf("EvIncoming %d %d %s", o.p, o.h, hlib.Ns(o.nbrs)), "OAdd "+r)
		case kQActive:
			var ids []int
			for _, c := range cs.ActiveConns() {
				id, ok := e.connIdx[c]
				if !ok {
					id = c16Unk
				}
				ids = append(ids, id)
			}
			sort.Ints(ids)
			add("QActive", "OActive "+hlib.Ns(ids))
		case kQSaturated:
			add(fmt.Sprintf("QSaturated %d", o.h), "OBool "+hlib.B(cs.Saturated(e.hashes[o.h])))
		case kQBlacklisted:
			add(fmt.Sprintf("QBlacklisted %d %d", o.p, o.h), "OBool "+hlib.B(cs.Blacklisted(pid(o.p), e.hashes[o.h])))
		case kQSnapshot:
			type ent struct {
				h, p int
				rem  int64
			}
			var es []ent
			for _, b := range cs.BlacklistSnapshot() {
				h, ok := e.hashIdx[b.InfoHash]
				if !ok {
					h = c16Unk
				}
				es = append(es, ent{h, c16peer(e, b.PeerID), int64(b.Remaining)})
			}
			sort.Slice(es, func(i, j int) bool {
				if es[i].h != es[j].h {
					return es[i].h < es[j].h
				}
				return es[i].p < es[j].p
			})
			ss := make([]string, len(es))
			for i, x := range es {
				ss[i] = fmt.Sprintf("(%d, %d, (%d)%%Z)", x.h, x.p, x.rem)
			}
			add("QSnapshot", "OSnap "+hlib.List(ss))
		}
	}
	return res
}

// c16incoming performs a real handshake opened by peer o.p (its neighbours = o.nbrs) and applies
// incomingHandshakeEvent. The pending connection was accepted iff the scheduler went on to
// establish it (incomingConnEvent, or failedIncomingHandshakeEvent when the torrent is unknown).
func c16incoming(e *c16env, st *state, o c16op, pid func(int) core.PeerID) string {
	ln, err := net.Listen("tcp", "127.0.0.1:0")
	if err != nil {
		return ""
	}
	base := runtime.NumGoroutine()
	rb := conn.RemoteBitfields{}
	for _, x := range o.nbrs {
		rb[pid(x)] = bitset.New(e.infos[o.h].Bitfield().Len())
	}
	resc := make(chan *conn.Conn, 1)
	go func() {
		r, err := e.remoteHS[o.p].Initialize(e.selfID, false, ln.Addr().String(), e.infos[o.h], rb, c16NS)
		if err != nil {
			resc <- nil
			return
		}
		resc <- r.Conn
	}()
	nc, err := ln.Accept()
	ln.Close()
	if err != nil {
		return ""
	}
	pc, err := e.sched.handshaker.Accept(nc)
	if err != nil {
		nc.Close()
		<-resc
		return ""
	}
	e.loop.take()
	incomingHandshakeEvent{pc}.apply(st)
	var rc *conn.Conn
	select {
	case rc = <-resc:
	case <-time.After(10 * time.Second):
		return ""
	}
	if !c16quiesce(base) {
		return ""
	}
	res := "AlreadyPending" // refused (reason not observable here)
	for _, ev := range e.loop.take() {
		switch v := ev.(type) {
		case incomingConnEvent:
			res = "AddOk"
			v.c.Close()
		case failedIncomingHandshakeEvent:
			res = "AddOk"
		}
	}
	if rc != nil {
		rc.Close()
	}
	if !c16quiesce(base) {
		return ""
	}
	e.loop.take()
	return res
}

func c16peer(e *c16env, id core.PeerID) int {
	if p, ok := e.peerIdx[id]; ok {
		return p
	}
	return c16Unk
}

// c16drain makes the final state observable through the public API: list the active
// connections and the blacklist, promote whatever is still pending (probe connections, slot 3),
// list again, ask Saturated.
func c16drain(ops []c16op, np, nh int) []c16op {
	ops = append(ops, c16op{k: kQActive}, c16op{k: kQSnapshot})
	for h := 0; h < nh; h++ {
		ops = append(ops, c16op{k: kQSaturated, h: h})
		for p := 0; p < np; p++ {
			ops = append(ops, c16op{k: kQBlacklisted, p: p, h: h})
		}
	}
	for h := 0; h < nh; h++ {
		for p := 0; p < np; p++ {
			ops = append(ops, c16op{k: kMove, c: 3, p: p, h: h})
		}
	}
	ops = append(ops, c16op{k: kQActive})
	for h := 0; h < nh; h++ {
		ops = append(ops, c16op{k: kQSaturated, h: h})
	}
	return ops
}

// ---- generators
type c16shadow struct {
	st map[[2]int]int // (h,p) -> 0 absent, 1 pending, 2+slot active
	bl map[[2]int]bool
}

func c16gen(r *hlib.Rng, np, nh, n int, sched bool, cfg c16cfg) []c16op {
	sh := c16shadow{map[[2]int]int{}, map[[2]int]bool{}}
	var ops []c16op
	durs := []int64{0, 1, cfg.dur - 1, cfg.dur, cfg.dur + 1, 2, 7}
	if cfg.dur == 0 {
		durs = []int64{0, 1, 29999999999, 30000000000, 30000000001, 15000000000}
	}
	for i, d := range durs {
		if d < 0 {
			durs[i] = -d
		}
	}
	pick := func(want int) ([2]int, bool) { // a key whose shadow status is `want` (1 pending, 2 active)
		var ks [][2]int
		for h := 0; h < nh; h++ {
			for p := 0; p < np; p++ {
				s := sh.st[[2]int{h, p}]
				if (want == 1 && s == 1) || (want == 2 && s >= 2) {
					ks = append(ks, [2]int{h, p})
				}
			}
		}
		if len(ks) == 0 {
			return [2]int{r.Intn(nh), r.Intn(np)}, false
		}
		return ks[r.Intn(len(ks))], true
	}
	announce := func(h int) {
		var ps []int
		for i, m := 0, r.Range(1, np+2); i < m; i++ {
			if r.Chance(10) {
				ps = append(ps, c16Self)
			} else {
				ps = append(ps, r.Intn(np))
			}
		}
		hh := h
		if r.Chance(75) {
			hh = r.Intn(2) // mostly a leeching torrent
		}
		// mostly include a peer that was blacklisted for this torrent (maybe expired by now)
		var bls []int
		for q := 0; q < np; q++ {
			if sh.bl[[2]int{hh, q}] {
				bls = append(bls, q)
			}
		}
		if len(bls) > 0 && r.Chance(70) {
			at := r.Intn(len(ps) + 1)
			ps = append(ps[:at], append([]int{bls[r.Intn(len(bls))]}, ps[at:]...)...)
		}
		ops = append(ops, c16op{k: kAnnounce, h: hh, peers: ps})
		for _, q := range ps {
			if q != c16Self && sh.st[[2]int{hh, q}] == 0 {
				sh.st[[2]int{hh, q}] = 1
			}
		}
	}
	for len(ops) < n {
		h, p := r.Intn(nh), r.Intn(np)
		if sched && r.Chance(8) {
			announce(h)
			continue
		}
		x := r.Intn(100)
		switch {
		case x < 22: // AddPending, sometimes with neighbours; mostly for a peer that holds no slot
			if r.Chance(60) {
				for try := 0; try < 6 && sh.st[[2]int{h, p}] != 0; try++ {
					h, p = r.Intn(nh), r.Intn(np)
				}
			}
			var nb []int
			tight := cfg.mutual == 1 && cfg.max >= 3 // room below the capacity, tight mutual limit
			if r.Chance(55) || (tight && r.Chance(70)) {
				// neighbours: mostly peers that hold a slot for this torrent, so the mutual limit is met
				var held []int
				for q := 0; q < np; q++ {
					if q != p && sh.st[[2]int{h, q}] != 0 {
						held = append(held, q)
					}
				}
				for i, m := 0, r.Range(1, 3); i < m; i++ {
					if len(held) > 0 && (tight || r.Chance(70)) {
						nb = append(nb, held[r.Intn(len(held))])
					} else {
						nb = append(nb, r.Intn(np))
					}
				}
			}
			if sched && (r.Chance(35) || (tight && r.Chance(50))) { // the same through a real incoming handshake (neighbours are a set)
				seen := map[int]bool{}
				var set []int
				for _, x := range nb {
					if !seen[x] {
						seen[x] = true
						set = append(set, x)
					}
				}
				sort.Ints(set)
				ops = append(ops, c16op{k: kEvIncoming, p: p, h: h, nbrs: set})
			} else {
				ops = append(ops, c16op{k: kAdd, p: p, h: h, nbrs: nb})
			}
			if sh.st[[2]int{h, p}] == 0 {
				sh.st[[2]int{h, p}] = 1 // optimistic; the shadow only steers the generator
			}
		case x < 38: // MoveToActive: mostly a pending key; sometimes closed / not pending
			k, _ := pick(1)
			if r.Chance(20) {
				k = [2]int{h, p}
			}
			slot := r.Intn(2)
			if r.Chance(8) {
				slot = 2
			}
			ops = append(ops, c16op{k: kMove, c: slot, p: k[1], h: k[0]})
			if sh.st[k] == 1 && slot != 2 {
				sh.st[k] = 2 + slot
			}
		case x < 50: // DeleteActive: the stored connection, or the other (older) one of the same key
			k, ok := pick(2)
			slot := r.Intn(2)
			if ok && r.Chance(55) {
				slot = sh.st[k] - 2
			}
			kind := kDelActive
			if sched && r.Chance(40) {
				kind = kEvClosed
			}
			ops = append(ops, c16op{k: kind, c: slot, p: k[1], h: k[0]})
			if kind == kEvClosed {
				sh.bl[k] = true
			}
			if sh.st[k] == 2+slot {
				sh.st[k] = 0
			}
		case x < 58: // DeletePending
			k, _ := pick(1)
			if r.Chance(25) {
				k = [2]int{h, p}
			}
			kind := kDelPending
			if sched && r.Chance(50) {
				kind = []int{kEvFailedOut, kEvFailedIn}[r.Intn(2)]
			}
			ops = append(ops, c16op{k: kind, p: k[1], h: k[0]})
			if kind == kEvFailedOut {
				sh.bl[k] = true
			}
			if sh.st[k] == 1 {
				sh.st[k] = 0
			}
		case x < 68:
			ops = append(ops, c16op{k: kBlacklist, p: p, h: h})
			sh.bl[[2]int{h, p}] = true
		case x < 71:
			kind := kClearBl
			if sched && h < 3 && r.Chance(50) {
				kind = kEvComplete
			}
			ops = append(ops, c16op{k: kind, h: h})
		case x < 82:
			ops = append(ops, c16op{k: kTick, dt: durs[r.Intn(len(durs))]})
		case x < 86:
			ops = append(ops, c16op{k: kQActive})
		case x < 90:
			ops = append(ops, c16op{k: kQBlacklisted, p: p, h: h})
		case x < 92:
			ops = append(ops, c16op{k: kQSaturated, h: h})
		case x < 93:
			ops = append(ops, c16op{k: kQSnapshot})
		default:
			if !sched {
				ops = append(ops, c16op{k: kQBlacklisted, p: p, h: h})
				continue
			}
			announce(h)
		}
	}
	return ops
}

func c16driver(ctx *hlib.Ctx) {
	os.Setenv("TMPDIR", ctx.Tmp)
	e := c16setup(ctx.Tmp)
	r := hlib.NewRng(ctx.Seed)
	emit := func(cfg c16cfg, ops []c16op, sched bool, kind string) {
		res := c16run(e, cfg, ops, sched)
		so, sb := hlib.List(res.ops), hlib.List(res.obs)
		ctx.Emit(hlib.Case{Coq: "mkcase " + cfg.coq() + " " + so + " " + sb, NT: res.changes >= 2, Kind: kind,
			Hist: res.hist, Incon: res.incon, Sample: map[string]string{"cfg": cfg.coq(), "ops": so, "obs": sb}})
	}
	A := func(p, h int, nb ...int) c16op { return c16op{k: kAdd, p: p, h: h, nbrs: nb} }
	M := func(c, p, h int) c16op { return c16op{k: kMove, c: c, p: p, h: h} }
	DA := func(c, p, h int) c16op { return c16op{k: kDelActive, c: c, p: p, h: h} }
	DP := func(p, h int) c16op { return c16op{k: kDelPending, p: p, h: h} }
	BL := func(p, h int) c16op { return c16op{k: kBlacklist, p: p, h: h} }
	QB := func(p, h int) c16op { return c16op{k: kQBlacklisted, p: p, h: h} }
	T := func(dt int64) c16op { return c16op{k: kTick, dt: dt} }
	AN := func(h int, ps ...int) c16op { return c16op{k: kAnnounce, h: h, peers: ps} }
	QA := c16op{k: kQActive}

	// ---- seeds (always run): the witnesses of Properties/C16.v and the boundaries reasoned about
	c2 := c16cfg{max: 2, mutual: 1, dur: 10}
	// replaced connection: conn 0 of (p0,h0) is dropped, the peer reconnects with conn 1, then the
	// late close of conn 0 arrives
	emit(c2, c16drain([]c16op{A(0, 0), M(0, 0, 0), DA(0, 0, 0), A(0, 0), M(1, 0, 0), DA(0, 0, 0), QA, DA(1, 0, 0), QA}, 3, 2), false, "seed-replaced-conn")
	emit(c2, c16drain([]c16op{A(0, 0), M(0, 0, 0), DA(0, 0, 0), A(0, 0), M(1, 0, 0), {k: kEvClosed, c: 0, p: 0, h: 0}, QA, QB(0, 0)}, 3, 2), true, "seed-replaced-conn-event")
	// capacity boundary: max-1, max, max+1 adds; free one; add again
	emit(c2, c16drain([]c16op{A(0, 0), A(1, 0), A(2, 0), A(0, 1), M(0, 0, 0), A(2, 0), DP(1, 0), A(2, 0), A(3, 0), M(0, 2, 0), QA}, 4, 2), false, "seed-capacity")
	// exclusive state: add twice, add while active, move twice
	emit(c2, c16drain([]c16op{A(0, 0), A(0, 0), M(0, 0, 0), A(0, 0), M(1, 0, 0), DP(0, 0), QA}, 2, 1), false, "seed-exclusive")
	// mutual limit boundary (limit 1): 0, 1, 2 connected neighbours; duplicates count twice
	emit(c16cfg{max: 5, mutual: 1, dur: 10}, c16drain([]c16op{A(0, 0), A(1, 0), M(0, 1, 0), A(2, 0, 3), A(2, 0, 0), DP(2, 0), A(2, 0, 0, 1), A(2, 0, 0, 0), A(2, 0, 0, 3, 4), A(2, 1, 0, 1)}, 5, 2), false, "seed-mutual")
	// blacklist boundaries: expiry at exactly dur; re-blacklist while blacklisted; clear
	emit(c2, c16drain([]c16op{BL(0, 0), QB(0, 0), BL(0, 0), T(9), QB(0, 0), T(1), QB(0, 0), BL(0, 0), T(10), BL(1, 0), BL(1, 1), {k: kClearBl, h: 0}, QB(1, 0), QB(1, 1), {k: kQSnapshot}}, 2, 2), false, "seed-blacklist")
	emit(c16cfg{max: 2, nobl: true, dur: 10}, c16drain([]c16op{BL(0, 0), QB(0, 0), BL(0, 0)}, 2, 1), false, "seed-blacklist-disabled")
	// defaults: max 0 -> 10, mutual 0 -> max, duration 0 -> 30 s
	var d []c16op
	for p := 0; p < 12; p++ {
		d = append(d, A(p, 0))
	}
	d = append(d, BL(0, 0), T(29999999999), QB(0, 0), T(1), QB(0, 0), A(11, 1, 0, 1, 2, 3, 4, 5, 6, 7, 8, 9), DP(0, 0), A(11, 0, 1, 2, 3, 4, 5, 6, 7, 8, 9, 10))
	emit(c16cfg{}, c16drain(d, 12, 2), false, "seed-defaults")
	// configuration outside the documented domain
	emit(c16cfg{max: -1, mutual: -1, dur: -5}, c16drain([]c16op{A(0, 0), A(1, 0), BL(0, 0), QB(0, 0)}, 3, 1), false, "seed-negative-config")
	emit(c16cfg{max: -1, mutual: 3, dur: 5}, c16drain([]c16op{A(0, 0), A(1, 0), A(2, 0), M(0, 0, 0), BL(0, 0), QB(0, 0)}, 3, 1), false, "seed-negative-max")
	// the dial decision: self, blacklisted, expired, duplicate, connected, capacity, complete, unknown
	emit(c16cfg{max: 3, dur: 10}, c16drain([]c16op{BL(1, 0), A(2, 0), AN(0, c16Self, 1, 2, 3, 3, 4, 5, 6), QB(1, 0), T(10), AN(0, 1), AN(1, 1, 2), AN(2, 0, 1), AN(3, 0, 1)}, 7, 4), true, "seed-announce")
	emit(c16cfg{max: 3, dur: 10}, c16drain([]c16op{{k: kEvFailedOut, p: 1, h: 0}, AN(0, 1, 2), T(9), AN(0, 1), T(1), AN(0, 1), {k: kEvFailedOut, p: 1, h: 0}, AN(0, 1), {k: kEvComplete, h: 0}, AN(0, 1)}, 3, 2), true, "seed-announce-expiry")

	// incoming handshakes: mutual limit 1 with 1 and 2 connected neighbours, unknown and complete torrents, capacity
	IN := func(p, h int, nb ...int) c16op { return c16op{k: kEvIncoming, p: p, h: h, nbrs: nb} }
	emit(c16cfg{max: 3, mutual: 1, dur: 10}, c16drain([]c16op{A(0, 0), A(1, 0), IN(2, 0, 0), DP(2, 0), IN(2, 0, 0, 1), IN(2, 0, 3, 4), IN(2, 0), IN(3, 0), IN(0, 3), IN(1, 2, 0), IN(0, 0)}, 5, 4), true, "seed-incoming-handshake")

	// ---- thorough: every history of length <= 3 over a 10-operation alphabet and every history of
	// length 4 over the 7 connection-state operations (validates R; not the proof)
	if ctx.Tier == "thorough" {
		alpha := []c16op{A(0, 0), A(1, 0), DP(0, 0), M(0, 0, 0), M(1, 0, 0), DA(0, 0, 0), DA(1, 0, 0), BL(0, 0), T(5), A(1, 0, 0)}
		c1 := c16cfg{max: 1, mutual: 1, dur: 5}
		var rec func(al, prefix []c16op, depth, minLen int)
		rec = func(al, prefix []c16op, depth, minLen int) {
			if len(prefix) >= minLen {
				emit(c1, c16drain(append([]c16op{}, prefix...), 2, 1), false, "exhaustive")
			}
			if depth == 0 {
				return
			}
			for _, a := range al {
				rec(al, append(prefix, a), depth-1, minLen)
			}
		}
		rec(alpha, nil, 3, 1)
		rec(alpha[:7], nil, 4, 4)
	}

	// ---- random histories
	maxLen := 30
	if ctx.Tier == "thorough" {
		maxLen = 80
	}
	for i := 0; i < ctx.N; i++ {
		q := r.Fork()
		sched := i%3 == 2
		cfg := c16cfg{max: q.Range(1, 3), mutual: []int{0, 0, 1, 2}[q.Intn(4)], dur: []int64{1, 5, 10, 1000}[q.Intn(4)]}
		if q.Chance(25) { // room below the capacity, tight mutual limit
			cfg.max, cfg.mutual = q.Range(3, 5), 1
		}
		np, nh := 4, 2
		kind := "random-connstate"
		if sched {
			kind = "random-scheduler"
			nh = 3
			if q.Chance(30) {
				nh = 4
			}
		}
		switch v := q.Intn(100); {
		case v < 6: // defaults
			cfg = c16cfg{}
			np, nh = 12, 1
			kind += "-defaults"
		case v < 10:
			cfg.nobl = true
			kind += "-noblacklist"
		case v < 22: // configuration outside the documented domain (malformed stream)
			cfg = c16cfg{max: []int{-1, -3, 1, 2}[q.Intn(4)], mutual: []int{-1, -2, 1}[q.Intn(3)], dur: []int64{-5, 5, 0}[q.Intn(3)]}
			kind += "-malformed-config"
		}
		ops := c16gen(q, np, nh, q.Range(1, maxLen), sched, cfg)
		emit(cfg, c16drain(ops, np, nh), sched, kind)
	}
}
