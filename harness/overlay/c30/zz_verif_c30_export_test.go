//go:build verif

package persistedretry

// In-package half of the C30 driver: gives the external test package (which can import the
// SQLite-backed stores without an import cycle) access to the manager's internals.

// VerifPollRetries runs one pass of the retry poller (what tickerLoop does on every tick).
func VerifPollRetries(m Manager) { m.(*manager).pollRetries() }

// VerifQueueLens returns len(incoming), len(retries).
func VerifQueueLens(m Manager) (int, int) {
	mm := m.(*manager)
	return len(mm.incoming), len(mm.retries)
}

// VerifClosed reports the closed flag.
func VerifClosed(m Manager) bool { return m.(*manager).closed.Load() }
