//go:build verif

package persistedretry_test

// Driver for property C30 (retried tasks run until they succeed, across failures and
// restarts).  The real persistedretry.Manager runs on the real SQLite-backed writeback.Store.
// The store is wrapped by a pass-through that parks every call at a gate before and after the
// real call; the executor parks every Exec at a gate.  A single controller releases one
// gate at a time, so every history is a deterministic sequence of the atomic steps of
// K.Model.Retry (one store call / one channel operation each).  A crash kills every thread of
// the current manager at its gate (runtime.Goexit, nothing further touches the database) and a
// new manager is started on the same database file.  Time passes by back-dating the rows.

import (
	"errors"
	"fmt"
	"io"
	stdlog "log"
	"os"
	"path/filepath"
	"runtime"
	"sort"
	"strings"
	"sync"
	"testing"
	"time"

	"github.com/jmoiron/sqlx"
	"github.com/uber-go/tally"
	"go.uber.org/zap"

	. "github.com/uber/kraken/lib/persistedretry"
	"github.com/uber/kraken/core"
	"github.com/uber/kraken/lib/persistedretry/tagreplication"
	"github.com/uber/kraken/lib/persistedretry/writeback"
	"github.com/uber/kraken/localdb"
	"github.com/uber/kraken/utils/log"
	"github.com/uber/kraken/utils/verifhlib"
)

func TestVerifC30(t *testing.T) { verifhlib.MainEnv("C30", c30driver) }

const c30unit = time.Hour // one logical time unit

var c30dbMu sync.Mutex // goose keeps global state: open databases one at a time

// ---- the two SQLite-backed stores of the anchored code ----

type c30kind struct {
	name     string
	table    string
	k1, k2   string
	newStore func(db *sqlx.DB) Store
	newTask  func(id int, delay time.Duration) Task
	key      func(t Task) (string, bool)
	age      func(t Task, by time.Duration)
}

type c30allValid struct{}

func (c30allValid) Valid(tag, addr string) bool { return true }

var c30writeback = &c30kind{
	name: "writeback", table: "writeback_task", k1: "namespace", k2: "name",
	newStore: func(db *sqlx.DB) Store { return writeback.NewStore(db) },
	newTask: func(id int, delay time.Duration) Task {
		return writeback.NewTask(fmt.Sprintf("a%d", id%2), fmt.Sprintf("b%d", id/2), delay)
	},
	key: func(t Task) (string, bool) {
		w, ok := t.(*writeback.Task)
		if !ok {
			return "", false
		}
		return w.Namespace + "/" + w.Name, true
	},
	age: func(t Task, by time.Duration) {
		if w, ok := t.(*writeback.Task); ok {
			w.CreatedAt = w.CreatedAt.Add(-by)
			if w.LastAttempt.Year() > 1000 {
				w.LastAttempt = w.LastAttempt.Add(-by)
			}
		}
	},
}

var c30tagrepl = &c30kind{
	name: "tagreplication", table: "replicate_tag_task", k1: "destination", k2: "tag",
	newStore: func(db *sqlx.DB) Store {
		s, err := tagreplication.NewStore(db, c30allValid{})
		if err != nil {
			panic(err)
		}
		return s
	},
	newTask: func(id int, delay time.Duration) Task {
		return tagreplication.NewTask(fmt.Sprintf("b%d", id/2), core.DigestFixture(), core.DigestListFixture(2), fmt.Sprintf("a%d", id%2), delay)
	},
	key: func(t Task) (string, bool) {
		w, ok := t.(*tagreplication.Task)
		if !ok {
			return "", false
		}
		return w.Destination + "/" + w.Tag, true
	},
	age: func(t Task, by time.Duration) {
		if w, ok := t.(*tagreplication.Task); ok {
			w.CreatedAt = w.CreatedAt.Add(-by)
			if w.LastAttempt.Year() > 1000 {
				w.LastAttempt = w.LastAttempt.Add(-by)
			}
		}
	},
}

// ---- gates ----

type c30reply struct {
	die bool
	ok  bool
}

type c30evt struct {
	gen    int
	done   string // "" for a gate; "add" | "poll" | "start" | "close" for a finished thread
	phase  int    // 0 before the call, 1 after
	call   string
	task   int
	ptr    Task
	err    error
	list   []int
	ptrs   []Task
	a      int
	mgr    Manager
	resume chan c30reply
}

type c30env struct {
	ev   chan *c30evt
	pend []*c30evt
	mu   sync.Mutex
	dead map[int]bool
	ids  map[string]int
	kind *c30kind
}

func (e *c30env) isDead(gen int) bool {
	e.mu.Lock()
	defer e.mu.Unlock()
	return e.dead[gen]
}

func (e *c30env) taskID(t Task) int {
	if k, ok := e.kind.key(t); ok {
		if id, ok := e.ids[k]; ok {
			return id
		}
	}
	return 999
}

// gate parks the calling thread until the controller releases it.
func (e *c30env) gate(gen, phase int, call string, t Task, err error, list []Task) c30reply {
	if e.isDead(gen) {
		runtime.Goexit()
	}
	g := &c30evt{gen: gen, phase: phase, call: call, task: -1, ptr: t, err: err, resume: make(chan c30reply, 1)}
	if t != nil {
		g.task = e.taskID(t)
	}
	for _, x := range list {
		g.list = append(g.list, e.taskID(x))
		g.ptrs = append(g.ptrs, x)
	}
	e.ev <- g
	r := <-g.resume
	if r.die {
		runtime.Goexit()
	}
	return r
}

// ---- pass-through store ----

type c30store struct {
	inner Store
	env   *c30env
	gen   int
}

func (s *c30store) call1(call string, t Task, f func(Task) error) error {
	s.env.gate(s.gen, 0, call, t, nil, nil)
	err := f(t)
	s.env.gate(s.gen, 1, call, t, err, nil)
	return err
}
func (s *c30store) callL(call string, f func() ([]Task, error)) ([]Task, error) {
	s.env.gate(s.gen, 0, call, nil, nil, nil)
	l, err := f()
	s.env.gate(s.gen, 1, call, nil, err, l)
	return l, err
}
func (s *c30store) AddPending(t Task) error  { return s.call1("AddPending", t, s.inner.AddPending) }
func (s *c30store) AddFailed(t Task) error   { return s.call1("AddFailed", t, s.inner.AddFailed) }
func (s *c30store) MarkPending(t Task) error { return s.call1("MarkPending", t, s.inner.MarkPending) }
func (s *c30store) MarkFailed(t Task) error  { return s.call1("MarkFailed", t, s.inner.MarkFailed) }
func (s *c30store) Remove(t Task) error      { return s.call1("Remove", t, s.inner.Remove) }
func (s *c30store) GetPending() ([]Task, error) {
	return s.callL("GetPending", s.inner.GetPending)
}
func (s *c30store) GetFailed() ([]Task, error)            { return s.callL("GetFailed", s.inner.GetFailed) }
func (s *c30store) Find(q interface{}) ([]Task, error)    { return s.inner.Find(q) }

type c30exec struct {
	env *c30env
	gen int
}

func (x *c30exec) Name() string { return "verif" }
func (x *c30exec) Exec(t Task) error {
	r := x.env.gate(x.gen, 0, "Exec", t, nil, nil)
	if r.ok {
		return nil
	}
	return errors.New("scripted failure")
}

// ---- controller ----

type c30cfg struct{ inbuf, rebuf, inw, rew, ri int }

type c30work struct {
	task int
	kind int // 0 incoming, 1 retries
	fin  bool
	g    *c30evt
}
type c30add struct {
	a, task, state int // state 0: at the store call, 1: stored pending, 2: overflow decided
	g              *c30evt
}
type c30poll struct {
	pos  int // 0 after GetFailed, 1 before MarkPending(next), 2 returned, 3 after MarkPending(cur), 4 before MarkFailed(cur)
	next int
	cur  int
	rem  []int
	snap []Task // the task objects GetFailed returned (they age with the clock)
	g    *c30evt
}

type c30case struct {
	env    *c30env
	dir    string
	db     *sqlx.DB
	mgr    Manager
	gen    int
	cfg    c30cfg
	alive  bool
	closed bool
	now    int
	q      [2][]int
	run    []*c30work
	adds   []*c30add
	poll   *c30poll
	nextA  int
	ops    []string
	outs   []string
	hist   []string
	incon  bool
	// statistics for the non-triviality rule
	added, faults, removed int
	unexpected             int
	tags                   map[string]bool
}

var c30errTimeout = errors.New("timeout")

func (c *c30case) emit(op, out string) {
	c.ops = append(c.ops, op)
	c.outs = append(c.outs, out)
	c.hist = append(c.hist, strings.SplitN(op, " ", 2)[0])
}

// await returns the first parked or arriving event accepted by match.
func (c *c30case) await(match func(*c30evt) bool) *c30evt {
	for i, g := range c.env.pend {
		if match(g) {
			c.env.pend = append(c.env.pend[:i:i], c.env.pend[i+1:]...)
			return g
		}
	}
	timer := time.NewTimer(20 * time.Second)
	defer timer.Stop()
	for {
		select {
		case g := <-c.env.ev:
			if c.env.isDead(g.gen) {
				if g.done == "" {
					g.resume <- c30reply{die: true}
				}
				continue
			}
			if match(g) {
				return g
			}
			if g.done != "" || g.call == "Exec" {
				// a finished thread, or a worker that dequeued: consumed later
				c.env.pend = append(c.env.pend, g)
				continue
			}
			// every other thread is parked, so this store call is one the model does not expect
			// here: let it happen (the observations will show its effect) and keep waiting
			c.unexpected++
			g.resume <- c30reply{}
		case <-timer.C:
			c.incon = true
			return nil
		}
	}
}

func c30gate(phase int, call string, ptr Task) func(*c30evt) bool {
	return func(g *c30evt) bool { return g.done == "" && g.phase == phase && g.call == call && (ptr == nil || g.ptr == ptr) }
}
func c30done(kind string, a int) func(*c30evt) bool {
	return func(g *c30evt) bool { return g.done == kind && (kind != "add" || g.a == a) }
}
func c30or(fs ...func(*c30evt) bool) func(*c30evt) bool {
	return func(g *c30evt) bool {
		for _, f := range fs {
			if f(g) {
				return true
			}
		}
		return false
	}
}

func (c *c30case) taskFor(id int, d int) Task {
	delay := time.Duration(0)
	if d > 0 {
		delay = time.Duration(d)*c30unit - c30unit/2
	}
	return c.env.kind.newTask(id, delay)
}

func (c *c30case) idle(kind int) int {
	n := c.cfg.inw
	if kind == 1 {
		n = c.cfg.rew
	}
	for _, w := range c.run {
		if w.kind == kind {
			n--
		}
	}
	return n
}

// takeDeq records an Exec-entry gate as a dequeue.
func (c *c30case) takeDeq(g *c30evt) {
	kind := -1
	for k := 0; k < 2; k++ {
		if len(c.q[k]) > 0 && c.q[k][0] == g.task && c.idle(k) > 0 {
			kind = k
			break
		}
	}
	if kind < 0 { // not what the bookkeeping expects: attribute it to a queue that is not empty
		for k := 0; k < 2; k++ {
			if len(c.q[k]) > 0 {
				kind = k
				break
			}
		}
	}
	if kind < 0 {
		kind = 0
	} else {
		c.q[kind] = c.q[kind][1:]
	}
	c.run = append(c.run, &c30work{task: g.task, kind: kind, g: g})
	c.emit("OpDeq "+[]string{"QIn", "QRe"}[kind], fmt.Sprintf("ODeq %d", g.task))
}

// settle waits for every dequeue that must happen (a free worker and a waiting task).
func (c *c30case) settle() {
	if !c.alive || c.closed || c.incon {
		return
	}
	for k := 0; k < 2; k++ {
		for len(c.q[k]) > 0 && c.idle(k) > 0 {
			g := c.await(c30gate(0, "Exec", nil))
			if g == nil {
				// no Exec within the time limit.  If the task has left the channel, a worker took it
				// and did not execute it: that is not a scheduling delay but an observation.
				li, lr := VerifQueueLens(c.mgr)
				if []int{li, lr}[k] < len(c.q[k]) {
					c.incon = false
					c.unexpected++
					c.q[k] = c.q[k][1:]
					continue
				}
				return
			}
			c.takeDeq(g)
		}
	}
}

func (c *c30case) openDB() {
	if c.db != nil {
		c.db.Close()
	}
	c30dbMu.Lock()
	db, err := localdb.New(localdb.Config{Source: filepath.Join(c.dir, "retry.db")})
	c30dbMu.Unlock()
	if err != nil {
		panic(err)
	}
	// the process never really dies here, so durability of each statement need not be paid for
	db.MustExec(`PRAGMA synchronous=OFF`)
	c.db = db
}

type c30rowT struct {
	Namespace   string    `db:"k1"`
	Name        string    `db:"k2"`
	CreatedAt   time.Time `db:"created_at"`
	LastAttempt time.Time `db:"last_attempt"`
	Status      string    `db:"status"`
	Failures    int       `db:"failures"`
}

func (c *c30case) rows() []c30rowT {
	var rs []c30rowT
	k := c.env.kind
	if err := c.db.Select(&rs, fmt.Sprintf(`SELECT %s AS k1, %s AS k2, created_at, last_attempt, status, failures FROM %s`, k.k1, k.k2, k.table)); err != nil {
		panic(err)
	}
	return rs
}

func (c *c30case) observe() {
	c.settle()
	if c.incon {
		return
	}
	rs := c.rows()
	var rows []string
	type kv struct {
		id int
		s  string
	}
	var tmp []kv
	for _, r := range rs {
		id, ok := c.env.ids[r.Namespace+"/"+r.Name]
		if !ok {
			id = 999
		}
		st := "Failed"
		if r.Status == "pending" {
			st = "Pending"
		}
		age := "None"
		if r.LastAttempt.Year() > 1000 {
			el := time.Since(r.LastAttempt)
			age = fmt.Sprintf("(Some %d)", int((el+c30unit/2)/c30unit))
		}
		tmp = append(tmp, kv{id, fmt.Sprintf("mkorow %d %s %d %s", id, st, r.Failures, age)})
	}
	sort.Slice(tmp, func(i, j int) bool { return tmp[i].id < tmp[j].id })
	for _, x := range tmp {
		rows = append(rows, x.s)
	}
	li, lr := 0, 0
	var ex []int
	if c.alive {
		li, lr = VerifQueueLens(c.mgr)
		for _, w := range c.run {
			ex = append(ex, w.task)
		}
		sort.Ints(ex)
	}
	c.emit("OpObserve", fmt.Sprintf("OObs (mkobs %s %s %d %d %s)", verifhlib.List(rows), verifhlib.B(c.alive), li, lr, verifhlib.Ns(ex)))
}

func (c *c30case) tick(dt int) {
	if dt > 0 {
		for _, r := range c.rows() {
			cr := r.CreatedAt.Add(-time.Duration(dt) * c30unit)
			la := r.LastAttempt
			if la.Year() > 1000 {
				la = la.Add(-time.Duration(dt) * c30unit)
			}
			k := c.env.kind
			if _, err := c.db.Exec(fmt.Sprintf(`UPDATE %s SET created_at=?, last_attempt=? WHERE %s=? AND %s=?`, k.table, k.k1, k.k2), cr, la, r.Namespace, r.Name); err != nil {
				panic(err)
			}
		}
	}
	if c.poll != nil && dt > 0 { // the poller's snapshot lives in memory: the same time passes for it
		for _, x := range c.poll.snap {
			c.env.kind.age(x, time.Duration(dt)*c30unit)
		}
	}
	c.now += dt
	c.emit(fmt.Sprintf("OpTick %d", dt), "ODone")
}

// start runs NewManager on the database file; crashAfter >= 0 kills the process after that
// many MarkFailed calls of markPendingTasksAsFailed.
func (c *c30case) start(crashAfter int) {
	c.gen++
	gen := c.gen
	c.openDB() // a restarted process opens the database file again (localdb.New: migrations)
	db := c.db
	st := &c30store{inner: c.env.kind.newStore(db), env: c.env, gen: gen}
	ex := &c30exec{env: c.env, gen: gen}
	conf := Config{
		IncomingBuffer: c.cfg.inbuf, RetryBuffer: c.cfg.rebuf,
		NumIncomingWorkers: c.cfg.inw, NumRetryWorkers: c.cfg.rew,
		MaxTaskThroughput:            time.Nanosecond,
		RetryInterval:                time.Duration(c.cfg.ri)*c30unit + c30unit/2,
		PollRetriesInterval:          10000 * time.Hour,
		WorkqueueMetricsEmitInterval: 10000 * time.Hour,
	}
	env := c.env
	go func() {
		m, err := NewManager(conf, tally.NoopScope, st, ex)
		env.ev <- &c30evt{gen: gen, done: "start", mgr: m, err: err}
	}()
	g := c.await(c30gate(0, "GetPending", nil))
	if g == nil {
		return
	}
	g.resume <- c30reply{}
	g = c.await(c30gate(1, "GetPending", nil))
	if g == nil {
		return
	}
	order := g.list
	g.resume <- c30reply{}
	marked := 0
	for {
		g = c.await(c30or(c30gate(0, "MarkFailed", nil), c30done("start", 0)))
		if g == nil {
			return
		}
		if g.done == "start" {
			if g.err != nil {
				// NewManager refused to start (the model never does): nothing is alive; what it did to
				// the table shows in the next observation
				c.kill()
				c.emit("OpStart "+verifhlib.Ns(order), "OIllegal")
				return
			}
			c.mgr = g.mgr
			c.alive, c.closed = true, false
			if crashAfter >= 0 { // died after marking everything: same as a crash right after the start
				c.kill()
				c.emit(fmt.Sprintf("OpStartCrash %s %d", verifhlib.Ns(order), crashAfter), "ODone")
				return
			}
			c.emit("OpStart "+verifhlib.Ns(order), "ODone")
			return
		}
		if crashAfter >= 0 && marked == crashAfter {
			c.env.pend = append(c.env.pend, g)
			c.kill()
			c.emit(fmt.Sprintf("OpStartCrash %s %d", verifhlib.Ns(order), crashAfter), "ODone")
			return
		}
		g.resume <- c30reply{}
		g = c.await(c30gate(1, "MarkFailed", nil))
		if g == nil {
			return
		}
		g.resume <- c30reply{}
		marked++
	}
}

// kill ends every thread of the current generation without any further database access.
func (c *c30case) kill() {
	c.env.mu.Lock()
	c.env.dead[c.gen] = true
	c.env.mu.Unlock()
	var keep []*c30evt
	for _, g := range c.env.pend {
		if g.gen == c.gen {
			if g.done == "" {
				g.resume <- c30reply{die: true}
			}
		} else {
			keep = append(keep, g)
		}
	}
	c.env.pend = keep
	for _, w := range c.run {
		w.g.resume <- c30reply{die: true}
	}
	for _, a := range c.adds {
		a.g.resume <- c30reply{die: true}
	}
	if c.poll != nil && c.poll.g != nil {
		c.poll.g.resume <- c30reply{die: true}
	}
	if c.mgr != nil {
		m := c.mgr
		go m.Close()
	}
	c.run, c.adds, c.poll = nil, nil, nil
	c.q = [2][]int{}
	c.mgr, c.alive, c.closed = nil, false, false
}

func (c *c30case) crash() {
	c.kill()
	c.emit("OpCrash", "ODone")
}

// shutdown = Close, let every busy worker finish (outcomes from next), wait for Close to return.
func (c *c30case) shutdown(next func(task int) bool) {
	m, env, gen := c.mgr, c.env, c.gen
	go func() {
		m.Close()
		env.ev <- &c30evt{gen: gen, done: "close"}
	}()
	for i := 0; !VerifClosed(m) && i < 200000; i++ {
		runtime.Gosched()
	}
	c.closed = true
	c.emit("OpClose", "ODone")
	for !c.incon {
		if len(c.run) > 0 {
			w := c.run[0]
			if !w.fin {
				c.execRet(w.task, next(w.task))
			}
			c.execFin(w.task)
			continue
		}
		g := c.await(c30or(c30gate(0, "Exec", nil), c30done("close", 0)))
		if g == nil {
			return
		}
		if g.done == "close" {
			break
		}
		c.takeDeq(g)
	}
	c.emit("OpCloseDone", "ODone")
}

func (c *c30case) addCheck(t, d int) *c30add {
	a := c.nextA
	c.nextA++
	task := c.taskFor(t, d)
	m, env, gen := c.mgr, c.env, c.gen
	go func() {
		err := m.Add(task)
		env.ev <- &c30evt{gen: gen, done: "add", a: a, err: err}
	}()
	g := c.await(c30or(c30gate(0, "AddPending", task), c30gate(0, "AddFailed", task), c30done("add", a)))
	if g == nil {
		return nil
	}
	op := fmt.Sprintf("OpAddCheck %d %d %d", a, t, d)
	if g.done == "add" {
		if g.err == ErrManagerClosed {
			c.emit(op, "OClosed")
		} else {
			c.emit(op, "OIllegal")
		}
		return nil
	}
	c.emit(op, "ODone")
	th := &c30add{a: a, task: t, g: g}
	c.adds = append(c.adds, th)
	c.added++
	return th
}

func (c *c30case) dropAdd(th *c30add) {
	for i, x := range c.adds {
		if x == th {
			c.adds = append(c.adds[:i:i], c.adds[i+1:]...)
		}
	}
}

// finishAdd waits for Add to return; wantErr says whether an error is the expected result.
func (c *c30case) finishAdd(th *c30add, wantErr bool) bool {
	g := c.await(c30done("add", th.a))
	c.dropAdd(th)
	if g == nil {
		return false
	}
	return (g.err != nil) == wantErr
}

func (c *c30case) addStep(th *c30add) {
	op := ""
	switch th.state {
	case 0:
		op = fmt.Sprintf("OpAddStore %d", th.a)
		call, ptr := th.g.call, th.g.ptr
		th.g.resume <- c30reply{}
		g := c.await(c30gate(1, call, ptr))
		if g == nil {
			return
		}
		switch {
		case g.err == ErrTaskExists:
			g.resume <- c30reply{}
			if c.finishAdd(th, false) {
				c.emit(op, "OExists")
			} else {
				c.emit(op, "OIllegal")
			}
		case g.err != nil:
			panic(g.err)
		case call == "AddFailed":
			g.resume <- c30reply{}
			if c.finishAdd(th, false) {
				c.emit(op, "OStored Failed")
			} else {
				c.emit(op, "OIllegal")
			}
		default:
			th.g, th.state = g, 1
			c.emit(op, "OStored Pending")
		}
	case 1:
		op = fmt.Sprintf("OpAddEnq %d", th.a)
		ptr := th.g.ptr
		th.g.resume <- c30reply{}
		g := c.await(c30or(c30gate(0, "MarkFailed", ptr), c30done("add", th.a)))
		if g == nil {
			return
		}
		if g.done == "add" {
			c.dropAdd(th)
			if g.err != nil {
				c.emit(op, "OIllegal")
			} else {
				c.q[0] = append(c.q[0], th.task)
				c.emit(op, "OSent")
			}
			c.settle()
		} else {
			th.g, th.state = g, 2
			c.faults++
			c.emit(op, "OOverflow")
		}
	case 2:
		op = fmt.Sprintf("OpAddMark %d", th.a)
		ptr := th.g.ptr
		th.g.resume <- c30reply{}
		g := c.await(c30gate(1, "MarkFailed", ptr))
		if g == nil {
			return
		}
		nf := g.err == ErrTaskNotFound
		g.resume <- c30reply{}
		okk := c.finishAdd(th, nf)
		switch {
		case !okk:
			c.emit(op, "OIllegal")
		case nf:
			c.emit(op, "ONotFound")
		default:
			c.emit(op, "ODone")
		}
	}
}

func (c *c30case) pollGet() {
	m, env, gen := c.mgr, c.env, c.gen
	go func() {
		VerifPollRetries(m)
		env.ev <- &c30evt{gen: gen, done: "poll"}
	}()
	g := c.await(c30gate(0, "GetFailed", nil))
	if g == nil {
		return
	}
	g.resume <- c30reply{}
	g = c.await(c30gate(1, "GetFailed", nil))
	if g == nil {
		return
	}
	c.poll = &c30poll{pos: 0, rem: g.list, snap: g.ptrs, g: g}
	c.emit("OpPollGet "+verifhlib.Ns(g.list), "ODone")
}

// pollAhead lets the poller run to its next store call (or to its return).
func (c *c30case) pollAhead() bool {
	p := c.poll
	p.g.resume <- c30reply{}
	g := c.await(c30or(c30gate(0, "MarkPending", nil), c30done("poll", 0)))
	if g == nil {
		return false
	}
	if g.done == "poll" {
		p.pos, p.g = 2, nil
	} else {
		p.pos, p.next, p.g = 1, g.task, g
	}
	return true
}

// pollSkips records the snapshot elements the poller has passed over without a store call.  The
// poller evaluates them in one go (there is no gate in between), so they are recorded at once.
func (c *c30case) pollSkips() {
	p := c.poll
	for len(p.rem) > 0 && (p.pos == 2 || (p.pos == 1 && p.rem[0] != p.next)) {
		p.rem = p.rem[1:]
		c.emit("OpPollNext", "OSkip")
	}
}

func (c *c30case) pollStep() {
	p := c.poll
	switch p.pos {
	case 0, 1, 2:
		if p.pos == 0 {
			if !c.pollAhead() {
				return
			}
			c.pollSkips()
			if p.pos == 1 {
				return // the next step is the MarkPending the poller is parked at
			}
		}
		if p.pos == 2 {
			c.poll = nil
			c.emit("OpPollNext", "ODone")
			return
		}
		if len(p.rem) > 0 {
			p.rem = p.rem[1:]
		}
		ptr := p.g.ptr
		p.g.resume <- c30reply{}
		g := c.await(c30gate(1, "MarkPending", ptr))
		if g == nil {
			return
		}
		if g.err == ErrTaskNotFound {
			p.g = g
			if c.pollAhead() {
				c.emit("OpPollNext", "ONotFound")
				c.pollSkips()
			}
			return
		}
		p.pos, p.cur, p.g = 3, g.task, g
		c.emit("OpPollNext", fmt.Sprintf("OMarked %d", g.task))
	case 3:
		ptr := p.g.ptr
		p.g.resume <- c30reply{}
		g := c.await(c30or(c30gate(0, "MarkFailed", ptr), c30gate(0, "MarkPending", nil), c30done("poll", 0)))
		if g == nil {
			return
		}
		switch {
		case g.done == "poll":
			p.pos, p.g = 2, nil
		case g.call == "MarkPending":
			p.pos, p.next, p.g = 1, g.task, g
		default:
			p.pos, p.g = 4, g
			c.faults++
			c.emit("OpPollEnq", "OOverflow")
			return
		}
		c.q[1] = append(c.q[1], p.cur)
		c.emit("OpPollEnq", "OSent")
		c.pollSkips()
		c.settle()
	case 4:
		ptr := p.g.ptr
		p.g.resume <- c30reply{}
		g := c.await(c30gate(1, "MarkFailed", ptr))
		if g == nil {
			return
		}
		nf := g.err == ErrTaskNotFound
		p.g = g
		if !c.pollAhead() {
			return
		}
		if nf {
			c.emit("OpPollMark", "ONotFound")
		} else {
			c.emit("OpPollMark", "ODone")
		}
		c.pollSkips()
	}
}

func (c *c30case) findRun(task int, fin bool) *c30work {
	for _, w := range c.run {
		if w.task == task && w.fin == fin {
			return w
		}
	}
	return nil
}

func (c *c30case) execRet(task int, ok bool) {
	w := c.findRun(task, false)
	ptr := w.g.ptr
	w.g.resume <- c30reply{ok: ok}
	g := c.await(c30or(c30gate(0, "Remove", ptr), c30gate(0, "MarkFailed", ptr)))
	if g == nil {
		return
	}
	w.g, w.fin = g, true
	if !ok {
		c.faults++
	}
	c.emit(fmt.Sprintf("OpExecRet %d %s", task, verifhlib.B(ok)), "ODone")
}

func (c *c30case) execFin(task int) {
	w := c.findRun(task, true)
	call, ptr := w.g.call, w.g.ptr
	w.g.resume <- c30reply{}
	g := c.await(c30gate(1, call, ptr))
	if g == nil {
		return
	}
	out := "OFailed"
	if call == "Remove" {
		out = "ORemoved"
		c.removed++
	} else if g.err == ErrTaskNotFound {
		out = "ONotFound"
	}
	g.resume <- c30reply{}
	for i, x := range c.run {
		if x == w {
			c.run = append(c.run[:i:i], c.run[i+1:]...)
		}
	}
	c.emit(fmt.Sprintf("OpExecFin %d", task), out)
	c.settle()
}

// drain: restart, let time pass, and run the fair schedule in which every retried task is
// executed at once and succeeds; afterwards the table must be empty.
func (c *c30case) drain() {
	if c.incon {
		return
	}
	if c.alive {
		c.crash()
		c.observe()
	}
	c.start(-1)
	c.observe()
	if !c.alive {
		return
	}
	for round := 0; round < 2 && !c.incon; round++ {
		c.tick(c.cfg.ri + 4)
		c.observe()
		c.pollGet()
		for c.poll != nil && !c.incon {
			c.pollStep()
			c.observe()
			for len(c.run) > 0 && !c.incon {
				w := c.run[0]
				if !w.fin {
					c.execRet(w.task, true)
				} else {
					c.execFin(w.task)
				}
				c.observe()
			}
		}
		if len(c.rows()) == 0 {
			break
		}
	}
	if !c.incon {
		c.shutdown(func(int) bool { return true })
		c.observe()
	}
}

// ---- scripted and random histories ----

type c30act struct {
	k    string // start startcrash crash shutdown tick add addfull addstep poll pollfull pollstep ret fin
	x, y int
	ok   bool
}

func (c *c30case) addFull(t, d int) {
	th := c.addCheck(t, d)
	c.observe()
	for th != nil && !c.incon {
		c.addStep(th)
		c.observe()
		still := false
		for _, x := range c.adds {
			if x == th {
				still = true
			}
		}
		if !still {
			th = nil
		}
	}
}

func (c *c30case) apply(a c30act, outcome func(int) bool) {
	if c.incon {
		return
	}
	switch a.k {
	case "start":
		if !c.alive {
			c.start(-1)
			c.observe()
		}
	case "startcrash":
		if !c.alive {
			c.start(a.x)
			c.observe()
		}
	case "crash":
		if c.alive {
			c.crash()
			c.observe()
		}
	case "shutdown":
		if c.alive && !c.closed {
			c.shutdown(outcome)
			c.observe()
		}
	case "tick":
		c.tick(a.x)
		c.observe()
	case "add": // the closed check only
		if c.alive {
			c.addCheck(a.x, a.y)
			c.observe()
		}
	case "addfull":
		if c.alive {
			c.addFull(a.x, a.y)
		}
	case "addstep": // the x-th Add thread in flight
		if c.alive && a.x < len(c.adds) {
			c.addStep(c.adds[a.x])
			c.observe()
		}
	case "poll":
		if c.alive && c.poll == nil {
			c.pollGet()
			c.observe()
		}
	case "pollstep":
		if c.alive && c.poll != nil {
			c.pollStep()
			c.observe()
		}
	case "pollfull":
		if c.alive && c.poll == nil {
			c.pollGet()
			c.observe()
		}
		for c.alive && c.poll != nil && !c.incon {
			c.pollStep()
			c.observe()
		}
	case "ret":
		if c.alive && !c.closed {
			if w := c.findRun(a.x, false); w != nil {
				c.execRet(a.x, a.ok)
				c.observe()
			}
		}
	case "fin":
		if c.alive && !c.closed {
			if w := c.findRun(a.x, true); w != nil {
				c.execFin(a.x)
				c.observe()
			}
		}
	}
}

var c30template []byte // a freshly migrated, empty database file (created once by localdb.New)

func c30new(dir string, cfg c30cfg, kind *c30kind) *c30case {
	os.MkdirAll(dir, 0o775)
	if err := os.WriteFile(filepath.Join(dir, "retry.db"), c30template, 0o664); err != nil {
		panic(err)
	}
	env := &c30env{ev: make(chan *c30evt, 4096), dead: map[int]bool{}, ids: map[string]int{}, kind: kind}
	for i := 0; i < 16; i++ {
		env.ids[fmt.Sprintf("a%d/b%d", i%2, i/2)] = i
	}
	c := &c30case{env: env, dir: dir, cfg: cfg, tags: map[string]bool{}}
	c.openDB()
	return c
}

func (c *c30case) finish(kind string) verifhlib.Case {
	c.kill()
	if c.db != nil {
		c.db.Close()
		c.db = nil
	}
	os.RemoveAll(c.dir)
	coq := fmt.Sprintf("mkcase (mkcfg %d %d %d %d %d) %s %s", c.cfg.inbuf, c.cfg.rebuf, c.cfg.inw, c.cfg.rew, c.cfg.ri,
		verifhlib.List(c.ops), verifhlib.List(c.outs))
	var tags []string
	if c.unexpected > 0 {
		tags = append(tags, "unexpected-store-call")
	}
	return verifhlib.Case{Coq: coq, NT: c.added >= 2 && c.faults >= 1 && c.removed >= 1, Kind: kind, Hist: c.hist, Tags: tags,
		Sample: map[string]interface{}{"cfg": fmt.Sprintf("%+v", c.cfg), "ops": c.ops, "obs": c.outs}, Incon: c.incon}
}

func c30script(dir string, cfg c30cfg, sk *c30kind, acts []c30act, kind string) verifhlib.Case {
	c := c30new(dir, cfg, sk)
	for _, a := range acts {
		c.apply(a, func(int) bool { return a.ok })
	}
	c.drain()
	return c.finish(kind)
}

// c30random draws the next action against the controller's bookkeeping (mostly enabled actions).
func c30random(dir string, cfg c30cfg, sk *c30kind, r *verifhlib.Rng, ntask, nsteps int) verifhlib.Case {
	c := c30new(dir, cfg, sk)
	atomicAdd := r.Chance(60)
	atomicPoll := r.Chance(50)
	outcome := func(int) bool { return r.Chance(45) }
	ticks := []int{0, 1, 1, cfg.ri, cfg.ri + 1, cfg.ri + 2, 5}
	for i := 0; i < nsteps && !c.incon; i++ {
		if !c.alive {
			switch k := r.Intn(10); {
			case k < 7:
				c.apply(c30act{k: "start"}, outcome)
			case k < 8:
				c.apply(c30act{k: "startcrash", x: r.Intn(3)}, outcome)
			default:
				c.apply(c30act{k: "tick", x: ticks[r.Intn(len(ticks))]}, outcome)
			}
			continue
		}
		if c.closed {
			switch k := r.Intn(10); {
			case k < 2:
				c.apply(c30act{k: "add", x: r.Intn(ntask)}, outcome)
			case k < 4 && len(c.adds) > 0:
				c.apply(c30act{k: "addstep", x: r.Intn(len(c.adds))}, outcome)
			case k < 6 && c.poll != nil:
				c.apply(c30act{k: "pollstep"}, outcome)
			default:
				c.apply(c30act{k: "crash"}, outcome)
			}
			continue
		}
		k := r.Intn(100)
		if i < 5 && r.Chance(60) { // a burst of additions at the start fills the incoming queue
			k = 0
		}
		switch {
		case k < 26:
			d := 0
			if r.Chance(20) {
				d = r.Range(1, 2)
			}
			if atomicAdd || r.Chance(40) {
				c.apply(c30act{k: "addfull", x: r.Intn(ntask), y: d}, outcome)
			} else {
				c.apply(c30act{k: "add", x: r.Intn(ntask), y: d}, outcome)
			}
		case k < 38:
			if len(c.adds) > 0 {
				c.apply(c30act{k: "addstep", x: r.Intn(len(c.adds))}, outcome)
			}
		case k < 48:
			if c.poll == nil {
				if atomicPoll {
					c.apply(c30act{k: "pollfull"}, outcome)
				} else {
					c.apply(c30act{k: "poll"}, outcome)
				}
			} else {
				c.apply(c30act{k: "pollstep"}, outcome)
			}
		case k < 60:
			if c.poll != nil {
				c.apply(c30act{k: "pollstep"}, outcome)
			}
		case k < 78:
			if len(c.run) > 0 {
				w := c.run[r.Intn(len(c.run))]
				if w.fin {
					c.apply(c30act{k: "fin", x: w.task}, outcome)
				} else {
					c.apply(c30act{k: "ret", x: w.task, ok: outcome(0)}, outcome)
				}
			}
		case k < 88:
			c.apply(c30act{k: "tick", x: ticks[r.Intn(len(ticks))]}, outcome)
		case k < 95:
			c.apply(c30act{k: "crash"}, outcome)
		default:
			c.apply(c30act{k: "shutdown"}, outcome)
		}
	}
	c.drain()
	return c.finish("random-" + sk.name)
}

func c30seeds() (out []struct {
	name string
	cfg  c30cfg
	acts []c30act
}) {
	add := func(name string, cfg c30cfg, acts ...c30act) {
		out = append(out, struct {
			name string
			cfg  c30cfg
			acts []c30act
		}{name, cfg, acts})
	}
	small := c30cfg{1, 1, 1, 1, 1}
	// incoming overflow: worker busy with 0, 1 waits, 2 and 3 overflow -> failed, retried after the interval
	add("seed-overflow", small,
		c30act{k: "start"}, c30act{k: "addfull", x: 0}, c30act{k: "addfull", x: 1}, c30act{k: "addfull", x: 2}, c30act{k: "addfull", x: 3},
		c30act{k: "pollfull"}, c30act{k: "tick", x: 1}, c30act{k: "pollfull"}, c30act{k: "tick", x: 1}, c30act{k: "pollfull"},
		c30act{k: "ret", x: 0, ok: false}, c30act{k: "fin", x: 0}, c30act{k: "ret", x: 1, ok: true}, c30act{k: "fin", x: 1})
	// crash in the middle of an execution, and between the executor's success and Remove
	add("seed-crash-mid-exec", small,
		c30act{k: "start"}, c30act{k: "addfull", x: 0}, c30act{k: "addfull", x: 1}, c30act{k: "crash"},
		c30act{k: "start"}, c30act{k: "tick", x: 2}, c30act{k: "pollfull"}, c30act{k: "ret", x: 0, ok: true}, c30act{k: "crash"},
		c30act{k: "startcrash", x: 0}, c30act{k: "start"})
	// crash between AddPending and the enqueue; between MarkPending and the enqueue
	add("seed-crash-in-add-and-poll", c30cfg{1, 1, 1, 1, 0},
		c30act{k: "start"}, c30act{k: "add", x: 0}, c30act{k: "addstep", x: 0}, c30act{k: "crash"},
		c30act{k: "start"}, c30act{k: "tick", x: 1}, c30act{k: "poll"}, c30act{k: "pollstep"}, c30act{k: "crash"},
		c30act{k: "start"}, c30act{k: "addfull", x: 0}, c30act{k: "addfull", x: 0})
	// duplicate adds: stored pending, stored failed, executing, concurrent
	add("seed-duplicates", c30cfg{2, 1, 1, 1, 1},
		c30act{k: "start"}, c30act{k: "addfull", x: 0}, c30act{k: "addfull", x: 0}, c30act{k: "addfull", x: 1, y: 2}, c30act{k: "addfull", x: 1},
		c30act{k: "add", x: 2}, c30act{k: "add", x: 2}, c30act{k: "addstep", x: 0}, c30act{k: "addstep", x: 1}, c30act{k: "addstep", x: 0},
		c30act{k: "ret", x: 0, ok: true}, c30act{k: "addfull", x: 0}, c30act{k: "fin", x: 0}, c30act{k: "addfull", x: 0})
	// delayed task: stored failed, not retried before its delay, retried afterwards
	add("seed-delay", small,
		c30act{k: "start"}, c30act{k: "addfull", x: 0, y: 2}, c30act{k: "pollfull"}, c30act{k: "tick", x: 1}, c30act{k: "pollfull"},
		c30act{k: "tick", x: 1}, c30act{k: "pollfull"}, c30act{k: "ret", x: 0, ok: false}, c30act{k: "fin", x: 0}, c30act{k: "pollfull"},
		c30act{k: "tick", x: 1}, c30act{k: "pollfull"}, c30act{k: "tick", x: 1}, c30act{k: "pollfull"})
	// retry-queue overflow inside one poll; graceful shutdown with a waiting task
	add("seed-retry-overflow-shutdown", c30cfg{2, 1, 2, 1, 0},
		c30act{k: "start"}, c30act{k: "addfull", x: 0, y: 1}, c30act{k: "addfull", x: 1, y: 1}, c30act{k: "addfull", x: 2, y: 1}, c30act{k: "addfull", x: 3},
		c30act{k: "tick", x: 1}, c30act{k: "pollfull"}, c30act{k: "shutdown", ok: false}, c30act{k: "add", x: 4}, c30act{k: "crash"},
		c30act{k: "start"})
	// Add racing with Close: passed the closed check, stores and enqueues into a closed manager
	add("seed-add-races-close", small,
		c30act{k: "start"}, c30act{k: "add", x: 0}, c30act{k: "shutdown"}, c30act{k: "addstep", x: 0}, c30act{k: "addstep", x: 0}, c30act{k: "crash"}, c30act{k: "start"})
	// the witness of C30_liveness_under_thread_fairness_refuted: tasks 0 and 1 keep failing and are
	// ahead of task 2 in every poll; the retry queue (capacity 1) is full whenever 2's turn comes
	starve := []c30act{{k: "start"}, {k: "addfull", x: 0, y: 1}, {k: "addfull", x: 1, y: 1}, {k: "addfull", x: 2, y: 1}}
	for i := 0; i < 3; i++ {
		starve = append(starve, c30act{k: "tick", x: 1}, c30act{k: "pollfull"},
			c30act{k: "ret", x: 0, ok: false}, c30act{k: "fin", x: 0}, c30act{k: "ret", x: 1, ok: false}, c30act{k: "fin", x: 1})
	}
	add("seed-starvation-witness", c30cfg{1, 1, 1, 1, 0}, starve...)
	return out
}

func c30driver(ctx *verifhlib.Ctx) {
	log.SetGlobalLogger(zap.NewNop().Sugar())
	stdlog.SetOutput(io.Discard) // goose reports "no migrations to run" on every open
	r := verifhlib.NewRng(ctx.Seed)
	{
		os.MkdirAll(ctx.Tmp, 0o775)
		tp := filepath.Join(ctx.Tmp, "template.db")
		db, err := localdb.New(localdb.Config{Source: tp})
		if err != nil {
			panic(err)
		}
		db.Close()
		if c30template, err = os.ReadFile(tp); err != nil {
			panic(err)
		}
	}
	type job struct {
		idx int
		f   func(dir string) verifhlib.Case
	}
	var jobs []job
	addJob := func(f func(dir string) verifhlib.Case) { jobs = append(jobs, job{len(jobs), f}) }
	for _, s := range c30seeds() {
		s := s
		addJob(func(dir string) verifhlib.Case { return c30script(dir, s.cfg, c30writeback, s.acts, s.name) })
		addJob(func(dir string) verifhlib.Case { return c30script(dir, s.cfg, c30tagrepl, s.acts, s.name+"-tagreplication") })
		// crash-point sweep: the same history cut by a crash after every prefix
		step := 1
		if ctx.Tier != "thorough" {
			step = 3
		}
		for k := 1; k < len(s.acts); k += step {
			k := k
			addJob(func(dir string) verifhlib.Case {
				acts := append(append([]c30act{}, s.acts[:k]...), c30act{k: "crash"})
				return c30script(dir, s.cfg, c30writeback, acts, "crash-sweep")
			})
		}
	}
	for i := 0; i < ctx.N; i++ {
		rr := r.Fork()
		one := func() int { // small buffers and few workers make overflow likely
			if rr.Chance(65) {
				return 1
			}
			return 2
		}
		cfg := c30cfg{one(), one(), one(), one(), rr.Intn(3)}
		ntask := rr.Range(2, 4)
		nsteps := rr.Range(4, 28)
		if ctx.Tier == "thorough" {
			nsteps = rr.Range(4, 45)
		}
		sk := c30writeback
		if rr.Chance(30) {
			sk = c30tagrepl
		}
		addJob(func(dir string) verifhlib.Case { return c30random(dir, cfg, sk, rr, ntask, nsteps) })
	}
	res := make([]verifhlib.Case, len(jobs))
	var wg sync.WaitGroup
	ch := make(chan job)
	for w := 0; w < 12; w++ {
		wg.Add(1)
		go func() {
			defer wg.Done()
			for j := range ch {
				res[j.idx] = j.f(filepath.Join(ctx.Tmp, fmt.Sprintf("c%d", j.idx)))
			}
		}()
	}
	for _, j := range jobs {
		ch <- j
	}
	close(ch)
	wg.Wait()
	incon := 0
	for _, cs := range res {
		ctx.Emit(cs)
		if cs.Incon {
			incon++
		}
	}
	if incon > 3 && incon*10 > len(res) {
		// a verdict must not rest on a run in which the implementation mostly failed to reach the
		// points the controller waits for
		panic(fmt.Sprintf("C30 driver: %d of %d cases inconclusive (a step the controller waited for never happened)", incon, len(res)))
	}
}
