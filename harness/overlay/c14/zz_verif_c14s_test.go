//go:build verif

package dispatch_test

// C14 driver, scheduler stream (child side): incoming connections at a REAL origin scheduler
// (scheduler.NewOriginScheduler, public API, TCP on localhost). Lives in the external test package of dispatch so
// that it may import the scheduler; it is compiled into the same test binary as the in-package driver, which
// re-executes the binary with -test.run ^TestVerifC14SchedChild$.
//
// One attempt = one connection: handshake {peer id, name = the torrent's digest or an unknown one, info hash = the
// torrent's or a foreign one, bitfield of the right or a wrong size}; if the scheduler answers with its handshake
// the attempt requests piece 0; then it hangs up. Result: 0 = closed without an answer, 1 = answered and closed,
// 2 = answered and piece 0 served byte-identical.

import (
	"bufio"
	"bytes"
	"encoding/binary"
	"encoding/json"
	"fmt"
	"io"
	"net"
	"os"
	"path/filepath"
	"testing"
	"time"

	"github.com/golang/protobuf/proto"
	"github.com/uber-go/tally"
	"github.com/willf/bitset"

	"github.com/uber/kraken/core"
	"github.com/uber/kraken/gen/go/proto/p2p"
	"github.com/uber/kraken/lib/store"
	"github.com/uber/kraken/lib/store/metadata"
	"github.com/uber/kraken/lib/torrent/networkevent"
	"github.com/uber/kraken/lib/torrent/scheduler"
	"github.com/uber/kraken/utils/log"
)

type c14sAttempt struct {
	Peer  int  `json:"peer"`  // canonical peer id within the case
	Hash  int  `json:"hash"`  // 0 = the torrent's info hash, k > 0 = k-th foreign hash of the case
	Known bool `json:"known"` // name = the torrent's digest
	BfOK  bool `json:"bfok"`  // bitfield with NumPieces bits
}

type c14sCase struct {
	ID   uint64        `json:"id"` // makes peer ids and foreign hashes of different cases distinct
	Atts []c14sAttempt `json:"atts"`
}

type c14sObs struct {
	Res   []int  `json:"res"`
	Incon bool   `json:"incon"`
	Note  string `json:"note"`
}

func c14sFrame(m *p2p.Message) []byte {
	b, err := proto.Marshal(m)
	if err != nil {
		panic(err)
	}
	var hdr [4]byte
	binary.BigEndian.PutUint32(hdr[:], uint32(len(b)))
	return append(hdr[:], b...)
}

func c14sRead(nc net.Conn) (*p2p.Message, []byte, error) {
	var hdr [4]byte
	if _, err := io.ReadFull(nc, hdr[:]); err != nil {
		return nil, nil, err
	}
	n := binary.BigEndian.Uint32(hdr[:])
	if n > 1<<20 {
		return nil, nil, fmt.Errorf("frame of %d bytes", n)
	}
	body := make([]byte, n)
	if _, err := io.ReadFull(nc, body); err != nil {
		return nil, nil, err
	}
	m := new(p2p.Message)
	if err := proto.Unmarshal(body, m); err != nil {
		return nil, nil, err
	}
	var payload []byte
	if m.Type == p2p.Message_PIECE_PAYLOAD && m.PiecePayload != nil && m.PiecePayload.Length > 0 && m.PiecePayload.Length < 1<<20 {
		payload = make([]byte, m.PiecePayload.Length)
		if _, err := io.ReadFull(nc, payload); err != nil {
			return nil, nil, err
		}
	}
	return m, payload, nil
}

func TestVerifC14SchedChild(t *testing.T) {
	if os.Getenv("VERIF_C14_SCHED_CHILD") == "" {
		t.Skip("child entry of the C14 driver (scheduler stream)")
	}
	tmp := os.Getenv("VERIF_C14_TMP")
	mk := func(name string) string {
		d := filepath.Join(tmp, name)
		if err := os.MkdirAll(d, 0o755); err != nil {
			panic(err)
		}
		return d
	}
	cas, err := store.NewCAStore(store.CAStoreConfig{UploadDir: mk("upload"), CacheDir: mk("cache")}, tally.NoopScope)
	if err != nil {
		panic(err)
	}
	defer cas.Close()
	blob := core.SizedBlobFixture(29, 8)
	name := blob.Digest.Hex()
	if err := cas.CreateCacheFile(name, bytes.NewReader(blob.Content)); err != nil {
		panic(err)
	}
	if _, err := cas.SetCacheFileMetadata(name, metadata.NewTorrentMeta(blob.MetaInfo)); err != nil {
		panic(err)
	}
	l, err := net.Listen("tcp", "localhost:0")
	if err != nil {
		panic(err)
	}
	port := l.Addr().(*net.TCPAddr).Port
	l.Close()
	pctx := core.PeerContext{PeerID: core.PeerIDFixture(), Zone: "z", IP: "localhost", Port: port, Origin: true}
	sched, err := scheduler.NewOriginScheduler(
		scheduler.Config{TorrentLog: log.Config{Disable: true}, Log: log.Config{Disable: true}},
		tally.NoopScope, pctx, cas, networkevent.NewTestProducer(), nil)
	if err != nil {
		panic(err)
	}
	defer sched.Stop()
	addr := fmt.Sprintf("localhost:%d", port)

	n := uint(blob.MetaInfo.NumPieces())
	goodBF, _ := bitset.New(n).MarshalBinary()
	badBF, _ := bitset.New(n + 3).MarshalBinary()
	piece0 := blob.Content[:blob.MetaInfo.GetPieceLength(0)]

	attempt := func(id uint64, a c14sAttempt) (int, error) {
		var pid core.PeerID
		binary.BigEndian.PutUint64(pid[:], id)
		pid[19] = byte(a.Peer)
		hash := blob.MetaInfo.InfoHash().String()
		if a.Hash != 0 {
			hash = fmt.Sprintf("%024x%016x", a.Hash, id)
		}
		dname := name
		if !a.Known {
			dname = fmt.Sprintf("%048x%016x", 0xdead, id)
		}
		bf := goodBF
		if !a.BfOK {
			bf = badBF
		}
		nc, err := net.DialTimeout("tcp", addr, 5*time.Second)
		if err != nil {
			return 0, err
		}
		defer nc.Close()
		nc.SetDeadline(time.Now().Add(20 * time.Second))
		if _, err := nc.Write(c14sFrame(&p2p.Message{Type: p2p.Message_BITFIELD, Bitfield: &p2p.BitfieldMessage{
			PeerID: pid.String(), Name: dname, InfoHash: hash, BitfieldBytes: bf, Namespace: "verif-c14"}})); err != nil {
			return 0, nil // refused before we finished writing
		}
		m, _, err := c14sRead(nc)
		if err != nil {
			if ne, ok := err.(net.Error); ok && ne.Timeout() {
				return 0, err
			}
			return 0, nil
		}
		if m.Type != p2p.Message_BITFIELD {
			return 0, fmt.Errorf("first frame has type %s", m.Type)
		}
		nc.Write(c14sFrame(&p2p.Message{Type: p2p.Message_PIECE_REQUEST,
			PieceRequest: &p2p.PieceRequestMessage{Index: 0, Length: int32(len(piece0))}}))
		for {
			m, payload, err := c14sRead(nc)
			if err != nil {
				if ne, ok := err.(net.Error); ok && ne.Timeout() {
					return 1, err
				}
				return 1, nil
			}
			if m.Type == p2p.Message_PIECE_PAYLOAD && m.PiecePayload != nil && m.PiecePayload.Index == 0 && bytes.Equal(payload, piece0) {
				return 2, nil
			}
		}
	}

	in, err := os.Open(os.Getenv("VERIF_C14_IN"))
	if err != nil {
		panic(err)
	}
	out, err := os.Create(os.Getenv("VERIF_C14_OUT"))
	if err != nil {
		panic(err)
	}
	sc := bufio.NewScanner(in)
	sc.Buffer(make([]byte, 1<<20), 1<<24)
	for sc.Scan() {
		var cs c14sCase
		if err := json.Unmarshal(sc.Bytes(), &cs); err != nil {
			panic(err)
		}
		var o c14sObs
		for _, a := range cs.Atts {
			r, err := attempt(cs.ID, a)
			if err != nil {
				o.Incon, o.Note = true, err.Error()
			}
			o.Res = append(o.Res, r)
			// the bookkeeping of a finished connection is done by events the scheduler sends itself after closing
			// the socket; give them a moment (a wrong guess shows up as an unstable case, which is re-run)
			time.Sleep(15 * time.Millisecond)
		}
		b, _ := json.Marshal(&o)
		out.Write(append(b, '\n'))
	}
	out.Close()
}
