//go:build verif

package dispatch

// C14 driver: hostile handshakes and messages against the real conn.Handshaker / conn.Conn and the real
// Dispatcher on top of a real agent torrent (agentstorage.Torrent over a CADownloadStore) or origin torrent
// (originstorage.Torrent over a CAStore).
//
// The cases are executed in CHILD processes (this test binary re-executed with VERIF_C14_CHILD set): a panic
// or a fatal runtime error of the child is the observation "crash" of the case that was running; the child
// runs under RLIMIT_AS so that a hostile allocation cannot take the machine down (observed as "oom").
// The driver plays both remote peers on net.Pipe connections: A (hostile) and B (honest, connected first).
// After every hostile message it sends a sentinel request whose error reply marks "everything before has
// been handled", so that every observation is taken at a deterministic point.

import (
	"bufio"
	"bytes"
	"encoding/binary"
	"encoding/json"
	"fmt"
	"io"
	"net"
	"os"
	"os/exec"
	"path/filepath"
	"runtime"
	"strings"
	"sync"
	"syscall"
	"testing"
	"time"

	"github.com/andres-erbsen/clock"
	"github.com/golang/protobuf/proto"
	"github.com/uber-go/tally"
	"go.uber.org/zap"

	"github.com/uber/kraken/core"
	"github.com/uber/kraken/gen/go/proto/p2p"
	"github.com/uber/kraken/lib/store"
	"github.com/uber/kraken/lib/torrent/networkevent"
	"github.com/uber/kraken/lib/torrent/scheduler/conn"
	"github.com/uber/kraken/lib/torrent/scheduler/torrentlog"
	"github.com/uber/kraken/lib/torrent/storage"
	"github.com/uber/kraken/lib/torrent/storage/agentstorage"
	"github.com/uber/kraken/lib/torrent/storage/originstorage"
	"github.com/uber/kraken/lib/torrent/storage/piecereader"
	"github.com/uber/kraken/tracker/metainfoclient"
	hlib "github.com/uber/kraken/utils/verifhlib"
)

func TestVerifC14(t *testing.T) { hlib.MainEnv("C14", c14driver) }

func TestVerifC14Child(t *testing.T) {
	if os.Getenv("VERIF_C14_CHILD") == "" {
		t.Skip("child entry of the C14 driver")
	}
	c14child()
}

const (
	c14Sentinel  = int32(0x7ffffff0) // index of the sentinel request (never generated otherwise)
	c14CapSend   = 4096              // the remote delivers a payload only up to this many bytes
	c14Big       = 32 << 20          // allocation during a case above this = "big"
	c14Rlimit    = 2 << 30           // RLIMIT_AS of a child
	c14MaxMsg    = 32 * 1024         // conn.maxMessageSize (the model takes it from the source; this is for generation)
	c14CaseWatch = 90 * time.Second  // watchdog: a case exceeding it is inconclusive, never a verdict
	c14NS        = "verif-c14"
)

var (
	c14Local = c14pid(0x10)
	c14IDA   = c14pid(0xa1)
	c14IDB   = c14pid(0xb2)
)

func c14pid(b byte) core.PeerID {
	var p core.PeerID
	for i := range p {
		p[i] = b
	}
	return p
}

// ---------------------------------------------------------------- case specification (parent -> child)

type c14frame struct {
	Prefix  uint32 `json:"prefix"`  // value of the 4-byte length prefix
	Body    []byte `json:"body"`    // bytes sent after the prefix (may be shorter than Prefix: then the remote hangs up)
	Hangup  bool   `json:"hangup"`  // the remote closes the connection after these bytes
	Payload []byte `json:"payload"` // raw bytes sent after the message (piece payload)
}

type c14case struct {
	Seed   uint64     `json:"seed"` // blob content
	Agent  bool       `json:"agent"`
	N      int        `json:"n"`
	P      int        `json:"p"`
	Len    int        `json:"len"`
	Have   []bool     `json:"have"`
	BFull  bool       `json:"bfull"`
	Hs     c14frame   `json:"hs"`
	APeer  string     `json:"apeer"` // hex peer id A claims ("" if unparsable)
	Msgs   []c14frame `json:"msgs"`
	Kind   string     `json:"kind"`
	coqHs  string
	coqMsg []string
	hist   []string
	tags   []string
}

type c14reply struct {
	K  string `json:"k"` // Err Pay Req Ann Complete Other
	I  int64  `json:"i"`
	L  int64  `json:"l"`
	C  int64  `json:"c"`
	OK bool   `json:"ok"`
}

type c14step struct {
	A      []c14reply `json:"a"`
	B      []c14reply `json:"b"`
	Closed bool       `json:"closed"`
}

type c14obs struct {
	Crash   int        `json:"crash"` // 0 alive, 1 panic / other abnormal exit, 2 out of memory
	Big     bool       `json:"big"`
	Hs      int        `json:"hs"` // 0 rejected by Accept, 1 unknown torrent, 2 rejected by addPeer, 3 accepted
	AInit   []c14reply `json:"ainit"`
	BInit   []c14reply `json:"binit"`
	Steps   []c14step  `json:"steps"`
	AOpen   bool       `json:"aopen"`
	ALen    int64      `json:"alen"`
	ASet    []int64    `json:"aset"`
	Cnt1    []int64    `json:"cnt1"`
	Pend    []int64    `json:"pend"`
	Have    []bool     `json:"have"`
	Cnt2    []int64    `json:"cnt2"`
	BClosed bool       `json:"bclosed"`
	BProbe  []int64    `json:"bprobe"`
	FSize   int64      `json:"fsize"`
	Incon   bool       `json:"incon"`
	Note    string     `json:"note"`
}

// ---------------------------------------------------------------- blob

type c14blob struct {
	content []byte
	mi      *core.MetaInfo
}

func c14makeBlob(seed uint64, length, plen int) *c14blob {
	r := hlib.NewRng(seed ^ 0xc14b10b)
	content := r.Bytes(length)
	d, err := core.NewDigester().FromBytes(content)
	if err != nil {
		panic(err)
	}
	mi, err := core.NewMetaInfo(d, bytes.NewReader(content), int64(plen))
	if err != nil {
		panic(err)
	}
	return &c14blob{content, mi}
}

func (b *c14blob) piece(i int) []byte {
	p := int(b.mi.PieceLength())
	l := int(b.mi.GetPieceLength(i))
	return b.content[p*i : p*i+l]
}

// ---------------------------------------------------------------- wire helpers (the remote side)

func c14writeFrame(nc net.Conn, f *c14frame) error {
	var hdr [4]byte
	binary.BigEndian.PutUint32(hdr[:], f.Prefix)
	if _, err := nc.Write(append(hdr[:], f.Body...)); err != nil {
		return err
	}
	if len(f.Payload) > 0 {
		if _, err := nc.Write(f.Payload); err != nil {
			return err
		}
	}
	return nil
}

type c14in struct {
	msg     *p2p.Message
	payload []byte
}

type c14remote struct {
	nc     net.Conn
	frames chan c14in
}

func c14newRemote(nc net.Conn) *c14remote {
	r := &c14remote{nc: nc, frames: make(chan c14in, 1024)}
	go func() {
		defer close(r.frames)
		for {
			var hdr [4]byte
			if _, err := io.ReadFull(nc, hdr[:]); err != nil {
				return
			}
			n := binary.BigEndian.Uint32(hdr[:])
			if n > 1<<24 {
				return
			}
			body := make([]byte, n)
			if _, err := io.ReadFull(nc, body); err != nil {
				return
			}
			m := new(p2p.Message)
			if err := proto.Unmarshal(body, m); err != nil {
				return
			}
			var payload []byte
			if m.Type == p2p.Message_PIECE_PAYLOAD && m.PiecePayload != nil && m.PiecePayload.Length > 0 {
				payload = make([]byte, m.PiecePayload.Length)
				if _, err := io.ReadFull(nc, payload); err != nil {
					// the local side announced more than it delivered (e.g. a reader outside the blob)
					r.frames <- c14in{m, nil}
					return
				}
			}
			r.frames <- c14in{m, payload}
		}
	}()
	return r
}

func c14marshal(m *p2p.Message) []byte {
	b, err := proto.Marshal(m)
	if err != nil {
		panic(err)
	}
	return b
}

func c14sentinelFrame() *c14frame {
	b := c14marshal(&p2p.Message{Type: p2p.Message_PIECE_REQUEST,
		PieceRequest: &p2p.PieceRequestMessage{Index: c14Sentinel, Offset: 1, Length: 0}})
	return &c14frame{Prefix: uint32(len(b)), Body: b}
}

// ---------------------------------------------------------------- child: one case on the real code

type c14events struct {
	removed chan core.PeerID
	seen    map[core.PeerID]bool
}

func (e *c14events) DispatcherComplete(*Dispatcher) {}
func (e *c14events) PeerRemoved(p core.PeerID, h core.InfoHash) {
	e.removed <- p
}

type c14connEvents struct{}

func (c14connEvents) ConnClosed(*conn.Conn) {}

type c14env struct {
	cs      *c14case
	blob    *c14blob
	torrent storage.Torrent
	d       *Dispatcher
	hsk     *conn.Handshaker
	ev      *c14events
	fsize   func() int64
	cleanup []func()
}

type c14link struct {
	r     *c14remote
	c     *conn.Conn
	p     *peer
	pid   core.PeerID
	added bool
	dead  bool
}

func c14setup(cs *c14case, tmp string) *c14env {
	e := &c14env{cs: cs, blob: c14makeBlob(cs.Seed, cs.Len, cs.P), ev: &c14events{removed: make(chan core.PeerID, 64), seen: map[core.PeerID]bool{}}}
	mi := e.blob.mi
	if mi.NumPieces() != cs.N {
		panic(fmt.Sprintf("blob has %d pieces, case says %d", mi.NumPieces(), cs.N))
	}
	mk := func(name string) string {
		d := filepath.Join(tmp, name)
		if err := os.MkdirAll(d, 0o755); err != nil {
			panic(err)
		}
		return d
	}
	name := mi.Digest().Hex()
	if cs.Agent {
		cads, err := store.NewCADownloadStore(store.CADownloadStoreConfig{DownloadDir: mk("download"), CacheDir: mk("cache")}, tally.NoopScope)
		if err != nil {
			panic(err)
		}
		e.cleanup = append(e.cleanup, cads.Close)
		tc := metainfoclient.NewTestClient()
		if err := tc.Upload(mi); err != nil {
			panic(err)
		}
		ta := agentstorage.NewTorrentArchive(tally.NoopScope, cads, tc)
		t, err := ta.CreateTorrent(c14NS, mi.Digest())
		if err != nil {
			panic(err)
		}
		for i, h := range cs.Have {
			if h {
				if err := t.WritePiece(piecereader.NewBuffer(e.blob.piece(i)), i); err != nil {
					panic(err)
				}
			}
		}
		e.torrent = t
		e.fsize = func() int64 {
			fi, err := cads.Any().GetFileStat(name)
			if err != nil {
				return -1
			}
			return fi.Size()
		}
	} else {
		cas, err := store.NewCAStore(store.CAStoreConfig{UploadDir: mk("upload"), CacheDir: mk("cache")}, tally.NoopScope)
		if err != nil {
			panic(err)
		}
		e.cleanup = append(e.cleanup, cas.Close)
		if err := cas.CreateCacheFile(name, bytes.NewReader(e.blob.content)); err != nil {
			panic(err)
		}
		t, err := originstorage.NewTorrent(cas, mi)
		if err != nil {
			panic(err)
		}
		e.torrent = t
		e.fsize = func() int64 {
			fi, err := cas.GetCacheFileStat(name)
			if err != nil {
				return -1
			}
			return fi.Size()
		}
	}
	d, err := New(
		Config{DisableEndgame: true, AgentPipelineLimit: 64, OriginPipelineLimit: 64},
		tally.NoopScope, clock.NewMock(), networkevent.NewTestProducer(), e.ev, c14Local, e.torrent,
		zap.NewNop().Sugar(), torrentlog.NewNopLogger())
	if err != nil {
		panic(err)
	}
	e.d = d
	hsk, err := conn.NewHandshaker(conn.Config{}, tally.NoopScope, clock.New(), networkevent.NewTestProducer(),
		c14Local, c14connEvents{}, zap.NewNop().Sugar())
	if err != nil {
		panic(err)
	}
	e.hsk = hsk
	return e
}

// attach plays what the scheduler does with an incoming connection (scheduler.go establishIncomingHandshake,
// state.go addIncomingConn): Accept, look the torrent up by digest, Establish, Start, AddPeer. AddPeer's two
// goroutine launches are done here so that the initial piece requests are sent before the first message is read.
func (e *c14env) attach(f *c14frame, pid core.PeerID) (*c14link, int) {
	localNC, remoteNC := net.Pipe()
	l := &c14link{r: c14newRemote(remoteNC), pid: pid}
	type res struct {
		stage int
		c     *conn.Conn
		p     *peer
	}
	done := make(chan res, 1)
	go func() {
		pc, err := e.hsk.Accept(localNC)
		if err != nil {
			localNC.Close()
			done <- res{stage: 0}
			return
		}
		if pc.Digest() != e.torrent.Digest() {
			pc.Close()
			done <- res{stage: 1}
			return
		}
		c, err := e.hsk.Establish(pc, e.d.Stat(), e.d.RemoteBitfields())
		if err != nil {
			pc.Close()
			done <- res{stage: 1}
			return
		}
		c.Start()
		p, err := e.d.addPeer(pc.PeerID(), false, pc.Bitfield(), c)
		if err != nil {
			c.Close()
			done <- res{stage: 2, c: c}
			return
		}
		e.d.maybeRequestMorePieces(p)
		go e.d.feed(p)
		done <- res{stage: 3, c: c, p: p}
	}()
	werr := c14writeFrame(remoteNC, f)
	if f.Hangup || werr != nil {
		remoteNC.Close()
	}
	r := <-done
	l.c, l.p = r.c, r.p
	if r.stage == 3 {
		l.added = true
	} else {
		// wait until the local side has really dropped the connection
		remoteNC.SetReadDeadline(time.Now().Add(20 * time.Second))
		for range l.r.frames {
		}
		remoteNC.Close()
		l.dead = true
	}
	return l, r.stage
}

func (e *c14env) classify(in c14in) (c14reply, bool) {
	m := in.msg
	switch m.Type {
	case p2p.Message_BITFIELD:
		return c14reply{}, false // the local handshake
	case p2p.Message_ERROR:
		if m.Error == nil {
			return c14reply{K: "Other", I: int64(m.Type)}, true
		}
		return c14reply{K: "Err", I: int64(m.Error.Index), C: int64(m.Error.Code)}, true
	case p2p.Message_PIECE_PAYLOAD:
		if m.PiecePayload == nil {
			return c14reply{K: "Other", I: int64(m.Type)}, true
		}
		i := int(m.PiecePayload.Index)
		ok := i >= 0 && i < e.cs.N && m.PiecePayload.Offset == 0 && bytes.Equal(in.payload, e.blob.piece(i)) &&
			int(m.PiecePayload.Length) == len(e.blob.piece(i))
		return c14reply{K: "Pay", I: int64(i), L: int64(m.PiecePayload.Length), OK: ok}, true
	case p2p.Message_PIECE_REQUEST:
		if m.PieceRequest == nil {
			return c14reply{K: "Other", I: int64(m.Type)}, true
		}
		return c14reply{K: "Req", I: int64(m.PieceRequest.Index), L: int64(m.PieceRequest.Length)}, true
	case p2p.Message_ANNOUCE_PIECE:
		if m.AnnouncePiece == nil {
			return c14reply{K: "Other", I: int64(m.Type)}, true
		}
		return c14reply{K: "Ann", I: int64(m.AnnouncePiece.Index)}, true
	case p2p.Message_COMPLETE:
		return c14reply{K: "Complete"}, true
	}
	return c14reply{K: "Other", I: int64(m.Type)}, true
}

// sync sends the sentinel and collects everything the local side sent before answering it.
// closed = the local side ended the connection (or it is gone).
func (e *c14env) sync(l *c14link) (out []c14reply, closed bool) {
	out = []c14reply{}
	if l.dead {
		return out, true
	}
	werr := c14writeFrame(l.r.nc, c14sentinelFrame())
	if werr != nil {
		l.r.nc.Close()
	}
	for in := range l.r.frames {
		if in.msg.Type == p2p.Message_ERROR && in.msg.Error != nil && in.msg.Error.Index == c14Sentinel {
			if l.c.IsClosed() {
				break
			}
			return out, false
		}
		if r, ok := e.classify(in); ok {
			out = append(out, r)
		}
	}
	// EOF, or the local conn is closed: drain and wait for the removal
	l.r.nc.Close()
	for range l.r.frames {
	}
	e.gone(l)
	return out, true
}

// gone waits until the dispatcher has removed the peer of a closed connection.
func (e *c14env) gone(l *c14link) {
	if l.dead {
		return
	}
	l.dead = true
	if !l.added {
		return
	}
	for !e.ev.seen[l.pid] {
		e.ev.seen[<-e.ev.removed] = true
	}
}

func (e *c14env) counters() []int64 {
	out := make([]int64, e.d.numPeersByPiece.Len())
	for i := range out {
		out[i] = int64(e.d.numPeersByPiece.Get(i))
	}
	return out
}

func c14exec(cs *c14case, tmp string) (obs c14obs) {
	obs = c14obs{AInit: []c14reply{}, BInit: []c14reply{}, Steps: []c14step{}, ASet: []int64{}, Cnt1: []int64{},
		Pend: []int64{}, Have: []bool{}, Cnt2: []int64{}, BProbe: []int64{}}
	e := c14setup(cs, tmp)
	defer func() {
		for i := len(e.cleanup) - 1; i >= 0; i-- {
			e.cleanup[i]()
		}
	}()
	mi := e.blob.mi

	// honest B joins first
	bbits := make([]bool, cs.N)
	for i := range bbits {
		bbits[i] = cs.BFull
	}
	hb := c14marshal(c14hsMessage(c14IDB.String(), mi.Digest().Hex(), mi.InfoHash().String(), c14bitfieldBytes(uint64(cs.N), c14words(bbits)), nil, c14NS))
	B, st := e.attach(&c14frame{Prefix: uint32(len(hb)), Body: hb}, c14IDB)
	if st != 3 {
		obs.Incon, obs.Note = true, "honest peer B was not accepted"
		return
	}
	bi, bclosed := e.sync(B)
	obs.BInit = bi
	if bclosed {
		obs.Incon, obs.Note = true, "honest peer B closed right after the handshake"
		return
	}

	runtime.GC()
	var m0, m1 runtime.MemStats
	runtime.ReadMemStats(&m0)

	apid := c14IDA
	if cs.APeer != "" {
		if p, err := core.NewPeerID(cs.APeer); err == nil {
			apid = p
		}
	}
	A, stage := e.attach(&cs.Hs, apid)
	obs.Hs = stage
	if stage == 3 {
		ai, closed := e.sync(A)
		obs.AInit = ai
		if !closed {
			for k := range cs.Msgs {
				f := &cs.Msgs[k]
				var stp c14step
				werr := c14writeFrame(A.r.nc, f)
				if werr != nil || f.Hangup {
					A.r.nc.Close()
				}
				stp.A, stp.Closed = e.sync(A)
				if !B.dead {
					var bc bool
					stp.B, bc = e.sync(B)
					if bc {
						stp.B = []c14reply{} // what reaches a connection while it is being closed is not deterministic
					}
				} else {
					stp.B = []c14reply{}
				}
				obs.Steps = append(obs.Steps, stp)
				if stp.Closed {
					break
				}
			}
		}
	}

	// final state
	if A.added && !A.dead {
		obs.AOpen = true
		obs.ALen = int64(A.p.bitfield.Len())
		for _, i := range A.p.bitfield.GetAllSet() {
			obs.ASet = append(obs.ASet, int64(i))
		}
	}
	obs.Cnt1 = e.counters()
	for _, i := range e.d.pieceRequestManager.PendingPieces(apid) {
		obs.Pend = append(obs.Pend, int64(i))
	}
	for i := 0; i < cs.N; i++ {
		obs.Have = append(obs.Have, e.torrent.HasPiece(i))
	}
	if A.added && !A.dead {
		A.r.nc.Close()
		for range A.r.frames {
		}
		e.gone(A)
	}
	obs.Cnt2 = e.counters()
	runtime.ReadMemStats(&m1)
	obs.Big = m1.TotalAlloc-m0.TotalAlloc > c14Big

	// the honest connection is still served
	obs.BClosed = B.dead
	if !B.dead {
		for i := 0; i < cs.N; i++ {
			rq := c14marshal(&p2p.Message{Type: p2p.Message_PIECE_REQUEST,
				PieceRequest: &p2p.PieceRequestMessage{Index: int32(i), Offset: 0, Length: int32(mi.GetPieceLength(i))}})
			if err := c14writeFrame(B.r.nc, &c14frame{Prefix: uint32(len(rq)), Body: rq}); err != nil {
				obs.BProbe = append(obs.BProbe, 0)
				continue
			}
			rs, closed := e.sync(B)
			code := int64(0)
			if !closed && len(rs) == 1 {
				switch {
				case rs[0].K == "Pay" && rs[0].OK && rs[0].I == int64(i):
					code = 2
				case rs[0].K == "Err" && rs[0].I == int64(i):
					code = 1
				}
			}
			obs.BProbe = append(obs.BProbe, code)
			if closed {
				break
			}
		}
	}
	obs.FSize = e.fsize()
	e.d.TearDown()
	if !B.dead {
		B.r.nc.Close()
	}
	return obs
}

func c14child() {
	lim := syscall.Rlimit{Cur: c14Rlimit, Max: c14Rlimit}
	if err := syscall.Setrlimit(syscall.RLIMIT_AS, &lim); err != nil {
		fmt.Fprintln(os.Stderr, "setrlimit:", err)
		os.Exit(4)
	}
	in, err := os.ReadFile(os.Getenv("VERIF_C14_IN"))
	if err != nil {
		panic(err)
	}
	out, err := os.OpenFile(os.Getenv("VERIF_C14_OUT"), os.O_CREATE|os.O_WRONLY|os.O_TRUNC, 0o644)
	if err != nil {
		panic(err)
	}
	tmp := os.Getenv("VERIF_C14_TMP")
	k := 0
	for _, line := range bytes.Split(in, []byte("\n")) {
		if len(bytes.TrimSpace(line)) == 0 {
			continue
		}
		var cs c14case
		if err := json.Unmarshal(line, &cs); err != nil {
			panic(err)
		}
		dir := filepath.Join(tmp, fmt.Sprintf("case%d", k))
		var obs c14obs
		fin := make(chan struct{})
		go func() {
			obs = c14exec(&cs, dir)
			close(fin)
		}()
		select {
		case <-fin:
		case <-time.After(c14CaseWatch):
			// not a verdict: the parent marks the case inconclusive and restarts after it
			os.Exit(3)
		}
		os.RemoveAll(dir)
		b, _ := json.Marshal(&obs)
		out.Write(append(b, '\n'))
		k++
	}
	out.Close()
	os.Exit(0)
}

// ---------------------------------------------------------------- parent: message construction

func c14hsMessage(peer, name, hash string, bf []byte, rb map[string][]byte, ns string) *p2p.Message {
	return &p2p.Message{Type: p2p.Message_BITFIELD, Bitfield: &p2p.BitfieldMessage{
		PeerID: peer, Name: name, InfoHash: hash, BitfieldBytes: bf, RemoteBitfieldBytes: rb, Namespace: ns}}
}

func c14words(bits []bool) []uint64 {
	ws := make([]uint64, (len(bits)+63)/64)
	for i, b := range bits {
		if b {
			ws[i/64] |= 1 << uint(i%64)
		}
	}
	return ws
}

// c14bitfieldBytes is the binary form of willf/bitset: 64-bit big-endian bit count, then the words.
func c14bitfieldBytes(l uint64, ws []uint64) []byte {
	b := make([]byte, 8+8*len(ws))
	binary.BigEndian.PutUint64(b, l)
	for i, w := range ws {
		binary.BigEndian.PutUint64(b[8+8*i:], w)
	}
	return b
}

// ---- Coq printers (decoded level)

func c14z(i int64) string { return hlib.Z(i) }

func c14bfCoq(raw []byte) string {
	if len(raw) < 8 {
		return "None"
	}
	l := binary.BigEndian.Uint64(raw)
	var ws []string
	for k := 8; k+8 <= len(raw); k += 8 {
		ws = append(ws, hlib.U(binary.BigEndian.Uint64(raw[k:])))
	}
	return fmt.Sprintf("(Some (%s, %s, %d))", hlib.U(l), hlib.List(ws), len(raw)-8)
}

// c14hsCoq prints the decoded handshake; dec = what proto.Unmarshal makes of the bytes (protobuf decoding is
// outside the model, its result is the model's input).
func c14hsCoq(f *c14frame, digestHex string) (string, string) {
	full := !f.Hangup && int(f.Prefix) == len(f.Body)
	m := new(p2p.Message)
	ok := full && proto.Unmarshal(f.Body, m) == nil
	if !ok {
		return fmt.Sprintf("(mkh %d false 0 false false false false None [] false false)", f.Prefix), ""
	}
	bm := m.Bitfield
	if bm == nil {
		return fmt.Sprintf("(mkh %d true %s false false false false None [] false false)", f.Prefix, c14z(int64(m.Type))), ""
	}
	pid, perr := core.NewPeerID(bm.PeerID)
	_, herr := core.NewInfoHashFromHex(bm.InfoHash)
	d, nerr := core.NewSHA256DigestFromHex(bm.Name)
	var rbs []string
	// the model processes the entries in this order; the code iterates a Go map (any order): the theorems hold
	// for every order and the observables compared do not depend on it
	keys := make([]string, 0, len(bm.RemoteBitfieldBytes))
	for k := range bm.RemoteBitfieldBytes {
		keys = append(keys, k)
	}
	sortStrings(keys)
	for _, k := range keys {
		_, kerr := core.NewPeerID(k)
		rbs = append(rbs, hlib.Pair(hlib.B(kerr == nil), c14bfCoq(bm.RemoteBitfieldBytes[k])))
	}
	apeer := ""
	if perr == nil {
		apeer = pid.String()
	}
	return fmt.Sprintf("(mkh %d true %s true %s %s %s %s %s %s %s)", f.Prefix, c14z(int64(m.Type)),
		hlib.B(perr == nil), hlib.B(herr == nil), hlib.B(nerr == nil), c14bfCoq(bm.BitfieldBytes), hlib.List(rbs),
		hlib.B(nerr == nil && d.Hex() == digestHex), hlib.B(perr == nil && pid == c14IDB)), apeer
}

func sortStrings(a []string) {
	for i := 1; i < len(a); i++ {
		for j := i; j > 0 && a[j] < a[j-1]; j-- {
			a[j], a[j-1] = a[j-1], a[j]
		}
	}
}

func c14opt3(ok bool, a, b, c int32) string {
	if !ok {
		return "None"
	}
	return fmt.Sprintf("(Some (%s, %s, %s))", c14z(int64(a)), c14z(int64(b)), c14z(int64(c)))
}

// c14msgCoq prints a decoded message: frame size, whether it arrives completely and decodes, the type, the
// optional bodies, whether the remote delivers the announced payload, and whether the delivered bytes are the
// piece the header names (checksum oracle).
func c14msgCoq(f *c14frame, sumok bool) (string, string) {
	full := int(f.Prefix) == len(f.Body)
	m := new(p2p.Message)
	ok := full && proto.Unmarshal(f.Body, m) == nil
	if !ok {
		return fmt.Sprintf("(mkm %d false 0 None None None None false false)", f.Prefix), "garbage"
	}
	req, pay, ann, er := "None", "None", "None", "None"
	if m.PieceRequest != nil {
		req = c14opt3(true, m.PieceRequest.Index, m.PieceRequest.Offset, m.PieceRequest.Length)
	}
	if m.PiecePayload != nil {
		pay = c14opt3(true, m.PiecePayload.Index, m.PiecePayload.Offset, m.PiecePayload.Length)
	}
	if m.AnnouncePiece != nil {
		ann = fmt.Sprintf("(Some %s)", c14z(int64(m.AnnouncePiece.Index)))
	}
	if m.Error != nil {
		er = fmt.Sprintf("(Some (%s, %s))", c14z(int64(m.Error.Index)), c14z(int64(m.Error.Code)))
	}
	deliver := !f.Hangup
	name := m.Type.String()
	if _, known := p2p.Message_Type_name[int32(m.Type)]; !known {
		name = "UNKNOWN_TYPE"
	}
	return fmt.Sprintf("(mkm %d true %s %s %s %s %s %s %s)", f.Prefix, c14z(int64(m.Type)), req, pay, ann, er,
		hlib.B(deliver), hlib.B(sumok)), name
}

func c14repliesCoq(rs []c14reply) string {
	out := make([]string, len(rs))
	for i, r := range rs {
		switch r.K {
		case "Err":
			out[i] = fmt.Sprintf("RErr %s %s", c14z(r.I), c14z(r.C))
		case "Pay":
			out[i] = fmt.Sprintf("RPay %s %s %s", c14z(r.I), c14z(r.L), hlib.B(r.OK))
		case "Req":
			out[i] = fmt.Sprintf("RReq %s %s", c14z(r.I), c14z(r.L))
		case "Ann":
			out[i] = fmt.Sprintf("RAnn %s", c14z(r.I))
		case "Complete":
			out[i] = "RComplete"
		default:
			out[i] = fmt.Sprintf("ROther %s", c14z(r.I))
		}
	}
	return hlib.List(out)
}

func c14zs(xs []int64) string {
	out := make([]string, len(xs))
	for i, x := range xs {
		out[i] = c14z(x)
	}
	return hlib.List(out)
}

func c14bools(xs []bool) string {
	out := make([]string, len(xs))
	for i, x := range xs {
		out[i] = hlib.B(x)
	}
	return hlib.List(out)
}

func c14obsCoq(o *c14obs) string {
	steps := make([]string, len(o.Steps))
	for i, s := range o.Steps {
		steps[i] = fmt.Sprintf("(%s, %s, %s)", c14repliesCoq(s.A), c14repliesCoq(s.B), hlib.B(s.Closed))
	}
	abits := "None"
	if o.AOpen {
		abits = fmt.Sprintf("(Some (%s, %s))", c14z(o.ALen), c14zs(o.ASet))
	}
	return fmt.Sprintf("(mkobs %d %s %d %s %s %s %s %s %s %s %s %s %s %s)", o.Crash, hlib.B(o.Big), o.Hs,
		c14repliesCoq(o.AInit), c14repliesCoq(o.BInit), hlib.List(steps), abits, c14zs(o.Cnt1), c14zs(o.Pend),
		c14bools(o.Have), c14zs(o.Cnt2), hlib.B(o.BClosed), c14zs(o.BProbe), c14z(o.FSize))
}

// ---------------------------------------------------------------- parent: generators

type c14gen struct {
	r      *hlib.Rng
	guards string
	cases  []*c14case
}

func (g *c14gen) pieceLen(cs *c14case, i int) int {
	if i < 0 || i >= cs.N {
		return 0
	}
	if i == cs.N-1 {
		return cs.Len - cs.P*(cs.N-1)
	}
	return cs.P
}

// newCase draws a torrent: n pieces of p bytes, the last one possibly shorter.
func (g *c14gen) newCase(kind string, agent bool, n, p, last int, have []bool, bfull bool) *c14case {
	cs := &c14case{Seed: g.r.U64(), Agent: agent, N: n, P: p, Len: p*(n-1) + last, Have: have, BFull: bfull, Kind: kind}
	if !agent {
		cs.Have = make([]bool, n)
		for i := range cs.Have {
			cs.Have[i] = true
		}
	}
	return cs
}

func (g *c14gen) randomTorrent(kind string) *c14case {
	agent := g.r.Chance(65)
	n := []int{1, 2, 3, 4, 5, 8, 12}[g.r.Intn(7)]
	p := []int{1, 2, 3, 8, 16, 64, 200}[g.r.Intn(7)]
	last := p
	if g.r.Chance(50) {
		last = g.r.Range(1, p)
	}
	have := make([]bool, n)
	mode := g.r.Intn(10)
	for i := range have {
		switch {
		case mode < 4: // nothing yet
		case mode < 5: // all but one
			have[i] = i != n-1
		default:
			have[i] = g.r.Chance(40)
		}
	}
	if agent && mode == 9 {
		for i := range have {
			have[i] = true
		}
	}
	return g.newCase(kind, agent, n, p, last, have, g.r.Chance(20))
}

// honestHs: A's handshake with a clean bitfield of exactly n bits.
func (g *c14gen) honestHs(cs *c14case, bits []bool) {
	b := c14makeBlob(cs.Seed, cs.Len, cs.P)
	body := c14marshal(c14hsMessage(c14IDA.String(), b.mi.Digest().Hex(), b.mi.InfoHash().String(),
		c14bitfieldBytes(uint64(cs.N), c14words(bits)), nil, c14NS))
	cs.Hs = c14frame{Prefix: uint32(len(body)), Body: body}
}

func (g *c14gen) setHs(cs *c14case, m *p2p.Message) {
	body := c14marshal(m)
	cs.Hs = c14frame{Prefix: uint32(len(body)), Body: body}
}

func (g *c14gen) finish(cs *c14case) {
	b := c14makeBlob(cs.Seed, cs.Len, cs.P)
	cs.coqHs, cs.APeer = c14hsCoq(&cs.Hs, b.mi.Digest().Hex())
	g.cases = append(g.cases, cs)
}

// addMsg appends a message built from a p2p.Message; for PIECE_PAYLOAD the remote delivers the announced bytes
// when 0 <= length <= c14CapSend (the right piece bytes if `good`), otherwise it hangs up after the header.
func (g *c14gen) addMsg(cs *c14case, m *p2p.Message, good bool) {
	body := c14marshal(m)
	g.addRaw(cs, uint32(len(body)), body, good)
}

func (g *c14gen) addRaw(cs *c14case, prefix uint32, body []byte, good bool) {
	f := c14frame{Prefix: prefix, Body: body}
	sumok := false
	m := new(p2p.Message)
	if int(prefix) == len(body) && proto.Unmarshal(body, m) == nil {
		if m.Type == p2p.Message_PIECE_PAYLOAD && m.PiecePayload != nil {
			l := int(m.PiecePayload.Length)
			i := int(m.PiecePayload.Index)
			if l < 0 || l > c14CapSend {
				f.Hangup = true
			} else {
				f.Payload = make([]byte, l)
				if i >= 0 && i < cs.N && l == g.pieceLen(cs, i) {
					copy(f.Payload, c14makeBlob(cs.Seed, cs.Len, cs.P).piece(i))
					if good && m.PiecePayload.Offset == 0 {
						sumok = true
					} else if l > 0 {
						f.Payload[0] ^= 0x5a // one flipped byte always changes the CRC-32 piece sum
					}
				}
			}
		}
	} else {
		if int(prefix) > len(body) {
			f.Hangup = true
		}
	}
	coq, name := c14msgCoq(&f, sumok)
	cs.Msgs = append(cs.Msgs, f)
	cs.coqMsg = append(cs.coqMsg, coq)
	cs.hist = append(cs.hist, name)
}

var c14idxBoundary = []int32{-1, -2, 0, 1, -2147483648, 2147483647, -64, 63, 64, 65}

func (g *c14gen) hostileIndex(cs *c14case) int32 {
	switch k := g.r.Intn(100); {
	case k < 50:
		return int32(g.r.Intn(cs.N))
	case k < 72:
		return int32(cs.N + g.r.Intn(3) - 1) // n-1, n, n+1
	case k < 90:
		return c14idxBoundary[g.r.Intn(len(c14idxBoundary))]
	default:
		v := int32(g.r.U64())
		if v == c14Sentinel {
			v = 7
		}
		return v
	}
}

func (g *c14gen) hostileLength(cs *c14case, idx int32) int32 {
	pl := int32(g.pieceLen(cs, int(idx)))
	switch k := g.r.Intn(100); {
	case k < 60:
		return pl
	case k < 72:
		return []int32{0, 1, pl + 1, pl - 1, int32(cs.P), int32(cs.P) + 1, int32(cs.P) - 1, 2 * int32(cs.P)}[g.r.Intn(8)]
	case k < 80:
		return []int32{-1, -2147483648, -4096}[g.r.Intn(3)]
	case k < 86:
		return int32(c14CapSend) - int32(g.r.Intn(2))
	case k < 94:
		return []int32{64 << 20, 100 << 20, 256 << 20}[g.r.Intn(3)]
	default:
		return 2147483647
	}
}

func (g *c14gen) hostileOffset() int32 {
	if g.r.Chance(85) {
		return 0
	}
	return []int32{1, -1, 2147483647, -2147483648}[g.r.Intn(4)]
}

// randomMessage: all types x boundary field values x missing / misplaced bodies.
func (g *c14gen) randomMessage(cs *c14case) (*p2p.Message, bool) {
	m := &p2p.Message{}
	types := []p2p.Message_Type{p2p.Message_PIECE_REQUEST, p2p.Message_PIECE_PAYLOAD, p2p.Message_ANNOUCE_PIECE,
		p2p.Message_ERROR, p2p.Message_COMPLETE, p2p.Message_CANCEL_PIECE, p2p.Message_BITFIELD}
	weights := []int{28, 24, 24, 10, 4, 3, 2}
	k := g.r.Intn(100)
	ty := p2p.Message_Type(7 + g.r.Intn(3)*1000)
	if k < 95 {
		acc := 0
		for i, w := range weights {
			acc += w
			if k < acc {
				ty = types[i]
				break
			}
		}
	} else if k < 97 {
		ty = p2p.Message_Type(-1)
	}
	m.Type = ty
	body := g.r.Intn(100)
	own := body < 86      // the body that belongs to the type
	foreign := body >= 93 // a body of another type instead
	idx := g.hostileIndex(cs)
	fill := func(t p2p.Message_Type) {
		switch t {
		case p2p.Message_PIECE_REQUEST:
			m.PieceRequest = &p2p.PieceRequestMessage{Index: idx, Offset: g.hostileOffset(), Length: g.hostileLength(cs, idx)}
		case p2p.Message_PIECE_PAYLOAD:
			m.PiecePayload = &p2p.PiecePayloadMessage{Index: idx, Offset: g.hostileOffset(), Length: g.hostileLength(cs, idx)}
		case p2p.Message_ANNOUCE_PIECE:
			m.AnnouncePiece = &p2p.AnnouncePieceMessage{Index: idx}
		case p2p.Message_ERROR:
			code := p2p.ErrorMessage_PIECE_REQUEST_FAILED
			if g.r.Chance(20) {
				code = p2p.ErrorMessage_ErrorCode(g.r.Range(1, 3))
			}
			m.Error = &p2p.ErrorMessage{Index: idx, Code: code, Error: "x"}
		case p2p.Message_CANCEL_PIECE:
			m.CancelPiece = &p2p.CancelPieceMessage{Index: idx}
		case p2p.Message_COMPLETE:
			m.Complete = &p2p.CompleteMessage{}
		case p2p.Message_BITFIELD:
			m.Bitfield = &p2p.BitfieldMessage{PeerID: c14IDA.String()}
		}
	}
	if own {
		fill(ty)
	}
	if foreign {
		other := types[g.r.Intn(len(types))]
		if other != ty {
			fill(other)
		}
	}
	return m, g.r.Chance(85)
}

func (g *c14gen) randomBits(n int, pct int) []bool {
	b := make([]bool, n)
	for i := range b {
		b[i] = g.r.Chance(pct)
	}
	return b
}

func (g *c14gen) msgCase(kind string, nmsgs int) {
	cs := g.randomTorrent(kind)
	pct := []int{0, 0, 30, 60, 100}[g.r.Intn(5)]
	g.honestHs(cs, g.randomBits(cs.N, pct))
	for j := 0; j < nmsgs; j++ {
		m, good := g.randomMessage(cs)
		g.addMsg(cs, m, good)
	}
	g.finish(cs)
}

// validCase: a well-behaved peer: announces, requests, correct payloads (mostly in a useful order).
func (g *c14gen) validCase(kind string) {
	cs := g.randomTorrent(kind)
	g.honestHs(cs, g.randomBits(cs.N, []int{0, 50, 100}[g.r.Intn(3)]))
	n := g.r.Range(1, 2*cs.N+2)
	for j := 0; j < n; j++ {
		i := g.r.Intn(cs.N)
		pl := int32(g.pieceLen(cs, i))
		switch g.r.Intn(10) {
		case 0, 1, 2:
			g.addMsg(cs, &p2p.Message{Type: p2p.Message_ANNOUCE_PIECE, AnnouncePiece: &p2p.AnnouncePieceMessage{Index: int32(i)}}, true)
		case 3, 4, 5:
			g.addMsg(cs, &p2p.Message{Type: p2p.Message_PIECE_REQUEST, PieceRequest: &p2p.PieceRequestMessage{Index: int32(i), Length: pl}}, true)
		case 6, 7, 8:
			g.addMsg(cs, &p2p.Message{Type: p2p.Message_PIECE_PAYLOAD, PiecePayload: &p2p.PiecePayloadMessage{Index: int32(i), Length: pl}}, g.r.Chance(90))
		default:
			if g.r.Bool() {
				g.addMsg(cs, &p2p.Message{Type: p2p.Message_ERROR, Error: &p2p.ErrorMessage{Index: int32(i), Error: "e"}}, true)
			} else {
				g.addMsg(cs, &p2p.Message{Type: p2p.Message_COMPLETE, Complete: &p2p.CompleteMessage{}}, true)
			}
		}
	}
	g.finish(cs)
}

// completingCase: the peer delivers every missing piece (the torrent completes), then keeps talking.
func (g *c14gen) completingCase(kind string, afull bool) {
	cs := g.randomTorrent(kind)
	cs.Agent = true
	abits := g.randomBits(cs.N, 50)
	if afull {
		abits = g.randomBits(cs.N, 100)
	}
	g.honestHs(cs, abits)
	for i := 0; i < cs.N; i++ {
		if !cs.Have[i] {
			g.addMsg(cs, &p2p.Message{Type: p2p.Message_PIECE_PAYLOAD,
				PiecePayload: &p2p.PiecePayloadMessage{Index: int32(i), Length: int32(g.pieceLen(cs, i))}}, true)
		}
	}
	for j := 0; j < 2; j++ {
		m, good := g.randomMessage(cs)
		g.addMsg(cs, m, good)
	}
	g.finish(cs)
}

// rawCase: byte strings after a valid length prefix: random bytes, mutated encodings, truncations.
func (g *c14gen) rawCase(kind string) {
	cs := g.randomTorrent(kind)
	g.honestHs(cs, g.randomBits(cs.N, 50))
	n := g.r.Range(1, 3)
	for j := 0; j < n; j++ {
		var body []byte
		switch g.r.Intn(4) {
		case 0:
			body = g.r.Bytes(g.r.Intn(24))
		default:
			m, _ := g.randomMessage(cs)
			body = c14marshal(m)
			for k := g.r.Intn(3); k >= 0 && len(body) > 0; k-- {
				switch g.r.Intn(4) {
				case 0:
					body[g.r.Intn(len(body))] ^= byte(1 << uint(g.r.Intn(8)))
				case 1:
					body[g.r.Intn(len(body))] = byte(g.r.U64())
				case 2:
					body = body[:g.r.Intn(len(body)+1)]
				default:
					body = append(body, g.r.Bytes(g.r.Range(1, 4))...)
				}
			}
		}
		prefix := uint32(len(body))
		if g.r.Chance(8) {
			prefix += uint32(g.r.Range(1, 9)) // announces more than it sends, then hangs up
		}
		g.addRaw(cs, prefix, body, true)
	}
	g.finish(cs)
}

// hsCase: hostile handshakes (no messages follow).
func (g *c14gen) hsCase(kind string) {
	cs := g.randomTorrent(kind)
	b := c14makeBlob(cs.Seed, cs.Len, cs.P)
	peer, name, hash := c14IDA.String(), b.mi.Digest().Hex(), b.mi.InfoHash().String()
	n := uint64(cs.N)
	words := c14words(g.randomBits(cs.N, 50))
	l := n
	var extra []byte
	switch k := g.r.Intn(100); {
	case k < 12: // honest
	case k < 24: // wrong bit count, words for it
		l = []uint64{0, n - 1, n + 1, 2 * n, 64, 65, 128, n + 64}[g.r.Intn(8)]
		words = c14words(g.randomBits(int(l), 50))
	case k < 34: // right bit count, dirty bits beyond it in the last word
		words[len(words)-1] |= ^uint64(0) << uint(cs.N%64)
		if g.r.Bool() {
			words[len(words)-1] = 1 << uint(g.r.Range(cs.N%64, 63))
		}
	case k < 42: // more words than the bit count needs
		words = append(words, g.r.U64(), g.r.U64())
	case k < 50: // fewer words than the bit count needs
		l = n + 64*uint64(g.r.Range(1, 3))
	case k < 62: // hostile prefix, no matching data
		l = []uint64{1 << 20, 1 << 30, 1 << 33, 1 << 40, 1 << 50, 1 << 62, 1<<63 - 1, 1 << 63, ^uint64(0), ^uint64(0) - 63, ^uint64(0) - 64}[g.r.Intn(11)]
	case k < 66: // trailing bytes
		extra = g.r.Bytes(g.r.Range(1, 7))
	case k < 70:
		words = nil
		l = 0
	}
	bf := append(c14bitfieldBytes(l, words), extra...)
	if k := g.r.Intn(100); k < 4 {
		bf = bf[:g.r.Intn(8)] // not even a complete bit count
	}
	var rb map[string][]byte
	if g.r.Chance(30) {
		rb = map[string][]byte{}
		for j := g.r.Range(1, 3); j > 0; j-- {
			key := c14pid(byte(0xc0 + j)).String()
			if g.r.Chance(15) {
				key = "zz"
			}
			rl := n
			rw := c14words(g.randomBits(cs.N, 50))
			if g.r.Chance(40) {
				rl = []uint64{1 << 30, 1 << 40, 1 << 50, ^uint64(0), 7 * n}[g.r.Intn(5)]
			}
			rb[key] = c14bitfieldBytes(rl, rw)
		}
	}
	switch k := g.r.Intn(100); {
	case k < 4:
		peer = "nothex"
	case k < 7:
		peer = c14IDB.String() // claims the identity of the honest peer
	case k < 10:
		hash = "12"
	case k < 13:
		name = strings.Repeat("0", 64) // well-formed, unknown torrent
	case k < 15:
		name = "xyz"
	}
	m := c14hsMessage(peer, name, hash, bf, rb, c14NS)
	switch k := g.r.Intn(100); {
	case k < 3:
		m.Bitfield = nil
	case k < 6:
		m.Type = p2p.Message_PIECE_REQUEST
	}
	g.setHs(cs, m)
	if g.r.Chance(3) {
		cs.Hs.Prefix += 5
		cs.Hs.Hangup = true
	}
	g.finish(cs)
}

// ---------------------------------------------------------------- parent: seeds (every refuted witness, every boundary)

func (g *c14gen) seeds() {
	type tor struct {
		agent   bool
		n, p, l int
		have    []bool
	}
	agent := tor{true, 4, 8, 5, []bool{true, false, false, false}}
	origin := tor{false, 4, 8, 5, nil}
	mk := func(kind string, t tor, abits []bool, bfull bool) *c14case {
		have := t.have
		if have == nil {
			have = make([]bool, t.n)
		}
		cs := g.newCase(kind, t.agent, t.n, t.p, t.l, append([]bool{}, have...), bfull)
		if abits == nil {
			abits = make([]bool, t.n)
		}
		g.honestHs(cs, abits)
		return cs
	}
	one := func(kind string, t tor, m *p2p.Message) {
		cs := mk(kind, t, nil, false)
		cs.tags = []string{kind}
		g.addMsg(cs, m, true)
		g.finish(cs)
	}
	for _, t := range []tor{agent, origin} {
		sfx := "-origin"
		if t.agent {
			sfx = "-agent"
		}
		// class: negative index
		one("seed-announce-neg1"+sfx, t, &p2p.Message{Type: p2p.Message_ANNOUCE_PIECE, AnnouncePiece: &p2p.AnnouncePieceMessage{Index: -1}})
		one("seed-announce-neg5"+sfx, t, &p2p.Message{Type: p2p.Message_ANNOUCE_PIECE, AnnouncePiece: &p2p.AnnouncePieceMessage{Index: -5}})
		one("seed-announce-minint"+sfx, t, &p2p.Message{Type: p2p.Message_ANNOUCE_PIECE, AnnouncePiece: &p2p.AnnouncePieceMessage{Index: -2147483648}})
		one("seed-request-neg1-len0"+sfx, t, &p2p.Message{Type: p2p.Message_PIECE_REQUEST, PieceRequest: &p2p.PieceRequestMessage{Index: -1}})
		one("seed-payload-neg1-len0"+sfx, t, &p2p.Message{Type: p2p.Message_PIECE_PAYLOAD, PiecePayload: &p2p.PiecePayloadMessage{Index: -1}})
		// in-range boundaries that must keep working
		one("seed-announce-n"+sfx, t, &p2p.Message{Type: p2p.Message_ANNOUCE_PIECE, AnnouncePiece: &p2p.AnnouncePieceMessage{Index: int32(t.n)}})
		one("seed-announce-last"+sfx, t, &p2p.Message{Type: p2p.Message_ANNOUCE_PIECE, AnnouncePiece: &p2p.AnnouncePieceMessage{Index: int32(t.n - 1)}})
		one("seed-request-n-len0"+sfx, t, &p2p.Message{Type: p2p.Message_PIECE_REQUEST, PieceRequest: &p2p.PieceRequestMessage{Index: int32(t.n)}})
		one("seed-request-first"+sfx, t, &p2p.Message{Type: p2p.Message_PIECE_REQUEST, PieceRequest: &p2p.PieceRequestMessage{Index: 0, Length: int32(t.p)}})
		one("seed-request-last"+sfx, t, &p2p.Message{Type: p2p.Message_PIECE_REQUEST, PieceRequest: &p2p.PieceRequestMessage{Index: int32(t.n - 1), Length: int32(t.l)}})
		one("seed-request-chunk"+sfx, t, &p2p.Message{Type: p2p.Message_PIECE_REQUEST, PieceRequest: &p2p.PieceRequestMessage{Index: 0, Offset: 1, Length: int32(t.p)}})
		one("seed-payload-last"+sfx, t, &p2p.Message{Type: p2p.Message_PIECE_PAYLOAD, PiecePayload: &p2p.PiecePayloadMessage{Index: int32(t.n - 1), Length: int32(t.l)}})
		one("seed-payload-n-len0"+sfx, t, &p2p.Message{Type: p2p.Message_PIECE_PAYLOAD, PiecePayload: &p2p.PiecePayloadMessage{Index: int32(t.n)}})
		// class: missing body
		one("seed-nil-announce"+sfx, t, &p2p.Message{Type: p2p.Message_ANNOUCE_PIECE})
		one("seed-nil-request"+sfx, t, &p2p.Message{Type: p2p.Message_PIECE_REQUEST})
		one("seed-nil-error"+sfx, t, &p2p.Message{Type: p2p.Message_ERROR})
		one("seed-nil-payload"+sfx, t, &p2p.Message{Type: p2p.Message_PIECE_PAYLOAD})
		one("seed-nil-payload-foreign-body"+sfx, t, &p2p.Message{Type: p2p.Message_PIECE_PAYLOAD, PieceRequest: &p2p.PieceRequestMessage{Index: 1, Length: 8}})
		one("seed-nil-cancel"+sfx, t, &p2p.Message{Type: p2p.Message_CANCEL_PIECE})
		one("seed-unknown-type"+sfx, t, &p2p.Message{Type: 77})
		one("seed-bitfield-on-established"+sfx, t, &p2p.Message{Type: p2p.Message_BITFIELD})
		// class: payload length
		one("seed-payload-len-neg1"+sfx, t, &p2p.Message{Type: p2p.Message_PIECE_PAYLOAD, PiecePayload: &p2p.PiecePayloadMessage{Index: 1, Length: -1}})
		one("seed-payload-len-minint"+sfx, t, &p2p.Message{Type: p2p.Message_PIECE_PAYLOAD, PiecePayload: &p2p.PiecePayloadMessage{Index: 1, Length: -2147483648}})
		one("seed-payload-len-maxint"+sfx, t, &p2p.Message{Type: p2p.Message_PIECE_PAYLOAD, PiecePayload: &p2p.PiecePayloadMessage{Index: 1, Length: 2147483647}})
		one("seed-payload-len-100MiB"+sfx, t, &p2p.Message{Type: p2p.Message_PIECE_PAYLOAD, PiecePayload: &p2p.PiecePayloadMessage{Index: 1, Length: 100 << 20}})
		one("seed-payload-len-p-plus-1"+sfx, t, &p2p.Message{Type: p2p.Message_PIECE_PAYLOAD, PiecePayload: &p2p.PiecePayloadMessage{Index: 1, Length: int32(t.p + 1)}})
		one("seed-payload-len-p-on-short-last"+sfx, t, &p2p.Message{Type: p2p.Message_PIECE_PAYLOAD, PiecePayload: &p2p.PiecePayloadMessage{Index: int32(t.n - 1), Length: int32(t.p)}})
		one("seed-payload-valid"+sfx, t, &p2p.Message{Type: p2p.Message_PIECE_PAYLOAD, PiecePayload: &p2p.PiecePayloadMessage{Index: 1, Length: int32(t.p)}})
		one("seed-complete-msg"+sfx, t, &p2p.Message{Type: p2p.Message_COMPLETE})

		// frame size boundaries (maxMessageSize)
		for _, sz := range []int{c14MaxMsg - 1, c14MaxMsg, c14MaxMsg + 1} {
			cs := mk(fmt.Sprintf("seed-frame-size-%d%s", sz, sfx), t, nil, false)
			m := &p2p.Message{Type: p2p.Message_ANNOUCE_PIECE, AnnouncePiece: &p2p.AnnouncePieceMessage{Index: 2}}
			base := len(c14marshal(m))
			pad := sz - base - 4 // field tag + 3-byte varint length
			m.Version = strings.Repeat("v", pad)
			body := c14marshal(m)
			if len(body) != sz {
				panic(fmt.Sprintf("frame seed: %d != %d", len(body), sz))
			}
			g.addRaw(cs, uint32(sz), body, true)
			g.finish(cs)
		}
		for _, pfx := range []uint32{c14MaxMsg + 1, 1 << 31, ^uint32(0)} {
			cs := mk(fmt.Sprintf("seed-frame-prefix-%d%s", pfx, sfx), t, nil, false)
			g.addRaw(cs, pfx, nil, true)
			g.finish(cs)
		}

		// class: bitfield size (addPeer) and class: bitfield length prefix (UnmarshalBinary)
		hs := func(kind string, l uint64, words []uint64, trunc int) {
			cs := g.newCase(kind, t.agent, t.n, t.p, t.l, append([]bool{}, agent.have...), false)
			cs.tags = []string{kind}
			b := c14makeBlob(cs.Seed, cs.Len, cs.P)
			bf := c14bitfieldBytes(l, words)
			if trunc >= 0 {
				bf = bf[:trunc]
			}
			g.setHs(cs, c14hsMessage(c14IDA.String(), b.mi.Digest().Hex(), b.mi.InfoHash().String(), bf, nil, c14NS))
			g.finish(cs)
		}
		n := uint64(t.n)
		hs("seed-hs-honest-empty"+sfx, n, []uint64{0}, -1)
		hs("seed-hs-honest-full"+sfx, n, []uint64{0xf}, -1)
		hs("seed-hs-longer-bit-n-set"+sfx, n+1, []uint64{1 << n}, -1)
		hs("seed-hs-longer-no-extra-bit"+sfx, n+1, []uint64{1}, -1)
		hs("seed-hs-64-bits-all-set"+sfx, 64, []uint64{^uint64(0)}, -1)
		hs("seed-hs-dirty-bit-beyond-len"+sfx, n, []uint64{1 << 40}, -1)
		hs("seed-hs-two-words-second-set"+sfx, 65, []uint64{0, 1}, -1)
		hs("seed-hs-shorter"+sfx, n-1, []uint64{1}, -1)
		hs("seed-hs-zero-bits"+sfx, 0, nil, -1)
		hs("seed-hs-extra-word"+sfx, n, []uint64{1, 0}, -1)
		hs("seed-hs-prefix-2^50"+sfx, 1<<50, nil, -1)
		hs("seed-hs-prefix-2^40"+sfx, 1<<40, []uint64{1}, -1)
		hs("seed-hs-prefix-2^33"+sfx, 1<<33, nil, -1)
		hs("seed-hs-prefix-2^30"+sfx, 1<<30, []uint64{1}, -1)
		hs("seed-hs-prefix-2^63"+sfx, 1<<63, nil, -1)
		hs("seed-hs-prefix-max"+sfx, ^uint64(0), nil, -1)
		hs("seed-hs-prefix-one-word-short"+sfx, 65, []uint64{1}, -1)
		hs("seed-hs-bitfield-7-bytes"+sfx, n, []uint64{0}, 7)
		hs("seed-hs-bitfield-empty"+sfx, n, []uint64{0}, 0)
		{
			cs := g.newCase("seed-hs-remote-bitfield-prefix-2^50"+sfx, t.agent, t.n, t.p, t.l, append([]bool{}, agent.have...), false)
			cs.tags = []string{cs.Kind}
			b := c14makeBlob(cs.Seed, cs.Len, cs.P)
			g.setHs(cs, c14hsMessage(c14IDA.String(), b.mi.Digest().Hex(), b.mi.InfoHash().String(), c14bitfieldBytes(n, []uint64{0}),
				map[string][]byte{c14pid(0xc1).String(): c14bitfieldBytes(1<<50, nil)}, c14NS))
			g.finish(cs)
		}
		for _, bfull := range []bool{false, true} {
			cs := g.newCase(fmt.Sprintf("seed-hs-claims-peer-b-bfull-%v%s", bfull, sfx), t.agent, t.n, t.p, t.l, append([]bool{}, agent.have...), bfull)
			b := c14makeBlob(cs.Seed, cs.Len, cs.P)
			g.setHs(cs, c14hsMessage(c14IDB.String(), b.mi.Digest().Hex(), b.mi.InfoHash().String(), c14bitfieldBytes(n, []uint64{3}), nil, c14NS))
			g.finish(cs)
		}
	}
	// requests / payloads / announces just past the last piece, on blobs whose length is and is not a multiple of the
	// piece length (a reader "at the end of the file" must not be served); every case ends with A hanging up, so a
	// bit set beyond the torrent would reach removePeer's counters
	for _, sh := range []struct{ n, p, l int }{{4, 8, 8}, {1, 8, 8}, {4, 8, 5}, {1, 8, 3}, {2, 1, 1}} {
		for _, ag := range []bool{true, false} {
			t := tor{ag, sh.n, sh.p, sh.l, nil}
			for _, d := range []int{0, 1} {
				for _, ln := range []int{0, sh.p, sh.l} {
					idx := int32(sh.n + d)
					name := fmt.Sprintf("seed-past-end-n%d-p%d-l%d-agent-%v-idx+%d-len%d", sh.n, sh.p, sh.l, ag, d, ln)
					one(name+"-request", t, &p2p.Message{Type: p2p.Message_PIECE_REQUEST, PieceRequest: &p2p.PieceRequestMessage{Index: idx, Length: int32(ln)}})
					one(name+"-payload", t, &p2p.Message{Type: p2p.Message_PIECE_PAYLOAD, PiecePayload: &p2p.PiecePayloadMessage{Index: idx, Length: int32(ln)}})
				}
				one(fmt.Sprintf("seed-past-end-n%d-p%d-l%d-agent-%v-idx+%d-announce", sh.n, sh.p, sh.l, ag, d), t,
					&p2p.Message{Type: p2p.Message_ANNOUCE_PIECE, AnnouncePiece: &p2p.AnnouncePieceMessage{Index: int32(sh.n + d)}})
			}
		}
	}
	// an agent completes through the hostile peer's valid payloads: B (complete) is closed for the legitimate reason only
	for _, bfull := range []bool{false, true} {
		for _, afull := range []bool{false, true} {
			cs := mk(fmt.Sprintf("seed-complete-bfull-%v-afull-%v", bfull, afull), agent, []bool{afull, afull, afull, afull}, bfull)
			for i := 1; i < 4; i++ {
				g.addMsg(cs, &p2p.Message{Type: p2p.Message_PIECE_PAYLOAD, PiecePayload: &p2p.PiecePayloadMessage{Index: int32(i), Length: int32(g.pieceLen(cs, i))}}, true)
			}
			g.addMsg(cs, &p2p.Message{Type: p2p.Message_ANNOUCE_PIECE, AnnouncePiece: &p2p.AnnouncePieceMessage{Index: -1}}, true)
			g.finish(cs)
		}
	}
	// typical session: announce -> requested; bad payload -> invalid -> re-requested; good payload; error; request served
	{
		cs := mk("seed-session", agent, []bool{false, false, false, false}, false)
		ann := func(i int32) {
			g.addMsg(cs, &p2p.Message{Type: p2p.Message_ANNOUCE_PIECE, AnnouncePiece: &p2p.AnnouncePieceMessage{Index: i}}, true)
		}
		ann(1)
		ann(1)
		g.addMsg(cs, &p2p.Message{Type: p2p.Message_PIECE_PAYLOAD, PiecePayload: &p2p.PiecePayloadMessage{Index: 1, Length: 8}}, false)
		ann(2)
		g.addMsg(cs, &p2p.Message{Type: p2p.Message_PIECE_PAYLOAD, PiecePayload: &p2p.PiecePayloadMessage{Index: 1, Length: 8}}, true)
		g.addMsg(cs, &p2p.Message{Type: p2p.Message_ERROR, Error: &p2p.ErrorMessage{Index: 2, Error: "no"}}, true)
		ann(3)
		g.addMsg(cs, &p2p.Message{Type: p2p.Message_PIECE_REQUEST, PieceRequest: &p2p.PieceRequestMessage{Index: 1, Length: 8}}, true)
		g.addMsg(cs, &p2p.Message{Type: p2p.Message_PIECE_REQUEST, PieceRequest: &p2p.PieceRequestMessage{Index: 2, Length: 8}}, true)
		g.addMsg(cs, &p2p.Message{Type: p2p.Message_COMPLETE}, true)
		g.finish(cs)
	}
}

// ---------------------------------------------------------------- parent: orchestration

func c14classifyCrash(stderr string) (int, string) {
	switch {
	case strings.Contains(stderr, "out of memory") || strings.Contains(stderr, "cannot allocate memory"):
		return 2, "oom"
	default:
		return 1, "panic"
	}
}

// runBatch executes cases in child processes; a child that dies marks the case it was running and the rest
// continues in a fresh child.
func c14runBatch(ctx *hlib.Ctx, w int, cases []*c14case) []c14obs {
	res := make([]c14obs, 0, len(cases))
	dir := filepath.Join(ctx.Tmp, fmt.Sprintf("w%d", w))
	os.MkdirAll(dir, 0o755)
	for len(res) < len(cases) {
		rest := cases[len(res):]
		inp := filepath.Join(dir, "in.jsonl")
		outp := filepath.Join(dir, "out.jsonl")
		var buf bytes.Buffer
		for _, cs := range rest {
			b, _ := json.Marshal(cs)
			buf.Write(b)
			buf.WriteByte('\n')
		}
		if err := os.WriteFile(inp, buf.Bytes(), 0o644); err != nil {
			panic(err)
		}
		os.Remove(outp)
		tmp := filepath.Join(dir, "t")
		os.RemoveAll(tmp)
		os.MkdirAll(tmp, 0o755)
		cmd := exec.Command(os.Args[0], "-test.run", "^TestVerifC14Child$", "-test.timeout", "0")
		cmd.Env = append(os.Environ(), "VERIF_C14_CHILD=1", "VERIF_C14_IN="+inp, "VERIF_C14_OUT="+outp, "VERIF_C14_TMP="+tmp, "GOTRACEBACK=single")
		var stderr bytes.Buffer
		cmd.Stderr = &stderr
		cmd.Stdout = io.Discard
		err := cmd.Run()
		got := 0
		if f, e := os.Open(outp); e == nil {
			sc := bufio.NewScanner(f)
			sc.Buffer(make([]byte, 1<<20), 1<<26)
			for sc.Scan() {
				var o c14obs
				if json.Unmarshal(sc.Bytes(), &o) == nil {
					res = append(res, o)
					got++
				}
			}
			f.Close()
		}
		if got == len(rest) {
			break
		}
		// the child died while running rest[got]
		o := c14obs{}
		code := -1
		if ee, ok := err.(*exec.ExitError); ok {
			code = ee.ExitCode()
		}
		se := stderr.String()
		for _, mark := range []string{"panic:", "fatal error:"} {
			if k := strings.Index(se, mark); k >= 0 {
				se = se[k:]
				break
			}
		}
		if len(se) > 500 {
			se = se[:500]
		}
		switch {
		case err == nil || code == 3 || code == 4:
			o.Incon, o.Note = true, fmt.Sprintf("child exit %d without a result: %s", code, se)
		default:
			o.Crash, _ = c14classifyCrash(stderr.String())
			o.Note = se
		}
		res = append(res, o)
	}
	os.RemoveAll(dir)
	return res
}

// ---------------------------------------------------------------- parent: scheduler stream (child in zz_verif_c14s_test.go)

type c14sAttempt struct {
	Peer  int  `json:"peer"`
	Hash  int  `json:"hash"`
	Known bool `json:"known"`
	BfOK  bool `json:"bfok"`
}

type c14sCase struct {
	ID   uint64        `json:"id"`
	Atts []c14sAttempt `json:"atts"`
	kind string
}

type c14sObs struct {
	Res   []int  `json:"res"`
	Incon bool   `json:"incon"`
	Note  string `json:"note"`
}

func c14schedCases(r *hlib.Rng, n int) []*c14sCase {
	honest := func(p int) c14sAttempt { return c14sAttempt{Peer: p, Hash: 0, Known: true, BfOK: true} }
	foreign := func(p, h int) c14sAttempt { return c14sAttempt{Peer: p, Hash: h, Known: true, BfOK: true} }
	var cs []*c14sCase
	add := func(kind string, atts ...c14sAttempt) {
		cs = append(cs, &c14sCase{ID: r.U64(), Atts: atts, kind: kind})
	}
	// seeds: the refuted witness (the same handshake twice), and what must keep working around it
	add("seed-sched-foreign-hash-twice", foreign(1, 7), foreign(1, 7))
	add("seed-sched-foreign-hash-then-honest", foreign(1, 7), honest(1), foreign(1, 7), honest(2), honest(1))
	add("seed-sched-many-foreign-hashes", foreign(1, 1), foreign(1, 2), foreign(1, 3), foreign(1, 1), foreign(1, 2), foreign(1, 3), honest(1))
	add("seed-sched-honest-twice", honest(1), honest(1), honest(2))
	// (no attempts with an unknown digest: the origin's torrent archive would call the blob refresher, which this
	// harness does not provide)
	add("seed-sched-wrong-bitfield-twice", c14sAttempt{1, 0, true, false}, c14sAttempt{1, 0, true, false}, honest(1))
	add("seed-sched-foreign-hash-wrong-bitfield", c14sAttempt{1, 4, true, false}, c14sAttempt{1, 4, true, false}, honest(1))
	for i := 0; i < n; i++ {
		var atts []c14sAttempt
		for j := r.Range(2, 7); j > 0; j-- {
			a := honest(r.Range(1, 2))
			if r.Chance(45) {
				a.Hash = r.Range(1, 3)
			}
			if r.Chance(12) {
				a.BfOK = false
			}
			atts = append(atts, a)
		}
		cs = append(cs, &c14sCase{ID: r.U64(), Atts: atts, kind: "sched-incoming"})
	}
	return cs
}

func c14schedRun(ctx *hlib.Ctx, cases []*c14sCase, round int) ([]c14sObs, string) {
	dir := filepath.Join(ctx.Tmp, fmt.Sprintf("sched%d", round))
	os.MkdirAll(dir, 0o755)
	defer os.RemoveAll(dir)
	inp, outp := filepath.Join(dir, "in.jsonl"), filepath.Join(dir, "out.jsonl")
	var buf bytes.Buffer
	for _, cs := range cases {
		b, _ := json.Marshal(cs)
		buf.Write(b)
		buf.WriteByte('\n')
	}
	if err := os.WriteFile(inp, buf.Bytes(), 0o644); err != nil {
		panic(err)
	}
	cmd := exec.Command(os.Args[0], "-test.run", "^TestVerifC14SchedChild$", "-test.timeout", "0")
	cmd.Env = append(os.Environ(), "VERIF_C14_SCHED_CHILD=1", "VERIF_C14_IN="+inp, "VERIF_C14_OUT="+outp, "VERIF_C14_TMP="+dir, "GOTRACEBACK=single")
	var stderr bytes.Buffer
	cmd.Stderr = &stderr
	cmd.Stdout = io.Discard
	err := cmd.Run()
	var res []c14sObs
	if f, e := os.Open(outp); e == nil {
		sc := bufio.NewScanner(f)
		sc.Buffer(make([]byte, 1<<20), 1<<24)
		for sc.Scan() {
			var o c14sObs
			if json.Unmarshal(sc.Bytes(), &o) == nil {
				res = append(res, o)
			}
		}
		f.Close()
	}
	note := ""
	if err != nil {
		se := stderr.String()
		for _, mark := range []string{"panic:", "fatal error:"} {
			if k := strings.Index(se, mark); k >= 0 {
				se = se[k:]
				break
			}
		}
		if len(se) > 400 {
			se = se[:400]
		}
		note = fmt.Sprintf("scheduler child: %v: %s", err, se)
	}
	return res, note
}

func c14schedEmit(ctx *hlib.Ctx, r *hlib.Rng, n int, guard string) {
	cases := c14schedCases(r, n)
	r1, note1 := c14schedRun(ctx, cases, 1)
	r2, _ := c14schedRun(ctx, cases, 2)
	for i, cs := range cases {
		var atts, hist []string
		for _, a := range cs.Atts {
			atts = append(atts, fmt.Sprintf("mksa %d %d %s %s", a.Peer, a.Hash, hlib.B(a.Known), hlib.B(a.BfOK)))
			switch {
			case !a.Known:
				hist = append(hist, "incoming-unknown-digest")
			case a.Hash != 0:
				hist = append(hist, "incoming-foreign-hash")
			case !a.BfOK:
				hist = append(hist, "incoming-wrong-bitfield")
			default:
				hist = append(hist, "incoming-honest")
			}
		}
		var o c14sObs
		switch {
		case i >= len(r1):
			// the child died: the crash of the scheduler process is what this case observed
			o = c14sObs{Note: note1}
			for range cs.Atts {
				o.Res = append(o.Res, -1)
			}
		case i >= len(r2) || fmt.Sprint(r1[i].Res) != fmt.Sprint(r2[i].Res):
			o = r1[i]
			o.Incon, o.Note = true, "two executions of the case differ"
		default:
			o = r1[i]
		}
		res := make([]int64, len(o.Res))
		served := 0
		for k, v := range o.Res {
			res[k] = int64(v)
			if v == 2 {
				served++
			}
		}
		ctx.Emit(hlib.Case{Coq: fmt.Sprintf("mkscase %s %s %s", guard, hlib.List(atts), c14zs(res)), NT: served >= 1 && len(cs.Atts) >= 2,
			Kind: c14stream(cs.kind), Hist: hist, Incon: o.Incon,
			Sample: map[string]interface{}{"kind": cs.kind, "attempts": cs.Atts, "results": o.Res, "note": o.Note}})
	}
}

func c14stream(kind string) string {
	if strings.HasPrefix(kind, "seed-") {
		return "seed"
	}
	return kind
}

func c14driver(ctx *hlib.Ctx) {
	g := &c14gen{r: hlib.NewRng(ctx.Seed), guards: "gfixed"}
	if os.Getenv("VERIF_C14_GUARDS") == "prefix" {
		g.guards = "gprefix" // by hand only: compare the unpatched tree with the model of the unpatched code
	}
	g.seeds()
	n := ctx.N
	for i := 0; i < n; i++ {
		switch k := g.r.Intn(100); {
		case k < 38:
			g.msgCase("hostile-messages", g.r.Range(1, 4))
		case k < 56:
			g.validCase("well-behaved")
		case k < 64:
			g.completingCase("completing", g.r.Bool())
		case k < 80:
			g.hsCase("hostile-handshake")
		default:
			g.rawCase("raw-bytes")
		}
	}
	if ctx.Tier == "thorough" {
		for i := 0; i < n/3; i++ {
			g.rawCase("raw-bytes")
		}
	}

	sguard := "true"
	if g.guards == "gprefix" {
		sguard = "false"
	}
	nsched := 25
	if ctx.Tier == "thorough" {
		nsched = 300
	}
	c14schedEmit(ctx, g.r.Fork(), nsched, sguard)

	workers := 12
	if len(g.cases) < 64 {
		workers = 2
	}
	results := make([][]c14obs, workers)
	chunks := make([][]*c14case, workers)
	for i, cs := range g.cases {
		chunks[i%workers] = append(chunks[i%workers], cs)
	}
	var wg sync.WaitGroup
	for w := 0; w < workers; w++ {
		wg.Add(1)
		go func(w int) {
			defer wg.Done()
			results[w] = c14runBatch(ctx, w, chunks[w])
		}(w)
	}
	wg.Wait()

	for i, cs := range g.cases {
		o := results[i%workers][i/workers]
		kind := "Origin"
		if cs.Agent {
			kind = "Agent"
		}
		coq := fmt.Sprintf("mkcase %s (mkt %s %d %d %d) %s %s %s %s %s", g.guards, kind, cs.N, cs.P, cs.Len,
			c14bools(cs.Have), hlib.B(cs.BFull), cs.coqHs, hlib.List(cs.coqMsg), c14obsCoq(&o))
		nt := false
		if o.Hs == 3 {
			if len(o.ASet) > 0 || len(o.Pend) > 0 {
				nt = true
			}
			for i := range o.Have {
				if i < len(cs.Have) && o.Have[i] != cs.Have[i] {
					nt = true
				}
			}
			for _, s := range o.Steps {
				if len(s.A) > 0 || len(s.B) > 0 {
					nt = true
				}
			}
		}
		hist := append([]string{"hs"}, cs.hist...)
		tags := append([]string{}, cs.tags...)
		if o.Crash == 1 {
			tags = append(tags, "crash-panic")
		} else if o.Crash == 2 {
			tags = append(tags, "crash-oom")
		}
		ctx.Emit(hlib.Case{Coq: coq, NT: nt, Kind: c14stream(cs.Kind), Hist: hist, Tags: tags, Incon: o.Incon,
			Sample: map[string]interface{}{"kind": cs.Kind, "agent": cs.Agent, "n": cs.N, "p": cs.P, "len": cs.Len, "have": cs.Have,
				"handshake": cs.coqHs, "messages": cs.coqMsg, "obs": o}})
	}
}
