//go:build verif

package store

// C13 correspondence driver. Three streams, all on the real code:
//   raw : atomic-step histories (several simulated write-through callers, drain/TTL workers and
//         arbitrary clients) on a stand-alone cache.BlobMemoryCache;
//   wt  : CAStore.WriteBlobToCacheWithMetaInfo with a fake backend whose Stat size may differ from
//         the stream, write/metainfo failures, duplicates, and OTHER calls issued from inside the
//         write callback (deterministic interleavings of concurrent callers), drainNext with and
//         without disk failure, mock-clock expiry;
//   lru : cache.LRUCache histories (long TTL for bound/order, short TTL with measured clock
//         readings for expiry).
// Overlaid into lib/store at build time; never present in the repository.

import (
	"fmt"
	"os"
	"path/filepath"
	"sort"
	"strings"
	"sync"
	"testing"
	"time"

	"github.com/andres-erbsen/clock"
	"github.com/uber-go/tally"
	"go.uber.org/zap"

	"github.com/uber/kraken/core"
	"github.com/uber/kraken/lib/store/base"
	"github.com/uber/kraken/utils/cache"
	"github.com/uber/kraken/utils/log"
	"github.com/uber/kraken/utils/verifhlib"
)

func TestVerifC13(t *testing.T) { verifhlib.MainEnv("C13", c13driver) }

// ------------------------------------------------------------------ shared printing

type c13snap struct {
	total uint64
	ents  [][2]uint64 // (name, size), sorted by name
}

func (s c13snap) coq() string {
	xs := make([]string, len(s.ents))
	for i, e := range s.ents {
		xs[i] = fmt.Sprintf("(%d, %d)", e[0], e[1])
	}
	return fmt.Sprintf("(%d, %s)", s.total, verifhlib.List(xs))
}

type c13rec struct {
	ops, obs, hist []string
}

func (r *c13rec) add(op, kind, out string, s c13snap) {
	r.ops = append(r.ops, op)
	r.obs = append(r.obs, "("+out+", "+s.coq()+")")
	r.hist = append(r.hist, kind)
}

func c13z(i int64) string { return fmt.Sprintf("(%d)%%Z", i) }

func c13bool(b bool) string { return "OBool " + verifhlib.B(b) }

func c13names(xs []uint64) string {
	sort.Slice(xs, func(i, j int) bool { return xs[i] < xs[j] })
	s := make([]string, len(xs))
	for i, x := range xs {
		s[i] = verifhlib.U(x)
	}
	return "ONames " + verifhlib.List(s)
}

// snapshot of a BlobMemoryCache through its public API
func c13snapOf(c *cache.BlobMemoryCache, id func(string) uint64) c13snap {
	var s c13snap
	s.total = c.TotalBytes()
	for _, n := range c.ListNames() {
		if e := c.Get(n); e != nil {
			s.ents = append(s.ents, [2]uint64{id(n), e.Size()})
		}
	}
	sort.Slice(s.ents, func(i, j int) bool { return s.ents[i][0] < s.ents[j][0] })
	if len(s.ents) != c.NumEntries() {
		panic("C13 driver: NumEntries disagrees with ListNames")
	}
	return s
}

var c13epoch = time.Unix(0, 0)

func c13at(ms int64) time.Time { return c13epoch.Add(time.Duration(ms) * time.Millisecond) }

// ------------------------------------------------------------------ atomic steps on a cache

// one simulated caller of the write-through protocol (what ca_store.go does, step by step)
type c13pend struct {
	name      uint64
	sz        uint64
	needRel   bool
}

type c13cacheDrv struct {
	c     *cache.BlobMemoryCache
	rec   *c13rec
	name  func(uint64) string // canonical id -> cache key
	id    func(string) uint64
	pend  map[uint64]*c13pend
	nowMs func() int64
	adds, removes, reserves int
}

func (d *c13cacheDrv) snap() c13snap { return c13snapOf(d.c, d.id) }

func (d *c13cacheDrv) reserve(t, name, sz uint64) bool {
	ok := d.c.TryReserve(sz)
	if ok {
		d.pend[t] = &c13pend{name: name, sz: sz}
		d.reserves++
	}
	d.rec.add(fmt.Sprintf("A (PReserve %d %d %d)", t, name, sz), "PReserve", c13bool(ok), d.snap())
	return ok
}

// end simulates the single cache call that follows the write callback in the (fixed) client
func (d *c13cacheDrv) end(t uint64, werr bool, ln uint64) {
	p := d.pend[t]
	now := d.nowMs()
	var w string
	res := false
	if werr {
		w = "WErr"
		d.c.ReleaseReservation(p.sz)
		delete(d.pend, t)
	} else {
		w = fmt.Sprintf("(WData %d)", ln)
		if ln != p.sz {
			d.c.ReleaseReservation(p.sz)
			delete(d.pend, t)
		} else {
			res = d.c.Add(&cache.MemoryEntry{Name: d.name(p.name), Data: make([]byte, ln), CreatedAt: c13at(now)})
			if res {
				delete(d.pend, t)
				d.adds++
			} else {
				p.needRel = true
			}
		}
	}
	d.rec.add(fmt.Sprintf("A (PEnd %d %s %s)", t, w, c13z(now)), "PEnd", c13bool(res), d.snap())
}

func (d *c13cacheDrv) release(t uint64) {
	p := d.pend[t]
	d.c.ReleaseReservation(p.sz)
	delete(d.pend, t)
	d.rec.add(fmt.Sprintf("A (PRelease %d)", t), "PRelease", "OUnit", d.snap())
}

func (d *c13cacheDrv) rawTryReserve(sz uint64) {
	ok := d.c.TryReserve(sz)
	d.rec.add(fmt.Sprintf("A (PRaw (CTryReserve %d))", sz), "rawTryReserve", c13bool(ok), d.snap())
}
func (d *c13cacheDrv) rawRelease(sz uint64) {
	d.c.ReleaseReservation(sz)
	d.rec.add(fmt.Sprintf("A (PRaw (CRelease %d))", sz), "rawRelease", "OUnit", d.snap())
}
func (d *c13cacheDrv) rawAdd(name, ln uint64, created int64) {
	ok := d.c.Add(&cache.MemoryEntry{Name: d.name(name), Data: make([]byte, ln), CreatedAt: c13at(created)})
	d.rec.add(fmt.Sprintf("A (PRaw (CAdd %d %d %s))", name, ln, c13z(created)), "rawAdd", c13bool(ok), d.snap())
}
func (d *c13cacheDrv) rawRemove(name uint64) {
	before := d.c.NumEntries()
	d.c.Remove(d.name(name))
	if d.c.NumEntries() < before {
		d.removes++
	}
	d.rec.add(fmt.Sprintf("A (PRaw (CRemove %d))", name), "Remove", "OUnit", d.snap())
}
func (d *c13cacheDrv) rawRemoveBatch(names []uint64) {
	before := d.c.NumEntries()
	ss := make([]string, len(names))
	cs := make([]string, len(names))
	for i, n := range names {
		ss[i] = d.name(n)
		cs[i] = verifhlib.U(n)
	}
	d.c.RemoveBatch(ss)
	if d.c.NumEntries() < before {
		d.removes++
	}
	d.rec.add("A (PRaw (CRemoveBatch "+verifhlib.List(cs)+"))", "RemoveBatch", "OUnit", d.snap())
}
func (d *c13cacheDrv) rawGetExpired(now, ttl int64) {
	got := d.c.GetExpiredEntries(c13at(now), time.Duration(ttl)*time.Millisecond)
	ids := make([]uint64, len(got))
	for i, g := range got {
		ids[i] = d.id(g)
	}
	d.rec.add(fmt.Sprintf("A (PRaw (CGetExpired %s %s))", c13z(now), c13z(ttl)), "GetExpired", c13names(ids), d.snap())
}
func (d *c13cacheDrv) rawGet(name uint64) {
	ok := d.c.Get(d.name(name)) != nil
	d.rec.add(fmt.Sprintf("A (PRaw (CGet %d))", name), "Get", c13bool(ok), d.snap())
}

// ------------------------------------------------------------------ stream 1: raw histories

func c13rawName(i uint64) string { return fmt.Sprintf("n%d", i) }
func c13rawID(s string) uint64 {
	var i uint64
	fmt.Sscanf(s, "n%d", &i)
	return i
}

var c13sizesFor = func(max uint64) []uint64 {
	xs := []uint64{0, 1, 2, 3, 5}
	if max > 1 {
		xs = append(xs, max-1, max/2, max/3)
	}
	xs = append(xs, max, max+1)
	return xs
}

type c13rawStep struct {
	k       string // reserve end release tryreserve rawrelease rawadd remove batch expired get
	t, a, b uint64
	werr    bool
	z1, z2  int64
	names   []uint64
}

func c13runRaw(max uint64, steps []c13rawStep) (string, *c13cacheDrv) {
	rec := &c13rec{}
	var clk int64
	d := &c13cacheDrv{c: cache.NewBlobMemoryCache(cache.BlobMemoryCacheConfig{MaxSize: max}, tally.NoopScope),
		rec: rec, name: c13rawName, id: c13rawID, pend: map[uint64]*c13pend{}, nowMs: func() int64 { return clk }}
	for _, s := range steps {
		switch s.k {
		case "reserve":
			if _, busy := d.pend[s.t]; busy {
				continue
			}
			d.reserve(s.t, s.a, s.b)
		case "end":
			if p, ok := d.pend[s.t]; !ok || p.needRel {
				continue
			}
			clk = s.z1
			d.end(s.t, s.werr, s.a)
		case "release":
			if p, ok := d.pend[s.t]; !ok || !p.needRel {
				continue
			}
			d.release(s.t)
		case "tryreserve":
			d.rawTryReserve(s.a)
		case "rawrelease":
			d.rawRelease(s.a)
		case "rawadd":
			d.rawAdd(s.a, s.b, s.z1)
		case "remove":
			d.rawRemove(s.a)
		case "batch":
			d.rawRemoveBatch(s.names)
		case "expired":
			d.rawGetExpired(s.z1, s.z2)
		case "get":
			d.rawGet(s.a)
		}
	}
	coq := fmt.Sprintf("CaseC %d 0 0 %s %s", max, verifhlib.List(rec.ops), verifhlib.List(rec.obs))
	return coq, d
}

// generated raw histories are drawn ONLINE against the real cache's answers, so that most steps
// are enabled protocol steps
func c13genRaw(r *verifhlib.Rng, maxLen int) (string, *c13cacheDrv, bool) {
	maxes := []uint64{0, 1, 10, 10, 100, 100, 100, 1000}
	max := maxes[r.Intn(len(maxes))]
	sizes := c13sizesFor(max)
	small := []uint64{0, 1, 2, 3, max / 4, max / 3, max / 2}
	malformed := r.Chance(15)
	n := r.Range(1, maxLen)
	nNames := r.Range(1, 4)
	rec := &c13rec{}
	var clk int64
	d := &c13cacheDrv{c: cache.NewBlobMemoryCache(cache.BlobMemoryCacheConfig{MaxSize: max}, tally.NoopScope),
		rec: rec, name: c13rawName, id: c13rawID, pend: map[uint64]*c13pend{}, nowMs: func() int64 { return clk }}
	var nextT uint64 = 1
	pick := func(xs []uint64) uint64 { return xs[r.Intn(len(xs))] }
	anyPend := func(need bool) (uint64, bool) {
		var ts []uint64
		for t, p := range d.pend {
			if p.needRel == need {
				ts = append(ts, t)
			}
		}
		if len(ts) == 0 {
			return 0, false
		}
		sort.Slice(ts, func(i, j int) bool { return ts[i] < ts[j] })
		return ts[r.Intn(len(ts))], true
	}
	for i := 0; i < n; i++ {
		k := r.Intn(100)
		if malformed && r.Chance(25) {
			switch r.Intn(3) {
			case 0:
				d.rawTryReserve(pick(sizes))
			case 1:
				d.rawRelease(pick(sizes))
			default:
				d.rawAdd(uint64(r.Intn(nNames)), pick(small), clk)
			}
			continue
		}
		switch {
		case k < 30: // a caller enters
			sz := pick(small)
			if r.Chance(25) {
				sz = pick(sizes)
			}
			d.reserve(nextT, uint64(r.Intn(nNames)), sz)
			nextT++
		case k < 62: // a caller's write callback returns
			t, ok := anyPend(false)
			if !ok {
				continue
			}
			p := d.pend[t]
			clk += int64(r.Intn(5))
			switch {
			case r.Chance(15):
				d.end(t, true, 0)
			case r.Chance(12): // stream length differs from the Stat size
				ln := pick(sizes)
				if ln == p.sz {
					ln = p.sz + 1
				}
				d.end(t, false, ln)
			default:
				d.end(t, false, p.sz)
			}
		case k < 72:
			if t, ok := anyPend(true); ok {
				d.release(t)
			}
		case k < 84:
			d.rawRemove(uint64(r.Intn(nNames)))
		case k < 89:
			var names []uint64
			if r.Chance(40) { // everything, as the TTL worker does when all entries are old
				for j := 0; j <= nNames; j++ {
					names = append(names, uint64(j))
				}
			} else {
				for j := r.Intn(4); j > 0; j-- {
					names = append(names, uint64(r.Intn(nNames+1)))
				}
			}
			d.rawRemoveBatch(names)
		case k < 95:
			d.rawGetExpired(clk+int64(r.Intn(6)), int64(r.Intn(6)))
		default:
			d.rawGet(uint64(r.Intn(nNames + 1)))
		}
	}
	coq := fmt.Sprintf("CaseC %d 0 0 %s %s", max, verifhlib.List(rec.ops), verifhlib.List(rec.obs))
	return coq, d, malformed
}

// exhaustive small scope (thorough tier): every sequence over a small alphabet of caller / worker
// moves, resolved against the live protocol state; moves that are not enabled are skipped
func c13runRawDyn(max uint64, moves []int) (string, *c13cacheDrv) {
	rec := &c13rec{}
	var clk int64
	d := &c13cacheDrv{c: cache.NewBlobMemoryCache(cache.BlobMemoryCacheConfig{MaxSize: max}, tally.NoopScope),
		rec: rec, name: c13rawName, id: c13rawID, pend: map[uint64]*c13pend{}, nowMs: func() int64 { return clk }}
	var nextT uint64 = 1
	pick := func(need, newest bool) (uint64, bool) {
		var best uint64
		found := false
		for t, p := range d.pend {
			if p.needRel != need {
				continue
			}
			if !found || (newest && t > best) || (!newest && t < best) {
				best, found = t, true
			}
		}
		return best, found
	}
	for _, m := range moves {
		switch m {
		case 0:
			d.reserve(nextT, 0, 6)
			nextT++
		case 1:
			d.reserve(nextT, 0, 5)
			nextT++
		case 2:
			if t, ok := pick(false, false); ok {
				d.end(t, false, d.pend[t].sz)
			}
		case 3:
			if t, ok := pick(false, false); ok {
				d.end(t, true, 0)
			}
		case 4:
			if t, ok := pick(false, true); ok {
				d.end(t, false, d.pend[t].sz)
			}
		case 5:
			if t, ok := pick(true, false); ok {
				d.release(t)
			}
		case 6:
			d.rawRemove(0)
		case 7:
			if t, ok := pick(false, false); ok {
				d.end(t, false, d.pend[t].sz+1)
			}
		}
	}
	coq := fmt.Sprintf("CaseC %d 0 0 %s %s", max, verifhlib.List(rec.ops), verifhlib.List(rec.obs))
	return coq, d
}

// ------------------------------------------------------------------ stream 2: CAStore write-through

type c13blob struct {
	id   uint64
	data []byte
	hex  string
}

type c13act struct {
	k      string // wt drain tick expire remove batch expired get creserve cend crelease
	blob   int
	stat   uint64
	fail   int // 0 none, 1 write error at once, 2 partial write then error, 3 metainfo error (pieceLength 0)
	nested []c13act
	ok     bool
	dt     int64
	names  []int
	t      uint64
	werr   bool
	mis    bool
	z1, z2 int64
}

type c13wtDrv struct {
	s        *CAStore
	mc       *clock.Mock
	blobs    []c13blob
	byHex    map[string]uint64
	d        *c13cacheDrv
	nextT    uint64
	nextComp uint64
	incon    bool
	tags     map[string]bool
	uploadDir string
	wts, drains, mismatches int
}

func (w *c13wtDrv) nowMs() int64 { return int64(w.mc.Now().Sub(c13epoch) / time.Millisecond) }

func (w *c13wtDrv) run(acts []c13act) {
	for _, a := range acts {
		w.one(a)
	}
}

func (w *c13wtDrv) one(a c13act) {
	d := w.d
	switch a.k {
	case "wt":
		w.wts++
		b := w.blobs[a.blob]
		t := w.nextT
		w.nextT++
		if a.stat != uint64(len(b.data)) && a.fail == 0 {
			w.mismatches++
			w.tags["stat-len-mismatch"] = true
		}
		calls := 0
		pieceLength := int64(4)
		if a.fail == 3 {
			pieceLength = 0
		}
		_ = w.s.WriteBlobToCacheWithMetaInfo(b.hex, a.stat, func(fw FileReadWriter) error {
			calls++
			if calls == 1 {
				_, mem := fw.(*base.BufferReadWriter)
				if mem {
					d.pend[t] = &c13pend{name: b.id, sz: a.stat}
					d.reserves++
				}
				d.rec.add(fmt.Sprintf("A (PReserve %d %d %d)", t, b.id, a.stat), "WtBegin", c13bool(mem), d.snap())
				w.run(a.nested)
				switch a.fail {
				case 1:
					return fmt.Errorf("backend: download failed")
				case 2:
					fw.Write(b.data[:len(b.data)/2])
					return fmt.Errorf("backend: connection lost")
				}
			}
			_, err := fw.Write(b.data)
			return err
		}, pieceLength)
		if calls == 0 {
			w.incon = true
			return
		}
		delete(d.pend, t)
		res := "WErr"
		if a.fail == 0 {
			res = fmt.Sprintf("(WData %d)", len(b.data))
		}
		kind := [...]string{"WtEnd", "WtEnd-write-error", "WtEnd-abandoned", "WtEnd-metainfo-error"}[a.fail]
		d.rec.add(fmt.Sprintf("WtEnd %d %s", t, res), kind, "OUnit", d.snap())
	case "drain":
		w.drains++
		if !a.ok {
			// make the disk write of the drain fail: the upload directory is not a directory
			away := w.uploadDir + ".away"
			if os.Rename(w.uploadDir, away) != nil || os.WriteFile(w.uploadDir, nil, 0644) != nil {
				w.incon = true
				return
			}
			w.s.drainNext()
			os.Remove(w.uploadDir)
			if os.Rename(away, w.uploadDir) != nil {
				panic("C13 driver: cannot restore upload dir")
			}
		} else {
			w.s.drainNext()
		}
		d.rec.add("Drain "+verifhlib.B(a.ok), "Drain-"+verifhlib.B(a.ok), "OUnit", d.snap())
	case "tick":
		w.mc.Add(time.Duration(a.dt) * time.Millisecond)
		d.rec.add("Tick "+c13z(a.dt), "Tick", "OUnit", d.snap())
	case "expire":
		w.s.cleanupMemoryCacheExpiredEntries()
		d.rec.add("Expire", "Expire", "OUnit", d.snap())
	case "remove":
		d.rawRemove(uint64(a.blob))
	case "batch":
		ns := make([]uint64, len(a.names))
		for i, n := range a.names {
			ns[i] = uint64(n)
		}
		d.rawRemoveBatch(ns)
	case "expired":
		d.rawGetExpired(w.nowMs()+a.z1, a.z2)
	case "get":
		d.rawGet(uint64(a.blob))
	case "creserve": // a competing caller, simulated step by step on the same memCache
		t := w.nextComp
		w.nextComp++
		d.reserve(t, uint64(a.blob), a.stat)
	case "cend":
		if p, ok := d.pend[a.t]; ok && !p.needRel && a.t >= 1000 {
			ln := p.sz
			if a.mis {
				ln = p.sz + 1
			}
			d.end(a.t, a.werr, ln)
		}
	case "crelease":
		if p, ok := d.pend[a.t]; ok && p.needRel && a.t >= 1000 {
			d.release(a.t)
		}
	}
}

func c13mkBlobs(r *verifhlib.Rng, lens []int) []c13blob {
	bs := make([]c13blob, len(lens))
	for i, n := range lens {
		data := r.Bytes(n)
		if n > 0 {
			data[0] = byte(i) // distinct digests even for equal lengths
		}
		dg, err := core.NewDigester().FromBytes(data)
		if err != nil {
			panic(err)
		}
		bs[i] = c13blob{id: uint64(i), data: data, hex: dg.Hex()}
	}
	return bs
}

var c13dirSeq int

func c13runWt(ctx *verifhlib.Ctx, max uint64, ttlMs int64, maxRetry int, blobs []c13blob, acts []c13act) (coq string, w *c13wtDrv) {
	c13dirSeq++
	root := filepath.Join(ctx.Tmp, fmt.Sprintf("wt%d", c13dirSeq))
	up, ca := filepath.Join(root, "upload"), filepath.Join(root, "cache")
	if err := os.MkdirAll(up, 0775); err != nil {
		panic(err)
	}
	if err := os.MkdirAll(ca, 0775); err != nil {
		panic(err)
	}
	defer os.RemoveAll(root)
	cfg := CAStoreConfig{UploadDir: up, CacheDir: ca}
	// no background drain workers (range over a negative int is empty) and no TTL ticks: the
	// driver calls drainNext / cleanupMemoryCacheExpiredEntries itself
	cfg.MemoryCache = MemoryCacheConfig{Enabled: true, MaxSize: max, DrainWorkers: -1, DrainMaxRetries: maxRetry,
		TTL: time.Duration(ttlMs) * time.Millisecond, TTLInterval: 1000000 * time.Hour}
	mc := clock.NewMock()
	s, err := newCAStore(cfg, tally.NoopScope, mc)
	if err != nil {
		panic(err)
	}
	defer s.Close()
	byHex := map[string]uint64{}
	for _, b := range blobs {
		byHex[b.hex] = b.id
	}
	rec := &c13rec{}
	w = &c13wtDrv{s: s, mc: mc, blobs: blobs, byHex: byHex, nextT: 1, nextComp: 1000, tags: map[string]bool{}, uploadDir: up}
	w.d = &c13cacheDrv{c: s.memCache, rec: rec, pend: map[uint64]*c13pend{}, nowMs: w.nowMs,
		name: func(i uint64) string {
			if int(i) < len(blobs) {
				return blobs[i].hex
			}
			return fmt.Sprintf("absent-%d", i)
		},
		id: func(h string) uint64 {
			if i, ok := byHex[h]; ok {
				return i
			}
			return 999
		}}
	w.run(acts)
	coq = fmt.Sprintf("CaseC %d %s %d %s %s", max, c13z(ttlMs), maxRetry, verifhlib.List(rec.ops), verifhlib.List(rec.obs))
	return coq, w
}

// competitor thread ids start at 1000 so that they never collide with write-through callers
func c13genWt(r *verifhlib.Rng, maxLen int) (max uint64, ttl int64, retry int, lens []int, acts []c13act, mismatch bool) {
	maxes := []uint64{0, 10, 10, 64, 100, 100, 100}
	max = maxes[r.Intn(len(maxes))]
	ttl = int64([]int{5, 20, 20, 1000}[r.Intn(4)])
	retry = r.Range(1, 2)
	nb := r.Range(2, 4)
	lens = make([]int, nb)
	hasZero := false
	for i := range lens {
		cands := []int{0, 1, 2, 3, 5, int(max) / 4, int(max) / 3, int(max) / 2, int(max) / 2, int(max) - 1, int(max), int(max) + 1}
		l := cands[r.Intn(len(cands))]
		if l < 0 {
			l = 0
		}
		if l == 0 {
			// two empty blobs would be the same blob (same digest)
			if hasZero {
				l = 1
			}
			hasZero = true
		}
		lens[i] = l
	}
	mismatch = r.Chance(12)
	var compT uint64 = 1000
	var openComp []uint64 // competitor callers that reserved (as far as the generator knows)
	var gen func(depth, n int) []c13act
	gen = func(depth, n int) []c13act {
		var out []c13act
		for i := 0; i < n; i++ {
			k := r.Intn(100)
			switch {
			case k < 38:
				b := r.Intn(nb)
				a := c13act{k: "wt", blob: b, stat: uint64(lens[b])}
				if mismatch && r.Chance(40) {
					alt := []uint64{0, 1, uint64(lens[b]) + 1, uint64(lens[b]) * 2, max, max + 1}
					if lens[b] > 0 {
						alt = append(alt, uint64(lens[b])-1)
					}
					a.stat = alt[r.Intn(len(alt))]
				}
				if r.Chance(20) {
					a.fail = r.Range(1, 3)
				}
				if depth < 2 && r.Chance(35) {
					a.nested = gen(depth+1, r.Range(1, 3))
				}
				out = append(out, a)
			case k < 55:
				out = append(out, c13act{k: "drain", ok: r.Chance(75)})
			case k < 65:
				out = append(out, c13act{k: "tick", dt: int64([]int{0, 1, 3, 6, 11, 25}[r.Intn(6)])})
			case k < 73:
				out = append(out, c13act{k: "expire"})
			case k < 77:
				out = append(out, c13act{k: "remove", blob: r.Intn(nb + 1)})
			case k < 80:
				var ns []int
				for j := r.Intn(3); j >= 0; j-- {
					ns = append(ns, r.Intn(nb+1))
				}
				out = append(out, c13act{k: "batch", names: ns})
			case k < 83:
				out = append(out, c13act{k: "expired", z1: int64(r.Intn(8)), z2: int64(r.Intn(25))})
			case k < 86:
				out = append(out, c13act{k: "get", blob: r.Intn(nb + 1)})
			case k < 92:
				b := r.Intn(nb)
				out = append(out, c13act{k: "creserve", blob: b, stat: uint64(lens[b])})
				openComp = append(openComp, compT)
				compT++
			default:
				if len(openComp) == 0 {
					continue
				}
				j := r.Intn(len(openComp))
				t := openComp[j]
				// the driver skips the step when the caller is not in the matching phase
				if r.Chance(70) {
					out = append(out, c13act{k: "cend", t: t, werr: r.Chance(20), mis: r.Chance(10)})
				} else {
					out = append(out, c13act{k: "crelease", t: t})
					openComp = append(openComp[:j], openComp[j+1:]...)
				}
			}
		}
		return out
	}
	acts = gen(0, r.Range(1, maxLen))
	return
}

// ------------------------------------------------------------------ stream 3: LRUCache

type c13lop struct {
	k     string // add has delete size clear sleep
	key   int
	sleep time.Duration
}

// runs one LRU history; returns the Coq case, whether it is inconclusive, and counters
func c13runLru(size int, ttl time.Duration, nKeys int, ops []c13lop) (coq string, incon bool, evictions int, hist []string) {
	c := cache.NewLRUCache(cache.LRUCacheConfig{Size: size, TTL: ttl})
	effTTL := ttl
	if effTTL == 0 {
		effTTL = 5 * time.Minute
	}
	start := time.Now()
	us := func() int64 { return int64(time.Since(start) / time.Microsecond) }
	ttlUs := int64(effTTL / time.Microsecond)
	type win struct{ lo, hi int64 }
	lastAdd := map[int]win{}
	var sops, sobs []string
	prevLive := map[string]bool{}
	for _, o := range ops {
		if o.k == "sleep" {
			time.Sleep(o.sleep)
			continue
		}
		lo := us()
		var op, out string
		switch o.k {
		case "add":
			c.Add(fmt.Sprintf("k%d", o.key))
			op, out = fmt.Sprintf("LAdd %d %s", o.key, c13z(lo)), "OUnit"
		case "has":
			out = c13bool(c.Has(fmt.Sprintf("k%d", o.key)))
			op = fmt.Sprintf("LHas %d %s", o.key, c13z(lo))
		case "delete":
			c.Delete(fmt.Sprintf("k%d", o.key))
			op, out = fmt.Sprintf("LDelete %d", o.key), "OUnit"
		case "size":
			out = fmt.Sprintf("ONum %d", c.Size())
			op = "LSize"
		case "clear":
			c.Clear()
			op, out = "LClear", "OUnit"
		}
		n := c.Size()
		var live []string
		for k := 0; k < nKeys; k++ {
			if c.Has(fmt.Sprintf("k%d", k)) {
				live = append(live, fmt.Sprint(k))
			}
		}
		hi := us()
		// every clock reading of the implementation during this op lies in [lo, hi]; the model is
		// given lo. The two agree unless some key's expiry instant may fall inside the window.
		for _, w := range lastAdd {
			if w.lo+ttlUs <= hi+1 && lo <= w.hi+ttlUs+1 {
				incon = true
			}
		}
		switch o.k {
		case "add":
			lastAdd[o.key] = win{lo, hi}
		case "delete":
			delete(lastAdd, o.key)
		case "clear":
			lastAdd = map[int]win{}
		}
		nowLive := map[string]bool{}
		for _, k := range live {
			nowLive[k] = true
		}
		if o.k == "add" {
			for k := range prevLive {
				if !nowLive[k] {
					evictions++
					break
				}
			}
		}
		prevLive = nowLive
		sops = append(sops, fmt.Sprintf("(%s, %s)", op, c13z(lo)))
		sobs = append(sobs, fmt.Sprintf("(%s, (%d, %s))", out, n, verifhlib.List(live)))
		hist = append(hist, "L"+o.k)
	}
	coq = fmt.Sprintf("CaseL %s %s %s %s", c13z(int64(size)), c13z(int64(ttl/time.Microsecond)), verifhlib.List(sops), verifhlib.List(sobs))
	return
}

func c13genLru(r *verifhlib.Rng, maxLen int, timed bool) (size int, ttl time.Duration, nKeys int, ops []c13lop) {
	size = r.Range(1, 4)
	nKeys = size + r.Range(1, 3)
	ttl = time.Hour
	if timed {
		ttl = 40 * time.Millisecond
	}
	n := r.Range(1, maxLen)
	sleeps := 0
	for i := 0; i < n; i++ {
		k := r.Intn(100)
		switch {
		case k < 55:
			ops = append(ops, c13lop{k: "add", key: r.Intn(nKeys)})
		case k < 70:
			ops = append(ops, c13lop{k: "has", key: r.Intn(nKeys)})
		case k < 80:
			ops = append(ops, c13lop{k: "delete", key: r.Intn(nKeys)})
		case k < 87:
			ops = append(ops, c13lop{k: "size"})
		case k < 90:
			ops = append(ops, c13lop{k: "clear"})
		default:
			if timed && sleeps < 6 {
				sleeps++
				ops = append(ops, c13lop{k: "sleep", sleep: time.Duration([]int{15, 15, 30, 50}[r.Intn(4)]) * time.Millisecond})
			} else {
				ops = append(ops, c13lop{k: "add", key: r.Intn(nKeys)})
			}
		}
	}
	// drain suffix: push `size` fresh keys one by one; the snapshots reveal the eviction order
	for j := 0; j < size; j++ {
		ops = append(ops, c13lop{k: "add", key: nKeys + j})
	}
	nKeys += size
	return
}

// ------------------------------------------------------------------ stream 4: lock-convoy pairs

// c13convoy holds the structure's mutex, starts two calls, lets them queue on the lock, releases it
// and waits. If they have not queued yet they simply run one after the other, which is still a
// legal linearisation: the verdict never depends on the timing.
func c13convoy(lock, unlock func(), fa, fb func() string) (string, string) {
	var ra, rb string
	var wg sync.WaitGroup
	started := make(chan struct{}, 2)
	lock()
	wg.Add(2)
	go func() { defer wg.Done(); started <- struct{}{}; ra = fa() }()
	go func() { defer wg.Done(); started <- struct{}{}; rb = fb() }()
	<-started
	<-started
	time.Sleep(4 * time.Millisecond)
	unlock()
	wg.Wait()
	return ra, rb
}

type c13half struct {
	op, kind string
	call     func() string
}

// one convoy case on a stand-alone BlobMemoryCache: a sequential prefix that leaves entries and
// outstanding reservations (so that a double decrement cannot hide behind the clamp at 0), then a pair
func c13cachePair(r *verifhlib.Rng, which int) (coq string, kind string, hist []string) {
	max := uint64([]int{100, 1000, 1000}[r.Intn(3)])
	unit := max / 10
	rec := &c13rec{}
	var clk int64
	d := &c13cacheDrv{c: cache.NewBlobMemoryCache(cache.BlobMemoryCacheConfig{MaxSize: max}, tally.NoopScope),
		rec: rec, name: c13rawName, id: c13rawID, pend: map[uint64]*c13pend{}, nowMs: func() int64 { return clk }}
	var nextT uint64 = 1
	newT := func() uint64 { t := nextT; nextT++; return t }
	entry := func(name, sz uint64) { // a caller that completes: entry `name` of sz bytes
		t := newT()
		if d.reserve(t, name, sz) {
			d.end(t, false, sz)
		}
	}
	hold := func(name, sz uint64) uint64 { // a caller that stays in flight
		t := newT()
		d.reserve(t, name, sz)
		return t
	}
	remove := func(n uint64) c13half {
		return c13half{fmt.Sprintf("A (PRaw (CRemove %d))", n), "Remove", func() string { d.c.Remove(c13rawName(n)); return "OUnit" }}
	}
	batch := func(ns ...uint64) c13half {
		ss, cs := make([]string, len(ns)), make([]string, len(ns))
		for i, n := range ns {
			ss[i], cs[i] = c13rawName(n), verifhlib.U(n)
		}
		return c13half{"A (PRaw (CRemoveBatch " + verifhlib.List(cs) + "))", "RemoveBatch", func() string { d.c.RemoveBatch(ss); return "OUnit" }}
	}
	reserve := func(name, sz uint64) c13half {
		t := newT()
		return c13half{fmt.Sprintf("A (PReserve %d %d %d)", t, name, sz), "PReserve", func() string { return c13bool(d.c.TryReserve(sz)) }}
	}
	add := func(t uint64) c13half { // caller t (holding a reservation) adds its entry
		p := *d.pend[t]
		e := &cache.MemoryEntry{Name: c13rawName(p.name), Data: make([]byte, p.sz), CreatedAt: c13at(clk)}
		return c13half{fmt.Sprintf("A (PEnd %d (WData %d) %s)", t, p.sz, c13z(clk)), "PEnd", func() string { return c13bool(d.c.Add(e)) }}
	}
	giveUp := func(t uint64) c13half { // caller t's write failed: release
		p := *d.pend[t]
		return c13half{fmt.Sprintf("A (PEnd %d WErr %s)", t, c13z(clk)), "PEnd", func() string { d.c.ReleaseReservation(p.sz); return "OBool false" }}
	}
	// background: one in-flight reservation and one unrelated entry, sized so that everything fits
	hold(7, unit*uint64(r.Range(1, 3)))
	if r.Bool() {
		entry(8, unit*uint64(r.Range(0, 1))+uint64(r.Intn(3)))
	}
	sz := unit*uint64(r.Range(1, 2)) + uint64(r.Intn(3))
	var a, b c13half
	switch which {
	case 0:
		kind = "pair-remove-remove"
		entry(1, sz)
		a, b = remove(1), remove(1)
	case 1:
		kind = "pair-remove-batch"
		entry(1, sz)
		entry(2, unit)
		a, b = remove(1), batch(2, 1, 9)
	case 2:
		kind = "pair-batch-batch"
		entry(1, sz)
		entry(2, unit)
		a, b = batch(1, 2), batch(2, 1)
	case 3:
		kind = "pair-add-add"
		t1, t2 := hold(1, sz), hold(1, sz)
		if d.pend[t1] == nil || d.pend[t2] == nil {
			return "", "", nil
		}
		a, b = add(t1), add(t2)
	case 4:
		kind = "pair-add-remove"
		if r.Bool() {
			entry(1, sz)
		}
		t1 := hold(1, sz)
		if d.pend[t1] == nil {
			return "", "", nil
		}
		a, b = add(t1), remove(1)
	case 5:
		kind = "pair-reserve-reserve"
		free := max - d.c.TotalBytes()
		want := free/2 + 1 + uint64(r.Intn(2)) // two of these do not fit, one does
		a, b = reserve(1, want), reserve(2, want)
	case 6:
		kind = "pair-release-reserve"
		t1 := hold(1, sz)
		if d.pend[t1] == nil {
			return "", "", nil
		}
		free := max - d.c.TotalBytes()
		a, b = giveUp(t1), reserve(2, free+1+uint64(r.Intn(int(sz)))) // fits only after the release
	default:
		kind = "pair-remove-reserve"
		entry(1, sz)
		free := max - d.c.TotalBytes()
		a, b = remove(1), reserve(2, free+1)
	}
	pre, preobs := verifhlib.List(rec.ops), verifhlib.List(rec.obs)
	ra, rb := c13convoy(d.c.VerifLock, d.c.VerifUnlock, a.call, b.call)
	coq = fmt.Sprintf("CaseCP %d %s %s (%s) (%s) (%s) (%s) %s", max, pre, preobs, a.op, b.op, ra, rb, d.snap().coq())
	hist = append(append([]string{}, rec.hist...), "pair:"+a.kind, "pair:"+b.kind)
	return
}

func c13lruPair(r *verifhlib.Rng, which int) (coq string, kind string, hist []string) {
	size := r.Range(1, 3)
	nKeys := size + 3
	c := cache.NewLRUCache(cache.LRUCacheConfig{Size: size, TTL: time.Hour})
	start := time.Now()
	us := func() int64 { return int64(time.Since(start) / time.Microsecond) }
	key := func(k int) string { return fmt.Sprintf("k%d", k) }
	snap := func() string {
		n := c.Size()
		var live []string
		for k := 0; k < nKeys; k++ {
			if c.Has(key(k)) {
				live = append(live, fmt.Sprint(k))
			}
		}
		return fmt.Sprintf("(%d, %s)", n, verifhlib.List(live))
	}
	var sops, sobs []string
	for i, n := 0, r.Range(0, size+1); i < n; i++ { // prefix: a few adds
		k := r.Intn(nKeys - 1)
		lo := us()
		c.Add(key(k))
		sops = append(sops, fmt.Sprintf("(LAdd %d %s, %s)", k, c13z(lo), c13z(lo)))
		sobs = append(sobs, fmt.Sprintf("(OUnit, %s)", snap()))
		hist = append(hist, "Ladd")
	}
	now := us()
	add := func(k int) c13half {
		return c13half{fmt.Sprintf("LAdd %d %s", k, c13z(now)), "Ladd", func() string { c.Add(key(k)); return "OUnit" }}
	}
	del := func(k int) c13half {
		return c13half{fmt.Sprintf("LDelete %d", k), "Ldelete", func() string { c.Delete(key(k)); return "OUnit" }}
	}
	has := func(k int) c13half {
		return c13half{fmt.Sprintf("LHas %d %s", k, c13z(now)), "Lhas", func() string { return c13bool(c.Has(key(k))) }}
	}
	k1, k2 := r.Intn(nKeys-1), nKeys-1
	var a, b c13half
	switch which {
	case 0:
		kind, a, b = "lpair-add-add-same", add(k1), add(k1)
	case 1:
		kind, a, b = "lpair-add-add-new", add(k1), add(k2)
	case 2:
		kind, a, b = "lpair-add-delete", add(k1), del(k1)
	case 3:
		kind, a, b = "lpair-delete-delete", del(k1), del(k1)
	default:
		kind, a, b = "lpair-add-has", add(k2), has(k1)
	}
	ra, rb := c13convoy(c.VerifLock, c.VerifUnlock, a.call, b.call)
	at := us()
	coq = fmt.Sprintf("CaseLP %s %s %s %s (%s) (%s) %s (%s) (%s) %s", c13z(int64(size)), c13z(int64(time.Hour/time.Microsecond)),
		verifhlib.List(sops), verifhlib.List(sobs), a.op, b.op, c13z(at), ra, rb, snap())
	hist = append(hist, "pair:"+a.kind, "pair:"+b.kind)
	return
}

// ------------------------------------------------------------------ driver

func c13driver(ctx *verifhlib.Ctx) {
	log.SetGlobalLogger(zap.NewNop().Sugar())
	r := verifhlib.NewRng(ctx.Seed)
	thorough := ctx.Tier == "thorough"

	emitRaw := func(max uint64, steps []c13rawStep, kind string, tags ...string) {
		coq, d := c13runRaw(max, steps)
		ctx.Emit(verifhlib.Case{Coq: coq, NT: d.adds >= 1 && d.removes >= 1, Kind: kind, Hist: d.rec.hist, Tags: tags,
			Sample: map[string]interface{}{"max": max, "ops": d.rec.ops, "obs": d.rec.obs}})
	}
	emitWt := func(max uint64, ttl int64, retry int, blobs []c13blob, acts []c13act, kind string) {
		coq, w := c13runWt(ctx, max, ttl, retry, blobs, acts)
		var tags []string
		for t := range w.tags {
			tags = append(tags, t)
		}
		sort.Strings(tags)
		ctx.Emit(verifhlib.Case{Coq: coq, NT: w.d.adds+w.d.reserves >= 1 && w.wts >= 1, Kind: kind, Hist: w.d.rec.hist, Tags: tags, Incon: w.incon,
			Sample: map[string]interface{}{"max": max, "ttl_ms": ttl, "ops": w.d.rec.ops, "obs": w.d.rec.obs}})
	}
	emitLru := func(size int, ttl time.Duration, nKeys int, ops []c13lop, kind string) {
		coq, incon, ev, hist := c13runLru(size, ttl, nKeys, ops)
		ctx.Emit(verifhlib.Case{Coq: coq, NT: ev >= 1, Kind: kind, Hist: hist, Incon: incon, Key: c13lruKey(size, ops),
			Sample: map[string]string{"case": coq}})
	}

	// ---- seeds: every refutation witness and every boundary reasoned about
	wt := func(b int, stat uint64, fail int, nested ...c13act) c13act {
		return c13act{k: "wt", blob: b, stat: stat, fail: fail, nested: nested}
	}
	sr := verifhlib.NewRng(7)
	// C13_size_mismatch_refuted (a): Stat says 1 byte, the stream has 100: entry of 100 bytes in a 10-byte cache
	emitWt(10, 1000, 1, c13mkBlobs(sr, []int{100, 4}), []c13act{wt(0, 1, 0), {k: "drain", ok: true}}, "seed-mismatch-over-budget")
	// C13_size_mismatch_refuted (b): Stat says 10, stream has 1: 9 bytes stay accounted for ever
	emitWt(100, 1000, 1, c13mkBlobs(sr, []int{1, 4}), []c13act{wt(0, 10, 0), {k: "drain", ok: true}, wt(1, 4, 0), {k: "drain", ok: true}}, "seed-mismatch-leak")
	// exact fit, one over, zero-length blob, MaxSize 0
	emitWt(10, 1000, 1, c13mkBlobs(sr, []int{10, 11, 0}), []c13act{wt(0, 10, 0), wt(1, 11, 0), wt(2, 0, 0), {k: "drain", ok: true}, wt(1, 11, 0), {k: "drain", ok: true}, {k: "drain", ok: true}}, "seed-boundary-fit")
	emitWt(0, 1000, 1, c13mkBlobs(sr, []int{0, 1}), []c13act{wt(0, 0, 0), wt(1, 1, 0), {k: "drain", ok: true}}, "seed-max-zero")
	// sequential duplicate, duplicate from inside the write callback (concurrent callers of one blob)
	emitWt(100, 1000, 1, c13mkBlobs(sr, []int{20, 30}), []c13act{wt(0, 20, 0), wt(0, 20, 0), wt(0, 20, 0, wt(0, 20, 0)), {k: "drain", ok: true}, wt(0, 20, 0, wt(0, 20, 0, wt(1, 30, 0))), {k: "drain", ok: true}, {k: "drain", ok: true}}, "seed-duplicates")
	// failures: write error, abandoned stream, metainfo error; with another caller in between
	emitWt(100, 1000, 1, c13mkBlobs(sr, []int{20, 30}), []c13act{wt(0, 20, 1), wt(0, 20, 2), wt(0, 20, 3), wt(1, 30, 2, wt(0, 20, 0)), {k: "drain", ok: true}}, "seed-failures")
	// budget exhausted by an in-flight caller; freed when it fails
	emitWt(50, 1000, 1, c13mkBlobs(sr, []int{30, 30}), []c13act{wt(0, 30, 1, wt(1, 30, 0)), wt(1, 30, 0), {k: "drain", ok: true}}, "seed-inflight-holds-budget")
	// drain failure: retried DrainMaxRetries times, then dropped from memory
	emitWt(100, 1000, 2, c13mkBlobs(sr, []int{20, 30}), []c13act{wt(0, 20, 0), wt(1, 30, 0), {k: "drain", ok: false}, {k: "drain", ok: false}, {k: "drain", ok: false}, {k: "drain", ok: false}, {k: "drain", ok: false}, {k: "drain", ok: false}, {k: "drain", ok: true}}, "seed-drain-failure")
	// expiry: TTL 20 ms, strict comparison at the boundary
	emitWt(100, 20, 1, c13mkBlobs(sr, []int{20, 30}), []c13act{wt(0, 20, 0), {k: "tick", dt: 10}, wt(1, 30, 0), {k: "tick", dt: 10}, {k: "expire"}, {k: "tick", dt: 1}, {k: "expire"}, {k: "tick", dt: 10}, {k: "expire"}, {k: "drain", ok: true}, {k: "drain", ok: true}}, "seed-expiry")
	// refused Add interleaved with another caller before the release (atomic steps, raw cache)
	emitRaw(100, []c13rawStep{{k: "reserve", t: 1, a: 0, b: 40}, {k: "reserve", t: 2, a: 0, b: 40}, {k: "end", t: 1, a: 40}, {k: "end", t: 2, a: 40},
		{k: "reserve", t: 3, a: 1, b: 40}, {k: "release", t: 2}, {k: "reserve", t: 4, a: 1, b: 40}, {k: "end", t: 4, a: 40}, {k: "remove", a: 0}, {k: "remove", a: 1}}, "seed-raw-refused-add")
	// uint64 wrap in TryReserve (outside the no-wrap guard of the theorems)
	emitRaw(100, []c13rawStep{{k: "reserve", t: 1, a: 0, b: 10}, {k: "reserve", t: 2, a: 1, b: 18446744073709551611}}, "seed-raw-wrap")
	// underflow branches of ReleaseReservation / decrementTotalSize (outside the protocol)
	emitRaw(100, []c13rawStep{{k: "rawrelease", a: 5}, {k: "rawadd", a: 0, b: 7}, {k: "remove", a: 0}, {k: "tryreserve", a: 100}, {k: "tryreserve", a: 1}, {k: "rawrelease", a: 101}, {k: "rawrelease", a: 100}}, "seed-raw-underflow")
	// LRU: capacity boundary, refresh moves to the end, delete, clear, default size
	emitLru(2, time.Hour, 5, []c13lop{{k: "add", key: 0}, {k: "add", key: 1}, {k: "add", key: 0}, {k: "add", key: 2}, {k: "has", key: 1}, {k: "has", key: 0}, {k: "size"}, {k: "delete", key: 0}, {k: "add", key: 3}, {k: "add", key: 4}, {k: "clear"}, {k: "size"}}, "seed-lru-order")
	// Size 0 means the default (300, tied to the source by Gen/C13_consts.v), not "hold nothing"
	emitLru(0, time.Hour, 4, []c13lop{{k: "add", key: 0}, {k: "add", key: 1}, {k: "add", key: 2}, {k: "size"}, {k: "has", key: 0}}, "seed-lru-default-size")
	emitLru(2, 30*time.Millisecond, 4, []c13lop{{k: "add", key: 0}, {k: "sleep", sleep: 20 * time.Millisecond}, {k: "add", key: 1}, {k: "has", key: 0}, {k: "sleep", sleep: 20 * time.Millisecond}, {k: "has", key: 0}, {k: "has", key: 1}, {k: "size"}, {k: "add", key: 2}, {k: "size"}, {k: "sleep", sleep: 40 * time.Millisecond}, {k: "add", key: 3}, {k: "size"}}, "seed-lru-expiry")

	// ---- lock-convoy pairs (every run): the atomic-lock-region assumption, checked instead of assumed
	nPairs := 6
	if thorough {
		nPairs = 40
	}
	for round := 0; round < nPairs; round++ {
		for which := 0; which < 8; which++ {
			if coq, kind, hist := c13cachePair(r, which); coq != "" {
				ctx.Emit(verifhlib.Case{Coq: coq, NT: true, Kind: kind, Hist: hist, Tags: []string{"convoy"}, Sample: map[string]string{"case": coq}})
			}
		}
		for which := 0; which < 5; which++ {
			coq, kind, hist := c13lruPair(r, which)
			ctx.Emit(verifhlib.Case{Coq: coq, NT: true, Kind: kind, Hist: hist, Tags: []string{"convoy"}, Sample: map[string]string{"case": coq}})
		}
	}
	// ---- generated
	nRaw, nWt, nLru, nTimed := ctx.N*42/100, ctx.N*30/100, ctx.N*18/100, ctx.N*10/100
	rawLen, wtLen, lruLen := 30, 12, 30
	if thorough {
		rawLen, wtLen, lruLen = 80, 25, 60
	}
	if thorough {
		seen := map[string]bool{}
		var rec func(prefix []int, depth int)
		rec = func(prefix []int, depth int) {
			if len(prefix) > 0 {
				coq, d := c13runRawDyn(10, prefix)
				if len(d.rec.ops) > 0 && !seen[coq] {
					seen[coq] = true
					ctx.Emit(verifhlib.Case{Coq: coq, NT: d.adds >= 1 && d.removes >= 1, Kind: "raw-exhaustive", Hist: d.rec.hist})
				}
			}
			if depth == 0 {
				return
			}
			for m := 0; m < 8; m++ {
				rec(append(append([]int{}, prefix...), m), depth-1)
			}
		}
		rec(nil, 5)
	}
	for i := 0; i < nRaw; i++ {
		coq, d, malformed := c13genRaw(r, rawLen)
		kind := "raw-protocol"
		if malformed {
			kind = "raw-malformed"
		}
		ctx.Emit(verifhlib.Case{Coq: coq, NT: d.adds >= 1 && d.removes >= 1, Kind: kind, Hist: d.rec.hist,
			Sample: map[string]interface{}{"ops": d.rec.ops, "obs": d.rec.obs}})
	}
	for i := 0; i < nWt; i++ {
		max, ttl, retry, lens, acts, mm := c13genWt(r, wtLen)
		kind := "wt"
		if mm {
			kind = "wt-stat-mismatch"
		}
		emitWt(max, ttl, retry, c13mkBlobs(r, lens), acts, kind)
	}
	for i := 0; i < nLru; i++ {
		size, ttl, nk, ops := c13genLru(r, lruLen, false)
		emitLru(size, ttl, nk, ops, "lru")
	}
	// timed LRU histories sleep; run them concurrently (each on its own cache), emit in order
	type timed struct {
		size  int
		ttl   time.Duration
		nk    int
		ops   []c13lop
		coq   string
		incon bool
		ev    int
		hist  []string
	}
	ts := make([]*timed, nTimed)
	for i := range ts {
		size, ttl, nk, ops := c13genLru(r, 20, true)
		ts[i] = &timed{size: size, ttl: ttl, nk: nk, ops: ops}
	}
	var wg sync.WaitGroup
	sem := make(chan struct{}, 16)
	for _, x := range ts {
		wg.Add(1)
		go func(x *timed) {
			defer wg.Done()
			sem <- struct{}{}
			defer func() { <-sem }()
			for try := 0; try < 3; try++ {
				x.coq, x.incon, x.ev, x.hist = c13runLru(x.size, x.ttl, x.nk, x.ops)
				if !x.incon {
					break
				}
			}
		}(x)
	}
	wg.Wait()
	for _, x := range ts {
		ctx.Emit(verifhlib.Case{Coq: x.coq, NT: x.ev >= 1, Kind: "lru-timed", Hist: x.hist, Incon: x.incon, Key: c13lruKey(x.size, x.ops),
			Sample: map[string]string{"case": x.coq}})
	}
}

func c13lruKey(size int, ops []c13lop) string {
	var sb strings.Builder
	fmt.Fprintf(&sb, "lru %d:", size)
	for _, o := range ops {
		fmt.Fprintf(&sb, "%s%d/%d;", o.k, o.key, o.sleep/time.Millisecond)
	}
	return sb.String()
}
