//go:build verif

package cache

// C13 lock-convoy support: lets the in-package driver of lib/store hold the structure's own mutex
// while it starts two calls, so that both are queued on the lock when it is released.
// Overlaid at build time under the tag `verif`; never present in the repository.

func (c *BlobMemoryCache) VerifLock()   { c.mu.Lock() }
func (c *BlobMemoryCache) VerifUnlock() { c.mu.Unlock() }
func (c *LRUCache) VerifLock()          { c.mu.Lock() }
func (c *LRUCache) VerifUnlock()        { c.mu.Unlock() }
