//go:build verif

package scheduler

// In-package driver for property C17 (every Download call returns exactly once).
//
// The real scheduler is built with an injected event loop (withEventLoop) that parks every
// event in the blocked send, exactly as the real unbuffered channel does, and lets the
// driver decide which parked event the loop receives next. Torrents live in a real
// agentstorage archive on a real CADownloadStore; pieces are delivered through the real
// dispatcher (AddPeer + PiecePayload messages), so the completion notice is the one
// dispatch.Dispatcher sends from its own goroutine.

import (
	"fmt"
	"os"
	"strconv"
	"strings"
	"sync"
	"sync/atomic"
	"testing"
	"time"

	"github.com/andres-erbsen/clock"
	"github.com/uber-go/tally"
	"github.com/willf/bitset"

	"github.com/uber/kraken/core"
	"github.com/uber/kraken/lib/store"
	"github.com/uber/kraken/lib/torrent/networkevent"
	"github.com/uber/kraken/lib/torrent/scheduler/announcequeue"
	"github.com/uber/kraken/lib/torrent/scheduler/conn"
	"github.com/uber/kraken/lib/torrent/scheduler/dispatch"
	"github.com/uber/kraken/lib/torrent/storage/agentstorage"
	"github.com/uber/kraken/lib/torrent/storage/piecereader"
	"github.com/uber/kraken/tracker/announceclient"
	"github.com/uber/kraken/tracker/metainfoclient"
	"github.com/uber/kraken/utils/verifhlib"
)

func TestVerifC17(t *testing.T) { verifhlib.MainEnv("C17", c17driver) }

// ---- controlled event loop ----

type c17pend struct {
	e    event
	done chan bool
}

type c17loop struct {
	mu      sync.Mutex
	pend    []*c17pend
	stopped bool
	st      *state
	ready   chan struct{}
	stopc   chan struct{}
}

func newC17loop() *c17loop {
	return &c17loop{ready: make(chan struct{}), stopc: make(chan struct{})}
}

func (l *c17loop) send(e event) bool {
	l.mu.Lock()
	if l.stopped {
		l.mu.Unlock()
		return false
	}
	p := &c17pend{e, make(chan bool, 1)}
	l.pend = append(l.pend, p)
	l.mu.Unlock()
	return <-p.done
}

func (l *c17loop) sendTimeout(e event, timeout time.Duration) error {
	if l.send(e) {
		return nil
	}
	return ErrSchedulerStopped
}

func (l *c17loop) run(s *state) {
	l.st = s
	close(l.ready)
	<-l.stopc
}

func (l *c17loop) stop() {
	l.mu.Lock()
	if l.stopped {
		l.mu.Unlock()
		return
	}
	l.stopped = true
	ps := l.pend
	l.pend = nil
	l.mu.Unlock()
	for _, p := range ps {
		p.done <- false
	}
	close(l.stopc)
}

func (l *c17loop) snapshot() []*c17pend {
	l.mu.Lock()
	defer l.mu.Unlock()
	return append([]*c17pend{}, l.pend...)
}

// apply lets the loop receive p and apply it. Returns false if the application did not
// finish (the loop would be stuck).
func (l *c17loop) apply(p *c17pend) bool {
	l.mu.Lock()
	for i, q := range l.pend {
		if q == p {
			l.pend = append(l.pend[:i:i], l.pend[i+1:]...)
			break
		}
	}
	l.mu.Unlock()
	p.done <- true // the sender's send returns as soon as the loop has received the event
	fin := make(chan struct{})
	go func() { p.e.apply(l.st); close(fin) }()
	select {
	case <-fin:
		return true
	case <-time.After(20 * time.Second):
		return false
	}
}

// ---- fakes ----

type c17mic struct{ blobs map[core.Digest]*core.BlobFixture }

func (m *c17mic) Download(namespace string, d core.Digest) (*core.MetaInfo, error) {
	if b, ok := m.blobs[d]; ok {
		return b.MetaInfo, nil
	}
	return nil, metainfoclient.ErrNotFound
}

type c17msgs struct {
	recv chan *conn.Message
	once sync.Once
}

func (m *c17msgs) Send(msg *conn.Message) error   { return nil }
func (m *c17msgs) Receiver() <-chan *conn.Message { return m.recv }
func (m *c17msgs) Close()                         { m.once.Do(func() { close(m.recv) }) }

// ---- one case ----

type c17op struct {
	k string // Download Feed Remove Evict Advance TickSend Stop ApNew ApComplete ApRemove ApTick ApShutdown
	a int
	b int
}

type c17res struct {
	w   int
	err error
}

type c17world struct {
	s       *scheduler
	loop    *c17loop
	clk     *clock.Mock
	cads    *store.CADownloadStore
	blobs   []*core.BlobFixture
	results chan c17res
	got     map[int]string
	newEv   map[int]*c17pend               // call -> its parked newTorrentEvent
	errcs   map[int]chan error             // call -> its waiter channel (doDownload's errc)
	tid     map[int]int                    // call -> torrent object id
	ntor    int
	dispID  map[*dispatch.Dispatcher]int
	cleanup func()
	stuck   bool
	unbuf   bool // a waiter channel without room for its one result: every send to it blocks the loop
}

var c17slowWaits int32

func c17waitN(n int, cond func() bool) bool {
	for i := 0; i < n; i++ {
		if cond() {
			return true
		}
		time.Sleep(500 * time.Microsecond)
	}
	return false
}

func c17wait(cond func() bool) bool {
	for i := 0; i < 20000; i++ {
		if cond() {
			return true
		}
		time.Sleep(500 * time.Microsecond)
	}
	return false
}

func c17resName(err error) string {
	switch err {
	case nil:
		return "RNil"
	case ErrTorrentNotFound:
		return "RNotFound"
	case ErrTorrentTimeout:
		return "RTimeout"
	case ErrTorrentRemoved:
		return "RRemoved"
	case ErrSchedulerStopped:
		return "RStopped"
	}
	return "ROther"
}

// newC17world builds a world; a listen-port race with a concurrently built world is retried.
func newC17world(nblobs int, knownMask int, seederTTI, leecherTTI int) (w *c17world) {
	for attempt := 0; ; attempt++ {
		func() {
			defer func() {
				if e := recover(); e != nil {
					if attempt >= 5 {
						panic(e)
					}
					w = nil
				}
			}()
			w = newC17worldOnce(nblobs, knownMask, seederTTI, leecherTTI)
		}()
		if w != nil {
			return w
		}
		time.Sleep(20 * time.Millisecond)
	}
}

func newC17worldOnce(nblobs int, knownMask int, seederTTI, leecherTTI int) *c17world {
	w := &c17world{results: make(chan c17res, 64), got: map[int]string{}, newEv: map[int]*c17pend{},
		tid: map[int]int{}, dispID: map[*dispatch.Dispatcher]int{}, errcs: map[int]chan error{}}
	cads, c := store.CADownloadStoreFixture()
	w.cads = cads
	mic := &c17mic{blobs: map[core.Digest]*core.BlobFixture{}}
	for i := 0; i < nblobs; i++ {
		b := core.SizedBlobFixture(24, 8)
		w.blobs = append(w.blobs, b)
		if knownMask&(1<<uint(i)) != 0 {
			mic.blobs[b.Digest] = b
		}
	}
	stats := tally.NewTestScope("", nil)
	ta := agentstorage.NewTorrentArchive(stats, cads, mic)
	pctx := core.PeerContext{PeerID: core.PeerIDFixture(), Zone: "zone1", IP: "localhost", Port: findFreePort()}
	cfg := configFixture()
	cfg.DisablePreemption = true
	cfg.EmitStatsInterval = 1000000 * time.Hour
	cfg.SeederTTI = time.Duration(seederTTI) * time.Second
	cfg.LeecherTTI = time.Duration(leecherTTI) * time.Second
	w.clk = clock.NewMock()
	w.clk.Set(time.Unix(1000000, 0))
	w.loop = newC17loop()
	s, err := newScheduler(cfg, ta, stats, pctx, announceclient.Disabled(), networkevent.NewTestProducer(),
		withClock(w.clk), withEventLoop(w.loop))
	if err != nil {
		panic(err)
	}
	if err := s.start(announcequeue.New()); err != nil {
		panic(err)
	}
	<-w.loop.ready
	w.s = s
	w.cleanup = c
	return w
}

func (w *c17world) collect() {
	for {
		select {
		case r := <-w.results:
			w.got[r.w] = c17resName(r.err)
		default:
			return
		}
	}
}

func (w *c17world) inCache(h int) bool {
	_, err := w.cads.Cache().GetFileStat(w.blobs[h].Digest.Hex())
	return err == nil
}

func (w *c17world) inDownload(h int) bool {
	_, err := w.cads.Download().GetFileStat(w.blobs[h].Digest.Hex())
	return err == nil
}

func (w *c17world) ctrlOf(h int) *torrentControl {
	return w.loop.st.torrentControls[w.blobs[h].MetaInfo.InfoHash()]
}

func (w *c17world) findPend(f func(event) bool) *c17pend {
	for _, p := range w.loop.snapshot() {
		if f(p.e) {
			return p
		}
	}
	return nil
}

func (w *c17world) countPend(f func(event) bool) int {
	n := 0
	for _, p := range w.loop.snapshot() {
		if f(p.e) {
			n++
		}
	}
	return n
}

// exec runs one op; ok=false means the step could not be carried out deterministically.
func (w *c17world) exec(o c17op) bool {
	isRemove := func(e event) bool { _, ok := e.(removeTorrentEvent); return ok }
	isTick := func(e event) bool { _, ok := e.(preemptionTickEvent); return ok }
	isShut := func(e event) bool { _, ok := e.(shutdownEvent); return ok }
	switch o.k {
	case "Download":
		call, h := o.a, o.b
		before := map[*c17pend]bool{}
		for _, p := range w.loop.snapshot() {
			before[p] = true
		}
		d := w.blobs[h].Digest
		go func() { w.results <- c17res{call, w.s.Download("ns", d)} }()
		var mine *c17pend
		ok := c17wait(func() bool {
			w.collect()
			if _, done := w.got[call]; done {
				return true
			}
			for _, p := range w.loop.snapshot() {
				if _, isNew := p.e.(newTorrentEvent); isNew && !before[p] {
					mine = p
					return true
				}
			}
			return false
		})
		if !ok {
			return false
		}
		if r, done := w.got[call]; !done || r != "RNotFound" {
			w.tid[call] = w.ntor
			w.ntor++
		}
		if mine != nil {
			w.newEv[call] = mine
			w.errcs[call] = mine.e.(newTorrentEvent).errc
			if cap(w.errcs[call]) < 1 {
				// "no send can block the event loop" rests on at most one send per call AND one
				// free slot per call: without the slot the loop waits for the caller in every apply
				w.unbuf = true
			}
		}
		return true
	case "Feed":
		h := o.a
		ctrl := w.ctrlOf(h)
		if ctrl == nil || ctrl.dispatcher.Complete() || w.loop.stopped || w.inCache(h) || !w.inDownload(h) {
			return true // no-op in the model as well
		}
		blob := w.blobs[h]
		n := blob.MetaInfo.NumPieces()
		m := &c17msgs{recv: make(chan *conn.Message, n+1)}
		if err := ctrl.dispatcher.AddPeer(core.PeerIDFixture(), false, bitset.New(uint(n)).Complement(), m); err != nil {
			panic(err)
		}
		pl := int(blob.MetaInfo.PieceLength())
		for i := 0; i < n; i++ {
			end := (i + 1) * pl
			if end > len(blob.Content) {
				end = len(blob.Content)
			}
			m.recv <- conn.NewPiecePayloadMessage(i, piecereader.NewBuffer(blob.Content[i*pl:end]))
		}
		d := ctrl.dispatcher
		return c17wait(func() bool {
			return w.findPend(func(e event) bool {
				ce, ok := e.(dispatcherCompleteEvent)
				return ok && ce.dispatcher == d
			}) != nil
		})
	case "Remove":
		if w.loop.stopped {
			return true
		}
		n := w.countPend(isRemove)
		d := w.blobs[o.a].Digest
		go func() { w.s.RemoveTorrent(d) }()
		return c17wait(func() bool { return w.countPend(isRemove) > n })
	case "Evict":
		w.cads.Cache().DeleteFile(w.blobs[o.a].Digest.Hex())
		return true
	case "Advance":
		w.clk.Add(time.Duration(o.a) * time.Second)
		return true
	case "TickSend":
		if w.loop.stopped {
			return true
		}
		n := w.countPend(isTick)
		go w.s.eventLoop.send(preemptionTickEvent{})
		return c17wait(func() bool { return w.countPend(isTick) > n })
	case "Stop":
		if w.loop.stopped || w.countPend(isShut) > 0 {
			return true
		}
		go w.s.Stop()
		return c17wait(func() bool { return w.countPend(isShut) > 0 })
	case "ApNew":
		p := w.newEv[o.a]
		if p == nil {
			return true
		}
		delete(w.newEv, o.a)
		ne := p.e.(newTorrentEvent)
		if !w.loop.apply(p) {
			w.stuck = true
			return true
		}
		ctrl := w.loop.st.torrentControls[ne.torrent.InfoHash()]
		if ctrl != nil {
			if _, seen := w.dispID[ctrl.dispatcher]; !seen {
				w.dispID[ctrl.dispatcher] = w.tid[o.a]
				if ctrl.dispatcher.Complete() {
					// dispatch.New sends the completion notice from its own goroutine
					d := ctrl.dispatcher
					return c17wait(func() bool {
						return w.findPend(func(e event) bool {
							ce, ok := e.(dispatcherCompleteEvent)
							return ok && ce.dispatcher == d
						}) != nil
					})
				}
			}
		}
		return true
	case "ApComplete":
		p := w.findPend(func(e event) bool {
			ce, ok := e.(dispatcherCompleteEvent)
			if !ok {
				return false
			}
			id, known := w.dispID[ce.dispatcher]
			return known && id == o.a
		})
		if p != nil && !w.loop.apply(p) {
			w.stuck = true
		}
		return true
	case "ApRemove":
		p := w.findPend(func(e event) bool {
			re, ok := e.(removeTorrentEvent)
			return ok && re.digest == w.blobs[o.a].Digest
		})
		if p != nil && !w.loop.apply(p) {
			w.stuck = true
		}
		return true
	case "ApTick":
		if p := w.findPend(isTick); p != nil && !w.loop.apply(p) {
			w.stuck = true
		}
		return true
	case "ApShutdown":
		if p := w.findPend(isShut); p != nil && !w.loop.apply(p) {
			w.stuck = true
		}
		return true
	}
	panic("bad op " + o.k)
}

// pendingOps lists the Ap* ops enabled now (from the implementation's parked events).
func (w *c17world) pendingOps() []c17op {
	var out []c17op
	for _, p := range w.loop.snapshot() {
		switch e := p.e.(type) {
		case newTorrentEvent:
			for call, q := range w.newEv {
				if q == p {
					out = append(out, c17op{"ApNew", call, 0})
				}
			}
		case dispatcherCompleteEvent:
			if id, ok := w.dispID[e.dispatcher]; ok {
				out = append(out, c17op{"ApComplete", id, 0})
			}
		case removeTorrentEvent:
			for h, b := range w.blobs {
				if b.Digest == e.digest {
					out = append(out, c17op{"ApRemove", h, 0})
				}
			}
		case preemptionTickEvent:
			out = append(out, c17op{"ApTick", 0, 0})
		case shutdownEvent:
			out = append(out, c17op{"ApShutdown", 0, 0})
		}
	}
	return out
}

func c17coqOp(o c17op) string {
	switch o.k {
	case "Download":
		return fmt.Sprintf("Download %d %d", o.a, o.b)
	case "Feed", "Remove", "Evict", "Advance", "ApNew", "ApComplete", "ApRemove":
		return fmt.Sprintf("%s %d", o.k, o.a)
	}
	return o.k
}

type c17script func(w *c17world, r *verifhlib.Rng, step int) (c17op, bool)

// runCase executes a schedule produced step by step by `next` (which sees the live world),
// then shuts down and drains, and emits the case.
func c17runCase(ctx *verifhlib.Ctx, kind string, nblobs, knownMask, sTTI, lTTI int, next c17script, r *verifhlib.Rng, tags []string) {
	ctx.Emit(c17oneCase(kind, nblobs, knownMask, sTTI, lTTI, next, r, tags))
}

// c17oneCase runs one schedule in a world of its own and returns the case to emit.
func c17oneCase(kind string, nblobs, knownMask, sTTI, lTTI int, next c17script, r *verifhlib.Rng, tags []string) verifhlib.Case {
	w := newC17world(nblobs, knownMask, sTTI, lTTI)
	var ops []c17op
	incon := false
	do := func(o c17op) {
		if incon || w.stuck {
			return
		}
		ops = append(ops, o)
		if !w.exec(o) {
			incon = true
		}
	}
	for step := 0; ; step++ {
		o, more := next(w, r, step)
		if !more {
			break
		}
		do(o)
	}
	// shutdown; the driver drains in the order it chooses: everything parked before the
	// shutdown is still applied or released by it
	do(c17op{"Stop", 0, 0})
	for i := 0; i < 200 && !incon && !w.stuck; i++ {
		po := w.pendingOps()
		if len(po) == 0 {
			break
		}
		// apply the shutdown at a random position among what is parked
		do(po[r.Intn(len(po))])
	}
	// every goroutine that can still act has acted; calls that returned are collected
	calls := []int{}
	seenCall := map[int]bool{}
	for _, o := range ops {
		if o.k == "Download" && !seenCall[o.a] {
			seenCall[o.a] = true
			calls = append(calls, o.a)
		}
	}
	back := func() bool {
		w.collect()
		for _, c := range calls {
			if _, ok := w.got[c]; !ok {
				return false
			}
		}
		return true
	}
	// Nothing is parked any more and the loop has stopped: a call that has been sent a result
	// returns at once. A call still blocked after a generous wait never returns. (The long
	// wait is only ever spent on a tree where calls are lost.)
	allBack := c17waitN(4000, back)
	if !allBack && atomic.AddInt32(&c17slowWaits, 1) <= 6 {
		allBack = c17waitN(30000, back)
	}
	var sops, sobs, ssur, hist []string
	for _, o := range ops {
		sops = append(sops, c17coqOp(o))
		hist = append(hist, o.k)
	}
	answered := 0
	for _, c := range calls {
		if r, ok := w.got[c]; ok {
			sobs = append(sobs, fmt.Sprintf("(%d, Some %s)", c, r))
			answered++
		} else {
			sobs = append(sobs, fmt.Sprintf("(%d, None)", c))
		}
		// results sent beyond the one the call consumed are still in its one-slot channel
		extra := 0
		if ch, ok := w.errcs[c]; ok {
			if _, returned := w.got[c]; returned {
				extra = len(ch)
			}
		}
		ssur = append(ssur, fmt.Sprintf("(%d, %d)", c, extra))
	}
	known := []int{}
	for i := 0; i < nblobs; i++ {
		if knownMask&(1<<uint(i)) != 0 {
			known = append(known, i)
		}
	}
	coq := fmt.Sprintf("mkcase (mkCfg %d %d) %s %s %s %s %s", sTTI, lTTI, verifhlib.Ns(known),
		verifhlib.List(sops), verifhlib.List(sobs), verifhlib.B(w.stuck || w.unbuf), verifhlib.List(ssur))
	cs := verifhlib.Case{Coq: coq, NT: len(calls) >= 1 && strings.Contains(strings.Join(hist, " "), "ApNew"),
		Kind: kind, Hist: hist, Incon: incon, Tags: tags,
		Sample: map[string]interface{}{"ops": sops, "obs": sobs, "loop_stuck": w.stuck, "waiter_channel_unbuffered": w.unbuf, "surplus_sends": ssur}}
	if !w.loop.stopped {
		w.loop.stop()
	}
	// when a call was lost or the loop is stuck, the goroutines of this world are abandoned; the
	// process exits at the end
	w.cleanup()
	return cs
}

func c17fixed(ops []c17op) c17script {
	return func(w *c17world, r *verifhlib.Rng, step int) (c17op, bool) {
		if step >= len(ops) {
			return c17op{}, false
		}
		return ops[step], true
	}
}

func c17random(n int, nblobs int, maxDt int) c17script {
	nextCall := 0
	return func(w *c17world, r *verifhlib.Rng, step int) (c17op, bool) {
		if step >= n {
			return c17op{}, false
		}
		po := w.pendingOps()
		// never apply the shutdown in the random phase before the end phase (kept for the drain),
		// except occasionally to exercise calls after shutdown
		k := r.Intn(100)
		h := r.Intn(nblobs)
		switch {
		case k < 38 && len(po) > 0:
			o := po[r.Intn(len(po))]
			return o, true
		case k < 58:
			nextCall++
			return c17op{"Download", nextCall, h}, true
		case k < 74:
			return c17op{"Feed", h, 0}, true
		case k < 80:
			return c17op{"Remove", h, 0}, true
		case k < 84:
			return c17op{"Evict", h, 0}, true
		case k < 91:
			return c17op{"Advance", r.Intn(maxDt + 1), 0}, true
		case k < 97:
			return c17op{"TickSend", 0, 0}, true
		case k < 98:
			return c17op{"Stop", 0, 0}, true
		default:
			nextCall++
			return c17op{"Download", nextCall, h}, true
		}
	}
}

func c17driver(ctx *verifhlib.Ctx) {
	r := verifhlib.NewRng(ctx.Seed)
	D := func(w, h int) c17op { return c17op{"Download", w, h} }
	O := func(k string, a int) c17op { return c17op{k, a, 0} }
	// seeds: the schedules the proofs were built around
	// (1) completion, removal, then the completion notice (lost wake-up before the fix)
	c17runCase(ctx, "seed-complete-remove-notice", 1, 1, 10, 60,
		c17fixed([]c17op{D(1, 0), O("ApNew", 1), O("Feed", 0), O("Remove", 0), O("ApRemove", 0), O("ApComplete", 0)}), r, []string{"complete-then-remove"})
	// (2) idle-seeder timeout between completion and its notice
	c17runCase(ctx, "seed-complete-timeout-notice", 1, 1, 10, 60,
		c17fixed([]c17op{D(1, 0), O("ApNew", 1), O("Advance", 11), O("Feed", 0), O("TickSend", 0), O("ApTick", 0), O("ApComplete", 0)}), r, []string{"complete-then-timeout"})
	// (3) a second call created its torrent before completion and is applied after it
	c17runCase(ctx, "seed-second-call-straddles-completion", 1, 1, 10, 60,
		c17fixed([]c17op{D(1, 0), O("ApNew", 1), D(2, 0), O("Feed", 0), O("ApNew", 2), O("ApComplete", 0)}), r, []string{"straddle"})
	// (4) stale completion notice of a removed dispatcher reaches the re-added torrent
	c17runCase(ctx, "seed-stale-notice", 1, 1, 10, 60,
		c17fixed([]c17op{D(1, 0), O("ApNew", 1), O("Feed", 0), O("Remove", 0), O("ApRemove", 0), D(2, 0), O("ApNew", 2), O("ApComplete", 0)}), r, []string{"stale-notice"})
	// (5) stale notice + own notice + shutdown: three sends to one call before the fix
	c17runCase(ctx, "seed-stale-notice-double", 1, 1, 10, 60,
		c17fixed([]c17op{D(1, 0), O("ApNew", 1), O("Feed", 0), O("Remove", 0), O("ApRemove", 0), D(2, 0), O("ApNew", 2), O("ApComplete", 0), O("Feed", 0), O("ApComplete", 1)}), r, []string{"stale-notice"})
	// (6) typical: two calls, one blob, normal completion; unknown blob; seeding from cache
	c17runCase(ctx, "seed-typical", 2, 1, 10, 60,
		c17fixed([]c17op{D(1, 0), D(2, 0), D(3, 1), O("ApNew", 1), O("ApNew", 2), O("Feed", 0), O("ApComplete", 0), D(4, 0), O("ApNew", 4)}), r, nil)
	// (7) leecher timeout answers waiting calls
	c17runCase(ctx, "seed-leecher-timeout", 1, 1, 10, 60,
		c17fixed([]c17op{D(1, 0), O("ApNew", 1), O("Advance", 60), O("TickSend", 0), O("ApTick", 0)}), r, nil)
	// (8) eviction between completion and a new request
	c17runCase(ctx, "seed-evicted-then-requested", 1, 1, 10, 60,
		c17fixed([]c17op{D(1, 0), O("ApNew", 1), O("Feed", 0), O("ApComplete", 0), O("Evict", 0), D(2, 0), O("ApNew", 2)}), r, nil)
	// (9) a RemoveTorrent applied between a request made while the blob is cached and that
	// request's event: success is reported after the blob was deleted (the calls overlap; this
	// schedule refuted a first, too strong form of the success clause of the oracle)
	c17runCase(ctx, "seed-overlapping-removal", 1, 1, 10, 60,
		c17fixed([]c17op{D(1, 0), O("ApNew", 1), O("Feed", 0), O("ApComplete", 0), O("Remove", 0), D(2, 0), O("ApRemove", 0), O("ApNew", 2)}), r, nil)
	// random schedules: parameters and one forked generator per case are drawn here, in order; the
	// cases themselves are independent worlds and run on a few workers; emitted in order
	type job struct {
		nb, mask, sT, lT, n int
		r                   *verifhlib.Rng
	}
	jobs := make([]job, ctx.N)
	for i := range jobs {
		nb := r.Range(1, 2)
		mask := 1 + r.Intn(1<<uint(nb)-1)
		if r.Chance(90) {
			mask = 1<<uint(nb) - 1
		}
		sT := []int{1, 5, 10}[r.Intn(3)]
		lT := []int{2, 8, 60}[r.Intn(3)]
		n := r.Range(4, 28)
		if ctx.Tier == "thorough" {
			n = r.Range(4, 45)
		}
		jobs[i] = job{nb, mask, sT, lT, n, r.Fork()}
	}
	workers := 3
	if v, err := strconv.Atoi(os.Getenv("VERIF_C17_WORKERS")); err == nil && v > 0 {
		workers = v
	}
	out := make([]verifhlib.Case, len(jobs))
	var next int32 = -1
	var wg sync.WaitGroup
	for k := 0; k < workers; k++ {
		wg.Add(1)
		go func() {
			defer wg.Done()
			for {
				i := int(atomic.AddInt32(&next, 1))
				if i >= len(jobs) {
					return
				}
				j := jobs[i]
				out[i] = c17oneCase("random", j.nb, j.mask, j.sT, j.lT, c17random(j.n, j.nb, j.lT+1), j.r, nil)
			}
		}()
	}
	wg.Wait()
	for _, cs := range out {
		ctx.Emit(cs)
	}
}
