//go:build verif

package agentstorage

// In-package driver for property C03 (an agent commits a blob only after every piece is
// verified). A real agentstorage.Torrent on a real store.CADownloadStore receives WritePiece
// calls from several goroutines. In "scheduled" cases the driver parks every caller at four
// kinds of gates (before the download file is opened, inside every src.Read, before the sidecar
// byte is written, before MoveDownloadFileToCache) and releases one caller at a time, so each
// case is one real interleaving at gate granularity; after every macro step the complete
// torrent/store state is observed. In "free" cases the callers run concurrently without gates
// and only the end state is observed (run the same binary built with -race for the stress run).

import (
	"encoding/binary"
	"fmt"
	"io"
	"math/big"
	"os"
	"path/filepath"
	"runtime"
	"strings"
	"sync"
	"testing"

	"github.com/uber-go/tally"
	"go.uber.org/zap"

	"github.com/uber/kraken/core"
	"github.com/uber/kraken/lib/store"
	"github.com/uber/kraken/lib/torrent/storage"
	"github.com/uber/kraken/tracker/metainfoclient"
	"github.com/uber/kraken/utils/log"
	"github.com/uber/kraken/utils/verifhlib"
)

func TestVerifC03(t *testing.T) { verifhlib.MainEnv("C03", c03driver) }

// ---- callers ----

type c03ev struct{ gate, res int }

type c03thr struct {
	id     int
	idx    int
	decl   int
	chunks [][]byte
	kind   string
	goCh   chan struct{}
	evCh   chan c03ev
	gated  bool
	// progress, used only to classify "other" errors structurally (never by message)
	opened, moved bool
	started, done bool
	res           int
}

func (th *c03thr) park(g int) {
	if !th.gated {
		runtime.Gosched()
		return
	}
	th.evCh <- c03ev{g, 0}
	<-th.goCh
}

func (th *c03thr) payload() []byte {
	var b []byte
	for _, c := range th.chunks {
		b = append(b, c...)
	}
	return b
}

// c03reader is the storage.PieceReader handed to WritePiece: Length() answers decl, Read
// delivers one chunk per gate.
type c03reader struct {
	th  *c03thr
	i   int
	cur []byte
}

func (r *c03reader) Read(p []byte) (int, error) {
	if len(r.cur) == 0 {
		r.th.opened = true // Read is only reached once the download file is open
		r.th.park(2)
		if r.i >= len(r.th.chunks) {
			return 0, io.EOF
		}
		r.cur = r.th.chunks[r.i]
		r.i++
	}
	n := copy(p, r.cur)
	r.cur = r.cur[n:]
	return n, nil
}
func (r *c03reader) Close() error { return nil }
func (r *c03reader) Length() int  { return r.th.decl }

// c03store wraps the real CADownloadStore with gates; every method forwards to the real one.
type c03store struct {
	*store.CADownloadStore
	mu  sync.Mutex
	cur *c03thr         // scheduled mode: the only caller that is running
	who func() *c03thr // free mode: nil
}

func (g *c03store) at(gate int) {
	if th := g.cur; th != nil {
		if gate == 1 {
			th.opened = true
		}
		if gate == 4 {
			th.moved = true
		}
		th.park(gate)
	}
}
func (g *c03store) MoveDownloadFileToCache(name string) error {
	g.at(4)
	return g.CADownloadStore.MoveDownloadFileToCache(name)
}
func (g *c03store) GetDownloadFileReadWriter(name string) (store.FileReadWriter, error) {
	g.at(1)
	return g.CADownloadStore.GetDownloadFileReadWriter(name)
}
func (g *c03store) Download() *store.CADownloadStoreScope {
	g.at(3)
	return g.CADownloadStore.Download()
}

// ---- one torrent under test ----

type c03env struct {
	dir   string
	cads  *store.CADownloadStore
	gs    *c03store
	mi    *core.MetaInfo
	t     *Torrent
	blob  []byte
	pl    int
	n     int
	last  []byte // file as last reported
	first bool
	ta    *TorrentArchive // archive mode: torrents come from CreateTorrent / GetTorrent, no gates
}

var c03counter int

func c03setup(tmp string, blob []byte, pl int, archive bool) *c03env {
	c03counter++
	dir := filepath.Join(tmp, fmt.Sprintf("c%d", c03counter))
	cfg := store.CADownloadStoreConfig{
		DownloadDir:     filepath.Join(dir, "download"),
		CacheDir:        filepath.Join(dir, "cache"),
		DownloadCleanup: store.CleanupConfig{Disabled: true},
		CacheCleanup:    store.CleanupConfig{Disabled: true},
	}
	cads, err := store.NewCADownloadStore(cfg, tally.NoopScope)
	if err != nil {
		panic(err)
	}
	// the torrent's name only has to be unique: agentstorage never relates it to the content
	var seed [8]byte
	binary.BigEndian.PutUint64(seed[:], uint64(c03counter))
	d, err := core.NewDigester().FromBytes(append(append([]byte{}, blob...), seed[:]...))
	if err != nil {
		panic(err)
	}
	mi, err := core.NewMetaInfoFromBytes(d, blob, int64(pl))
	if err != nil {
		panic(err)
	}
	e := &c03env{dir: dir, cads: cads, mi: mi, blob: blob, pl: pl, n: mi.NumPieces(), first: true}
	e.gs = &c03store{CADownloadStore: cads}
	e.last = make([]byte, len(blob))
	if archive {
		// torrent_archive.go: metainfo download, CreateDownloadFile, TorrentMeta sidecar, NewTorrent
		tc := metainfoclient.NewTestClient()
		if err := tc.Upload(mi); err != nil {
			panic(err)
		}
		e.ta = NewTorrentArchive(tally.NoopScope, cads, tc)
		st, err := e.ta.CreateTorrent("ns", d)
		if err != nil {
			panic(fmt.Sprintf("CreateTorrent: %s", err))
		}
		e.t = st.(*Torrent)
		return e
	}
	if err := cads.CreateDownloadFile(d.Hex(), int64(len(blob))); err != nil {
		panic(err)
	}
	e.reopen()
	return e
}

func (e *c03env) reopen() {
	if e.ta != nil {
		st, err := e.ta.GetTorrent("ns", e.mi.Digest())
		if err != nil {
			panic(fmt.Sprintf("GetTorrent: %s", err))
		}
		e.t = st.(*Torrent)
		return
	}
	t, err := NewTorrent(e.gs, e.mi)
	if err != nil {
		panic(fmt.Sprintf("NewTorrent: %s", err))
	}
	e.t = t
}

func (e *c03env) close() {
	e.cads.Close()
	os.RemoveAll(e.dir)
}

func (e *c03env) name() string { return e.mi.Digest().Hex() }

// call runs one WritePiece and classifies the outcome without looking at error texts.
func (e *c03env) call(th *c03thr) (res int) {
	t := e.t
	defer func() {
		if r := recover(); r != nil {
			res = 7
		}
	}()
	err := t.WritePiece(&c03reader{th: th}, th.idx)
	switch {
	case err == nil:
		return 0
	case err == storage.ErrPieceComplete:
		return 3
	case err == errWritePieceConflict:
		return 4
	case !th.opened:
		return 1 // refused before the piece was taken: index / length
	case th.moved:
		return 6
	default:
		return 5
	}
}

func c03bytes(b []byte) string {
	if len(b) == 0 {
		return "[]"
	}
	return fmt.Sprintf("(ub %d 0x%s)", len(b), new(big.Int).SetBytes(b).Text(16))
}

func c03small(xs []int) string {
	b := make([]byte, len(xs))
	for i, x := range xs {
		b[i] = byte(x)
	}
	return c03bytes(b)
}

func c03b(b bool) string {
	if b {
		return "1"
	}
	return "0"
}

// observe reads the whole state through the torrent and the store (all callers parked or done).
func (e *c03env) observe(gate, res int) string {
	t := e.t
	var st, sc, bits []int
	for _, p := range t.pieces {
		st = append(st, int(p.status))
	}
	if e.ta != nil {
		// TorrentArchive.Stat: the bitfield a tracker/peer is told, read from the sidecar
		if info, err := e.ta.Stat("ns", e.mi.Digest()); err == nil {
			bf := info.Bitfield()
			for i := 0; i < int(bf.Len()); i++ {
				if bf.Test(uint(i)) {
					sc = append(sc, 1)
				} else {
					sc = append(sc, 0)
				}
			}
		}
	} else {
		var psm pieceStatusMetadata
		if err := e.cads.Any().GetMetadata(e.name(), &psm); err == nil {
			for _, p := range psm.pieces {
				sc = append(sc, int(p.status))
			}
		}
	}
	var file []byte
	if r, err := e.cads.Any().GetFileReader(e.name()); err == nil {
		file, _ = io.ReadAll(r)
		r.Close()
	}
	_, serr := e.cads.Cache().GetFileStat(e.name())
	bf := t.Bitfield()
	for i := 0; i < t.NumPieces(); i++ {
		if bf.Test(uint(i)) {
			bits = append(bits, 1)
		} else {
			bits = append(bits, 0)
		}
	}
	// pack the small fields into one hexadecimal numeral (decoded by P'/Q in Run/C03_run.v)
	clamp := func(x, hi int) int {
		if x < 0 {
			return 0
		}
		if x > hi {
			return hi
		}
		return x
	}
	maxlen := len(st)
	if len(sc) > maxlen {
		maxlen = len(sc)
	}
	if len(bits) > maxlen {
		maxlen = len(bits)
	}
	at := func(l []int, j int) int {
		if j < len(l) {
			return l[j]
		}
		return 0
	}
	const hexd = "0123456789abcdef"
	var sb strings.Builder
	sb.WriteString("0x")
	for j := maxlen - 1; j >= 0; j-- {
		sb.WriteByte(hexd[(at(st, j)&3)|(at(sc, j)&1)<<2|(at(bits, j)&1)<<3])
	}
	nc := clamp(int(t.numComplete.Load()), 255)
	by := clamp(int(t.BytesDownloaded()), 4095)
	ic, cm := 0, 0
	if serr == nil {
		ic = 1
	}
	if t.Complete() {
		cm = 1
	}
	for _, d := range []int{clamp(len(bits), 15), clamp(len(sc), 15), clamp(len(st), 15), by >> 8, (by >> 4) & 15, by & 15,
		nc >> 4, nc & 15, cm, ic, clamp(res, 15), clamp(gate, 15)} {
		sb.WriteByte(hexd[d])
	}
	if e.first || string(file) != string(e.last) {
		e.last = file
		e.first = false
		return "(Q " + c03bytes(file) + " " + sb.String() + ")"
	}
	return "(P " + sb.String() + ")"
}

func (e *c03env) fin(ths []*c03thr) string {
	t := e.t
	var ps []string
	for i := 0; i < t.NumPieces(); i++ {
		r, err := t.GetPieceReader(i)
		if err != nil {
			ps = append(ps, "None")
			continue
		}
		b, rerr := io.ReadAll(r)
		r.Close()
		if rerr != nil {
			ps = append(ps, "None")
			continue
		}
		ps = append(ps, "(Some "+c03bytes(b)+")")
	}
	cache := "None"
	if r, err := e.cads.Cache().GetFileReader(e.name()); err == nil {
		b, _ := io.ReadAll(r)
		r.Close()
		cache = "(Some " + c03bytes(b) + ")"
	}
	var rs []int
	for _, th := range ths {
		if !th.started {
			rs = append(rs, 9)
		} else {
			rs = append(rs, th.res)
		}
	}
	return fmt.Sprintf("(F %s %s %s)", verifhlib.List(ps), cache, verifhlib.Ns(rs))
}

// ---- case description ----

type c03hop struct {
	k      int // caller, or -1 = reopen
}

type c03case struct {
	pl    int
	blob  []byte
	ths   []*c03thr
	free  bool
	arch  bool // through TorrentArchive, callers strictly one after the other, reopen (GetTorrent) in between
	unit  bool // also probe the piece status machine directly
	hops  []c03hop // scheduled mode: macro steps; callers still in flight afterwards are drained in id order
	kind  string
	tags  []string
}

func (e *c03env) advance(th *c03thr) c03ev {
	if !th.started {
		th.started = true
		th.gated = true
		th.goCh = make(chan struct{})
		th.evCh = make(chan c03ev)
		go func() {
			<-th.goCh
			r := e.call(th)
			th.evCh <- c03ev{0, r}
		}()
	}
	e.gs.cur = th
	th.goCh <- struct{}{}
	ev := <-th.evCh
	e.gs.cur = nil
	if ev.gate == 0 {
		th.done = true
		th.res = ev.res
	}
	return ev
}

func c03run(ctx *verifhlib.Ctx, cs *c03case) {
	e := c03setup(ctx.Tmp, cs.blob, cs.pl, cs.arch)
	defer e.close()
	var steps, hist []string
	accepted := 0
	if cs.arch {
		for _, h := range cs.hops {
			if h.k < 0 {
				e.reopen()
				hist = append(hist, "gettorrent")
			}
		}
		// hops only say after which callers GetTorrent is called again
		re := map[int]bool{}
		for _, h := range cs.hops {
			if h.k >= 0 {
				re[h.k] = true
			}
		}
		for k, th := range cs.ths {
			th.started = true
			th.res = e.call(th)
			th.done = true
			if re[k] {
				e.reopen()
				hist = append(hist, "gettorrent")
			}
		}
		hist = append(hist, "archive")
	} else if cs.free {
		var wg sync.WaitGroup
		start := make(chan struct{})
		for _, th := range cs.ths {
			th.started = true
			wg.Add(1)
			go func(th *c03thr) {
				defer wg.Done()
				<-start
				th.res = e.call(th)
				th.done = true
			}(th)
		}
		close(start)
		wg.Wait()
		hist = append(hist, "free")
	} else {
		inflight := func() bool {
			for _, th := range cs.ths {
				if th.started && !th.done {
					return true
				}
			}
			return false
		}
		do := func(h c03hop) {
			if h.k < 0 {
				if inflight() {
					return
				}
				e.reopen()
				steps = append(steps, "(R, "+e.observe(0, 0)+")")
				hist = append(hist, "reopen")
				return
			}
			th := cs.ths[h.k]
			if th.done {
				return
			}
			ev := e.advance(th)
			steps = append(steps, fmt.Sprintf("(A %d, %s)", h.k, e.observe(ev.gate, ev.res)))
			hist = append(hist, fmt.Sprintf("gate%d", ev.gate))
		}
		for _, h := range cs.hops {
			do(h)
		}
		// drain: every started caller runs to its return
		for k, th := range cs.ths {
			for th.started && !th.done {
				do(c03hop{k})
			}
		}
	}
	for _, th := range cs.ths {
		if th.started && th.res == 0 {
			accepted++
		}
		hist = append(hist, "w-"+th.kind)
	}
	fo := e.observe(0, 0)
	fin := e.fin(cs.ths)
	var ws []string
	for _, th := range cs.ths {
		var chs []string
		for _, c := range th.chunks {
			chs = append(chs, c03bytes(c))
		}
		h := core.PieceHash()
		h.Write(th.payload())
		ws = append(ws, fmt.Sprintf("W %s %s %s %d", verifhlib.Z(int64(th.idx)), verifhlib.Z(int64(th.decl)),
			verifhlib.List(chs), h.Sum32()))
	}
	var sums []string
	for i := 0; i < e.mi.NumPieces(); i++ {
		sums = append(sums, fmt.Sprintf("%d", e.mi.GetPieceSum(i)))
	}
	mode := 0
	if cs.free {
		mode = 1
	}
	if cs.arch {
		mode = 2
	}
	unit := "[]"
	if cs.unit {
		unit = c03unit()
	}
	coq := fmt.Sprintf("mkcase %d %s %s %s %d %s %s %s %s", cs.pl, c03bytes(cs.blob), verifhlib.List(sums),
		verifhlib.List(ws), mode, verifhlib.List(steps), fo, fin, unit)
	sample := map[string]interface{}{"pl": cs.pl, "blob_len": len(cs.blob), "pieces": e.n, "mode": mode,
		"callers": strings.Join(ws, " | "), "steps": len(steps), "final": fo, "fin": fin}
	ctx.Emit(verifhlib.Case{Coq: coq, NT: accepted >= 1, Kind: cs.kind, Hist: hist, Sample: sample, Tags: cs.tags})
}

// c03unit probes the piece status machine (pieces.go:89-128) directly for each status byte:
// complete(), dirty(), tryMarkDirty() and the status left by tryMarkDirty / markEmpty / markComplete.
// Codes as Model/C03.v pc_code: 3 = complete, 4 = dirty/conflict, 10 = acquired, 11 / 12 = "no".
func c03unit() string {
	var rows []string
	for b := 0; b < 3; b++ {
		p := &piece{status: pieceStatus(b)}
		isC, isD := 11, 12
		if p.complete() {
			isC = 3
		}
		if p.dirty() {
			isD = 4
		}
		try := 10
		d, c := p.tryMarkDirty()
		if d {
			try = 4
		} else if c {
			try = 3
		}
		after := int(p.status)
		q := &piece{status: pieceStatus(b)}
		q.markEmpty()
		q2 := &piece{status: pieceStatus(b)}
		q2.markComplete()
		rows = append(rows, verifhlib.Ns([]int{isC, isD, try, after, int(q.status), int(q2.status)}))
	}
	return verifhlib.List(rows)
}

// ---- generators ----

func c03pieces(blob []byte, pl int) [][]byte {
	var ps [][]byte
	for off := 0; off < len(blob); off += pl {
		end := off + pl
		if end > len(blob) {
			end = len(blob)
		}
		ps = append(ps, blob[off:end])
	}
	return ps
}

func c03split(r *verifhlib.Rng, b []byte) [][]byte {
	if len(b) == 0 {
		if r.Chance(50) {
			return nil
		}
		return [][]byte{{}}
	}
	k := 1
	if r.Chance(50) {
		k = r.Range(1, 3)
	}
	var out [][]byte
	rest := b
	for j := 0; j < k-1 && len(rest) > 1; j++ {
		cut := r.Range(1, len(rest)-1)
		out = append(out, rest[:cut])
		rest = rest[cut:]
	}
	return append(out, rest)
}

// c03writer draws one caller of the given kind for piece i (i may be out of range for "index").
func c03writer(r *verifhlib.Rng, kind string, blob []byte, pl int, i int) *c03thr {
	ps := c03pieces(blob, pl)
	n := len(ps)
	var good []byte
	if i >= 0 && i < n {
		good = append([]byte{}, ps[i]...)
	}
	th := &c03thr{idx: i, kind: kind}
	switch kind {
	case "good":
		th.decl = len(good)
		th.chunks = c03split(r, good)
	case "corrupt": // right length, at least one byte differs
		b := append([]byte{}, good...)
		if len(b) > 0 {
			b[r.Intn(len(b))] ^= byte(1 + r.Intn(255))
		}
		th.decl = len(b)
		th.chunks = c03split(r, b)
		if len(b) == 0 {
			th.kind = "good"
		}
	case "short": // shorter payload, honestly declared
		b := good
		if len(b) > 0 {
			b = b[:r.Intn(len(b))]
		}
		th.decl = len(b)
		th.chunks = c03split(r, b)
		if len(good) == 0 {
			th.kind = "good"
		}
	case "long": // longer payload, honestly declared
		b := append(append([]byte{}, good...), r.Bytes(r.Range(1, 3))...)
		th.decl = len(b)
		th.chunks = c03split(r, b)
	case "shortread": // Length() is the piece length but the stream ends early
		b := good
		if len(b) > 0 {
			b = b[:r.Intn(len(b))]
		}
		th.decl = len(good)
		th.chunks = c03split(r, b)
		if len(good) == 0 {
			th.kind = "good"
		}
	case "otherpiece": // the bytes of another piece of the same blob
		j := r.Intn(n)
		b := append([]byte{}, ps[j]...)
		th.decl = len(b)
		th.chunks = c03split(r, b)
	case "index": // invalid index with a plausible payload
		b := r.Bytes(pl)
		th.decl = len(b)
		if r.Chance(30) {
			th.decl = 0
			b = nil
		}
		th.chunks = c03split(r, b)
	case "lying": // Length() understates the stream (outside the PieceReader contract)
		b := append(append([]byte{}, good...), r.Bytes(r.Range(1, pl+1))...)
		th.decl = len(good)
		th.chunks = c03split(r, b)
	}
	return th
}

func c03blob(r *verifhlib.Rng, pl, n int) []byte {
	if n == 0 {
		return nil
	}
	last := r.Range(1, pl)
	if r.Chance(40) {
		last = pl
	}
	return r.Bytes((n-1)*pl + last)
}

func c03random(r *verifhlib.Rng, tier string) *c03case {
	pl := r.Range(1, 8)
	n := r.Range(1, 6)
	if r.Chance(4) {
		n = 0
	}
	blob := c03blob(r, pl, n)
	cs := &c03case{pl: pl, blob: blob}
	nw := r.Range(1, 8)
	if n == 0 {
		nw = r.Range(0, 3)
	}
	mode := r.Intn(100)
	lying := false
	// mostly valid: ~65% good payloads; a completing history writes every piece at least once
	completing := r.Chance(55)
	var ths []*c03thr
	if completing {
		for i := 0; i < n; i++ {
			ths = append(ths, c03writer(r, "good", blob, pl, i))
		}
		// shuffle
		for i := len(ths) - 1; i > 0; i-- {
			j := r.Intn(i + 1)
			ths[i], ths[j] = ths[j], ths[i]
		}
	}
	for len(ths) < nw || (completing && len(ths) < n+r.Intn(4)) {
		kinds := []string{"good", "good", "good", "good", "corrupt", "corrupt", "short", "long", "shortread", "otherpiece", "index"}
		k := kinds[r.Intn(len(kinds))]
		i := 0
		if n > 0 {
			i = r.Intn(n)
		}
		if n == 0 {
			k = "index"
		}
		if k == "index" {
			i = []int{-1, -2, n, n + 1, n + 2, -1 << 31}[r.Intn(6)]
		}
		if k != "index" && (mode < 80 || mode >= 90) && r.Chance(2) {
			k = "lying"
			lying = true
		}
		th := c03writer(r, k, blob, pl, i)
		// insert at a random position
		pos := r.Intn(len(ths) + 1)
		ths = append(ths, nil)
		copy(ths[pos+1:], ths[pos:])
		ths[pos] = th
	}
	for k, th := range ths {
		th.id = k
	}
	cs.ths = ths
	switch {
	case mode < 25: // sequential history: every call returns before the next starts
		cs.kind = "sequential"
		for k := range ths {
			for j := 0; j < 8; j++ {
				cs.hops = append(cs.hops, c03hop{k})
			}
			if r.Chance(6) {
				cs.hops = append(cs.hops, c03hop{-1})
			}
		}
	case mode < 80: // interleaved at gate granularity
		cs.kind = "interleaved"
		steps := r.Range(len(ths), 6*len(ths)+4)
		for j := 0; j < steps && len(ths) > 0; j++ {
			if r.Chance(3) {
				cs.hops = append(cs.hops, c03hop{-1})
				continue
			}
			// bias towards a small window of callers so that they really overlap
			cs.hops = append(cs.hops, c03hop{r.Intn(len(ths))})
		}
	case mode < 90:
		cs.kind = "free"
		cs.free = true
	default: // through TorrentArchive.CreateTorrent / GetTorrent / Stat, one call after the other
		cs.kind = "archive"
		cs.arch = true
		for k := range ths {
			if r.Chance(15) {
				cs.hops = append(cs.hops, c03hop{k})
			}
		}
	}
	if lying {
		cs.kind += "-lying"
		cs.tags = append(cs.tags, "lying-reader")
	}
	return cs
}

func c03w(idx, decl int, kind string, chunks ...[]byte) *c03thr {
	return &c03thr{idx: idx, decl: decl, chunks: chunks, kind: kind}
}

func c03hops(ks ...int) []c03hop {
	var hs []c03hop
	for _, k := range ks {
		hs = append(hs, c03hop{k})
	}
	return hs
}

func c03seeds() []*c03case {
	b := func(s string) []byte { return []byte(s) }
	blob := b("abcdefgh")
	var out []*c03case
	// 1. typical: three pieces, good writers in reverse order, sequential
	out = append(out, &c03case{pl: 3, blob: blob, kind: "seed-typical",
		ths:  []*c03thr{c03w(2, 2, "good", b("gh")), c03w(1, 3, "good", b("de"), b("f")), c03w(0, 3, "good", b("abc"))},
		hops: c03hops(0, 0, 0, 0, 0, 0, 1, 1, 1, 1, 1, 1, 1, 2, 2, 2, 2, 2, 2, 2)})
	// 2. conflict: second writer of the same piece arrives while the first is inside Read
	out = append(out, &c03case{pl: 4, blob: blob, kind: "seed-conflict",
		ths:  []*c03thr{c03w(0, 4, "good", b("ab"), b("cd")), c03w(0, 4, "good", b("abcd")), c03w(1, 4, "good", b("efgh"))},
		hops: c03hops(0, 0, 1, 0, 1, 0, 0, 0, 2, 2, 2, 2, 2, 2)})
	// 3. corrupt then good on the same piece; duplicate after completion
	out = append(out, &c03case{pl: 4, blob: blob, kind: "seed-corrupt-retry",
		ths: []*c03thr{c03w(0, 4, "corrupt", b("abXd")), c03w(0, 4, "good", b("abcd")), c03w(0, 4, "good", b("abcd")),
			c03w(1, 4, "good", b("efgh")), c03w(1, 4, "corrupt", b("efgX"))},
		hops: c03hops(0, 0, 0, 0, 1, 1, 1, 1, 1, 2, 3, 3, 3, 3, 3, 3, 3, 4)})
	// 4. both last pieces finish together: both callers reach the move gate, both move
	out = append(out, &c03case{pl: 4, blob: blob, kind: "seed-double-move",
		ths:  []*c03thr{c03w(0, 4, "good", b("abcd")), c03w(1, 4, "good", b("efgh"))},
		hops: c03hops(0, 0, 0, 0, 1, 1, 1, 1, 0, 1, 1, 0, 0)})
	// 5. wrong lengths and wrong indices never change anything
	out = append(out, &c03case{pl: 3, blob: blob, kind: "seed-rejects",
		ths: []*c03thr{c03w(0, 2, "short", b("ab")), c03w(0, 4, "long", b("abcd")), c03w(2, 3, "long", b("ghi")),
			c03w(3, 3, "index", b("abc")), c03w(4, 0, "index"), c03w(-1, 3, "index", b("abc")), c03w(-2, 0, "index"),
			c03w(2, 2, "shortread", b("g")), c03w(2, 2, "good", b("gh"))},
		hops: c03hops(0, 1, 2, 3, 4, 5, 6, 7, 7, 7, 7, 8, 8, 8, 8, 8, 8)})
	// 6. empty blob: zero pieces, committed by NewTorrent
	out = append(out, &c03case{pl: 4, blob: nil, kind: "seed-empty-blob",
		ths: []*c03thr{c03w(0, 0, "index"), c03w(-1, 0, "index")}, hops: c03hops(0, 1)})
	// 7. one-byte blob, piece length 1; reopen in the middle of a two-piece download
	out = append(out, &c03case{pl: 1, blob: b("z"), kind: "seed-one-byte",
		ths: []*c03thr{c03w(0, 1, "good", b("z")), c03w(0, 1, "good", b("z"))}, hops: c03hops(0, 0, 0, 0, 0, 0, 1)})
	out = append(out, &c03case{pl: 4, blob: blob, kind: "seed-reopen",
		ths:  []*c03thr{c03w(1, 4, "good", b("efgh")), c03w(1, 4, "good", b("efgh")), c03w(0, 4, "good", b("abcd"))},
		hops: append(append(c03hops(0, 0, 0, 0, 0, 0), c03hop{-1}), c03hops(1, 2, 2, 2, 2, 2, 2, 2)...)})
	// 8. a caller parked before the sidecar write while others finish; failed write frees the piece
	out = append(out, &c03case{pl: 4, blob: blob, kind: "seed-parked-sidecar",
		ths: []*c03thr{c03w(0, 4, "good", b("abcd")), c03w(1, 4, "corrupt", b("efgX")), c03w(1, 4, "good", b("efgh")),
			c03w(0, 4, "good", b("abcd"))},
		hops: c03hops(0, 0, 0, 0, 1, 1, 2, 1, 1, 2, 2, 2, 2, 3, 2, 2, 0, 0, 0)})
	// 9. the refutation witness of the reader contract: Length() says 4, the stream has 6 bytes;
	//    the overflow destroys the verified neighbour and the wrong file is committed
	out = append(out, &c03case{pl: 4, blob: blob, kind: "seed-lying-reader", tags: []string{"lying-reader"},
		ths:  []*c03thr{c03w(1, 4, "good", b("efgh")), c03w(0, 4, "lying", b("abcdXY")), c03w(0, 4, "good", b("abcd"))},
		hops: c03hops(0, 0, 0, 0, 0, 0, 1, 1, 1, 1, 1, 1, 2, 2, 2, 2, 2, 2, 2, 2)})
	return out
}

func c03clone(cs *c03case) *c03case {
	c := *cs
	c.ths = nil
	for _, th := range cs.ths {
		c.ths = append(c.ths, &c03thr{idx: th.idx, decl: th.decl, chunks: th.chunks, kind: th.kind})
	}
	return &c
}

// c03stress: many goroutines on few pieces, free-running (VERIF_TIER=race with a -race build:
// supporting evidence for the atomicity assumption; the end state is checked by the oracle).
func c03stress(r *verifhlib.Rng) *c03case {
	pl := r.Range(1, 8)
	n := r.Range(1, 4)
	blob := c03blob(r, pl, n)
	cs := &c03case{pl: pl, blob: blob, kind: "stress", free: true}
	nw := r.Range(8, 16)
	for k := 0; k < nw; k++ {
		kinds := []string{"good", "good", "good", "corrupt", "short", "long", "shortread", "otherpiece", "index"}
		kd := kinds[r.Intn(len(kinds))]
		i := r.Intn(n)
		if kd == "index" {
			i = []int{n, n + 1}[r.Intn(2)]
		}
		th := c03writer(r, kd, blob, pl, i)
		th.id = k
		cs.ths = append(cs.ths, th)
	}
	// make sure every piece has at least one good writer in most runs
	if r.Chance(80) {
		for i := 0; i < n; i++ {
			th := c03writer(r, "good", blob, pl, i)
			th.id = len(cs.ths)
			cs.ths = append(cs.ths, th)
		}
	}
	return cs
}

func c03driver(ctx *verifhlib.Ctx) {
	log.SetGlobalLogger(zap.NewNop().Sugar())
	r := verifhlib.NewRng(ctx.Seed)
	if ctx.Tier == "race" {
		for i := 0; i < ctx.N; i++ {
			c03run(ctx, c03stress(r.Fork()))
		}
		return
	}
	for i, cs := range c03seeds() {
		// the same callers free-running, and one after the other through the TorrentArchive
		f := c03clone(cs)
		f.free, f.hops, f.kind = true, nil, cs.kind+"-free"
		a := c03clone(cs)
		a.arch, a.hops, a.kind = true, []c03hop{{0}, {1}}, cs.kind+"-archive"
		cs.unit = i == 0
		c03run(ctx, cs)
		c03run(ctx, f)
		c03run(ctx, a)
	}
	if ctx.Tier == "thorough" {
		// exhaustive small scope: two pieces, every pair/triple of callers from a small alphabet,
		// every interleaving prefix pattern of a fixed length over them
		blob := []byte("pqrs")
		alpha := func() []*c03thr {
			return []*c03thr{c03w(0, 2, "good", []byte("pq")), c03w(1, 2, "good", []byte("r"), []byte("s")),
				c03w(0, 2, "corrupt", []byte("pX")), c03w(1, 2, "good", []byte("rs")), c03w(0, 2, "good", []byte("p"), []byte("q"))}
		}
		for a := 0; a < 5; a++ {
			for bb := 0; bb < 5; bb++ {
				for c := 0; c < 5; c++ {
					for pat := 0; pat < 27; pat++ {
						al1, al2, al3 := alpha(), alpha(), alpha()
						ths := []*c03thr{al1[a], al2[bb], al3[c]}
						var hops []c03hop
						for rep := 0; rep < 4; rep++ {
							q := pat
							for j := 0; j < 3; j++ {
								hops = append(hops, c03hop{q % 3})
								q /= 3
							}
						}
						c03run(ctx, &c03case{pl: 2, blob: blob, kind: "exhaustive", ths: ths, hops: hops})
					}
				}
			}
		}
	}
	for i := 0; i < ctx.N; i++ {
		c03run(ctx, c03random(r.Fork(), ctx.Tier))
	}
}
