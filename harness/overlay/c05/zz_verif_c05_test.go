//go:build verif

package blobserver

// C05 crash-consistency driver (origin / proxy blob cache).  One case = one history of upload /
// commit / write-back / metainfo / refresh operations on the REAL origin (blobserver.Server over a real
// store.CAStore), executed in a child process under strace (hlib/fstrace), plus, for EVERY prefix of
// the history's mutating file-system calls, the observables of the REAL recovery run on a fresh
// directory into which exactly that prefix was replayed ("the disk after a crash at that point"):
// a new CAStore on that directory, ListCacheFiles, GetCacheFileReader, GetCacheFileMetadata(TorrentMeta),
// the origin's getMetaInfo and, where metainfo is not served, the on-demand regeneration paths.
// The Coq side (K.Run.C05_run) compares (1) the normalised call trace with the model program's trace and
// (2) every prefix's observables with the model's `recover`; C05_check is the property on the observations.
// Overlaid into origin/blobserver at build time; never present in the repository.

import (
	"bytes"
	"context"
	"crypto/sha256"
	"encoding/hex"
	"encoding/json"
	"fmt"
	"hash/crc32"
	"io"
	"os"
	"os/exec"
	"path/filepath"
	"sort"
	"strconv"
	"strings"
	"sync"
	"testing"
	"time"

	"github.com/andres-erbsen/clock"
	"github.com/uber-go/tally"

	"github.com/uber/kraken/core"
	"github.com/uber/kraken/lib/backend"
	"github.com/uber/kraken/lib/backend/backenderrors"
	"github.com/uber/kraken/lib/blobrefresh"
	"github.com/uber/kraken/lib/hashring"
	"github.com/uber/kraken/lib/healthcheck"
	"github.com/uber/kraken/lib/hostlist"
	"github.com/uber/kraken/lib/metainfogen"
	"github.com/uber/kraken/lib/persistedretry"
	"github.com/uber/kraken/lib/store"
	"github.com/uber/kraken/lib/store/metadata"
	"github.com/uber/kraken/utils/handler"
	"github.com/uber/kraken/utils/verifhlib"
	"github.com/uber/kraken/utils/verifhlib/fstrace"
)

func TestVerifC05(t *testing.T) { verifhlib.MainEnv("C05", c05driver) }

// The traced child: runs one history on an origin whose store lives under $VERIF_C05_BASE/store.
func TestVerifC05Child(t *testing.T) {
	if os.Getenv("VERIF_C05_CHILD") == "" {
		return
	}
	c05child()
}

// ---------------------------------------------------------------- blobs

// c05NBlobs digests are known to a case; content i hashes to name i.  Uploads may also carry content
// that hashes to none of them (a client sending the wrong bytes).
const (
	c05NBlobs = 3
	c05PL     = 4 // configured piece length
	c05NS     = "c05ns"
	c05Host   = "c05-origin:80"
)

func c05content(i int) []byte {
	switch i {
	case 0:
		return []byte("kraken-c05")
	case 1:
		return []byte{} // the empty blob
	case 2:
		return []byte("0123456789abcdefX") // 17 bytes: 5 pieces of length 4
	}
	return []byte(fmt.Sprintf("wrong-%d", i))
}

func c05hex(b []byte) string { h := sha256.Sum256(b); return hex.EncodeToString(h[:]) }

func c05digest(i int) core.Digest {
	d, err := core.NewSHA256DigestFromHex(c05hex(c05content(i)))
	if err != nil {
		panic(err)
	}
	return d
}

// ---------------------------------------------------------------- environment fakes

// fake storage backend: a map name -> bytes
type c05backend struct {
	mu    sync.Mutex
	blobs map[string][]byte
}

func (b *c05backend) Stat(ns, name string) (*core.BlobInfo, error) {
	b.mu.Lock()
	defer b.mu.Unlock()
	c, ok := b.blobs[name]
	if !ok {
		return nil, backenderrors.ErrBlobNotFound
	}
	return core.NewBlobInfo(int64(len(c))), nil
}
func (b *c05backend) Upload(ns, name string, src io.Reader) error {
	c, err := io.ReadAll(src)
	if err != nil {
		return err
	}
	b.mu.Lock()
	defer b.mu.Unlock()
	b.blobs[name] = c
	return nil
}
func (b *c05backend) Download(ns, name string, dst io.Writer) error {
	b.mu.Lock()
	c, ok := b.blobs[name]
	b.mu.Unlock()
	if !ok {
		return backenderrors.ErrBlobNotFound
	}
	_, err := dst.Write(c)
	return err
}
func (b *c05backend) List(prefix string, opts ...backend.ListOption) (*backend.ListResult, error) {
	return &backend.ListResult{}, nil
}
func (b *c05backend) Close() error { return nil }

// fake write-back manager: adding a task is an atomic external step (SQLite is not modelled)
type c05wb struct {
	mu    sync.Mutex
	tasks []persistedretry.Task
}

func (m *c05wb) Add(t persistedretry.Task) error {
	m.mu.Lock()
	defer m.mu.Unlock()
	m.tasks = append(m.tasks, t)
	return nil
}
func (m *c05wb) SyncExec(persistedretry.Task) error { return nil }
func (m *c05wb) Close()                            {}
func (m *c05wb) Find(interface{}) ([]persistedretry.Task, error) {
	return nil, nil
}

type c05env struct {
	s   *Server
	cas *store.CAStore
	be  *c05backend
}

// c05open is "start the origin on these directories": the real NewCAStore (which wipes the upload
// directory) and a real blobserver.Server on top of it.
func c05open(dir string, backendHas []int) (*c05env, error) {
	cas, err := store.NewCAStore(store.CAStoreConfig{
		UploadDir:     filepath.Join(dir, "upload"),
		CacheDir:      filepath.Join(dir, "cache"),
		UploadCleanup: store.CleanupConfig{Disabled: true},
		CacheCleanup:  store.CleanupConfig{Disabled: true},
	}, tally.NoopScope)
	if err != nil {
		return nil, err
	}
	be := &c05backend{blobs: map[string][]byte{}}
	for _, i := range backendHas {
		be.blobs[c05hex(c05content(i))] = c05content(i)
	}
	bm := backend.ManagerFixture()
	if err := bm.Register(".*", be, false); err != nil {
		return nil, err
	}
	mg := metainfogen.Fixture(cas, c05PL)
	br := blobrefresh.New(blobrefresh.Config{}, tally.NoopScope, cas, bm, mg)
	ring := hashring.New(hashring.Config{MaxReplica: 1}, hostlist.Fixture(c05Host), healthcheck.IdentityFilter{}, tally.NoopScope)
	clk := clock.NewMock()
	clk.Set(time.Now())
	s, err := New(Config{}, tally.NoopScope, clk, c05Host, ring, cas, newTestClientProvider(), nil, core.PeerContextFixture(),
		bm, br, mg, &c05wb{})
	if err != nil {
		return nil, err
	}
	return &c05env{s: s, cas: cas, be: be}, nil
}

func (e *c05env) close() { e.cas.Close() }

// ---------------------------------------------------------------- histories

const (
	c05Start     = iota // uploader.start(d): new upload file (slot U)
	c05Patch            // uploader.patch(d, uid, data, off, off+len)
	c05Commit           // uploader.commit(d, uid): MoveUploadFileToCache
	c05WriteBack        // Server.writeBack: persist flag, task, metainfo
	c05Generate         // metainfogen.Generate(d)  (commitTransferHandler)
	c05Overwrite        // Server.overwriteMetaInfo(d, pl)
	c05Refresh          // blobrefresh download = CAStore.WriteBlobToCacheWithMetaInfo(d, backend content)
	c05GetMeta          // Server.getMetaInfo (read path; touches last-access metadata)
)

var c05names = []string{"Start", "Patch", "Commit", "WriteBack", "Generate", "Overwrite", "Refresh", "GetMeta"}

type c05op struct {
	K    int    `json:"k"`
	U    int    `json:"u,omitempty"`    // upload slot
	D    int    `json:"d,omitempty"`    // digest index (name)
	C    int    `json:"c,omitempty"`    // content index (Refresh: what the backend delivers)
	Off  int64  `json:"off,omitempty"`  // Patch
	Data []byte `json:"data,omitempty"` // Patch
	PL   int64  `json:"pl,omitempty"`   // Overwrite
}

type c05hist struct {
	Ops []c05op `json:"ops"`
}

type c05childOut struct {
	Outs []int    `json:"outs"` // 0 ok, 1 not found, 2 conflict/exists, 3 accepted, 4 other error
	Uids []string `json:"uids"` // upload slot -> uid chosen by uploader.start
}

func c05errKind(err error) int {
	if err == nil {
		return 0
	}
	if he, ok := err.(*handler.Error); ok {
		switch he.GetStatus() {
		case 404:
			return 1
		case 409:
			return 2
		case 202:
			return 3
		}
		return 4
	}
	if os.IsNotExist(err) {
		return 1
	}
	if os.IsExist(err) {
		return 2
	}
	return 4
}

func c05child() {
	var h c05hist
	b, err := os.ReadFile(os.Getenv("VERIF_C05_HIST"))
	if err != nil {
		panic(err)
	}
	if err := json.Unmarshal(b, &h); err != nil {
		panic(err)
	}
	base := os.Getenv("VERIF_C05_BASE")
	e, err := c05open(filepath.Join(base, "store"), nil)
	if err != nil {
		panic(err)
	}
	mark := func(i int) {
		// operation boundary marker (a traced call outside the store directory)
		if err := os.Mkdir(filepath.Join(base, "marks", strconv.Itoa(i)), 0o755); err != nil {
			panic(err)
		}
	}
	mark(0) // end of "open"
	var out c05childOut
	uids := map[int]string{}
	for i, o := range h.Ops {
		var err error
		switch o.K {
		case c05Start:
			var uid string
			uid, err = e.s.uploader.start(c05digest(o.D))
			if err == nil {
				uids[o.U] = uid
				for len(out.Uids) <= o.U {
					out.Uids = append(out.Uids, "")
				}
				out.Uids[o.U] = uid
			}
		case c05Patch:
			uid, ok := uids[o.U]
			if !ok {
				uid = "nonexistent-upload"
			}
			err = e.s.uploader.patch(c05digest(o.D), uid, bytes.NewReader(o.Data), o.Off, o.Off+int64(len(o.Data)))
		case c05Commit:
			uid, ok := uids[o.U]
			if !ok {
				uid = "nonexistent-upload"
			}
			err = e.s.uploader.commit(c05digest(o.D), uid)
		case c05WriteBack:
			err = e.s.writeBack(context.Background(), c05NS, c05digest(o.D), 0)
		case c05Generate:
			err = e.s.metaInfoGenerator.Generate(c05digest(o.D))
		case c05Overwrite:
			err = e.s.overwriteMetaInfo(c05digest(o.D), o.PL)
		case c05Refresh:
			// lib/blobrefresh/refresher.go:150-155 (Refresher.download), run synchronously
			d := c05digest(o.D)
			c := c05content(o.C)
			pl := e.s.metaInfoGenerator.GetPieceLength(int64(len(c)))
			err = e.cas.WriteBlobToCacheWithMetaInfo(d.Hex(), uint64(len(c)), func(w store.FileReadWriter) error {
				_, err := w.Write(c)
				return err
			}, pl)
		case c05GetMeta:
			_, err = e.s.getMetaInfo(c05NS, c05digest(o.D))
		default:
			panic("bad op")
		}
		out.Outs = append(out.Outs, c05errKind(err))
		mark(i + 1)
	}
	ob, _ := json.Marshal(out)
	if err := os.WriteFile(os.Getenv("VERIF_C05_OUT"), ob, 0o644); err != nil {
		panic(err)
	}
}

// ---------------------------------------------------------------- trace normalisation

type c05ncall struct {
	coq   string
	kind  string
	area  string
	fname string
}

type c05names2 struct {
	root string
	up   map[string]int // upload entry name -> canonical id: slot number, temporaries numbered after the slots
	next int
	ca   map[string]int // cache name -> digest index
}

func c05fname(s string) (string, bool) {
	switch s {
	case "data":
		return "FData", true
	case "_last_access_time":
		return "FLat", true
	case "_persist":
		return "FPersist", true
	case "_torrentmeta":
		return "FMeta", true
	}
	return "", false
}

type c05loc struct {
	kind  string // "uroot" "croot" "shard" "udir" "cdir" "ufile" "cfile"
	comps []int
	key   int
	fname string
	ok    bool
}

func (n *c05names2) upID(name string) int {
	if id, ok := n.up[name]; ok {
		return id
	}
	id := n.next
	n.up[name] = id
	n.next++
	return id
}

func (n *c05names2) locate(p string) c05loc {
	rel := fstrace.Rel(n.root, p)
	if rel == "" || rel == "." {
		return c05loc{}
	}
	parts := strings.Split(rel, "/")
	switch parts[0] {
	case "upload":
		switch len(parts) {
		case 1:
			return c05loc{kind: "uroot", ok: true}
		case 2:
			return c05loc{kind: "udir", key: n.upID(parts[1]), ok: true}
		case 3:
			fn, ok := c05fname(parts[2])
			if !ok {
				return c05loc{}
			}
			return c05loc{kind: "ufile", key: n.upID(parts[1]), fname: fn, ok: true}
		}
	case "cache":
		if len(parts) == 1 {
			return c05loc{kind: "croot", ok: true}
		}
		var comps []int
		for i := 1; i < len(parts) && i <= 2; i++ {
			v, err := strconv.ParseUint(parts[i], 16, 8)
			if err != nil || len(parts[i]) != 2 {
				return c05loc{}
			}
			comps = append(comps, int(v))
		}
		if len(parts) <= 3 {
			return c05loc{kind: "shard", comps: comps, ok: true}
		}
		id, ok := n.ca[parts[3]]
		if !ok {
			return c05loc{}
		}
		if len(parts) == 4 {
			return c05loc{kind: "cdir", key: id, ok: true}
		}
		if len(parts) == 5 {
			fn, ok := c05fname(parts[4])
			if !ok {
				return c05loc{}
			}
			return c05loc{kind: "cfile", key: id, fname: fn, ok: true}
		}
	}
	return c05loc{}
}

func c05area(l c05loc) string {
	if strings.HasPrefix(l.kind, "u") {
		return "AUp"
	}
	return "ACa"
}

// payloads of the time-dependent last-access sidecar are normalised to one byte (1)
func c05data(l c05loc, d []byte) string {
	if l.fname == "FLat" {
		if len(d) == 0 {
			return "[]"
		}
		return "[1]"
	}
	return verifhlib.Bytes(d)
}

func c05normalise(calls []fstrace.Call, n *c05names2) []c05ncall {
	var out []c05ncall
	fdOff := map[int]int64{}
	bad := func(c fstrace.Call) c05ncall {
		return c05ncall{coq: fmt.Sprintf("CBad %d", c.Seq), kind: "Bad"}
	}
	for _, c := range calls {
		switch c.Name {
		case "open", "openat", "creat":
			fdOff[c.Fd] = 0
		case "lseek":
			if c.Whence == 0 {
				fdOff[c.Fd] = c.Off
			} else {
				fdOff[c.Fd] = -1 << 40
			}
		case "read":
			fdOff[c.Fd] += c.Ret
		}
		if !c.Mutating {
			continue
		}
		var r c05ncall
		switch c.Name {
		case "mkdir", "mkdirat":
			l := n.locate(c.Path)
			switch {
			case !l.ok:
				r = bad(c)
			case l.kind == "uroot" || l.kind == "croot":
				r = c05ncall{coq: "CMkRoot " + c05area(l), kind: "MkRoot"}
			case l.kind == "shard":
				r = c05ncall{coq: "CMkShard " + verifhlib.Ns(l.comps), kind: "MkShard"}
			case l.kind == "udir" || l.kind == "cdir":
				r = c05ncall{coq: fmt.Sprintf("CMkDir %s %d", c05area(l), l.key), kind: "MkDir"}
			default:
				r = bad(c)
			}
		case "open", "openat", "creat":
			l := n.locate(c.Path)
			if !l.ok || (l.kind != "ufile" && l.kind != "cfile") || !strings.Contains(c.Flags, "O_TRUNC") || strings.Contains(c.Flags, "O_EXCL") {
				r = bad(c)
				break
			}
			r = c05ncall{coq: fmt.Sprintf("CCreate %s %d %s", c05area(l), l.key, l.fname), kind: "Create"}
		case "write", "pwrite64":
			l := n.locate(c.FdPath)
			off := c.Off
			if c.Name == "write" {
				off = fdOff[c.Fd]
				fdOff[c.Fd] += c.Ret
			}
			if !l.ok || (l.kind != "ufile" && l.kind != "cfile") || off < 0 {
				r = bad(c)
				break
			}
			r = c05ncall{coq: fmt.Sprintf("CWrite %s %d %s %d %s", c05area(l), l.key, l.fname, off, c05data(l, c.Data)), kind: "Write"}
		case "ftruncate":
			l := n.locate(c.FdPath)
			if !l.ok || (l.kind != "ufile" && l.kind != "cfile") {
				r = bad(c)
				break
			}
			n := c.Off
			if l.fname == "FLat" && n > 0 {
				n = 1
			}
			r = c05ncall{coq: fmt.Sprintf("CTrunc %s %d %s %d", c05area(l), l.key, l.fname, n), kind: "Trunc", fname: l.fname}
		case "rename", "renameat", "renameat2":
			a, b := n.locate(c.Path), n.locate(c.Path2)
			if !a.ok || !b.ok || a.kind != "ufile" || b.kind != "cfile" || a.fname != "FData" || b.fname != "FData" {
				r = bad(c)
				break
			}
			r = c05ncall{coq: fmt.Sprintf("CRename %d %d", a.key, b.key), kind: "Rename"}
		case "unlink", "unlinkat", "rmdir":
			l := n.locate(c.Path)
			isDir := c.Name == "rmdir" || strings.Contains(c.Flags, "AT_REMOVEDIR")
			switch {
			case !l.ok:
				r = bad(c)
			case isDir && (l.kind == "udir" || l.kind == "cdir"):
				r = c05ncall{coq: fmt.Sprintf("CRmDir %s %d", c05area(l), l.key), kind: "RmDir"}
			case !isDir && (l.kind == "ufile" || l.kind == "cfile"):
				r = c05ncall{coq: fmt.Sprintf("CUnlink %s %d %s", c05area(l), l.key, l.fname), kind: "Unlink", area: c05area(l), fname: l.fname}
			default:
				r = bad(c)
			}
		default:
			r = bad(c)
		}
		out = append(out, r)
	}
	return out
}

// ---------------------------------------------------------------- observables of a recovered origin

// metainfo classes
const (
	c05MAbsent = iota
	c05MValid
	c05MWrong  // decodes, but is not the metainfo of this blob
	c05MBroken // the read fails with something else than "not found"
)

var c05mnames = []string{"MAbsent", "MValid", "MWrong", "MBroken"}

// c05validFor checks metainfo against the blob independently of core.NewMetaInfo
func c05validFor(mi *core.MetaInfo, name string, blob []byte) bool {
	if mi == nil || mi.Digest().Hex() != name || mi.Length() != int64(len(blob)) || mi.PieceLength() <= 0 {
		return false
	}
	pl := int(mi.PieceLength())
	np := (len(blob) + pl - 1) / pl
	if mi.NumPieces() != np {
		return false
	}
	for i := 0; i < np; i++ {
		end := (i + 1) * pl
		if end > len(blob) {
			end = len(blob)
		}
		if mi.GetPieceSum(i) != crc32.ChecksumIEEE(blob[i*pl:end]) {
			return false
		}
	}
	return true
}

func c05classRaw(raw []byte, err error, name string, blob []byte) int {
	if err != nil {
		if he, ok := err.(*handler.Error); ok && (he.GetStatus() == 202 || he.GetStatus() == 404) {
			return c05MAbsent
		}
		if os.IsNotExist(err) {
			return c05MAbsent
		}
		return c05MBroken
	}
	mi, derr := core.DeserializeMetaInfo(raw)
	if derr != nil {
		return c05MBroken
	}
	if c05validFor(mi, name, blob) {
		return c05MValid
	}
	return c05MWrong
}

type c05kobs struct {
	listed  bool
	data    []byte
	hasData bool
	md      int // GetCacheFileMetadata(TorrentMeta)
	gm      int // first getMetaInfo after the restart
	fin     int // getMetaInfo after the refresh it triggered completed (the backend holds the blob)
	rt      int // getMetaInfo after the client retried its upload (start -> 409 -> writeBack); empty backend
}

func c05poll(e *c05env, i int, first int) int {
	// absent metainfo makes the origin refresh the blob from the backend in the background; poll as a
	// tracker would (a broken sidecar is never repaired by polling on the unfixed code)
	d, blob := c05digest(i), c05content(i)
	cl := first
	for try := 0; try < 400 && cl != c05MValid; try++ {
		time.Sleep(2 * time.Millisecond)
		raw, gerr := e.s.getMetaInfo(c05NS, d)
		cl = c05classRaw(raw, gerr, d.Hex(), blob)
		if cl == c05MBroken && try >= 5 {
			break
		}
	}
	return cl
}

// c05observe runs the REAL recovery on dir (and on dir2, a second copy of the same crash state, for
// the upload-retry path with an empty backend) and projects what the property speaks about.
func c05observe(dir string, dir2 func() (string, error)) (coq string, nlisted int, stuck bool, err error) {
	all := make([]int, c05NBlobs)
	for i := range all {
		all[i] = i
	}
	e, oerr := c05open(dir, all) // the backend holds every blob
	if oerr != nil {
		return "mkrobs false false [] []", 0, false, nil
	}
	defer e.close()
	upEmpty := false
	if ents, rerr := os.ReadDir(filepath.Join(dir, "upload")); rerr == nil && len(ents) == 0 {
		upEmpty = true
	}
	names, lerr := e.cas.ListCacheFiles()
	if lerr != nil {
		return "mkrobs false false [] []", 0, false, nil
	}
	var listed []int
	unknown := false
	idx := map[string]int{}
	for i := 0; i < c05NBlobs; i++ {
		idx[c05digest(i).Hex()] = i
	}
	for _, n := range names {
		if i, ok := idx[n]; ok {
			listed = append(listed, i)
		} else {
			unknown = true
		}
	}
	sort.Ints(listed)
	nlisted = len(listed)
	if unknown {
		listed = append(listed, 999) // a listed name that is not a digest of the case: visible as a mismatch
	}
	ks := make([]c05kobs, c05NBlobs)
	needRetry := false
	for i := 0; i < c05NBlobs; i++ {
		d := c05digest(i)
		k := &ks[i]
		for _, l := range listed {
			if l == i {
				k.listed = true
			}
		}
		if f, rerr := e.cas.GetCacheFileReader(d.Hex()); rerr == nil {
			b, rerr := io.ReadAll(f)
			f.Close()
			if rerr == nil {
				k.hasData, k.data = true, b
			}
		}
		var tm metadata.TorrentMeta
		merr := e.cas.GetCacheFileMetadata(d.Hex(), &tm)
		switch {
		case merr == nil && k.hasData && c05validFor(tm.MetaInfo, d.Hex(), k.data):
			k.md = c05MValid
		case merr == nil:
			k.md = c05MWrong
		case os.IsNotExist(merr):
			k.md = c05MAbsent
		default:
			k.md = c05MBroken
		}
		k.gm, k.fin, k.rt = k.md, k.md, k.md
		if k.listed || k.hasData {
			// request level: what a tracker / agent sees
			raw, gerr := e.s.getMetaInfo(c05NS, d)
			k.gm = c05classRaw(raw, gerr, d.Hex(), c05content(i))
			k.fin = k.gm
			if k.gm != c05MValid {
				k.fin = c05poll(e, i, k.gm)
			}
			if k.fin != c05MValid {
				stuck = true
			}
		}
		if k.hasData && k.md != c05MValid {
			needRetry = true
		}
	}
	if needRetry {
		d2, derr := dir2()
		if derr != nil {
			return "", 0, false, derr
		}
		e2, oerr := c05open(d2, nil) // the blob has not been written back: the backend is empty
		if oerr != nil {
			return "mkrobs false false [] []", 0, false, nil
		}
		for i := 0; i < c05NBlobs; i++ {
			k := &ks[i]
			if !k.hasData || k.md == c05MValid {
				continue
			}
			d := c05digest(i)
			// server.go:721-756 startClusterUploadHandler on a retried upload
			_, serr := e2.s.uploader.start(d)
			if serr != nil {
				_ = e2.s.handleUploadConflict(context.Background(), serr, c05NS, d)
			}
			raw, gerr := e2.s.getMetaInfo(c05NS, d)
			k.rt = c05classRaw(raw, gerr, d.Hex(), c05content(i))
			if k.rt != c05MValid {
				stuck = true
			}
		}
		e2.close()
	}
	var kq []string
	for _, k := range ks {
		if !k.listed && !k.hasData && k.md == c05MAbsent {
			kq = append(kq, "ka")
			continue
		}
		dq := "None"
		if k.hasData {
			dq = verifhlib.Some(verifhlib.Bytes(k.data))
		}
		kq = append(kq, fmt.Sprintf("mkkobs %s %s %s %s %s %s", verifhlib.B(k.listed), dq, c05mnames[k.md], c05mnames[k.gm], c05mnames[k.fin], c05mnames[k.rt]))
	}
	return fmt.Sprintf("mkrobs true %s %s %s", verifhlib.B(upEmpty), verifhlib.Ns(listed), verifhlib.List(kq)), nlisted, stuck, nil
}

// ---------------------------------------------------------------- one case

type c05result struct {
	cs  verifhlib.Case
	err error
}

// lfOracle: os.RemoveAll unlinks in readdir order; true = the last-access sidecar went before the data file
func c05lf(nc []c05ncall) bool {
	for _, c := range nc {
		if c.kind == "Unlink" && c.area == "AUp" {
			return c.fname == "FLat"
		}
	}
	return true
}

func c05opCoq(o c05op, nc []c05ncall) string {
	switch o.K {
	case c05Start:
		return fmt.Sprintf("Start %d %d", o.U, o.D)
	case c05Patch:
		return fmt.Sprintf("Patch %d %d %d %s", o.U, o.D, o.Off, verifhlib.Bytes(o.Data))
	case c05Commit:
		return fmt.Sprintf("Commit %d %d %s", o.U, o.D, verifhlib.B(c05lf(nc)))
	case c05WriteBack:
		return fmt.Sprintf("WriteBack %d", o.D)
	case c05Generate:
		return fmt.Sprintf("Generate %d", o.D)
	case c05Overwrite:
		return fmt.Sprintf("Overwrite %d %d", o.D, o.PL)
	case c05Refresh:
		return fmt.Sprintf("Refresh %d %s %s", o.D, verifhlib.Bytes(c05content(o.C)), verifhlib.B(c05lf(nc)))
	case c05GetMeta:
		return fmt.Sprintf("GetMeta %d", o.D)
	}
	panic("bad op")
}

const c05emptyCase = "mkcase (mkcfg [] [] [] 4 0 0) [] [] [] []"

func c05run(tmp string, idx int, h c05hist, kind string, dump bool) c05result {
	fail := func(err error) c05result {
		return c05result{cs: verifhlib.Case{Coq: c05emptyCase, Kind: kind, Incon: true,
			Sample: map[string]string{"error": err.Error()}}, err: err}
	}
	base := filepath.Join(tmp, fmt.Sprintf("h%d", idx))
	root := filepath.Join(base, "store")
	os.RemoveAll(base)
	defer os.RemoveAll(base)
	histPath, outPath, logPath := base+".hist.json", base+".out.json", base+".strace"
	defer os.Remove(histPath)
	defer os.Remove(outPath)
	defer os.Remove(logPath)
	hb, _ := json.Marshal(h)
	if err := os.MkdirAll(tmp, 0o755); err != nil {
		return fail(err)
	}
	if err := os.WriteFile(histPath, hb, 0o644); err != nil {
		return fail(err)
	}
	self, err := os.Executable()
	if err != nil {
		return fail(err)
	}
	var all []fstrace.Call
	var ob []byte
	// The child is the real origin running the history. If it dies (a panic, a failing NewCAStore) the
	// case is reported as a disagreement, not skipped; tracing hiccups get three tries.
	for try := 0; ; try++ {
		os.RemoveAll(base)
		os.MkdirAll(root, 0o755)
		os.MkdirAll(filepath.Join(base, "marks"), 0o755)
		os.Remove(outPath)
		cmd := exec.Command(self, "-test.run", "^TestVerifC05Child$", "-test.count", "1")
		cmd.Env = append(os.Environ(), "VERIF_C05_CHILD=1", "VERIF_C05_HIST="+histPath, "VERIF_C05_OUT="+outPath, "VERIF_C05_BASE="+base)
		cmd.Dir = tmp
		var cerr error
		all, cerr = fstrace.Record(cmd, base, logPath)
		if cerr == nil {
			ob, cerr = os.ReadFile(outPath)
		}
		if cerr == nil {
			break
		}
		if try >= 2 {
			return c05result{cs: verifhlib.Case{Coq: "mkcase (mkcfg [] [] [] 4 0 0) [Generate 0] [OOk] [CBad 0] []", Kind: kind + "-child-died",
				Tags: []string{"child-died"}, Sample: map[string]string{"error": cerr.Error(), "history": string(hb)}}, err: cerr}
		}
	}
	var co c05childOut
	if err := json.Unmarshal(ob, &co); err != nil {
		return fail(err)
	}
	// split at the markers: group 0 = open, group i+1 = op i
	var storeCalls []fstrace.Call
	var groups [][]fstrace.Call
	var cur []fstrace.Call
	marksDir := filepath.Join(base, "marks")
	for _, c := range all {
		p := c.Path
		if p == "" {
			p = strings.TrimSuffix(c.FdPath, " (deleted)")
		}
		if p == marksDir || strings.HasPrefix(p, marksDir+"/") {
			if c.Mutating {
				groups = append(groups, cur)
				cur = nil
			}
			continue
		}
		if fstrace.Rel(root, p) == "" && !(c.Path2 != "" && fstrace.Rel(root, c.Path2) != "") {
			continue
		}
		storeCalls = append(storeCalls, c)
		cur = append(cur, c)
	}
	if len(cur) != 0 || len(groups) != len(h.Ops)+1 {
		return fail(fmt.Errorf("marker split: %d groups for %d ops, %d trailing calls", len(groups), len(h.Ops), len(cur)))
	}
	if err := fstrace.SelfCheck(storeCalls, root, filepath.Join(base, "selfcheck")); err != nil {
		return fail(fmt.Errorf("fstrace self-check: %v", err))
	}
	nslots := 0
	for _, o := range h.Ops {
		if (o.K == c05Start || o.K == c05Patch || o.K == c05Commit) && o.U+1 > nslots {
			nslots = o.U + 1
		}
	}
	names := &c05names2{root: root, up: map[string]int{}, ca: map[string]int{}, next: nslots}
	for i := 0; i < c05NBlobs; i++ {
		names.ca[c05digest(i).Hex()] = i
	}
	for slot, uid := range co.Uids {
		if uid != "" {
			names.up[uid] = slot
		}
	}
	var strace, sops, souts, hist []string
	pls := map[int64]bool{c05PL: true}
	for gi, g := range groups {
		nc := c05normalise(g, names)
		for _, c := range nc {
			strace = append(strace, c.coq)
		}
		if gi > 0 {
			o := h.Ops[gi-1]
			sops = append(sops, c05opCoq(o, nc))
			souts = append(souts, []string{"OOk", "ONotFound", "OConflict", "OAccepted", "OErr"}[co.Outs[gi-1]])
			hist = append(hist, c05names[o.K])
			if o.K == c05Overwrite && o.PL > 0 {
				pls[o.PL] = true
			}
		}
	}
	nm := fstrace.NumMutating(storeCalls)
	if nm != len(strace) {
		return fail(fmt.Errorf("mutating calls %d != normalised %d", nm, len(strace)))
	}
	if dump {
		fmt.Println("ops:", sops)
		fmt.Println("outs:", souts)
		for i, s := range strace {
			if len(s) > 150 {
				s = s[:150]
			}
			fmt.Println("  ", i+1, s)
		}
	}
	var recs []string
	anyStuck, sawListed := false, false
	for k := 0; k <= nm; k++ {
		rdir := filepath.Join(base, fmt.Sprintf("r%d", k))
		rdir2 := filepath.Join(base, fmt.Sprintf("q%d", k))
		replay := func(dst string) error {
			if err := os.MkdirAll(dst, 0o755); err != nil {
				return err
			}
			done, err := fstrace.Replay(storeCalls, k, root, dst)
			if err != nil || done != k {
				return fmt.Errorf("replay of prefix %d: done=%d err=%v", k, done, err)
			}
			return nil
		}
		if err := replay(rdir); err != nil {
			return fail(err)
		}
		r, nl, stuck, oerr := c05observe(rdir, func() (string, error) { return rdir2, replay(rdir2) })
		if oerr != nil {
			return fail(oerr)
		}
		if stuck {
			anyStuck = true
		}
		if nl > 0 {
			sawListed = true
		}
		if dump {
			fmt.Printf("  crash %d: %s\n", k, r)
		}
		recs = append(recs, r)
		os.RemoveAll(rdir)
		os.RemoveAll(rdir2)
	}
	// environment of the case: shard path of every digest, sha-256 table, serialised metainfo table
	var kp, ht, mt []string
	var plist []int
	for pl := range pls {
		plist = append(plist, int(pl))
	}
	sort.Ints(plist)
	for i := 0; i < c05NBlobs; i++ {
		hx := c05digest(i).Hex()
		v, _ := strconv.ParseUint(hx[0:2], 16, 8)
		w, _ := strconv.ParseUint(hx[2:4], 16, 8)
		kp = append(kp, verifhlib.Pair(strconv.Itoa(i), verifhlib.Ns([]int{int(v), int(w)})))
		ht = append(ht, verifhlib.Pair(verifhlib.Bytes(c05content(i)), strconv.Itoa(i)))
		for _, pl := range plist {
			mi, err := core.NewMetaInfo(c05digest(i), bytes.NewReader(c05content(i)), int64(pl))
			if err != nil {
				return fail(err)
			}
			raw, err := mi.Serialize()
			if err != nil {
				return fail(err)
			}
			mt = append(mt, fmt.Sprintf("(%d, %d, %s)", i, pl, verifhlib.Bytes(raw)))
		}
	}
	cfgq := fmt.Sprintf("(mkcfg %s %s %s %d %d %d)", verifhlib.List(kp), verifhlib.List(ht), verifhlib.List(mt), c05PL, nslots, c05NBlobs)
	var rle []string
	for i := 0; i < len(recs); {
		j := i
		for j < len(recs) && recs[j] == recs[i] {
			j++
		}
		rle = append(rle, fmt.Sprintf("(%d%%nat, %s)", j-i, recs[i]))
		i = j
	}
	coq := fmt.Sprintf("mkcase %s %s %s %s %s", cfgq, verifhlib.List(sops), verifhlib.List(souts), verifhlib.List(strace), verifhlib.List(rle))
	var tags []string
	if anyStuck {
		tags = append(tags, "metainfo-stuck")
	}
	sample := map[string]interface{}{"ops": sops, "outs": souts, "crash_points": nm + 1, "recovered_at_last_point": recs[len(recs)-1]}
	return c05result{cs: verifhlib.Case{Coq: coq, NT: sawListed && nm >= 8, Kind: kind, Hist: hist, Tags: tags, Sample: sample, Key: verifhlib.List(sops)}}
}

// ---------------------------------------------------------------- debugging aid

func TestVerifC05Dump(t *testing.T) {
	if os.Getenv("VERIF_C05_DUMP") == "" {
		return
	}
	tmp := os.Getenv("VERIF_C05_DUMP")
	h := c05hist{Ops: []c05op{
		{K: c05Start, U: 0, D: 0}, {K: c05Patch, U: 0, D: 0, Off: 0, Data: c05content(0)[:4]}, {K: c05Patch, U: 0, D: 0, Off: 4, Data: c05content(0)[4:]},
		{K: c05Commit, U: 0, D: 0}, {K: c05WriteBack, D: 0}, {K: c05Overwrite, D: 0, PL: 3}, {K: c05Refresh, D: 2, C: 2}, {K: c05GetMeta, D: 2},
		{K: c05Start, U: 1, D: 1}, {K: c05Patch, U: 1, D: 1, Off: 0, Data: []byte("zz")}, {K: c05Commit, U: 1, D: 1}, {K: c05Refresh, D: 2, C: 2}, {K: c05Refresh, D: 1, C: 0},
	}}
	r := c05run(tmp, 0, h, "dump", true)
	fmt.Println(r.err)
	os.WriteFile(filepath.Join(tmp, "case.v"), []byte(r.cs.Coq), 0o644)
}

// ---------------------------------------------------------------- driver

func c05driver(ctx *verifhlib.Ctx) {
	type job struct {
		h    c05hist
		kind string
	}
	var jobs []job
	add := func(kind string, ops ...c05op) { jobs = append(jobs, job{c05hist{Ops: ops}, kind}) }
	start := func(u, d int) c05op { return c05op{K: c05Start, U: u, D: d} }
	patch := func(u, d int, off int64, data []byte) c05op {
		return c05op{K: c05Patch, U: u, D: d, Off: off, Data: data}
	}
	commit := func(u, d int) c05op { return c05op{K: c05Commit, U: u, D: d} }
	wb := func(d int) c05op { return c05op{K: c05WriteBack, D: d} }
	gen := func(d int) c05op { return c05op{K: c05Generate, D: d} }
	ow := func(d int, pl int64) c05op { return c05op{K: c05Overwrite, D: d, PL: pl} }
	refresh := func(d, c int) c05op { return c05op{K: c05Refresh, D: d, C: c} }
	gm := func(d int) c05op { return c05op{K: c05GetMeta, D: d} }
	upload := func(u, d, c int) []c05op { // a complete chunked upload of content c under name d
		b := c05content(c)
		h := len(b) / 2
		return []c05op{start(u, d), patch(u, d, 0, b[:h]), patch(u, d, int64(h), b[h:]), commit(u, d)}
	}
	cat := func(l ...[]c05op) []c05op {
		var r []c05op
		for _, x := range l {
			r = append(r, x...)
		}
		return r
	}

	// ---- seeds: the refutation witness and the boundaries reasoned about
	// C05_empty_torrentmeta_refuted: backend refresh; crash between creation and write of `_torrentmeta`
	add("seed-refresh-metainfo", refresh(2, 2), gm(2))
	// cluster upload: commit, write-back (persist flag, metainfo)
	add("seed-upload-writeback", cat(upload(0, 0, 0), []c05op{wb(0), gm(0)})...)
	// internal transfer: commit then Generate; the empty blob
	add("seed-transfer-empty-blob", cat(upload(0, 1, 1), []c05op{gen(1), gen(1)})...)
	// metainfo overwritten in place with another piece length (truncate, write), and back
	add("seed-overwrite", refresh(0, 0), ow(0, 3), ow(0, 4), ow(0, 0), ow(0, 7), gen(0))
	// wrong bytes: verification fails before the rename; then the right bytes
	add("seed-wrong-content", cat(upload(0, 0, 2), upload(1, 0, 0), []c05op{wb(0)}, []c05op{refresh(2, 0), refresh(2, 2)})...)
	// conflicts: second upload of a cached blob, refresh of a cached blob, commit of a lost upload
	add("seed-conflicts", cat(upload(0, 2, 2), []c05op{start(1, 2), commit(1, 2), refresh(2, 2), gen(2)},
		[]c05op{start(2, 0), patch(2, 0, 0, c05content(0)), refresh(0, 0), patch(2, 0, 0, nil), commit(2, 0), gen(1), wb(1), ow(1, 4), gm(1)})...)
	// two uploads of the same name racing to commit
	add("seed-two-uploads", start(0, 0), start(1, 0), patch(0, 0, 0, c05content(0)), patch(1, 0, 0, c05content(0)), commit(1, 0), commit(0, 0), wb(0))

	r := verifhlib.NewRng(ctx.Seed)
	for i := 0; i < ctx.N; i++ {
		n := r.Range(4, 9)
		if ctx.Tier == "thorough" && r.Chance(30) {
			n = r.Range(9, 14)
		}
		bad := 12
		kind := "random"
		if i%5 == 4 {
			bad, kind = 35, "random-malformed"
		}
		jobs = append(jobs, job{c05hist{Ops: c05gen(r.Fork(), n, bad)}, kind})
	}

	res := make([]c05result, len(jobs))
	var wg sync.WaitGroup
	sem := make(chan struct{}, 8)
	for i := range jobs {
		wg.Add(1)
		sem <- struct{}{}
		go func(i int) {
			defer wg.Done()
			defer func() { <-sem }()
			res[i] = c05run(ctx.Tmp, i, jobs[i].h, jobs[i].kind, false)
		}(i)
	}
	wg.Wait()
	var errs []string
	for i := range res {
		if res[i].err != nil {
			errs = append(errs, fmt.Sprintf("case %d (%s): %v", i, jobs[i].kind, res[i].err))
		}
		ctx.Emit(res[i].cs)
	}
	sort.Strings(errs)
	if len(errs) > 0 {
		fmt.Fprintln(os.Stderr, "C05 driver: inconclusive cases:\n"+strings.Join(errs, "\n"))
	}
}

// c05gen draws a history against a shadow state so that most operations take their non-error path
// (structured, mostly valid); `bad` % are meant to fail (wrong bytes, lost uploads, absent blobs).
func c05gen(r *verifhlib.Rng, n, bad int) []c05op {
	type upl struct {
		d       int
		content []byte
	}
	var ops []c05op
	cached := map[int]bool{}
	open := map[int]*upl{}
	nextSlot := 0
	pickCached := func() (int, bool) {
		var l []int
		for d := range cached {
			l = append(l, d)
		}
		sort.Ints(l)
		if len(l) == 0 {
			return 0, false
		}
		return l[r.Intn(len(l))], true
	}
	pickOpen := func() (int, bool) {
		var l []int
		for u := range open {
			l = append(l, u)
		}
		sort.Ints(l)
		if len(l) == 0 {
			return 0, false
		}
		return l[r.Intn(len(l))], true
	}
	for len(ops) < n {
		if r.Chance(bad) {
			switch r.Intn(6) {
			case 0: // commit of an upload that does not exist
				ops = append(ops, c05op{K: c05Commit, U: nextSlot + 1, D: r.Intn(c05NBlobs)})
			case 1: // metainfo for a blob that is not cached
				ops = append(ops, c05op{K: []int{c05Generate, c05WriteBack, c05GetMeta}[r.Intn(3)], D: r.Intn(c05NBlobs)})
			case 2: // refresh delivering the wrong bytes
				d := r.Intn(c05NBlobs)
				ops = append(ops, c05op{K: c05Refresh, D: d, C: (d + 1 + r.Intn(c05NBlobs-1)) % c05NBlobs})
			case 3: // overwrite with piece length 0
				ops = append(ops, c05op{K: c05Overwrite, D: r.Intn(c05NBlobs), PL: 0})
			case 4: // commit with wrong / incomplete bytes
				if u, ok := pickOpen(); ok {
					ops = append(ops, c05op{K: c05Commit, U: u, D: (open[u].d + 1) % c05NBlobs})
					delete(open, u)
				}
			default: // start for a cached blob
				if d, ok := pickCached(); ok {
					ops = append(ops, c05op{K: c05Start, U: nextSlot, D: d})
					nextSlot++
				}
			}
			continue
		}
		switch c := r.Intn(100); {
		case c < 18: // start an upload
			d := r.Intn(c05NBlobs)
			ops = append(ops, c05op{K: c05Start, U: nextSlot, D: d})
			if !cached[d] {
				open[nextSlot] = &upl{d: d}
			}
			nextSlot++
		case c < 40: // patch: the next chunk of the right content (sometimes all of it)
			u, ok := pickOpen()
			if !ok {
				continue
			}
			up := open[u]
			want := c05content(up.d)
			if cached[up.d] {
				ops = append(ops, c05op{K: c05Patch, U: u, D: up.d, Off: 0, Data: want})
				continue
			}
			off := len(up.content)
			if off > len(want) {
				off = len(want)
			}
			rest := want[off:]
			k := len(rest)
			if k > 0 && r.Chance(50) {
				k = r.Range(1, k)
			}
			ops = append(ops, c05op{K: c05Patch, U: u, D: up.d, Off: int64(off), Data: rest[:k]})
			up.content = append(up.content[:off], rest[:k]...)
		case c < 58: // commit
			u, ok := pickOpen()
			if !ok {
				continue
			}
			up := open[u]
			ops = append(ops, c05op{K: c05Commit, U: u, D: up.d})
			if bytes.Equal(up.content, c05content(up.d)) {
				cached[up.d] = true
			}
			delete(open, u)
		case c < 68:
			if d, ok := pickCached(); ok {
				ops = append(ops, c05op{K: c05WriteBack, D: d})
			}
		case c < 76:
			if d, ok := pickCached(); ok {
				ops = append(ops, c05op{K: c05Generate, D: d})
			}
		case c < 84:
			if d, ok := pickCached(); ok {
				ops = append(ops, c05op{K: c05Overwrite, D: d, PL: int64([]int{1, 3, 4, 5, 16, 100}[r.Intn(6)])})
			}
		case c < 96: // backend refresh
			d := r.Intn(c05NBlobs)
			ops = append(ops, c05op{K: c05Refresh, D: d, C: d})
			cached[d] = true
		default:
			ops = append(ops, c05op{K: c05GetMeta, D: r.Intn(c05NBlobs)})
		}
	}
	return ops
}
