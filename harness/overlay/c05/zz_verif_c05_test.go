//go:build verif

package blobserver

// C05 crash-consistency driver (origin / proxy blob cache).  One case = one history of upload /
// commit / write-back / metainfo / refresh operations on the REAL origin (blobserver.Server over a real
// store.CAStore), executed in a child process under strace (hlib/fstrace), plus, for EVERY prefix of
// the history's mutating file-system calls, the observables of the REAL recovery run on a fresh
// directory into which exactly that prefix was replayed ("the disk after a crash at that point"):
// a new CAStore on that directory, ListCacheFiles, GetCacheFileReader, GetCacheFileMetadata(TorrentMeta),
// the origin's getMetaInfo and, where metainfo is not served, the on-demand regeneration paths.
// The Coq side (K.Run.C05_run) compares (1) the normalised call trace with the model program's trace and
// (2) every prefix's observables with the model's `recover`; C05_check is the property on the observations.
// Overlaid into origin/blobserver at build time; never present in the repository.

import (
	"bytes"
	"context"
	"crypto/sha256"
	"encoding/hex"
	"encoding/json"
	"fmt"
	"hash/crc32"
	"io"
	"os"
	"os/exec"
	"path/filepath"
	"sort"
	"strconv"
	"strings"
	"sync"
	"testing"
	"time"

	"github.com/andres-erbsen/clock"
	"github.com/uber-go/tally"

	"github.com/uber/kraken/core"
	"github.com/uber/kraken/lib/backend"
	"github.com/uber/kraken/lib/backend/backenderrors"
	"github.com/uber/kraken/lib/blobrefresh"
	"github.com/uber/kraken/lib/hashring"
	"github.com/uber/kraken/lib/healthcheck"
	"github.com/uber/kraken/lib/hostlist"
	"github.com/uber/kraken/lib/metainfogen"
	"github.com/uber/kraken/lib/persistedretry"
	"github.com/uber/kraken/lib/store"
	"github.com/uber/kraken/lib/store/metadata"
	"github.com/uber/kraken/utils/handler"
	"github.com/uber/kraken/utils/verifhlib"
	"github.com/uber/kraken/utils/verifhlib/fstrace"
)

func TestVerifC05(t *testing.T) { verifhlib.MainEnv("C05", c05driver) }

// The traced child: runs one history on an origin whose store lives under $VERIF_C05_BASE/store.
func TestVerifC05Child(t *testing.T) {
	if os.Getenv("VERIF_C05_CHILD") == "" {
		return
	}
	c05child()
}

// ---------------------------------------------------------------- blobs

// c05NBlobs digests are known to a case; content i hashes to name i.  Uploads may also carry content
// that hashes to none of them (a client sending the wrong bytes).
const (
	c05NBlobs = 3
	c05PL     = 4 // configured piece length
	c05NS     = "c05ns"
	c05Host   = "c05-origin:80"
)

func c05content(i int) []byte {
	switch i {
	case 0:
		return []byte("kraken-c05")
	case 1:
		return []byte{} // the empty blob
	case 2:
		return []byte("0123456789abcdefX") // 17 bytes: 5 pieces of length 4
	}
	return []byte(fmt.Sprintf("wrong-%d", i))
}

func c05hex(b []byte) string { h := sha256.Sum256(b); return hex.EncodeToString(h[:]) }

func c05digest(i int) core.Digest {
	d, err := core.NewSHA256DigestFromHex(c05hex(c05content(i)))
	if err != nil {
		panic(err)
	}
	return d
}

// ---------------------------------------------------------------- environment fakes

// fake storage backend: a map name -> bytes
type c05backend struct {
	mu    sync.Mutex
	blobs map[string][]byte
}

func (b *c05backend) Stat(ns, name string) (*core.BlobInfo, error) {
	b.mu.Lock()
	defer b.mu.Unlock()
	c, ok := b.blobs[name]
	if !ok {
		return nil, backenderrors.ErrBlobNotFound
	}
	return core.NewBlobInfo(int64(len(c))), nil
}
func (b *c05backend) Upload(ns, name string, src io.Reader) error {
	c, err := io.ReadAll(src)
	if err != nil {
		return err
	}
	b.mu.Lock()
	defer b.mu.Unlock()
	b.blobs[name] = c
	return nil
}
func (b *c05backend) Download(ns, name string, dst io.Writer) error {
	b.mu.Lock()
	c, ok := b.blobs[name]
	b.mu.Unlock()
	if !ok {
		return backenderrors.ErrBlobNotFound
	}
	_, err := dst.Write(c)
	return err
}
func (b *c05backend) List(prefix string, opts ...backend.ListOption) (*backend.ListResult, error) {
	return &backend.ListResult{}, nil
}
func (b *c05backend) Close() error { return nil }

// fake write-back manager: adding a task is an atomic external step (SQLite is not modelled)
type c05wb struct {
	mu    sync.Mutex
	tasks []persistedretry.Task
}

func (m *c05wb) Add(t persistedretry.Task) error {
	m.mu.Lock()
	defer m.mu.Unlock()
	m.tasks = append(m.tasks, t)
	return nil
}
func (m *c05wb) SyncExec(persistedretry.Task) error { return nil }
func (m *c05wb) Close()                            {}
func (m *c05wb) Find(interface{}) ([]persistedretry.Task, error) {
	return nil, nil
}

type c05env struct {
	s   *Server
	cas *store.CAStore
	be  *c05backend
}

// c05open is "start the origin on these directories": the real NewCAStore (which wipes the upload
// directory) and a real blobserver.Server on top of it.
func c05open(dir string, backendHas []int) (*c05env, error) {
	cas, err := store.NewCAStore(store.CAStoreConfig{
		UploadDir:     filepath.Join(dir, "upload"),
		CacheDir:      filepath.Join(dir, "cache"),
		UploadCleanup: store.CleanupConfig{Disabled: true},
		CacheCleanup:  store.CleanupConfig{Disabled: true},
	}, tally.NoopScope)
	if err != nil {
		return nil, err
	}
	be := &c05backend{blobs: map[string][]byte{}}
	for _, i := range backendHas {
		be.blobs[c05hex(c05content(i))] = c05content(i)
	}
	bm := backend.ManagerFixture()
	if err := bm.Register(".*", be, false); err != nil {
		return nil, err
	}
	mg := metainfogen.Fixture(cas, c05PL)
	br := blobrefresh.New(blobrefresh.Config{}, tally.NoopScope, cas, bm, mg)
	ring := hashring.New(hashring.Config{MaxReplica: 1}, hostlist.Fixture(c05Host), healthcheck.IdentityFilter{}, tally.NoopScope)
	clk := clock.NewMock()
	clk.Set(time.Now())
	s, err := New(Config{}, tally.NoopScope, clk, c05Host, ring, cas, newTestClientProvider(), nil, core.PeerContextFixture(),
		bm, br, mg, &c05wb{})
	if err != nil {
		return nil, err
	}
	return &c05env{s: s, cas: cas, be: be}, nil
}

func (e *c05env) close() { e.cas.Close() }

// ---------------------------------------------------------------- histories

const (
	c05Start     = iota // uploader.start(d): new upload file (slot U)
	c05Patch            // uploader.patch(d, uid, data, off, off+len)
	c05Commit           // uploader.commit(d, uid): MoveUploadFileToCache
	c05WriteBack        // Server.writeBack: persist flag, task, metainfo
	c05Generate         // metainfogen.Generate(d)  (commitTransferHandler)
	c05Overwrite        // Server.overwriteMetaInfo(d, pl)
	c05Refresh          // blobrefresh download = CAStore.WriteBlobToCacheWithMetaInfo(d, backend content)
	c05GetMeta          // Server.getMetaInfo (read path; touches last-access metadata)
)

var c05names = []string{"Start", "Patch", "Commit", "WriteBack", "Generate", "Overwrite", "Refresh", "GetMeta"}

type c05op struct {
	K    int    `json:"k"`
	U    int    `json:"u,omitempty"`    // upload slot
	D    int    `json:"d,omitempty"`    // digest index (name)
	C    int    `json:"c,omitempty"`    // content index (Refresh: what the backend delivers)
	Off  int64  `json:"off,omitempty"`  // Patch
	Data []byte `json:"data,omitempty"` // Patch
	PL   int64  `json:"pl,omitempty"`   // Overwrite
}

type c05hist struct {
	Ops []c05op `json:"ops"`
}

type c05childOut struct {
	Outs []int    `json:"outs"` // 0 ok, 1 not found, 2 conflict/exists, 3 accepted, 4 other error
	Uids []string `json:"uids"` // upload slot -> uid chosen by uploader.start
}

func c05errKind(err error) int {
	if err == nil {
		return 0
	}
	if he, ok := err.(*handler.Error); ok {
		switch he.GetStatus() {
		case 404:
			return 1
		case 409:
			return 2
		case 202:
			return 3
		}
		return 4
	}
	if os.IsNotExist(err) {
		return 1
	}
	if os.IsExist(err) {
		return 2
	}
	return 4
}

func c05child() {
	var h c05hist
	b, err := os.ReadFile(os.Getenv("VERIF_C05_HIST"))
	if err != nil {
		panic(err)
	}
	if err := json.Unmarshal(b, &h); err != nil {
		panic(err)
	}
	base := os.Getenv("VERIF_C05_BASE")
	e, err := c05open(filepath.Join(base, "store"), nil)
	if err != nil {
		panic(err)
	}
	mark := func(i int) {
		// operation boundary marker (a traced call outside the store directory)
		if err := os.Mkdir(filepath.Join(base, "marks", strconv.Itoa(i)), 0o755); err != nil {
			panic(err)
		}
	}
	mark(0) // end of "open"
	var out c05childOut
	uids := map[int]string{}
	for i, o := range h.Ops {
		var err error
		switch o.K {
		case c05Start:
			var uid string
			uid, err = e.s.uploader.start(c05digest(o.D))
			if err == nil {
				uids[o.U] = uid
				for len(out.Uids) <= o.U {
					out.Uids = append(out.Uids, "")
				}
				out.Uids[o.U] = uid
			}
		case c05Patch:
			uid, ok := uids[o.U]
			if !ok {
				uid = "nonexistent-upload"
			}
			err = e.s.uploader.patch(c05digest(o.D), uid, bytes.NewReader(o.Data), o.Off, o.Off+int64(len(o.Data)))
		case c05Commit:
			uid, ok := uids[o.U]
			if !ok {
				uid = "nonexistent-upload"
			}
			err = e.s.uploader.commit(c05digest(o.D), uid)
		case c05WriteBack:
			err = e.s.writeBack(context.Background(), c05NS, c05digest(o.D), 0)
		case c05Generate:
			err = e.s.metaInfoGenerator.Generate(c05digest(o.D))
		case c05Overwrite:
			err = e.s.overwriteMetaInfo(c05digest(o.D), o.PL)
		case c05Refresh:
			// lib/blobrefresh/refresher.go:150-155 (Refresher.download), run synchronously
			d := c05digest(o.D)
			c := c05content(o.C)
			pl := e.s.metaInfoGenerator.GetPieceLength(int64(len(c)))
			err = e.cas.WriteBlobToCacheWithMetaInfo(d.Hex(), uint64(len(c)), func(w store.FileReadWriter) error {
				_, err := w.Write(c)
				return err
			}, pl)
		case c05GetMeta:
			_, err = e.s.getMetaInfo(c05NS, c05digest(o.D))
		default:
			panic("bad op")
		}
		out.Outs = append(out.Outs, c05errKind(err))
		mark(i + 1)
	}
	ob, _ := json.Marshal(out)
	if err := os.WriteFile(os.Getenv("VERIF_C05_OUT"), ob, 0o644); err != nil {
		panic(err)
	}
}

// ---------------------------------------------------------------- trace normalisation

type c05ncall struct {
	coq   string
	kind  string
	area  string
	fname string
}

type c05names2 struct {
	root string
	up   map[string]int // upload entry name -> canonical id: slot number, temporaries numbered after the slots
	next int
	ca   map[string]int // cache name -> digest index
}

func c05fname(s string) (string, bool) {
	switch s {
	case "data":
		return "FData", true
	case "_last_access_time":
		return "FLat", true
	case "_persist":
		return "FPersist", true
	case "_torrentmeta":
		return "FMeta", true
	}
	return "", false
}

type c05loc struct {
	kind  string // "uroot" "croot" "shard" "udir" "cdir" "ufile" "cfile"
	comps []int
	key   int
	fname string
	ok    bool
}

func (n *c05names2) upID(name string) int {
	if id, ok := n.up[name]; ok {
		return id
	}
	id := n.next
	n.up[name] = id
	n.next++
	return id
}

func (n *c05names2) locate(p string) c05loc {
	rel := fstrace.Rel(n.root, p)
	if rel == "" || rel == "." {
		return c05loc{}
	}
	parts := strings.Split(rel, "/")
	switch parts[0] {
	case "upload":
		switch len(parts) {
		case 1:
			return c05loc{kind: "uroot", ok: true}
		case 2:
			return c05loc{kind: "udir", key: n.upID(parts[1]), ok: true}
		case 3:
			fn, ok := c05fname(parts[2])
			if !ok {
				return c05loc{}
			}
			return c05loc{kind: "ufile", key: n.upID(parts[1]), fname: fn, ok: true}
		}
	case "cache":
		if len(parts) == 1 {
			return c05loc{kind: "croot", ok: true}
		}
		var comps []int
		for i := 1; i < len(parts) && i <= 2; i++ {
			v, err := strconv.ParseUint(parts[i], 16, 8)
			if err != nil || len(parts[i]) != 2 {
				return c05loc{}
			}
			comps = append(comps, int(v))
		}
		if len(parts) <= 3 {
			return c05loc{kind: "shard", comps: comps, ok: true}
		}
		id, ok := n.ca[parts[3]]
		if !ok {
			return c05loc{}
		}
		if len(parts) == 4 {
			return c05loc{kind: "cdir", key: id, ok: true}
		}
		if len(parts) == 5 {
			fn, ok := c05fname(parts[4])
			if !ok {
				return c05loc{}
			}
			return c05loc{kind: "cfile", key: id, fname: fn, ok: true}
		}
	}
	return c05loc{}
}

func c05area(l c05loc) string {
	if strings.HasPrefix(l.kind, "u") {
		return "AUp"
	}
	return "ACa"
}

// payloads of the time-dependent last-access sidecar are normalised to one byte (1)
func c05data(l c05loc, d []byte) string {
	if l.fname == "FLat" {
		if len(d) == 0 {
			return "[]"
		}
		return "[1]"
	}
	return verifhlib.Bytes(d)
}

func c05normalise(calls []fstrace.Call, n *c05names2) []c05ncall {
	var out []c05ncall
	fdOff := map[int]int64{}
	bad := func(c fstrace.Call) c05ncall {
		return c05ncall{coq: fmt.Sprintf("CBad %d", c.Seq), kind: "Bad"}
	}
	for _, c := range calls {
		switch c.Name {
		case "open", "openat", "creat":
			fdOff[c.Fd] = 0
		case "lseek":
			if c.Whence == 0 {
				fdOff[c.Fd] = c.Off
			} else {
				fdOff[c.Fd] = -1 << 40
			}
		case "read":
			fdOff[c.Fd] += c.Ret
		}
		if !c.Mutating {
			continue
		}
		var r c05ncall
		switch c.Name {
		case "mkdir", "mkdirat":
			l := n.locate(c.Path)
			switch {
			case !l.ok:
				r = bad(c)
			case l.kind == "uroot" || l.kind == "croot":
				r = c05ncall{coq: "CMkRoot " + c05area(l), kind: "MkRoot"}
			case l.kind == "shard":
				r = c05ncall{coq: "CMkShard " + verifhlib.Ns(l.comps), kind: "MkShard"}
			case l.kind == "udir" || l.kind == "cdir":
				r = c05ncall{coq: fmt.Sprintf("CMkDir %s %d", c05area(l), l.key), kind: "MkDir"}
			default:
				r = bad(c)
			}
		case "open", "openat", "creat":
			l := n.locate(c.Path)
			if !l.ok || (l.kind != "ufile" && l.kind != "cfile") || !strings.Contains(c.Flags, "O_TRUNC") || strings.Contains(c.Flags, "O_EXCL") {
				r = bad(c)
				break
			}
			r = c05ncall{coq: fmt.Sprintf("CCreate %s %d %s", c05area(l), l.key, l.fname), kind: "Create"}
		case "write", "pwrite64":
			l := n.locate(c.FdPath)
			off := c.Off
			if c.Name == "write" {
				off = fdOff[c.Fd]
				fdOff[c.Fd] += c.Ret
			}
			if !l.ok || (l.kind != "ufile" && l.kind != "cfile") || off < 0 {
				r = bad(c)
				break
			}
			r = c05ncall{coq: fmt.Sprintf("CWrite %s %d %s %d %s", c05area(l), l.key, l.fname, off, c05data(l, c.Data)), kind: "Write"}
		case "ftruncate":
			l := n.locate(c.FdPath)
			if !l.ok || (l.kind != "ufile" && l.kind != "cfile") {
				r = bad(c)
				break
			}
			n := c.Off
			if l.fname == "FLat" && n > 0 {
				n = 1
			}
			r = c05ncall{coq: fmt.Sprintf("CTrunc %s %d %s %d", c05area(l), l.key, l.fname, n), kind: "Trunc", fname: l.fname}
		case "rename", "renameat", "renameat2":
			a, b := n.locate(c.Path), n.locate(c.Path2)
			if !a.ok || !b.ok || a.kind != "ufile" || b.kind != "cfile" || a.fname != "FData" || b.fname != "FData" {
				r = bad(c)
				break
			}
			r = c05ncall{coq: fmt.Sprintf("CRename %d %d", a.key, b.key), kind: "Rename"}
		case "unlink", "unlinkat", "rmdir":
			l := n.locate(c.Path)
			isDir := c.Name == "rmdir" || strings.Contains(c.Flags, "AT_REMOVEDIR")
			switch {
			case !l.ok:
				r = bad(c)
			case isDir && (l.kind == "udir" || l.kind == "cdir"):
				r = c05ncall{coq: fmt.Sprintf("CRmDir %s %d", c05area(l), l.key), kind: "RmDir"}
			case !isDir && (l.kind == "ufile" || l.kind == "cfile"):
				r = c05ncall{coq: fmt.Sprintf("CUnlink %s %d %s", c05area(l), l.key, l.fname), kind: "Unlink", area: c05area(l), fname: l.fname}
			default:
				r = bad(c)
			}
		default:
			r = bad(c)
		}
		out = append(out, r)
	}
	return out
}

// ---------------------------------------------------------------- observables of a recovered origin

// metainfo classes
const (
	c05MAbsent = iota
	c05MValid
	c05MWrong  // decodes, but is not the metainfo of this blob
	c05MBroken // the read fails with something else than "not found"
)

var c05mnames = []string{"MAbsent", "MValid", "MWrong", "MBroken"}

// c05validFor checks metainfo against the blob independently of core.NewMetaInfo
func c05validFor(mi *core.MetaInfo, name string, blob []byte) bool {
	if mi == nil || mi.Digest().Hex() != name || mi.Length() != int64(len(blob)) || mi.PieceLength() <= 0 {
		return false
	}
	pl := int(mi.PieceLength())
	np := (len(blob) + pl - 1) / pl
	if mi.NumPieces() != np {
		return false
	}
	for i := 0; i < np; i++ {
		end := (i + 1) * pl
		if end > len(blob) {
			end = len(blob)
		}
		if mi.GetPieceSum(i) != crc32.ChecksumIEEE(blob[i*pl:end]) {
			return false
		}
	}
	return true
}

func c05classRaw(raw []byte, err error, name string, blob []byte) int {
	if err != nil {
		if he, ok := err.(*handler.Error); ok && (he.GetStatus() == 202 || he.GetStatus() == 404) {
			return c05MAbsent
		}
		if os.IsNotExist(err) {
			return c05MAbsent
		}
		return c05MBroken
	}
	mi, derr := core.DeserializeMetaInfo(raw)
	if derr != nil {
		return c05MBroken
	}
	if c05validFor(mi, name, blob) {
		return c05MValid
	}
	return c05MWrong
}

type c05kobs struct {
	listed  bool
	data    []byte
	hasData bool
	md      int // GetCacheFileMetadata(TorrentMeta)
	gm      int // first getMetaInfo after the restart
	fin     int // getMetaInfo after the on-demand paths ran (refresh from the backend / upload retry)
}

// c05observe runs the REAL recovery on dir and projects what the property speaks about.
func c05observe(dir string) (coq string, opened bool, nlisted int, stuck bool) {
	all := make([]int, c05NBlobs)
	for i := range all {
		all[i] = i
	}
	e, err := c05open(dir, all) // the backend holds every blob
	if err != nil {
		return "mkrobs false false [] []", false, 0, false
	}
	defer e.close()
	upEmpty := false
	if ents, err := os.ReadDir(filepath.Join(dir, "upload")); err == nil && len(ents) == 0 {
		upEmpty = true
	}
	names, err := e.cas.ListCacheFiles()
	if err != nil {
		return "mkrobs false false [] []", false, 0, false
	}
	var listed []int
	var unknown []string
	idx := map[string]int{}
	for i := 0; i < c05NBlobs; i++ {
		idx[c05digest(i).Hex()] = i
	}
	for _, n := range names {
		if i, ok := idx[n]; ok {
			listed = append(listed, i)
		} else {
			unknown = append(unknown, n)
		}
	}
	sort.Ints(listed)
	if len(unknown) > 0 {
		listed = append(listed, 999) // a listed name that is not a digest of the case: visible as a mismatch
	}
	var ks []string
	for i := 0; i < c05NBlobs; i++ {
		d := c05digest(i)
		var k c05kobs
		for _, l := range listed {
			if l == i {
				k.listed = true
			}
		}
		if f, err := e.cas.GetCacheFileReader(d.Hex()); err == nil {
			b, rerr := io.ReadAll(f)
			f.Close()
			if rerr == nil {
				k.hasData, k.data = true, b
			}
		}
		var tm metadata.TorrentMeta
		merr := e.cas.GetCacheFileMetadata(d.Hex(), &tm)
		switch {
		case merr == nil && c05validFor(tm.MetaInfo, d.Hex(), k.data) && k.hasData:
			k.md = c05MValid
		case merr == nil:
			k.md = c05MWrong
		case os.IsNotExist(merr):
			k.md = c05MAbsent
		default:
			k.md = c05MBroken
		}
		ks = append(ks, "")
		_ = k
		// request level: what a tracker / agent sees
		blob := c05content(i)
		raw, gerr := e.s.getMetaInfo(c05NS, d)
		k.gm = c05classRaw(raw, gerr, d.Hex(), blob)
		k.fin = k.gm
		if k.gm != c05MValid && (k.listed || k.hasData) {
			// on demand: absent metainfo makes the origin refresh the blob from the backend in the background;
			// poll as a tracker would (a broken sidecar is never repaired by polling on the unfixed code)
			for try := 0; try < 200 && k.fin != c05MValid; try++ {
				time.Sleep(2 * time.Millisecond)
				raw, gerr = e.s.getMetaInfo(c05NS, d)
				k.fin = c05classRaw(raw, gerr, d.Hex(), blob)
				if k.fin == c05MBroken && try >= 5 {
					break
				}
			}
			if k.fin != c05MValid {
				stuck = true
			}
		}
		dq := "None"
		if k.hasData {
			dq = verifhlib.Some(verifhlib.Bytes(k.data))
		}
		ks[len(ks)-1] = fmt.Sprintf("mkkobs %s %s %s %s %s", verifhlib.B(k.listed), dq, c05mnames[k.md], c05mnames[k.gm], c05mnames[k.fin])
	}
	return fmt.Sprintf("mkrobs true %s %s %s", verifhlib.B(upEmpty), verifhlib.Ns(listed), verifhlib.List(ks)), true, len(listed), stuck
}

// ---------------------------------------------------------------- one case

type c05result struct {
	cs  verifhlib.Case
	err error
}

func c05opCoq(o c05op) string {
	switch o.K {
	case c05Start:
		return fmt.Sprintf("Start %d %d", o.U, o.D)
	case c05Patch:
		return fmt.Sprintf("Patch %d %d %d %s", o.U, o.D, o.Off, verifhlib.Bytes(o.Data))
	case c05Commit:
		return fmt.Sprintf("Commit %d %d", o.U, o.D)
	case c05WriteBack:
		return fmt.Sprintf("WriteBack %d", o.D)
	case c05Generate:
		return fmt.Sprintf("Generate %d", o.D)
	case c05Overwrite:
		return fmt.Sprintf("Overwrite %d %d", o.D, o.PL)
	case c05Refresh:
		return fmt.Sprintf("Refresh %d %d", o.D, o.C)
	case c05GetMeta:
		return fmt.Sprintf("GetMeta %d", o.D)
	}
	panic("bad op")
}

func c05run(tmp string, idx int, h c05hist, kind string, dump bool) c05result {
	fail := func(err error) c05result {
		return c05result{cs: verifhlib.Case{Coq: "mkcase (mkcfg [] [] []) [] [] [] []", Kind: kind, Incon: true,
			Sample: map[string]string{"error": err.Error()}}, err: err}
	}
	base := filepath.Join(tmp, fmt.Sprintf("h%d", idx))
	root := filepath.Join(base, "store")
	os.RemoveAll(base)
	defer os.RemoveAll(base)
	histPath, outPath, logPath := base+".hist.json", base+".out.json", base+".strace"
	defer os.Remove(histPath)
	defer os.Remove(outPath)
	defer os.Remove(logPath)
	hb, _ := json.Marshal(h)
	if err := os.MkdirAll(tmp, 0o755); err != nil {
		return fail(err)
	}
	if err := os.WriteFile(histPath, hb, 0o644); err != nil {
		return fail(err)
	}
	self, err := os.Executable()
	if err != nil {
		return fail(err)
	}
	var all []fstrace.Call
	var ob []byte
	for try := 0; ; try++ {
		os.RemoveAll(base)
		os.MkdirAll(root, 0o755)
		os.MkdirAll(filepath.Join(base, "marks"), 0o755)
		os.Remove(outPath)
		cmd := exec.Command(self, "-test.run", "^TestVerifC05Child$", "-test.count", "1")
		cmd.Env = append(os.Environ(), "VERIF_C05_CHILD=1", "VERIF_C05_HIST="+histPath, "VERIF_C05_OUT="+outPath, "VERIF_C05_BASE="+base)
		cmd.Dir = tmp
		var cerr error
		all, cerr = fstrace.Record(cmd, base, logPath)
		if cerr == nil {
			ob, cerr = os.ReadFile(outPath)
		}
		if cerr == nil {
			break
		}
		if try >= 2 {
			return c05result{cs: verifhlib.Case{Coq: "mkcase (mkcfg [] [] []) [Generate 0] [OErr] [CBad 0] []", Kind: kind + "-child-died",
				Tags: []string{"child-died"}, Sample: map[string]string{"error": cerr.Error(), "history": string(hb)}}, err: cerr}
		}
	}
	var co c05childOut
	if err := json.Unmarshal(ob, &co); err != nil {
		return fail(err)
	}
	// split at the markers: group 0 = open, group i+1 = op i
	var storeCalls []fstrace.Call
	var groups [][]fstrace.Call
	var cur []fstrace.Call
	marksDir := filepath.Join(base, "marks")
	for _, c := range all {
		p := c.Path
		if p == "" {
			p = strings.TrimSuffix(c.FdPath, " (deleted)")
		}
		if p == marksDir || strings.HasPrefix(p, marksDir+"/") {
			if c.Mutating {
				groups = append(groups, cur)
				cur = nil
			}
			continue
		}
		if fstrace.Rel(root, p) == "" && !(c.Path2 != "" && fstrace.Rel(root, c.Path2) != "") {
			continue
		}
		storeCalls = append(storeCalls, c)
		cur = append(cur, c)
	}
	if len(cur) != 0 || len(groups) != len(h.Ops)+1 {
		return fail(fmt.Errorf("marker split: %d groups for %d ops, %d trailing calls", len(groups), len(h.Ops), len(cur)))
	}
	if err := fstrace.SelfCheck(storeCalls, root, filepath.Join(base, "selfcheck")); err != nil {
		return fail(fmt.Errorf("fstrace self-check: %v", err))
	}
	names := &c05names2{root: root, up: map[string]int{}, ca: map[string]int{}}
	for i := 0; i < c05NBlobs; i++ {
		names.ca[c05digest(i).Hex()] = i
	}
	// upload slots first, so that slot u gets canonical id u; temporary upload files of refreshes follow
	for _, uid := range co.Uids {
		names.upID(uid)
	}
	var strace, sops, souts, hist []string
	for gi, g := range groups {
		for _, c := range c05normalise(g, names) {
			strace = append(strace, c.coq)
		}
		if gi > 0 {
			o := h.Ops[gi-1]
			sops = append(sops, c05opCoq(o))
			souts = append(souts, []string{"OOk", "ONotFound", "OConflict", "OAccepted", "OErr"}[co.Outs[gi-1]])
			hist = append(hist, c05names[o.K])
		}
	}
	if dump {
		fmt.Println("ops:", sops)
		fmt.Println("outs:", souts)
		for _, s := range strace {
			fmt.Println("  ", s)
		}
	}
	nm := fstrace.NumMutating(storeCalls)
	if nm != len(strace) {
		return fail(fmt.Errorf("mutating calls %d != normalised %d", nm, len(strace)))
	}
	var recs []string
	anyStuck, sawListed := false, false
	for k := 0; k <= nm; k++ {
		rdir := filepath.Join(base, fmt.Sprintf("r%d", k))
		if err := os.MkdirAll(rdir, 0o755); err != nil {
			return fail(err)
		}
		done, err := fstrace.Replay(storeCalls, k, root, rdir)
		if err != nil || done != k {
			return fail(fmt.Errorf("replay of prefix %d: done=%d err=%v", k, done, err))
		}
		r, _, nl, stuck := c05observe(rdir)
		if stuck {
			anyStuck = true
		}
		if nl > 0 {
			sawListed = true
		}
		if dump {
			fmt.Printf("  crash %d: %s\n", k, r)
		}
		recs = append(recs, r)
		os.RemoveAll(rdir)
	}
	// configuration: shard path of every digest, sha-256 and metainfo tables
	var kp, ht, mt []string
	for i := 0; i < c05NBlobs; i++ {
		hx := c05digest(i).Hex()
		v, _ := strconv.ParseUint(hx[0:2], 16, 8)
		w, _ := strconv.ParseUint(hx[2:4], 16, 8)
		kp = append(kp, verifhlib.Pair(strconv.Itoa(i), verifhlib.Ns([]int{int(v), int(w)})))
		ht = append(ht, verifhlib.Pair(verifhlib.Bytes(c05content(i)), strconv.Itoa(i)))
	}
	_ = mt
	cfgq := fmt.Sprintf("(mkcfg %s %s %s)", verifhlib.List(kp), verifhlib.List(ht), verifhlib.List(mt))
	var rle []string
	for i := 0; i < len(recs); {
		j := i
		for j < len(recs) && recs[j] == recs[i] {
			j++
		}
		rle = append(rle, fmt.Sprintf("(%d%%nat, %s)", j-i, recs[i]))
		i = j
	}
	coq := fmt.Sprintf("mkcase %s %s %s %s %s", cfgq, verifhlib.List(sops), verifhlib.List(souts), verifhlib.List(strace), verifhlib.List(rle))
	var tags []string
	if anyStuck {
		tags = append(tags, "metainfo-stuck")
	}
	sample := map[string]interface{}{"ops": sops, "outs": souts, "trace": strace, "crash_points": nm + 1, "recovered_at_last_point": recs[len(recs)-1]}
	return c05result{cs: verifhlib.Case{Coq: coq, NT: sawListed && nm >= 8, Kind: kind, Hist: hist, Tags: tags, Sample: sample, Key: verifhlib.List(sops)}}
}

// ---------------------------------------------------------------- debugging aid

func TestVerifC05Dump(t *testing.T) {
	if os.Getenv("VERIF_C05_DUMP") == "" {
		return
	}
	tmp := os.Getenv("VERIF_C05_DUMP")
	h := c05hist{Ops: []c05op{
		{K: c05Start, U: 0, D: 0}, {K: c05Patch, U: 0, D: 0, Off: 0, Data: c05content(0)[:4]}, {K: c05Patch, U: 0, D: 0, Off: 4, Data: c05content(0)[4:]},
		{K: c05Commit, U: 0, D: 0}, {K: c05WriteBack, D: 0}, {K: c05Overwrite, D: 0, PL: 3}, {K: c05Refresh, D: 2, C: 2}, {K: c05GetMeta, D: 2},
	}}
	r := c05run(tmp, 0, h, "dump", true)
	fmt.Println(r.err)
	fmt.Println(r.cs.Coq)
}

// ---------------------------------------------------------------- driver

func c05driver(ctx *verifhlib.Ctx) {
	// filled in below
	c05drive(ctx)
}

func c05drive(ctx *verifhlib.Ctx) {}
