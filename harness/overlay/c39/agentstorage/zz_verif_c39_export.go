//go:build verif

package agentstorage

// Exports for the C39 correspondence driver (overlaid at build time, never present in the
// repository): the piece-status vector codec of pieces.go is unexported.

// VerifC39StatusSerialize serializes a status vector holding the given raw status values
// (0 = empty, 1 = complete, 2 = dirty).
func VerifC39StatusSerialize(statuses []int) ([]byte, error) {
	pieces := make([]*piece, len(statuses))
	for i, s := range statuses {
		pieces[i] = &piece{status: pieceStatus(s)}
	}
	return newPieceStatusMetadata(pieces).Serialize()
}

// VerifC39StatusDeserialize parses b and returns the status of every piece.
func VerifC39StatusDeserialize(b []byte) ([]int, error) {
	var m pieceStatusMetadata
	if err := m.Deserialize(b); err != nil {
		return nil, err
	}
	out := make([]int, len(m.pieces))
	for i, p := range m.pieces {
		out[i] = int(p.status)
	}
	return out, nil
}

// VerifC39StatusConsts returns (_empty, _complete, _dirty).
func VerifC39StatusConsts() (int, int, int) { return int(_empty), int(_complete), int(_dirty) }
