//go:build verif

package conn

// C39 correspondence driver: runs the real print / parse functions of core (digest, info hash,
// peer id), lib/store/metadata (last access time, persist), agentstorage (piece status vector),
// willf/bitset binary form and this package's handshake <-> p2p message conversion on generated
// values, well-formed texts and malformed texts, and records what they returned as Coq terms.
// Overlaid into the package at build time; never present in the repository.

import (
	"encoding/binary"
	"fmt"
	"math"
	"net"
	"sort"
	"strings"
	"testing"
	"time"

	"github.com/uber/kraken/core"
	"github.com/uber/kraken/gen/go/proto/p2p"
	"github.com/uber/kraken/lib/store/metadata"
	"github.com/uber/kraken/lib/torrent/storage/agentstorage"
	"github.com/uber/kraken/utils/verifhlib"
	"github.com/willf/bitset"
)

func TestVerifC39(t *testing.T) { verifhlib.MainEnv("C39", c39driver) }

// ---------------------------------------------------------------- Coq term printers

// cstr prints a byte string: printable ASCII as (s "..."%string), anything else as a list.
func cstr(b []byte) string {
	if len(b) == 0 {
		return "[]"
	}
	printable := true
	for _, c := range b {
		if c < 0x20 || c > 0x7e {
			printable = false
			break
		}
	}
	if printable {
		return `(s "` + strings.ReplaceAll(string(b), `"`, `""`) + `"%string)`
	}
	return verifhlib.Bytes(b)
}

const (
	stOk = iota
	stErr
	stPanic
)

func cres(st int, term string) string {
	switch st {
	case stOk:
		return "(Ok " + term + ")"
	case stErr:
		return "Err"
	}
	return "Panic"
}

// guard runs f, mapping a returned error to stErr and a panic to stPanic.
func guard(f func() error) (st int) {
	defer func() {
		if r := recover(); r != nil {
			st = stPanic
		}
	}()
	if err := f(); err != nil {
		return stErr
	}
	return stOk
}

func cdigest(d core.Digest) string {
	return "(mkd " + cstr([]byte(d.Algo())) + " " + cstr([]byte(d.Hex())) + " " + cstr([]byte(d.String())) + ")"
}

func cdigests(l core.DigestList) string {
	if l == nil {
		return "None"
	}
	xs := make([]string, len(l))
	for i, d := range l {
		xs[i] = cdigest(d)
	}
	return "(Some " + verifhlib.List(xs) + ")"
}

func cbits(b *bitset.BitSet) string {
	ws := b.Bytes()
	xs := make([]string, len(ws))
	for i, w := range ws {
		xs[i] = verifhlib.U(w)
	}
	return "(mkbs " + verifhlib.U(uint64(b.Len())) + " " + verifhlib.List(xs) + ")"
}

func cints(v []int) string {
	xs := make([]string, len(v))
	for i, x := range v {
		xs[i] = fmt.Sprintf("%d", x)
	}
	return verifhlib.List(xs)
}

func ctime(t time.Time) string {
	return fmt.Sprintf("(VT (%d)%%Z %d)", t.Unix(), t.Nanosecond())
}

// ---------------------------------------------------------------- codecs

type codec struct {
	name  string // Coq constructor
	parse func(in []byte) (v interface{}, term string, st int)
	print func(v interface{}) (out []byte, st int)
	term  func(v interface{}) string
}

func digestTerm(v interface{}) string { return "(VD " + cdigest(v.(core.Digest)) + ")" }

var codecs = map[string]*codec{}

func init() {
	reg := func(c *codec) { codecs[c.name] = c }
	reg(&codec{name: "CDigest",
		parse: func(in []byte) (interface{}, string, int) {
			var d core.Digest
			st := guard(func() (err error) { d, err = core.ParseSHA256Digest(string(in)); return })
			return d, digestTerm(d), st
		},
		print: func(v interface{}) (out []byte, st int) {
			st = guard(func() error { out = []byte(v.(core.Digest).String()); return nil })
			return
		},
		term: digestTerm})
	reg(&codec{name: "CDigestHex",
		parse: func(in []byte) (interface{}, string, int) {
			var d core.Digest
			st := guard(func() (err error) { d, err = core.NewSHA256DigestFromHex(string(in)); return })
			return d, digestTerm(d), st
		},
		print: func(v interface{}) (out []byte, st int) {
			st = guard(func() error { out = []byte(v.(core.Digest).Hex()); return nil })
			return
		},
		term: digestTerm})
	reg(&codec{name: "CDigestJSON",
		parse: func(in []byte) (interface{}, string, int) {
			var d core.Digest
			st := guard(func() error { return d.Scan(in) })
			return d, digestTerm(d), st
		},
		print: func(v interface{}) (out []byte, st int) {
			st = guard(func() error {
				x, err := v.(core.Digest).Value()
				if err != nil {
					return err
				}
				out = x.([]byte)
				return nil
			})
			return
		},
		term: digestTerm})
	dlTerm := func(v interface{}) string { return "(VDL " + cdigests(v.(core.DigestList)) + ")" }
	reg(&codec{name: "CDigestList",
		parse: func(in []byte) (interface{}, string, int) {
			var l core.DigestList
			st := guard(func() error { return l.Scan(in) })
			return l, dlTerm(l), st
		},
		print: func(v interface{}) (out []byte, st int) {
			st = guard(func() error {
				x, err := v.(core.DigestList).Value()
				if err != nil {
					return err
				}
				out = x.([]byte)
				return nil
			})
			return
		},
		term: dlTerm})
	reg(&codec{name: "CInfoHash",
		parse: func(in []byte) (interface{}, string, int) {
			var h core.InfoHash
			st := guard(func() (err error) { h, err = core.NewInfoHashFromHex(string(in)); return })
			return h, "(VStr " + cstr(h.Bytes()) + ")", st
		},
		print: func(v interface{}) (out []byte, st int) {
			st = guard(func() error { out = []byte(v.(core.InfoHash).String()); return nil })
			return
		},
		term: func(v interface{}) string { return "(VStr " + cstr(v.(core.InfoHash).Bytes()) + ")" }})
	reg(&codec{name: "CPeerID",
		parse: func(in []byte) (interface{}, string, int) {
			var p core.PeerID
			st := guard(func() (err error) { p, err = core.NewPeerID(string(in)); return })
			return p, "(VStr " + cstr(p[:]) + ")", st
		},
		print: func(v interface{}) (out []byte, st int) {
			st = guard(func() error { out = []byte(v.(core.PeerID).String()); return nil })
			return
		},
		term: func(v interface{}) string { p := v.(core.PeerID); return "(VStr " + cstr(p[:]) + ")" }})
	reg(&codec{name: "CStatus",
		parse: func(in []byte) (interface{}, string, int) {
			var v []int
			st := guard(func() (err error) { v, err = agentstorage.VerifC39StatusDeserialize(in); return })
			return v, "(VStr " + cints(v) + ")", st
		},
		print: func(v interface{}) (out []byte, st int) {
			st = guard(func() (err error) { out, err = agentstorage.VerifC39StatusSerialize(v.([]int)); return })
			return
		},
		term: func(v interface{}) string { return "(VStr " + cints(v.([]int)) + ")" }})
	reg(&codec{name: "CLat",
		parse: func(in []byte) (interface{}, string, int) {
			var l metadata.LastAccessTime
			st := guard(func() error { return l.Deserialize(in) })
			return l.Time, ctime(l.Time), st
		},
		print: func(v interface{}) (out []byte, st int) {
			st = guard(func() (err error) { out, err = metadata.NewLastAccessTime(v.(time.Time)).Serialize(); return })
			return
		},
		term: func(v interface{}) string { return ctime(v.(time.Time)) }})
	reg(&codec{name: "CPersist",
		parse: func(in []byte) (interface{}, string, int) {
			var p metadata.Persist
			st := guard(func() error { return p.Deserialize(in) })
			return p.Value, "(VB " + verifhlib.B(p.Value) + ")", st
		},
		print: func(v interface{}) (out []byte, st int) {
			st = guard(func() (err error) { out, err = metadata.NewPersist(v.(bool)).Serialize(); return })
			return
		},
		term: func(v interface{}) string { return "(VB " + verifhlib.B(v.(bool)) + ")" }})
	reg(&codec{name: "CBits",
		parse: func(in []byte) (interface{}, string, int) {
			b := bitset.New(0) // handshaker.go:117
			st := guard(func() error { return b.UnmarshalBinary(in) })
			return b, "(VBits " + cbits(b) + ")", st
		},
		print: func(v interface{}) (out []byte, st int) {
			st = guard(func() (err error) { out, err = v.(*bitset.BitSet).MarshalBinary(); return })
			return
		},
		term: func(v interface{}) string { return "(VBits " + cbits(v.(*bitset.BitSet)) + ")" }})
}

// ---------------------------------------------------------------- case emitters

type emitter struct {
	ctx *verifhlib.Ctx
}

// parseCase: input -> parse; if accepted: print the value, parse the printed text again.
func (e *emitter) parseCase(cn string, in []byte, kind string, tags ...string) {
	c := codecs[cn]
	v, t1, st1 := c.parse(in)
	o1 := cres(st1, t1)
	o2, o3 := "Err", "Err"
	if st1 == stOk {
		p, st2 := c.print(v)
		o2 = cres(st2, cstr(p))
		if st2 == stOk {
			_, t3, st3 := c.parse(p)
			o3 = cres(st3, t3)
		}
	}
	e.ctx.Emit(verifhlib.Case{
		Coq:  fmt.Sprintf("CaseParse %s %s %s %s %s", cn, cstr(in), o1, o2, o3),
		NT:   st1 == stOk,
		Kind: cn + "/" + kind, Hist: []string{cn + ".parse"}, Tags: tags,
		Sample: map[string]string{"codec": cn, "input": fmt.Sprintf("%q", in), "parse": o1, "print": o2, "reparse": o3},
	})
}

// printCase: value -> print; if it printed: parse the text.
func (e *emitter) printCase(cn string, v interface{}, kind string, tags ...string) {
	c := codecs[cn]
	p, st1 := c.print(v)
	o1 := cres(st1, cstr(p))
	o2 := "Err"
	st2 := stErr
	if st1 == stOk {
		var t2 string
		_, t2, st2 = c.parse(p)
		o2 = cres(st2, t2)
	}
	e.ctx.Emit(verifhlib.Case{
		Coq:  fmt.Sprintf("CasePrint %s %s %s %s", cn, c.term(v), o1, o2),
		NT:   st1 == stOk && st2 == stOk,
		Kind: cn + "/" + kind, Hist: []string{cn + ".print"}, Tags: tags,
		Sample: map[string]string{"codec": cn, "value": c.term(v), "print": o1, "parse": o2},
	})
}

// ---------------------------------------------------------------- handshake

func chs(h *handshake) string {
	ids := make([]core.PeerID, 0, len(h.remoteBitfields))
	for p := range h.remoteBitfields {
		ids = append(ids, p)
	}
	sort.Slice(ids, func(i, j int) bool { return ids[i].LessThan(ids[j]) })
	rb := make([]string, len(ids))
	for i, p := range ids {
		rb[i] = "(" + cstr(p[:]) + ", " + cbits(h.remoteBitfields[p]) + ")"
	}
	return "(mkhs " + cstr(h.peerID[:]) + " " + cdigest(h.digest) + " " + cstr(h.infoHash.Bytes()) + " " +
		cbits(h.bitfield) + " " + verifhlib.List(rb) + " " + cstr([]byte(h.namespace)) + ")"
}

func cmsgBody(b *p2p.BitfieldMessage) string {
	keys := make([]string, 0, len(b.RemoteBitfieldBytes))
	for k := range b.RemoteBitfieldBytes {
		keys = append(keys, k)
	}
	sort.Strings(keys)
	rb := make([]string, len(keys))
	for i, k := range keys {
		rb[i] = "(" + cstr([]byte(k)) + ", " + cstr(b.RemoteBitfieldBytes[k]) + ")"
	}
	return "(mkmsg " + cstr([]byte(b.PeerID)) + " " + cstr([]byte(b.Name)) + " " + cstr([]byte(b.InfoHash)) + " " +
		cstr(b.BitfieldBytes) + " " + verifhlib.List(rb) + " " + cstr([]byte(b.Namespace)) + ")"
}

// overWire sends m with the package's sendMessage and reads it back with readMessage.
func overWire(m *p2p.Message) (*p2p.Message, error) {
	c1, c2 := net.Pipe()
	defer c1.Close()
	defer c2.Close()
	errc := make(chan error, 1)
	go func() {
		err := sendMessage(c1, m)
		if err != nil {
			c1.Close()
		}
		errc <- err
	}()
	out, rerr := readMessage(c2)
	if err := <-errc; err != nil {
		return nil, err
	}
	return out, rerr
}

// hsPrintCase: handshake -> toP2PMessage -> (wire) -> handshakeFromP2PMessage.
func (e *emitter) hsPrintCase(h *handshake, kind string) {
	var m *p2p.Message
	st1 := guard(func() (err error) { m, err = h.toP2PMessage(); return })
	o1, o2 := "Err", "Err"
	st2 := stErr
	wire := "n/a"
	if st1 == stOk {
		o1 = cres(stOk, cmsgBody(m.Bitfield))
		in := m
		if w, err := overWire(m); err == nil {
			in, wire = w, "sendMessage/readMessage"
		} else {
			wire = "not sendable: " + err.Error()
		}
		var h2 *handshake
		st2 = guard(func() (err error) { h2, err = handshakeFromP2PMessage(in); return })
		if st2 == stOk {
			o2 = cres(stOk, chs(h2))
		} else {
			o2 = cres(st2, "")
		}
	} else {
		o1 = cres(st1, "")
	}
	e.ctx.Emit(verifhlib.Case{
		Coq:  fmt.Sprintf("CaseHsPrint %s %s %s", chs(h), o1, o2),
		NT:   st1 == stOk && st2 == stOk,
		Kind: "Handshake/" + kind, Hist: []string{"Handshake.print"},
		Sample: map[string]string{"handshake": chs(h), "message": o1, "parsed": o2, "wire": wire},
	})
}

// hsParseCase: message -> handshakeFromP2PMessage; if accepted -> toP2PMessage -> parse again.
func (e *emitter) hsParseCase(m *p2p.Message, kind string) {
	isb := m.Type == p2p.Message_BITFIELD
	body := "None"
	if m.Bitfield != nil {
		body = "(Some " + cmsgBody(m.Bitfield) + ")"
	}
	var h *handshake
	st1 := guard(func() (err error) { h, err = handshakeFromP2PMessage(m); return })
	o1, o2, o3 := cres(st1, ""), "Err", "Err"
	if st1 == stOk {
		o1 = cres(stOk, chs(h))
		var m2 *p2p.Message
		st2 := guard(func() (err error) { m2, err = h.toP2PMessage(); return })
		o2 = cres(st2, "")
		if st2 == stOk {
			o2 = cres(stOk, cmsgBody(m2.Bitfield))
			var h3 *handshake
			st3 := guard(func() (err error) { h3, err = handshakeFromP2PMessage(m2); return })
			o3 = cres(st3, "")
			if st3 == stOk {
				o3 = cres(stOk, chs(h3))
			}
		}
	}
	e.ctx.Emit(verifhlib.Case{
		Coq:  fmt.Sprintf("CaseHsParse %s %s %s %s %s", verifhlib.B(isb), body, o1, o2, o3),
		NT:   st1 == stOk,
		Kind: "Handshake/" + kind, Hist: []string{"Handshake.parse"},
		Sample: map[string]string{"bitfield_type": verifhlib.B(isb), "message": body, "parsed": o1, "printed": o2, "reparsed": o3},
	})
}

// ---------------------------------------------------------------- generators

const hexLower = "0123456789abcdef"
const hexUpper = "0123456789ABCDEF"

type gen struct{ r *verifhlib.Rng }

// hexStr: n hex characters; style 0 lower, 1 upper, 2 mixed.
func (g *gen) hexStr(n, style int) []byte {
	b := make([]byte, n)
	for i := range b {
		t := hexLower
		if style == 1 || (style == 2 && g.r.Bool()) {
			t = hexUpper
		}
		b[i] = t[g.r.Intn(16)]
	}
	return b
}

func (g *gen) style() int {
	k := g.r.Intn(10)
	if k < 6 {
		return 0
	}
	if k < 8 {
		return 2
	}
	return 1
}

var badChars = []byte("gGzZ:-_ /\\\"\x00\x7f\x80\xff+xX.,'`@[{")

// mutate applies one small edit to a well-formed text.
func (g *gen) mutate(s []byte) []byte {
	out := append([]byte{}, s...)
	switch g.r.Intn(9) {
	case 0: // drop a character
		if len(out) > 0 {
			i := g.r.Intn(len(out))
			out = append(out[:i], out[i+1:]...)
		}
	case 1: // duplicate a character
		if len(out) > 0 {
			i := g.r.Intn(len(out))
			out = append(out[:i+1], out[i:]...)
		}
	case 2: // replace by a non-hex character
		if len(out) > 0 {
			out[g.r.Intn(len(out))] = badChars[g.r.Intn(len(badChars))]
		}
	case 3: // append
		out = append(out, hexLower[g.r.Intn(16)])
	case 4: // append junk
		out = append(out, badChars[g.r.Intn(len(badChars))])
	case 5: // prepend
		out = append([]byte{" \t0a:"[g.r.Intn(5)]}, out...)
	case 6: // truncate
		out = out[:g.r.Intn(len(out)+1)]
	case 7: // double
		out = append(out, out...)
	case 8: // drop two characters (keeps the parity)
		if len(out) > 2 {
			i := g.r.Intn(len(out) - 1)
			out = append(out[:i], out[i+2:]...)
		}
	}
	return out
}

func (g *gen) digestText() []byte { return append([]byte("sha256:"), g.hexStr(64, g.style())...) }

func (g *gen) digest() core.Digest {
	if g.r.Bool() {
		d, err := core.ParseSHA256Digest(string(g.digestText()))
		if err != nil {
			panic(err)
		}
		return d
	}
	d, err := core.NewSHA256DigestFromHex(string(g.hexStr(64, g.style())))
	if err != nil {
		panic(err)
	}
	return d
}

func (g *gen) ws() []byte {
	n := g.r.Intn(3)
	if g.r.Chance(60) {
		n = 0
	}
	b := make([]byte, n)
	for i := range b {
		b[i] = " \t\n\r"[g.r.Intn(4)]
	}
	return b
}

// jsonString spells text as a JSON string, sometimes escaping characters as \u00XX.
func (g *gen) jsonString(text []byte, escapes bool) []byte {
	out := []byte{'"'}
	for _, c := range text {
		if escapes && g.r.Chance(8) {
			if g.r.Bool() {
				out = append(out, []byte(fmt.Sprintf("\\u%04x", c))...)
			} else {
				out = append(out, []byte(fmt.Sprintf("\\u%04X", c))...)
			}
		} else {
			out = append(out, c)
		}
	}
	return append(out, '"')
}

func (g *gen) bitset() *bitset.BitSet {
	lens := []uint{0, 1, 2, 7, 8, 63, 64, 65, 100, 127, 128, 129, 191, 192, 193, 300}
	var n uint
	if g.r.Chance(60) {
		n = lens[g.r.Intn(len(lens))]
	} else {
		n = uint(g.r.Intn(260))
	}
	b := bitset.New(n)
	if n == 0 {
		return b
	}
	switch g.r.Intn(5) {
	case 0: // empty
	case 1: // full
		for i := uint(0); i < n; i++ {
			b.Set(i)
		}
	default:
		k := g.r.Intn(int(n) + 1)
		for i := 0; i < k; i++ {
			b.Set(uint(g.r.Intn(int(n))))
		}
		if g.r.Bool() {
			b.Set(n - 1)
		}
	}
	return b
}

func be64(x uint64) []byte {
	var b [8]byte
	binary.BigEndian.PutUint64(b[:], x)
	return b[:]
}

func (g *gen) id20() [20]byte {
	var b [20]byte
	switch g.r.Intn(8) {
	case 0:
	case 1:
		for i := range b {
			b[i] = 0xff
		}
	case 2:
		for i := range b {
			b[i] = byte(i * 13)
		}
	default:
		copy(b[:], g.r.Bytes(20))
	}
	return b
}

func (g *gen) handshake() *handshake {
	h := &handshake{
		peerID:          core.PeerID(g.id20()),
		digest:          g.digest(),
		infoHash:        core.InfoHash(g.id20()),
		bitfield:        g.bitset(),
		remoteBitfields: RemoteBitfields{},
	}
	for i, n := 0, g.r.Intn(4); i < n; i++ {
		h.remoteBitfields[core.PeerID(g.id20())] = g.bitset()
	}
	ns := []string{"", "ns", "library/ubuntu", "a b", "x:y/z", "été", "uber-usi/.*"}
	h.namespace = ns[g.r.Intn(len(ns))]
	return h
}

func uvarint(x uint64) []byte {
	b := make([]byte, binary.MaxVarintLen64)
	return b[:binary.PutUvarint(b, x)]
}

func zigzag(x int64) uint64 { return uint64(x<<1) ^ uint64(x>>63) }

// ---------------------------------------------------------------- driver

func c39driver(ctx *verifhlib.Ctx) {
	e := &emitter{ctx}
	g := &gen{verifhlib.NewRng(ctx.Seed)}
	n := ctx.N
	if n <= 0 {
		n = 100
	}
	thorough := ctx.Tier == "thorough"

	// ---- CLat: access times --------------------------------------------------------------
	// seeds: boundaries of the varint lengths, of the former 8-byte buffer (2^55) and of int64
	var secs []int64
	for _, k := range []uint{0, 6, 7, 13, 14, 20, 27, 31, 32, 34, 41, 48, 54, 55, 56, 61, 62} {
		p := int64(1) << k
		secs = append(secs, p-1, p, p+1, -p+1, -p, -p-1)
	}
	secs = append(secs, 0, math.MaxInt64, math.MaxInt64-1, math.MinInt64, math.MinInt64+1,
		1789000000, 1600000000, -62135596800, 253402300799)
	latTags := func(s int64) []string {
		if s >= 1<<55 || s < -(1<<55) {
			return []string{"lat-out-of-range"}
		}
		return nil
	}
	for _, s := range secs {
		e.printCase("CLat", time.Unix(s, 0), "print-boundary", latTags(s)...)
	}
	e.printCase("CLat", time.Unix(1600000000, 999999999), "print-subsecond")
	e.printCase("CLat", time.Unix(-1, 1), "print-subsecond")
	for i := 0; i < n; i++ {
		// magnitude-uniform seconds, both signs, mostly realistic
		var s int64
		switch k := g.r.Intn(10); {
		case k < 5:
			s = int64(g.r.U64() % (1 << 33))
		case k < 9:
			s = int64(g.r.U64() >> uint(g.r.Intn(64)))
		default:
			s = int64(g.r.U64())
		}
		if g.r.Chance(25) {
			s = -s
		}
		ns := int64(0)
		kind := "print-random"
		if g.r.Chance(20) {
			ns = int64(g.r.Intn(1000000000))
			kind = "print-subsecond"
		}
		e.printCase("CLat", time.Unix(s, ns), kind, latTags(s)...)
	}
	latSeeds := [][]byte{
		{}, {0}, {1}, {2}, {0x7f}, {0x80}, {0x80, 0}, {0x80, 1}, {0xff}, {0xff, 0xff},
		{0x80, 0x80, 0x80, 0x80, 0x80, 0x80, 0x80, 0x80, 0x80, 0},
		{0x80, 0x80, 0x80, 0x80, 0x80, 0x80, 0x80, 0x80, 0x80, 1},
		{0x80, 0x80, 0x80, 0x80, 0x80, 0x80, 0x80, 0x80, 0x80, 2},
		{0xff, 0xff, 0xff, 0xff, 0xff, 0xff, 0xff, 0xff, 0xff, 1},
		{0xfe, 0xff, 0xff, 0xff, 0xff, 0xff, 0xff, 0xff, 0xff, 1},
		{0xff, 0xff, 0xff, 0xff, 0xff, 0xff, 0xff, 0xff, 0xff, 0x7f},
		{0xff, 0xff, 0xff, 0xff, 0xff, 0xff, 0xff, 0xff, 0xff, 0x80},
		{0xff, 0xff, 0xff, 0xff, 0xff, 0xff, 0xff, 0xff, 0xff, 0x80, 0},
		{0x80, 0x80, 0x80, 0x80, 0x80, 0x80, 0x80, 0x80, 0x80, 0x80, 0},
		{0x80, 0x80, 0x80, 0x80, 0x80, 0x80, 0x80, 0x80, 0x80},
		{0xff, 0xff, 0xff, 0xff, 0xff, 0xff, 0xff, 0x7f},          // largest value of the 8-byte form
		{0x80, 0x80, 0x80, 0x80, 0x80, 0x80, 0x80, 0x80, 0x01, 0}, // 2^55 in the 10-byte form
		{0xd8, 0xb6, 0xf6, 0xf5, 0x0b, 0, 0, 0},                   // a file written by the 8-byte code
	}
	for _, b := range latSeeds {
		e.parseCase("CLat", b, "parse-seed")
	}
	for i := 0; i < n; i++ {
		var b []byte
		kind := "parse-valid"
		switch k := g.r.Intn(10); {
		case k < 6: // a terminated varint, padded or followed by junk
			b = uvarint(g.r.U64() >> uint(g.r.Intn(64)))
			switch g.r.Intn(4) {
			case 0:
				for len(b) < 8 {
					b = append(b, 0)
				}
			case 1:
				b = append(b, g.r.Bytes(g.r.Intn(4))...)
			case 2:
				for len(b) < 10 {
					b = append(b, 0)
				}
			}
		case k < 7: // non-canonical spelling: continuation bytes carrying zero groups
			b = uvarint(g.r.U64() >> uint(8+g.r.Intn(56)))
			b[len(b)-1] |= 0x80
			for j, m := 0, g.r.Intn(3); j < m && len(b) < 9; j++ {
				b = append(b, 0x80)
			}
			b = append(b, 0)
		case k < 9: // truncated
			kind = "parse-malformed"
			b = uvarint(g.r.U64() | 1<<63)
			b = b[:g.r.Intn(len(b))]
		default:
			kind = "parse-malformed"
			b = g.r.Bytes(g.r.Intn(13))
			for j := range b {
				b[j] |= 0x80
			}
			if len(b) > 0 && g.r.Bool() {
				b[len(b)-1] &= 0x7f
			}
		}
		e.parseCase("CLat", b, kind)
	}
	if thorough {
		alpha := []byte{0, 1, 2, 0x7f, 0x80, 0x81, 0xfe, 0xff}
		for _, a := range alpha {
			for _, b := range alpha {
				e.parseCase("CLat", []byte{a, b}, "parse-exhaustive")
				for _, c := range alpha {
					e.parseCase("CLat", []byte{a, b, c}, "parse-exhaustive")
					// the same three bytes at the end of a 10/11-byte string
					e.parseCase("CLat", append([]byte{0x80, 0x81, 0xff, 0x80, 0x80, 0xfe, 0x80, 0x80}, a, b, c), "parse-exhaustive")
				}
			}
		}
	}

	// ---- CPersist ------------------------------------------------------------------------
	e.printCase("CPersist", true, "print")
	e.printCase("CPersist", false, "print")
	persistTexts := []string{"1", "t", "T", "TRUE", "true", "True", "0", "f", "F", "FALSE", "false", "False",
		"", " ", "tRUE", "TRue", "truE", "fALSE", "yes", "no", "on", "off", "2", "-1", "01", "00", "true ", " true", "true\n",
		"false\x00", "truefalse", "T1", "tt", "ff", "\xff", "nil", "null", "\"true\""}
	for _, s := range persistTexts {
		e.parseCase("CPersist", []byte(s), "parse-seed")
	}
	for i := 0; i < n/4; i++ {
		base := []byte(persistTexts[g.r.Intn(12)])
		if g.r.Chance(50) {
			e.parseCase("CPersist", base, "parse-valid")
		} else {
			e.parseCase("CPersist", g.mutate(base), "parse-mutated")
		}
	}
	if thorough {
		alpha := []byte("tTfF10rRuUeE ")
		for _, a := range alpha {
			for _, b := range alpha {
				e.parseCase("CPersist", []byte{a, b}, "parse-exhaustive")
			}
		}
		for _, w := range []string{"true", "false"} { // every capitalisation
			for m := 0; m < 1<<uint(len(w)); m++ {
				b := []byte(w)
				for i := range b {
					if m>>uint(i)&1 == 1 {
						b[i] -= 32
					}
				}
				e.parseCase("CPersist", b, "parse-exhaustive")
			}
		}
	}

	// ---- CStatus -------------------------------------------------------------------------
	for _, v := range [][]int{{}, {0}, {1}, {2}, {0, 1, 2}, {1, 1, 1, 1}, {2, 2}, {0, 0, 0}} {
		e.printCase("CStatus", v, "print-seed")
	}
	for _, b := range [][]byte{{}, {0}, {1}, {2}, {3}, {7}, {255}, {0, 1, 2, 3}, {1, 1, 1}, {128, 1}} {
		e.parseCase("CStatus", b, "parse-seed")
	}
	for i := 0; i < n/2; i++ {
		v := make([]int, g.r.Intn(40))
		dirty := g.r.Chance(25)
		for j := range v {
			v[j] = g.r.Intn(2)
			if dirty && g.r.Chance(20) {
				v[j] = 2
			}
		}
		kind := "print-persistent"
		if dirty {
			kind = "print-with-dirty"
		}
		e.printCase("CStatus", v, kind)
	}
	for i := 0; i < n/2; i++ {
		b := make([]byte, g.r.Intn(40))
		odd := g.r.Chance(30)
		for j := range b {
			b[j] = byte(g.r.Intn(2))
			if odd && g.r.Chance(25) {
				b[j] = byte(g.r.U64())
			}
		}
		kind := "parse-valid"
		if odd {
			kind = "parse-unknown-bytes"
		}
		e.parseCase("CStatus", b, kind)
	}
	if thorough {
		alpha := []int{0, 1, 2, 3, 255}
		for _, a := range alpha {
			for _, b := range alpha {
				for _, c := range alpha {
					e.parseCase("CStatus", []byte{byte(a), byte(b), byte(c)}, "parse-exhaustive")
					if a < 3 && b < 3 && c < 3 {
						e.printCase("CStatus", []int{a, b, c}, "print-exhaustive")
					}
				}
			}
		}
	}

	// ---- CInfoHash / CPeerID -------------------------------------------------------------
	for _, cn := range []string{"CInfoHash", "CPeerID"} {
		mk := func(b [20]byte) interface{} {
			if cn == "CInfoHash" {
				return core.InfoHash(b)
			}
			return core.PeerID(b)
		}
		var z, f [20]byte
		for i := range f {
			f[i] = 0xff
		}
		e.printCase(cn, mk(z), "print-seed")
		e.printCase(cn, mk(f), "print-seed")
		for _, s := range []string{"", "0", "00", strings.Repeat("0", 38), strings.Repeat("0", 39), strings.Repeat("0", 40),
			strings.Repeat("0", 41), strings.Repeat("0", 42), strings.Repeat("f", 40), strings.Repeat("F", 40),
			strings.Repeat("g", 40), strings.Repeat("0", 39) + "g", "g" + strings.Repeat("0", 39), strings.Repeat("0", 80),
			strings.Repeat("ab", 19) + "a", strings.Repeat("ab", 19) + "a:", " " + strings.Repeat("0", 39),
			strings.Repeat("0", 40) + "\n", "0x" + strings.Repeat("0", 38), strings.Repeat("\xc3\xa9", 20)} {
			e.parseCase(cn, []byte(s), "parse-seed")
		}
		for i := 0; i < n/2; i++ {
			e.printCase(cn, mk(g.id20()), "print-random")
		}
		for i := 0; i < n/2; i++ {
			t := g.hexStr(40, g.style())
			if g.r.Chance(65) {
				e.parseCase(cn, t, "parse-valid")
			} else {
				e.parseCase(cn, g.mutate(t), "parse-mutated")
			}
		}
	}

	// ---- CDigest / CDigestHex ------------------------------------------------------------
	h64 := strings.Repeat("ab", 32)
	for _, s := range []string{"", ":", "sha256:", "sha256", "sha256:" + h64, "sha256:" + strings.ToUpper(h64), "SHA256:" + h64,
		"sha256::" + h64, "sha256:" + h64 + ":", ":sha256:" + h64, "sha256:" + h64[:63], "sha256:" + h64 + "a",
		"sha256:" + h64[:63] + "g", "sha512:" + h64, "sha25:" + h64, "sha2566:" + h64, "sha256 :" + h64, " sha256:" + h64,
		"sha256:" + h64 + " ", "sha256:" + h64 + "\n", "sha256;" + h64, h64, ":" + h64, "sha256:" + h64[:62] + "\xc3\xa9",
		"sha256:" + strings.Repeat("0", 64), "sha256:" + strings.Repeat("f", 64), "sha256:" + strings.Repeat("F", 64),
		"sha256:" + strings.Repeat(":", 64), "md5:" + h64[:32], "sha256:" + h64[:32] + ":" + h64[:31]} {
		e.parseCase("CDigest", []byte(s), "parse-seed")
	}
	for _, s := range []string{"", h64, strings.ToUpper(h64), h64[:63], h64 + "a", h64[:63] + "g", h64[:63] + ":", "sha256:" + h64,
		h64[:62], h64 + "ab", " " + h64[:63], h64[:62] + "\xc3\xa9", strings.Repeat("0", 64), strings.Repeat("F", 64), "0x" + h64[:62]} {
		e.parseCase("CDigestHex", []byte(s), "parse-seed")
	}
	e.printCase("CDigest", core.Digest{}, "print-zero-value")
	e.printCase("CDigestHex", core.Digest{}, "print-zero-value")
	e.printCase("CDigestJSON", core.Digest{}, "print-zero-value")
	for i := 0; i < n/2; i++ {
		for _, cn := range []string{"CDigest", "CDigestHex"} {
			var t []byte
			if cn == "CDigest" {
				t = g.digestText()
			} else {
				t = g.hexStr(64, g.style())
			}
			if g.r.Chance(65) {
				e.parseCase(cn, t, "parse-valid")
			} else {
				e.parseCase(cn, g.mutate(t), "parse-mutated")
			}
		}
	}
	for i := 0; i < n/3; i++ {
		d := g.digest()
		e.printCase("CDigest", d, "print-random")
		e.printCase("CDigestHex", d, "print-random")
		e.printCase("CDigestJSON", d, "print-random")
	}

	// ---- CDigestJSON ---------------------------------------------------------------------
	q := func(s string) string { return `"` + s + `"` }
	dt := "sha256:" + h64
	for _, s := range []string{"", "null", q(dt), " " + q(dt) + " ", "\n\t" + q(dt) + "\r\n", q(dt) + "x", "x" + q(dt), q(dt) + q(dt),
		q(""), q(dt[:70]), `"` + dt, dt + `"`, dt, "[" + q(dt) + "]", "{}", "[]", "123", "true", "false", "nul", "nulll",
		q(`sha256:` + h64), q(`sha256:` + h64), q(`sha256:` + h64), q(`sha256:` + h64[:63] + `A`),
		q(`sha256\u003` + h64), q(`sha256\u00zz` + h64), q(`sha256\:` + h64), q(`sha256:` + h64[:63] + `\n`), q(`sha256:` + h64[:62] + `\"a`),
		q(`sha256:` + h64 + `\`), q("sha256:" + h64[:63] + "\n"), q("sha256:" + h64[:63] + "\x01"), q("sha256:" + h64[:62] + "\xc3\xa9"),
		q("sha256:" + h64[:63] + "\xff"), q(`sha256:` + h64[:63] + `é`), q(`sha256:` + h64[:63] + `😀`), q(`sha256:` + h64[:63] + `\ud83d`),
		q(`sha256:` + h64[:63] + `\u0000`), q(`sha256:` + h64[:63] + `\/`), q(`sha256:` + h64[:63] + `\x41`), `'` + dt + `'`,
		q(dt) + ",", "," + q(dt), q(dt) + " null", "\x00" + q(dt), "\xef\xbb\xbf" + q(dt), q(dt) + "\x0c"} {
		e.parseCase("CDigestJSON", []byte(s), "parse-seed")
	}
	for i := 0; i < n/2; i++ {
		t := g.digestText()
		switch k := g.r.Intn(10); {
		case k < 5:
			doc := append(append(g.ws(), g.jsonString(t, g.r.Chance(30))...), g.ws()...)
			e.parseCase("CDigestJSON", doc, "parse-valid")
		case k < 8: // well-formed JSON string, malformed digest
			doc := append(append(g.ws(), g.jsonString(g.mutate(t), g.r.Chance(30))...), g.ws()...)
			e.parseCase("CDigestJSON", doc, "parse-bad-digest")
		default: // damaged JSON
			e.parseCase("CDigestJSON", g.mutate(g.jsonString(t, g.r.Chance(30))), "parse-bad-json")
		}
	}

	// ---- CDigestList ---------------------------------------------------------------------
	e.printCase("CDigestList", core.DigestList(nil), "print-nil")
	e.printCase("CDigestList", core.DigestList{}, "print-empty")
	e.printCase("CDigestList", core.DigestList{core.Digest{}}, "print-zero-value")
	for _, s := range []string{"", "null", " null ", "nul", "nulll", "null,", "[]", " [ ] ", "[ ]x", "[", "]", "[,]", "[null]", "[[]]", "{}", "0", `""`,
		"[" + q(dt) + "]", "[" + q(dt) + "," + q(dt) + "]", " [ " + q(dt) + " ,\n" + q(dt) + " ] ", "[" + q(dt) + ",]", "[," + q(dt) + "]",
		"[" + q(dt) + q(dt) + "]", "[" + q(dt) + " " + q(dt) + "]", "[" + q(dt) + ",," + q(dt) + "]", "[" + q(dt) + ",null]", "[" + q(dt) + ",1]",
		"[" + q(dt) + ",[" + q(dt) + "]]", "[" + q(dt), "[" + q(dt) + ",", "[" + q(dt) + "]]", "[" + q(dt) + "] x", "[" + q(dt[:70]) + "]",
		"[" + q(dt) + "," + q(dt[:70]) + "]", "[" + q("") + "]", "[" + q(`sha256:`+h64) + "]", "[" + q(dt) + `,"` + dt + "]", q(dt),
		"[" + q(dt) + "," + q("sha256:"+strings.ToUpper(h64)) + "]", "[true]", "[" + q(dt) + ",{}]", "[" + q(dt) + ":" + q(dt) + "]"} {
		e.parseCase("CDigestList", []byte(s), "parse-seed")
	}
	for i := 0; i < n/2; i++ {
		k := g.r.Intn(5)
		l := core.DigestList{}
		if k == 0 && g.r.Bool() {
			l = nil
		}
		for j := 0; j < k; j++ {
			l = append(l, g.digest())
		}
		e.printCase("CDigestList", l, "print-random")
	}
	for i := 0; i < n/2; i++ {
		k := g.r.Intn(5)
		bad := -1
		kind := "parse-valid"
		sel := g.r.Intn(10)
		if sel >= 6 && sel < 8 && k > 0 {
			bad = g.r.Intn(k)
			kind = "parse-bad-digest"
		}
		doc := append(g.ws(), '[')
		doc = append(doc, g.ws()...)
		for j := 0; j < k; j++ {
			if j > 0 {
				doc = append(doc, ',')
				doc = append(doc, g.ws()...)
			}
			t := g.digestText()
			if j == bad {
				t = g.mutate(t)
			}
			doc = append(doc, g.jsonString(t, g.r.Chance(15))...)
			doc = append(doc, g.ws()...)
		}
		doc = append(doc, ']')
		doc = append(doc, g.ws()...)
		if sel >= 8 {
			kind = "parse-bad-json"
			// structural damage: drop / replace / insert one structural character
			pos := g.r.Intn(len(doc))
			switch g.r.Intn(3) {
			case 0:
				doc = append(doc[:pos], doc[pos+1:]...)
			case 1:
				doc[pos] = "[],\"x:"[g.r.Intn(6)]
			default:
				doc = append(doc[:pos], append([]byte{"[],\"x:"[g.r.Intn(6)]}, doc[pos:]...)...)
			}
		}
		e.parseCase("CDigestList", doc, kind)
	}

	// ---- CBits ---------------------------------------------------------------------------
	for _, l := range []uint{0, 1, 63, 64, 65, 128} {
		b := bitset.New(l)
		e.printCase("CBits", b, "print-seed")
		if l > 0 {
			c := bitset.New(l)
			c.Set(l - 1)
			c.Set(0)
			e.printCase("CBits", c, "print-seed")
		}
	}
	e.printCase("CBits", &bitset.BitSet{}, "print-zero-value")
	one := be64(1)
	for _, b := range [][]byte{{}, {0}, be64(0)[:7], be64(0), append(be64(0), 1, 2, 3), be64(1), append(be64(1), one[:7]...), append(be64(1), one...),
		append(be64(1), be64(math.MaxUint64)...), append(be64(64), one...), append(be64(65), one...), append(append(be64(65), one...), one...),
		append(append(be64(65), one...), be64(math.MaxUint64)...), append(append(be64(64), one...), 9, 9), append(be64(1<<56), one...),
		append(be64(math.MaxUint64), one...), append(be64(math.MaxUint64-62), one...), append(be64(math.MaxUint64-63), one...),
		append(be64(math.MaxUint64-64), one...), append(be64(1<<63), one...), be64(1 << 60)} {
		e.parseCase("CBits", b, "parse-seed")
	}
	for i := 0; i < n/2; i++ {
		e.printCase("CBits", g.bitset(), "print-random")
	}
	for i := 0; i < n/2; i++ {
		b, _ := g.bitset().MarshalBinary()
		kind := "parse-valid"
		switch k := g.r.Intn(10); {
		case k < 4:
		case k < 5: // trailing bytes
			b = append(b, g.r.Bytes(1+g.r.Intn(9))...)
			kind = "parse-trailing"
		case k < 6: // unused high bits of the last word set
			if len(b) >= 16 {
				b[len(b)-8] |= 0x80
			}
			kind = "parse-unclean"
		case k < 8: // truncated
			b = b[:g.r.Intn(len(b))]
			kind = "parse-truncated"
		case k < 9: // length prefix changed (kept small, or far beyond any allocatable size)
			var l uint64
			if g.r.Bool() {
				l = uint64(g.r.Intn(400))
			} else {
				l = 1<<56 + g.r.U64()>>8 | g.r.U64()<<60
			}
			copy(b, be64(l))
			kind = "parse-length-changed"
		default:
			b = g.r.Bytes(g.r.Intn(8))
			kind = "parse-short"
		}
		e.parseCase("CBits", b, kind)
	}

	// ---- handshake -----------------------------------------------------------------------
	for i := 0; i < n/2; i++ {
		e.hsPrintCase(g.handshake(), "print-random")
	}
	valid := func() *p2p.Message {
		m, err := g.handshake().toP2PMessage()
		if err != nil {
			panic(err)
		}
		return m
	}
	{
		m := valid()
		m.Type = p2p.Message_COMPLETE
		e.hsParseCase(m, "parse-wrong-type")
		e.hsParseCase(&p2p.Message{Type: p2p.Message_BITFIELD}, "parse-no-body")
		m = valid()
		m.Bitfield.Name = "sha256:" + m.Bitfield.Name
		e.hsParseCase(m, "parse-name-with-algo")
		m = valid()
		m.Bitfield.PeerID = strings.ToUpper(m.Bitfield.PeerID)
		m.Bitfield.InfoHash = strings.ToUpper(m.Bitfield.InfoHash)
		m.Bitfield.Name = strings.ToUpper(m.Bitfield.Name)
		e.hsParseCase(m, "parse-uppercase")
		// one peer id spelt twice in the remote bitfields: Go keeps either entry
		m = valid()
		a, _ := bitset.New(3).Set(1).MarshalBinary()
		b, _ := bitset.New(5).Set(4).MarshalBinary()
		m.Bitfield.RemoteBitfieldBytes = map[string][]byte{strings.Repeat("ab", 20): a, strings.Repeat("AB", 20): b}
		e.hsParseCase(m, "parse-duplicate-peer")
	}
	for i := 0; i < n/2; i++ {
		m := valid()
		kind := "parse-valid"
		bf := m.Bitfield
		if bf.RemoteBitfieldBytes == nil {
			bf.RemoteBitfieldBytes = map[string][]byte{}
		}
		switch k := g.r.Intn(14); {
		case k < 5:
		case k == 5:
			bf.PeerID = string(g.mutate([]byte(bf.PeerID)))
			kind = "parse-bad-peer-id"
		case k == 6:
			bf.InfoHash = string(g.mutate([]byte(bf.InfoHash)))
			kind = "parse-bad-info-hash"
		case k == 7:
			bf.Name = string(g.mutate([]byte(bf.Name)))
			kind = "parse-bad-name"
		case k == 8:
			bf.BitfieldBytes = bf.BitfieldBytes[:g.r.Intn(len(bf.BitfieldBytes))]
			kind = "parse-bad-bitfield"
		case k == 9:
			bf.RemoteBitfieldBytes[string(g.mutate(g.hexStr(40, 0)))] = bf.BitfieldBytes
			kind = "parse-bad-remote-key"
		case k == 10:
			bf.RemoteBitfieldBytes[string(g.hexStr(40, 0))] = g.r.Bytes(g.r.Intn(8))
			kind = "parse-bad-remote-bitfield"
		case k == 11:
			bf.RemoteBitfieldBytes[string(g.hexStr(40, g.style()))] = append(append([]byte{}, bf.BitfieldBytes...), g.r.Bytes(g.r.Intn(3))...)
			kind = "parse-extra-remote"
		case k == 12:
			m.Type = p2p.Message_Type(1 + g.r.Intn(6))
			kind = "parse-wrong-type"
		default:
			bf.PeerID = string(g.hexStr(40, g.style()))
			bf.InfoHash = string(g.hexStr(40, g.style()))
			bf.Name = string(g.hexStr(64, g.style()))
			bf.Namespace = string(g.r.Bytes(g.r.Intn(6)))
			kind = "parse-valid-mixed-case"
		}
		e.hsParseCase(m, kind)
	}
}
