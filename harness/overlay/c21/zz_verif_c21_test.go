//go:build verif

package hashring

// C21 driver, compiled into lib/hashring's test binary by build overlay (never exists in
// /repo).  It drives the real ring (New, Refresh, Locations) with a scripted hostlist.List and
// healthcheck.Filter (or the real healthcheck filter with a scripted Checker), reads the
// discovery order the ring actually used (r.hash.Nodes) and passes it to the model as the
// map-iteration oracle, and records the REAL score of every pool address on every shard.

import (
	"context"
	"errors"
	"fmt"
	"math"
	"sort"
	"strings"
	"testing"

	"github.com/uber-go/tally"
	"github.com/uber/kraken/core"
	"github.com/uber/kraken/lib/healthcheck"
	"github.com/uber/kraken/lib/hrw"
	"github.com/uber/kraken/utils/log"
	"github.com/uber/kraken/utils/stringset"
	hlib "github.com/uber/kraken/utils/verifhlib"
	"go.uber.org/zap"
)

func TestVerifC21(t *testing.T) { hlib.MainEnv("C21", c21driver) }

type c21list struct{ cur stringset.Set }

func (l *c21list) Resolve() stringset.Set { return l.cur.Copy() }

// scripted filter: answers what the script says, whatever it is asked
type c21filter struct{ cur stringset.Set }

func (f *c21filter) Run(addrs stringset.Set) stringset.Set { return f.cur.Copy() }

// recording wrapper: what the ring was told by its Filter (the healthy oracle of the model)
type c21recfilter struct {
	inner healthcheck.Filter
	last  stringset.Set
}

func (f *c21recfilter) Run(addrs stringset.Set) stringset.Set {
	h := f.inner.Run(addrs)
	f.last = h.Copy()
	return h
}

type c21checker struct{ fail stringset.Set }

func (c *c21checker) Check(ctx context.Context, addr string) error {
	if c.fail.Has(addr) {
		return errors.New("scripted failure")
	}
	return nil
}

type c21step struct {
	members []int // pool indices
	healthy []int // scripted filter: the answer; real filter: the hosts whose check FAILS this round
}

type c21conf struct {
	maxr   int
	steps  []c21step
	forced []int // non-nil: after the history, permute r.hash.Nodes into this order
	real   bool  // use healthcheck.NewFilter with a scripted checker
	fails  int
	passes int
	kind   string
}

// recorded history as the model receives it
type c21rec struct {
	order   []int // members in the order of r.hash.Nodes after the step
	healthy []int
}

func c21code(f float64) (uint64, bool) {
	if f != f {
		return 0, true
	}
	if f == 0 {
		f = 0
	}
	b := math.Float64bits(f)
	if b>>63 == 1 {
		return ^b, false
	}
	return b | 1<<63, false
}

func c21digits(ids []int) string {
	if len(ids) == 0 {
		return "0"
	}
	var sb strings.Builder
	sb.WriteString("0x")
	for _, i := range ids {
		if i < 0 || i > 14 {
			sb.WriteByte('0')
			continue
		}
		sb.WriteByte("123456789abcdef"[i])
	}
	return sb.String()
}

func c21set(pool []string, ids []int) stringset.Set {
	s := stringset.New()
	for _, i := range ids {
		s.Add(pool[i])
	}
	return s
}

func c21ids(id map[string]int, s stringset.Set) []int {
	var out []int
	for a := range s {
		v, ok := id[a]
		if !ok {
			v = -1
		}
		out = append(out, v)
	}
	sort.Ints(out)
	return out
}

// c21order returns the scripted members in the order of the ring's hash nodes (the discovery
// order the implementation used, an oracle for the model).  The MEMBER SET always comes from the
// script: if the ring's nodes are not exactly the scripted members (a stale or missing hash)
// the members are reported in ascending order and the model, which rebuilds, will disagree.
func c21order(id map[string]int, r *ring, members []int) []int {
	want := append([]int{}, members...)
	sort.Ints(want)
	if r.hash == nil {
		return want
	}
	out := make([]int, len(r.hash.Nodes))
	for i, n := range r.hash.Nodes {
		v, ok := id[n.Label]
		if !ok {
			v = -1
		}
		out[i] = v
	}
	got := append([]int{}, out...)
	sort.Ints(got)
	if len(got) != len(want) {
		return want
	}
	for i := range got {
		if got[i] != want[i] {
			return want
		}
	}
	return out
}

// c21build runs one configuration on the real ring and returns it with the recorded history.
func c21build(pool []string, id map[string]int, cf c21conf) (*ring, []c21rec) {
	list := &c21list{}
	var filter healthcheck.Filter
	sf := &c21filter{}
	ck := &c21checker{}
	if cf.real {
		filter = healthcheck.NewFilter(healthcheck.FilterConfig{Fails: cf.fails, Passes: cf.passes}, ck)
	} else {
		filter = sf
	}
	rec := &c21recfilter{inner: filter}
	filter = rec
	var r *ring
	var recs []c21rec
	for i, st := range cf.steps {
		list.cur = c21set(pool, st.members)
		sf.cur = c21set(pool, st.healthy)
		ck.fail = c21set(pool, st.healthy)
		if i == 0 {
			r = New(Config{MaxReplica: cf.maxr}, list, filter, tally.NoopScope).(*ring)
		} else {
			r.Refresh()
		}
		recs = append(recs, c21rec{order: c21order(id, r, st.members), healthy: c21ids(id, rec.last)})
	}
	if cf.forced != nil && r.hash != nil && len(cf.forced) == len(r.hash.Nodes) {
		// another discovery order of the same membership: permute the ring's own nodes
		by := map[int]*hrw.RendezvousHashNode{}
		for _, n := range r.hash.Nodes {
			by[id[n.Label]] = n
		}
		nodes := make([]*hrw.RendezvousHashNode, 0, len(cf.forced))
		for _, i := range cf.forced {
			nodes = append(nodes, by[i])
		}
		r.hash.Nodes = nodes
		// the model sees a ring that discovered the hosts in this order from the start
		last := recs[len(recs)-1]
		recs = []c21rec{{order: c21order(id, r, cf.steps[len(cf.steps)-1].members), healthy: last.healthy}}
	}
	return r, recs
}

func c21loc(r *ring, d core.Digest) (locs []string, panicked bool) {
	defer func() {
		if e := recover(); e != nil {
			panicked = true
		}
	}()
	return r.Locations(d), false
}

type c21stats struct{ shards, obs, tied, nonwf int }

func c21case(ctx *hlib.Ctx, rng *hlib.Rng, pool []string, confs []c21conf, shards []string, kind string, st *c21stats) {
	id := map[string]int{}
	for i, a := range pool {
		id[a] = i
	}
	rings := make([]*ring, len(confs))
	recs := make([][]c21rec, len(confs))
	var ref *ring
	for i, cf := range confs {
		rings[i], recs[i] = c21build(pool, id, cf)
		if ref == nil && rings[i].hash != nil && len(rings[i].hash.Nodes) > 0 {
			ref = rings[i]
		}
	}
	var hist []string
	var sconfs []string
	wf := make([]bool, len(confs))
	for i, cf := range confs {
		var ss []string
		ok := true
		for _, rc := range recs[i] {
			ss = append(ss, hlib.Pair(c21digits(rc.order), c21digits(rc.healthy)))
			if len(rc.order) == 0 {
				ok = false
			}
			in := map[int]bool{}
			for _, m := range rc.order {
				in[m] = true
			}
			for _, h := range rc.healthy {
				if !in[h] {
					ok = false
				}
			}
		}
		wf[i] = ok
		if !ok {
			st.nonwf++
		}
		sconfs = append(sconfs, fmt.Sprintf("mkc %s%%Z %s", hlib.Z(int64(cf.maxr)), hlib.List(ss)))
		hist = append(hist, cf.kind)
	}
	nt := false
	var sshards []string
	for _, sh := range shards {
		st.shards++
		hex := sh + fmt.Sprintf("%x", rng.Bytes(30))
		d, err := core.NewSHA256DigestFromHex(hex)
		if err != nil {
			panic(err)
		}
		codes := make([]uint64, len(pool))
		scs := make([]string, len(pool))
		for i, a := range pool {
			if ref != nil {
				n := &hrw.RendezvousHashNode{RHash: ref.hash, Label: a, Weight: ref.hash.Nodes[0].Weight}
				c, _ := c21code(n.Score(d.ShardID()))
				codes[i] = c
			}
			scs[i] = fmt.Sprintf("0x%x", codes[i])
		}
		var obs []string
		for i := range confs {
			st.obs++
			last := recs[i][len(recs[i])-1]
			tied := false
			for a := range last.order {
				for b := a + 1; b < len(last.order); b++ {
					x, y := last.order[a], last.order[b]
					if x >= 0 && y >= 0 && codes[x] == codes[y] {
						tied = true
					}
				}
			}
			if tied {
				st.tied++
			} else if wf[i] && len(last.order) >= 2 {
				nt = true
			}
			locs, panicked := c21loc(rings[i], d)
			if panicked {
				obs = append(obs, "2")
				continue
			}
			ids := make([]int, len(locs))
			for j, a := range locs {
				v, ok := id[a]
				if !ok {
					v = -1
				}
				ids[j] = v
			}
			if len(ids) == 0 {
				obs = append(obs, "1")
			} else {
				obs = append(obs, c21digits(ids)+"1")
			}
		}
		sshards = append(sshards, fmt.Sprintf("mksh %s %s", hlib.List(scs), hlib.List(obs)))
	}
	coq := fmt.Sprintf("mkcase %s %s", hlib.List(sconfs), hlib.List(sshards))
	sample := map[string]interface{}{"pool": pool, "configs": sconfs, "shards": shards}
	if len(sshards) > 0 {
		sample["first_shard_term"] = sshards[0]
	}
	ctx.Emit(hlib.Case{Coq: coq, NT: nt, Kind: kind, Hist: hist, Sample: sample,
		Key: strings.Join(pool, ",") + "|" + strings.Join(sconfs, ";") + "|" + strings.Join(shards, ",")})
}

func c21perm(r *hlib.Rng, xs []int) []int {
	out := append([]int{}, xs...)
	for i := len(out) - 1; i > 0; i-- {
		j := r.Intn(i + 1)
		out[i], out[j] = out[j], out[i]
	}
	return out
}

func c21seq(n int) []int {
	out := make([]int, n)
	for i := range out {
		out[i] = i
	}
	return out
}

func c21subset(r *hlib.Rng, xs []int, min int) []int {
	for {
		var out []int
		for _, x := range xs {
			if r.Bool() {
				out = append(out, x)
			}
		}
		if len(out) >= min {
			return out
		}
	}
}

func c21pool(r *hlib.Rng, p int) []string {
	pool := make([]string, p)
	style := r.Intn(2)
	for i := range pool {
		if style == 0 {
			pool[i] = fmt.Sprintf("origin%02d-%d.example.com:%d", i, r.Intn(1000), 15002)
		} else {
			pool[i] = fmt.Sprintf("10.%d.%d.%d:%d", r.Intn(256), r.Intn(256), i+1, 80+r.Intn(2))
		}
	}
	return pool
}

// every permutation of xs
func c21perms(xs []int) [][]int {
	if len(xs) <= 1 {
		return [][]int{append([]int{}, xs...)}
	}
	var out [][]int
	for i := range xs {
		rest := append(append([]int{}, xs[:i]...), xs[i+1:]...)
		for _, p := range c21perms(rest) {
			out = append(out, append([]int{xs[i]}, p...))
		}
	}
	return out
}

// variants of one (members, healthy, maxr): different histories and discovery orders that end
// in the same membership and health
func c21variants(r *hlib.Rng, p int, members, healthy []int, maxr int, nvar int) []c21conf {
	var out []c21conf
	final := c21step{members, healthy}
	out = append(out, c21conf{maxr: maxr, steps: []c21step{final}, kind: "new"})
	for len(out) < nvar {
		switch r.Intn(4) {
		case 0: // forced discovery order
			out = append(out, c21conf{maxr: maxr, steps: []c21step{final}, forced: c21perm(r, members), kind: "forced-order"})
		case 1: // hosts joined / left before: the hash was rebuilt at some point, or kept
			var steps []c21step
			for k := r.Range(1, 3); k > 0; k-- {
				m := c21subset(r, c21seq(p), 1)
				steps = append(steps, c21step{m, c21subset(r, m, 0)})
			}
			steps = append(steps, final)
			out = append(out, c21conf{maxr: maxr, steps: steps, kind: "history-join-leave"})
		case 2: // same membership throughout, health changes: the hash is kept (ring.go:208)
			steps := []c21step{{members, c21subset(r, members, 0)}, {members, c21subset(r, members, 0)}, final}
			out = append(out, c21conf{maxr: maxr, steps: steps, kind: "history-health-only"})
		default: // a second process that discovered the same final state directly
			out = append(out, c21conf{maxr: maxr, steps: []c21step{{c21perm(r, members), healthy}}, kind: "new"})
		}
	}
	return out
}

func c21driver(ctx *hlib.Ctx) {
	log.SetGlobalLogger(zap.NewNop().Sugar())
	r := hlib.NewRng(ctx.Seed)
	st := &c21stats{}
	thorough := ctx.Tier == "thorough"

	// ---- hand-written seeds ----
	abc := []string{"a:80", "b:80", "c:80"}
	sh8 := []string{"0000", "ffff", "abcd", "ABCD", "1234", "8000", "7fff", "00ff"}
	{
		var cs []c21conf
		for _, m := range []int{0, 1, 2, 3, 4, -1, 100} { // 0 -> default 3
			cs = append(cs, c21conf{maxr: m, steps: []c21step{{[]int{0, 1, 2}, []int{0, 1, 2}}}, kind: "new"})
		}
		c21case(ctx, r, abc, cs, sh8, "seed-all-healthy-maxreplica-range", st)
	}
	{
		var cs []c21conf
		for _, h := range [][]int{{}, {0}, {1}, {2}, {0, 1}, {1, 2}, {0, 2}} {
			cs = append(cs, c21conf{maxr: 1, steps: []c21step{{[]int{0, 1, 2}, h}}, kind: "new"})
			cs = append(cs, c21conf{maxr: 2, steps: []c21step{{[]int{0, 1, 2}, h}}, kind: "new"})
		}
		c21case(ctx, r, abc, cs, sh8, "seed-health-subsets", st)
	}
	{
		// every discovery order of three hosts
		var cs []c21conf
		for _, p := range c21perms([]int{0, 1, 2}) {
			cs = append(cs, c21conf{maxr: 2, steps: []c21step{{[]int{0, 1, 2}, []int{0, 2}}}, forced: p, kind: "forced-order"})
		}
		c21case(ctx, r, abc, cs, sh8, "seed-all-discovery-orders", st)
	}
	c21case(ctx, r, []string{"only:80"}, []c21conf{
		{maxr: 0, steps: []c21step{{[]int{0}, []int{0}}}, kind: "new"},
		{maxr: 0, steps: []c21step{{[]int{0}, []int{}}}, kind: "new"},
		{maxr: 0, steps: []c21step{{[]int{0}, []int{0}}}, real: true, fails: 1, passes: 1, kind: "real-filter"},
	}, sh8, "seed-single-host", st)
	// C21_empty_membership_note: Locations panics when the host list resolved to nothing
	c21case(ctx, r, abc, []c21conf{
		{maxr: 0, steps: []c21step{{[]int{}, []int{}}}, kind: "empty-membership"},
		{maxr: 0, steps: []c21step{{[]int{0, 1}, []int{0}}, {[]int{}, []int{}}}, kind: "empty-membership"},
	}, sh8[:2], "seed-empty-membership", st)
	// C21_foreign_healthy_note: a filter that answers with a non-member makes Locations return nothing
	c21case(ctx, r, abc, []c21conf{
		{maxr: 0, steps: []c21step{{[]int{0, 1}, []int{2}}}, kind: "foreign-healthy"},
	}, sh8[:2], "seed-foreign-healthy", st)
	{
		// the real healthcheck filter: hosts fail, leave, rejoin
		cs := []c21conf{
			{maxr: 2, real: true, fails: 1, passes: 1, kind: "real-filter",
				steps: []c21step{{[]int{0, 1, 2}, []int{}}, {[]int{0, 1, 2}, []int{1}}, {[]int{0, 1, 2}, []int{1, 2}}}},
			{maxr: 2, real: true, fails: 2, passes: 1, kind: "real-filter",
				steps: []c21step{{[]int{0, 1, 2}, []int{0}}, {[]int{0, 1, 2}, []int{0}}, {[]int{1, 2}, []int{}}, {[]int{0, 1, 2}, []int{}}}},
			{maxr: 3, real: true, fails: 1, passes: 2, kind: "real-filter",
				steps: []c21step{{[]int{0, 1, 2}, []int{0, 1, 2}}, {[]int{0, 1, 2}, []int{0, 1, 2}}}},
		}
		c21case(ctx, r, abc, cs, sh8, "seed-real-filter", st)
	}

	// ---- generated blocks ----
	B, nbase, nvar := 32, 3, 4
	stride := 32
	if thorough {
		B, nbase, nvar, stride = 128, 5, 4, 1
	}
	off := int(r.U64() % 65536)
	next := 0
	for i := 0; i < ctx.N; i++ {
		rr := r.Fork()
		p := rr.Range(1, 8)
		if rr.Chance(5) {
			p = rr.Range(9, 14)
		}
		pool := c21pool(rr, p)
		var confs []c21conf
		for b := 0; b < nbase; b++ {
			members := c21subset(rr, c21seq(p), 1)
			if rr.Chance(40) {
				members = c21seq(p)
			}
			var healthy []int
			switch h := rr.Intn(10); {
			case h < 3:
				healthy = append([]int{}, members...)
			case h < 4:
				healthy = []int{}
			case h < 6:
				healthy = []int{members[rr.Intn(len(members))]}
			default:
				healthy = c21subset(rr, members, 0)
			}
			maxr := []int{0, 1, 2, 3, 4, 1, 2, 3, -1, 100}[rr.Intn(10)]
			confs = append(confs, c21variants(rr, p, members, healthy, maxr, nvar)...)
		}
		// one configuration per block goes through the real healthcheck filter
		{
			members := c21seq(p)
			var steps []c21step
			for k := rr.Range(1, 4); k > 0; k-- {
				steps = append(steps, c21step{members, c21subset(rr, members, 0)})
			}
			confs = append(confs, c21conf{maxr: rr.Range(1, 3), steps: steps, real: true,
				fails: rr.Range(1, 2), passes: rr.Range(1, 2), kind: "real-filter"})
		}
		var shards []string
		for j := 0; j < B; j++ {
			s := fmt.Sprintf("%04x", (off+next*stride)%65536)
			if rr.Chance(3) {
				s = strings.ToUpper(s)
			}
			shards = append(shards, s)
			next++
		}
		c21case(ctx, rr, pool, confs, shards, "shard-block", st)
	}
	fmt.Printf("C21 driver: %d shards, %d (configuration, shard) observations; %d with tied scores among members; %d configurations outside the contract (empty membership / foreign healthy)\n",
		st.shards, st.obs, st.tied, st.nonwf)
}
