//go:build verif

package dedup_test

// Driver for property C29 (request deduplication runs at most one execution per key).
//
// The real Limiter, RequestCache and IntervalTrap (mock clock) and the real blobrefresh.Refresher
// (real clock, default configuration) are driven through schedules of driver-level operations.
// Every caller is a goroutine; an operation lets exactly one goroutine proceed (from the
// verifYield point of Limiter.Run, from a driver-controlled TaskRunner / Request / backend
// download, or by advancing the mock clock) and then waits until the system is quiet again:
// a stop-the-world goroutine dump shows every goroutine that has a frame of the packages under
// test blocked.  What each caller is then doing (parked at the yield point, inside the runner,
// blocked inside the code under test, returned with which result) is the observation; the Coq
// model replays the same operations expanded into the code's lock regions.
//
// Nothing here looks into the structures under test: apart from the yield hook the driver uses
// the public API only.

import (
	"bytes"
	"errors"
	"fmt"
	"io"
	"os"
	"runtime"
	"strconv"
	"strings"
	"sync"
	"sync/atomic"
	"testing"
	"time"

	"github.com/andres-erbsen/clock"
	"github.com/uber-go/tally"

	"github.com/uber/kraken/core"
	"github.com/uber/kraken/lib/backend"
	"github.com/uber/kraken/lib/backend/backenderrors"
	"github.com/uber/kraken/lib/blobrefresh"
	"github.com/uber/kraken/lib/metainfogen"
	"github.com/uber/kraken/lib/store"
	"github.com/uber/kraken/utils/dedup"
	"github.com/uber/kraken/utils/verifhlib"
)

func TestVerifC29(t *testing.T) { verifhlib.MainEnv("C29", c29driver) }

// ---------------------------------------------------------------------------------------------
// goroutine bookkeeping and quiescence
// ---------------------------------------------------------------------------------------------

func c29gid() int64 {
	var buf [64]byte
	n := runtime.Stack(buf[:], false)
	s := buf[:n]
	if !bytes.HasPrefix(s, []byte("goroutine ")) {
		return -1
	}
	s = s[len("goroutine "):]
	i := bytes.IndexByte(s, ' ')
	if i < 0 {
		return -1
	}
	id, _ := strconv.ParseInt(string(s[:i]), 10, 64)
	return id
}

var c29markers = [][]byte{[]byte("kraken/utils/dedup"), []byte("kraken/lib/blobrefresh")}

var c29dump = make([]byte, 1<<20)

// c29quietNow: in one consistent (stop-the-world) snapshot, is every goroutine other than the
// caller unable to continue by itself?  A goroutine with a frame of the packages under test must be
// waiting for another goroutine (channel, select, sync primitive): anything else - running,
// runnable, syscall, IO wait, sleep, GC assist wait ... - can go on without the driver.  Any other
// goroutine must not be running or runnable (it could be about to release a lock one of ours needs).
func c29quietNow(self int64) bool {
	var n int
	for {
		n = runtime.Stack(c29dump, true)
		if n < len(c29dump) {
			break
		}
		c29dump = make([]byte, 2*len(c29dump))
	}
	for _, blk := range bytes.Split(c29dump[:n], []byte("\n\n")) {
		if !bytes.HasPrefix(blk, []byte("goroutine ")) {
			continue
		}
		hdrEnd := bytes.IndexByte(blk, '\n')
		if hdrEnd < 0 {
			hdrEnd = len(blk)
		}
		hdr := blk[len("goroutine "):hdrEnd]
		sp := bytes.IndexByte(hdr, ' ')
		if sp < 0 {
			continue
		}
		id, _ := strconv.ParseInt(string(hdr[:sp]), 10, 64)
		if id == self {
			continue
		}
		lb := bytes.IndexByte(hdr, '[')
		rb := bytes.IndexAny(hdr, ",]")
		if lb < 0 || rb < lb {
			return false
		}
		st := string(hdr[lb+1 : rb])
		mine := false
		for _, m := range c29markers {
			if bytes.Contains(blk, m) {
				mine = true
				break
			}
		}
		if !mine {
			if st == "running" || st == "runnable" {
				return false
			}
			continue
		}
		if !(strings.HasPrefix(st, "chan ") || strings.HasPrefix(st, "select") ||
			strings.HasPrefix(st, "sync.") || strings.HasPrefix(st, "semacquire")) {
			return false
		}
	}
	return true
}

// c29waitQuiet polls until two consecutive snapshots are quiet; false after 20 s (the case is then
// inconclusive, never a verdict).
func c29waitQuiet() bool {
	self := c29gid()
	deadline := time.Now().Add(20 * time.Second)
	for i := 0; ; i++ {
		if c29quietNow(self) {
			runtime.Gosched()
			if c29quietNow(self) {
				return true
			}
		}
		if i < 50 {
			runtime.Gosched()
		} else {
			time.Sleep(20 * time.Microsecond)
			if i%256 == 0 && time.Now().After(deadline) {
				return false
			}
		}
	}
}

type c29reg struct {
	mu  sync.Mutex
	byG map[int64]int
}

func (r *c29reg) set(c int) {
	g := c29gid()
	r.mu.Lock()
	r.byG[g] = c
	r.mu.Unlock()
}

func (r *c29reg) cur() int {
	g := c29gid()
	r.mu.Lock()
	defer r.mu.Unlock()
	if c, ok := r.byG[g]; ok {
		return c
	}
	return -1
}

const c29sec = int64(time.Second)

// ---------------------------------------------------------------------------------------------
// Limiter
// ---------------------------------------------------------------------------------------------

type c29lop struct {
	k       int   // 0 tick 1 begin 2 enter 3 finish
	c, a, b int   // begin: a=key; finish: a=out
	dt      int64 // tick: dt; finish: ttl
}

func (o c29lop) coq() string {
	switch o.k {
	case 0:
		return fmt.Sprintf("MTick %d", o.dt)
	case 1:
		return fmt.Sprintf("MBegin %d %d", o.c, o.a)
	case 2:
		return fmt.Sprintf("MEnter %d", o.c)
	}
	return fmt.Sprintf("MFinish %d %d %d", o.c, o.a, o.dt)
}

// enc is the compact form read by Run/C29_run.v (dec_lop)
func (o c29lop) enc() string {
	switch o.k {
	case 0:
		return strconv.FormatInt(4*o.dt, 10)
	case 1:
		return strconv.FormatInt(int64(1+4*(o.c+16*o.a)), 10)
	case 2:
		return strconv.FormatInt(int64(2+4*o.c), 10)
	}
	return strconv.FormatInt(3+4*(int64(o.c)+16*(int64(o.a)+256*o.dt)), 10)
}

func (o c29lop) kind() string { return [...]string{"LTick", "LBegin", "LEnter", "LFinish"}[o.k] }

const (
	lsIdle int32 = iota
	lsActive
	lsHook
	lsRunner
	lsDone
)

type c29res struct {
	out int
	ttl time.Duration
}

type c29lthread struct {
	st     int32
	runKey int
	out    int
	hook   chan struct{}
	fin    chan c29res
}

type c29lim struct {
	reg c29reg
	clk *clock.Mock
	lim *dedup.Limiter
	th  []*c29lthread
}

// Run is the TaskRunner: it parks the calling goroutine until the driver finishes the execution.
func (s *c29lim) Run(input interface{}) (interface{}, time.Duration) {
	c := s.reg.cur()
	if c < 0 {
		select {} // an execution the driver cannot attribute: never finishes (shows as a mismatch)
	}
	th := s.th[c]
	th.runKey, _ = input.(int)
	atomic.StoreInt32(&th.st, lsRunner)
	r := <-th.fin
	atomic.StoreInt32(&th.st, lsActive)
	return r.out, r.ttl
}

func c29newLim(n int) *c29lim {
	s := &c29lim{clk: clock.NewMock()}
	s.reg.byG = map[int64]int{}
	for i := 0; i < n; i++ {
		s.th = append(s.th, &c29lthread{hook: make(chan struct{}), fin: make(chan c29res)})
	}
	s.lim = dedup.NewLimiter(s.clk, s)
	dedup.VerifSetYieldHook(func(point string) {
		if point != "limiter.before_get_output" {
			return
		}
		c := s.reg.cur()
		if c < 0 {
			return
		}
		th := s.th[c]
		atomic.StoreInt32(&th.st, lsHook)
		<-th.hook
		atomic.StoreInt32(&th.st, lsActive)
	})
	return s
}

// apply executes one operation (a no-op when it is not enabled) and waits for quiescence.
func (s *c29lim) apply(o c29lop) bool {
	switch o.k {
	case 0:
		s.clk.Add(time.Duration(o.dt))
	case 1:
		th := s.th[o.c]
		if st := atomic.LoadInt32(&th.st); st != lsIdle && st != lsDone {
			return true
		}
		atomic.StoreInt32(&th.st, lsActive)
		c, key := o.c, o.a
		go func() {
			s.reg.set(c)
			v := s.lim.Run(key)
			th.out = 0
			if i, ok := v.(int); ok {
				th.out = i
			}
			atomic.StoreInt32(&th.st, lsDone)
		}()
	case 2:
		th := s.th[o.c]
		if atomic.LoadInt32(&th.st) != lsHook {
			return true
		}
		th.hook <- struct{}{}
	case 3:
		th := s.th[o.c]
		if atomic.LoadInt32(&th.st) != lsRunner {
			return true
		}
		th.fin <- c29res{o.a, time.Duration(o.dt)}
	}
	return c29waitQuiet()
}

func (s *c29lim) snap() ([]int32, string, string) {
	var sts []int32
	var xs []string
	code, mul := uint64(0), uint64(1)
	for _, th := range s.th {
		st := atomic.LoadInt32(&th.st)
		sts = append(sts, st)
		var c uint64
		switch st {
		case lsIdle:
			xs = append(xs, "SIdle")
			c = 0
		case lsHook:
			xs = append(xs, "SHook")
			c = 4
		case lsRunner:
			xs = append(xs, fmt.Sprintf("SRun %d", th.runKey))
			c = uint64(4*(th.runKey&63) + 1)
		case lsDone:
			xs = append(xs, fmt.Sprintf("SDone %d", th.out))
			c = uint64(4*(th.out&63) + 2)
		default:
			xs = append(xs, "SWait")
			c = 8
		}
		code += c * mul
		mul *= 256
	}
	return sts, verifhlib.List(xs), strconv.FormatUint(code, 10)
}

// c29limCase runs a schedule; `next` is asked for the following operation given what every
// thread is doing (nil: stop); a drain follows so that every caller returns.
type c29limOut struct {
	ops    []c29lop
	obs    []string // readable
	enc    []string // compact
	starts int
	begins int
	twoRun bool
	incon  bool
}

func c29limRun(n int, next func(step int, sts []int32, keys []int) *c29lop) c29limOut {
	s := c29newLim(n)
	defer dedup.VerifSetYieldHook(nil)
	var res c29limOut
	sts, _, _ := s.snap()
	outCtr := 0
	do := func(o c29lop) bool {
		before := sts
		if !s.apply(o) {
			res.incon = true
			return false
		}
		var so, se string
		sts, so, se = s.snap()
		res.ops = append(res.ops, o)
		res.obs = append(res.obs, so)
		res.enc = append(res.enc, se)
		if o.k == 1 {
			res.begins++
		}
		running := map[int]int{}
		for i, st := range sts {
			if st == lsRunner {
				running[s.th[i].runKey]++
				if before[i] != lsRunner {
					res.starts++
				}
			}
		}
		for _, v := range running {
			if v > 1 {
				res.twoRun = true
			}
		}
		return true
	}
	keys := func() []int {
		ks := make([]int, n)
		for i, th := range s.th {
			ks[i] = th.runKey
		}
		return ks
	}
	for step := 0; ; step++ {
		o := next(step, sts, keys())
		if o == nil {
			break
		}
		if o.k == 3 && o.a == 0 {
			outCtr++
			o.a = outCtr
		}
		if !do(*o) {
			return res
		}
	}
	// drain: let every parked caller through and finish every execution
	for round := 0; round < 6*n+6; round++ {
		acted := false
		for c, st := range sts {
			if st == lsHook {
				if !do(c29lop{k: 2, c: c}) {
					return res
				}
				acted = true
				break
			}
		}
		if acted {
			continue
		}
		for c, st := range sts {
			if st == lsRunner {
				outCtr++
				if !do(c29lop{k: 3, c: c, a: outCtr, dt: 0}) {
					return res
				}
				acted = true
				break
			}
		}
		if !acted {
			break
		}
	}
	return res
}

func c29limEmit(ctx *verifhlib.Ctx, n int, r c29limOut, kind string) {
	var ops, eops, hist []string
	for _, o := range r.ops {
		ops = append(ops, o.coq())
		eops = append(eops, o.enc())
		hist = append(hist, o.kind())
	}
	coq := fmt.Sprintf("CLim %d %s %s", n, verifhlib.List(eops), verifhlib.List(r.enc))
	var tags []string
	if r.twoRun {
		tags = append(tags, "two-executions-in-flight")
	}
	ctx.Emit(verifhlib.Case{Coq: coq, NT: r.starts >= 1 && r.begins >= 2, Kind: kind, Hist: hist, Tags: tags, Incon: r.incon,
		Sample: map[string]interface{}{"threads": n, "ops": ops, "obs": r.obs}})
}

func c29script(ops []c29lop) func(int, []int32, []int) *c29lop {
	return func(step int, _ []int32, _ []int) *c29lop {
		if step >= len(ops) {
			return nil
		}
		o := ops[step]
		return &o
	}
}

var c29gcI = int64(dedup.TaskGCInterval)

func c29limSeeds(ctx *verifhlib.Ctx) {
	T := func(dt int64) c29lop { return c29lop{k: 0, dt: dt} }
	B := func(c, k int) c29lop { return c29lop{k: 1, c: c, a: k} }
	E := func(c int) c29lop { return c29lop{k: 2, c: c} }
	F := func(c, out int, ttl int64) c29lop { return c29lop{k: 3, c: c, a: out, dt: ttl} }
	seeds := []struct {
		name string
		n    int
		ops  []c29lop
	}{
		// the collector race (C29_limiter_gc_race_refuted): 0 holds the fresh task of key 1, the
		// collector (trapped by 1) deletes it, 1 creates a second task and runs, 0 runs as well
		{"seed-gc-race", 2, []c29lop{B(0, 1), T(c29gcI + 1), B(1, 1), E(1), E(0)}},
		// the same with a task that already ran once and expired
		{"seed-gc-race-after-run", 3, []c29lop{B(0, 1), E(0), F(0, 7, 5), B(1, 1), T(c29gcI + 1), B(2, 1), E(2), E(1)}},
		// collection exactly at the interval does not happen, one past it does
		{"seed-gc-boundary", 2, []c29lop{B(0, 1), E(0), F(0, 7, 5), T(c29gcI), B(1, 1), E(1), F(1, 8, 5), T(1), B(0, 1), E(0)}},
		// plain deduplication: second caller waits for the first, third gets the cached output
		{"seed-wait-and-cache", 3, []c29lop{B(0, 1), E(0), B(1, 1), E(1), F(0, 7, 10), B(2, 1), E(2), T(10), B(2, 1), E(2), T(1), B(0, 1), E(0)}},
		// a running task is not collected
		{"seed-gc-spares-running", 2, []c29lop{B(0, 1), E(0), T(c29gcI + 1), B(1, 1), E(1), F(0, 7, 0)}},
		// two keys are independent
		{"seed-two-keys", 2, []c29lop{B(0, 1), B(1, 2), E(0), E(1), F(1, 7, 3), F(0, 8, 3)}},
		// operations that are not enabled are no-ops
		{"seed-disabled-ops", 2, []c29lop{E(0), F(0, 7, 1), B(0, 1), B(0, 2), F(0, 7, 1), E(0), E(0), B(1, 1), F(1, 8, 1)}},
	}
	for _, sd := range seeds {
		r := c29limRun(sd.n, c29script(sd.ops))
		c29limEmit(ctx, sd.n, r, sd.name)
	}
}

var c29ttls = []int64{0, 1, 5, 1000, c29sec, 60 * c29sec, 61 * c29sec}

func c29limRandom(ctx *verifhlib.Ctx, r *verifhlib.Rng, thorough bool) {
	n := r.Range(2, 4)
	nkeys := r.Range(1, 2)
	length := r.Range(4, 14)
	if thorough {
		length = r.Range(4, 24)
	}
	malformed := r.Chance(15)
	lastTTL := int64(5)
	next := func(step int, sts []int32, _ []int) *c29lop {
		if step >= length {
			return nil
		}
		if malformed && r.Chance(30) {
			o := c29lop{k: r.Range(1, 3), c: r.Intn(n), a: r.Range(1, nkeys)}
			if o.k == 3 {
				o.a, o.dt = 0, 3
			}
			return &o
		}
		var cands []c29lop
		for c, st := range sts {
			switch st {
			case lsIdle, lsDone:
				cands = append(cands, c29lop{k: 1, c: c, a: r.Range(1, nkeys)})
			case lsHook:
				cands = append(cands, c29lop{k: 2, c: c}, c29lop{k: 2, c: c})
			case lsRunner:
				ttl := c29ttls[r.Intn(len(c29ttls))]
				cands = append(cands, c29lop{k: 3, c: c, dt: ttl})
			}
		}
		if r.Chance(25) || len(cands) == 0 {
			var dt int64
			switch r.Intn(8) {
			case 0:
				dt = c29gcI
			case 1, 2, 3:
				dt = c29gcI + 1
			case 4:
				dt = lastTTL
			case 5:
				dt = lastTTL + 1
			case 6:
				dt = 1
			default:
				dt = int64(r.Intn(10))
			}
			return &c29lop{k: 0, dt: dt}
		}
		o := cands[r.Intn(len(cands))]
		if o.k == 3 {
			lastTTL = o.dt
		}
		return &o
	}
	res := c29limRun(n, next)
	kind := "lim-random"
	if malformed {
		kind = "lim-random-disabled-ops"
	}
	c29limEmit(ctx, n, res, kind)
}

// every schedule of enabled operations up to the given length over 2 threads / 1 key (plus a
// second key for thread 1), two tick sizes and two ttls
func c29limExhaustive(ctx *verifhlib.Ctx, depth int) {
	alpha := func(sts []int32) []c29lop {
		var as []c29lop
		for c, st := range sts {
			switch st {
			case lsIdle, lsDone:
				as = append(as, c29lop{k: 1, c: c, a: 1})
			case lsHook:
				as = append(as, c29lop{k: 2, c: c})
			case lsRunner:
				as = append(as, c29lop{k: 3, c: c, dt: 0}, c29lop{k: 3, c: c, dt: 5})
			}
		}
		as = append(as, c29lop{k: 0, dt: c29gcI + 1}, c29lop{k: 0, dt: 6})
		return as
	}
	var rec func(prefix []int)
	rec = func(prefix []int) {
		// replay the prefix, choosing by index among the enabled operations
		var last []c29lop
		i := 0
		ok := true
		res := c29limRun(2, func(step int, sts []int32, _ []int) *c29lop {
			as := alpha(sts)
			if step == len(prefix) {
				last = as
				return nil
			}
			if prefix[i] >= len(as) {
				ok = false
				return nil
			}
			o := as[prefix[i]]
			i++
			return &o
		})
		if !ok {
			return
		}
		if len(prefix) > 0 {
			c29limEmit(ctx, 2, res, "lim-exhaustive")
		}
		if len(prefix) == depth {
			return
		}
		for j := range last {
			rec(append(append([]int{}, prefix...), j))
		}
	}
	rec(nil)
}

// ---------------------------------------------------------------------------------------------
// RequestCache (directly, mock clock) and through blobrefresh.Refresher (real clock, defaults)
// ---------------------------------------------------------------------------------------------

type c29rop struct {
	k    int   // 0 tick 1 start 2 finish
	c    int   // thread
	a    int   // start: key; finish: error id (0 = nil)
	dt   int64 // tick
	next int   // finish: blocked thread that obtained the worker (-1 none); filled by the driver
	// k == 3: the request of c fails with error a and is parked inside the not-found matcher (i.e.
	// inside RequestCache.error); meanwhile the racers call Start; then the matcher is released.
	// Emitted as the sequential history Finish c; Start racer1; Start racer2 (the only order the
	// lock region of error() allows). Racer key -1 = the key of the failing request.
	racers [][2]int
	// k == 4: lock convoy. The cache's mutex is held by the driver, the two sub-operations are
	// issued (each blocks at its first lock region), the mutex is released. The outcome must be that
	// of one of the two sequential orders; the order is read off the observation and emitted.
	pair [2]c29sub
}

type c29sub struct {
	start bool // Start(c, a) or Finish(c, error a)
	c, a  int  // start: key -1 = the key of the request the other sub-operation finishes
}

func (o c29rop) coq() string {
	switch o.k {
	case 0:
		return fmt.Sprintf("QTick %d", o.dt)
	case 1:
		return fmt.Sprintf("QStart %d %d", o.c, o.a)
	}
	res := "None"
	if o.a != 0 {
		res = fmt.Sprintf("(Some (%d, %s))", o.a, verifhlib.B(o.a == 1))
	}
	nx := "None"
	if o.next >= 0 {
		nx = fmt.Sprintf("(Some %d)", o.next)
	}
	return fmt.Sprintf("QFinish %d %s %s", o.c, res, nx)
}

// enc is the compact form read by Run/C29_run.v (dec_rop)
func (o c29rop) enc() string {
	switch o.k {
	case 0:
		return strconv.FormatInt(4*o.dt, 10)
	case 1:
		return strconv.FormatInt(int64(1+4*(o.c+16*o.a)), 10)
	}
	res := 0
	if o.a != 0 {
		res = 2 * o.a
		if o.a == 1 {
			res++
		}
	}
	return strconv.FormatInt(int64(2+4*(o.c+16*(res+8*(o.next+1)))), 10)
}

func (o c29rop) kind() string { return [...]string{"RTick", "RStart", "RFinish"}[o.k] }

const (
	rsIdle int32 = iota
	rsInStart
	rsRet
	rsInR
	rsLeaving
)

type c29rthread struct {
	back int32 // 1 once the call of the code under test has returned
	st   int32
	key  int
	ret  string // readable result of Start
	retc uint64 // its compact status code
	fin  chan error
}

// error ids: 1 = the error the not-found matcher recognises, 2.. = other errors
var c29errs = []error{nil, errors.New("c29 not found"), errors.New("c29 error 2"), errors.New("c29 error 3")}

type c29starter interface {
	// start calls the code under test for key k; run must be invoked as the deduplicated request
	start(k int, run func() error) error
	tick(dt int64)
	code(err error) string
	close()
}

// direct: dedup.RequestCache with a mock clock
type c29direct struct {
	clk *clock.Mock
	rc  *dedup.RequestCache
}

func (d *c29direct) start(k int, run func() error) error {
	return d.rc.Start(fmt.Sprintf("key-%d", k), dedup.Request(run))
}
func (d *c29direct) tick(dt int64) { d.clk.Add(time.Duration(dt)) }
func (d *c29direct) close()        {}
func (d *c29direct) code(err error) string {
	switch err {
	case dedup.ErrRequestPending:
		return "RPending"
	case dedup.ErrWorkersBusy:
		return "RBusy"
	}
	for i, e := range c29errs {
		if i > 0 && e == err {
			return fmt.Sprintf("(RErr %d)", i)
		}
	}
	return "(RErr 99)"
}

// through the Refresher: Stat succeeds, the download is the deduplicated request
type c29cand struct {
	run  func() error
	used bool
}

type c29viaRefresher struct {
	r       *blobrefresh.Refresher
	cleanup func()
	blobs   map[int]*core.BlobFixture
	mu      sync.Mutex
	cands   map[string][]*c29cand // digest hex -> request functions of callers inside Refresh
}

type c29backend struct{ v *c29viaRefresher }

func (b *c29backend) Stat(namespace, name string) (*core.BlobInfo, error) {
	for _, f := range b.v.blobs {
		if f.Digest.Hex() == name {
			return core.NewBlobInfo(int64(len(f.Content))), nil
		}
	}
	return nil, backenderrors.ErrBlobNotFound
}
func (b *c29backend) Upload(namespace, name string, src io.Reader) error { return errors.New("unused") }
func (b *c29backend) Download(namespace, name string, dst io.Writer) error {
	// the download belongs to the caller that is inside Refresh for this digest and whose
	// request has not started yet (operations are applied one at a time)
	var c *c29cand
	b.v.mu.Lock()
	for _, x := range b.v.cands[name] {
		if !x.used {
			c = x
		}
	}
	if c != nil {
		c.used = true
	}
	b.v.mu.Unlock()
	if c == nil {
		return errors.New("c29: download nobody asked for")
	}
	if err := c.run(); err != nil {
		return err
	}
	for _, f := range b.v.blobs {
		if f.Digest.Hex() == name {
			_, err := dst.Write(f.Content)
			return err
		}
	}
	return nil
}
func (b *c29backend) List(prefix string, opts ...backend.ListOption) (*backend.ListResult, error) {
	return nil, errors.New("unused")
}
func (b *c29backend) Close() error { return nil }

func c29newViaRefresher() *c29viaRefresher {
	cas, cleanup := store.CAStoreFixture()
	backends := backend.ManagerFixture()
	v := &c29viaRefresher{cleanup: cleanup, blobs: map[int]*core.BlobFixture{}, cands: map[string][]*c29cand{}}
	for k := 1; k <= 3; k++ {
		v.blobs[k] = core.SizedBlobFixture(64, 16)
	}
	if err := backends.Register("c29/.*", &c29backend{v}, false); err != nil {
		panic(err)
	}
	v.r = blobrefresh.New(blobrefresh.Config{}, tally.NoopScope, cas, backends, metainfogen.Fixture(cas, 16))
	return v
}

func (v *c29viaRefresher) start(k int, run func() error) error {
	d := v.blobs[k].Digest
	c := &c29cand{run: run}
	v.mu.Lock()
	v.cands[d.Hex()] = append(v.cands[d.Hex()], c)
	v.mu.Unlock()
	err := v.r.Refresh("c29/ns", d)
	if err != nil {
		v.mu.Lock()
		if !c.used {
			l := v.cands[d.Hex()]
			for i, x := range l {
				if x == c {
					v.cands[d.Hex()] = append(l[:i:i], l[i+1:]...)
					break
				}
			}
		}
		v.mu.Unlock()
	}
	return err
}
func (v *c29viaRefresher) tick(dt int64) {}
func (v *c29viaRefresher) close()        { v.cleanup() }
func (v *c29viaRefresher) code(err error) string {
	switch err {
	case blobrefresh.ErrPending:
		return "RPending"
	case blobrefresh.ErrWorkersBusy:
		return "RBusy"
	case blobrefresh.ErrNotFound: // refresher.go:130 maps the cached backend not-found error
		return "(RErr 1)"
	}
	for i, e := range c29errs {
		if i > 0 && e == err {
			return fmt.Sprintf("(RErr %d)", i)
		}
	}
	return "(RErr 99)"
}

type c29rc struct {
	sys    c29starter
	th     []*c29rthread
	park   int32 // 1: the next matcher call parks
	parked int32 // 1 while a goroutine is parked inside the matcher
	resume chan struct{}
}

// matcher is the ErrorMatcher given to SetNotFound: error id 1 is "not found"; on request it parks
// its caller (the worker goroutine that is recording a failure).
func (s *c29rc) matcher(err error) bool {
	if atomic.CompareAndSwapInt32(&s.park, 1, 0) {
		atomic.StoreInt32(&s.parked, 1)
		<-s.resume
		atomic.StoreInt32(&s.parked, 0)
	}
	return err == c29errs[1]
}

// launch starts thread c calling Start(key) (the caller must have checked that c is free).
func (s *c29rc) launch(c, key int) {
	th := s.th[c]
	th.key = key
	atomic.StoreInt32(&th.back, 0)
	atomic.StoreInt32(&th.st, rsInStart)
	go func() {
		err := s.sys.start(key, func() error {
			atomic.StoreInt32(&th.st, rsInR)
			e := <-th.fin
			atomic.StoreInt32(&th.st, rsLeaving)
			return e
		})
		if err != nil {
			th.ret = s.sys.code(err)
			th.retc = c29retCode(th.ret)
			atomic.StoreInt32(&th.st, rsRet)
		}
		atomic.StoreInt32(&th.back, 1)
	}()
}

func (s *c29rc) free(c int) bool {
	st := atomic.LoadInt32(&s.th[c].st)
	return st == rsIdle || st == rsRet
}

// convoyOK: can o (k == 4) be run as a convoy now?  Otherwise it is skipped.
func (s *c29rc) convoyOK(o *c29rop) bool {
	if _, direct := s.sys.(*c29direct); !direct || o.pair[0].c == o.pair[1].c {
		return false
	}
	for _, t := range s.th {
		if atomic.LoadInt32(&t.st) == rsInStart {
			return false
		}
	}
	for _, p := range o.pair {
		if p.c < 0 || p.c >= len(s.th) {
			return false
		}
		if p.start && !s.free(p.c) {
			return false
		}
		if !p.start && atomic.LoadInt32(&s.th[p.c].st) != rsInR {
			return false
		}
	}
	return o.pair[0].start || o.pair[1].start
}

func (s *c29rc) convoy(o *c29rop) bool {
	d := s.sys.(*c29direct)
	for i := range o.pair {
		if o.pair[i].start && o.pair[i].a < 0 {
			other := o.pair[1-i]
			o.pair[i].a = s.th[other.c].key
			if other.start {
				o.pair[i].a = other.a
			}
		}
	}
	unlock := dedup.VerifRCHoldLock(d.rc)
	for _, p := range o.pair {
		if p.start {
			s.launch(p.c, p.a)
		} else {
			s.th[p.c].fin <- c29errs[p.a]
		}
		if !c29waitQuiet() {
			unlock()
			return false
		}
	}
	unlock()
	if !c29waitQuiet() {
		return false
	}
	for _, p := range o.pair {
		if !p.start && atomic.LoadInt32(&s.th[p.c].st) == rsLeaving {
			atomic.StoreInt32(&s.th[p.c].st, rsIdle)
		}
	}
	return true
}

// raceOK: can o (k == 3) be run as a race now?  Otherwise it degrades to an ordinary Finish.
func (s *c29rc) raceOK(o *c29rop) bool {
	if _, direct := s.sys.(*c29direct); !direct || o.a == 0 || len(o.racers) == 0 {
		return false
	}
	if atomic.LoadInt32(&s.th[o.c].st) != rsInR {
		return false
	}
	for _, t := range s.th {
		if atomic.LoadInt32(&t.st) == rsInStart {
			return false // a start waiting for a worker would race for the freed one
		}
	}
	seen := map[int]bool{o.c: true}
	for _, r := range o.racers {
		if r[0] < 0 || r[0] >= len(s.th) || seen[r[0]] || !s.free(r[0]) {
			return false
		}
		seen[r[0]] = true
	}
	return true
}

// race runs o (k == 3); the racers' keys are resolved in place.
func (s *c29rc) race(o *c29rop) bool {
	th := s.th[o.c]
	for i := range o.racers {
		if o.racers[i][1] < 0 {
			o.racers[i][1] = th.key
		}
	}
	atomic.StoreInt32(&s.park, 1)
	th.fin <- c29errs[o.a]
	if !c29waitQuiet() {
		return false
	}
	for _, r := range o.racers {
		s.launch(r[0], r[1])
		if !c29waitQuiet() {
			return false
		}
	}
	atomic.StoreInt32(&s.park, 0)
	if atomic.LoadInt32(&s.parked) == 1 {
		s.resume <- struct{}{}
	}
	if !c29waitQuiet() {
		return false
	}
	if atomic.LoadInt32(&th.st) == rsLeaving {
		atomic.StoreInt32(&th.st, rsIdle)
	}
	return true
}

// c29retCode: compact status code (dec_rst) of a readable Start result
func c29retCode(ret string) uint64 {
	switch ret {
	case "RPending":
		return 8
	case "RBusy":
		return 12
	}
	var e int
	fmt.Sscanf(ret, "(RErr %d)", &e)
	if e > 63 {
		e = 63
	}
	return uint64(4*e + 1)
}

func (s *c29rc) apply(o *c29rop) bool {
	o.next = -1
	switch o.k {
	case 0:
		s.sys.tick(o.dt)
	case 1:
		th := s.th[o.c]
		if st := atomic.LoadInt32(&th.st); st != rsIdle && st != rsRet {
			return true
		}
		s.launch(o.c, o.a)
	case 2:
		th := s.th[o.c]
		if atomic.LoadInt32(&th.st) != rsInR {
			return true
		}
		var blocked []int
		for i, t := range s.th {
			if atomic.LoadInt32(&t.st) == rsInStart {
				blocked = append(blocked, i)
			}
		}
		e := c29errs[o.a]
		if _, via := s.sys.(*c29viaRefresher); via && o.a == 1 {
			e = backenderrors.ErrBlobNotFound
		}
		th.fin <- e
		if !c29waitQuiet() {
			return false
		}
		if atomic.LoadInt32(&th.st) == rsLeaving {
			atomic.StoreInt32(&th.st, rsIdle) // the worker goroutine has gone
		}
		for _, i := range blocked {
			if atomic.LoadInt32(&s.th[i].st) == rsInR {
				o.next = i
			}
		}
		return true
	}
	if !c29waitQuiet() {
		return false
	}
	if _, via := s.sys.(*c29viaRefresher); via && o.k == 1 {
		// Refresh never blocks (10000 workers; Stat and the store are local): a caller that looks
		// blocked is inside a lock or file operation of the store, so wait for it to return
		deadline := time.Now().Add(20 * time.Second)
		for atomic.LoadInt32(&s.th[o.c].back) == 0 {
			if time.Now().After(deadline) {
				return false
			}
			time.Sleep(50 * time.Microsecond)
		}
		return c29waitQuiet()
	}
	return true
}

func (s *c29rc) snapParts() ([]int32, []string, []uint64) {
	var sts []int32
	var xs []string
	var cs []uint64
	for _, th := range s.th {
		st := atomic.LoadInt32(&th.st)
		sts = append(sts, st)
		var c uint64
		switch st {
		case rsIdle:
			xs = append(xs, "QIdle")
			c = 0
		case rsInStart:
			xs = append(xs, fmt.Sprintf("QBlocked %d", th.key))
			c = uint64(4*(th.key&63) + 2)
		case rsRet:
			xs = append(xs, "QRet "+th.ret)
			c = th.retc
		case rsInR:
			xs = append(xs, fmt.Sprintf("QRun %d", th.key))
			c = uint64(4*(th.key&63) + 3)
		default:
			xs = append(xs, "QTransient")
			c = 4
		}
		cs = append(cs, c)
	}
	return sts, xs, cs
}

func c29joinSnap(xs []string, cs []uint64) (string, string) {
	code, mul := uint64(0), uint64(1)
	for _, c := range cs {
		code += c * mul
		mul *= 256
	}
	return verifhlib.List(xs), strconv.FormatUint(code, 10)
}

func (s *c29rc) snap() ([]int32, string, string) {
	sts, xs, cs := s.snapParts()
	a, b := c29joinSnap(xs, cs)
	return sts, a, b
}

type c29rcfg struct{ nf, er, clean, workers, busy int64 }

func (c c29rcfg) coq() string {
	return fmt.Sprintf("(mkRC %d %d %d %d %d)", c.nf, c.er, c.clean, c.workers, c.busy)
}

type c29rcOut struct {
	ops     []c29rop
	obs     []string
	enc     []string
	runs    int
	starts  int
	races   int
	convoys int
	incon   bool
}

func c29rcRun(cfg c29rcfg, n int, via bool, next func(step int, sts []int32) *c29rop) c29rcOut {
	s := &c29rc{}
	if via {
		s.sys = c29newViaRefresher()
	} else {
		clk := clock.NewMock()
		rc := dedup.NewRequestCache(dedup.RequestCacheConfig{
			NotFoundTTL: time.Duration(cfg.nf), ErrorTTL: time.Duration(cfg.er), CleanupInterval: time.Duration(cfg.clean),
			NumWorkers: int(cfg.workers), BusyTimeout: time.Duration(cfg.busy)}, clk, tally.NoopScope)
		s.resume = make(chan struct{})
		rc.SetNotFound(s.matcher)
		s.sys = &c29direct{clk, rc}
	}
	defer s.sys.close()
	for i := 0; i < n; i++ {
		s.th = append(s.th, &c29rthread{fin: make(chan error)})
	}
	var res c29rcOut
	sts, _, _ := s.snap()
	var do func(o c29rop) bool
	doRace := func(o c29rop) bool {
		before, xs, cs := s.snapParts()
		if !s.race(&o) {
			res.incon = true
			return false
		}
		after, fx, fc := s.snapParts()
		// the sequential history this must be equivalent to, with the snapshots it would show
		xs, cs = append([]string{}, xs...), append([]uint64{}, cs...)
		xs[o.c], cs[o.c] = "QIdle", 0
		emit := func(op c29rop, last bool) {
			if last {
				xs, cs = fx, fc // the real final snapshot: anything unexpected shows here
			}
			so, se := c29joinSnap(xs, cs)
			res.ops = append(res.ops, op)
			res.obs = append(res.obs, so)
			res.enc = append(res.enc, se)
		}
		emit(c29rop{k: 2, c: o.c, a: o.a, next: -1}, false)
		for i, r := range o.racers {
			xs[r[0]], cs[r[0]] = fx[r[0]], fc[r[0]]
			emit(c29rop{k: 1, c: r[0], a: r[1], next: -1}, i == len(o.racers)-1)
			res.starts++
		}
		res.races++
		for i, st := range after {
			if st == rsInR && before[i] != rsInR {
				res.runs++
			}
		}
		sts = after
		return true
	}
	doConvoy := func(o c29rop) bool {
		before, xs, cs := s.snapParts()
		if !s.convoy(&o) {
			res.incon = true
			return false
		}
		after, fx, fc := s.snapParts()
		// which sequential order explains the outcome: a Start that reports "pending" for the key of
		// the other operation came first if the other is a Finish, second if it is a Start; a Start
		// that had to wait for the worker of the Finish came second
		first := 0
		a, b := o.pair[0], o.pair[1]
		pending := func(p c29sub) bool { return fx[p.c] == "QRet RPending" }
		switch {
		case a.start && b.start:
			blocked := func(p c29sub) bool { return strings.HasPrefix(fx[p.c], "QBlocked") }
			switch {
			case pending(a) != pending(b): // the one that found the key taken came second
				if pending(a) {
					first = 1
				}
			case blocked(a) && !blocked(b): // the one that found no worker left came second
				first = 1
			}
		case a.start && !b.start:
			if !pending(a) {
				first = 1
			}
		case !a.start && b.start:
			if pending(b) {
				first = 1
			}
		}
		xs, cs = append([]string{}, xs...), append([]uint64{}, cs...)
		for i, p := range []c29sub{o.pair[first], o.pair[1-first]} {
			op := c29rop{k: 2, c: p.c, a: p.a, next: -1}
			if p.start {
				op.k = 1
				res.starts++
			}
			xs[p.c], cs[p.c] = fx[p.c], fc[p.c]
			if i == 1 {
				xs, cs = fx, fc
			}
			so, se := c29joinSnap(xs, cs)
			res.ops = append(res.ops, op)
			res.obs = append(res.obs, so)
			res.enc = append(res.enc, se)
		}
		res.convoys++
		for i, st := range after {
			if st == rsInR && before[i] != rsInR {
				res.runs++
			}
		}
		sts = after
		return true
	}
	do = func(o c29rop) bool {
		if o.k == 4 {
			if s.convoyOK(&o) {
				return doConvoy(o)
			}
			return true
		}
		if o.k == 3 {
			if s.raceOK(&o) {
				return doRace(o)
			}
			o = c29rop{k: 2, c: o.c, a: o.a}
		}
		before := sts
		if !s.apply(&o) {
			res.incon = true
			return false
		}
		var so, se string
		sts, so, se = s.snap()
		res.ops = append(res.ops, o)
		res.obs = append(res.obs, so)
		res.enc = append(res.enc, se)
		if o.k == 1 {
			res.starts++
		}
		for i, st := range sts {
			if st == rsInR && before[i] != rsInR {
				res.runs++
			}
		}
		return true
	}
	for step := 0; ; step++ {
		o := next(step, sts)
		if o == nil {
			break
		}
		if !do(*o) {
			return res
		}
	}
	// drain: finish every execution (blocked starts then obtain workers or are timed out)
	for round := 0; round < 4*n+4; round++ {
		acted := false
		for c, st := range sts {
			if st == rsInR {
				if !do(c29rop{k: 2, c: c, a: 0}) {
					return res
				}
				acted = true
				break
			}
		}
		if acted {
			continue
		}
		blocked := false
		for _, st := range sts {
			if st == rsInStart {
				blocked = true
			}
		}
		if !blocked || via {
			break
		}
		busy := cfg.busy
		if busy == 0 {
			busy = 5 * c29sec
		}
		if !do(c29rop{k: 0, dt: busy}) {
			return res
		}
	}
	return res
}

func c29rcEmit(ctx *verifhlib.Ctx, cfg c29rcfg, n int, r c29rcOut, kind string) {
	var ops, eops, hist []string
	for _, o := range r.ops {
		ops = append(ops, o.coq())
		eops = append(eops, o.enc())
		hist = append(hist, o.kind())
	}
	coq := fmt.Sprintf("CRc %s %d %s %s", cfg.coq(), n, verifhlib.List(eops), verifhlib.List(r.enc))
	var tags []string
	for i := 0; i < r.races; i++ {
		hist = append(hist, "RStartDuringErrorRecording")
	}
	if r.races > 0 {
		tags = append(tags, "start-during-error-recording")
	}
	for i := 0; i < r.convoys; i++ {
		hist = append(hist, "RLockConvoy")
	}
	if r.convoys > 0 {
		tags = append(tags, "lock-convoy")
	}
	ctx.Emit(verifhlib.Case{Coq: coq, NT: r.runs >= 1 && r.starts >= 2, Kind: kind, Hist: hist, Incon: r.incon, Tags: tags,
		Sample: map[string]interface{}{"config": cfg.coq(), "threads": n, "ops": ops, "obs": r.obs, "starts_during_error_recording": r.races}})
}

func c29rscript(ops []c29rop) func(int, []int32) *c29rop {
	return func(step int, _ []int32) *c29rop {
		if step >= len(ops) {
			return nil
		}
		o := ops[step]
		return &o
	}
}

func c29rcSeeds(ctx *verifhlib.Ctx) {
	T := func(dt int64) c29rop { return c29rop{k: 0, dt: dt} }
	S := func(c, k int) c29rop { return c29rop{k: 1, c: c, a: k} }
	F := func(c, e int) c29rop { return c29rop{k: 2, c: c, a: e} }
	R := func(c, e int, racers ...[2]int) c29rop { return c29rop{k: 3, c: c, a: e, racers: racers} }
	C := func(a, b c29sub) c29rop { return c29rop{k: 4, pair: [2]c29sub{a, b}} }
	cfg := c29rcfg{nf: 20, er: 10, clean: 4, workers: 1, busy: 7}
	seeds := []struct {
		name string
		cfg  c29rcfg
		n    int
		ops  []c29rop
	}{
		{"rc-seed-pending", cfg, 3, []c29rop{S(0, 1), S(1, 1), S(2, 1), F(0, 0), S(1, 1)}},
		// error cached until expiry: still there at ttl, gone one past it
		{"rc-seed-error-ttl", cfg, 3, []c29rop{S(0, 1), F(0, 2), S(1, 1), T(9), S(1, 1), T(1), S(1, 1), T(1), S(1, 1), F(1, 0)}},
		{"rc-seed-notfound-ttl", cfg, 3, []c29rop{S(0, 1), F(0, 1), T(10), S(1, 1), T(10), S(1, 1), T(1), S(1, 1)}},
		// no free worker: the start blocks, times out at BusyTimeout and leaves nothing pending
		{"rc-seed-busy", cfg, 3, []c29rop{S(0, 1), S(1, 2), S(2, 2), T(6), T(1), S(2, 2), T(7), F(0, 0), S(2, 2)}},
		// a blocked start obtains the worker when the running request ends
		{"rc-seed-worker-handoff", cfg, 3, []c29rop{S(0, 1), S(1, 2), T(3), F(0, 3), S(2, 1), F(1, 0)}},
		// cleanup prunes expired errors only
		{"rc-seed-cleanup", cfg, 2, []c29rop{S(0, 1), F(0, 2), S(0, 2), F(0, 1), T(11), S(1, 3), S(0, 2), S(0, 1), F(1, 0)}},
		// failing again replaces the cached error
		{"rc-seed-error-replaced", cfg, 2, []c29rop{S(0, 1), F(0, 2), T(11), S(1, 1), F(1, 3), S(0, 1), T(10), S(0, 1), T(1), S(0, 1)}},
		// default configuration (zero fields)
		{"rc-seed-defaults", c29rcfg{}, 2, []c29rop{S(0, 1), S(1, 1), F(0, 2), S(1, 1), T(15 * c29sec), S(1, 1), T(1), S(1, 1), F(1, 1), T(15 * c29sec), S(0, 1), T(1), S(0, 1)}},
		// a Start of the key while its failure is being recorded (worker parked inside the not-found
		// matcher, i.e. inside error()): it must see the cached error, never a free key
		{"rc-seed-start-during-error", cfg, 3, []c29rop{S(0, 1), R(0, 2, [2]int{1, -1}), S(2, 1), T(10), S(2, 1), T(1), S(2, 1)}},
		{"rc-seed-start-during-notfound", c29rcfg{nf: 20, er: 10, clean: 4, workers: 2, busy: 7}, 4,
			[]c29rop{S(0, 1), S(3, 2), R(0, 1, [2]int{1, -1}, [2]int{2, 2}), S(1, 1), F(3, 3), S(2, 2)}},
		{"rc-seed-two-starts-during-error", c29rcfg{nf: 20, er: 10, clean: 4, workers: 3, busy: 7}, 3,
			[]c29rop{S(0, 2), R(0, 3, [2]int{1, -1}, [2]int{2, -1}), S(0, 2)}},
		// lock convoys: two operations queued behind the cache's mutex; either order is legal
		{"rc-seed-convoy-reserve-reserve", c29rcfg{nf: 20, er: 10, clean: 4, workers: 2, busy: 7}, 3,
			[]c29rop{C(c29sub{true, 0, 1}, c29sub{true, 1, 1}), S(2, 1), C(c29sub{true, 2, 2}, c29sub{true, 1, 2})}},
		{"rc-seed-convoy-release-start", c29rcfg{nf: 20, er: 10, clean: 4, workers: 2, busy: 7}, 3,
			[]c29rop{S(0, 1), C(c29sub{false, 0, 0}, c29sub{true, 1, -1}), S(2, 1)}},
		{"rc-seed-convoy-error-start", c29rcfg{nf: 20, er: 10, clean: 4, workers: 2, busy: 7}, 3,
			[]c29rop{S(0, 1), C(c29sub{true, 1, -1}, c29sub{false, 0, 2}), S(2, 1), T(11), S(2, 1)}},
		{"rc-seed-disabled-ops", cfg, 2, []c29rop{F(0, 2), S(0, 1), S(0, 2), F(1, 0), F(0, 0), F(0, 0)}},
	}
	for _, sd := range seeds {
		r := c29rcRun(sd.cfg, sd.n, false, c29rscript(sd.ops))
		c29rcEmit(ctx, sd.cfg, sd.n, r, sd.name)
	}
}

func c29rcRandom(ctx *verifhlib.Ctx, r *verifhlib.Rng, thorough bool) {
	n := r.Range(2, 4)
	nkeys := r.Range(1, 3)
	cfg := c29rcfg{nf: int64(r.Range(1, 30)), er: int64(r.Range(1, 30)), clean: int64(r.Range(1, 12)),
		workers: int64(r.Range(1, 3)), busy: int64(r.Range(1, 12))}
	if r.Chance(10) {
		cfg.workers = 0 // default
	}
	if r.Chance(5) {
		cfg.clean = 0
	}
	length := r.Range(4, 16)
	if thorough {
		length = r.Range(4, 30)
	}
	malformed := r.Chance(15)
	next := func(step int, sts []int32) *c29rop {
		if step >= length {
			return nil
		}
		if malformed && r.Chance(30) {
			return &c29rop{k: r.Range(1, 2), c: r.Intn(n), a: r.Range(1, nkeys)}
		}
		var cands []c29rop
		for c, st := range sts {
			switch st {
			case rsIdle, rsRet:
				cands = append(cands, c29rop{k: 1, c: c, a: r.Range(1, nkeys)})
			case rsInR:
				e := 0
				if r.Chance(55) {
					e = r.Range(1, 3)
				}
				cands = append(cands, c29rop{k: 2, c: c, a: e})
			}
		}
		if r.Chance(30) || len(cands) == 0 {
			ds := []int64{0, 1, cfg.nf - 1, cfg.nf, cfg.nf + 1, cfg.er - 1, cfg.er, cfg.er + 1, cfg.busy - 1, cfg.busy, cfg.busy + 1, cfg.clean, cfg.clean + 1, int64(r.Intn(8))}
			dt := ds[r.Intn(len(ds))]
			if dt < 0 {
				dt = 0
			}
			return &c29rop{k: 0, dt: dt}
		}
		o := cands[r.Intn(len(cands))]
		if len(cands) >= 2 && r.Chance(15) {
			// lock convoy of two candidate operations on different threads, preferably about one key
			p := cands[r.Intn(len(cands))]
			if p.c != o.c && (p.k == 1 || o.k == 1) {
				sub := func(x c29rop) c29sub { return c29sub{start: x.k == 1, c: x.c, a: x.a} }
				a, b := sub(o), sub(p)
				if a.start && r.Chance(70) {
					a.a = -1
				} else if b.start && r.Chance(70) {
					b.a = -1
				}
				return &c29rop{k: 4, pair: [2]c29sub{a, b}}
			}
		}
		if o.k == 2 && o.a != 0 && r.Chance(45) {
			// let one or two free threads call Start while this failure is being recorded
			var free []int
			for c, st := range sts {
				if st == rsIdle || st == rsRet {
					free = append(free, c)
				}
			}
			if len(free) > 0 {
				i := r.Intn(len(free))
				o.k, o.racers = 3, [][2]int{{free[i], -1}}
				if len(free) > 1 && r.Chance(40) {
					j := (i + 1 + r.Intn(len(free)-1)) % len(free)
					k2 := -1
					if r.Bool() {
						k2 = r.Range(1, nkeys)
					}
					o.racers = append(o.racers, [2]int{free[j], k2})
				}
			}
		}
		return &o
	}
	res := c29rcRun(cfg, n, false, next)
	kind := "rc-random"
	if malformed {
		kind = "rc-random-disabled-ops"
	}
	c29rcEmit(ctx, cfg, n, res, kind)
}

// the Refresher uses the real clock and the default configuration: no ticks, so cached errors
// never expire within a case (15 s) and 10000 workers are never exhausted
func c29refresher(ctx *verifhlib.Ctx, r *verifhlib.Rng, seeds bool) {
	S := func(c, k int) c29rop { return c29rop{k: 1, c: c, a: k} }
	F := func(c, e int) c29rop { return c29rop{k: 2, c: c, a: e} }
	if seeds {
		ops := []c29rop{S(0, 1), S(1, 1), S(2, 2), F(0, 1), S(1, 1), F(2, 2), S(0, 2), S(0, 3), S(1, 3), F(0, 0), S(1, 3)}
		res := c29rcRun(c29rcfg{}, 3, true, c29rscript(ops))
		c29rcEmit(ctx, c29rcfg{}, 3, res, "refresher-seed")
		return
	}
	n := r.Range(2, 3)
	length := r.Range(3, 10)
	next := func(step int, sts []int32) *c29rop {
		if step >= length {
			return nil
		}
		var cands []c29rop
		for c, st := range sts {
			switch st {
			case rsIdle, rsRet:
				cands = append(cands, c29rop{k: 1, c: c, a: r.Range(1, 3)})
			case rsInR:
				e := 0
				if r.Chance(60) {
					e = r.Range(1, 3)
				}
				cands = append(cands, c29rop{k: 2, c: c, a: e})
			}
		}
		if len(cands) == 0 {
			return nil
		}
		o := cands[r.Intn(len(cands))]
		return &o
	}
	res := c29rcRun(c29rcfg{}, n, true, next)
	c29rcEmit(ctx, c29rcfg{}, n, res, "refresher-random")
}

// ---------------------------------------------------------------------------------------------
// IntervalTrap
// ---------------------------------------------------------------------------------------------

type c29task struct {
	clk  *clock.Mock
	runs int
	dt   int64
}

func (t *c29task) Run() {
	t.runs++
	if t.dt > 0 {
		t.clk.Add(time.Duration(t.dt))
	}
}

type c29top struct {
	trap bool
	dt   int64
}

func c29trapCase(ctx *verifhlib.Ctx, iv int64, ops []c29top, kind string) {
	clk := clock.NewMock()
	task := &c29task{clk: clk}
	trap := dedup.NewIntervalTrap(time.Duration(iv), clk, task)
	var sops, sobs, hist []string
	ran := 0
	for _, o := range ops {
		if o.trap {
			task.dt = o.dt
			before := task.runs
			trap.Trap()
			sops = append(sops, fmt.Sprintf("TmTrap 0 %d", o.dt))
			sobs = append(sobs, verifhlib.B(task.runs != before))
			hist = append(hist, "Trap")
			ran += task.runs - before
		} else {
			clk.Add(time.Duration(o.dt))
			sops = append(sops, fmt.Sprintf("TmTick %d", o.dt))
			sobs = append(sobs, "false")
			hist = append(hist, "TTick")
		}
	}
	ctx.Emit(verifhlib.Case{Coq: fmt.Sprintf("CTrap %d %s %s", iv, verifhlib.List(sops), verifhlib.List(sobs)),
		NT: ran >= 1, Kind: kind, Hist: hist, Sample: map[string]interface{}{"interval": iv, "ops": sops, "ran": sobs}})
}

func c29trapSeeds(ctx *verifhlib.Ctx) {
	tk := func(dt int64) c29top { return c29top{false, dt} }
	tr := func(dt int64) c29top { return c29top{true, dt} }
	c29trapCase(ctx, 10, []c29top{tr(0), tk(10), tr(0), tk(1), tr(0), tr(0), tk(10), tr(0), tk(1), tr(0)}, "trap-seed-boundary")
	c29trapCase(ctx, 10, []c29top{tk(11), tr(5), tk(6), tr(0), tk(4), tr(0), tk(1), tr(0)}, "trap-seed-slow-task")
	c29trapCase(ctx, 0, []c29top{tr(0), tk(1), tr(0), tr(0), tk(1), tr(3), tr(0)}, "trap-seed-zero-interval")
}

func c29trapRandom(ctx *verifhlib.Ctx, r *verifhlib.Rng) {
	iv := int64(r.Range(0, 12))
	var ops []c29top
	for i, n := 0, r.Range(3, 20); i < n; i++ {
		if r.Chance(50) {
			dt := int64(0)
			if r.Chance(30) {
				dt = int64(r.Range(1, 15))
			}
			ops = append(ops, c29top{true, dt})
		} else {
			ds := []int64{0, 1, iv - 1, iv, iv + 1, 2 * iv, int64(r.Intn(6))}
			dt := ds[r.Intn(len(ds))]
			if dt < 0 {
				dt = 0
			}
			ops = append(ops, c29top{false, dt})
		}
	}
	c29trapCase(ctx, iv, ops, "trap-random")
}

// ---------------------------------------------------------------------------------------------
// free-running stress (no parking): interleavings finer than the yield point
// ---------------------------------------------------------------------------------------------
//
// Several goroutines call the real code concurrently while another one advances the mock clock
// past ttl / BusyTimeout / the collector's interval; the yield hook only calls runtime.Gosched.
// The schedule is chosen by the Go scheduler and is not reproducible from the seed; what is
// recorded is a definite observation: the largest number of executions of one key that overlapped,
// and whether every accepted start ran exactly once.

type c29gauge struct {
	inflight [8]int32
	max      int32
	runs     int32
}

func (g *c29gauge) enter(k int) {
	n := atomic.AddInt32(&g.inflight[k], 1)
	for {
		m := atomic.LoadInt32(&g.max)
		if n <= m || atomic.CompareAndSwapInt32(&g.max, m, n) {
			break
		}
	}
	atomic.AddInt32(&g.runs, 1)
	runtime.Gosched()
}

func (g *c29gauge) leave(k int) { atomic.AddInt32(&g.inflight[k], -1) }

type c29stressRunner struct{ g c29gauge }

func (s *c29stressRunner) Run(input interface{}) (interface{}, time.Duration) {
	k, _ := input.(int)
	s.g.enter(k)
	s.g.leave(k)
	return k, 0
}

func c29stress(ctx *verifhlib.Ctx, r *verifhlib.Rng, limiter bool) {
	clk := clock.NewMock()
	var clkMu sync.Mutex // clock.Mock.Add is not atomic: concurrent Adds could move the clock backwards
	tick := func(d time.Duration) {
		clkMu.Lock()
		clk.Add(d)
		clkMu.Unlock()
	}
	var wg sync.WaitGroup
	var accepted int32
	g := &c29gauge{}
	workers, calls := 6, 120
	kind := "stress-requestcache"
	if limiter {
		kind = "stress-limiter"
		run := &c29stressRunner{}
		g = &run.g
		lim := dedup.NewLimiter(clk, run)
		dedup.VerifSetYieldHook(func(string) { runtime.Gosched() })
		defer dedup.VerifSetYieldHook(nil)
		for w := 0; w < workers; w++ {
			wg.Add(1)
			seed := r.U64()
			go func() {
				defer wg.Done()
				rr := verifhlib.NewRng(seed)
				for i := 0; i < calls; i++ {
					switch x := rr.Intn(100); {
					case x < 6:
						tick(dedup.TaskGCInterval + 1)
					case x < 12:
						tick(1)
					}
					lim.Run(rr.Range(1, 2))
				}
			}()
		}
	} else {
		rc := dedup.NewRequestCache(dedup.RequestCacheConfig{NotFoundTTL: 3, ErrorTTL: 2, CleanupInterval: 2,
			NumWorkers: 2, BusyTimeout: 2}, clk, tally.NoopScope)
		for w := 0; w < workers; w++ {
			wg.Add(1)
			seed := r.U64()
			go func() {
				defer wg.Done()
				rr := verifhlib.NewRng(seed)
				for i := 0; i < calls; i++ {
					if rr.Chance(10) {
						tick(time.Duration(rr.Range(1, 3)))
					}
					k := rr.Range(1, 3)
					fail := rr.Chance(40)
					err := rc.Start(fmt.Sprintf("key-%d", k), func() error {
						g.enter(k)
						g.leave(k)
						if fail {
							return c29errs[2]
						}
						return nil
					})
					if err == nil {
						atomic.AddInt32(&accepted, 1)
					}
				}
			}()
		}
	}
	// callers blocked waiting for a worker need the clock to move even when all others are blocked too
	stop := make(chan struct{})
	done := make(chan struct{})
	go func() {
		defer close(done)
		for {
			select {
			case <-stop:
				return
			default:
				tick(1)
			}
		}
	}()
	wg.Wait()
	close(stop)
	<-done
	incon := !c29waitQuiet()
	runs := atomic.LoadInt32(&g.runs)
	acc := atomic.LoadInt32(&accepted)
	if limiter {
		acc = runs
	}
	coq := fmt.Sprintf("CStress %d %d %d", atomic.LoadInt32(&g.max), acc, runs)
	ctx.Emit(verifhlib.Case{Coq: coq, NT: runs >= 2, Kind: kind, Key: fmt.Sprintf("%s-%d", coq, r.U64()), Hist: []string{"Stress"}, Incon: incon,
		Sample: map[string]interface{}{"max_overlapping_executions_of_one_key": atomic.LoadInt32(&g.max), "accepted": acc, "executions": runs}})
}

// ---------------------------------------------------------------------------------------------

func c29driver(ctx *verifhlib.Ctx) {
	if ctx.Tmp != "" {
		os.Setenv("TMPDIR", ctx.Tmp) // the CAStore fixture of the Refresher cases creates its directories there
	}
	r := verifhlib.NewRng(ctx.Seed)
	thorough := ctx.Tier == "thorough"
	c29limSeeds(ctx)
	c29rcSeeds(ctx)
	c29trapSeeds(ctx)
	c29refresher(ctx, r, true)
	nstress := 3
	if thorough {
		nstress = 30
		c29limExhaustive(ctx, 6)
	}
	for i := 0; i < nstress; i++ {
		c29stress(ctx, r.Fork(), true)
		c29stress(ctx, r.Fork(), false)
	}
	for i := 0; i < ctx.N; i++ {
		switch x := r.Intn(100); {
		case x < 50:
			c29limRandom(ctx, r.Fork(), thorough)
		case x < 85:
			c29rcRandom(ctx, r.Fork(), thorough)
		case x < 95:
			c29trapRandom(ctx, r.Fork())
		default:
			c29refresher(ctx, r.Fork(), false)
		}
	}
}
