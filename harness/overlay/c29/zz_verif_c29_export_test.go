//go:build verif

package dedup

// In-package part of the C29 driver: the only unexported identifier the driver needs is the
// scheduling hook of yield_verif.go.

// VerifSetYieldHook installs f as the hook called at every verifYield point (nil removes it).
func VerifSetYieldHook(f func(point string)) { verifYieldHook = f }
