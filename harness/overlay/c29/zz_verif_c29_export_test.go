//go:build verif

package dedup

// In-package part of the C29 driver: the only unexported identifier the driver needs is the
// scheduling hook of yield_verif.go.

// VerifSetYieldHook installs f as the hook called at every verifYield point (nil removes it).
func VerifSetYieldHook(f func(point string)) { verifYieldHook = f }

// VerifRCHoldLock takes the RequestCache's mutex and returns the function that releases it: the
// driver queues two operations behind it (lock convoy) to check that their lock regions are atomic.
func VerifRCHoldLock(c *RequestCache) func() {
	c.mu.Lock()
	return c.mu.Unlock
}
