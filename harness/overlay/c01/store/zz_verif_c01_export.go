//go:build verif

package store

// Exports for the C01 correspondence driver (overlaid at build time, never present in the
// repository): the drain and TTL workers' bodies and the clock-injecting constructor are unexported.

import (
	"github.com/andres-erbsen/clock"
	"github.com/uber-go/tally"
)

// VerifC01NewCAStore is newCAStore with a no-op metrics scope.
func VerifC01NewCAStore(config CAStoreConfig, clk clock.Clock) (*CAStore, error) {
	return newCAStore(config, tally.NoopScope, clk)
}

// VerifC01DrainNext runs one iteration of the drain worker (ca_store.go drainNext).
func (s *CAStore) VerifC01DrainNext() {
	if s.drain == nil {
		return // memory cache disabled: no drain worker exists
	}
	s.drainNext()
}

// VerifC01Expire runs one iteration of the TTL worker.
func (s *CAStore) VerifC01Expire() {
	if s.memCache == nil {
		return // memory cache disabled: no TTL worker exists
	}
	s.cleanupMemoryCacheExpiredEntries()
}

// VerifC01QueueLen returns the number of items waiting for the drain.
func (s *CAStore) VerifC01QueueLen() int {
	if s.drain == nil {
		return 0
	}
	s.drain.mu.Lock()
	defer s.drain.mu.Unlock()
	return s.drain.queue.Len()
}
