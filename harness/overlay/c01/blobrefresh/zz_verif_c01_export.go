//go:build verif

package blobrefresh

// VerifC01State reports whether the download of id is still running and the error it ended with.
// (C01 correspondence driver; overlaid at build time, never present in the repository.)
func (r *Refresher) VerifC01State(id string) (pending bool, err error) {
	return r.requests.VerifC01State(id)
}
