//go:build verif

package dedup

// VerifC01State reports whether a request is running under id and the error cached for id.
// (C01 correspondence driver; overlaid at build time, never present in the repository.)
func (c *RequestCache) VerifC01State(id string) (pending bool, err error) {
	c.mu.Lock()
	defer c.mu.Unlock()
	if cerr, ok := c.errors[id]; ok {
		err = cerr.err
	}
	return c.pending[id], err
}
