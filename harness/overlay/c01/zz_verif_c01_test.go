//go:build verif

package blobserver

// C01 correspondence driver: op histories on one real CAStore (mock clock, memory write-through
// cache on or off, drain and TTL iterations called explicitly), driven through the origin's HTTP
// handlers (transfer and cluster uploads, delete, overwrite-metainfo, GET blob / GET metainfo as
// triggers of a backend refresh through the real Refresher and a fake backend.Client) and through
// the CAStore API the proxy uses (WriteCacheFile, WriteBlobToCacheWithMetaInfo with any piece
// length).  After every operation every name in play is read back through the three CAStore
// getters and through the origin's GET/HEAD handlers.
// Overlaid into origin/blobserver at build time; never present in the repository.

import (
	"bytes"
	"crypto/sha256"
	"encoding/hex"
	"errors"
	"fmt"
	"io"
	"net/http"
	"net/http/httptest"
	"os"
	"path/filepath"
	"strconv"
	"strings"
	"sync"
	"sync/atomic"
	"testing"
	"time"

	"github.com/andres-erbsen/clock"
	"github.com/uber-go/tally"

	"github.com/uber/kraken/core"
	"github.com/uber/kraken/lib/backend"
	"github.com/uber/kraken/lib/backend/backenderrors"
	"github.com/uber/kraken/lib/blobrefresh"
	"github.com/uber/kraken/lib/hashring"
	"github.com/uber/kraken/lib/healthcheck"
	"github.com/uber/kraken/lib/hostlist"
	"github.com/uber/kraken/lib/metainfogen"
	"github.com/uber/kraken/lib/persistedretry"
	"github.com/uber/kraken/lib/store"
	"github.com/uber/kraken/lib/store/base"
	"github.com/uber/kraken/lib/store/metadata"
	"github.com/uber/kraken/origin/blobclient"
	"github.com/uber/kraken/utils/verifhlib"
)

func TestVerifC01(t *testing.T) { verifhlib.MainEnv("C01", c01driver) }

const (
	c01host = "c01-origin:80"
	c01ns   = "c01ns"
)

// ------------------------------------------------------------------ fakes

type c01noProvider struct{}

func (c01noProvider) Provide(addr string) blobclient.Client {
	panic("C01 driver: no replica expected")
}

type c01noCluster struct{}

func (c01noCluster) Provide(dns string) (blobclient.ClusterClient, error) {
	return nil, errors.New("C01 driver: no remote cluster")
}

// write-back manager that accepts every task
type c01wbm struct{}

func (c01wbm) Add(persistedretry.Task) error                    { return nil }
func (c01wbm) SyncExec(persistedretry.Task) error               { return nil }
func (c01wbm) Close()                                           {}
func (c01wbm) Find(interface{}) ([]persistedretry.Task, error) { return nil, nil }

// storage backend whose answers are chosen per case
type c01backend struct {
	mu   sync.Mutex
	stat map[string]int64
	dl   map[string]func(io.Writer) error
}

func (b *c01backend) Stat(namespace, name string) (*core.BlobInfo, error) {
	b.mu.Lock()
	defer b.mu.Unlock()
	if sz, ok := b.stat[name]; ok {
		// answered once, to the request that starts the download: the driver's own read-backs
		// while the download runs must not start another one
		delete(b.stat, name)
		return core.NewBlobInfo(sz), nil
	}
	return nil, backenderrors.ErrBlobNotFound
}
func (b *c01backend) Upload(namespace, name string, src io.Reader) error { return nil }
func (b *c01backend) Download(namespace, name string, dst io.Writer) error {
	b.mu.Lock()
	f := b.dl[name]
	b.mu.Unlock()
	if f == nil {
		return backenderrors.ErrBlobNotFound
	}
	return f(dst)
}
func (b *c01backend) List(prefix string, opts ...backend.ListOption) (*backend.ListResult, error) {
	return nil, errors.New("not supported")
}
func (b *c01backend) Close() error { return nil }

// ------------------------------------------------------------------ contents and names

type c01tab struct {
	idx   map[string]int
	items [][]byte
	names []string // names[i] = cache name of name id i; names[0] is not a sha256 hex string
	byHex map[string]int
}

func c01sha(b []byte) string { h := sha256.Sum256(b); return hex.EncodeToString(h[:]) }

func c01newTab(blobs [][]byte) *c01tab {
	t := &c01tab{idx: map[string]int{}, byHex: map[string]int{}}
	t.names = []string{"zz" + strings.Repeat("0", 62)}
	for i, b := range blobs {
		h := c01sha(b)
		if _, dup := t.byHex[h]; dup {
			panic("C01 driver: duplicate blob")
		}
		t.byHex[h] = i + 1
		t.names = append(t.names, h)
	}
	for _, b := range blobs {
		t.cid(b)
	}
	return t
}

func (t *c01tab) cid(b []byte) int {
	if i, ok := t.idx[string(b)]; ok {
		return i
	}
	i := len(t.items)
	t.idx[string(b)] = i
	t.items = append(t.items, append([]byte(nil), b...))
	return i
}

// canonical name of the SHA-256 of table entry i
func (t *c01tab) did(i int) int {
	if n, ok := t.byHex[c01sha(t.items[i])]; ok {
		return n
	}
	return 1000 + i
}

func (t *c01tab) coq() string {
	xs := make([]string, len(t.items))
	for i, b := range t.items {
		// the bytes packed 7 per primitive integer, little-endian (Coq parses primitive integer
		// literals natively: much faster than one numeral per byte)
		var ws []string
		for j := 0; j < len(b); j += 7 {
			var w uint64
			for k := 0; k < 7 && j+k < len(b); k++ {
				w |= uint64(b[j+k]) << (8 * uint(k))
			}
			ws = append(ws, strconv.FormatUint(w, 10)+"%uint63")
		}
		xs[i] = fmt.Sprintf("(%d, %s, %d)", len(b), verifhlib.List(ws), t.did(i))
	}
	return verifhlib.List(xs)
}

// ------------------------------------------------------------------ operations

type c01stream struct {
	chunks [][]byte
	err    bool
}

type c01op struct {
	k       string // ustart upatch ucommit ucommitraced create refresh drain tick expire delete genmeta
	cluster bool
	name    int
	uid     int
	start   int
	stop    int
	body    []byte
	w1, w2  c01stream
	stat    int64
	pl      int64
	http    int // refresh: 0 direct CAStore call, 1 via GET blob, 2 via GET metainfo
	envok   bool
	dt      int
	nested  []c01op // run from inside the first invocation of the write callback
	nested2 []c01op // ... the second invocation
}

type c01cfg struct {
	mem   bool
	max   uint64
	skip  bool
	retry int
	ttl   int
	genpl int
}

type c01env struct {
	cfg       c01cfg
	lenchk    bool
	cas       *store.CAStore
	mc        *clock.Mock
	be        *c01backend
	bm        *backend.Manager
	mg        *metainfogen.Generator
	ring      hashring.Ring
	pctx      core.PeerContext
	uploadDir string
	tab       *c01tab
	names     []int
	uids      map[int]string
	nextUID   int
	ops, obs  []string
	hist      []string
	incon     bool
	oks       int // writes that returned success
	rejects   int // writes that returned an error
	drains    int // drain iterations that found an item
	seen      bool
	tags      map[string]bool
	prev      []string // the previous operation's direct views
	closeFn   func()
}

var c01seq int64

func c01newEnv(ctx *verifhlib.Ctx, cfg c01cfg, lenchk bool, blobs [][]byte) *c01env {
	root := filepath.Join(ctx.Tmp, fmt.Sprintf("c01-%d", atomic.AddInt64(&c01seq, 1)))
	up, ca := filepath.Join(root, "upload"), filepath.Join(root, "cache")
	for _, d := range []string{up, ca} {
		if err := os.MkdirAll(d, 0775); err != nil {
			panic(err)
		}
	}
	sc := store.CAStoreConfig{UploadDir: up, CacheDir: ca, SkipHashVerification: cfg.skip,
		UploadCleanup: store.CleanupConfig{Disabled: true}, CacheCleanup: store.CleanupConfig{Disabled: true}}
	// no background drain workers (range over a negative int is empty) and no TTL ticks: the driver
	// runs the iterations itself, at the points the case says
	sc.MemoryCache = store.MemoryCacheConfig{Enabled: cfg.mem, MaxSize: cfg.max, DrainWorkers: -1,
		DrainMaxRetries: cfg.retry, TTL: time.Duration(cfg.ttl) * time.Millisecond, TTLInterval: 1000000 * time.Hour}
	mc := clock.NewMock()
	cas, err := store.VerifC01NewCAStore(sc, mc)
	if err != nil {
		panic(err)
	}
	be := &c01backend{stat: map[string]int64{}, dl: map[string]func(io.Writer) error{}}
	bm := backend.ManagerFixture()
	if err := bm.Register(c01ns, be, false); err != nil {
		panic(err)
	}
	e := &c01env{cfg: cfg, lenchk: lenchk, cas: cas, mc: mc, be: be, bm: bm, uploadDir: up,
		mg:   metainfogen.Fixture(cas, cfg.genpl),
		ring: hashring.New(hashring.Config{MaxReplica: 1}, hostlist.Fixture(c01host), healthcheck.IdentityFilter{}, tally.NoopScope),
		pctx: core.PeerContextFixture(), tab: c01newTab(blobs), uids: map[int]string{}, nextUID: 1, tags: map[string]bool{}}
	for i := 1; i <= len(blobs); i++ {
		e.names = append(e.names, i)
	}
	e.names = append(e.names, 0)
	e.closeFn = func() { cas.Close(); os.RemoveAll(root) }
	return e
}

// a fresh Refresher and Server per request: the Refresher caches a failed download's error for
// 15 s of real time, which would make histories depend on wall-clock time
func (e *c01env) server() (http.Handler, *blobrefresh.Refresher) {
	br := blobrefresh.New(blobrefresh.Config{}, tally.NoopScope, e.cas, e.bm, e.mg)
	s, err := New(Config{}, tally.NoopScope, e.mc, c01host, e.ring, e.cas, c01noProvider{}, c01noCluster{},
		e.pctx, e.bm, br, e.mg, c01wbm{})
	if err != nil {
		panic(err)
	}
	return s.Handler(), br
}

func c01do(h http.Handler, method, url string, body []byte, hdr map[string]string) *httptest.ResponseRecorder {
	var rd io.Reader
	if body != nil {
		rd = bytes.NewReader(body)
	}
	req := httptest.NewRequest(method, url, rd)
	for k, v := range hdr {
		req.Header.Set(k, v)
	}
	rec := httptest.NewRecorder()
	h.ServeHTTP(rec, req)
	return rec
}

func c01out(code int) string {
	switch code {
	case 200, 202:
		return "OOk"
	case 409:
		return "OConflict"
	case 404:
		return "ONotFound"
	}
	return "OErr"
}

func c01errOut(err error) string {
	if err == nil {
		return "OOk"
	}
	return "OErr"
}

// ------------------------------------------------------------------ observation

type c01view struct {
	hasData, hasSize, hasMeta bool
	data                      int
	size                      int64
	mName, mCid               int
	mPl                       int64
}

func (v c01view) coq() string {
	switch {
	case !v.hasData && !v.hasSize && !v.hasMeta:
		return "V0"
	case v.hasData && v.hasSize && !v.hasMeta:
		return fmt.Sprintf("VD %d %d", v.data, v.size)
	case v.hasData && v.hasSize && v.hasMeta:
		return fmt.Sprintf("VM %d %d %d %d %s", v.data, v.size, v.mName, v.mCid, c01z(v.mPl))
	}
	d, s, m := "None", "None", "None"
	if v.hasData {
		d = fmt.Sprintf("(Some %d)", v.data)
	}
	if v.hasSize {
		s = fmt.Sprintf("(Some %d)", v.size)
	}
	if v.hasMeta {
		m = fmt.Sprintf("(Some (%d, %d, %s))", v.mName, v.mCid, c01z(v.mPl))
	}
	return "VX " + d + " " + s + " " + m
}

func c01z(i int64) string { return fmt.Sprintf("(%d)%%Z", i) }

// which table entry does a served metainfo describe: the one with its length and piece sums
func (e *c01env) metaOf(v *c01view, mi *core.MetaInfo) {
	v.hasMeta = true
	v.mPl = mi.PieceLength()
	if n, ok := e.tab.byHex[mi.Digest().Hex()]; ok {
		v.mName = n
	} else {
		v.mName = 999
	}
	want, err := mi.Serialize()
	if err != nil {
		panic(err)
	}
	for i, b := range e.tab.items {
		if int64(len(b)) != mi.Length() {
			continue
		}
		mi2, err := core.NewMetaInfoFromBytes(mi.Digest(), b, mi.PieceLength())
		if err != nil {
			continue
		}
		got, _ := mi2.Serialize()
		if bytes.Equal(got, want) {
			v.mCid = i
			return
		}
	}
	// describes bytes nobody wrote: a fresh entry that matches nothing
	v.mCid = e.tab.cid(append([]byte("?metainfo?"), want...))
}

func (e *c01env) directView(n int) c01view {
	var v c01view
	nm := e.tab.names[n]
	if r, err := e.cas.GetCacheFileReader(nm); err == nil {
		b, rerr := io.ReadAll(r)
		r.Close()
		if rerr != nil {
			e.incon = true
		}
		v.hasData, v.data = true, e.tab.cid(b)
	}
	if fi, err := e.cas.GetCacheFileStat(nm); err == nil {
		v.hasSize, v.size = true, fi.Size()
	}
	var tm metadata.TorrentMeta
	if err := e.cas.GetCacheFileMetadata(nm, &tm); err == nil && tm.MetaInfo != nil {
		e.metaOf(&v, tm.MetaInfo)
	}
	return v
}

func (e *c01env) httpView(h http.Handler, n int) c01view {
	var v c01view
	d := "sha256:" + e.tab.names[n]
	if rec := c01do(h, "GET", "/namespace/"+c01ns+"/blobs/"+d, nil, nil); rec.Code == 200 {
		v.hasData, v.data = true, e.tab.cid(rec.Body.Bytes())
	}
	if rec := c01do(h, "HEAD", "/internal/namespace/"+c01ns+"/blobs/"+d+"?local=true", nil, nil); rec.Code == 200 {
		if sz, err := strconv.ParseInt(rec.Header().Get("Content-Length"), 10, 64); err == nil {
			v.hasSize, v.size = true, sz
		}
	}
	if rec := c01do(h, "GET", "/internal/namespace/"+c01ns+"/blobs/"+d+"/metainfo", nil, nil); rec.Code == 200 {
		mi, err := core.DeserializeMetaInfo(rec.Body.Bytes())
		if err != nil {
			e.incon = true
		} else {
			e.metaOf(&v, mi)
		}
	}
	return v
}

func (e *c01env) record(op, kind, out string) {
	h, _ := e.server()
	dv := make([]string, len(e.names))
	hv := make([]string, len(e.names))
	for i, n := range e.names {
		d := e.directView(n)
		dv[i] = d.coq()
		hv[i] = e.httpView(h, n).coq()
		if d.hasData {
			e.seen = true
		}
	}
	if os.Getenv("VERIF_C01_DEBUG") != "" { // development aid
		inm := []string{}
		for _, n := range e.names {
			if e.cfg.mem && e.cas.CheckInMemCache(e.tab.names[n]) {
				inm = append(inm, strconv.Itoa(n))
			}
		}
		fmt.Fprintf(os.Stderr, "C01DBG %d %s -> %s inmem=%v queue=%d now=%d\n", len(e.ops), op, out, inm, e.cas.VerifC01QueueLen(),
			e.mc.Now().Sub(time.Unix(0, 0))/time.Millisecond)
	}
	e.ops = append(e.ops, op)
	if d, h := verifhlib.List(dv), verifhlib.List(hv); d == h {
		// only the positions that changed since the previous operation
		var ch []string
		for i := range dv {
			prev := "V0"
			if e.prev != nil {
				prev = e.prev[i]
			}
			if dv[i] != prev {
				ch = append(ch, fmt.Sprintf("(%d, %s)", i, dv[i]))
			}
		}
		e.obs = append(e.obs, "OBD "+out+" "+verifhlib.List(ch))
	} else {
		e.obs = append(e.obs, "OB2 "+out+" "+d+" "+h)
	}
	e.prev = dv
	e.hist = append(e.hist, kind)
}

// ------------------------------------------------------------------ execution

func (e *c01env) streamCoq(w c01stream) string {
	xs := make([]string, len(w.chunks))
	for i, c := range w.chunks {
		xs[i] = strconv.Itoa(e.tab.cid(c))
	}
	return "(mkstream " + verifhlib.List(xs) + " " + verifhlib.B(w.err) + ")"
}

func (e *c01env) uidStr(u int) string {
	if s, ok := e.uids[u]; ok {
		return s
	}
	return fmt.Sprintf("00000000-0000-4000-8000-%012d", u)
}

func (e *c01env) uploadURL(cluster bool, name int, uid string) string {
	d := "sha256:" + e.tab.names[name]
	u := "/internal/blobs/" + d + "/uploads"
	if cluster {
		u = "/namespace/" + c01ns + "/blobs/" + d + "/uploads"
	}
	if uid != "" {
		u += "/" + uid
	}
	return u
}

func (e *c01env) runAll(ops []c01op) {
	for i := range ops {
		e.exec(&ops[i])
	}
}

// what a write callback does with the writer it is given
func (e *c01env) play(w io.Writer, st c01stream) error {
	for _, c := range st.chunks {
		if _, err := w.Write(c); err != nil {
			e.incon = true
			return err
		}
	}
	if st.err {
		return errors.New("backend: connection lost")
	}
	return nil
}

func (e *c01env) countWrite(out string) {
	if out == "OOk" {
		e.oks++
	} else {
		e.rejects++
	}
}

func (e *c01env) exec(o *c01op) {
	switch o.k {
	case "ustart":
		h, _ := e.server()
		rec := c01do(h, "POST", e.uploadURL(o.cluster, o.name, ""), nil, nil)
		o.uid = e.nextUID
		e.nextUID++
		if rec.Code == 200 {
			e.uids[o.uid] = rec.Header().Get("Location")
		}
		e.record(fmt.Sprintf("UStart %s %d %d", verifhlib.B(o.cluster), o.name, o.uid), "UStart", c01out(rec.Code))
	case "upatch":
		h, _ := e.server()
		rec := c01do(h, "PATCH", e.uploadURL(o.cluster, o.name, e.uidStr(o.uid)), o.body,
			map[string]string{"Content-Range": fmt.Sprintf("%d-%d", o.start, o.stop)})
		e.record(fmt.Sprintf("UPatch %s %d %d %d %d %d", verifhlib.B(o.cluster), o.name, o.uid, o.start, o.stop, e.tab.cid(o.body)),
			"UPatch", c01out(rec.Code))
	case "ucommit":
		// the bytes the model will hash: the upload file as it is now
		if r, err := e.cas.GetUploadFileReader(e.uidStr(o.uid)); err == nil {
			b, _ := io.ReadAll(r)
			r.Close()
			e.tab.cid(b)
		}
		h, _ := e.server()
		rec := c01do(h, "PUT", e.uploadURL(o.cluster, o.name, e.uidStr(o.uid)), nil, nil)
		out := c01out(rec.Code)
		e.countWrite(out)
		e.record(fmt.Sprintf("UCommit %s %d %d", verifhlib.B(o.cluster), o.name, o.uid), "UCommit-"+out, out)
	case "ucommitraced":
		e.commitRaced(o)
	case "create":
		calls := 0
		err := e.cas.WriteCacheFile(e.tab.names[o.name], func(w store.FileReadWriter) error {
			calls++
			e.runAll(o.nested)
			return e.play(w, o.w1)
		})
		if calls != 1 {
			e.incon = true
		}
		e.tab.cid(c01concat(o.w1))
		out := c01errOut(err)
		e.countWrite(out)
		e.record(fmt.Sprintf("Create %d %s", o.name, e.streamCoq(o.w1)), "Create-"+out, out)
	case "refresh":
		e.refresh(o)
	case "drain":
		if e.cas.VerifC01QueueLen() > 0 {
			e.drains++
		}
		if !o.envok {
			// the disk refuses the drain's write: the upload directory is not a directory
			away := e.uploadDir + ".away"
			if os.Rename(e.uploadDir, away) != nil || os.WriteFile(e.uploadDir, nil, 0644) != nil {
				e.incon = true
				return
			}
			e.cas.VerifC01DrainNext()
			os.Remove(e.uploadDir)
			if os.Rename(away, e.uploadDir) != nil {
				panic("C01 driver: cannot restore the upload directory")
			}
		} else {
			e.cas.VerifC01DrainNext()
		}
		e.record("Drain "+verifhlib.B(o.envok), "Drain-"+verifhlib.B(o.envok), "OOk")
	case "tick":
		e.mc.Add(time.Duration(o.dt) * time.Millisecond)
		e.record(fmt.Sprintf("Tick %d", o.dt), "Tick", "OOk")
	case "expire":
		e.cas.VerifC01Expire()
		e.record("Expire", "Expire", "OOk")
	case "delete":
		h, _ := e.server()
		rec := c01do(h, "DELETE", "/internal/blobs/sha256:"+e.tab.names[o.name], nil, nil)
		e.record(fmt.Sprintf("Delete %d", o.name), "Delete", c01out(rec.Code))
	case "genmeta":
		h, _ := e.server()
		rec := c01do(h, "POST", fmt.Sprintf("/internal/blobs/sha256:%s/metainfo?piece_length=%d", e.tab.names[o.name], o.pl), nil, nil)
		e.record(fmt.Sprintf("GenMeta %d %s", o.name, c01z(o.pl)), "GenMeta", c01out(rec.Code))
	default:
		panic("C01 driver: unknown op " + o.k)
	}
}

// a request body that reports when the handler starts reading it and then waits for the driver
type c01gate struct {
	data  []byte
	first chan struct{}
	feed  chan struct{}
	began bool
}

func (g *c01gate) Read(p []byte) (int, error) {
	if !g.began {
		g.began = true
		close(g.first)
		<-g.feed
	}
	if len(g.data) == 0 {
		return 0, io.EOF
	}
	n := copy(p, g.data)
	g.data = g.data[n:]
	return n, nil
}

// a PATCH of the upload passes its checks, opens the upload file and waits for its body; the
// upload is committed; the body arrives (known finding C01-late-patch)
func (e *c01env) commitRaced(o *c01op) {
	nm := e.tab.names[o.name]
	raceable := o.name != 0 && o.start < o.stop && len(o.body) > 0
	if raceable {
		if _, err := e.cas.GetCacheFileStat(nm); !os.IsNotExist(err) {
			raceable = false
		}
	}
	if raceable {
		if _, err := e.cas.GetUploadFileStat(e.uidStr(o.uid)); err != nil {
			raceable = false
		}
	}
	if !raceable { // the PATCH would return before touching the file: a plain commit
		o.k = "ucommit"
		e.exec(o)
		return
	}
	if r, err := e.cas.GetUploadFileReader(e.uidStr(o.uid)); err == nil {
		b, _ := io.ReadAll(r)
		r.Close()
		e.tab.cid(b)
		if o.start <= len(b) { // the bytes the late write leaves behind
			nb := append([]byte(nil), b...)
			w := o.body
			if len(w) > o.stop-o.start {
				w = w[:o.stop-o.start]
			}
			for len(nb) < o.start+len(w) {
				nb = append(nb, 0)
			}
			copy(nb[o.start:], w)
			e.tab.cid(nb)
		}
	}
	h, _ := e.server()
	gate := &c01gate{data: append([]byte(nil), o.body...), first: make(chan struct{}), feed: make(chan struct{})}
	done := make(chan int, 1)
	go func() {
		req := httptest.NewRequest("PATCH", e.uploadURL(o.cluster, o.name, e.uidStr(o.uid)), gate)
		req.Header.Set("Content-Range", fmt.Sprintf("%d-%d", o.start, o.stop))
		rec := httptest.NewRecorder()
		h.ServeHTTP(rec, req)
		done <- rec.Code
	}()
	select {
	case <-gate.first:
	case <-done: // answered without reading the body: not the interleaving the op describes
		e.incon = true
		close(gate.feed)
		return
	}
	rec := c01do(h, "PUT", e.uploadURL(o.cluster, o.name, e.uidStr(o.uid)), nil, nil)
	close(gate.feed)
	<-done
	out := c01out(rec.Code)
	e.countWrite(out)
	e.tags["late-patch"] = true
	e.record(fmt.Sprintf("UCommitRaced %s %d %d %d %d %d", verifhlib.B(o.cluster), o.name, o.uid, o.start, o.stop, e.tab.cid(o.body)),
		"UCommitRaced-"+out, out)
}

func c01concat(w c01stream) []byte {
	var b []byte
	for _, c := range w.chunks {
		b = append(b, c...)
	}
	return b
}

func (e *c01env) refresh(o *c01op) {
	nm := e.tab.names[o.name]
	calls, rsv, split := 0, false, false
	cb := func(w io.Writer) error {
		calls++
		if calls == 1 {
			_, rsv = w.(*base.BufferReadWriter)
			e.runAll(o.nested)
			return e.play(w, o.w1)
		}
		if len(o.nested2) > 0 {
			// The memory attempt has failed and the disk attempt begins.  Whether the memory attempt
			// fails depends on the state at that moment (a duplicate entry), so when other calls run
			// during the second download the two attempts are recorded as two operations: the memory
			// attempt (its disk attempt replaced by a failing stream: no effect) here, the disk attempt
			// (a refresh without reservation) at the end.
			split = true
			e.tab.cid(c01concat(o.w1))
			e.record(fmt.Sprintf("Refresh %d %s %d %s (mkstream [] true) %s", o.name, verifhlib.B(rsv), o.stat, e.streamCoq(o.w1), c01z(o.pl)),
				"Refresh-memory-attempt-failed", "OErr")
			e.runAll(o.nested2)
		}
		return e.play(w, o.w2)
	}
	var err error
	kind := "Refresh-direct"
	if o.http != 0 {
		o.pl = int64(e.cfg.genpl) // the origin asks metainfogen for the piece length
	}
	// through the origin only a missing blob (GET blob) / missing metainfo (GET metainfo) starts a
	// download; otherwise the same call is made on the CAStore directly
	if o.http == 1 {
		if rd, rerr := e.cas.GetCacheFileReader(nm); !os.IsNotExist(rerr) {
			if rerr == nil {
				rd.Close()
			}
			o.http = 0
		}
	} else if o.http == 2 {
		var tm metadata.TorrentMeta
		if merr := e.cas.GetCacheFileMetadata(nm, &tm); !os.IsNotExist(merr) {
			o.http = 0
		}
	}
	if o.name == 0 {
		o.http = 0
	}
	if o.http != 0 {
		kind = "Refresh-http"
		e.be.mu.Lock()
		e.be.stat[nm] = o.stat
		e.be.dl[nm] = cb
		e.be.mu.Unlock()
		h, br := e.server()
		url := "/namespace/" + c01ns + "/blobs/sha256:" + nm
		if o.http == 2 {
			url = "/internal/namespace/" + c01ns + "/blobs/sha256:" + nm + "/metainfo"
		}
		rec := c01do(h, "GET", url, nil, nil)
		if rec.Code != 202 {
			e.incon = true
		}
		deadline := time.Now().Add(20 * time.Second)
		for {
			pending, rerr := br.VerifC01State(nm)
			if !pending {
				err = rerr
				break
			}
			if time.Now().After(deadline) {
				e.incon = true
				break
			}
			time.Sleep(20 * time.Microsecond)
		}
		e.be.mu.Lock()
		delete(e.be.stat, nm)
		delete(e.be.dl, nm)
		e.be.mu.Unlock()
	} else {
		err = e.cas.WriteBlobToCacheWithMetaInfo(nm, uint64(o.stat), func(w store.FileReadWriter) error { return cb(w) }, o.pl)
	}
	if calls == 0 {
		e.incon = true
	}
	e.tab.cid(c01concat(o.w1))
	e.tab.cid(c01concat(o.w2))
	out := c01errOut(err)
	e.countWrite(out)
	path := "disk"
	if rsv {
		path = "mem"
	}
	if split {
		e.record(fmt.Sprintf("Refresh %d false %d %s %s %s", o.name, o.stat, e.streamCoq(o.w2), e.streamCoq(o.w2), c01z(o.pl)),
			kind+"-disk-attempt-"+out, out)
		return
	}
	e.record(fmt.Sprintf("Refresh %d %s %d %s %s %s", o.name, verifhlib.B(rsv), o.stat, e.streamCoq(o.w1), e.streamCoq(o.w2), c01z(o.pl)),
		kind+"-"+path+"-"+out, out)
}

func (e *c01env) coq() string {
	ns := make([]string, len(e.names))
	for i, n := range e.names {
		ns[i] = strconv.Itoa(n)
	}
	return fmt.Sprintf("mkcase %s %s %s %d %d %s %s %s %s %s", verifhlib.B(e.cfg.mem), verifhlib.B(e.cfg.skip), verifhlib.B(e.lenchk),
		e.cfg.retry, e.cfg.ttl, c01z(int64(e.cfg.genpl)), verifhlib.List(ns), e.tab.coq(), verifhlib.List(e.ops), verifhlib.List(e.obs))
}

// ------------------------------------------------------------------ generation

func c01split(r *verifhlib.Rng, b []byte) [][]byte {
	switch r.Intn(4) {
	case 0:
		return [][]byte{b}
	case 1:
		k := r.Intn(len(b) + 1)
		return [][]byte{b[:k], b[k:]}
	case 2:
		k := r.Intn(len(b) + 1)
		j := k + r.Intn(len(b)-k+1)
		return [][]byte{b[:k], b[k:j], b[j:]}
	}
	if len(b) == 0 {
		return nil
	}
	return [][]byte{b}
}

// a byte stream claimed to be blob i: the blob, or something corrupted / truncated / extended / else
func c01variant(r *verifhlib.Rng, blobs [][]byte, i int, good int) ([]byte, string) {
	b := blobs[i]
	if r.Chance(good) {
		return b, "exact"
	}
	switch r.Intn(6) {
	case 0:
		if len(b) > 0 {
			c := append([]byte(nil), b...)
			c[r.Intn(len(c))] ^= byte(1 + r.Intn(255))
			return c, "corrupted"
		}
		return []byte{7}, "extended"
	case 1:
		if len(b) > 0 {
			return b[:r.Intn(len(b))], "truncated"
		}
		return []byte{9, 9}, "extended"
	case 2:
		return append(append([]byte(nil), b...), r.Bytes(1+r.Intn(3))...), "extended"
	case 3:
		return blobs[(i+1+r.Intn(len(blobs)))%len(blobs)], "other-blob"
	case 4:
		return nil, "empty"
	}
	return r.Bytes(r.Intn(12)), "random"
}

type c01upload struct {
	uid     int
	name    int
	cluster bool
	plan    []byte
	off     int
}

type c01gen struct {
	r     *verifhlib.Rng
	e     *c01env
	blobs [][]byte
	open  []*c01upload
	depth int
}

func (g *c01gen) pls() int64 {
	c := []int64{int64(g.e.cfg.genpl), int64(g.e.cfg.genpl), 1, 3, 4, 0, -1, 64}
	return c[g.r.Intn(len(c))]
}

func (g *c01gen) genStream(name int, good int) c01stream {
	b, _ := c01variant(g.r, g.blobs, name-1, good)
	return c01stream{chunks: c01split(g.r, b), err: g.r.Chance(6)}
}

func (g *c01gen) genRefresh(name int) c01op {
	r := g.r
	o := c01op{k: "refresh", name: name}
	o.w1 = g.genStream(name, 60)
	if r.Chance(75) {
		o.w2 = o.w1
	} else {
		o.w2 = g.genStream(name, 70) // the backend answers differently the second time
	}
	switch r.Intn(6) {
	case 0:
		o.stat = int64(len(g.blobs[name-1]))
	case 1:
		o.stat = int64(len(c01concat(o.w1))) + int64(r.Intn(3)) - 1
		if o.stat < 0 {
			o.stat = 0
		}
	default:
		o.stat = int64(len(c01concat(o.w1)))
	}
	o.pl = g.pls()
	nm := g.e.tab.names[name]
	if r.Chance(45) && g.depth == 0 {
		// through the origin: only a missing blob / missing metainfo starts a download
		if rd, err := g.e.cas.GetCacheFileReader(nm); os.IsNotExist(err) {
			o.http = 1
		} else {
			if err == nil {
				rd.Close()
			}
			var tm metadata.TorrentMeta
			if err := g.e.cas.GetCacheFileMetadata(nm, &tm); os.IsNotExist(err) {
				o.http = 2
			}
		}
	}
	if g.depth == 0 && r.Chance(30) {
		g.depth++
		n := 1 + r.Intn(2)
		for i := 0; i < n; i++ {
			o.nested = append(o.nested, g.genNested())
		}
		if r.Chance(30) {
			o.nested2 = append(o.nested2, g.genNested())
		}
		g.depth--
	}
	return o
}

// operations other goroutines perform while a download is running
func (g *c01gen) genNested() c01op {
	r := g.r
	switch r.Intn(7) {
	case 0, 1:
		return c01op{k: "drain", envok: r.Chance(85)}
	case 2:
		return c01op{k: "tick", dt: []int{1, 21, 1001}[r.Intn(3)]}
	case 3:
		return c01op{k: "expire"}
	case 4:
		return g.genRefresh(1 + r.Intn(len(g.blobs)))
	case 5:
		return c01op{k: "delete", name: 1 + r.Intn(len(g.blobs))}
	}
	return c01op{k: "create", name: 1 + r.Intn(len(g.blobs)), w1: g.genStream(1+r.Intn(len(g.blobs)), 70)}
}

func (g *c01gen) next() c01op {
	r := g.r
	nb := len(g.blobs)
	name := 1 + r.Intn(nb)
	p := r.Intn(100)
	switch {
	case p < 28:
		return g.genRefresh(name)
	case p < 36:
		u := &c01upload{name: name, cluster: r.Chance(40), uid: g.e.nextUID}
		u.plan, _ = c01variant(r, g.blobs, name-1, 70)
		g.open = append(g.open, u)
		return c01op{k: "ustart", cluster: u.cluster, name: name}
	case p < 50:
		if len(g.open) == 0 {
			return g.genRefresh(name)
		}
		u := g.open[r.Intn(len(g.open))]
		rest := len(u.plan) - u.off
		n := rest
		if rest > 0 && r.Chance(50) {
			n = 1 + r.Intn(rest)
		}
		o := c01op{k: "upatch", cluster: u.cluster, name: u.name, uid: u.uid, start: u.off, stop: u.off + n, body: u.plan[u.off : u.off+n]}
		u.off += n
		switch r.Intn(12) {
		case 0: // a gap: the file is zero-filled up to start
			o.start += 2
			o.stop += 2
		case 1: // the body ends early
			if len(o.body) > 0 {
				o.body = o.body[:len(o.body)-1]
			}
		case 2: // more body than announced
			o.body = append(append([]byte(nil), o.body...), 1, 2)
		case 3: // overwrite from the beginning
			o.stop -= o.start
			o.start = 0
		case 4:
			o.start, o.stop = o.stop, o.start
		case 5: // under another name, or in the other upload flavour
			o.name = 1 + r.Intn(nb)
			o.cluster = !o.cluster
		}
		return o
	case p < 60:
		if len(g.open) == 0 {
			return c01op{k: "ucommit", cluster: r.Bool(), name: name, uid: 900 + r.Intn(3)}
		}
		i := r.Intn(len(g.open))
		u := g.open[i]
		o := c01op{k: "ucommit", cluster: u.cluster, name: u.name, uid: u.uid}
		if r.Chance(10) {
			o.name = 1 + r.Intn(nb)
		}
		if r.Chance(80) {
			g.open = append(g.open[:i], g.open[i+1:]...)
		}
		if r.Chance(4) { // a PATCH of the same upload straddles the commit (known finding C01-late-patch)
			o.k, o.start, o.stop, o.body = "ucommitraced", r.Intn(3), 0, r.Bytes(1+r.Intn(3))
			o.stop = o.start + len(o.body)
		}
		return o
	case p < 67:
		o := c01op{k: "create", name: name, w1: g.genStream(name, 65)}
		if r.Chance(15) {
			g.depth++
			o.nested = append(o.nested, g.genNested())
			g.depth--
		}
		return o
	case p < 81:
		return c01op{k: "drain", envok: r.Chance(85)}
	case p < 86:
		return c01op{k: "tick", dt: []int{1, 5, 20, 21, 30, 1000, 1001}[r.Intn(7)]}
	case p < 90:
		return c01op{k: "expire"}
	case p < 94:
		return c01op{k: "delete", name: name}
	case p < 97:
		return c01op{k: "genmeta", name: name, pl: g.pls()}
	}
	// malformed: the name that is not a digest, unknown upload ids
	switch r.Intn(5) {
	case 0:
		return c01op{k: "ustart", cluster: r.Bool(), name: 0}
	case 1:
		return c01op{k: "create", name: 0, w1: g.genStream(name, 80)}
	case 2:
		o := g.genRefresh(name)
		o.name, o.http = 0, 0
		return o
	case 3:
		return c01op{k: "upatch", cluster: r.Bool(), name: name, uid: 900 + r.Intn(3), start: 0, stop: 2, body: []byte{1, 2}}
	}
	return c01op{k: "delete", name: 0}
}

func c01genBlobs(r *verifhlib.Rng, big bool) [][]byte {
	nb := r.Range(2, 4)
	lens := []int{0, 1, 2, 3, 4, 5, 7, 8, 9, 12, 16, 17, 31, 33, 40}
	blobs := make([][]byte, nb)
	seen := map[string]bool{}
	for i := range blobs {
		for {
			n := lens[r.Intn(len(lens))]
			if big && r.Chance(20) {
				n = r.Range(100, 300)
			}
			b := r.Bytes(n)
			if !seen[string(b)] {
				seen[string(b)] = true
				blobs[i] = b
				break
			}
		}
	}
	return blobs
}

func c01genCfg(r *verifhlib.Rng) c01cfg {
	c := c01cfg{mem: r.Chance(75), skip: r.Chance(5), retry: r.Range(1, 2), ttl: []int{20, 20, 1000}[r.Intn(3)],
		genpl: []int{1, 4, 4, 8}[r.Intn(4)]}
	c.max = []uint64{0, 1, 64, 1 << 20, 1 << 20, 1 << 20}[r.Intn(6)]
	return c
}

// ------------------------------------------------------------------ seeds

type c01seed struct {
	name  string
	cfg   c01cfg
	blobs [][]byte
	ops   []c01op
}

func c01one(b ...byte) c01stream { return c01stream{chunks: [][]byte{b}} }

func c01seeds() []c01seed {
	A := []byte{10, 11, 12, 13}
	Ac := []byte{10, 11, 12, 99} // corrupted, same length
	B := []byte{20, 21}
	memOn := c01cfg{mem: true, max: 1 << 20, retry: 1, ttl: 20, genpl: 4}
	memOff := c01cfg{mem: false, retry: 1, ttl: 20, genpl: 4}
	rf := func(name int, stat int, w1, w2 c01stream, pl int64) c01op {
		return c01op{k: "refresh", name: name, stat: int64(stat), w1: w1, w2: w2, pl: pl}
	}
	drain := c01op{k: "drain", envok: true}
	drainFail := c01op{k: "drain", envok: false}
	return []c01seed{
		// the witness of C01_mem_path_refuted: a corrupted backend stream of the announced length
		// through the memory path; on the pinned code it is served under the name until the drain gives up
		{"seed-mem-corrupted", memOn, [][]byte{A, B}, []c01op{
			rf(1, 4, c01one(Ac...), c01one(Ac...), 4), drain, drain, drain}},
		{"seed-mem-truncated-extended", memOn, [][]byte{A, B}, []c01op{
			rf(1, 3, c01one(A[:3]...), c01one(A[:3]...), 4),
			rf(1, 5, c01one(10, 11, 12, 13, 14), c01one(10, 11, 12, 13, 14), 4),
			rf(2, 4, c01one(A...), c01one(A...), 4), drain}},
		{"seed-mem-corrupted-http", memOn, [][]byte{A, B}, []c01op{
			{k: "refresh", name: 1, stat: 4, w1: c01one(Ac...), w2: c01one(Ac...), http: 1},
			{k: "refresh", name: 1, stat: 4, w1: c01one(Ac...), w2: c01one(Ac...), http: 2}, drain, drain}},
		{"seed-disk-corrupted", memOff, [][]byte{A, B}, []c01op{
			rf(1, 4, c01one(Ac...), c01one(Ac...), 4), rf(1, 4, c01one(A...), c01one(A...), 4),
			rf(2, 2, c01stream{chunks: [][]byte{B[:1]}, err: true}, c01stream{}, 4)}},
		{"seed-mem-good-drain", memOn, [][]byte{A, B}, []c01op{
			rf(1, 4, c01stream{chunks: [][]byte{A[:1], A[1:]}}, c01stream{}, 4), drain, drain,
			{k: "refresh", name: 2, stat: 2, w1: c01one(B...), http: 1}, {k: "tick", dt: 21}, {k: "expire"}, drain}},
		// the backend delivers garbage first and the blob on the second attempt
		{"seed-mem-flaky-backend", memOn, [][]byte{A, B}, []c01op{
			rf(1, 4, c01one(Ac...), c01one(A...), 4), drain}},
		{"seed-drain-refused", c01cfg{mem: true, max: 1 << 20, retry: 2, ttl: 20, genpl: 4}, [][]byte{A, B}, []c01op{
			rf(1, 4, c01one(A...), c01one(A...), 4), drainFail, drainFail, drain,
			rf(2, 2, c01one(B...), c01one(B...), 4), drainFail, drainFail, drainFail, drain}},
		{"seed-duplicate-over-disk", memOn, [][]byte{A, B}, []c01op{
			{k: "create", name: 1, w1: c01one(A...)}, rf(1, 4, c01one(A...), c01one(A...), 2), drain,
			rf(1, 4, c01one(Ac...), c01one(Ac...), 4), drain, drain}},
		{"seed-upload-transfer", memOff, [][]byte{A, B}, []c01op{
			{k: "ustart", name: 1}, {k: "upatch", name: 1, uid: 1, start: 0, stop: 2, body: A[:2]},
			{k: "upatch", name: 1, uid: 1, start: 2, stop: 4, body: A[2:]}, {k: "ucommit", name: 1, uid: 1},
			{k: "ucommit", name: 1, uid: 1}, {k: "ustart", name: 1}}},
		{"seed-upload-mismatch", memOff, [][]byte{A, B}, []c01op{
			{k: "ustart", name: 1}, {k: "upatch", name: 1, uid: 1, start: 0, stop: 4, body: Ac},
			{k: "ucommit", name: 1, uid: 1}, {k: "ucommit", name: 1, uid: 1},
			{k: "ustart", cluster: true, name: 2}, {k: "upatch", cluster: true, name: 2, uid: 2, start: 0, stop: 2, body: B},
			{k: "ucommit", cluster: true, name: 1, uid: 2}}},
		{"seed-upload-cluster-conflict", memOn, [][]byte{A, B}, []c01op{
			{k: "ustart", cluster: true, name: 1}, {k: "upatch", cluster: true, name: 1, uid: 1, start: 0, stop: 4, body: A},
			{k: "ucommit", cluster: true, name: 1, uid: 1}, {k: "ustart", cluster: true, name: 1},
			{k: "upatch", cluster: true, name: 1, uid: 1, start: 0, stop: 1, body: A[:1]},
			rf(2, 2, c01one(B...), c01one(B...), 4), {k: "ustart", cluster: true, name: 2}, {k: "ustart", name: 2}}},
		{"seed-upload-gap-short", memOff, [][]byte{{0, 0, 5}, B}, []c01op{
			{k: "ustart", name: 1}, {k: "upatch", name: 1, uid: 1, start: 2, stop: 3, body: []byte{5}},
			{k: "upatch", name: 1, uid: 1, start: 3, stop: 6, body: []byte{6}},
			{k: "upatch", name: 1, uid: 1, start: 5, stop: 5, body: nil},
			{k: "upatch", name: 1, uid: 1, start: 4, stop: 2, body: []byte{1}},
			{k: "ucommit", name: 1, uid: 1},
			{k: "ustart", name: 1}, {k: "upatch", name: 1, uid: 2, start: 2, stop: 3, body: []byte{5, 6}},
			{k: "ucommit", name: 1, uid: 2}}},
		{"seed-upload-while-in-memory", memOn, [][]byte{A, B}, []c01op{
			{k: "ustart", name: 1}, {k: "upatch", name: 1, uid: 1, start: 0, stop: 4, body: A},
			rf(1, 4, c01one(A...), c01one(A...), 2), {k: "ucommit", name: 1, uid: 1}, drain}},
		{"seed-piece-length-zero", memOn, [][]byte{A, B}, []c01op{
			rf(1, 4, c01one(A...), c01one(A...), 0), {k: "genmeta", name: 1, pl: 0}, {k: "genmeta", name: 1, pl: 3},
			rf(2, 2, c01one(B...), c01one(B...), -1), {k: "delete", name: 2}, {k: "delete", name: 2}}},
		{"seed-delete-genmeta-in-memory", memOn, [][]byte{A, B}, []c01op{
			rf(1, 4, c01one(A...), c01one(A...), 4), {k: "delete", name: 1}, {k: "genmeta", name: 1, pl: 2}, drain,
			{k: "genmeta", name: 1, pl: 2}, {k: "delete", name: 1}}},
		{"seed-expire-then-readd", memOn, [][]byte{A, B}, []c01op{
			rf(1, 4, c01one(A...), c01one(A...), 4), {k: "tick", dt: 20}, {k: "expire"}, {k: "tick", dt: 1}, {k: "expire"},
			rf(1, 4, c01one(A...), c01one(A...), 2), drain, drain}},
		{"seed-nested", memOn, [][]byte{A, B}, []c01op{
			{k: "refresh", name: 1, stat: 4, w1: c01one(A...), w2: c01one(A...), pl: 4,
				nested: []c01op{rf(1, 4, c01one(A...), c01one(A...), 2), drain}, nested2: []c01op{{k: "delete", name: 1}}}, drain}},
		// known finding C01-late-patch: a PATCH still delivering its body when its upload is committed
		{"seed-late-patch", memOff, [][]byte{A, B}, []c01op{
			{k: "ustart", name: 1}, {k: "upatch", name: 1, uid: 1, start: 0, stop: 4, body: A},
			{k: "ucommitraced", name: 1, uid: 1, start: 0, stop: 1, body: []byte{99}}}},
		{"seed-late-patch-cluster", memOn, [][]byte{A, B}, []c01op{
			{k: "ustart", cluster: true, name: 2}, {k: "upatch", cluster: true, name: 2, uid: 1, start: 0, stop: 2, body: B},
			{k: "ucommitraced", cluster: true, name: 2, uid: 1, start: 1, stop: 4, body: []byte{7, 8, 9}},
			{k: "ustart", name: 1}, {k: "upatch", name: 1, uid: 2, start: 0, stop: 4, body: Ac},
			{k: "ucommitraced", name: 1, uid: 2, start: 3, stop: 4, body: []byte{13}}}},
		{"seed-invalid-name", memOn, [][]byte{A, B}, []c01op{
			rf(0, 4, c01one(A...), c01one(A...), 4), {k: "create", name: 0, w1: c01one(A...)}, {k: "ustart", name: 0},
			{k: "delete", name: 0}, {k: "genmeta", name: 0, pl: 4}}},
		{"seed-skip-verification", c01cfg{mem: true, max: 1 << 20, skip: true, retry: 1, ttl: 20, genpl: 4}, [][]byte{A, B}, []c01op{
			rf(1, 4, c01one(Ac...), c01one(Ac...), 4), drain, {k: "create", name: 2, w1: c01one(A...)}}},
		{"seed-empty-blob", memOn, [][]byte{{}, B}, []c01op{
			rf(1, 0, c01stream{}, c01stream{}, 4), drain, rf(1, 0, c01one(1), c01one(1), 4),
			{k: "create", name: 2, w1: c01stream{chunks: [][]byte{{}, B}}}}},
	}
}

// ------------------------------------------------------------------ driver

// is fixes/C13_size_mismatch (memory path rejects len(data) <> size) present in this tree?
func c01probeLenchk(ctx *verifhlib.Ctx) bool {
	e := c01newEnv(ctx, c01cfg{mem: true, max: 1 << 20, retry: 1, ttl: 1000, genpl: 4}, false, [][]byte{{1, 2, 3}})
	defer e.closeFn()
	nm := e.tab.names[1]
	if err := e.cas.WriteBlobToCacheWithMetaInfo(nm, 5, func(w store.FileReadWriter) error {
		_, err := w.Write([]byte{1, 2, 3})
		return err
	}, 4); err != nil {
		panic(err)
	}
	return !e.cas.CheckInMemCache(nm)
}

func (e *c01env) result(kind string) verifhlib.Case {
	sample := map[string]interface{}{"mem": e.cfg.mem, "max_size": e.cfg.max, "skip": e.cfg.skip, "ops": e.ops}
	var tags []string
	for t := range e.tags {
		tags = append(tags, t)
	}
	return verifhlib.Case{Coq: e.coq(), NT: e.seen && e.oks >= 1 && (e.rejects >= 1 || e.drains >= 1), Kind: kind,
		Key: fmt.Sprintf("%v|%s|%s", e.cfg, e.tab.coq(), strings.Join(e.ops, ";")), Hist: e.hist, Sample: sample, Incon: e.incon,
		Tags: tags}
}

func c01driver(ctx *verifhlib.Ctx) {
	r := verifhlib.NewRng(ctx.Seed)
	lenchk := c01probeLenchk(ctx)
	maxLen := 12
	if ctx.Tier == "thorough" {
		maxLen = 30
	}
	only := map[int]bool{} // development aid: VERIF_C01_ONLY=i,j runs just these cases
	for _, f := range strings.Split(os.Getenv("VERIF_C01_ONLY"), ",") {
		if i, err := strconv.Atoi(f); err == nil {
			only[i] = true
		}
	}
	// cases are independent (own store, own directories, own generator state): run them on a few
	// workers and emit in case order
	var jobs []func() verifhlib.Case
	for _, s := range c01seeds() {
		s := s
		jobs = append(jobs, func() verifhlib.Case {
			e := c01newEnv(ctx, s.cfg, lenchk, s.blobs)
			defer e.closeFn()
			e.runAll(s.ops)
			return e.result(s.name)
		})
	}
	for n := len(jobs); n < ctx.N; n++ {
		cr := r.Fork()
		jobs = append(jobs, func() verifhlib.Case { return c01random(ctx, cr, lenchk, maxLen) })
	}
	// stream "peek" (run alone, before the pool): is anything readable under d while a large
	// mismatching blob goes through the memory write-through path?
	npeek := 3
	if ctx.Tier == "thorough" {
		npeek = 10
	}
	var peeks []verifhlib.Case
	if len(only) == 0 {
		for i := 0; i < npeek; i++ {
			peeks = append(peeks, c01peek(ctx, r.Fork(), lenchk, (16+8*(i%3))<<20))
		}
	}
	out := make([]*verifhlib.Case, len(jobs))
	next := int64(-1)
	var wg sync.WaitGroup
	for w := 0; w < 6; w++ {
		wg.Add(1)
		go func() {
			defer wg.Done()
			for {
				i := int(atomic.AddInt64(&next, 1))
				if i >= len(jobs) {
					return
				}
				if len(only) > 0 && !only[i] {
					continue
				}
				c := jobs[i]()
				out[i] = &c
			}
		}()
	}
	wg.Wait()
	for _, c := range out {
		if c != nil {
			ctx.Emit(*c)
		}
	}
	for _, c := range peeks {
		ctx.Emit(c)
	}
}

// c01peek writes size bytes with one flipped byte under the digest of the unflipped bytes through
// WriteBlobToCacheWithMetaInfo (memory path) while a goroutine polls stat / reader / metainfo under
// that digest.  Correct code adds the entry only after verification: nothing is ever readable.
func c01peek(ctx *verifhlib.Ctx, r *verifhlib.Rng, lenchk bool, size int) verifhlib.Case {
	e := c01newEnv(ctx, c01cfg{mem: true, max: 1 << 30, retry: 1, ttl: 1000, genpl: 4}, lenchk, [][]byte{{1}})
	defer e.closeFn()
	data := make([]byte, size)
	seed := r.U64()
	for i := range data {
		seed = seed*6364136223846793005 + 1442695040888963407
		data[i] = byte(seed >> 56)
	}
	nm := c01sha(data)
	data[r.Intn(size)] ^= 0x40
	var seen int32
	stop := make(chan struct{})
	var wg sync.WaitGroup
	wg.Add(1)
	go func() {
		defer wg.Done()
		for {
			select {
			case <-stop:
				return
			default:
			}
			if _, err := e.cas.GetCacheFileStat(nm); err == nil {
				atomic.StoreInt32(&seen, 1)
			}
			if rd, err := e.cas.GetCacheFileReader(nm); err == nil {
				rd.Close()
				atomic.StoreInt32(&seen, 1)
			}
			var tm metadata.TorrentMeta
			if err := e.cas.GetCacheFileMetadata(nm, &tm); err == nil {
				atomic.StoreInt32(&seen, 1)
			}
		}
	}()
	err := e.cas.WriteBlobToCacheWithMetaInfo(nm, uint64(size), func(w store.FileReadWriter) error {
		_, werr := w.Write(data)
		return werr
	}, 4<<20)
	close(stop)
	wg.Wait()
	if err == nil { // accepted: readable from now on
		seen = 1
	}
	if _, serr := e.cas.GetCacheFileStat(nm); serr == nil {
		seen = 1
	}
	return verifhlib.Case{Coq: "peekcase " + verifhlib.B(seen == 1), NT: true, Kind: "peek-large-mismatch",
		Key: fmt.Sprintf("peek|%d|%s", size, nm), Hist: []string{"Peek"},
		Sample: map[string]interface{}{"size": size, "readable_during_failed_write": seen == 1}}
}

func c01random(ctx *verifhlib.Ctx, cr *verifhlib.Rng, lenchk bool, maxLen int) verifhlib.Case {
	cfg := c01genCfg(cr)
	blobs := c01genBlobs(cr, ctx.Tier == "thorough")
	e := c01newEnv(ctx, cfg, lenchk, blobs)
	defer e.closeFn()
	g := &c01gen{r: cr, e: e, blobs: blobs}
	k := cr.Range(3, maxLen)
	for i := 0; i < k; i++ {
		o := g.next()
		e.exec(&o)
		if o.k == "ustart" {
			if _, started := e.uids[o.uid]; !started { // refused: nothing to patch or commit
				for j, u := range g.open {
					if u.uid == o.uid {
						g.open = append(g.open[:j], g.open[j+1:]...)
						break
					}
				}
			}
		}
	}
	// suffix: let the drain finish so that what was in memory shows up on disk
	for i := 0; i < 3 && e.cas.VerifC01QueueLen() > 0; i++ {
		e.exec(&c01op{k: "drain", envok: true})
	}
	kind := "random-disk"
	if cfg.mem {
		kind = "random-mem"
	}
	if cfg.skip {
		kind = "random-skip"
	}
	return e.result(kind)
}
