//go:build verif

package memory

// C08 correspondence driver: operation histories on the real memory.Store (through the scoped
// public API of scoped_store.go) and on memory.File handles kept across evictions, deletions and
// re-creations, with the store's internal state (size counter, evictQueue, blob map) recorded
// after every operation; in the thorough tier also a concurrent stream (readers racing evictions).
// Overlaid into lib/store/memory at build time; never present in the repository.

import (
	"errors"
	"fmt"
	"io"
	"os"
	"runtime"
	"sort"
	"strconv"
	"sync"
	"testing"

	"github.com/uber-go/tally"
	"go.uber.org/zap"

	storelib "github.com/uber/kraken/lib/store"
	"github.com/uber/kraken/utils/log"
	"github.com/uber/kraken/utils/verifhlib"
)

func TestVerifC08(t *testing.T) { verifhlib.MainEnv("C08", c08driver) }

// metadata type with suffix `_vmd<s>`, movable iff s is odd
type c08md struct {
	sfx  int
	data []byte
}

func (m *c08md) GetSuffix() string          { return "_vmd" + strconv.Itoa(m.sfx) }
func (m *c08md) Movable() bool              { return m.sfx%2 == 1 }
func (m *c08md) Serialize() ([]byte, error) { return append([]byte{}, m.data...), nil }
func (m *c08md) Deserialize(b []byte) error { m.data = append([]byte{}, b...); return nil }

const (
	c08Create = iota
	c08CreateW
	c08Open
	c08OpenRead
	c08OpenWriteAt
	c08Has
	c08Stat
	c08MarkComplete
	c08Delete
	c08List
	c08Ban
	c08Unban
	c08SetMd
	c08GetMd
	c08DelMd
	c08ListMd
	c08HRead
	c08HReadAt
	c08HSeek
	c08HSize
	c08HWriteAt
	c08HWrite
	c08HOff
	c08HClose
)

var c08names = []string{"Create", "CreateW", "Open", "OpenRead", "OpenWriteAt", "Has", "Stat", "MarkComplete", "Delete", "ListK",
	"Ban", "Unban", "SetMd", "GetMd", "DelMd", "ListMd", "HRead", "HReadAt", "HSeek", "HSize", "HWriteAt", "HWrite", "HOff", "HClose"}

type c08op struct {
	kind   int
	key    int
	scope  int
	size   uint64
	data   []byte
	off    int64
	sfx    int
	h      int
	n      int
	whence int
}

func c08key(i int) string { return fmt.Sprintf("blob-%02d", i) }

var c08scopeCoq = []string{"SAny", "SComplete", "SIncomplete"}

func c08scoped(s *Store, sc int, viaScoped bool) *Store {
	switch sc {
	case 1:
		if viaScoped {
			return s.Scoped(storelib.BlobScopeComplete)
		}
		return s.ScopeComplete()
	case 2:
		if viaScoped {
			return s.Scoped(storelib.BlobScopeIncomplete)
		}
		return s.ScopeIncomplete()
	}
	if viaScoped {
		return s.Scoped(storelib.BlobScopeAny)
	}
	return s
}

func c08err(err error) string {
	switch {
	case err == nil:
		return "OOk"
	case errors.Is(err, ErrEvicted):
		return "OErr EEvicted"
	case errors.Is(err, storelib.ErrOutOfScope):
		return "OErr EOutOfScope"
	case errors.Is(err, os.ErrNotExist):
		return "OErr ENotExist"
	case errors.Is(err, os.ErrExist):
		return "OErr EExist"
	case errors.Is(err, ErrNoSpace):
		return "OErr ENoSpace"
	}
	return "OErr EOther"
}

func c08z(i int64) string { return fmt.Sprintf("(%d)%%Z", i) }

type c08row struct {
	key                    int
	size                   uint64
	complete, banned, node bool
}

func c08snap(s *store, ids map[string]int) (string, []c08row) {
	id := func(k string) int {
		if v, ok := ids[k]; ok {
			return v
		}
		return 999
	}
	s.mu.RLock()
	queue := []int{}
	for e := s.evictQueue.Front(); e != nil; e = e.Next() {
		queue = append(queue, id(e.Value.(string)))
	}
	rows := make([]c08row, 0, len(s.blobs))
	for k, b := range s.blobs {
		rows = append(rows, c08row{id(k), b.size, b.complete, b.evictionBanned, b.node != nil})
	}
	size := s.size
	s.mu.RUnlock()
	sort.Slice(rows, func(i, j int) bool { return rows[i].key < rows[j].key })
	rs := make([]string, len(rows))
	for i, r := range rows {
		rs[i] = fmt.Sprintf("(%d, (%d, %s, %s, %s))", r.key, r.size, verifhlib.B(r.complete), verifhlib.B(r.banned), verifhlib.B(r.node))
	}
	return fmt.Sprintf("mksnap %d %s %s", size, verifhlib.Ns(queue), verifhlib.List(rs)), rows
}

func c08read(p []byte, n int, err error) string {
	switch {
	case err == nil:
		return fmt.Sprintf("ORead %s false", verifhlib.Bytes(p[:n]))
	case err == io.EOF:
		return fmt.Sprintf("ORead %s true", verifhlib.Bytes(p[:n]))
	}
	return c08err(err)
}

type c08state struct {
	st      *Store
	handles []*File
	hkey    []int // key each handle was opened on
}

type c08result struct {
	coq  string
	nt   bool
	hist []string
	tags []string
}

func c08run(capacity uint64, next func(n int, s *c08state) (c08op, bool)) c08result {
	st, err := NewStore(&Config{CapacityBytes: capacity, GOMEMLIMITBytes: 1 << 40}, tally.NoopScope)
	if err != nil {
		panic(err)
	}
	cs := &c08state{st: st}
	ids := map[string]int{}
	for i := 0; i < 16; i++ {
		ids[c08key(i)] = i
	}
	var sops, sobs, hist []string
	tags := map[string]bool{}
	staleOps, liveOps, removed := 0, 0, 0
	for n := 0; ; n++ {
		o, more := next(n, cs)
		if !more {
			break
		}
		key := c08key(o.key)
		sv := c08scoped(st, o.scope, n%3 == 1)
		scq := c08scopeCoq[o.scope]
		_, before := c08snap(st.impl, ids)
		var opq, out string
		var f *File
		if o.kind >= c08HRead {
			if o.h < 0 || o.h >= len(cs.handles) {
				continue
			}
			f = cs.handles[o.h]
			if _, ok := st.impl.blobs[c08key(cs.hkey[o.h])]; ok && f.Size() >= 0 {
				liveOps++
			} else {
				staleOps++
			}
		}
		func() {
			defer func() {
				if r := recover(); r != nil {
					out = "OPanic"
				}
			}()
			switch o.kind {
			case c08Create:
				opq = fmt.Sprintf("Create %d %d", o.key, o.size)
				if st.impl.size+o.size < st.impl.size {
					tags["size-wrap"] = true
				}
				nf, err := sv.Create(key, o.size)
				out = c08err(err)
				if err == nil {
					out = fmt.Sprintf("OHandle %d", len(cs.handles))
					cs.handles = append(cs.handles, nf)
					cs.hkey = append(cs.hkey, o.key)
				}
			case c08CreateW:
				opq = fmt.Sprintf("CreateW %d %d %s", o.key, o.size, verifhlib.Bytes(o.data))
				if st.impl.size+o.size < st.impl.size {
					tags["size-wrap"] = true
				}
				nf, err := sv.Create(key, o.size)
				out = c08err(err)
				if err == nil {
					if _, werr := nf.Write(o.data); werr != nil {
						out = "OErr EOther"
					}
					nf.Close()
				}
			case c08Open:
				opq = fmt.Sprintf("Open %d %s", o.key, scq)
				nf, err := sv.Open(key)
				out = c08err(err)
				if err == nil {
					out = fmt.Sprintf("OHandle %d", len(cs.handles))
					cs.handles = append(cs.handles, nf)
					cs.hkey = append(cs.hkey, o.key)
				}
			case c08OpenRead:
				opq = fmt.Sprintf("OpenRead %d %s", o.key, scq)
				nf, err := sv.Open(key)
				out = c08err(err)
				if err == nil {
					b, rerr := io.ReadAll(nf)
					if rerr != nil {
						out = "OErr EOther"
					} else {
						out = "OBytes " + verifhlib.Bytes(b)
					}
				}
			case c08OpenWriteAt:
				opq = fmt.Sprintf("OpenWriteAt %d %s %d %s", o.key, scq, o.off, verifhlib.Bytes(o.data))
				nf, err := sv.Open(key)
				out = c08err(err)
				if err == nil {
					if _, werr := nf.WriteAt(o.data, o.off); werr != nil {
						out = "OErr EOther"
					}
				}
			case c08Has:
				opq = fmt.Sprintf("Has %d %s", o.key, scq)
				a, b := sv.Has(key)
				out = fmt.Sprintf("OHas %s %s", verifhlib.B(a), verifhlib.B(b))
			case c08Stat:
				opq = fmt.Sprintf("Stat %d %s", o.key, scq)
				sz, err := sv.Stat(key)
				out = c08err(err)
				if err == nil {
					out = "OSize " + c08z(sz)
				}
			case c08MarkComplete:
				opq = fmt.Sprintf("MarkComplete %d", o.key)
				out = c08err(sv.MarkComplete(key))
			case c08Delete:
				opq = fmt.Sprintf("Delete %d %s", o.key, scq)
				out = c08err(sv.Delete(key))
			case c08List:
				opq = "ListK " + scq
				xs := []int{}
				for _, k := range sv.List() {
					if v, ok := ids[k]; ok {
						xs = append(xs, v)
					} else {
						xs = append(xs, 999)
					}
				}
				sort.Ints(xs)
				out = "OKeys " + verifhlib.Ns(xs)
			case c08Ban:
				opq = fmt.Sprintf("Ban %d %s", o.key, scq)
				out = c08err(sv.BanEviction(key))
			case c08Unban:
				opq = fmt.Sprintf("Unban %d %s", o.key, scq)
				out = c08err(sv.UnbanEviction(key))
			case c08SetMd:
				opq = fmt.Sprintf("SetMd %d %s %d %s", o.key, scq, o.sfx, verifhlib.Bytes(o.data))
				out = c08err(sv.SetMetadata(key, &c08md{sfx: o.sfx, data: append([]byte{}, o.data...)}))
			case c08GetMd:
				opq = fmt.Sprintf("GetMd %d %s %d", o.key, scq, o.sfx)
				md := &c08md{sfx: o.sfx, data: []byte("stale")}
				ok, err := sv.GetMetadata(key, md)
				switch {
				case err != nil:
					out = c08err(err)
				case !ok:
					out = "ONone"
				default:
					out = "OBytes " + verifhlib.Bytes(md.data)
				}
			case c08DelMd:
				opq = fmt.Sprintf("DelMd %d %s %d", o.key, scq, o.sfx)
				out = c08err(sv.DeleteMetadata(key, (&c08md{sfx: o.sfx}).GetSuffix()))
			case c08ListMd:
				opq = fmt.Sprintf("ListMd %d %s", o.key, scq)
				mds, err := sv.ListMetadata(key)
				out = c08err(err)
				if err == nil {
					xs := []int{}
					for _, m := range mds {
						if v, ok := m.(*c08md); ok {
							xs = append(xs, v.sfx)
						} else {
							xs = append(xs, 999)
						}
					}
					sort.Ints(xs)
					out = "OKeys " + verifhlib.Ns(xs)
				}
			case c08HRead:
				opq = fmt.Sprintf("HRead %d %d", o.h, o.n)
				p := make([]byte, o.n)
				n, err := f.Read(p)
				out = c08read(p, n, err)
			case c08HReadAt:
				opq = fmt.Sprintf("HReadAt %d %d %s", o.h, o.n, c08z(o.off))
				p := make([]byte, o.n)
				n, err := f.ReadAt(p, o.off)
				out = c08read(p, n, err)
			case c08HSeek:
				opq = fmt.Sprintf("HSeek %d %s %d", o.h, c08z(o.off), o.whence)
				no, err := f.Seek(o.off, o.whence)
				out = c08err(err)
				if err == nil {
					out = "OSize " + c08z(no)
				}
			case c08HSize:
				opq = fmt.Sprintf("HSize %d", o.h)
				out = "OSize " + c08z(f.Size())
			case c08HWriteAt:
				opq = fmt.Sprintf("HWriteAt %d %s %s", o.h, verifhlib.Bytes(o.data), c08z(o.off))
				n, err := f.WriteAt(o.data, o.off)
				out = c08err(err)
				if err == nil {
					out = fmt.Sprintf("OWrote %d", n)
				}
			case c08HWrite:
				opq = fmt.Sprintf("HWrite %d %s", o.h, verifhlib.Bytes(o.data))
				n, err := f.Write(o.data)
				out = c08err(err)
				if err == nil {
					out = fmt.Sprintf("OWrote %d", n)
				}
			case c08HOff:
				opq = fmt.Sprintf("HOff %d", o.h)
				out = "OSize " + c08z(f.Off())
			case c08HClose:
				opq = fmt.Sprintf("HClose %d", o.h)
				switch n % 3 {
				case 0:
					out = c08err(f.Close())
				case 1:
					out = c08err(f.Cancel())
				default:
					out = c08err(f.Commit())
				}
			}
		}()
		snap, after := c08snap(st.impl, ids)
		if len(after) < len(before) || ((o.kind == c08Create || o.kind == c08CreateW) && (out == "OOk" || out[:2] == "OH") && len(after) <= len(before)) {
			removed++
		}
		sops = append(sops, opq)
		sobs = append(sobs, "("+out+", "+snap+")")
		hist = append(hist, c08names[o.kind])
	}
	var tl []string
	for t := range tags {
		tl = append(tl, t)
	}
	sort.Strings(tl)
	return c08result{
		coq:  fmt.Sprintf("mkcase %d %s %s", capacity, verifhlib.List(sops), verifhlib.List(sobs)),
		nt:   removed >= 1 && staleOps >= 1 && liveOps >= 1,
		hist: hist, tags: tl,
	}
}

// ---------------------------------------------------------------- generators

const c08max = ^uint64(0)

func c08fixed(ops []c08op) func(int, *c08state) (c08op, bool) {
	return func(n int, _ *c08state) (c08op, bool) {
		if n >= len(ops) {
			return c08op{}, false
		}
		return ops[n], true
	}
}

func c08gen(r *verifhlib.Rng, capacity uint64, nkeys, n int, malformed bool) func(int, *c08state) (c08op, bool) {
	return func(i int, s *c08state) (c08op, bool) {
		if i >= n {
			return c08op{}, false
		}
		return c08next(r, capacity, nkeys, malformed, s), true
	}
}

func c08next(r *verifhlib.Rng, capacity uint64, nkeys int, malformed bool, s *c08state) c08op {
	st := s.st.impl
	exists, complete, banned := map[int]bool{}, map[int]bool{}, map[int]bool{}
	for k := 0; k < nkeys; k++ {
		if b, ok := st.blobs[c08key(k)]; ok {
			exists[k], complete[k], banned[k] = true, b.complete, b.evictionBanned
		}
	}
	free := uint64(0)
	if st.size <= capacity {
		free = capacity - st.size
	}
	miss := false
	pickKey := func(want func(k int) bool) int {
		if !malformed && r.Chance(94) {
			var c []int
			for k := 0; k < nkeys; k++ {
				if want(k) {
					c = append(c, k)
				}
			}
			if len(c) > 0 {
				return c[r.Intn(len(c))]
			}
			miss = true
		}
		return r.Intn(nkeys)
	}
	scopeFor := func(k int) int {
		if malformed || r.Chance(12) {
			return r.Intn(3)
		}
		if r.Chance(50) {
			return 0
		}
		if complete[k] {
			return 1
		}
		return 2
	}
	size := func() uint64 {
		c := capacity
		switch r.Intn(22) {
		case 0:
			return 0
		case 1:
			return 1
		case 2:
			return c
		case 3:
			return c + 1
		case 4:
			return c - 1
		case 5:
			if malformed {
				return c08max - uint64(r.Intn(200))
			}
			return c / 2
		case 6:
			if malformed {
				return 1<<63 + uint64(r.Intn(3)) - 1
			}
			return c/2 + 1
		case 7:
			return free
		case 8:
			return free + 1
		case 9:
			if malformed {
				return c08max - st.size + uint64(r.Intn(3)) // size+space = 2^64-1, 2^64, 2^64+1
			}
			return c / 4
		}
		d := uint64(r.Range(2, 6))
		v := c / d
		if v > 4 && r.Bool() {
			v -= uint64(r.Intn(4))
		}
		return v
	}
	pickHandle := func() int {
		if len(s.handles) == 0 {
			miss = true
			return 0
		}
		// prefer handles whose blob is gone, then recent handles
		if r.Chance(35) {
			var stale []int
			for i, f := range s.handles {
				if f.Size() < 0 {
					stale = append(stale, i)
				}
			}
			if len(stale) > 0 {
				return stale[r.Intn(len(stale))]
			}
		}
		if r.Chance(60) {
			return len(s.handles) - 1 - r.Intn(min(len(s.handles), 4))
		}
		return r.Intn(len(s.handles))
	}
	any := func(k int) bool { return exists[k] }
	for try := 0; ; try++ {
		miss = false
		k := r.Intn(100)
		if len(exists) < 2 && r.Chance(50) {
			k = r.Intn(14)
		}
		var o c08op
		switch {
		case k < 10:
			o = c08op{kind: c08Create, key: pickKey(func(k int) bool { return !exists[k] }), size: size()}
		case k < 14:
			o = c08op{kind: c08CreateW, key: pickKey(func(k int) bool { return !exists[k] }), size: size(), data: r.Bytes(r.Intn(6))}
		case k < 26:
			o = c08op{kind: c08MarkComplete, key: pickKey(func(k int) bool { return exists[k] && !complete[k] })}
		case k < 33:
			o = c08op{kind: c08Open, key: pickKey(any)}
			o.scope = scopeFor(o.key)
		case k < 36:
			o = c08op{kind: c08OpenRead, key: pickKey(any)}
			o.scope = scopeFor(o.key)
		case k < 38:
			o = c08op{kind: c08OpenWriteAt, key: pickKey(any), off: int64(r.Intn(8)), data: r.Bytes(1 + r.Intn(4))}
			o.scope = scopeFor(o.key)
		case k < 42:
			o = c08op{kind: c08Delete, key: pickKey(any)}
			o.scope = scopeFor(o.key)
		case k < 45:
			o = c08op{kind: c08Ban, key: pickKey(func(k int) bool { return exists[k] && !banned[k] })}
			o.scope = scopeFor(o.key)
		case k < 49:
			o = c08op{kind: c08Unban, key: pickKey(func(k int) bool { return exists[k] && banned[k] })}
			o.scope = scopeFor(o.key)
		case k < 50:
			o = c08op{kind: c08Has, key: r.Intn(nkeys), scope: r.Intn(3)}
		case k < 52:
			o = c08op{kind: c08Stat, key: pickKey(any)}
			o.scope = scopeFor(o.key)
		case k < 54:
			o = c08op{kind: c08List, scope: r.Intn(3)}
		case k < 59:
			o = c08op{kind: c08SetMd, key: pickKey(any), sfx: r.Intn(4), data: r.Bytes(r.Intn(5))}
			o.scope = scopeFor(o.key)
		case k < 63:
			o = c08op{kind: c08GetMd, key: pickKey(any), sfx: r.Intn(4)}
			o.scope = scopeFor(o.key)
		case k < 65:
			o = c08op{kind: c08DelMd, key: pickKey(any), sfx: r.Intn(4)}
			o.scope = scopeFor(o.key)
		case k < 67:
			o = c08op{kind: c08ListMd, key: pickKey(any)}
			o.scope = scopeFor(o.key)
		case k < 74:
			o = c08op{kind: c08HRead, h: pickHandle(), n: []int{0, 1, 2, 3, 8}[r.Intn(5)]}
		case k < 79:
			o = c08op{kind: c08HReadAt, h: pickHandle(), n: []int{0, 1, 2, 4, 8}[r.Intn(5)], off: int64(r.Intn(7))}
			if malformed && r.Chance(30) {
				o.off = -1 - int64(r.Intn(3))
			}
		case k < 83:
			o = c08op{kind: c08HSeek, h: pickHandle(), off: int64(r.Intn(6)), whence: r.Intn(3)}
			if r.Chance(25) {
				o.off = -int64(r.Intn(4))
			}
			if malformed && r.Chance(30) {
				o.whence = 3 + r.Intn(3)
			}
		case k < 87:
			o = c08op{kind: c08HSize, h: pickHandle()}
		case k < 91:
			o = c08op{kind: c08HWriteAt, h: pickHandle(), data: r.Bytes(1 + r.Intn(4)), off: int64(r.Intn(7))}
			if malformed && r.Chance(30) {
				o.off = -1
			}
			if r.Chance(10) {
				o.data, o.off = nil, 0 // zero-length write inside the buffer (past EOF: see C12)
			}
		case k < 96:
			o = c08op{kind: c08HWrite, h: pickHandle(), data: r.Bytes(r.Intn(5))}
		case k < 98:
			o = c08op{kind: c08HOff, h: pickHandle()}
		default:
			o = c08op{kind: c08HClose, h: pickHandle()}
		}
		if !miss || try >= 6 {
			if miss && o.kind >= c08HRead {
				continue
			}
			return o
		}
	}
}

// ---------------------------------------------------------------- race stream

// one run: creators admit 14 blobs of 40 bytes into a store of capacity 100 (each admission evicts
// the oldest complete blob) while readers hold handles and keep reading / asking for the size.
func c08race(ctx *verifhlib.Ctx, run int) {
	st, err := NewStore(&Config{CapacityBytes: 100, GOMEMLIMITBytes: 1 << 40}, tally.NoopScope)
	if err != nil {
		panic(err)
	}
	const nblobs = 14
	var created sync.Map
	var wg sync.WaitGroup
	for c := 0; c < 2; c++ {
		wg.Add(1)
		go func(c int) {
			defer wg.Done()
			for j := c; j < nblobs; j += 2 {
				f, err := st.Create(c08key(j), 40)
				if err != nil {
					runtime.Gosched()
					continue
				}
				fill := make([]byte, 8)
				for i := range fill {
					fill[i] = byte(j + 1)
				}
				f.Write(fill)
				created.Store(j, true)
				st.MarkComplete(c08key(j))
				runtime.Gosched()
			}
		}(c)
	}
	type rec struct {
		fill int
		obs  []string
		seenB, seenE bool
	}
	recs := make([][]rec, 4)
	for rd := 0; rd < 4; rd++ {
		wg.Add(1)
		go func(rd int) {
			defer wg.Done()
			rr := verifhlib.NewRng(ctx.Seed*1000003 + uint64(run)*17 + uint64(rd))
			for it := 0; it < 6; it++ {
				j := rr.Intn(nblobs)
				if _, ok := created.Load(j); !ok {
					runtime.Gosched()
					continue
				}
				f, err := st.Open(c08key(j))
				if err != nil {
					continue
				}
				rc := rec{fill: j + 1}
				for q := 0; q < 12; q++ {
					switch rr.Intn(3) {
					case 0:
						p := make([]byte, 8)
						n, err := f.ReadAt(p, 0)
						if errors.Is(err, ErrEvicted) {
							rc.obs = append(rc.obs, "REvicted")
							rc.seenE = true
						} else {
							rc.obs = append(rc.obs, "RBytes "+verifhlib.Bytes(p[:n]))
							rc.seenB = rc.seenB || n > 0
						}
					case 1:
						f.Seek(0, io.SeekStart)
						p := make([]byte, 4)
						n, err := f.Read(p)
						if errors.Is(err, ErrEvicted) {
							rc.obs = append(rc.obs, "REvicted")
							rc.seenE = true
						} else {
							rc.obs = append(rc.obs, "RBytes "+verifhlib.Bytes(p[:n]))
							rc.seenB = rc.seenB || n > 0
						}
					default:
						rc.obs = append(rc.obs, "RSize "+c08z(f.Size()))
					}
					if q%3 == 2 {
						runtime.Gosched()
					}
				}
				recs[rd] = append(recs[rd], rc)
			}
		}(rd)
	}
	wg.Wait()
	for _, l := range recs {
		for _, rc := range l {
			coq := fmt.Sprintf("mkrace %d %s", rc.fill, verifhlib.List(rc.obs))
			ctx.Emit(verifhlib.Case{Coq: coq, NT: rc.seenB && rc.seenE, Kind: "race", Hist: []string{"race-handle"},
				Sample: map[string]string{"case": coq}})
		}
	}
}

func c08driver(ctx *verifhlib.Ctx) {
	log.SetGlobalLogger(zap.NewNop().Sugar())
	r := verifhlib.NewRng(ctx.Seed)
	emitg := func(capacity uint64, next func(int, *c08state) (c08op, bool), kind string) {
		res := c08run(capacity, next)
		ctx.Emit(verifhlib.Case{Coq: res.coq, NT: res.nt, Kind: kind, Hist: res.hist, Tags: res.tags,
			Sample: map[string]string{"case": res.coq}})
	}
	emit := func(capacity uint64, ops []c08op, kind string) { emitg(capacity, c08fixed(ops), kind) }
	cr := func(k int, size uint64) c08op { return c08op{kind: c08Create, key: k, size: size} }
	cw := func(k int, size uint64, data string) c08op {
		return c08op{kind: c08CreateW, key: k, size: size, data: []byte(data)}
	}
	mc := func(k int) c08op { return c08op{kind: c08MarkComplete, key: k} }
	op := func(kind, k, sc int) c08op { return c08op{kind: kind, key: k, scope: sc} }
	hw := func(h int, data string) c08op { return c08op{kind: c08HWrite, h: h, data: []byte(data)} }
	hr := func(h, n int) c08op { return c08op{kind: c08HRead, h: h, n: n} }
	hra := func(h, n int, off int64) c08op { return c08op{kind: c08HReadAt, h: h, n: n, off: off} }
	hk := func(kind, h int) c08op { return c08op{kind: kind, h: h} }
	allStale := func(h int) []c08op {
		return []c08op{hr(h, 4), hr(h, 0), hra(h, 4, 0), hra(h, 0, 0), hra(h, 2, -1), {kind: c08HSeek, h: h, off: 0, whence: 0},
			{kind: c08HSeek, h: h, off: 0, whence: 7}, hk(c08HSize, h), {kind: c08HWriteAt, h: h, data: []byte("zz"), off: 1},
			{kind: c08HWriteAt, h: h, data: []byte("zz"), off: -1}, hw(h, "yy"), hw(h, ""), hk(c08HOff, h), hk(c08HClose, h), hk(c08HClose, h), hk(c08HClose, h)}
	}

	// ---- seeds
	// C07_wrap_refuted / C08_wrap_refuted: 10 + (2^64-5) wraps to 5 <= 100 on the pre-fix code (and make() panics)
	emit(100, []c08op{cw(0, 10, "ab"), cw(1, c08max-4, ""), op(c08List, 0, 0), cr(2, c08max), op(c08Delete, 0, 0)}, "seed-size-wrap")
	emit(100, []c08op{cw(0, 10, ""), mc(0), cw(1, c08max-9, ""), op(c08List, 0, 0)}, "seed-size-wrap-to-zero")
	// stale handle after EVICTION: every handle operation, with the argument-check-first cases
	emit(100, append([]c08op{cr(0, 60), hw(0, "hello"), mc(0), op(c08Open, 0, 1), hr(1, 2), cw(1, 60, "other"), op(c08Has, 0, 0)},
		append(allStale(0), allStale(1)...)...), "seed-stale-after-eviction")
	// stale handle after DELETE, then re-creation of the same key: old handles stay dead, never see the new bytes
	emit(100, append([]c08op{cr(0, 10), hw(0, "first"), op(c08Open, 0, 0), op(c08Delete, 0, 0), cr(0, 10), hw(2, "SECOND"), hra(2, 8, 0)},
		append(allStale(0), append(allStale(1), hra(2, 8, 0), op(c08OpenRead, 0, 0))...)...), "seed-stale-after-delete-recreate")
	// live handles: shared cell between two handles, private offsets, growth beyond the declared size, seeks
	emit(100, []c08op{cr(0, 4), op(c08Open, 0, 2), hw(0, "abcdef"), hr(1, 4), hr(1, 4), hr(1, 4), hk(c08HOff, 1), hk(c08HSize, 0), op(c08Stat, 0, 0),
		{kind: c08HWriteAt, h: 1, data: []byte("XY"), off: 8}, hra(0, 16, 0), {kind: c08HSeek, h: 0, off: -2, whence: 2}, hr(0, 8),
		{kind: c08HSeek, h: 0, off: 1, whence: 1}, {kind: c08HSeek, h: 0, off: 1, whence: 0}, {kind: c08HSeek, h: 0, off: -1, whence: 1}, hw(0, "Q"),
		hra(1, 3, 9), hra(1, 3, 10), hra(1, 3, 11), hk(c08HClose, 0), hr(0, 1), mc(0), hr(0, 1)}, "seed-live-handles")
	// admission boundaries and LRU order (as C07)
	emit(100, []c08op{cw(0, 60, "x"), cw(1, 40, "y"), cw(2, 1, ""), cw(2, 0, ""), mc(0), cw(3, 1, ""), cw(4, 101, ""), op(c08List, 0, 0)}, "seed-admission-boundary")
	emit(100, []c08op{cw(0, 30, "a"), cw(1, 30, "b"), cw(2, 30, "c"), mc(1), mc(0), mc(2), op(c08Open, 1, 1), op(c08Ban, 0, 0), op(c08Unban, 0, 1),
		cw(3, 30, "d"), hr(0, 1), cw(4, 30, "e"), cw(5, 30, "f"), hr(0, 1), op(c08List, 0, 0)}, "seed-lru-order")
	emit(100, []c08op{cw(0, 40, ""), cw(1, 40, ""), mc(0), op(c08Ban, 0, 1), cw(2, 40, ""), op(c08Unban, 0, 0), cw(2, 40, ""), op(c08List, 0, 0)}, "seed-unevictable")
	emit(100, []c08op{cw(0, 50, ""), op(c08Ban, 0, 2), mc(0), cw(1, 60, ""), op(c08Unban, 0, 1), cw(1, 60, ""), op(c08Has, 0, 0)}, "seed-ban-then-complete")
	emit(100, []c08op{cw(0, 10, "in"), cw(1, 10, "co"), mc(1), op(c08OpenRead, 0, 1), op(c08OpenRead, 0, 2), op(c08OpenRead, 1, 1), op(c08OpenRead, 1, 2),
		op(c08Open, 0, 1), op(c08Open, 1, 2), op(c08Has, 0, 1), op(c08Has, 1, 2), op(c08Has, 5, 0), op(c08List, 0, 0), op(c08List, 0, 1), op(c08List, 0, 2),
		op(c08Delete, 0, 1), op(c08Delete, 1, 2), op(c08Stat, 0, 1), op(c08Stat, 1, 0), op(c08Ban, 0, 1), op(c08Unban, 1, 2)}, "seed-scopes")
	emit(100, []c08op{cw(0, 10, ""), {kind: c08SetMd, key: 0, sfx: 1, data: []byte("m1")}, {kind: c08SetMd, key: 0, sfx: 2, data: []byte("i1")},
		{kind: c08SetMd, key: 0, sfx: 1, data: []byte("m2")}, {kind: c08GetMd, key: 0, sfx: 1}, {kind: c08GetMd, key: 0, sfx: 2}, {kind: c08GetMd, key: 0, sfx: 3},
		op(c08ListMd, 0, 0), mc(0), {kind: c08GetMd, key: 0, sfx: 1}, {kind: c08GetMd, key: 0, sfx: 2}, op(c08ListMd, 0, 1),
		{kind: c08SetMd, key: 0, sfx: 2, data: []byte("i2")}, {kind: c08GetMd, key: 0, sfx: 2, scope: 1}, {kind: c08DelMd, key: 0, sfx: 1},
		{kind: c08DelMd, key: 0, sfx: 1}, {kind: c08GetMd, key: 0, sfx: 1}, {kind: c08GetMd, key: 0, sfx: 1, scope: 2}}, "seed-metadata")

	if ctx.Tier == "thorough" {
		// exhaustive: every history of length <= 4 over 2 keys with kept handles (validates the correspondence; not the proof)
		alpha := []c08op{cr(0, 60), cr(1, 60), mc(0), mc(1), op(c08Open, 0, 0), op(c08Open, 1, 1), op(c08Delete, 0, 0), op(c08Delete, 1, 2),
			op(c08Ban, 0, 0), op(c08Unban, 0, 0), hw(0, "ab"), hr(0, 2), hra(1, 2, 0)}
		var rec func(prefix []c08op, depth int)
		rec = func(prefix []c08op, depth int) {
			if len(prefix) > 0 {
				emit(100, append(append([]c08op{}, prefix...), cw(2, 50, ""), hk(c08HSize, 0), hk(c08HSize, 1), op(c08List, 0, 0)), "exhaustive")
			}
			if depth == 0 {
				return
			}
			for _, a := range alpha {
				rec(append(prefix, a), depth-1)
			}
		}
		rec(nil, 4)
		for i := 0; i < 200; i++ {
			c08race(ctx, i)
		}
	}

	caps := []uint64{100, 100, 100, 1000, 7, 1, 4096, 1 << 20}
	maxLen := 30
	if ctx.Tier == "thorough" {
		maxLen = 80
	}
	for i := 0; i < ctx.N; i++ {
		rr := r.Fork()
		capacity := caps[rr.Intn(len(caps))]
		malformed := rr.Chance(15)
		kind := "random"
		if malformed {
			kind = "random-malformed"
		}
		emitg(capacity, c08gen(rr, capacity, rr.Range(3, 5), rr.Range(10, maxLen), malformed), kind)
	}
}
