package main

import (
	"context"
	"errors"
	"fmt"
	"sort"
	"sync"
	"time"

	"github.com/uber/kraken/lib/healthcheck"
	"github.com/uber/kraken/utils/log"
	"github.com/uber/kraken/utils/stringset"
	"go.uber.org/zap"
	"verifharness/hlib"
)

// C23: histories of Filter.Run calls (scripted Checker) on the real healthcheck.Filter, and the
// same histories driven through a real healthcheck.Monitor with a gated host list.
func init() { hlib.Register("C23", c23) }

// outcome of one scripted check
const (
	c23Fail = 0 // checker returns an error at once
	c23Pass = 1 // checker returns nil at once
	c23Hang = 2 // checker blocks until the context of Run expires (filter.go:80-82)
)

type c23call struct {
	hosts []int // sorted, distinct
	outs  []int // outcome per host
}

func (c c23call) hasHang() bool {
	for _, o := range c.outs {
		if o == c23Hang {
			return true
		}
	}
	return false
}

type c23case struct {
	f, p  int
	calls []c23call
}

func c23addr(i int) string { return fmt.Sprintf("h%d:80", i) }

func c23set(hosts []int) stringset.Set {
	s := stringset.New()
	for _, h := range hosts {
		s.Add(c23addr(h))
	}
	return s
}

var c23names = func() map[string]int {
	m := map[string]int{}
	for i := 0; i < 32; i++ {
		m[c23addr(i)] = i
	}
	return m
}()

func c23ids(s stringset.Set) []int {
	var ids []int
	for a := range s {
		id, ok := c23names[a]
		if !ok {
			id = 999
		}
		ids = append(ids, id)
	}
	sort.Ints(ids)
	return ids
}

type c23checker struct {
	mu  sync.Mutex
	cur map[string]int
}

func (c *c23checker) set(call c23call) {
	m := map[string]int{}
	for i, h := range call.hosts {
		m[c23addr(h)] = call.outs[i]
	}
	c.mu.Lock()
	c.cur = m
	c.mu.Unlock()
}

func (c *c23checker) Check(ctx context.Context, addr string) error {
	c.mu.Lock()
	o, ok := c.cur[addr]
	c.mu.Unlock()
	if !ok {
		return errors.New("unscripted check")
	}
	switch o {
	case c23Pass:
		return nil
	case c23Hang:
		<-ctx.Done()
		return ctx.Err()
	}
	return errors.New("scripted failure")
}

func (cs c23case) timeout() time.Duration {
	for _, c := range cs.calls {
		if c.hasHang() {
			return 25 * time.Millisecond
		}
	}
	return 5 * time.Second
}

// timedFilter notes whether a call without a hanging check came close to the check timeout
// (then the outcome of that call depended on the wall clock and the case is not evaluated).
type c23timed struct {
	inner   healthcheck.Filter
	to      time.Duration
	hang    func() bool
	unsound bool
}

func (t *c23timed) Run(addrs stringset.Set) stringset.Set {
	hang := t.hang()
	t0 := time.Now()
	r := t.inner.Run(addrs)
	if !hang && time.Since(t0) >= t.to {
		t.unsound = true
	}
	return r
}

// direct path: one Filter, Run called once per scripted call
func c23direct(cs c23case) (obs [][]int, incon bool) {
	chk := &c23checker{}
	to := cs.timeout()
	var cur c23call
	f := &c23timed{
		inner: healthcheck.NewFilter(healthcheck.FilterConfig{Fails: cs.f, Passes: cs.p, Timeout: to}, chk),
		to:    to, hang: func() bool { return cur.hasHang() }}
	for _, c := range cs.calls {
		cur = c
		chk.set(c)
		obs = append(obs, c23ids(f.Run(c23set(c.hosts))))
	}
	return obs, f.unsound
}

// gated host list: the monitor's loop blocks in Resolve until the driver hands it the next set
type c23gated struct {
	first   stringset.Set
	started bool
	arrived chan struct{}
	next    chan stringset.Set
	done    chan struct{}
}

func (l *c23gated) Resolve() stringset.Set {
	if !l.started { // the call made by NewMonitor itself
		l.started = true
		return l.first.Copy()
	}
	select {
	case l.arrived <- struct{}{}:
	case <-l.done:
		return stringset.New()
	}
	select {
	case s := <-l.next:
		return s
	case <-l.done:
		return stringset.New()
	}
}

// monitor path: a second Filter driven by a real Monitor; Resolve() snapshots before the first
// and after every loop iteration (the loop is back in hosts.Resolve() when a snapshot is taken,
// so the previous iteration has stored its result).
func c23monitor(cs c23case, initial []int) (snaps [][]int, incon bool) {
	chk := &c23checker{}
	to := cs.timeout()
	var mu sync.Mutex
	var cur c23call
	tf := &c23timed{
		inner: healthcheck.NewFilter(healthcheck.FilterConfig{Fails: cs.f, Passes: cs.p, Timeout: to}, chk),
		to:    to, hang: func() bool { mu.Lock(); defer mu.Unlock(); return cur.hasHang() }}
	gl := &c23gated{first: c23set(initial), arrived: make(chan struct{}), next: make(chan stringset.Set), done: make(chan struct{})}
	m := healthcheck.NewMonitor(healthcheck.MonitorConfig{Interval: 1}, gl, tf)
	defer func() { m.Stop(); close(gl.done) }()
	snaps = append(snaps, c23ids(m.Resolve()))
	wait := func() bool {
		select {
		case <-gl.arrived:
			return true
		case <-time.After(30 * time.Second):
			return false
		}
	}
	for k, c := range cs.calls {
		if !wait() {
			return snaps, true
		}
		if k > 0 {
			snaps = append(snaps, c23ids(m.Resolve()))
		}
		mu.Lock()
		cur = c
		mu.Unlock()
		chk.set(c)
		gl.next <- c23set(c.hosts)
	}
	if len(cs.calls) > 0 {
		if !wait() {
			return snaps, true
		}
		snaps = append(snaps, c23ids(m.Resolve()))
	}
	return snaps, tf.unsound
}

func c23nss(xss [][]int) string {
	s := make([]string, len(xss))
	for i, xs := range xss {
		s[i] = hlib.Ns(xs)
	}
	return hlib.List(s)
}

func c23coqHist(cs c23case) string {
	var calls []string
	for _, c := range cs.calls {
		var ps []string
		for i, h := range c.hosts {
			ps = append(ps, hlib.Pair(hlib.N(h), hlib.B(c.outs[i] == c23Pass)))
		}
		calls = append(calls, hlib.List(ps))
	}
	return hlib.List(calls)
}

func c23emit(ctx *hlib.Ctx, cs c23case, kind string, withMon bool) {
	obs, incon := c23direct(cs)
	mon := "None"
	var snaps [][]int
	var initial []int
	if withMon {
		if len(cs.calls) > 0 {
			initial = cs.calls[0].hosts
		}
		var inc2 bool
		snaps, inc2 = c23monitor(cs, initial)
		incon = incon || inc2
		mon = "(Some (" + hlib.Ns(initial) + ", " + c23nss(snaps) + "))"
	}
	// non-trivial: some call with >= 2 hosts had a host filtered out
	nt := false
	var hist, tags []string
	seen := map[int]bool{}
	prev := map[int]bool{}
	tagset := map[string]bool{}
	for i, c := range cs.calls {
		k := "multi"
		switch len(c.hosts) {
		case 0:
			k = "empty"
		case 1:
			k = "single"
		}
		if c.hasHang() {
			k += "+hang"
		}
		now := map[int]bool{}
		for _, h := range c.hosts {
			now[h] = true
			if seen[h] && !prev[h] && i > 0 {
				tagset["rejoin"] = true
				k += "+rejoin"
			}
			seen[h] = true
		}
		prev = now
		hist = append(hist, k)
		if len(c.hosts) >= 2 && i < len(obs) && len(obs[i]) < len(c.hosts) {
			nt = true
		}
		if len(c.hosts) == 1 {
			tagset["single"] = true
		}
	}
	for t := range tagset {
		tags = append(tags, t)
	}
	sort.Strings(tags)
	h := c23coqHist(cs)
	coq := fmt.Sprintf("mkcase %d %d %s %s %s", cs.f, cs.p, h, c23nss(obs), mon)
	ctx.Emit(hlib.Case{Coq: coq, NT: nt, Kind: kind, Hist: hist, Tags: tags, Incon: incon,
		Sample: map[string]interface{}{"fails": cs.f, "passes": cs.p, "calls": h, "run_returned": c23nss(obs), "monitor_resolve": c23nss(snaps)}})
}

func c23mk(f, p int, calls ...c23call) c23case { return c23case{f: f, p: p, calls: calls} }

// call literal: pairs host,outcome
func cl(hp ...int) c23call {
	var c c23call
	for i := 0; i+1 < len(hp); i += 2 {
		c.hosts = append(c.hosts, hp[i])
		c.outs = append(c.outs, hp[i+1])
	}
	return c
}

func c23seeds(ctx *hlib.Ctx) {
	P, F, H := c23Pass, c23Fail, c23Hang
	// witness of C23_rejoin_refuted: unhealthy host leaves, rejoins passing -> must be healthy
	c23emit(ctx, c23mk(2, 2, cl(0, P, 1, F), cl(0, P, 1, F), cl(0, P, 2, P), cl(0, P, 1, P, 2, P)), "seed-rejoin-unhealthy", true)
	// a healthy host leaves and rejoins -> must still be healthy
	c23emit(ctx, c23mk(2, 2, cl(0, P, 1, P), cl(0, P, 2, P), cl(0, P, 1, P, 2, P)), "seed-rejoin-healthy", true)
	// rejoining with a failing check, Fails=2: healthy for one more call
	c23emit(ctx, c23mk(2, 1, cl(0, P, 1, F), cl(0, P, 1, F), cl(0, P, 2, P), cl(0, P, 1, F), cl(0, P, 1, F)), "seed-rejoin-failing", true)
	// witness of C23_single_skip_refuted: the list shrinks to one host, then the unhealthy one rejoins
	c23emit(ctx, c23mk(2, 2, cl(0, P, 1, F), cl(0, P, 1, F), cl(0, P), cl(0, P, 1, P)), "seed-single-then-rejoin", true)
	// single host that is unhealthy is still returned; its streak continues afterwards
	c23emit(ctx, c23mk(2, 2, cl(0, F, 1, P), cl(0, F, 1, P), cl(0, F), cl(0, F, 1, P), cl(0, P, 1, P), cl(0, P, 1, P)), "seed-single-unhealthy", true)
	// very first call has a single host
	c23emit(ctx, c23mk(1, 1, cl(3, F), cl(3, F, 1, P), cl(3, P, 1, P)), "seed-single-first", true)
	// empty list forgets everybody
	c23emit(ctx, c23mk(1, 1, cl(0, P, 1, F), cl(), cl(0, P, 1, P), cl(), cl(0, F, 1, F)), "seed-empty", true)
	// hysteresis boundaries, Fails=3 Passes=2 (state_test.go through Run)
	c23emit(ctx, c23mk(3, 2, cl(0, P, 1, P), cl(0, P, 1, P), cl(0, F, 1, P), cl(0, F, 1, P), cl(0, F, 1, P), cl(0, F, 1, P),
		cl(0, P, 1, P), cl(0, P, 1, P), cl(0, P, 1, P)), "seed-boundary-3-2", true)
	// a pass interrupts the failing streak
	c23emit(ctx, c23mk(3, 2, cl(0, F, 1, P), cl(0, F, 1, P), cl(0, P, 1, P), cl(0, F, 1, P), cl(0, F, 1, P), cl(0, F, 1, P),
		cl(0, P, 1, F), cl(0, F, 1, F), cl(0, P, 1, F), cl(0, P, 1, P)), "seed-streak-reset", true)
	// defaults (Fails=0 -> 3, Passes=0 -> 2)
	c23emit(ctx, c23mk(0, 0, cl(0, F, 1, P), cl(0, F, 1, P), cl(0, F, 1, P), cl(0, P, 1, P), cl(0, P, 1, P)), "seed-defaults", true)
	c23emit(ctx, c23mk(0, 1, cl(0, F, 1, P), cl(0, F, 1, P), cl(0, F, 1, P), cl(0, P, 1, P)), "seed-defaults", true)
	c23emit(ctx, c23mk(1, 0, cl(0, F, 1, P), cl(0, P, 1, P), cl(0, P, 1, P)), "seed-defaults", true)
	// Fails=1: a new host whose first check fails is filtered at once
	c23emit(ctx, c23mk(1, 3, cl(0, F, 1, P), cl(0, P, 1, P), cl(0, P, 1, P), cl(0, P, 1, P)), "seed-fails-1", true)
	// a check that outlives the timeout counts as failed
	c23emit(ctx, c23mk(1, 1, cl(0, P, 1, P), cl(0, H, 1, F), cl(0, P, 1, P)), "seed-timeout", true)
	c23emit(ctx, c23mk(2, 1, cl(0, H, 1, H, 2, F), cl(0, H, 1, F, 2, F), cl(0, P, 1, P, 2, F)), "seed-timeout", true)
	// no call at all
	c23emit(ctx, c23mk(2, 2), "seed-no-call", true)
}

func c23(ctx *hlib.Ctx) {
	log.SetGlobalLogger(zap.NewNop().Sugar()) // state.failed logs every transition
	r := hlib.NewRng(ctx.Seed)
	c23seeds(ctx)
	if ctx.Tier == "thorough" {
		// exhaustive small scope (validates the correspondence; not the proof): host 0 absent /
		// passing / failing, host 1 absent / passing -> lists of size 0, 1, 2 -- every history of
		// length <= 4 for Fails, Passes in 1..3, and of length 5 for (Fails,Passes) in {(2,2),(3,2),(2,3),(1,3)}
		alpha := []c23call{cl(), cl(0, c23Pass), cl(0, c23Fail), cl(1, c23Pass), cl(0, c23Pass, 1, c23Pass), cl(0, c23Fail, 1, c23Pass)}
		cnt := 0
		var rec func(prefix []c23call, depth int)
		rec = func(prefix []c23call, depth int) {
			if len(prefix) > 0 {
				for f := 1; f <= 3; f++ {
					for p := 1; p <= 3; p++ {
						// all 9 settings up to length 4; at length 5 the settings whose thresholds can
						// still be crossed in both directions within 5 calls
						if len(prefix) == 5 && !((f == 2 && p == 2) || (f == 3 && p == 2) || (f == 2 && p == 3) || (f == 1 && p == 3)) {
							continue
						}
						cnt++
						c23emit(ctx, c23case{f, p, append([]c23call{}, prefix...)}, "exhaustive", cnt%16 == 0)
					}
				}
			}
			if depth == 0 {
				return
			}
			for _, a := range alpha {
				rec(append(prefix, a), depth-1)
			}
		}
		rec(nil, 5)
	}
	maxLen := 25
	if ctx.Tier == "thorough" {
		maxLen = 60
	}
	for i := 0; i < ctx.N; i++ {
		cs := c23case{f: r.Range(1, 3), p: r.Range(1, 3)}
		switch r.Intn(20) {
		case 0:
			cs.f = 0
		case 1:
			cs.p = 0
		case 2:
			cs.f, cs.p = r.Range(1, 5), r.Range(1, 5)
		}
		nh := r.Range(2, 4)
		n := r.Range(1, maxLen)
		kind := "random"
		hangs := r.Chance(4)
		if hangs {
			kind = "random-timeout"
			if n > 12 {
				n = 12
			}
		}
		churn := []int{3, 10, 25}[r.Intn(3)] // % chance per call that a host flips membership
		// shadow state: membership and a per-host disposition so that streaks long enough to cross
		// the thresholds in both directions are common
		member := make([]bool, nh)
		bad := make([]bool, nh)
		for h := range member {
			member[h] = r.Chance(80)
			bad[h] = r.Chance(35)
		}
		for j := 0; j < n; j++ {
			for h := 0; h < nh; h++ {
				if r.Chance(churn) {
					member[h] = !member[h]
				}
				if r.Chance(18) {
					bad[h] = !bad[h]
				}
			}
			var c c23call
			switch {
			case r.Chance(6): // single-host call
				c.hosts = []int{r.Intn(nh)}
			case r.Chance(2): // empty list
			default:
				for h := 0; h < nh; h++ {
					if member[h] {
						c.hosts = append(c.hosts, h)
					}
				}
			}
			hangCall := hangs && r.Chance(20)
			for _, h := range c.hosts {
				o := c23Pass
				if bad[h] != r.Chance(12) {
					o = c23Fail
				}
				if hangCall {
					// every check of such a call fails one way or the other, so the result does not
					// depend on which of "error" and "deadline" a select sees first
					o = c23Fail
					if r.Chance(50) {
						o = c23Hang
					}
				}
				c.outs = append(c.outs, o)
			}
			cs.calls = append(cs.calls, c)
		}
		c23emit(ctx, cs, kind, ctx.Tier == "quick" || i%4 == 0)
	}
}
