// Command c23 hosts the driver for property C23 (active health-check hysteresis).
package main

import "verifharness/hlib"

func main() { hlib.Main() }
