// Command c32 hosts the C32 driver (real tagserver + tagstore + write-back executor + retry manager).
package main

import "verifharness/hlib"

func main() { hlib.Main() }
