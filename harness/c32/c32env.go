package main

import (
	"bytes"
	"context"
	"crypto/sha256"
	"encoding/hex"
	"errors"
	"fmt"
	"io"
	"net/http"
	"os"
	"path/filepath"
	"sync"
	"time"

	"github.com/jmoiron/sqlx"
	"github.com/uber-go/tally"
	"go.opentelemetry.io/otel/trace/noop"

	"github.com/uber/kraken/build-index/tagclient"
	"github.com/uber/kraken/build-index/tagstore"
	"github.com/uber/kraken/build-index/tagserver"
	"github.com/uber/kraken/core"
	"github.com/uber/kraken/lib/backend"
	"github.com/uber/kraken/lib/backend/backenderrors"
	"github.com/uber/kraken/lib/persistedretry"
	"github.com/uber/kraken/lib/persistedretry/tagreplication"
	"github.com/uber/kraken/lib/persistedretry/writeback"
	"github.com/uber/kraken/lib/store"
	"github.com/uber/kraken/lib/store/metadata"
	"github.com/uber/kraken/localdb"
	"github.com/uber/kraken/origin/blobclient"
	"github.com/uber/kraken/utils/httputil"
	"github.com/uber/kraken/utils/stringset"
)

var errC32 = errors.New("c32: injected fault")

// ---- names ----

func c32digest(id int) core.Digest {
	h := sha256.Sum256([]byte(fmt.Sprintf("c32-digest-%d", id)))
	d, err := core.NewSHA256DigestFromHex(hex.EncodeToString(h[:]))
	if err != nil {
		panic(err)
	}
	return d
}

var c32digestID = func() map[string]int {
	m := map[string]int{}
	for i := 0; i < 64; i++ {
		m[c32digest(i).String()] = i
	}
	return m
}()

// id of a digest in its String() form; 999 = not one of ours
func c32idOf(s string) int {
	if id, ok := c32digestID[s]; ok {
		return id
	}
	return 999
}

func (n *c32node) tag(id int) string { return fmt.Sprintf("c32-repo-%d/img-%d:v%d", n.caseSeq, id, id) }

// ---- the backend: state shared by three views ----

type c32ea struct {
	statf bool
	up    int // 0 ok, 1 error, 2 error yet stored
}

type c32backend struct {
	mu    sync.Mutex
	objs  map[string][]byte
	gates map[string]chan c32ea // executor attempts wait here for their scripted answers
	cur   map[string]c32ea
	quit  chan struct{}
	dlf   bool // next Download faults
	stf   bool // next Stat of the server view faults
}

func newC32backend() *c32backend {
	return &c32backend{objs: map[string][]byte{}, gates: map[string]chan c32ea{}, cur: map[string]c32ea{}, quit: make(chan struct{})}
}

func (b *c32backend) gate(name string) chan c32ea {
	b.mu.Lock()
	defer b.mu.Unlock()
	g, ok := b.gates[name]
	if !ok {
		g = make(chan c32ea, 16)
		b.gates[name] = g
	}
	return g
}

func (b *c32backend) get(name string) ([]byte, bool) {
	b.mu.Lock()
	defer b.mu.Unlock()
	v, ok := b.objs[name]
	return v, ok
}

func (b *c32backend) set(name string, v []byte) {
	b.mu.Lock()
	defer b.mu.Unlock()
	b.objs[name] = v
}

type c32noList struct{}

func (c32noList) List(prefix string, opts ...backend.ListOption) (*backend.ListResult, error) {
	return nil, errC32
}
func (c32noList) Close() error { return nil }

// view used by the write-back executor: every Exec starts with Stat, which waits for the
// answers scripted for this attempt.
type c32execView struct {
	c32noList
	b *c32backend
}

func (v c32execView) Stat(ns, name string) (*core.BlobInfo, error) {
	var a c32ea
	select {
	case a = <-v.b.gate(name):
	case <-v.b.quit:
		return nil, errC32
	}
	v.b.mu.Lock()
	v.b.cur[name] = a
	v.b.mu.Unlock()
	if a.statf {
		return nil, errC32
	}
	if data, ok := v.b.get(name); ok {
		return core.NewBlobInfo(int64(len(data))), nil
	}
	return nil, backenderrors.ErrBlobNotFound
}

func (v c32execView) Upload(ns, name string, src io.Reader) error {
	v.b.mu.Lock()
	a := v.b.cur[name]
	v.b.mu.Unlock()
	data, err := io.ReadAll(src)
	if err != nil {
		return err
	}
	switch a.up {
	case 0:
		v.b.set(name, data)
		return nil
	case 2:
		v.b.set(name, data)
		return errC32
	default:
		return errC32
	}
}

func (v c32execView) Download(ns, name string, dst io.Writer) error { return errC32 }

// view used by the tag store (resolveFromBackend)
type c32storeView struct {
	c32noList
	b *c32backend
}

func (v c32storeView) Stat(ns, name string) (*core.BlobInfo, error) { return nil, errC32 }
func (v c32storeView) Upload(ns, name string, src io.Reader) error  { return errC32 }
func (v c32storeView) Download(ns, name string, dst io.Writer) error {
	v.b.mu.Lock()
	f := v.b.dlf
	v.b.mu.Unlock()
	if f {
		return errC32
	}
	data, ok := v.b.get(name)
	if !ok {
		return backenderrors.ErrBlobNotFound
	}
	_, err := dst.Write(data)
	return err
}

// view used by the tag server (hasTagHandler)
type c32serverView struct {
	c32noList
	b *c32backend
}

func (v c32serverView) Stat(ns, name string) (*core.BlobInfo, error) {
	v.b.mu.Lock()
	f := v.b.stf
	v.b.mu.Unlock()
	if f {
		return nil, errC32
	}
	if data, ok := v.b.get(name); ok {
		return core.NewBlobInfo(int64(len(data))), nil
	}
	return nil, backenderrors.ErrBlobNotFound
}
func (v c32serverView) Upload(ns, name string, src io.Reader) error    { return errC32 }
func (v c32serverView) Download(ns, name string, dst io.Writer) error { return errC32 }

// ---- file store with injected faults (what tagstore.FileStore sees) ----

type c32fs struct {
	ss    *store.SimpleStore
	fault int // 1: CreateCacheFile fails, 2: SetCacheFileMetadata fails
}

func (f *c32fs) CreateCacheFile(name string, r io.Reader) error {
	if f.fault == 1 {
		return errC32
	}
	return f.ss.CreateCacheFile(name, r)
}
func (f *c32fs) SetCacheFileMetadata(name string, md metadata.Metadata) (bool, error) {
	if f.fault == 2 {
		return false, errC32
	}
	return f.ss.SetCacheFileMetadata(name, md)
}
func (f *c32fs) GetCacheFileReader(name string) (store.FileReader, error) {
	return f.ss.GetCacheFileReader(name)
}

// ---- origin cluster, resolver, neighbour, replication manager ----

type c32origin struct {
	blobclient.ClusterClient // nil: anything but Stat panics
	ans                      map[string]int // digest -> 0 found, 1 missing, 2 error
	calls                    int
}

func (o *c32origin) Stat(namespace string, d core.Digest) (*core.BlobInfo, error) {
	o.calls++
	switch a, ok := o.ans[d.String()]; {
	case !ok:
		return nil, errC32
	case a == 0:
		return core.NewBlobInfo(1), nil
	case a == 1:
		return nil, blobclient.ErrBlobNotFound
	default:
		return nil, errC32
	}
}

type c32resolver struct {
	ok   bool
	deps core.DigestList
}

func (r *c32resolver) Resolve(tag string, d core.Digest) (core.DigestList, error) {
	if !r.ok {
		return nil, errC32
	}
	return r.deps, nil
}

type c32neighbors struct{}

func (c32neighbors) Resolve() stringset.Set { return stringset.New("c32-neighbor:1") }

type c32neighbor struct {
	tagclient.Client // nil: anything else panics
	ok               bool
	puts             []int
}

func (n *c32neighbor) DuplicatePut(tag string, d core.Digest, delay time.Duration) error {
	n.puts = append(n.puts, c32idOf(d.String()))
	if !n.ok {
		return errC32
	}
	return nil
}
func (n *c32neighbor) DuplicateReplicate(tag string, d core.Digest, deps core.DigestList, delay time.Duration) error {
	if !n.ok {
		return errC32
	}
	return nil
}

type c32provider struct{ n *c32neighbor }

func (p c32provider) Provide(addr string) tagclient.Client { return p.n }

type c32replmgr struct {
	ok    bool
	tasks []int
}

func (m *c32replmgr) Add(t persistedretry.Task) error {
	if !m.ok {
		return errC32
	}
	rt, ok := t.(*tagreplication.Task)
	if !ok {
		return errC32
	}
	m.tasks = append(m.tasks, c32idOf(rt.Digest.String()))
	return nil
}
func (m *c32replmgr) SyncExec(persistedretry.Task) error                  { return errC32 }
func (m *c32replmgr) Close()                                              {}
func (m *c32replmgr) Find(query interface{}) ([]persistedretry.Task, error) { return nil, errC32 }

// ---- one build-index node ----

type c32node struct {
	caseSeq  int
	dir      string
	bk       *c32backend
	ss       *store.SimpleStore
	fs       *c32fs
	db       *sqlx.DB
	wbm      persistedretry.Manager
	origin   *c32origin
	resolver *c32resolver
	neighbor *c32neighbor
	repl     *c32replmgr
	handler  http.Handler
}

func c32manager(ns string, c backend.Client) *backend.Manager {
	m := backend.ManagerFixture()
	if err := m.Register(ns, c, false); err != nil {
		panic(err)
	}
	return m
}

func newC32node(dir string, writeThrough bool, maxRetries int, nsConfigured bool) (*c32node, error) {
	n := &c32node{dir: dir, bk: newC32backend()}
	if err := os.MkdirAll(dir, 0775); err != nil {
		return nil, err
	}
	ss, err := store.NewSimpleStore(store.SimpleStoreConfig{
		UploadDir:     filepath.Join(dir, "upload"),
		CacheDir:      filepath.Join(dir, "cache"),
		UploadCleanup: store.CleanupConfig{Disabled: true},
		CacheCleanup:  store.CleanupConfig{Disabled: true},
	}, tally.NoopScope)
	if err != nil {
		return nil, err
	}
	n.ss = ss
	n.fs = &c32fs{ss: ss}
	db, err := localdb.New(localdb.Config{Source: filepath.Join(dir, "db", "kraken.db")})
	if err != nil {
		return nil, err
	}
	n.db = db
	// one connection (localdb sets MaxOpenConns(1)); durability of the scratch database is not needed
	db.Exec("PRAGMA synchronous = OFF")
	db.Exec("PRAGMA journal_mode = MEMORY")
	ns := ".*"
	if !nsConfigured {
		ns = "^some-other-namespace/.*"
	}
	// production passes one backend.Manager to all three; three managers over the same state
	// only tell the callers apart
	execBackends := c32manager(ns, c32execView{b: n.bk})
	storeBackends := c32manager(ns, c32storeView{b: n.bk})
	serverBackends := c32manager(ns, c32serverView{b: n.bk})

	wbm, err := persistedretry.NewManager(persistedretry.Config{
		IncomingBuffer:      64,
		RetryBuffer:         64,
		NumIncomingWorkers:  4,
		NumRetryWorkers:     4,
		MaxTaskThroughput:   time.Microsecond,
		RetryInterval:       time.Millisecond,
		PollRetriesInterval: 3 * time.Millisecond,
		SyncRetryBackoff: httputil.ExponentialBackOffConfig{
			Enabled:             true,
			InitialInterval:     200 * time.Microsecond,
			RandomizationFactor: 0.01,
			Multiplier:          1.01,
			MaxInterval:         time.Millisecond,
			MaxRetries:          uint64(maxRetries),
		},
	}, tally.NoopScope, writeback.NewStore(db), writeback.NewExecutor(tally.NoopScope, ss, execBackends))
	if err != nil {
		return nil, err
	}
	n.wbm = wbm
	ts := tagstore.New(tagstore.Config{WriteThrough: writeThrough}, n.fs, storeBackends, wbm)

	n.origin = &c32origin{ans: map[string]int{}}
	n.resolver = &c32resolver{}
	n.neighbor = &c32neighbor{}
	n.repl = &c32replmgr{}
	remotes, err := tagreplication.RemotesConfig{"c32-remote-build-index": []string{".*"}}.Build()
	if err != nil {
		return nil, err
	}
	n.handler = tagserver.New(
		tagserver.Config{DuplicatePutStagger: time.Millisecond, DuplicateReplicateStagger: time.Millisecond},
		tally.NoopScope,
		serverBackends,
		"c32-origin-dns",
		n.origin,
		c32neighbors{},
		ts,
		remotes,
		n.repl,
		c32provider{n.neighbor},
		n.resolver,
		noop.NewTracerProvider().Tracer("c32")).Handler()
	return n, nil
}

func (n *c32node) close() {
	close(n.bk.quit)
	done := make(chan struct{})
	go func() { n.wbm.Close(); close(done) }()
	select {
	case <-done:
	case <-time.After(10 * time.Second):
	}
	n.ss.Close()
	n.db.Close()
	os.RemoveAll(n.dir)
}

// what the node holds on disk for the tag, read through the store
func (n *c32node) diskDigest(tag string) (int, bool) {
	f, err := n.ss.GetCacheFileReader(tag)
	if err != nil {
		return 0, false
	}
	defer f.Close()
	var b bytes.Buffer
	if _, err := io.Copy(&b, f); err != nil {
		return 998, true
	}
	return c32idOf(b.String()), true
}

// the write-back task stored for the tag: (failures, stored)
func (n *c32node) task(tag string) (int, bool) {
	ts, err := n.wbm.Find(writeback.NewNameQuery(tag))
	if err != nil || len(ts) == 0 {
		return 0, false
	}
	return ts[0].GetFailures(), true
}

var _ = context.Background
