package main

import (
	"fmt"
	"io"
	stdlog "log"
	"net/http"
	"net/http/httptest"
	"net/url"
	"sync"
	"path/filepath"
	"strings"
	"time"

	"github.com/uber/kraken/core"
	klog "github.com/uber/kraken/utils/log"
	"go.uber.org/zap"
	"verifharness/hlib"
)

// C32: histories of puts / duplicate puts / gets / replicates / write-back executions over the
// real tagserver handlers, tagstore, SimpleStore, write-back executor and retry manager (SQLite),
// with scripted origin, resolver, neighbour and backend answers.
func init() { hlib.Register("C32", c32) }

const (
	c32Put = iota
	c32DupPut
	c32Get
	c32Has
	c32Repl
	c32Exec
	c32BkSet
	c32Bad
)

var c32kindName = [...]string{"Put", "DupPut", "Get", "Has", "Repl", "Exec", "BkSet", "Bad"}

type c32op struct {
	k       int
	t, d    int
	res     bool  // resolver verdict (Put, Repl)
	deps    []int // origin answers: 0 found 1 missing 2 error
	fs      int   // 0 none 1 create 2 setmd
	ex      []c32ea
	nb      bool
	rep     bool
	repok   bool
	delayed bool
	f       bool // backend fault (Get, Has, Repl)
	c       int  // BkSet: digest id, or -1 = unparsable
	bad     int  // Bad kind
}

type c32cfg struct {
	wt  bool
	att int // attempts = MaxRetries + 1
	ns  bool
}

type c32obs struct {
	res     string
	dig     int // -1 none
	nb, rep []int
	disk    int // -1 none
	bk      int // -2 none, -1 unparsable, else digest
	task    int // -1 none
	incon   bool
}

func c32b(b bool) string { return hlib.B(b) }

func c32eaStr(a c32ea) string {
	return "E " + c32b(a.statf) + " " + [...]string{"UOk", "UErr", "UErrStored"}[a.up]
}

func c32exStr(ex []c32ea) string {
	var s []string
	for _, a := range ex {
		s = append(s, c32eaStr(a))
	}
	return hlib.List(s)
}

func c32fsStr(f int) string { return [...]string{"F0", "FCreate", "FSetMd"}[f] }

func (o c32op) coq() string {
	switch o.k {
	case c32Put:
		var ds []string
		for _, a := range o.deps {
			ds = append(ds, [...]string{"AFound", "AMissing", "AErr"}[a])
		}
		return fmt.Sprintf("P %d %d %s %s %s %s %s %s %s", o.t, o.d, c32b(o.res), hlib.List(ds), c32fsStr(o.fs),
			c32exStr(o.ex), c32b(o.nb), c32b(o.rep), c32b(o.repok))
	case c32DupPut:
		return fmt.Sprintf("DupPut %d %d %s %s %s", o.t, o.d, c32b(o.delayed), c32fsStr(o.fs), c32exStr(o.ex))
	case c32Get:
		return fmt.Sprintf("Get %d %s", o.t, c32b(o.f))
	case c32Has:
		return fmt.Sprintf("Has %d %s", o.t, c32b(o.f))
	case c32Repl:
		return fmt.Sprintf("Repl %d %s %s %s", o.t, c32b(o.f), c32b(o.res), c32b(o.repok))
	case c32Exec:
		return fmt.Sprintf("Exec %d (%s)", o.t, c32eaStr(o.ex[0]))
	case c32BkSet:
		if o.c < 0 {
			return fmt.Sprintf("BkSet %d CBad", o.t)
		}
		return fmt.Sprintf("BkSet %d (CDig %d)", o.t, o.c)
	default:
		return fmt.Sprintf("Bad %d %d", o.bad, o.t)
	}
}

func c32optN(v int) string {
	if v < 0 {
		return "None"
	}
	return fmt.Sprintf("(Some %d)", v)
}

func (b c32obs) coq() string {
	bk := "None"
	if b.bk == -1 {
		bk = "(Some CBad)"
	} else if b.bk >= 0 {
		bk = fmt.Sprintf("(Some (CDig %d))", b.bk)
	}
	return fmt.Sprintf("O %s %s %s %s %s %s %s", b.res, c32optN(b.dig), hlib.Ns(b.nb), hlib.Ns(b.rep),
		c32optN(b.disk), bk, c32optN(b.task))
}

func c32status(code int) string {
	switch {
	case code == 200:
		return "ROk"
	case code == 404:
		return "RNotFound"
	case code == 400:
		return "RBad"
	case code >= 500:
		return "RFail"
	}
	return fmt.Sprintf("RUnexpected%d", code)
}

func c32do(n *c32node, method, target, body string) (int, string) {
	var req *http.Request
	if body != "" {
		req = httptest.NewRequest(method, target, strings.NewReader(body))
	} else {
		req = httptest.NewRequest(method, target, nil)
	}
	w := httptest.NewRecorder()
	n.handler.ServeHTTP(w, req)
	return w.Code, w.Body.String()
}

// load the scripted executor attempts for a synchronous put, run it, discard what was not used
func (n *c32node) withScript(tag string, ex []c32ea, f func()) {
	g := n.bk.gate(tag)
	for _, a := range ex {
		g <- a
	}
	f()
	for {
		select {
		case <-g:
			continue
		default:
		}
		break
	}
}

func c32exec(n *c32node, cfg c32cfg, o c32op) c32obs {
	tag := n.tag(o.t)
	et := url.PathEscape(tag)
	ob := c32obs{dig: -1}
	n.fs.fault = 0
	n.neighbor.puts = nil
	n.repl.tasks = nil
	switch o.k {
	case c32Put:
		d := c32digest(o.d)
		n.resolver.ok = o.res
		n.resolver.deps = nil
		n.origin.ans = map[string]int{}
		for i, a := range o.deps {
			dep := c32digest(32 + i)
			n.resolver.deps = append(n.resolver.deps, dep)
			n.origin.ans[dep.String()] = a
		}
		n.fs.fault = o.fs
		n.neighbor.ok = o.nb
		n.repl.ok = o.repok
		target := "/tags/" + et + "/digest/" + url.PathEscape(d.String())
		if o.rep {
			target += "?replicate=true"
		}
		var ex []c32ea
		if cfg.wt {
			ex = o.ex
		}
		n.withScript(tag, ex, func() {
			code, _ := c32do(n, "PUT", target, "")
			ob.res = c32status(code)
		})
	case c32DupPut:
		d := c32digest(o.d)
		n.fs.fault = o.fs
		delay := time.Duration(0)
		if o.delayed {
			delay = 2 * time.Millisecond
		}
		var ex []c32ea
		if cfg.wt {
			ex = o.ex
		}
		n.withScript(tag, ex, func() {
			code, _ := c32do(n, "PUT", "/internal/duplicate/tags/"+et+"/digest/"+url.PathEscape(d.String()),
				fmt.Sprintf(`{"delay":%d}`, int64(delay)))
			ob.res = c32status(code)
		})
	case c32Get:
		n.bk.mu.Lock()
		n.bk.dlf = o.f
		n.bk.mu.Unlock()
		code, body := c32do(n, "GET", "/tags/"+et, "")
		ob.res = c32status(code)
		if code == 200 {
			ob.dig = c32idOf(body)
		}
	case c32Has:
		n.bk.mu.Lock()
		n.bk.stf = o.f
		n.bk.mu.Unlock()
		code, _ := c32do(n, "HEAD", "/tags/"+et, "")
		ob.res = c32status(code)
	case c32Repl:
		n.bk.mu.Lock()
		n.bk.dlf = o.f
		n.bk.mu.Unlock()
		n.resolver.ok = o.res
		n.resolver.deps = core.DigestList{c32digest(32)}
		n.neighbor.ok = true
		n.repl.ok = o.repok
		code, _ := c32do(n, "POST", "/remotes/tags/"+et, "")
		ob.res = c32status(code)
	case c32Exec:
		prev, stored := n.task(tag)
		if !stored {
			ob.res = "RIllegal"
			break
		}
		n.bk.gate(tag) <- o.ex[0]
		deadline := time.Now().Add(20 * time.Second)
		for {
			f, st := n.task(tag)
			if !st {
				ob.res = "ROk"
				break
			}
			if f == prev+1 {
				ob.res = "RFail"
				break
			}
			if time.Now().After(deadline) {
				ob.incon = true
				ob.res = "RIllegal"
				break
			}
			time.Sleep(200 * time.Microsecond)
		}
	case c32BkSet:
		if o.c < 0 {
			n.bk.set(tag, []byte("not a digest"))
		} else {
			n.bk.set(tag, []byte(c32digest(o.c).String()))
		}
		ob.res = "ROk"
	case c32Bad:
		d := c32digest(1)
		switch o.bad {
		case 0:
			code, _ := c32do(n, "PUT", "/tags/"+et+"/digest/"+url.PathEscape("sha256:xyz"), "")
			ob.res = c32status(code)
		case 1:
			code, _ := c32do(n, "PUT", "/tags/"+et+"/digest/"+url.PathEscape(d.String())+"?replicate=perhaps", "")
			ob.res = c32status(code)
		case 2:
			code, _ := c32do(n, "PUT", "/internal/duplicate/tags/"+et+"/digest/"+url.PathEscape("sha1:00"), `{"delay":0}`)
			ob.res = c32status(code)
		default:
			code, _ := c32do(n, "PUT", "/internal/duplicate/tags/"+et+"/digest/"+url.PathEscape(d.String()), `{"delay":`)
			ob.res = c32status(code)
		}
	}
	ob.nb = n.neighbor.puts
	ob.rep = n.repl.tasks
	// what the node holds for the tag now
	ob.disk = -1
	if id, ok := n.diskDigest(tag); ok {
		ob.disk = id
	}
	ob.bk = -2
	if data, ok := n.bk.get(tag); ok {
		if _, err := core.ParseSHA256Digest(string(data)); err != nil {
			ob.bk = -1
		} else {
			ob.bk = c32idOf(string(data))
		}
	}
	ob.task = -1
	if f, ok := n.task(tag); ok {
		ob.task = f
	}
	return ob
}

type c32result struct {
	cfg   c32cfg
	ops   []c32op
	obs   []c32obs
	incon bool
	nt    bool
	err   string
}

// nodes are reused across cases of the same configuration; every case gets its own tag names,
// and leaves no write-back task behind
type c32pool struct {
	base  string
	nodes map[c32cfg]*c32node
	seq   int
}

func (p *c32pool) get(cfg c32cfg) (*c32node, error) {
	p.seq++
	if n, ok := p.nodes[cfg]; ok {
		n.caseSeq = p.seq
		return n, nil
	}
	n, err := newC32node(filepath.Join(p.base, fmt.Sprintf("node%d", p.seq)), cfg.wt, cfg.att-1, cfg.ns)
	if err != nil {
		return nil, err
	}
	n.caseSeq = p.seq
	p.nodes[cfg] = n
	return n, nil
}

func (p *c32pool) discard(cfg c32cfg) {
	if n, ok := p.nodes[cfg]; ok {
		n.close()
		delete(p.nodes, cfg)
	}
}

func (p *c32pool) close() {
	for cfg := range p.nodes {
		p.discard(cfg)
	}
}

// run executes a history; next is consulted after every operation (nil: ops is complete).
func c32run(p *c32pool, cfg c32cfg, ops []c32op, next func(done []c32op, obs []c32obs) (c32op, bool)) c32result {
	r := c32result{cfg: cfg}
	n, err := p.get(cfg)
	if err != nil {
		r.incon, r.err = true, err.Error()
		return r
	}
	succ := map[int]bool{}
	used := map[int]bool{}
	step := func(o c32op) {
		if o.k == c32Put || o.k == c32DupPut {
			// a synchronous put must find an answer for every attempt it can make
			for len(o.ex) < cfg.att+1 {
				o.ex = append(o.ex, c32ok)
			}
		}
		used[o.t] = true
		ob := c32exec(n, cfg, o)
		r.ops = append(r.ops, o)
		r.obs = append(r.obs, ob)
		if ob.incon {
			r.incon = true
		}
		if o.k == c32Put && ob.res == "ROk" {
			succ[o.t] = true
		}
		if o.k == c32Get && ob.res == "ROk" && succ[o.t] {
			r.nt = true
		}
	}
	for _, o := range ops {
		step(o)
	}
	for next != nil {
		o, ok := next(r.ops, r.obs)
		if !ok {
			break
		}
		step(o)
	}
	// leave no task behind (not part of the case)
	for t := range used {
		if _, stored := n.task(n.tag(t)); stored {
			if ob := c32exec(n, cfg, c32execop(t, c32ok)); ob.res != "ROk" {
				r.incon = true
			}
		}
	}
	if r.incon {
		p.discard(cfg)
	}
	return r
}

func (cfg c32cfg) coq() string {
	m := "Async"
	if cfg.wt {
		m = "WriteThrough"
	}
	return fmt.Sprintf("(mkcfg %s %d %s)", m, cfg.att, c32b(cfg.ns))
}

func c32emit(ctx *hlib.Ctx, r c32result, kind string, tags []string) {
	var so, sb, hist []string
	for i, o := range r.ops {
		so = append(so, o.coq())
		sb = append(sb, r.obs[i].coq())
		hist = append(hist, c32kindName[o.k])
	}
	coq := "mkcase " + r.cfg.coq() + " " + hlib.List(so) + " " + hlib.List(sb)
	ctx.Emit(hlib.Case{Coq: coq, NT: r.nt, Kind: kind, Hist: hist, Tags: tags, Incon: r.incon,
		Sample: map[string]string{"cfg": r.cfg.coq(), "ops": hlib.List(so), "obs": hlib.List(sb), "err": r.err}})
}

// ---- generators ----

var c32ok = c32ea{false, 0}

func c32oks(n int) []c32ea {
	ex := make([]c32ea, n)
	return ex
}

func c32put(t, d int, deps ...int) c32op {
	return c32op{k: c32Put, t: t, d: d, res: true, deps: deps, ex: c32oks(5), nb: true, repok: true}
}
func c32get(t int) c32op  { return c32op{k: c32Get, t: t} }
func c32has(t int) c32op  { return c32op{k: c32Has, t: t} }
func c32repl(t int) c32op { return c32op{k: c32Repl, t: t, res: true, repok: true} }
func c32execop(t int, a c32ea) c32op {
	return c32op{k: c32Exec, t: t, ex: []c32ea{a}}
}
func c32bkset(t, c int) c32op { return c32op{k: c32BkSet, t: t, c: c} }

// drain: make the final state observable through the API
func c32drain(ops []c32op, nt int, async bool) []c32op {
	for t := 0; t < nt; t++ {
		ops = append(ops, c32get(t), c32has(t))
		if async {
			ops = append(ops, c32execop(t, c32ok), c32has(t))
		}
		ops = append(ops, c32op{k: c32Get, t: t, f: true})
	}
	return ops
}

func c32randEa(r *hlib.Rng) c32ea {
	a := c32ea{}
	if r.Chance(25) {
		a.statf = true
	}
	switch x := r.Intn(10); {
	case x < 6:
		a.up = 0
	case x < 9:
		a.up = 1
	default:
		a.up = 2
	}
	return a
}

func c32randEx(r *hlib.Rng, n int) []c32ea {
	ex := make([]c32ea, n)
	healthy := r.Chance(55)
	for i := range ex {
		if !healthy {
			ex[i] = c32randEa(r)
		}
	}
	return ex
}

func c32randOp(r *hlib.Rng, cfg c32cfg, nt, nd int, obs []c32obs, ops []c32op) c32op {
	t := r.Intn(nt)
	d := 1 + r.Intn(nd)
	x := r.Intn(100)
	switch {
	case x < 34:
		o := c32put(t, d)
		nd := r.Intn(4)
		allFound := r.Chance(78)
		for i := 0; i < nd; i++ {
			a := 0
			if !allFound {
				a = r.Intn(3)
			}
			o.deps = append(o.deps, a)
		}
		o.res = !r.Chance(5)
		if r.Chance(8) {
			o.fs = 1 + r.Intn(2)
		}
		o.ex = c32randEx(r, cfg.att+1)
		o.nb = !r.Chance(30)
		o.rep = r.Chance(20)
		o.repok = !r.Chance(25)
		return o
	case x < 44:
		o := c32op{k: c32DupPut, t: t, d: d, delayed: r.Chance(40), ex: c32randEx(r, cfg.att+1)}
		if r.Chance(8) {
			o.fs = 1 + r.Intn(2)
		}
		return o
	case x < 66:
		return c32op{k: c32Get, t: t, f: r.Chance(25)}
	case x < 71:
		return c32op{k: c32Has, t: t, f: r.Chance(20)}
	case x < 78:
		return c32op{k: c32Repl, t: t, f: r.Chance(20), res: !r.Chance(15), repok: !r.Chance(20)}
	case x < 92:
		if !cfg.wt {
			// prefer a tag whose task is stored (last seen), sometimes any tag
			if !r.Chance(12) {
				for i := len(obs) - 1; i >= 0; i-- {
					if obs[i].task >= 0 {
						seen := false
						for j := i + 1; j < len(obs); j++ {
							if ops[j].t == ops[i].t {
								seen = true
							}
						}
						if !seen {
							t = ops[i].t
							break
						}
					}
				}
			}
			return c32execop(t, c32randEa(r))
		}
		return c32op{k: c32Get, t: t}
	case x < 97:
		c := 1 + r.Intn(nd)
		if r.Chance(15) {
			c = -1
		}
		return c32bkset(t, c)
	default:
		return c32op{k: c32Bad, t: t, bad: r.Intn(4)}
	}
}

// one case to run: its result depends only on the job (own PRNG fork), not on the worker
type c32job struct {
	run  func(p *c32pool) c32result
	kind string
	tags []string
}

const c32workers = 6

func c32(ctx *hlib.Ctx) {
	klog.SetGlobalLogger(zap.NewNop().Sugar())
	stdlog.SetOutput(io.Discard) // goose migration chatter
	r := hlib.NewRng(ctx.Seed)
	var jobs []c32job
	wt := func(att int) c32cfg { return c32cfg{wt: true, att: att, ns: true} }
	as := c32cfg{wt: false, att: 3, ns: true}
	seed := func(cfg c32cfg, ops []c32op, nt int, kind string, tags ...string) {
		full := c32drain(ops, nt, !cfg.wt)
		jobs = append(jobs, c32job{func(p *c32pool) c32result { return c32run(p, cfg, full, nil) }, kind, tags})
	}
	fail := c32ea{false, 1}

	// ---- seeds: the witnesses of the _refuted / remark theorems and the boundaries reasoned about ----
	// backend already holds another digest (another node put it): put succeeds, backend keeps the other
	seed(wt(3), []c32op{c32bkset(0, 2), c32put(0, 1, 0), c32get(0)}, 1, "seed-preexisting-backend", "preexisting-backend")
	seed(as, []c32op{c32bkset(0, 2), c32put(0, 1, 0), c32execop(0, c32ok), c32get(0)}, 1, "seed-preexisting-backend-async", "preexisting-backend")
	// a put that failed after the disk write decides what a later successful put resolves to
	{
		p1 := c32put(0, 1, 0)
		p1.ex = []c32ea{fail, fail, fail, c32ok}
		seed(wt(3), []c32op{p1, c32get(0), c32put(0, 2, 0), c32get(0)}, 1, "seed-failed-put-wins")
		p2 := c32put(0, 1, 0)
		p2.fs = 2
		seed(wt(3), []c32op{p2, c32put(0, 2, 0), c32get(0)}, 1, "seed-setmd-fault")
		p3 := c32put(0, 1, 0)
		p3.fs = 1
		seed(wt(3), []c32op{p3, c32get(0), c32put(0, 2, 0), c32get(0)}, 1, "seed-create-fault")
	}
	// re-put with a different digest: succeeds, changes nothing, the neighbour is told the new digest
	seed(wt(3), []c32op{c32put(0, 1, 0, 0), c32put(0, 2, 0), c32get(0), c32put(0, 1), c32get(0)}, 1, "seed-reput")
	seed(as, []c32op{c32put(0, 1, 0, 0), c32put(0, 2, 0), c32get(0), c32execop(0, c32ok), c32put(0, 3), c32get(0)}, 1, "seed-reput-async")
	// dependency check
	seed(wt(3), []c32op{c32put(0, 1, 0, 1, 0), c32get(0), c32put(0, 1, 0, 0, 2), c32get(0), c32put(0, 1), c32get(0)}, 1, "seed-deps")
	{
		p := c32put(0, 1, 0)
		p.res = false
		seed(wt(3), []c32op{p, c32get(0)}, 1, "seed-resolve-fails")
	}
	// namespace without a backend: the write-back is dropped
	seed(c32cfg{wt: true, att: 3, ns: false}, []c32op{c32put(0, 1, 0), c32get(0), c32has(0)}, 1, "seed-no-backend-for-namespace")
	// (asynchronous mode without a backend is not driven: the executor drops the task before it
	// reaches the scripted backend, so the moment of the execution cannot be controlled)
	// attempts boundary of SyncExec: att failures then a would-be success
	for att := 2; att <= 4; att++ {
		p := c32put(0, 1, 0)
		p.ex = nil
		for i := 0; i < att; i++ {
			p.ex = append(p.ex, fail)
		}
		p.ex = append(p.ex, c32ok)
		q := c32put(1, 1, 0)
		q.ex = nil
		for i := 0; i < att-1; i++ {
			q.ex = append(q.ex, fail)
		}
		q.ex = append(q.ex, c32ok, c32ok)
		seed(wt(att), []c32op{p, q}, 2, "seed-attempts")
	}
	// stat fault makes the executor upload over an existing object; failed upload that stored
	{
		p := c32put(0, 1, 0)
		p.ex = []c32ea{{true, 2}, {false, 1}, {false, 1}, c32ok}
		seed(wt(3), []c32op{p, c32get(0), c32has(0)}, 1, "seed-upload-error-yet-stored")
		q := c32put(0, 1, 0)
		q.ex = []c32ea{{true, 0}, c32ok, c32ok, c32ok}
		seed(wt(3), []c32op{c32bkset(0, 2), q, c32get(0)}, 1, "seed-stat-fault-overwrites")
	}
	// asynchronous write-back: fail, fail, succeed; duplicate task; delayed duplicate put
	seed(as, []c32op{c32put(0, 1, 0), c32get(0), c32execop(0, fail), c32put(0, 2), c32execop(0, c32ea{true, 1}), c32execop(0, c32ok), c32execop(0, c32ok), c32get(0)}, 1, "seed-async-retry")
	seed(as, []c32op{{k: c32DupPut, t: 0, d: 1, delayed: true}, c32get(0), c32execop(0, c32ok), c32get(0)}, 1, "seed-async-delayed-dup")
	// resolution from the backend before any put on this node, then a put of another digest
	seed(wt(3), []c32op{c32bkset(0, 2), c32get(0), {k: c32Get, t: 0, f: true}, c32repl(0), c32put(0, 1, 0), c32get(0), c32repl(0)}, 1, "seed-backend-fallback")
	seed(wt(3), []c32op{c32bkset(0, -1), c32get(0), c32has(0)}, 1, "seed-backend-garbage")
	// replicate on put
	{
		p := c32put(0, 1, 0)
		p.rep = true
		q := c32put(1, 2, 0)
		q.rep, q.repok, q.nb = true, false, false
		seed(wt(3), []c32op{p, q, c32repl(0), c32repl(1), c32repl(2)}, 3, "seed-replicate")
	}
	for k := 0; k < 4; k++ {
		seed(wt(3), []c32op{{k: c32Bad, t: 0, bad: k}, c32get(0)}, 1, "seed-malformed")
	}

	// ---- thorough: every history of length <= 3 over one tag and two digests, small alphabet ----
	if ctx.Tier == "thorough" {
		for _, cfg := range []c32cfg{wt(2), as} {
			failing := c32put(0, 2, 0)
			failing.ex = []c32ea{fail, fail, fail}
			alpha := []c32op{c32put(0, 1, 0), c32put(0, 2), failing, c32put(0, 2, 1), c32get(0), {k: c32Get, t: 0, f: true},
				{k: c32DupPut, t: 0, d: 2, ex: c32oks(3)}, c32bkset(0, 2), c32repl(0)}
			if !cfg.wt {
				alpha = append(alpha, c32execop(0, c32ok), c32execop(0, fail))
			}
			var rec func(prefix []c32op, depth int)
			rec = func(prefix []c32op, depth int) {
				if len(prefix) > 0 {
					seed(cfg, append([]c32op{}, prefix...), 1, "exhaustive")
				}
				if depth == 0 {
					return
				}
				for _, a := range alpha {
					rec(append(prefix, a), depth-1)
				}
			}
			rec(nil, 3)
		}
	}

	// ---- random histories ----
	for i := 0; i < ctx.N; i++ {
		cr := r.Fork()
		cfg := c32cfg{wt: cr.Bool(), att: 2 + cr.Intn(3), ns: true}
		if cfg.wt && cr.Chance(12) {
			cfg.ns = false
		}
		if !cfg.wt {
			cfg.att = 3 // SyncExec is not used in asynchronous mode
		}
		nt := 1 + cr.Intn(3)
		nd := 2 + cr.Intn(2)
		n := cr.Range(3, 14)
		kind := "random-async"
		if cfg.wt {
			kind = "random-write-through"
		}
		if !cfg.ns {
			kind += "-nobackend"
		}
		jobs = append(jobs, c32job{func(p *c32pool) c32result {
			var drain []c32op
			return c32run(p, cfg, nil, func(done []c32op, obs []c32obs) (c32op, bool) {
				if len(done) < n {
					return c32randOp(cr, cfg, nt, nd, obs, done), true
				}
				if drain == nil {
					drain = c32drain(nil, nt, !cfg.wt)
				}
				j := len(done) - n
				if j < len(drain) {
					return drain[j], true
				}
				return c32op{}, false
			})
		}, kind, nil})
	}

	// ---- run on a few workers (each with its own nodes), emit in job order ----
	results := make([]c32result, len(jobs))
	var wg sync.WaitGroup
	nextJob := make(chan int)
	for w := 0; w < c32workers; w++ {
		wg.Add(1)
		go func(w int) {
			defer wg.Done()
			pool := &c32pool{base: filepath.Join(ctx.Tmp, fmt.Sprintf("w%d", w)), nodes: map[c32cfg]*c32node{}}
			defer pool.close()
			for i := range nextJob {
				results[i] = jobs[i].run(pool)
			}
		}(w)
	}
	for i := range jobs {
		nextJob <- i
	}
	close(nextJob)
	wg.Wait()
	for i, j := range jobs {
		tags := j.tags
		for _, o := range results[i].ops {
			if o.k == c32BkSet {
				tags = append(tags, "bkset")
				break
			}
		}
		c32emit(ctx, results[i], j.kind, tags)
	}
}
