// Command c11 hosts the driver of property C11 (store path containment).
package main

import "verifharness/hlib"

func main() { hlib.Main() }
