package main

import (
	"bufio"
	"bytes"
	"crypto/sha256"
	"encoding/hex"
	"fmt"
	"io"
	"io/fs"
	"net"
	"net/http"
	"net/url"
	"os"
	"path/filepath"
	"sort"
	"strings"
	"time"

	"github.com/andres-erbsen/clock"
	"github.com/go-chi/chi"
	"github.com/uber-go/tally"
	"go.opentelemetry.io/otel/trace/noop"
	"go.uber.org/zap"

	"github.com/uber/kraken/build-index/tagserver"
	"github.com/uber/kraken/build-index/tagstore"
	"github.com/uber/kraken/core"
	"github.com/uber/kraken/lib/backend"
	"github.com/uber/kraken/lib/blobrefresh"
	"github.com/uber/kraken/lib/hashring"
	"github.com/uber/kraken/lib/healthcheck"
	"github.com/uber/kraken/lib/hostlist"
	"github.com/uber/kraken/lib/metainfogen"
	"github.com/uber/kraken/lib/persistedretry"
	"github.com/uber/kraken/lib/persistedretry/tagreplication"
	"github.com/uber/kraken/lib/store"
	"github.com/uber/kraken/lib/store/base"
	"github.com/uber/kraken/lib/store/metadata"
	"github.com/uber/kraken/origin/blobclient"
	"github.com/uber/kraken/origin/blobserver"
	"github.com/uber/kraken/utils/httputil"
	"github.com/uber/kraken/utils/log"
	"github.com/uber/kraken/utils/stringset"
	"verifharness/hlib"
)

// C11: (a) path/filepath, net/url, chi parameter routing and the two FileEntryFactories against the Coq
// model on generated and mutated names; (b) the real base.FileStore on a sandbox; (c) a real tagserver
// (real tagstore + SimpleStore) and a real origin blobserver (real CAStore) driven over TCP with hostile
// path parameters, with a snapshot of everything outside the store directories before and after.
func init() { hlib.Register("C11", c11) }

// ---- Coq printers: byte strings are packed into one hexadecimal numeral (decoded by Run/C11_run.v)

func c11x(b []byte) string { return "(X 0x1" + hex.EncodeToString(b) + ")" }
func c11xs(s string) string { return c11x([]byte(s)) }
func c11opt(ok bool, s string) string {
	if !ok {
		return "None"
	}
	return "(Some " + c11xs(s) + ")"
}
func c11list(xs []string) string {
	out := make([]string, len(xs))
	for i, x := range xs {
		out[i] = c11xs(x)
	}
	return hlib.List(out)
}

func c11show(s string) string { return fmt.Sprintf("%q", s) }

// ---- generators

type c11gen struct {
	ctx  *hlib.Ctx
	r    *hlib.Rng
	jobs []func(g *c11gen) *hlib.Case // sandbox cases: run on a worker pool, emitted in queue order
	out  *hlib.Case                   // set while a job runs: where emit puts the case
	bad  bool                         // a request of the current case failed at transport level (no HTTP status)
}

// req is c11req that remembers transport failures: such a case is reported as inconclusive, never as a verdict
func (g *c11gen) req(addr, method, target string, hdr [][2]string, body []byte) (int, http.Header, []byte) {
	code, h, rb := c11req(addr, method, target, hdr, body)
	if code == 0 {
		g.bad = true
	}
	return code, h, rb
}

// emit writes a case directly (pure streams) or hands it to the job runner
func (g *c11gen) emit(c hlib.Case) {
	if g.out != nil {
		*g.out = c
		return
	}
	g.ctx.Emit(c)
}

// later queues a sandbox case; it runs with a generator of its own (forked PRNG, fixed at queue time)
func (g *c11gen) later(f func(g *c11gen)) {
	seed := g.r.U64()
	g.jobs = append(g.jobs, func(_ *c11gen) *hlib.Case {
		var c hlib.Case
		sub := &c11gen{ctx: g.ctx, r: hlib.NewRng(seed), out: &c}
		f(sub)
		return &c
	})
}

func (g *c11gen) flush() {
	res := make([]*hlib.Case, len(g.jobs))
	sem := make(chan struct{}, 8)
	done := make(chan int)
	for i := range g.jobs {
		go func(i int) {
			sem <- struct{}{}
			res[i] = g.jobs[i](nil)
			<-sem
			done <- i
		}(i)
	}
	for range g.jobs {
		<-done
	}
	for _, c := range res {
		if c != nil && c.Coq != "" {
			g.ctx.Emit(*c)
		}
	}
	g.jobs = nil
}

func (g *c11gen) pick(xs []string) string { return xs[g.r.Intn(len(xs))] }

var c11plain = []string{"a", "b", "repo", "library", "ubuntu", "tag:v1", "img:latest", "x.y", "v1.2.3", "data", "_persist",
	"_last_access_time", "c", "u", "...", "..a", "a..", ".a", "a.", "-", "~", "a b", "caf\xc3\xa9", "\xff\xfe", "a%b", "%2e%2e", "a:b:c", "$&+,;=@"}
var c11hostile = []string{"..", ".", "", "..", ".", "\x00", "a\x00b", "..\x00", strings.Repeat("n", 300), strings.Repeat("m", 256)}

func (g *c11gen) comp() string {
	if g.r.Chance(70) {
		return g.pick(c11plain)
	}
	n := g.r.Range(1, 6)
	b := make([]byte, n)
	const alpha = "abcxyz019._-:~"
	for i := range b {
		b[i] = alpha[g.r.Intn(len(alpha))]
	}
	s := string(b)
	if s == "." || s == ".." {
		return "d" + s
	}
	return s
}

// validName: 1-4 ordinary elements
func (g *c11gen) validName() string {
	n := g.r.Range(1, 4)
	if g.r.Chance(50) {
		n = g.r.Range(1, 2)
	}
	cs := make([]string, n)
	for i := range cs {
		cs[i] = g.comp()
	}
	return strings.Join(cs, "/")
}

var c11whole = []string{"..", ".", "", "/", "//", "../", "./", "/..", "/.", "../..", "../../..", "..//", "a/..", "a/../..", "a/../../b",
	"../a", "..\x00", "../data", "...", "....", ". .", ".. ", " ..", "..%2f", "%2e%2e", "..\\", "\\..", "a/./b", "a//b", "/a", "a/", "/a/",
	"a/b/../../..", "a/b/../../../c", "./..", ".././", "\x00", "a\x00/../..", "../u", "../c", "../s", "../w", "data", "data/data", "..data"}

func (g *c11gen) mutate(name string) string {
	cs := strings.Split(name, "/")
	switch g.r.Intn(16) {
	case 0:
		return "/" + name
	case 1:
		return name + "/"
	case 2:
		return "../" + name
	case 3:
		return "./" + name
	case 4:
		return name + "/.."
	case 5:
		return name + "/."
	case 6:
		i := g.r.Intn(len(cs) + 1)
		cs = append(cs[:i], append([]string{g.pick(c11hostile)}, cs[i:]...)...)
		return strings.Join(cs, "/")
	case 7:
		i := g.r.Intn(len(cs))
		cs[i] = g.pick(c11hostile)
		return strings.Join(cs, "/")
	case 8:
		return strings.Replace(name, "/", "//", 1)
	case 9:
		return name + strings.Repeat("/..", len(cs))
	case 10:
		return name + strings.Repeat("/..", len(cs)+1)
	case 11:
		return name + strings.Repeat("/..", len(cs)+1) + "/" + g.comp()
	case 12:
		return g.pick(c11whole)
	case 13:
		i := g.r.Intn(len(name) + 1)
		return name[:i] + string([]byte{[]byte("./\x00%\\ ")[g.r.Intn(6)]}) + name[i:]
	case 14:
		return strings.Repeat("../", g.r.Range(1, 4)) + name
	default:
		return name + "/" + g.pick(c11hostile)
	}
}

// dense: short strings over a hostile alphabet
func (g *c11gen) dense() string {
	const alpha = "../a.//..\x00%2eEfF"
	n := g.r.Intn(9)
	b := make([]byte, n)
	for i := range b {
		b[i] = alpha[g.r.Intn(len(alpha))]
	}
	return string(b)
}

// name: 55% valid, 30% mutated, 10% dense, 5% whole hostile
func (g *c11gen) name() (string, string) {
	switch k := g.r.Intn(100); {
	case k < 55:
		return g.validName(), "valid"
	case k < 85:
		return g.mutate(g.validName()), "mutated"
	case k < 95:
		return g.dense(), "dense"
	default:
		return g.pick(c11whole), "hostile"
	}
}

var c11dirs = []string{"/s", "/var/cache/kraken/upload", "/a/b", "/", "", ".", "..", "../x", "rel/dir", "/a//b/", "/a/../b", "/a/./", "//",
	"/..", "a/..", "./.", "../..", "/s/", "s", "/a b/c", "/\xff", "/a/b/../..", "x/../.."}

// encode a name as a raw path parameter. policy per byte.
func (g *c11gen) encode(name string) (string, string) {
	const safe = "abcdefghijklmnopqrstuvwxyzABCDEFGHIJKLMNOPQRSTUVWXYZ0123456789-_.~$&+,:;=@!*'()"
	pol := g.r.Intn(7)
	var b strings.Builder
	for i := 0; i < len(name); i++ {
		c := name[i]
		lit := strings.IndexByte(safe, c) >= 0 || c >= 0x80
		switch pol {
		case 0: // minimal: literal where the request line allows it
			if lit {
				b.WriteByte(c)
			} else {
				fmt.Fprintf(&b, "%%%02X", c)
			}
		case 1: // everything escaped, upper case
			fmt.Fprintf(&b, "%%%02X", c)
		case 2: // everything escaped, lower case
			fmt.Fprintf(&b, "%%%02x", c)
		case 3: // Go's default encoding of the decoded path (RawPath stays empty => decoded twice)
			b.WriteString(url.PathEscape(string([]byte{c})))
		case 4: // double encoding
			fmt.Fprintf(&b, "%%25%02X", c)
		case 5: // mixed
			if lit && g.r.Bool() {
				b.WriteByte(c)
			} else if g.r.Bool() {
				fmt.Fprintf(&b, "%%%02X", c)
			} else {
				fmt.Fprintf(&b, "%%%02x", c)
			}
		default: // dots and slashes escaped only
			if c == '.' || c == '/' || !lit {
				fmt.Fprintf(&b, "%%%02X", c)
			} else {
				b.WriteByte(c)
			}
		}
	}
	kinds := []string{"enc-min", "enc-all-upper", "enc-all-lower", "enc-canonical", "enc-double", "enc-mixed", "enc-dots"}
	raw := b.String()
	if pol == 3 {
		// url.PathEscape escapes '/' (segment mode); the canonical *path* encoding keeps only what encodePath keeps
		raw = (&url.URL{Path: name}).EscapedPath()
		raw = strings.ReplaceAll(raw, "/", "%2F")
	}
	return raw, kinds[pol]
}

// broken escapes
func (g *c11gen) breakRaw(raw string) string {
	bad := []string{"%", "%2", "%zz", "%2g", "%G0", "%%", "%2%2e"}
	i := g.r.Intn(len(raw) + 1)
	return raw[:i] + g.pick(bad) + raw[i:]
}

func c11rawOK(raw string) bool {
	// what can be written as one segment of a request target without changing the route
	if raw == "" {
		return false
	}
	for i := 0; i < len(raw); i++ {
		c := raw[i]
		if c <= ' ' || c == 0x7f || c == '/' || c == '?' || c == '#' {
			return false
		}
	}
	return true
}

// ---- sandbox and snapshots

type c11ent struct {
	kind byte
	sum  [32]byte
}

// snapshot of everything below root; the contents of the directories in skip are not recorded
// (the directories themselves are).
func c11snap(root string, skip map[string]bool) map[string]c11ent {
	m := map[string]c11ent{}
	filepath.WalkDir(root, func(p string, d fs.DirEntry, err error) error {
		if err != nil {
			return nil
		}
		rel, _ := filepath.Rel(root, p)
		if d.IsDir() {
			m[rel] = c11ent{kind: 'd'}
			if skip[p] {
				return filepath.SkipDir
			}
			return nil
		}
		b, _ := os.ReadFile(p)
		m[rel] = c11ent{kind: 'f', sum: sha256.Sum256(b)}
		return nil
	})
	return m
}

func c11diff(a, b map[string]c11ent) int {
	n := 0
	for k, v := range a {
		if w, ok := b[k]; !ok || w != v {
			n++
		}
	}
	for k := range b {
		if _, ok := a[k]; !ok {
			n++
		}
	}
	return n
}

// regular files below dir, relative to dir, with prefix
func c11files(dir, prefix string) []string {
	var out []string
	filepath.WalkDir(dir, func(p string, d fs.DirEntry, err error) error {
		if err != nil || d.IsDir() {
			return nil
		}
		rel, _ := filepath.Rel(dir, p)
		out = append(out, prefix+rel)
		return nil
	})
	sort.Strings(out)
	return out
}

type c11box struct {
	base, o, w string
	decoys     []string // hex digests stored in decoy files outside the roots
}

func c11digest(s string) core.Digest {
	d, err := core.NewDigester().FromBytes([]byte(s))
	if err != nil {
		panic(err)
	}
	return d
}

func c11must(err error) {
	if err != nil {
		panic(err)
	}
}

// o/{data,_persist,keep.txt,decoy/keep.txt}  o/w/{data,_persist,side/{data,keep.txt}}  roots are created by the caller below o/w
func c11newBox(tmp string, i int) *c11box {
	b := &c11box{base: filepath.Join(tmp, fmt.Sprintf("k%d", i))}
	b.o = filepath.Join(b.base, "o")
	b.w = filepath.Join(b.o, "w")
	c11must(os.MkdirAll(filepath.Join(b.o, "decoy"), 0775))
	c11must(os.MkdirAll(filepath.Join(b.w, "side"), 0775))
	for j, p := range []string{filepath.Join(b.o, "data"), filepath.Join(b.w, "data"), filepath.Join(b.w, "side", "data"), filepath.Join(b.base, "data")} {
		d := c11digest(fmt.Sprintf("decoy-%d-%d", i, j))
		b.decoys = append(b.decoys, d.Hex())
		c11must(os.WriteFile(p, []byte(d.String()), 0664))
	}
	for _, p := range []string{filepath.Join(b.o, "_persist"), filepath.Join(b.w, "_persist")} {
		c11must(os.WriteFile(p, []byte("false"), 0664))
	}
	for _, p := range []string{filepath.Join(b.o, "keep.txt"), filepath.Join(b.o, "decoy", "keep.txt"), filepath.Join(b.w, "side", "keep.txt")} {
		c11must(os.WriteFile(p, []byte("keep"), 0664))
	}
	return b
}

func (b *c11box) close() { os.RemoveAll(b.base) }

func (b *c11box) leaked(body []byte) bool {
	for _, d := range b.decoys {
		if bytes.Contains(body, []byte(d)) {
			return true
		}
	}
	return false
}

// ---- stubs for what is not a store

type c11retry struct{}

func (c11retry) Add(persistedretry.Task) error                 { return nil }
func (c11retry) SyncExec(persistedretry.Task) error            { return nil }
func (c11retry) Close()                                        {}
func (c11retry) Find(interface{}) ([]persistedretry.Task, error) { return nil, nil }

type c11deps struct{}

func (c11deps) Resolve(string, core.Digest) (core.DigestList, error) { return nil, nil }

type c11hosts struct{ s stringset.Set }

func (h c11hosts) Resolve() stringset.Set { return h.s.Copy() }

type c11cluster struct{ blobclient.ClusterClient }

type c11clusterProvider struct{}

func (c11clusterProvider) Provide(string) (blobclient.ClusterClient, error) {
	return nil, fmt.Errorf("no remote cluster")
}

// ---- raw HTTP over TCP (nothing re-encodes the request target)

func c11serve(h http.Handler) (string, func()) {
	l, err := net.Listen("tcp", "127.0.0.1:0")
	c11must(err)
	s := &http.Server{Handler: h}
	go s.Serve(l)
	return l.Addr().String(), func() { s.Close() }
}

func c11req(addr, method, target string, hdr [][2]string, body []byte) (int, http.Header, []byte) {
	c, err := net.DialTimeout("tcp", addr, 5*time.Second)
	if err != nil {
		return 0, nil, nil
	}
	defer c.Close()
	c.SetDeadline(time.Now().Add(20 * time.Second))
	var b bytes.Buffer
	fmt.Fprintf(&b, "%s %s HTTP/1.1\r\nHost: verif\r\nConnection: close\r\nContent-Length: %d\r\n", method, target, len(body))
	for _, h := range hdr {
		fmt.Fprintf(&b, "%s: %s\r\n", h[0], h[1])
	}
	b.WriteString("\r\n")
	b.Write(body)
	if _, err := c.Write(b.Bytes()); err != nil {
		return 0, nil, nil
	}
	resp, err := http.ReadResponse(bufio.NewReader(c), nil)
	if err != nil {
		return 0, nil, nil
	}
	defer resp.Body.Close()
	rb, _ := io.ReadAll(resp.Body)
	return resp.StatusCode, resp.Header, rb
}

func c11ok(code int) bool { return code >= 200 && code < 300 }

// ---- (a) pure streams

func (g *c11gen) emitClean(p, kind string) {
	o := filepath.Clean(p)
	g.emit(hlib.Case{Coq: "CClean " + c11xs(p) + " " + c11xs(o), NT: o != p, Kind: "clean-" + kind, Hist: []string{"Clean"},
		Sample: map[string]string{"op": "filepath.Clean", "in": c11show(p), "out": c11show(o)}})
}

func (g *c11gen) emitJoin(elems []string, kind string) {
	o := filepath.Join(elems...)
	xs := make([]string, len(elems))
	for i, e := range elems {
		xs[i] = c11xs(e)
	}
	g.emit(hlib.Case{Coq: "CJoin " + hlib.List(xs) + " " + c11xs(o), NT: o != "", Kind: "join-" + kind, Hist: []string{"Join"},
		Sample: map[string]interface{}{"op": "filepath.Join", "in": fmt.Sprintf("%q", elems), "out": c11show(o)}})
}

func (g *c11gen) emitDir(p, kind string) {
	o := filepath.Dir(p)
	g.emit(hlib.Case{Coq: "CDir " + c11xs(p) + " " + c11xs(o), NT: o != ".", Kind: "dir-" + kind, Hist: []string{"Dir"},
		Sample: map[string]string{"op": "filepath.Dir", "in": c11show(p), "out": c11show(o)}})
}

func (g *c11gen) emitUnesc(raw, kind string) {
	o, err := url.PathUnescape(raw)
	g.emit(hlib.Case{Coq: "CUnesc " + c11xs(raw) + " " + c11opt(err == nil, o), NT: err == nil && o != raw, Kind: "unescape-" + kind,
		Hist:   []string{"PathUnescape"},
		Sample: map[string]interface{}{"op": "url.PathUnescape", "in": c11show(raw), "out": c11show(o), "err": err != nil}})
}

func (g *c11gen) emitDigest(raw, kind string) {
	d, err := core.ParseSHA256Digest(raw)
	h := ""
	if err == nil {
		h = d.Hex()
	}
	g.emit(hlib.Case{Coq: "CDigest " + c11xs(raw) + " " + c11opt(err == nil, h), NT: err == nil, Kind: "digest-" + kind,
		Hist:   []string{"ParseSHA256Digest"},
		Sample: map[string]interface{}{"op": "core.ParseSHA256Digest", "in": c11show(raw), "hex": h, "err": err != nil}})
}

// digest strings: valid (lower / upper / mixed case), and hostile look-alikes
func (g *c11gen) digestName() (string, string) {
	hx := c11digest(fmt.Sprintf("d%d", g.r.U64())).Hex()
	switch k := g.r.Intn(20); {
	case k < 6:
		return "sha256:" + hx, "valid"
	case k < 7:
		return "sha256:" + strings.ToUpper(hx), "valid-upper"
	case k < 8:
		return "sha256:" + strings.ToUpper(hx[:10]) + hx[10:], "valid-mixed"
	case k < 9:
		return "sha256:" + strings.Repeat("../", 21) + "a", "dotdot-64"
	case k < 10:
		return "sha256:../../../../" + hx, "dotdot-prefix"
	case k < 11:
		return "sha256:" + hx[:62] + "..", "dotdot-tail"
	case k < 12:
		return "sha256:" + hx[:30] + "/../" + hx[34:], "dotdot-middle"
	case k < 13:
		return "sha256:" + hx[:g.r.Intn(64)], "short"
	case k < 14:
		return "sha256:" + hx + hx[:g.r.Range(1, 4)], "long"
	case k < 15:
		return g.pick([]string{"sha1:", "SHA256:", "sha256", ":", "", "sha256::", "md5:"}) + hx, "algo"
	case k < 16:
		return "sha256:" + hx + ":" + hx, "two-colons"
	case k < 17:
		return "sha256:" + strings.Repeat(".", 64), "dots-64"
	case k < 18:
		return g.pick(c11whole), "hostile"
	case k < 19:
		b := []byte("sha256:" + hx)
		b[7+g.r.Intn(64)] = []byte("./g\x00 %:G")[g.r.Intn(8)]
		return string(b), "one-bad-char"
	default:
		return "sha256:" + hx[:32] + "\x00" + hx[33:], "nul"
	}
}

func (g *c11gen) emitLocal(dir, name, kind string) {
	e, err := base.NewLocalFileEntryFactory().Create(name, base.NewFileState(dir))
	p := ""
	if err == nil {
		p = e.GetPath()
	}
	tags := []string{}
	g.emit(hlib.Case{Coq: "CLocal " + c11xs(dir) + " " + c11xs(name) + " " + c11opt(err == nil, p), NT: err == nil,
		Kind: "local-" + kind, Hist: []string{"LocalFactory.Create"}, Tags: tags,
		Sample: map[string]interface{}{"op": "localFileEntryFactory.Create+GetPath", "dir": c11show(dir), "name": c11show(name), "path": c11show(p), "err": err != nil}})
}

func (g *c11gen) emitCas(dir, name, kind string) {
	e, err := base.NewCASFileEntryFactory().Create(name, base.NewFileState(dir))
	c11must(err)
	p := e.GetPath()
	g.emit(hlib.Case{Coq: "CCas " + c11xs(dir) + " " + c11xs(name) + " " + c11xs(p), NT: len(name) >= 4,
		Kind: "cas-" + kind, Hist: []string{"CASFactory.Create"},
		Sample: map[string]interface{}{"op": "casFileEntryFactory.Create+GetPath", "dir": c11show(dir), "name": c11show(name), "path": c11show(p)}})
}

// a real chi router whose handler reports chi.URLParam and httputil.ParseParam
func c11routeServer() (string, func()) {
	r := chi.NewRouter()
	r.Get("/p/{x}/end", func(w http.ResponseWriter, req *http.Request) {
		p := chi.URLParam(req, "x")
		v, err := httputil.ParseParam(req, "x")
		if err != nil {
			fmt.Fprintf(w, "%s E", hex.EncodeToString([]byte(p)))
			return
		}
		fmt.Fprintf(w, "%s V%s", hex.EncodeToString([]byte(p)), hex.EncodeToString([]byte(v)))
	})
	return c11serve(r)
}

func (g *c11gen) emitRoute(addr, raw, kind string) {
	g.bad = false
	code, _, body := g.req(addr, "GET", "/p/"+raw+"/end", nil, nil)
	op, on := "None", "None"
	nt := false
	var sp, sn string
	if code == 200 {
		parts := strings.SplitN(string(body), " ", 2)
		pb, _ := hex.DecodeString(parts[0])
		sp = string(pb)
		op = "(Some " + c11x(pb) + ")"
		if len(parts) == 2 && strings.HasPrefix(parts[1], "V") {
			nb, _ := hex.DecodeString(parts[1][1:])
			sn = string(nb)
			on = "(Some " + c11x(nb) + ")"
			nt = true
		}
	}
	g.emit(hlib.Case{Coq: "CRoute " + c11xs(raw) + " " + op + " " + on, NT: nt, Kind: "route-" + kind, Hist: []string{"chi+ParseParam"}, Incon: g.bad,
		Sample: map[string]interface{}{"op": "GET /p/{x}/end", "raw": c11show(raw), "status": code, "chi_param": c11show(sp), "parsed": c11show(sn)}})
}

// ---- (b) the real base.FileStore on a sandbox

func (g *c11gen) emitStore(i int, name, kind string) {
	b := c11newBox(g.ctx.Tmp, i)
	defer b.close()
	s := filepath.Join(b.w, "s")
	c11must(os.MkdirAll(s, 0775))
	skip := map[string]bool{s: true}
	before := c11snap(b.base, skip)

	state := base.NewFileState(s)
	fstore := base.NewLocalFileStore(clock.New())
	op := func() base.FileOp { return fstore.NewFileOp().AcceptState(state) }
	ok := true
	step := func(err error) {
		if err != nil {
			ok = false
		}
	}
	step(op().CreateFile(name, state, 4))
	_, err := op().SetFileMetadata(name, metadata.NewPersist(true))
	step(err)
	if w, err := op().GetFileReadWriter(name, 0, 0); err != nil {
		step(err)
	} else {
		_, werr := w.Write([]byte("blob"))
		step(werr)
		step(w.Close())
	}
	var p metadata.Persist
	step(op().GetFileMetadata(name, &p))
	if _, err := op().GetFileStat(name); err != nil {
		step(err)
	}
	files := c11files(s, "")
	_, err = op().SetFileMetadata(name, metadata.NewPersist(false))
	step(err)
	step(op().DeleteFile(name))
	after := c11files(s, "")
	outside := c11diff(before, c11snap(b.base, skip))
	tags := []string{}
	g.emit(hlib.Case{
		Coq: fmt.Sprintf("CStore %s %s %s %s %d", c11xs(name), hlib.B(ok), c11list(files), c11list(after), outside),
		NT:  ok, Kind: "store-" + kind, Hist: []string{"CreateFile", "SetFileMetadata", "ReadWriter", "GetFileMetadata", "DeleteFile"}, Tags: tags,
		Sample: map[string]interface{}{"op": "base.FileStore create/metadata/write/delete", "name": c11show(name), "ok": ok,
			"files": fmt.Sprintf("%q", files), "after_delete": fmt.Sprintf("%q", after), "changed_outside_store_dir": outside}})
}

// ---- (c) real servers

const (
	c11TagPutGet = iota
	c11TagDupPutGet
	c11TagGet
	c11TagDupPutReplicate
	c11ClusterUpload
	c11InternalUpload
	c11DupCommit
	c11BlobName
)

var c11epName = []string{"tag-put-get", "tag-duplicate-put-get", "tag-get-empty", "tag-duplicate-put-replicate",
	"origin-cluster-upload", "origin-internal-upload", "origin-duplicate-commit", "origin-blob-name"}

func (g *c11gen) emitTag(i, ep int, raw, kind string) {
	b := c11newBox(g.ctx.Tmp, i)
	defer b.close()
	cdir, udir := filepath.Join(b.w, "c"), filepath.Join(b.w, "u")
	ss, err := store.NewSimpleStore(store.SimpleStoreConfig{UploadDir: udir, CacheDir: cdir,
		UploadCleanup: store.CleanupConfig{Disabled: true}, CacheCleanup: store.CleanupConfig{Disabled: true}}, tally.NoopScope)
	c11must(err)
	defer ss.Close()
	backends := backend.ManagerFixture()
	ts := tagstore.New(tagstore.Config{}, ss, backends, c11retry{})
	remotes, err := tagreplication.RemotesConfig{}.Build()
	c11must(err)
	srv := tagserver.New(tagserver.Config{}, tally.NoopScope, backends, "origin-dns", c11cluster{}, c11hosts{stringset.New()}, ts,
		remotes, c11retry{}, nil, c11deps{}, noop.NewTracerProvider().Tracer("verif"))
	addr, stop := c11serve(srv.Handler())
	defer stop()

	skip := map[string]bool{cdir: true, udir: true}
	before := c11snap(b.base, skip)
	d := c11digest(fmt.Sprintf("tag-content-%d", i))
	ok, leak := true, false
	var hist []string
	do := func(method, target string, body []byte, want string) {
		code, _, rb := g.req(addr, method, target, nil, body)
		hist = append(hist, method+" "+strings.SplitN(strings.TrimPrefix(target, "/"), "/", 2)[0])
		if b.leaked(rb) {
			leak = true
		}
		if !c11ok(code) || (want != "" && string(rb) != want) {
			ok = false
		}
	}
	switch ep {
	case c11TagPutGet:
		do("PUT", "/tags/"+raw+"/digest/"+d.String(), nil, "")
		do("GET", "/tags/"+raw, nil, d.String())
	case c11TagDupPutGet:
		do("PUT", "/internal/duplicate/tags/"+raw+"/digest/"+d.String(), []byte(`{"delay":0}`), "")
		do("GET", "/tags/"+raw, nil, d.String())
	case c11TagGet:
		do("GET", "/tags/"+raw, nil, "")
	case c11TagDupPutReplicate:
		do("PUT", "/internal/duplicate/tags/"+raw+"/digest/"+d.String(), []byte(`{"delay":0}`), "")
		do("POST", "/remotes/tags/"+raw, nil, "")
	}
	files := append(c11files(cdir, "c/"), c11files(udir, "u/")...)
	outside := c11diff(before, c11snap(b.base, skip))
	g.emitHTTP(ep, raw, "", ok, files, outside, leak, kind, hist)
}

// a real origin blobserver on a real CAStore
func c11origin(cdir, udir string) (string, func()) {
	cas, err := store.NewCAStore(store.CAStoreConfig{UploadDir: udir, CacheDir: cdir,
		UploadCleanup: store.CleanupConfig{Disabled: true}, CacheCleanup: store.CleanupConfig{Disabled: true}}, tally.NoopScope)
	c11must(err)
	const host = "origin1:80"
	ring := hashring.New(hashring.Config{MaxReplica: 1}, hostlist.Fixture(host), healthcheck.IdentityFilter{}, tally.NoopScope)
	bm := backend.ManagerFixture()
	mg := metainfogen.Fixture(cas, 4)
	br := blobrefresh.New(blobrefresh.Config{}, tally.NoopScope, cas, bm, mg)
	srv, err := blobserver.New(blobserver.Config{}, tally.NoopScope, clock.New(), host, ring, cas, blobclient.NewProvider(),
		c11clusterProvider{}, core.PeerContextFixture(), bm, br, mg, c11retry{})
	c11must(err)
	addr, stop := c11serve(srv.Handler())
	return addr, func() { stop(); cas.Close() }
}

// hostile blob name (digest parameter) against the origin: start an upload, download, delete
func (g *c11gen) emitBlobName(i int, raw, kind string) {
	b := c11newBox(g.ctx.Tmp, i)
	defer b.close()
	cdir, udir := filepath.Join(b.w, "c"), filepath.Join(b.w, "u")
	addr, stop := c11origin(cdir, udir)
	defer stop()
	skip := map[string]bool{cdir: true, udir: true}
	before := c11snap(b.base, skip)
	leak := false
	var hist []string
	call := func(method, target string) int {
		code, _, rb := g.req(addr, method, target, nil, nil)
		hist = append(hist, method+" blob")
		if b.leaked(rb) {
			leak = true
		}
		return code
	}
	ok := c11ok(call("POST", "/internal/blobs/"+raw+"/uploads"))
	call("GET", "/namespace/ns/blobs/"+raw)
	call("HEAD", "/internal/namespace/ns/blobs/"+raw)
	call("GET", "/internal/namespace/ns/blobs/"+raw+"/metainfo")
	call("DELETE", "/internal/blobs/"+raw)
	files := append(c11files(cdir, "c/"), c11files(udir, "u/")...)
	outside := c11diff(before, c11snap(b.base, skip))
	g.emitHTTP(c11BlobName, raw, "", ok, files, outside, leak, kind, hist)
}

func (g *c11gen) emitOrigin(i, ep int, mk func(g *c11gen, uid string) (string, string)) {
	b := c11newBox(g.ctx.Tmp, i)
	defer b.close()
	cdir, udir := filepath.Join(b.w, "c"), filepath.Join(b.w, "u")
	addr, stop := c11origin(cdir, udir)
	defer stop()

	skip := map[string]bool{cdir: true, udir: true}
	content := []byte(fmt.Sprintf("blob-content-%d", i))
	d := c11digest(string(content))
	ns := "ns"
	var hist []string
	leak := false
	call := func(method, target string, hdr [][2]string, body []byte) (int, http.Header) {
		code, h, rb := g.req(addr, method, target, hdr, body)
		hist = append(hist, method+" "+c11epName[ep])
		if b.leaked(rb) {
			leak = true
		}
		return code, h
	}
	// a genuine upload is started first
	startT := "/namespace/" + ns + "/blobs/" + d.String() + "/uploads"
	if ep == c11InternalUpload {
		startT = "/internal/blobs/" + d.String() + "/uploads"
	}
	code, h := call("POST", startT, nil, nil)
	if !c11ok(code) {
		g.emit(hlib.Case{Coq: "CClean (X 0x1) (X 0x12e)", Kind: "origin-start-failed", Incon: true})
		return
	}
	uid := h.Get("Location")
	raw, kind := mk(g, uid)
	before := c11snap(b.base, skip)
	cr := [][2]string{{"Content-Range", fmt.Sprintf("0-%d", len(content))}}
	ok := true
	switch ep {
	case c11ClusterUpload:
		t := "/namespace/" + ns + "/blobs/" + d.String() + "/uploads/" + raw
		if code, _ := call("PATCH", t, cr, content); !c11ok(code) {
			ok = false
		}
		if code, _ := call("PUT", t, nil, nil); !c11ok(code) {
			ok = false
		}
	case c11InternalUpload:
		t := "/internal/blobs/" + d.String() + "/uploads/" + raw
		if code, _ := call("PATCH", t, cr, content); !c11ok(code) {
			ok = false
		}
		if code, _ := call("PUT", t, nil, nil); !c11ok(code) {
			ok = false
		}
	case c11DupCommit:
		t := "/namespace/" + ns + "/blobs/" + d.String() + "/uploads/" + uid
		if code, _ := call("PATCH", t, cr, content); !c11ok(code) {
			g.emit(hlib.Case{Coq: "CClean (X 0x1) (X 0x12e)", Kind: "origin-patch-failed", Incon: true})
			return
		}
		before = c11snap(b.base, skip)
		t = "/internal/duplicate/namespace/" + ns + "/blobs/" + d.String() + "/uploads/" + raw
		if code, _ := call("PUT", t, nil, []byte(`{}`)); !c11ok(code) {
			ok = false
		}
	}
	files := append(c11files(cdir, "c/"), c11files(udir, "u/")...)
	outside := c11diff(before, c11snap(b.base, skip))
	g.emitHTTP(ep, raw, uid, ok, files, outside, leak, kind, hist)
}

func (g *c11gen) emitHTTP(ep int, raw, aux string, ok bool, files []string, outside int, leak bool, kind string, hist []string) {
	g.emit(hlib.Case{
		Coq: fmt.Sprintf("CHttp %d %s %s %s %s %d %s", ep, c11xs(raw), c11xs(aux), hlib.B(ok), c11list(files), outside, hlib.B(leak)),
		NT:  ok, Kind: c11epName[ep] + "-" + kind, Hist: hist, Incon: g.bad,
		Key: fmt.Sprintf("%d|%s|%v", ep, raw, ok),
		Sample: map[string]interface{}{"endpoint": c11epName[ep], "raw_param": c11show(raw), "genuine_uid": aux, "all_2xx": ok,
			"files_in_store_dirs": fmt.Sprintf("%q", files), "changed_outside_store_dirs": outside, "decoy_content_returned": leak}})
}

// hostile variants of a genuine upload id
func (g *c11gen) uidVariant(uid string) (string, string) {
	var name, kind string
	switch k := g.r.Intn(20); {
	case k < 5:
		name, kind = uid, "genuine"
	case k < 7:
		name, kind = "..", "dotdot"
	case k < 8:
		name, kind = ".", "dot"
	case k < 9:
		name, kind = uid+"/..", "uid-up"
	case k < 10:
		name, kind = uid+"/../"+uid, "uid-up-uid"
	case k < 11:
		name, kind = "../u/"+uid, "out-and-back"
	case k < 12:
		name, kind = "./"+uid, "dot-uid"
	case k < 13:
		name, kind = uid+"/", "uid-slash"
	case k < 14:
		name, kind = uid+"/.", "uid-dot"
	case k < 15:
		name, kind = uid+"/data", "uid-data"
	case k < 16:
		name, kind = "../../w/u/"+uid, "two-up-and-back"
	case k < 17:
		name, kind = g.pick(c11whole), "hostile"
	case k < 18:
		name, kind = uid+"\x00", "uid-nul"
	default:
		name, kind = g.mutate(uid), "mutated"
	}
	if name == "" {
		name, kind = "..", "dotdot"
	}
	raw, ek := g.encode(name)
	if g.r.Chance(5) {
		raw, ek = g.breakRaw(raw), "enc-broken"
	}
	if !c11rawOK(raw) {
		raw, ek = "%2E%2E", "enc-all-upper"
		kind = "dotdot"
	}
	return raw, kind + "-" + ek
}

func (g *c11gen) rawName() (string, string) {
	for {
		name, nk := g.name()
		if name == "" || c11gap(name) {
			continue
		}
		raw, ek := g.encode(name)
		if g.r.Chance(6) {
			raw, ek = g.breakRaw(raw), "enc-broken"
		}
		if c11rawOK(raw) {
			return raw, nk + "-" + ek
		}
	}
}

// the tag store first writes "<name>.<uuid>" in its upload directory: an element of 219..255 bytes is
// storable by itself but not with that suffix; such names are left out of the HTTP streams
func c11gap(name string) bool {
	for _, c := range strings.Split(name, "/") {
		if len(c) > 200 && len(c) <= 255 {
			return true
		}
	}
	return false
}

// ---- driver

func c11(ctx *hlib.Ctx) {
	zc := zap.NewProductionConfig()
	zc.OutputPaths = []string{}
	zc.ErrorOutputPaths = []string{}
	log.ConfigureLogger(zc)

	g := &c11gen{ctx: ctx, r: hlib.NewRng(ctx.Seed)}
	raddr, rstop := c11routeServer()
	defer rstop()
	box := 0
	next := func() int { box++; return box }

	// ---- seeds: every refutation witness / boundary reasoned about
	for _, d := range []string{"/s", "/var/cache/kraken/upload", "/", "", ".", "..", "rel/dir", "/a/../b/"} {
		for _, n := range []string{"..", ".", "", "a", "a/b", "../a", "a/..", "/a", "a/", "...", "..a", "a/../..", "a//b", "\x00", "a/./b"} {
			g.emitLocal(d, n, "seed")
		}
	}
	for _, n := range []string{"..", ".", "a", "a/b", "repo/img:tag", "...", "a\x00", strings.Repeat("n", 300), "../a", "a/..", "/a", "a/", "data", "a/data/b"} {
		i := next()
		g.later(func(g *c11gen) { g.emitStore(i, n, "seed") })
	}
	for _, raw := range []string{"%2E%2E", "..", "%2e%2e", "%252E%252E", ".", "%2E", "a", "repo%2Fimg:tag", "a%2F..%2F..", "..%2Fu", "%2E%2E%2F", "a%00", "%", "%zz", "a%2F%2E%2E%2F%2E%2E%2Fdata"} {
		g.emitRoute(raddr, raw, "seed")
		for _, ep := range []int{c11TagDupPutGet, c11TagPutGet, c11TagGet, c11TagDupPutReplicate} {
			i := next()
			g.later(func(g *c11gen) { g.emitTag(i, ep, raw, "seed") })
		}
	}
	for _, ep := range []int{c11ClusterUpload, c11InternalUpload, c11DupCommit} {
		for _, f := range []func(string) (string, string){
			func(uid string) (string, string) { return uid, "seed-genuine" },
			func(uid string) (string, string) { return "%2E%2E", "seed-dotdot" },
			func(uid string) (string, string) { return "..", "seed-dotdot-literal" },
			func(uid string) (string, string) { return "%252E%252E", "seed-dotdot-double" },
			func(uid string) (string, string) { return "%2E", "seed-dot" },
			func(uid string) (string, string) { return uid + "%2F..%2F" + uid, "seed-up-and-back" },
			func(uid string) (string, string) { return "..%2Fu%2F" + uid, "seed-out-and-back" },
		} {
			i := next()
			g.later(func(g *c11gen) { g.emitOrigin(i, ep, func(_ *c11gen, uid string) (string, string) { return f(uid) }) })
		}
	}
	for _, raw := range []string{"sha256:" + c11digest("x").Hex(), "sha256:" + strings.Repeat("..%2F", 12) + "aaaa", "sha256:%2E%2E", "%2E%2E", "sha256:" + strings.Repeat(".", 64),
		"sha256%3A" + c11digest("y").Hex(), "sha256:" + strings.ToUpper(c11digest("z").Hex())} {
		i := next()
		g.later(func(g *c11gen) { g.emitBlobName(i, raw, "seed") })
	}
	for _, raw := range []string{"", "sha256:", ":", "sha256:" + c11digest("x").Hex(), "sha256:" + strings.Repeat("../", 21) + "a", "sha256:" + c11digest("x").Hex() + ":"} {
		g.emitDigest(raw, "seed")
	}
	hexd := c11digest("x").Hex()
	for _, d := range []string{"/c", "/", "", ".", "..", "/a/../c/"} {
		for _, n := range []string{hexd, "ab", "abc", "abcd", "a", "0123456789"} {
			g.emitCas(d, n, "seed")
		}
	}

	// ---- thorough: exhaustive small scope
	if ctx.Tier == "thorough" {
		var rec func(alpha string, prefix []byte, depth int, f func(string))
		rec = func(alpha string, prefix []byte, depth int, f func(string)) {
			f(string(prefix))
			if depth == 0 {
				return
			}
			for i := 0; i < len(alpha); i++ {
				rec(alpha, append(append([]byte{}, prefix...), alpha[i]), depth-1, f)
			}
		}
		rec("./a", nil, 6, func(s string) {
			g.emitLocal("/s", s, "exhaustive")
			g.emitClean(s, "exhaustive")
		})
		rec("./a", nil, 4, func(s string) {
			g.emitLocal(s, "a/b", "exhaustive-dir")
			g.emitLocal(s, "..", "exhaustive-dir")
			g.emitDir(s, "exhaustive")
			g.emitJoin([]string{s, "a"}, "exhaustive")
		})
		rec("%2eF./", nil, 4, func(s string) {
			g.emitUnesc(s, "exhaustive")
			if c11rawOK(s) {
				g.emitRoute(raddr, s, "exhaustive")
			}
		})
		rec("./a", nil, 3, func(s string) {
			if s != "" {
				i := next()
				g.later(func(g *c11gen) { g.emitStore(i, s, "exhaustive") })
			}
		})
	}

	// ---- random streams
	nStore, nHTTP := ctx.N/20, ctx.N/25
	if ctx.Tier == "thorough" {
		nStore, nHTTP = ctx.N/40, ctx.N/50
	}
	for i := 0; i < ctx.N; i++ {
		name, nk := g.name()
		switch k := g.r.Intn(100); {
		case k < 40:
			g.emitLocal(g.pick(c11dirs), name, nk)
		case k < 50:
			g.emitClean(filepath.Join(g.pick(c11dirs), "x")+"/"+name, nk)
			if g.r.Bool() {
				g.emitClean(name, nk)
			}
		case k < 58:
			if g.r.Bool() {
				g.emitJoin([]string{g.pick(c11dirs), name, "data"}, nk)
			} else {
				g.emitJoin([]string{g.pick(c11dirs), g.pick([]string{"", "a", ".."}), name}, nk)
			}
		case k < 65:
			g.emitDir(g.pick(c11dirs)+"/"+name, nk)
			if g.r.Bool() {
				g.emitDir(name, nk)
			}
		case k < 77:
			raw, ek := g.encode(name)
			if g.r.Chance(15) {
				raw, ek = g.breakRaw(raw), "enc-broken"
			}
			g.emitUnesc(raw, nk+"-"+ek)
		case k < 89:
			raw, rk := g.rawName()
			g.emitRoute(raddr, raw, rk)
		case k < 93:
			dn, dk := g.digestName()
			g.emitDigest(dn, dk)
		default:
			if g.r.Chance(70) {
				hx := c11digest(name).Hex()
				g.emitCas(g.pick(c11dirs), hx[:g.pick2(64, 4, 2, 0, 5, 64, 64)], "hex")
			} else {
				g.emitCas(g.pick(c11dirs), name, nk)
			}
		}
	}
	for i := 0; i < nStore; i++ {
		name, nk := g.name()
		if name == "" {
			name, nk = "..", "hostile"
		}
		if len(name) > 2000 {
			continue
		}
		k := next()
		g.later(func(g *c11gen) { g.emitStore(k, name, nk) })
	}
	for i := 0; i < nHTTP; i++ {
		switch k := g.r.Intn(10); {
		case k < 1:
			for {
				dn, dk := g.digestName()
				raw, ek := g.encode(dn)
				if dn != "" && c11rawOK(raw) {
					k := next()
					g.later(func(g *c11gen) { g.emitBlobName(k, raw, dk+"-"+ek) })
					break
				}
			}
		case k < 6:
			raw, rk := g.rawName()
			ep := []int{c11TagPutGet, c11TagDupPutGet, c11TagDupPutGet, c11TagGet, c11TagDupPutReplicate}[g.r.Intn(5)]
			k := next()
			g.later(func(g *c11gen) { g.emitTag(k, ep, raw, rk) })
		default:
			ep := []int{c11ClusterUpload, c11InternalUpload, c11DupCommit}[g.r.Intn(3)]
			k := next()
			g.later(func(g *c11gen) { g.emitOrigin(k, ep, (*c11gen).uidVariant) })
		}
	}
	g.flush()
}

func (g *c11gen) pick2(xs ...int) int { return xs[g.r.Intn(len(xs))] }
