package main

import (
	"bytes"
	"encoding/hex"
	"fmt"
	"io"
	"net"
	"net/http"
	"os"
	"sort"
	"strconv"
	"strings"
	"sync"
	"sync/atomic"

	"github.com/aws/aws-sdk-go/aws"
	"github.com/aws/aws-sdk-go/aws/awserr"
	"github.com/aws/aws-sdk-go/service/s3"
	"github.com/aws/aws-sdk-go/service/s3/s3manager"
	"github.com/uber-go/tally"
	"github.com/uber/kraken/lib/backend"
	"github.com/uber/kraken/lib/backend/backenderrors"
	"github.com/uber/kraken/lib/backend/s3backend"
	"github.com/uber/kraken/lib/backend/shadowbackend"
	"github.com/uber/kraken/lib/backend/sqlbackend"
	"github.com/uber/kraken/lib/backend/testfs"
	klog "github.com/uber/kraken/utils/log"
	"go.uber.org/zap"
	"verifharness/hlib"
)

// C37: histories of upload/download/stat/list against the real backend clients:
//   testfs client + in-process testfs server, sqlbackend on SQLite, s3backend over an in-memory
//   fake of its S3 interface whose page sizes are chosen by the driver, and shadowbackend over
//   (testfs, sql) in both orders, built through its public constructor.
func init() { hlib.Register("C37", c37) }

// ---------------------------------------------------------------- in-memory S3

// fakeS3 implements s3backend.S3.  Keys lose one leading "/" (the AWS SDK cleans the request
// URI, so "/root/x" and "root/x" address the same object; List relies on that).  Listing is
// over the sorted keys; a continuation token is "p<position>"; the size of every page of a
// ListObjectsV2Pages call is taken from zs (driver's oracle), default MaxKeys.
type fakeS3 struct {
	mu   sync.Mutex
	objs map[string][]byte
	zs   []int
	nilKey bool // next listing carries one object with a nil Key in its first page
}

func s3norm(k string) string { return strings.TrimPrefix(k, "/") }

func (f *fakeS3) put(k string, v []byte) {
	f.mu.Lock()
	defer f.mu.Unlock()
	f.objs[s3norm(k)] = append([]byte{}, v...)
}

func (f *fakeS3) HeadObject(in *s3.HeadObjectInput) (*s3.HeadObjectOutput, error) {
	f.mu.Lock()
	defer f.mu.Unlock()
	v, ok := f.objs[s3norm(*in.Key)]
	if !ok {
		return nil, awserr.New("NotFound", "Not Found", nil)
	}
	return &s3.HeadObjectOutput{ContentLength: aws.Int64(int64(len(v)))}, nil
}

func (f *fakeS3) Download(w io.WriterAt, in *s3.GetObjectInput, _ ...func(*s3manager.Downloader)) (int64, error) {
	f.mu.Lock()
	v, ok := f.objs[s3norm(*in.Key)]
	f.mu.Unlock()
	if !ok {
		return 0, awserr.New(s3.ErrCodeNoSuchKey, "no such key", nil)
	}
	// two parts, the second one first (the real downloader writes parts concurrently)
	h := len(v) / 2
	if _, err := w.WriteAt(v[h:], int64(h)); err != nil {
		return 0, err
	}
	if _, err := w.WriteAt(v[:h], 0); err != nil {
		return 0, err
	}
	return int64(len(v)), nil
}

func (f *fakeS3) Upload(in *s3manager.UploadInput, _ ...func(*s3manager.Uploader)) (*s3manager.UploadOutput, error) {
	b, err := io.ReadAll(in.Body)
	if err != nil {
		return nil, err
	}
	f.put(*in.Key, b)
	return &s3manager.UploadOutput{}, nil
}

func (f *fakeS3) ListObjectsV2Pages(in *s3.ListObjectsV2Input, fn func(*s3.ListObjectsV2Output, bool) bool) error {
	f.mu.Lock()
	var keys []string
	for k := range f.objs {
		if strings.HasPrefix(k, *in.Prefix) {
			keys = append(keys, k)
		}
	}
	zs := f.zs
	f.zs = nil
	f.mu.Unlock()
	sort.Strings(keys)
	pos := 0
	if in.ContinuationToken != nil {
		t := *in.ContinuationToken
		p, err := strconv.Atoi(strings.TrimPrefix(t, "p"))
		if err != nil || !strings.HasPrefix(t, "p") {
			return awserr.New("InvalidArgument", "bad continuation token", nil)
		}
		pos = p
	}
	if pos > len(keys) {
		pos = len(keys)
	}
	for {
		z := int(*in.MaxKeys)
		if z < 1 {
			z = 1
		}
		if len(zs) > 0 {
			z, zs = zs[0], zs[1:]
		}
		end := pos + z
		if end > len(keys) {
			end = len(keys)
		}
		page := &s3.ListObjectsV2Output{}
		for _, k := range keys[pos:end] {
			page.Contents = append(page.Contents, &s3.Object{Key: aws.String(k)})
		}
		pos = end
		trunc := pos < len(keys)
		page.IsTruncated = aws.Bool(trunc)
		if trunc {
			page.NextContinuationToken = aws.String("p" + strconv.Itoa(pos))
		}
		if !fn(page, !trunc) || !trunc {
			return nil
		}
	}
}

// ---------------------------------------------------------------- cases

const (
	kFs = iota
	kSQL
	kS3
)

var c37ekName = [...]string{"KFs", "KSql", "KS3"}

type c37cfg struct {
	shadow  bool
	a, b    int // engine kinds (b only for shadow)
	fsRoot  string
	s3Root  string
	listMax int
}

type c37op struct {
	k     int // 0 Upload 1 Download 2 Stat 3 List 4 RawPut 5 SideUpload
	n     string
	c     []byte
	paged bool
	maxk  int
	zss   [][]int
	side  bool // SideUpload: false = active component, true = shadow component
}

var c37opName = [...]string{"Upload", "Download", "Stat", "List", "RawPut", "SideUpload"}

func c37s(b []byte) string {
	if len(b) == 0 {
		return "(s 1)"
	}
	return "(s 0x01" + hex.EncodeToString(b) + ")"
}

func c37zss(zss [][]int) string {
	var l []string
	for _, zs := range zss {
		l = append(l, hlib.Ns(zs))
	}
	return hlib.List(l)
}

func (o c37op) coq() string {
	switch o.k {
	case 0:
		return "Upload " + c37s([]byte(o.n)) + " " + c37s(o.c)
	case 1:
		return "Download " + c37s([]byte(o.n))
	case 2:
		return "Stat " + c37s([]byte(o.n))
	case 3:
		m := "Unpaged"
		if o.paged {
			m = "(Paged " + hlib.N(o.maxk) + ")"
		}
		return "List " + c37s([]byte(o.n)) + " " + m + " " + c37zss(o.zss)
	case 4:
		return "RawPut " + c37s([]byte(o.n)) + " " + c37s(o.c)
	default:
		return "SideUpload " + hlib.B(o.side) + " " + c37s([]byte(o.n)) + " " + c37s(o.c)
	}
}

func (o c37op) json() map[string]interface{} {
	m := map[string]interface{}{"op": c37opName[o.k], "name": o.n}
	if o.k == 0 || o.k == 4 || o.k == 5 {
		m["content_hex"] = hex.EncodeToString(o.c)
	}
	if o.k == 3 {
		m["paged"], m["max_keys"], m["page_sizes"] = o.paged, o.maxk, o.zss
	}
	if o.k == 5 {
		m["shadow_side"] = o.side
	}
	return m
}

// ---------------------------------------------------------------- environment of one case

type c37env struct {
	client  backend.Client
	comp    [2]backend.Client // direct handles on the components of a shadow client
	fake    *fakeS3
	cleanup []func()
}

func (e *c37env) close() {
	for i := len(e.cleanup) - 1; i >= 0; i-- {
		e.cleanup[i]()
	}
}

func c37serve(h http.Handler) (string, func()) {
	l, err := net.Listen("tcp", "127.0.0.1:0")
	if err != nil {
		panic(err)
	}
	srv := &http.Server{Handler: h}
	go srv.Serve(l) //nolint:errcheck
	return l.Addr().String(), func() { srv.Close() }
}

var c37dbSeq int64

func c37must(err error) {
	if err != nil {
		panic(err)
	}
}

func c37newEnv(ctx *hlib.Ctx, cfg c37cfg) *c37env {
	e := &c37env{}
	mkFs := func() testfs.Config {
		srv := testfs.NewServer()
		addr, stop := c37serve(srv.Handler())
		e.cleanup = append(e.cleanup, func() { stop(); srv.Cleanup() })
		return testfs.Config{Addr: addr, Root: cfg.fsRoot, NamePath: "identity"}
	}
	mkSQL := func() sqlbackend.Config {
		seq := atomic.AddInt64(&c37dbSeq, 1)
		// one shared in-memory database per case (all connections of the case see the same tables)
		return sqlbackend.Config{Dialect: "sqlite3", ConnectionString: fmt.Sprintf("file:c37_%d_%d?mode=memory&cache=shared", os.Getpid(), seq)}
	}
	mkS3 := func() backend.Client {
		e.fake = &fakeS3{objs: map[string][]byte{}}
		var auth s3backend.AuthConfig
		auth.S3.AccessKeyID, auth.S3.AccessSecretKey = "k", "s"
		c, err := s3backend.NewClient(s3backend.Config{Username: "u", Region: "r", Bucket: "b",
			RootDirectory: cfg.s3Root, NamePath: "identity", ListMaxKeys: cfg.listMax},
			s3backend.UserAuthConfig{"u": auth}, tally.NoopScope, s3backend.WithS3(e.fake))
		c37must(err)
		return c
	}
	open := func(k int, fc testfs.Config, sc sqlbackend.Config) backend.Client {
		var c backend.Client
		var err error
		if k == kFs {
			c, err = testfs.NewClient(fc, tally.NoopScope)
		} else {
			c, err = sqlbackend.NewClient(sc, sqlbackend.UserAuthConfig{}, tally.NoopScope)
		}
		c37must(err)
		e.cleanup = append(e.cleanup, func() { c.Close() })
		return c
	}
	if !cfg.shadow {
		switch cfg.a {
		case kFs:
			e.client = open(kFs, mkFs(), sqlbackend.Config{})
		case kSQL:
			e.client = open(kSQL, testfs.Config{}, mkSQL())
		default:
			e.client = mkS3()
		}
		return e
	}
	// shadow over testfs and sql through the public constructor
	fc, sc := mkFs(), mkSQL()
	conf := map[int]map[string]interface{}{kFs: {"testfs": fc}, kSQL: {"sql": sc}}
	c, err := shadowbackend.NewClient(
		shadowbackend.Config{ActiveClientConfig: conf[cfg.a], ShadowClientConfig: conf[cfg.b]},
		backend.AuthConfig{"testfs": nil, "sql": sqlbackend.UserAuthConfig{}}, tally.NoopScope)
	c37must(err)
	e.client = c
	e.cleanup = append(e.cleanup, func() { c.Close() })
	e.comp[0] = open(cfg.a, fc, sc)
	e.comp[1] = open(cfg.b, fc, sc)
	return e
}

func c37cls(err error) string {
	if err == backenderrors.ErrBlobNotFound {
		return "ONotFound"
	}
	return "OErr"
}

func c37tok(t string) int {
	if t == "" {
		return 0
	}
	if strings.HasPrefix(t, "p") {
		if p, err := strconv.Atoi(t[1:]); err == nil && p >= 0 {
			return p + 1
		}
	}
	return 999999
}

const c37maxCalls = 40

// c37run executes one history on a fresh store and returns the observed outputs (Coq terms),
// readable outputs, and whether the case is non-trivial.
func c37run(ctx *hlib.Ctx, cfg c37cfg, ops []c37op) ([]string, []interface{}, bool) {
	e := c37newEnv(ctx, cfg)
	defer e.close()
	listKind := cfg.a // the engine that serves listings
	var outs []string
	var read []interface{}
	okUp, okRead := false, false
	page := func(r *backend.ListResult) (string, interface{}) {
		names := append([]string{}, r.Names...)
		if listKind != kS3 {
			sort.Strings(names) // order is not part of the contract for testfs / sql
		}
		var l []string
		for _, n := range names {
			l = append(l, c37s([]byte(n)))
		}
		if len(names) > 0 {
			okRead = true
		}
		return hlib.Pair(hlib.List(l), hlib.N(c37tok(r.ContinuationToken))),
			map[string]interface{}{"names": names, "token": r.ContinuationToken}
	}
	for _, o := range ops {
		switch o.k {
		case 0, 5:
			cl := e.client
			if o.k == 5 {
				cl = e.comp[map[bool]int{false: 0, true: 1}[o.side]]
			}
			err := cl.Upload("ns", o.n, bytes.NewReader(o.c))
			if err == nil {
				okUp = true
				outs, read = append(outs, "OOk"), append(read, "ok")
			} else {
				outs, read = append(outs, c37cls(err)), append(read, c37cls(err))
			}
		case 1:
			var b bytes.Buffer
			err := e.client.Download("ns", o.n, &b)
			if err == nil {
				okRead = true
				outs, read = append(outs, "OBytes "+c37s(b.Bytes())), append(read, "bytes:"+hex.EncodeToString(b.Bytes()))
			} else {
				outs, read = append(outs, c37cls(err)), append(read, c37cls(err))
			}
		case 2:
			info, err := e.client.Stat("ns", o.n)
			if err == nil {
				outs, read = append(outs, "OSize "+hlib.U(uint64(info.Size))), append(read, fmt.Sprintf("size:%d", info.Size))
			} else {
				outs, read = append(outs, c37cls(err)), append(read, c37cls(err))
			}
		case 3:
			var pages []string
			var rp []interface{}
			failed := false
			tok := ""
			for i := 0; i < c37maxCalls; i++ {
				if e.fake != nil {
					e.fake.zs = nil
					if i < len(o.zss) {
						e.fake.zs = o.zss[i]
					}
				}
				var r *backend.ListResult
				var err error
				if o.paged {
					r, err = e.client.List(o.n, backend.ListWithPagination(), backend.ListWithMaxKeys(o.maxk),
						backend.ListWithContinuationToken(tok))
				} else {
					r, err = e.client.List(o.n)
				}
				if err != nil {
					failed = true
					break
				}
				p, j := page(r)
				pages, rp = append(pages, p), append(rp, j)
				tok = r.ContinuationToken
				if tok == "" || !o.paged {
					break
				}
			}
			if failed {
				outs, read = append(outs, "OErr"), append(read, "OErr")
			} else {
				outs, read = append(outs, "OPages "+hlib.List(pages)), append(read, rp)
			}
		case 4:
			e.fake.put(o.n, o.c)
			outs, read = append(outs, "OOk"), append(read, "ok")
		}
	}
	return outs, read, okUp && okRead
}

// c37probeZero measures gorm's treatment of a zero-valued Assign on the real client: does an
// upload of empty content over an existing tag keep the old bytes?
func c37probeZero(ctx *hlib.Ctx) bool {
	e := c37newEnv(ctx, c37cfg{a: kSQL})
	defer e.close()
	c37must(e.client.Upload("ns", "p:q", bytes.NewReader([]byte("x"))))
	c37must(e.client.Upload("ns", "p:q", bytes.NewReader(nil)))
	var b bytes.Buffer
	c37must(e.client.Download("ns", "p:q", &b))
	return b.Len() != 0
}

// ---------------------------------------------------------------- generator

var (
	c37fsGood  = []string{"a", "b/c", "b/d", "e/f/g", "x_y", "r:t", "r:u"}
	c37fsOdd   = []string{"b", "b/c/d", "e/f", "r/t", "r", "", "/", "a//", "./a", "b/../a", "a:", ":a", "e:f:g", "b::c"}
	c37fsPref  = []string{"", "b", "e/f", "e", "a", "zz", "r", "b/", "/b", "b/c", "r:t", "e:f"}
	c37sqlGood = []string{"r:t", "r:u", "s:t", "q/r:t", "s:dummy", "r:T", "rr:t", "r/q:u"}
	c37sqlOdd  = []string{"", "r", "r:", ":t", "a:b:c", "r/_manifests/tags:t", "/r:t", "r/:t"}
	c37sqlPref = []string{"", "rr", "r/q/_manifests/tags", "r/_manifests/tags", "/r/_manifests/tags", "r", "q/r/_manifests/tags", "zz", "s", "/s",
		"//r", "r/_manifests/tags/_manifests/tags", "q/r", "/", "r/"}
	c37s3Good = []string{"a", "ab", "a/b", "a/c", "b:t", "d/e/f", "d/e/g", "c"}
	c37s3Odd  = []string{"a/", "./a", "d//e/f", "", "/", "../x", "d/../c", "a/b/"}
	c37s3Pref = []string{"", "a", "a/", "d", "d/e", "zz", "b:", "/a", "d/e/", "c", ".."}
	c37s3Raw  = []string{"rootx/y", "root", "root/", "root//a", "root/zz/", "other/a", "root/a/b", "a", "r/s/k", "ab"}
	c37shGood = []string{"r:t", "r:u", "s:t", "q/r:t"}
	c37shOdd  = []string{"a", "b/c", "", "r:", "a:b:c", "r/t", "r"}
	c37shPref = []string{"", "r", "r/_manifests/tags", "q/r", "s", "zz", "q"}
	c37fsRoots = []string{"blobs", "blobs", "blobs", "t/u", "", "x/"}
	c37s3Roots = []string{"/root", "/root", "/root", "/r/s", "/", "/root/"}
)

func c37content(r *hlib.Rng, pctEmpty int) []byte {
	if r.Chance(pctEmpty) {
		return nil
	}
	switch r.Intn(9) + 1 {
	case 1:
		return []byte{0}
	case 2:
		return []byte{0xff, 0x00, 0x80}
	case 3:
		return []byte("sha256:ab")
	}
	return r.Bytes(r.Range(1, 5))
}

func c37pick(r *hlib.Rng, good, odd []string, pctGood int) string {
	if len(odd) == 0 || r.Chance(pctGood) {
		return good[r.Intn(len(good))]
	}
	return odd[r.Intn(len(odd))]
}

func c37zsGen(r *hlib.Rng, maxk int) [][]int {
	var zss [][]int
	if r.Chance(50) {
		return nil
	}
	for i, n := 0, r.Range(1, 4); i < n; i++ {
		var zs []int
		for j, m := 0, r.Intn(4); j < m; j++ {
			if r.Chance(15) {
				zs = append(zs, 0)
			} else {
				zs = append(zs, r.Range(1, maxk+1))
			}
		}
		zss = append(zss, zs)
	}
	return zss
}

func c37gen(r *hlib.Rng, cfg c37cfg, n int, pctGood int) []c37op {
	var good, odd, pref []string
	valid := pctGood == 100
	// empty contents are outside the sql contract while gorm skips zero-valued assigns: rare in the valid stream
	pctEmpty := 10
	if valid && (cfg.shadow || cfg.a == kSQL) {
		pctEmpty = 2
	}
	switch {
	case cfg.shadow:
		good, odd, pref = c37shGood, c37shOdd, c37shPref
	case cfg.a == kFs:
		good, odd, pref = c37fsGood, c37fsOdd, c37fsPref
		if valid && r.Chance(70) {
			good = c37fsGood[:5] // without ':' names: listings round-trip, so the oracle checks them
		}
	case cfg.a == kSQL:
		good, odd, pref = c37sqlGood, c37sqlOdd, c37sqlPref
	default:
		good, odd, pref = c37s3Good, c37s3Odd, c37s3Pref
	}
	var ops []c37op
	for i := 0; i < n; i++ {
		k := r.Intn(100)
		switch {
		case k < 40:
			ops = append(ops, c37op{k: 0, n: c37pick(r, good, odd, pctGood), c: c37content(r, pctEmpty)})
		case k < 58:
			ops = append(ops, c37op{k: 1, n: c37pick(r, good, odd, pctGood)})
		case k < 72:
			ops = append(ops, c37op{k: 2, n: c37pick(r, good, odd, pctGood)})
		case k < 92:
			o := c37op{k: 3, n: pref[r.Intn(len(pref))]}
			if r.Chance(65) {
				o.paged = true
				o.maxk = r.Range(1, 5)
				if r.Chance(4) {
					o.maxk = 0
				}
			}
			if cfg.a == kS3 && !cfg.shadow {
				mk := o.maxk
				if !o.paged {
					mk = cfg.listMax
				}
				o.zss = c37zsGen(r, mk)
				if !o.paged && len(o.zss) > 1 {
					o.zss = o.zss[:1]
				}
			}
			ops = append(ops, o)
		default:
			switch {
			case cfg.shadow:
				ops = append(ops, c37op{k: 5, side: r.Bool(), n: c37pick(r, good, odd, pctGood), c: c37content(r, pctEmpty)})
			case cfg.a == kS3 && !valid:
				key := c37s3Raw[r.Intn(len(c37s3Raw))]
				ops = append(ops, c37op{k: 4, n: key, c: c37content(r, pctEmpty)})
			default:
				ops = append(ops, c37op{k: 1, n: c37pick(r, good, odd, pctGood)})
			}
		}
	}
	return ops
}

func c37(ctx *hlib.Ctx) {
	klog.SetGlobalLogger(zap.NewNop().Sugar())
	r := hlib.NewRng(ctx.Seed)
	sqlZero := c37probeZero(ctx)
	// cases are generated sequentially (one PRNG), executed on a worker pool (every case has its own
	// server / database / bucket), and emitted in generation order
	type job struct {
		cfg  c37cfg
		ops  []c37op
		kind string
		outs []string
		read []interface{}
		nt   bool
	}
	var jobs []*job
	emit := func(cfg c37cfg, ops []c37op, kind string) { jobs = append(jobs, &job{cfg: cfg, ops: ops, kind: kind}) }
	write := func(j *job) {
		cfg, ops, kind, outs, read, nt := j.cfg, j.ops, j.kind, j.outs, j.read, j.nt
		bk := "(Single " + c37ekName[cfg.a] + ")"
		name := c37ekName[cfg.a]
		if cfg.shadow {
			bk = "(Shadow " + c37ekName[cfg.a] + " " + c37ekName[cfg.b] + ")"
			name = "Shadow-" + c37ekName[cfg.a] + "-" + c37ekName[cfg.b]
		}
		var sops []string
		var jops []interface{}
		var hist []string
		for _, o := range ops {
			sops = append(sops, o.coq())
			jops = append(jops, o.json())
			hist = append(hist, c37opName[o.k])
		}
		coq := fmt.Sprintf("mkcase (mkcfg %s %s %s %d %s) %s %s", bk, c37s([]byte(cfg.fsRoot)), c37s([]byte(cfg.s3Root)),
			cfg.listMax, hlib.B(sqlZero), hlib.List(sops), hlib.List(outs))
		ctx.Emit(hlib.Case{Coq: coq, NT: nt, Kind: name + "/" + kind, Hist: hist,
			Sample: map[string]interface{}{"backend": name, "fs_root": cfg.fsRoot, "s3_root": cfg.s3Root,
				"list_max_keys": cfg.listMax, "sql_zero_assign_skipped": sqlZero, "ops": jops, "observed": read}})
	}
	flush := func() {
		var wg sync.WaitGroup
		ch := make(chan *job)
		for w := 0; w < 8; w++ {
			wg.Add(1)
			go func() {
				defer wg.Done()
				for j := range ch {
					j.outs, j.read, j.nt = c37run(ctx, j.cfg, j.ops)
				}
			}()
		}
		for _, j := range jobs {
			ch <- j
		}
		close(ch)
		wg.Wait()
		for _, j := range jobs {
			write(j)
		}
		jobs = nil
	}
	up := func(n, c string) c37op { return c37op{k: 0, n: n, c: []byte(c)} }
	dl := func(n string) c37op { return c37op{k: 1, n: n} }
	st := func(n string) c37op { return c37op{k: 2, n: n} }
	ls := func(p string) c37op { return c37op{k: 3, n: p} }
	lp := func(p string, k int, zss ...[]int) c37op { return c37op{k: 3, n: p, paged: true, maxk: k, zss: zss} }

	fs := c37cfg{a: kFs, fsRoot: "blobs", s3Root: "/root", listMax: 3}
	sq := c37cfg{a: kSQL, fsRoot: "blobs", s3Root: "/root", listMax: 3}
	s3c := c37cfg{a: kS3, fsRoot: "blobs", s3Root: "/root", listMax: 2}
	shFS := c37cfg{shadow: true, a: kFs, b: kSQL, fsRoot: "blobs", s3Root: "/root", listMax: 3}
	shSF := c37cfg{shadow: true, a: kSQL, b: kFs, fsRoot: "blobs", s3Root: "/root", listMax: 3}

	// ---- seeds: every witness of a _refuted / observation theorem, boundaries reasoned about
	emit(sq, []c37op{up("r:t", "x"), up("r:t", ""), dl("r:t"), st("r:t"), up("r:u", ""), dl("r:u")}, "seed-empty-overwrite")
	emit(s3c, []c37op{up("a", "1"), up("b", "2"), up("c", "3"), ls(""), lp("", 2), lp("", 1), lp("", 5)}, "seed-unpaged-truncates")
	emit(s3c, []c37op{up("a", "1"), up("b", "2"), up("c", "3"), up("d", "4"), up("e", "5"),
		lp("", 2, []int{1}, []int{0, 1, 1}, []int{0}), lp("", 3, []int{2, 0, 3}), lp("", 2, []int{0, 0, 0}, []int{5})}, "seed-short-pages")
	emit(s3c, []c37op{up("a", "xy"), up("a", "z"), dl("a"), st("a"), dl("b"), st("b"), {k: 4, n: "rootx/y", c: []byte("j")},
		{k: 4, n: "root", c: []byte("j")}, ls(""), lp("a", 1), dl("a/"), up("./a", "q"), dl("a")}, "seed-s3-basic")
	emit(fs, []c37op{up("b/c", "1"), st("b"), dl("b"), up("b", "2"), up("b/c/d", "3"), ls("b"), ls("zz"), ls("b/c"), ls(""), lp("", 2)}, "seed-fs-dir")
	emit(fs, []c37op{up("r:t", "1"), dl("r/t"), up("r/t", "2"), dl("r:t"), ls("r"), ls("")}, "seed-fs-colon")
	emit(fs, []c37op{up("a", "xy"), up("a", ""), dl("a"), st("a"), dl("zz"), st("zz"), up("e/f/g", "\x00\xff"), dl("e/f/g"), ls("e")}, "seed-fs-basic")
	emit(sq, []c37op{up("r:t", "1"), up("r:u", "2"), up("s:t", "3"), up("q/r:t", "4"), ls(""), ls("r/_manifests/tags"), ls("/r/_manifests/tags"),
		ls("r"), ls("q/r/_manifests/tags"), ls("zz"), lp("r", 1), st("r:t"), st("r:zz"), dl("r:zz"), up("r", "1"), dl("a:b:c"), st(":t")}, "seed-sql-basic")
	emit(shFS, []c37op{up("r:t", "12"), dl("r:t"), st("r:t"), up("a", "3"), dl("a"), st("a"), {k: 5, side: false, n: "s:t", c: []byte("4")}, st("s:t"), dl("s:t"),
		{k: 5, side: true, n: "q/r:t", c: []byte("5")}, st("q/r:t"), dl("q/r:t"), st("zz:y"), ls("r"), ls("")}, "seed-shadow-fs-sql")
	emit(shSF, []c37op{up("r:t", "12"), dl("r:t"), st("r:t"), up("a", "3"), dl("a"), st("a"), {k: 5, side: false, n: "s:t", c: []byte("4")}, st("s:t"), dl("s:t"),
		{k: 5, side: true, n: "q/r:t", c: []byte("5")}, st("q/r:t"), dl("q/r:t"), st("zz:y"), ls("r"), ls("")}, "seed-shadow-sql-fs")

	// ---- thorough: every history of length <= 3 over a tiny alphabet, per single backend (validates R)
	if ctx.Tier == "thorough" {
		type alpha struct {
			cfg c37cfg
			ops []c37op
		}
		for _, a := range []alpha{
			{fs, []c37op{up("a", "1"), up("a", ""), up("a/b", "2"), dl("a"), st("a"), dl("a/b"), ls("a"), ls("")}},
			{sq, []c37op{up("r:t", "1"), up("r:t", ""), up("r:u", "2"), dl("r:t"), st("r:t"), dl("r:u"), ls("r"), ls("")}},
			{s3c, []c37op{up("a", "1"), up("a", ""), up("ab", "2"), up("b", "3"), dl("a"), st("a"), ls("a"), lp("", 1), lp("", 2, []int{0, 1})}},
		} {
			var rec func(prefix []c37op, depth int)
			rec = func(prefix []c37op, depth int) {
				if len(prefix) > 0 {
					emit(a.cfg, append([]c37op{}, prefix...), "exhaustive")
				}
				if depth == 0 {
					return
				}
				for _, o := range a.ops {
					rec(append(prefix, o), depth-1)
				}
			}
			rec(nil, 3)
		}
	}

	// ---- random histories, round-robin over the five configurations
	for i := 0; i < ctx.N; i++ {
		var cfg c37cfg
		switch i % 5 {
		case 0:
			cfg = fs
		case 1:
			cfg = sq
		case 2:
			cfg = s3c
		case 3:
			cfg = shFS
		default:
			cfg = shSF
		}
		cfg.fsRoot = c37fsRoots[r.Intn(len(c37fsRoots))]
		cfg.s3Root = c37s3Roots[r.Intn(len(c37s3Roots))]
		cfg.listMax = r.Range(1, 5)
		kind, pct := "random-valid", 100
		switch r.Intn(10) {
		case 0, 1:
			kind, pct = "random-malformed", 40
		case 2, 3:
			kind, pct = "random-mixed", 85
		}
		if pct == 100 {
			cfg.fsRoot, cfg.s3Root = "blobs", "/root"
			if r.Chance(30) {
				cfg.fsRoot, cfg.s3Root = "t/u", "/r/s"
			}
		}
		emit(cfg, c37gen(r, cfg, r.Range(3, 18), pct), kind)
	}
	flush()
}
