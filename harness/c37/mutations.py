#!/usr/bin/env python3
# usage: mut.py <name>   applies mutation <name> to /tmp/wt-C37, runs ./check C37 against it, restores the file
import sys, subprocess, shutil, os, difflib
WT = "/tmp/wt-C37"  # git -C /repo worktree add --detach /tmp/wt-C37 HEAD
M = {
 # S3: the token of the FIRST page is kept when the callback goes on to further pages
 "M1_s3_token_of_first_page": ("lib/backend/s3backend/client.go", [(
"""		if int64(len(names)) < maxKeys {
			// Continue iterating pages to get more keys
			return true
		}

		// Attempt to capture the continuation token before we stop iterating pages
		if page.IsTruncated != nil && *page.IsTruncated && page.NextContinuationToken != nil {
			nextContinuationToken = *page.NextContinuationToken
		}
""",
"""		// Attempt to capture the continuation token before we stop iterating pages
		if nextContinuationToken == "" && page.IsTruncated != nil && *page.IsTruncated && page.NextContinuationToken != nil {
			nextContinuationToken = *page.NextContinuationToken
		}

		if int64(len(names)) < maxKeys {
			// Continue iterating pages to get more keys
			return true
		}
""")]),
 # S3: the caller's continuation token is not forwarded
 "M2_s3_token_not_forwarded": ("lib/backend/s3backend/client.go", [(
"""			continuationToken = aws.String(options.ContinuationToken)""",
"""			_ = aws.String(options.ContinuationToken)""")]),
 # S3: absolute prefix sent to the service
 "M3_s3_absolute_prefix": ("lib/backend/s3backend/client.go", [(
"""path.Join(c.pather.BasePath(), prefix)[1:]""", """path.Join(c.pather.BasePath(), prefix)""")]),
 # S3: stop after the first page without keeping its token when it was short
 "M4_s3_stop_without_token": ("lib/backend/s3backend/client.go", [(
"""		if int64(len(names)) < maxKeys {
			// Continue iterating pages to get more keys
			return true
		}
""",
"""		if int64(len(names)) < maxKeys {
			// Continue iterating pages to get more keys
			return len(page.Contents) > 0
		}
""")]),
 # SQL: upsert without the update half
 "M5_sql_no_assign": ("lib/backend/sqlbackend/client.go", [(
"""		Assign(Tag{ImageID: imageID}).
""", "")]),
 # SQL: tags query by prefix instead of equality
 "M6_sql_like": ("lib/backend/sqlbackend/client.go", [(
"""		Where("repository = ?", repo).""", """		Where("repository LIKE ?", repo+"%").""")]),
 # SQL: Stat does not report missing rows
 "M7_sql_stat_found": ("lib/backend/sqlbackend/client.go", [(
"""	if res.RecordNotFound() {
		return nil, backenderrors.ErrBlobNotFound
	}

	if res.Error != nil {
		return nil, res.Error
	}

	var size int64""",
"""	if res.Error != nil && !res.RecordNotFound() {
		return nil, res.Error
	}

	var size int64""")]),
 # testfs server: upload appends instead of truncating
 "M8_fs_append": ("lib/backend/testfs/server.go", [(
"""	f, err := os.Create(p)""", """	f, err := os.OpenFile(p, os.O_WRONLY|os.O_CREATE|os.O_APPEND, 0666)""")]),
 # testfs client: listing ignores the root
 "M9_fs_list_no_root": ("lib/backend/testfs/client.go", [(
"""path.Join(c.pather.BasePath(), prefix)))""", """path.Join("", prefix)))""")]),
 # shadow: reads from the shadow component
 "M10_shadow_reads_shadow": ("lib/backend/shadowbackend/client.go", [(
"""	err := c.active.Download(namespace, name, dst)""", """	err := c.shadow.Download(namespace, name, dst)""")]),
 # shadow: the second write is dropped
 "M11_shadow_single_write": ("lib/backend/shadowbackend/client.go", [(
"""	err = c.shadow.Upload(namespace, name, rs)
	if err != nil {
		return err
	}
""", "")]),
 # shadow: Stat consults the active component only
 "M12_shadow_stat_active_only": ("lib/backend/shadowbackend/client.go", [(
"""	_, errS := c.shadow.Stat(namespace, name)""", """	var errS error""")]),
 # testfs Stat: size of the name, not of the content
 "M13_fs_stat_wrong_size": ("lib/backend/testfs/server.go", [(
"""strconv.FormatInt(info.Size(), 10)""", """strconv.FormatInt(int64(len(info.Name())), 10)""")]),
 # HARMLESS: S3 callback restructured, same behaviour
 "H1_s3_rewrite": ("lib/backend/s3backend/client.go", [(
"""		if int64(len(names)) < maxKeys {
			// Continue iterating pages to get more keys
			return true
		}

		// Attempt to capture the continuation token before we stop iterating pages
		if page.IsTruncated != nil && *page.IsTruncated && page.NextContinuationToken != nil {
			nextContinuationToken = *page.NextContinuationToken
		}

		return false
""",
"""		enough := int64(len(names)) >= maxKeys
		if enough && page.IsTruncated != nil && *page.IsTruncated && page.NextContinuationToken != nil {
			nextContinuationToken = *page.NextContinuationToken
		}
		return !enough
""")]),
 # HARMLESS: testfs server lists in reverse order; sql lists in descending order
 "H2_list_order": ("lib/backend/sqlbackend/client.go", [(
"""		Order("tag").""", """		Order("tag desc").""")]),
 # HARMLESS (a repair): testfs answers 404 for a directory
 "H3_fs_dir_404": ("lib/backend/testfs/server.go", [(
"""	w.Header().Add("Size", strconv.FormatInt(info.Size(), 10))""",
"""	if info.IsDir() {
		return handler.ErrorStatus(http.StatusNotFound)
	}
	w.Header().Add("Size", strconv.FormatInt(info.Size(), 10))""")]),
 # HARMLESS (a repair): sql upsert applies zero values too
 "H4_sql_assign_map": ("lib/backend/sqlbackend/client.go", [(
"""		Assign(Tag{ImageID: imageID}).""", """		Assign(map[string]interface{}{"image_id": imageID}).""")]),
}
name = sys.argv[1]
rel, edits = M[name]
path = os.path.join(WT, rel)
orig = open(path).read()
src = orig
for a, b in edits:
    assert a in src, "pattern not found for " + name
    src = src.replace(a, b, 1)
open(path, "w").write(src)
diff = "".join(difflib.unified_diff(orig.splitlines(1), src.splitlines(1), "a/" + rel, "b/" + rel, n=1))
open("/verif/run/C37mut_%s.diff" % name, "w").write(diff)
try:
    p = subprocess.run("cd /verif && VERIF_REPO=%s ./check C37" % WT, shell=True, stdout=subprocess.PIPE, stderr=subprocess.STDOUT, text=True)
    out = [l for l in p.stdout.splitlines() if "WARNING conda" not in l and "pyenv" not in l]
    open("/verif/run/C37mut_%s.out" % name, "w").write(p.stdout)
    print(name, "exit", p.returncode)
    print("\n".join(out[-4:]))
finally:
    open(path, "w").write(orig)
