// Command c37 hosts the driver for C37 (backend clients honour the storage contract).
package main

import "verifharness/hlib"

func main() { hlib.Main() }
