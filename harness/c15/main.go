// Command c15 hosts the driver of property C15 (piece request bookkeeping).
package main

import "verifharness/hlib"

func main() { hlib.Main() }
