// Command c15 hosts the driver of property C15 (piece request bookkeeping).
//
// The default selection policy draws from the global math/rand source; randseednop=0 keeps
// rand.Seed effective so that a run is reproducible from VERIF_SEED.
//
//go:debug randseednop=0
package main

import "verifharness/hlib"

func main() { hlib.Main() }
