package main

import (
	"fmt"
	"math/rand"
	"sort"
	"strings"
	"sync"
	"time"

	"github.com/andres-erbsen/clock"
	"github.com/uber/kraken/core"
	"github.com/uber/kraken/lib/torrent/scheduler/dispatch/piecerequest"
	"github.com/uber/kraken/utils/syncutil"
	"github.com/willf/bitset"
	"verifharness/hlib"
)

// C15: histories over the real piecerequest.Manager (public API, mock clock, both policies).
func init() { hlib.Register("C15", c15) }

const (
	kReserve = iota
	kUnsent
	kInvalid
	kClear
	kClearPeer
	kTick
	kFailed
	kPending
)

var c15names = [...]string{"Reserve", "MarkUnsent", "MarkInvalid", "Clear", "ClearPeer", "Tick", "GetFailed", "Pending"}

type c15op struct {
	k      int
	p, i   int
	org    bool
	eg     bool
	cands  []int
	dt     int
	choice []int // filled by the run: what the implementation selected
}

type c15cfg struct {
	timeout, agent, origin int
	policy                 string
	npieces                int
	prio                   []int
}

func c15peer(i int) core.PeerID {
	var p core.PeerID
	p[0] = byte(i + 1)
	p[19] = byte(7*i + 3)
	return p
}

// c15run executes one history on a fresh Manager and returns the Coq ops / observations.
func c15run(cfg c15cfg, ops []c15op) (sops, sobs []string, nonEmptyRes, nonEmptyFailed int) {
	clk := clock.NewMock()
	m, err := piecerequest.NewManager(clk, time.Duration(cfg.timeout)*time.Second, cfg.policy, cfg.agent, cfg.origin)
	if err != nil {
		panic(err)
	}
	names := map[core.PeerID]int{}
	for i := 0; i < 16; i++ {
		names[c15peer(i)] = i
	}
	counters := syncutil.NewCounters(cfg.npieces)
	for i := 0; i < cfg.npieces; i++ {
		counters.Set(i, cfg.prio[i%len(cfg.prio)])
	}
	for k := range ops {
		o := &ops[k]
		switch o.k {
		case kReserve:
			b := bitset.New(uint(cfg.npieces))
			for _, c := range o.cands {
				b.Set(uint(c))
			}
			pieces, err := m.ReservePieces(c15peer(o.p), o.org, b, counters, o.eg)
			if err != nil {
				panic(err)
			}
			o.choice = append([]int{}, pieces...)
			if len(pieces) > 0 {
				nonEmptyRes++
			}
			sops = append(sops, fmt.Sprintf("Reserve %d %s %s %s %s", o.p, hlib.B(o.org), hlib.Ns(o.cands), hlib.B(o.eg), hlib.Ns(o.choice)))
			sobs = append(sobs, "ORes true")
		case kUnsent:
			m.MarkUnsent(c15peer(o.p), o.i)
			sops = append(sops, fmt.Sprintf("MarkUnsent %d %d", o.p, o.i))
			sobs = append(sobs, "OUnit")
		case kInvalid:
			m.MarkInvalid(c15peer(o.p), o.i)
			sops = append(sops, fmt.Sprintf("MarkInvalid %d %d", o.p, o.i))
			sobs = append(sobs, "OUnit")
		case kClear:
			m.Clear(o.i)
			sops = append(sops, fmt.Sprintf("Clear %d", o.i))
			sobs = append(sobs, "OUnit")
		case kClearPeer:
			m.ClearPeer(c15peer(o.p))
			sops = append(sops, fmt.Sprintf("ClearPeer %d", o.p))
			sobs = append(sobs, "OUnit")
		case kTick:
			clk.Add(time.Duration(o.dt) * time.Second)
			sops = append(sops, fmt.Sprintf("Tick %d", o.dt))
			sobs = append(sobs, "OUnit")
		case kFailed:
			fr := m.GetFailedRequests()
			var es []string
			for _, r := range fr {
				id, ok := names[r.PeerID]
				if !ok {
					id = 999
				}
				code := 0
				switch r.Status {
				case piecerequest.StatusExpired:
					code = 1
				case piecerequest.StatusUnsent:
					code = 2
				case piecerequest.StatusInvalid:
					code = 3
				default:
					code = 9 // a pending request in the failed report
				}
				es = append(es, fmt.Sprintf("(%d, %d, %d)", r.Piece, id, code))
			}
			sort.Strings(es) // report order is Go map order; compared as a multiset
			if len(es) > 0 {
				nonEmptyFailed++
			}
			sops = append(sops, "GetFailed")
			sobs = append(sobs, "OFailed "+hlib.List(es))
		case kPending:
			ps := m.PendingPieces(c15peer(o.p))
			sops = append(sops, fmt.Sprintf("Pending %d", o.p))
			sobs = append(sobs, "OPending "+hlib.Ns(ps))
		}
	}
	return
}

// drain makes the hidden state observable through the public API: both reports now, then
// again after every request has timed out (everything left in `requests` is then failed,
// everything left in `requestsByPeer` with Status pending is listed by PendingPieces).
func c15drain(cfg c15cfg, ops []c15op, npeers int) []c15op {
	ops = append(ops, c15op{k: kFailed})
	for p := 0; p < npeers; p++ {
		ops = append(ops, c15op{k: kPending, p: p})
	}
	ops = append(ops, c15op{k: kTick, dt: cfg.timeout + 1}, c15op{k: kFailed})
	for p := 0; p < npeers; p++ {
		ops = append(ops, c15op{k: kPending, p: p})
	}
	return ops
}

func zlit(i int) string {
	if i < 0 {
		return fmt.Sprintf("(%d)%%Z", i)
	}
	return fmt.Sprintf("%d%%Z", i)
}

func c15(ctx *hlib.Ctx) {
	r := hlib.NewRng(ctx.Seed)
	// cases are queued and executed by a worker pool (clock.Mock.Add sleeps 1ms per tick);
	// every case owns its Manager and clock, results are emitted in queue order
	type job struct {
		cfg    c15cfg
		ops    []c15op
		npeers int
		kind   string
		tags   []string
	}
	var jobs []job
	emit := func(cfg c15cfg, ops []c15op, npeers int, kind string, tags ...string) {
		jobs = append(jobs, job{cfg, append([]c15op{}, ops...), npeers, kind, tags})
	}
	runJob := func(j job) hlib.Case {
		cfg := j.cfg
		ops := c15drain(cfg, j.ops, j.npeers)
		so, sb, nres, nfail := c15run(cfg, ops)
		var hist []string
		for _, o := range ops {
			hist = append(hist, c15names[o.k])
		}
		hist = append(hist, "policy:"+cfg.policy)
		coq := fmt.Sprintf("mkcase (mkcfg %d %s %s) %s %s", cfg.timeout, zlit(cfg.agent), zlit(cfg.origin), hlib.List(so), hlib.List(sb))
		return hlib.Case{Coq: coq, NT: nres >= 2 && nfail >= 1, Kind: j.kind, Hist: hist, Tags: j.tags,
			Key: cfg.policy + "|" + coq,
			Sample: map[string]string{"policy": cfg.policy, "cfg": fmt.Sprintf("timeout=%d agent=%d origin=%d pieces=%d", cfg.timeout, cfg.agent, cfg.origin, cfg.npieces),
				"ops": strings.Join(so, "; "), "obs": strings.Join(sb, "; ")}}
	}
	defer func() {
		out := make([]hlib.Case, len(jobs))
		var wg sync.WaitGroup
		next := make(chan int)
		for w := 0; w < 32; w++ {
			wg.Add(1)
			go func() {
				defer wg.Done()
				for k := range next {
					out[k] = runJob(jobs[k])
				}
			}()
		}
		// the default policy consumes the global math/rand stream: its cases run in queue
		// order on one goroutine so that a run is a function of the seed; rarest-first cases
		// (no randomness) are spread over the pool
		rand.Seed(int64(ctx.Seed))
		wg.Add(1)
		go func() {
			defer wg.Done()
			for k := range jobs {
				if jobs[k].cfg.policy == piecerequest.DefaultPolicy {
					out[k] = runJob(jobs[k])
				}
			}
		}()
		for k := range jobs {
			if jobs[k].cfg.policy != piecerequest.DefaultPolicy {
				next <- k
			}
		}
		close(next)
		wg.Wait()
		for _, c := range out {
			ctx.Emit(c)
		}
	}()
	res := func(p int, org bool, eg bool, cands ...int) c15op {
		return c15op{k: kReserve, p: p, org: org, eg: eg, cands: cands}
	}
	for _, pol := range []string{piecerequest.DefaultPolicy, piecerequest.RarestFirstPolicy} {
		base := c15cfg{timeout: 5, agent: 3, origin: 3, policy: pol, npieces: 6, prio: []int{3, 1, 2, 0, 5, 4}}
		// the C15_clearpeer_refuted witness: re-reserve after expiry, then remove the peer
		emit(base, []c15op{res(0, false, false, 0), {k: kTick, dt: 6}, res(0, false, false, 0), {k: kClearPeer, p: 0},
			{k: kFailed}, {k: kPending, p: 0}}, 2, "seed-rereserve-clearpeer", "rereserve-clearpeer")
		// the C15_prefix_pipeline_refuted witness: the ghost is not counted by requestQuota
		emit(base, []c15op{res(0, false, false, 0), {k: kTick, dt: 6}, res(0, false, false, 0), {k: kClearPeer, p: 0},
			res(0, false, false, 1, 2, 3), {k: kFailed}, {k: kPending, p: 0}}, 2, "seed-rereserve-clearpeer-quota", "rereserve-clearpeer")
		// same with another peer's request first in the slice (swap-with-last ejects the newer one first)
		emit(base, []c15op{res(1, false, false, 0), {k: kTick, dt: 6}, res(0, false, false, 0), {k: kTick, dt: 6}, res(0, false, true, 0),
			{k: kClearPeer, p: 1}, {k: kClearPeer, p: 0}, {k: kFailed}}, 2, "seed-rereserve-clearpeer-swap", "rereserve-clearpeer")
		// re-reserve after MarkUnsent / MarkInvalid, then remove the peer
		emit(base, []c15op{res(0, false, false, 1), {k: kUnsent, p: 0, i: 1}, res(0, false, false, 1), {k: kInvalid, p: 0, i: 1},
			res(0, false, false, 1), {k: kFailed}, {k: kClearPeer, p: 0}, {k: kFailed}}, 2, "seed-remark-clearpeer", "rereserve-clearpeer")
		// pipeline limit boundaries
		emit(base, []c15op{res(0, false, false, 0, 1, 2, 3), res(0, false, false, 0, 1, 2, 3, 4, 5), {k: kTick, dt: 5},
			res(0, false, false, 3, 4, 5), {k: kTick, dt: 1}, res(0, false, false, 3, 4, 5)}, 1, "seed-limit")
		for _, lim := range []int{0, 1, 2, -1} {
			c := base
			c.agent, c.origin = lim, lim+2
			emit(c, []c15op{res(0, false, false, 0, 1, 2, 3), res(1, true, false, 0, 1, 2, 3, 4, 5), res(0, true, false, 3, 4, 5),
				res(1, false, false, 4, 5), {k: kFailed}}, 2, "seed-limit-small")
		}
		// endgame duplicates, Clear and ClearPeer with duplicates
		emit(base, []c15op{res(0, false, false, 0, 1), res(1, false, false, 0, 1), res(1, false, true, 0, 1), res(1, false, true, 0, 1),
			res(2, false, true, 0), {k: kClear, i: 0}, {k: kPending, p: 0}, {k: kPending, p: 1}, {k: kClearPeer, p: 1}, {k: kInvalid, p: 0, i: 1}}, 3, "seed-endgame")
		// expiry boundary and timeout 0
		emit(base, []c15op{res(0, false, false, 2), {k: kTick, dt: 5}, {k: kFailed}, res(1, false, false, 2), {k: kTick, dt: 1}, {k: kFailed},
			res(1, false, false, 2)}, 2, "seed-expiry-boundary")
		c0 := base
		c0.timeout = 0
		emit(c0, []c15op{res(0, false, false, 2), {k: kFailed}, res(1, false, false, 2), {k: kTick, dt: 1}, {k: kFailed}, res(1, false, false, 2),
			{k: kUnsent, p: 1, i: 2}, {k: kFailed}}, 2, "seed-timeout0")
		// marks hit every request of the peer for the piece, also absent ones
		emit(base, []c15op{{k: kUnsent, p: 0, i: 3}, {k: kClear, i: 3}, {k: kClearPeer, p: 2}, res(0, false, false, 3), {k: kTick, dt: 6},
			res(0, false, false, 3), {k: kInvalid, p: 0, i: 3}, {k: kFailed}, {k: kInvalid, p: 1, i: 3}, {k: kFailed}}, 2, "seed-marks")
	}

	if ctx.Tier == "thorough" {
		// exhaustive small scope (validates the correspondence; not the proof):
		// 2 peers, 2 pieces, limit 1 and 2, timeout 1, every history of length <= 4 over 10 ops
		alpha := []c15op{
			res(0, false, false, 0, 1), res(1, false, false, 0, 1), res(0, false, true, 0, 1),
			{k: kUnsent, p: 0, i: 0}, {k: kInvalid, p: 1, i: 0},
			{k: kClear, i: 0}, {k: kClearPeer, p: 0}, {k: kClearPeer, p: 1},
			{k: kTick, dt: 1}, {k: kTick, dt: 2},
		}
		for _, lim := range []int{1, 2} {
			cfg := c15cfg{timeout: 1, agent: lim, origin: lim, policy: piecerequest.RarestFirstPolicy, npieces: 2, prio: []int{1, 0}}
			var rec func(prefix []c15op, depth int)
			rec = func(prefix []c15op, depth int) {
				if len(prefix) > 0 {
					emit(cfg, prefix, 2, "exhaustive")
				}
				if depth == 0 {
					return
				}
				for _, a := range alpha {
					rec(append(append([]c15op{}, prefix...), a), depth-1)
				}
			}
			rec(nil, 4)
		}
	}

	maxLen := 30
	if ctx.Tier == "thorough" {
		maxLen = 80
	}
	for n := 0; n < ctx.N; n++ {
		cfg := c15cfg{policy: piecerequest.DefaultPolicy}
		if r.Bool() {
			cfg.policy = piecerequest.RarestFirstPolicy
		}
		cfg.timeout = []int{0, 1, 3, 5}[r.Intn(4)]
		lims := []int{1, 2, 3, 1, 2, 3, 0, 4, -1}
		cfg.agent = lims[r.Intn(len(lims))]
		cfg.origin = cfg.agent
		if r.Chance(40) {
			cfg.origin = lims[r.Intn(len(lims))]
		}
		cfg.npieces = r.Range(1, 6)
		for i := 0; i < cfg.npieces; i++ {
			cfg.prio = append(cfg.prio, r.Intn(4))
		}
		npeers := r.Range(1, 3)
		malformed := r.Chance(15)
		endgameRate := []int{0, 10, 50}[r.Intn(3)]
		length := r.Range(1, maxLen)
		// shadow state: (peer, piece) pairs that were handed out, so that marks / clears mostly hit
		type pp struct{ p, i int }
		var handed []pp
		var ops []c15op
		kind := "random"
		if malformed {
			kind = "random-malformed"
		}
		for j := 0; j < length; j++ {
			x := r.Intn(100)
			p := r.Intn(npeers)
			i := r.Intn(cfg.npieces)
			if malformed && r.Chance(40) {
				// operations on peers / pieces the manager has never seen
				p = npeers + r.Intn(2)
				i = cfg.npieces - 1
			} else if len(handed) > 0 && r.Chance(75) {
				h := handed[r.Intn(len(handed))]
				p, i = h.p, h.i
			}
			switch {
			case x < 36:
				var cands []int
				for c := 0; c < cfg.npieces; c++ {
					if r.Chance(65) {
						cands = append(cands, c)
					}
				}
				if malformed && r.Chance(30) {
					cands = nil
				}
				o := c15op{k: kReserve, p: r.Intn(npeers), org: r.Chance(25), eg: r.Chance(endgameRate), cands: cands}
				// run a throw-away copy to learn what is handed out? not needed: record candidates
				for _, c := range cands {
					handed = append(handed, pp{o.p, c})
				}
				ops = append(ops, o)
			case x < 50:
				dts := []int{0, 1, cfg.timeout, cfg.timeout + 1, 2*cfg.timeout + 1}
				if cfg.timeout > 0 {
					dts = append(dts, cfg.timeout-1)
				}
				ops = append(ops, c15op{k: kTick, dt: dts[r.Intn(len(dts))]})
			case x < 58:
				ops = append(ops, c15op{k: kUnsent, p: p, i: i})
			case x < 66:
				ops = append(ops, c15op{k: kInvalid, p: p, i: i})
			case x < 74:
				ops = append(ops, c15op{k: kClear, i: i})
			case x < 82:
				ops = append(ops, c15op{k: kClearPeer, p: p})
			case x < 92:
				ops = append(ops, c15op{k: kFailed})
			default:
				ops = append(ops, c15op{k: kPending, p: p})
			}
		}
		emit(cfg, ops, npeers+1, kind)
	}
}
