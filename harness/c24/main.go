// Command c24 drives the real healthcheck.PassiveFilter / healthcheck.Passive (public API only).
package main

import "verifharness/hlib"

func main() { hlib.Main() }
