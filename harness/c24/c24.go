package main

import (
	"fmt"
	"sort"
	"sync"
	"time"

	"github.com/andres-erbsen/clock"
	"github.com/uber/kraken/lib/healthcheck"
	"github.com/uber/kraken/utils/stringset"
	"verifharness/hlib"
)

// C24: timelines of failures, clock advances, Run and Resolve over the real
// healthcheck.NewPassiveFilter / healthcheck.NewPassive with the mock clock.
func init() { hlib.Register("C24", c24) }

const (
	c24Failed = iota
	c24Tick
	c24Run
	c24Resolve
)

type c24op struct {
	k   int
	h   int   // Failed: host
	via bool  // Failed: through Passive.Failed
	d   int64 // Tick: nanoseconds (never negative: the property is about clock advances)
	set []int // Run / Resolve: sorted distinct hosts
}

type c24case struct {
	fails int
	ft    int64
	ops   []c24op
	kind  string
}

type c24res struct {
	coq  string
	nt   bool
	hist []string
	smp  map[string]string
}

func c24name(i int) string { return fmt.Sprintf("h%d:80", i) }

// c24list is the hostlist.List wrapped by Passive; the Resolve op sets what it resolves to.
type c24list struct{ cur stringset.Set }

func (l *c24list) Resolve() stringset.Set { return l.cur.Copy() }

func c24set(xs []int) stringset.Set {
	s := stringset.New()
	for _, x := range xs {
		s.Add(c24name(x))
	}
	return s
}

func c24ints(s stringset.Set, ids map[string]int) []int {
	var r []int
	for x := range s {
		id, ok := ids[x]
		if !ok {
			id = 999 // a host nobody passed in
		}
		r = append(r, id)
	}
	sort.Ints(r)
	return r
}

func c24run(c c24case) c24res {
	ids := map[string]int{}
	for i := 0; i < 16; i++ {
		ids[c24name(i)] = i
	}
	clk := clock.NewMock()
	filter := healthcheck.NewPassiveFilter(
		healthcheck.PassiveFilterConfig{Fails: c.fails, FailTimeout: time.Duration(c.ft)}, clk)
	list := &c24list{cur: stringset.New()}
	passive := healthcheck.NewPassive(list, filter)
	var sops, sobs, hist []string
	nt := false
	for _, o := range c.ops {
		switch o.k {
		case c24Failed:
			if o.via {
				passive.Failed(c24name(o.h))
			} else {
				filter.Failed(c24name(o.h))
			}
			sops = append(sops, fmt.Sprintf("Failed %s %d", hlib.B(o.via), o.h))
			sobs = append(sobs, "OUnit")
			hist = append(hist, "Failed")
		case c24Tick:
			clk.Add(time.Duration(o.d))
			sops = append(sops, "Tick "+hlib.Z(o.d))
			sobs = append(sobs, "OUnit")
			hist = append(hist, "Tick")
		case c24Run:
			r := c24ints(filter.Run(c24set(o.set)), ids)
			if len(r) != len(o.set) {
				nt = true
			}
			sops = append(sops, "Run "+hlib.Ns(o.set))
			sobs = append(sobs, "OSet "+hlib.Ns(r))
			hist = append(hist, "Run")
		case c24Resolve:
			list.cur = c24set(o.set)
			r := c24ints(passive.Resolve(), ids)
			if len(r) != len(o.set) {
				nt = true
			}
			sops = append(sops, "Resolve "+hlib.Ns(o.set))
			sobs = append(sobs, "OSet "+hlib.Ns(r))
			hist = append(hist, "Resolve")
		}
	}
	cfg := fmt.Sprintf("(mkcfg %s %s)", hlib.Z(int64(c.fails)), hlib.Z(c.ft))
	so, sb := hlib.List(sops), hlib.List(sobs)
	return c24res{coq: "mkcase " + cfg + " " + so + " " + sb, nt: nt, hist: hist,
		smp: map[string]string{"config(Fails,FailTimeout ns)": cfg, "ops": so, "obs": sb}}
}

// ---- op constructors
func cF(h int) c24op       { return c24op{k: c24Failed, h: h} }
func cFP(h int) c24op      { return c24op{k: c24Failed, h: h, via: true} }
func cT(d int64) c24op     { return c24op{k: c24Tick, d: d} }
func cR(set ...int) c24op  { return c24op{k: c24Run, set: set} }
func cRS(set ...int) c24op { return c24op{k: c24Resolve, set: set} }
func cN(n int, o c24op) []c24op {
	var r []c24op
	for i := 0; i < n; i++ {
		r = append(r, o)
	}
	return r
}
func cat(xs ...interface{}) []c24op {
	var r []c24op
	for _, x := range xs {
		switch v := x.(type) {
		case c24op:
			r = append(r, v)
		case []c24op:
			r = append(r, v...)
		}
	}
	return r
}

const c24s = int64(time.Second)
const c24defaultFT = int64(5 * time.Minute)

func c24seeds() []c24case {
	s := c24s
	return []c24case{
		// the three scripted timelines of passive_filter_test.go
		{3, 10 * s, cat(cR(0, 1), cN(3, cF(0)), cR(0, 1)), "seed-test-unhealthy"},
		{3, 10 * s, cat(cF(0), cF(0), cT(11*s), cF(0), cR(0, 1)), "seed-test-failtimeout"},
		{3, 10 * s, cat(cN(3, cF(0)), cR(0, 1), cT(5*s), cR(0, 1), cT(6*s), cR(0, 1)), "seed-test-expiry"},
		// window boundary: a failure exactly FailTimeout old still counts, one ns older does not
		{2, 10 * s, cat(cF(0), cT(10*s), cF(0), cR(0, 1), cF(1), cT(10*s+1), cF(1), cR(0, 1)), "seed-window-boundary"},
		// expiry boundary: filtered at exactly FailTimeout, not one ns later
		{1, 10 * s, cat(cF(0), cT(10*s-1), cR(0, 1), cT(1), cR(0, 1), cT(1), cR(0, 1)), "seed-expiry-boundary"},
		// defaults: Fails 0 -> 3, FailTimeout 0 -> 5m
		{0, 10 * s, cat(cF(0), cF(0), cR(0, 1), cF(0), cR(0, 1)), "seed-default-fails"},
		{1, 0, cat(cF(0), cT(c24defaultFT), cR(0, 1), cT(1), cR(0, 1)), "seed-default-timeout"},
		{2, 0, cat(cF(0), cT(c24defaultFT), cF(0), cR(0, 1), cF(1), cT(c24defaultFT+1), cF(1), cR(0, 1)), "seed-default-timeout-window"},
		{0, 0, cat(cF(0), cF(0), cT(c24defaultFT), cR(0), cF(0), cR(0), cT(c24defaultFT), cR(0), cT(1), cR(0)), "seed-default-both"},
		// odd configurations
		{-1, 10 * s, cat(cR(0, 1), cF(0), cR(0, 1), cT(10*s+1), cR(0, 1)), "seed-negative-fails"},
		{1, -5, cat(cF(0), cR(0, 1), cT(0), cF(0), cR(0, 1), cT(3), cR(0, 1)), "seed-negative-timeout"},
		{2, 1, cat(cF(0), cT(1), cF(0), cR(0), cT(1), cR(0), cT(1), cR(0)), "seed-timeout-1ns"},
		// several failures at one instant
		{2, 10 * s, cat(cF(0), cT(3*s), cR(0), cF(0), cF(0), cR(0), cT(7*s), cR(0), cT(3*s), cR(0), cT(1), cR(0)), "seed-same-instant"},
		// 0,8,16: three failures within 2*FailTimeout but no FailTimeout window holds three; then 18
		{3, 10 * s, cat(cF(0), cT(8*s), cF(0), cT(8*s), cF(0), cR(0, 1), cT(2*s), cF(0), cR(0, 1)), "seed-sliding-window"},
		// trips again only with a full new window after expiry
		{2, 10 * s, cat(cF(0), cF(0), cR(0), cT(11*s), cR(0), cF(0), cR(0), cF(0), cR(0)), "seed-retrip"},
		// a later tripping failure renews the unhealthy period, a sub-threshold one does not
		{2, 10 * s, cat(cF(0), cF(0), cT(10*s), cF(0), cT(10*s), cR(0), cT(1), cR(0)), "seed-renewed"},
		{2, 10 * s, cat(cF(0), cF(0), cT(10*s), cR(0), cT(1), cF(0), cR(0)), "seed-not-renewed"},
		{3, 10 * s, cat(cF(0), cF(0), cF(0), cT(6*s), cF(0), cT(5*s), cR(0), cT(5*s), cR(0), cT(1), cR(0)), "seed-renewed-partial"},
		// expiry without any Run in between, and Run deleting the entry
		{1, 10 * s, cat(cF(0), cT(25*s), cF(1), cR(0, 1), cT(10*s), cR(0, 1), cT(1), cR(0, 1)), "seed-expiry-no-run"},
		// Resolve: all unhealthy -> all hosts; empty list; partly unhealthy; unknown host
		{1, 10 * s, cat(cF(0), cF(1), cRS(0, 1), cRS(0), cRS(), cRS(0, 1, 2), cR(0, 1), cT(10*s+1), cRS(0, 1)), "seed-resolve-fallback"},
		{3, 10 * s, cat(cN(3, cFP(0)), cRS(0, 1), cN(3, cFP(1)), cRS(0, 1), cR(0, 1), cT(11*s), cRS(0, 1)), "seed-resolve-via-passive"},
		// Run over subsets, the empty set, hosts never seen
		{1, 10 * s, cat(cF(0), cR(), cR(1), cR(0), cR(0, 1, 2, 3)), "seed-run-subsets"},
		// interleaved hosts
		{2, 10 * s, cat(cF(0), cF(1), cT(5*s), cF(2), cF(0), cR(0, 1, 2), cT(5*s), cF(1), cR(0, 1, 2), cT(5*s), cF(2), cR(0, 1, 2), cT(1), cR(0, 1, 2), cT(5*s), cR(0, 1, 2)), "seed-interleaved"},
		// long quiet period
		{2, 10 * s, cat(cF(0), cT(3600*s), cF(0), cR(0), cF(0), cR(0), cT(24*3600*s), cR(0)), "seed-long-quiet"},
	}
}

func c24subset(r *hlib.Rng, nh int) []int {
	k := r.Intn(100)
	var set []int
	switch {
	case k < 66:
		for i := 0; i < nh; i++ {
			set = append(set, i)
		}
	case k < 88:
		for i := 0; i < nh; i++ {
			if r.Bool() {
				set = append(set, i)
			}
		}
	case k < 94: // empty
	default: // a host that never fails
		for i := 0; i <= nh; i++ {
			set = append(set, i)
		}
	}
	return set
}

func c24random(r *hlib.Rng, maxLen int) c24case {
	nh := []int{1, 2, 2, 2, 3, 3, 3, 3, 3, 4}[r.Intn(10)]
	unit := []int64{1, 1, int64(time.Millisecond), c24s, c24s}[r.Intn(5)]
	kind := "random-valid"
	var fails int
	switch k := r.Intn(100); {
	case k < 72:
		fails = r.Range(1, 3)
	case k < 80:
		fails = r.Range(4, 5)
	case k < 90:
		fails, kind = 0, "random-defaults"
	case k < 96:
		fails, kind = -r.Range(1, 2), "random-odd-config"
	default:
		fails = 10
	}
	var ft int64
	switch k := r.Intn(100); {
	case k < 86:
		ft = int64([]int{1, 2, 3, 5, 10}[r.Intn(5)]) * unit
	case k < 94:
		ft = 0
		if kind == "random-valid" {
			kind = "random-defaults"
		}
	default:
		ft, kind = -int64(r.Range(1, 3))*unit, "random-odd-config"
	}
	eff := ft
	if eff == 0 {
		eff = c24defaultFT
	}
	if eff < 0 {
		eff = 3 * unit
	}
	n := r.Range(1, maxLen)
	var ops []c24op
	var now int64
	var marks []int64 // times of failures so far (shadow state, to aim at boundaries)
	for j := 0; j < n; j++ {
		switch k := r.Intn(100); {
		case k < 45:
			h := r.Intn(nh)
			if r.Chance(60) && len(ops) > 0 && ops[len(ops)-1].k == c24Failed {
				h = ops[len(ops)-1].h // bursts on one host reach the threshold
			}
			ops = append(ops, c24op{k: c24Failed, h: h, via: r.Chance(25)})
			marks = append(marks, now)
		case k < 70:
			var d int64
			switch q := r.Intn(100); {
			case q < 35 && len(marks) > 0:
				// land exactly on / one ns around the end of the window of an earlier failure
				d = marks[r.Intn(len(marks))] + eff + int64(r.Range(-1, 1)) - now
			case q < 50:
				d = 0
			case q < 80:
				d = []int64{1, eff / 3, eff / 2, eff - 1, eff, eff + 1, 2 * eff}[r.Intn(7)]
			default:
				d = int64(r.U64() % uint64(eff+1))
			}
			if d < 0 {
				d = int64(r.U64() % uint64(eff/2+1))
			}
			now += d
			ops = append(ops, cT(d))
		case k < 88:
			ops = append(ops, c24op{k: c24Run, set: c24subset(r, nh)})
		default:
			ops = append(ops, c24op{k: c24Resolve, set: c24subset(r, nh)})
		}
	}
	// make the final state observable: what is filtered now, at the end of the last window, after it
	all := make([]int, nh)
	for i := range all {
		all[i] = i
	}
	ops = append(ops, c24op{k: c24Run, set: all}, c24op{k: c24Resolve, set: all})
	if len(marks) > 0 {
		last := marks[len(marks)-1]
		if d := last + eff - now; d >= 0 {
			ops = append(ops, cT(d), c24op{k: c24Run, set: all}, cT(1), c24op{k: c24Run, set: all})
		}
	}
	return c24case{fails, ft, ops, kind}
}

// every word of length <= depth over {Failed 0, Failed 1, Tick 1, Tick 2, Tick 3, Run} with
// FailTimeout = 2ns (validates the correspondence on a small scope; it is not the proof)
func c24exhaustive(depth int) []c24case {
	alpha := []c24op{cF(0), cF(1), cT(1), cT(2), cT(3), cR(0, 1)}
	suffix := []c24op{cR(0, 1), cRS(0, 1), cT(1), cR(0, 1), cT(1), cR(0, 1), cT(1), cRS(0, 1)}
	var out []c24case
	var rec func(prefix []c24op, d int)
	rec = func(prefix []c24op, d int) {
		if len(prefix) > 0 {
			for fails := 1; fails <= 3; fails++ {
				out = append(out, c24case{fails, 2, cat(prefix, suffix), "exhaustive"})
			}
		}
		if d == 0 {
			return
		}
		for _, a := range alpha {
			rec(append(append([]c24op{}, prefix...), a), d-1)
		}
	}
	rec(nil, depth)
	return out
}

func c24(ctx *hlib.Ctx) {
	r := hlib.NewRng(ctx.Seed)
	cases := c24seeds()
	maxLen := 25
	if ctx.Tier == "thorough" {
		maxLen = 60
		cases = append(cases, c24exhaustive(5)...)
	}
	for i := 0; i < ctx.N; i++ {
		cases = append(cases, c24random(r.Fork(), maxLen))
	}
	// clock.Mock.Add sleeps 1ms per call; cases are independent, so run them concurrently and
	// emit in generation order (the output is deterministic)
	res := make([]c24res, len(cases))
	var wg sync.WaitGroup
	sem := make(chan struct{}, 64)
	for i := range cases {
		wg.Add(1)
		sem <- struct{}{}
		go func(i int) {
			defer wg.Done()
			res[i] = c24run(cases[i])
			<-sem
		}(i)
	}
	wg.Wait()
	for i, c := range cases {
		ctx.Emit(hlib.Case{Coq: res[i].coq, NT: res[i].nt, Kind: c.kind, Hist: res[i].hist, Sample: res[i].smp})
	}
}
