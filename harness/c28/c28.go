package main

import (
	"encoding/hex"
	"fmt"
	"os"
	"runtime"
	"sort"
	"strings"
	"time"

	"github.com/alicebob/miniredis"
	"github.com/andres-erbsen/clock"
	"github.com/uber/kraken/core"
	"github.com/uber/kraken/tracker/peerstore"
	"verifharness/hlib"
)

// C28: histories over the real peerstore.RedisStore talking to an in-process Redis
// (miniredis) under a mock clock. Observed: the Redis content after every write (key names,
// members, expiry), the surviving keys after every clock step, and every GetPeers result.
func init() { hlib.Register("C28", c28) }

type c28peer struct {
	id       [20]byte
	ip       string
	port     int
	complete bool
}

type c28op struct {
	k  int // 0 Adv, 1 Upd, 2 Inj, 3 Get
	dt int64
	h  int
	p  c28peer
	w  int64
	s  string
	n  int
}

type c28case struct {
	W     int64
	Wfrac time.Duration // sub-second part of PeerSetWindowSize (truncated by the store)
	M     int
	t0    int64
	frac  time.Duration // sub-second part of the clock (floored by Unix())
	ops   []c28op
}

func c28hash(i int) core.InfoHash {
	var h core.InfoHash
	for j := range h {
		h[j] = byte(i*37 + j*11 + 3)
	}
	if i == 1 {
		h[0], h[19] = 0x00, 0xff
	}
	return h
}

// c28hs prints a byte string for Run/C28_run.v's pk: [len; 7-byte big-endian words...].
func c28hs(s string) string {
	var b strings.Builder
	fmt.Fprintf(&b, "(pk [%d", len(s))
	for i := 0; i < len(s); i += 7 {
		j := i + 7
		if j > len(s) {
			j = len(s)
		}
		b.WriteString(";0x" + hex.EncodeToString([]byte(s[i:j])))
	}
	b.WriteString("])")
	return b.String()
}
func c28z(i int64) string   { return fmt.Sprintf("(%d)%%Z", i) }

func c28peerTerm(id [20]byte, ip string, port int, complete bool) string {
	return fmt.Sprintf("(mkid %s %s %s, %s)", c28hs(string(id[:])), c28hs(ip), c28z(int64(port)), hlib.B(complete))
}

func c28peersTerm(ps []*core.PeerInfo) string {
	var xs []string
	for _, p := range ps {
		xs = append(xs, c28peerTerm([20]byte(p.PeerID), p.IP, p.Port, p.Complete))
	}
	sort.Strings(xs)
	return hlib.List(xs)
}

type c28row struct {
	members []string
	exp     string // Coq option Z
}

// c28dump reads the whole Redis content directly from the server.
func c28dump(mr *miniredis.Miniredis, now time.Time) map[string]c28row {
	out := map[string]c28row{}
	for _, k := range mr.Keys() {
		ms, err := mr.Members(k)
		if err != nil {
			ms = []string{"<not a set>"}
		}
		sort.Strings(ms)
		exp := "None"
		if ttl := mr.TTL(k); ttl != 0 {
			at := now.Add(ttl)
			if at.Nanosecond() != 0 {
				exp = "(Some (-777)%Z)" // expiry not on a whole second: never what the model says
			} else {
				exp = "(Some " + c28z(at.Unix()) + ")"
			}
		}
		out[k] = c28row{ms, exp}
	}
	return out
}

func c28rowTerm(k string, r c28row) string {
	var ms []string
	for _, m := range r.members {
		ms = append(ms, c28hs(m))
	}
	return fmt.Sprintf("(%s, %s, %s)", c28hs(k), hlib.List(ms), r.exp)
}

func c28hasColon(s string) bool { return strings.Contains(s, ":") }

type c28result struct {
	coq    string
	nt     bool
	tags   []string
	hist   []string
	sample map[string]interface{}
	incon  bool
}

// c28close shuts the server down without waiting for ever: miniredis's Close waits for every
// connection handler, and a connection that was dialled but never used (a GetPeers that sends
// no command) may not be registered yet, in which case Close would block.
func c28close(mr *miniredis.Miniredis) {
	done := make(chan struct{})
	go func() { mr.Close(); close(done) }()
	select {
	case <-done:
	case <-time.After(2 * time.Second):
	}
}

func c28run(c c28case) c28result {
	var res c28result
	mr, err := miniredis.Run()
	if err != nil {
		fmt.Fprintln(os.Stderr, "miniredis:", err)
		res.incon = true
		return res
	}
	defer c28close(mr)
	clk := clock.NewMock()
	clk.Set(time.Unix(c.t0, int64(c.frac)))
	mr.SetTime(clk.Now())
	store, err := peerstore.NewRedisStore(peerstore.RedisConfig{
		Addr:              mr.Addr(),
		PeerSetWindowSize: time.Duration(c.W)*time.Second + c.Wfrac,
		MaxPeerSetWindows: c.M,
	}, clk)
	if err != nil {
		fmt.Fprintln(os.Stderr, "NewRedisStore:", err)
		res.incon = true
		return res
	}
	defer store.Close()

	var sops, sobs, readable []string
	tagset := map[string]bool{}
	announced, returned := 0, 0
	for _, o := range c.ops {
		h := c28hash(o.h)
		hb := c28hs(string(h[:]))
		switch o.k {
		case 0:
			d := time.Duration(o.dt) * time.Second
			clk.Add(d)
			mr.SetTime(clk.Now())
			mr.FastForward(d)
			after := c28dump(mr, clk.Now())
			var ks []string
			for k, r := range after {
				ks = append(ks, "("+c28hs(k)+", "+r.exp+")")
			}
			sort.Strings(ks)
			sops = append(sops, fmt.Sprintf("Adv (%d)%%N", o.dt))
			sobs = append(sobs, "OKeys "+hlib.List(ks))
			readable = append(readable, fmt.Sprintf("Adv %ds", o.dt))
			res.hist = append(res.hist, "Adv")
		case 1, 2:
			before := c28dump(mr, clk.Now())
			if o.k == 1 {
				pi := core.NewPeerInfo(core.PeerID(o.p.id), o.p.ip, o.p.port, o.p.port%2 == 1, o.p.complete)
				if err := store.UpdatePeer(h, pi); err != nil {
					fmt.Fprintln(os.Stderr, "UpdatePeer:", err)
					res.incon = true
					return res
				}
				announced++
				if c28hasColon(o.p.ip) {
					tagset["colon-ip"] = true
				}
				sops = append(sops, fmt.Sprintf("Upd %s %s", hb, c28peerTerm(o.p.id, o.p.ip, o.p.port, o.p.complete)))
				readable = append(readable, fmt.Sprintf("Upd h%d %x %q %d %v", o.h, o.p.id[:2], o.p.ip, o.p.port, o.p.complete))
				res.hist = append(res.hist, "Upd")
			} else {
				// another writer (an older tracker, a corrupted entry): raw SADD on a peer set
				if _, err := mr.SetAdd(fmt.Sprintf("peerset:%s:%d", h.Hex(), o.w), o.s); err != nil {
					res.incon = true
					return res
				}
				tagset["inject"] = true
				sops = append(sops, fmt.Sprintf("Inj %s %s %s", hb, c28z(o.w), c28hs(o.s)))
				readable = append(readable, fmt.Sprintf("Inj h%d w=%d %q", o.h, o.w, o.s))
				res.hist = append(res.hist, "Inj")
			}
			after := c28dump(mr, clk.Now())
			var rows []string
			for k, r := range after {
				b, ok := before[k]
				if !ok || b.exp != r.exp || strings.Join(b.members, "\x00") != strings.Join(r.members, "\x00") ||
					len(b.members) != len(r.members) {
					rows = append(rows, c28rowTerm(k, r))
				}
			}
			for k := range before {
				if _, ok := after[k]; !ok {
					rows = append(rows, c28rowTerm(k, c28row{nil, "None"})) // a write deleted a key
				}
			}
			sort.Strings(rows)
			sobs = append(sobs, "ODb "+hlib.List(rows))
		case 3:
			ps, err := store.GetPeers(h, o.n)
			if err != nil {
				fmt.Fprintln(os.Stderr, "GetPeers:", err)
				res.incon = true
				return res
			}
			returned += len(ps)
			t := c28peersTerm(ps)
			sops = append(sops, fmt.Sprintf("Get %s %s %s", hb, c28z(int64(o.n)), t))
			sobs = append(sobs, "OGet true "+t)
			var rs []string
			for _, p := range ps {
				rs = append(rs, fmt.Sprintf("%x|%q|%d|%v", p.PeerID[:2], p.IP, p.Port, p.Complete))
			}
			sort.Strings(rs)
			readable = append(readable, fmt.Sprintf("Get h%d n=%d -> %v", o.h, o.n, rs))
			res.hist = append(res.hist, "Get")
		}
	}
	res.coq = fmt.Sprintf("mkcase (mkcfg %s %d%%nat) %s %s %s", c28z(c.W), c.M, c28z(c.t0), hlib.List(sops), hlib.List(sobs))
	res.nt = announced > 0 && returned > 0
	for t := range tagset {
		res.tags = append(res.tags, t)
	}
	sort.Strings(res.tags)
	res.sample = map[string]interface{}{"window_s": c.W, "max_windows": c.M, "t0": c.t0, "history": readable}
	return res
}

// ---- generators ----

var c28ips = struct{ v4, v6, host, odd []string }{
	v4: []string{"10.0.0.1", "192.168.1.254", "0.0.0.0", "255.255.255.255", "127.0.0.1"},
	v6: []string{"::1", "::", "2001:db8::1", "2001:0db8:85a3:0000:0000:8a2e:0370:7334", "fe80::1%eth0",
		"::ffff:10.0.0.1", "[2001:db8::1]", "2001:DB8:0:0:8:800:200C:417A", "1::", "::2:3:4:5:6:7:8"},
	host: []string{"localhost", "kraken-agent-01.prod.example.com", "a", "xn--bcher-kva.example", "host_with_underscore", "agent-7"},
	odd: []string{"", ":", "::", "a:b", "80:1", ":80:1", "1.2.3.4:", "x:-5:0", "with space", "caf\xc3\xa9", "\xff\xfe\x00", "0", "-1", "1:2:3:4",
		"deadbeefdeadbeefdeadbeefdeadbeefdeadbeef:1.2.3.4:80:1"},
}

var c28ports = []int{0, 1, 80, 443, 8080, 16001, 65535, 65536, -1, 1<<31 - 1, -(1 << 31), 1<<63 - 1, -(1 << 63), 7, 12345}

func c28id(i int) [20]byte {
	var id [20]byte
	for j := range id {
		id[j] = byte(i*53 + j*7 + 1)
	}
	switch i % 5 {
	case 1:
		id[0], id[1] = 0x00, 0x0a // leading zero byte, low nibble letters
	case 2:
		id[0], id[19] = 0xff, 0xa0
	}
	return id
}

func c28pickIP(r *hlib.Rng) string {
	switch k := r.Intn(100); {
	case k < 30:
		return c28ips.v4[r.Intn(len(c28ips.v4))]
	case k < 65:
		return c28ips.v6[r.Intn(len(c28ips.v6))]
	case k < 85:
		return c28ips.host[r.Intn(len(c28ips.host))]
	case k < 95:
		return c28ips.odd[r.Intn(len(c28ips.odd))]
	default:
		// random bytes, ':' frequent
		n := r.Intn(12)
		b := make([]byte, n)
		for i := range b {
			if r.Chance(30) {
				b[i] = ':'
			} else {
				b[i] = byte(r.U64())
			}
		}
		return string(b)
	}
}

func c28full(h int) c28op { return c28op{k: 3, h: h, n: 1000} }

func c28random(r *hlib.Rng, inject bool) c28case {
	Ws := []int64{1, 2, 3, 5, 10, 30, 3600}
	c := c28case{W: Ws[r.Intn(len(Ws))], M: r.Range(1, 5)}
	if r.Chance(25) {
		c.Wfrac = time.Duration(r.Range(1, 999)) * time.Millisecond
	}
	if r.Chance(40) {
		c.frac = time.Duration(r.Range(1, 999)) * time.Millisecond
	}
	switch k := r.Intn(10); {
	case k < 4:
		c.t0 = 1700000000 + int64(r.Intn(100000))
	case k < 6:
		c.t0 = []int64{0, 1, c.W - 1, c.W, c.W + 1, c.W*int64(c.M) - 1}[r.Intn(6)]
	case k < 8:
		c.t0 = -[]int64{1, c.W - 1, c.W, c.W + 1, c.W*int64(c.M) + 1, 100000}[r.Intn(6)] // before 1970: % truncates
		c.frac = 0
	default:
		c.t0 = int64(r.Intn(1 << 20))
	}
	// a small pool of identities; some share the peer id and differ only in ip or port
	np := r.Range(1, 4)
	pool := make([]c28peer, np)
	for i := range pool {
		pool[i] = c28peer{id: c28id(r.Intn(6)), ip: c28pickIP(r), port: c28ports[r.Intn(len(c28ports))]}
		if i > 0 && r.Chance(25) {
			pool[i].id = pool[0].id
		}
	}
	nh := r.Range(1, 2)
	n := r.Range(2, 14)
	span := c.W * int64(c.M)
	now := c.t0
	for j := 0; j < n; j++ {
		k := r.Intn(100)
		switch {
		case k < 45:
			p := pool[r.Intn(np)]
			p.complete = r.Chance(40)
			c.ops = append(c.ops, c28op{k: 1, h: r.Intn(nh), p: p})
		case k < 65:
			dts := []int64{0, 1, c.W - 1, c.W, c.W + 1, span - c.W, span - 1, span, span + 1, int64(r.Intn(int(span) + 2))}
			dt := dts[r.Intn(len(dts))]
			if dt < 0 {
				dt = 0
			}
			now += dt
			c.ops = append(c.ops, c28op{k: 0, dt: dt})
		case k < 85:
			c.ops = append(c.ops, c28full(r.Intn(nh)))
		case k < 93:
			c.ops = append(c.ops, c28op{k: 3, h: r.Intn(nh), n: r.Range(-1, 3)})
		default:
			if !inject {
				c.ops = append(c.ops, c28full(r.Intn(nh)))
				continue
			}
			curw := now - now%c.W
			w := curw - int64(r.Intn(c.M+1))*c.W
			c.ops = append(c.ops, c28op{k: 2, h: r.Intn(nh), w: w, s: c28rawMember(r, pool)})
		}
	}
	for h := 0; h < nh; h++ {
		c.ops = append(c.ops, c28full(h))
	}
	return c
}

// c28rawMember: entries another writer may have left in a peer set: the old encoding of an
// IPv4 peer (identical to the current one), near misses, garbage.
func c28rawMember(r *hlib.Rng, pool []c28peer) string {
	p := pool[r.Intn(len(pool))]
	hx := hex.EncodeToString(p.id[:])
	switch r.Intn(14) {
	case 0:
		return fmt.Sprintf("%s:10.9.8.7:%d:1", hx, p.port)
	case 1:
		return fmt.Sprintf("%s:%s:%d:0", strings.ToUpper(hx), p.ip, p.port) // hex.DecodeString accepts upper case
	case 2:
		return fmt.Sprintf("%s:%s:+%d:1", hx, "10.0.0.1", 80) // Atoi accepts a plus sign
	case 3:
		return fmt.Sprintf("%s:%s:0080:1", hx, "10.0.0.1") // leading zeros
	case 4:
		return fmt.Sprintf("%s:%d:1", hx, 80) // three fields
	case 5:
		return fmt.Sprintf("%s:h:9223372036854775808:1", hx) // port out of range
	case 6:
		return fmt.Sprintf("%s:h:-9223372036854775808:1", hx)
	case 7:
		return fmt.Sprintf("%s:h:80:2", hx) // complete bit neither 0 nor 1
	case 8:
		return fmt.Sprintf("%s:h:80:1", hx[:38]) // short id
	case 9:
		return fmt.Sprintf("%sg:h:80:1", hx[:39]) // not hex
	case 10:
		return ""
	case 11:
		return ":::"
	case 12:
		return fmt.Sprintf("%s:h:0x50:1", hx)
	default:
		return fmt.Sprintf("%s:%s:%d:", hx, p.ip, p.port)
	}
}

func c28seeds() []struct {
	name string
	c    c28case
} {
	A := c28peer{id: c28id(0), ip: "::1", port: 16001}
	B := c28peer{id: c28id(1), ip: "10.0.0.1", port: 16001}
	C := c28peer{id: c28id(2), ip: "kraken-agent-01.prod.example.com", port: 80}
	D := c28peer{id: c28id(3), ip: "2001:db8:85a3::8a2e:370:7334", port: 65535}
	done := func(p c28peer) c28peer { p.complete = true; return p }
	upd := func(h int, p c28peer) c28op { return c28op{k: 1, h: h, p: p} }
	adv := func(dt int64) c28op { return c28op{k: 0, dt: dt} }
	hexB := hex.EncodeToString(B.id[:])
	return []struct {
		name string
		c    c28case
	}{
		// the witness of C28_old_decoder_ipv6_refuted / C28_old_store_loses_ipv6_refuted
		{"seed-ipv6", c28case{W: 30, M: 4, t0: 1700000000, ops: []c28op{upd(0, A), c28full(0)}}},
		{"seed-ipv4", c28case{W: 30, M: 4, t0: 1700000000, ops: []c28op{upd(0, done(B)), c28full(0)}}},
		{"seed-hostname", c28case{W: 30, M: 4, t0: 1700000000, ops: []c28op{upd(0, C), c28full(0)}}},
		{"seed-mixed", c28case{W: 30, M: 4, t0: 1700000000, ops: []c28op{upd(0, A), upd(0, B), upd(0, done(C)), upd(0, done(D)), upd(1, D), c28full(0), c28full(1)}}},
		// one identity in several windows, complete in the oldest only
		{"seed-collapse-windows", c28case{W: 10, M: 3, t0: 100, ops: []c28op{upd(0, done(D)), adv(10), upd(0, D), adv(10), upd(0, D), c28full(0)}}},
		{"seed-collapse-same-window", c28case{W: 10, M: 3, t0: 100, ops: []c28op{upd(0, D), c28full(0), upd(0, done(D)), c28full(0)}}},
		// retention boundary: still visible after (M-1) windows, gone after M
		{"seed-retention", c28case{W: 10, M: 3, t0: 109, ops: []c28op{upd(0, A), adv(20), c28full(0), adv(1), c28full(0), adv(9), c28full(0), adv(1), c28full(0)}}},
		{"seed-expiry-key-gone", c28case{W: 5, M: 2, t0: 1000, ops: []c28op{upd(0, B), adv(9), c28full(0), adv(1), c28full(0), upd(0, A), adv(10), upd(0, B), c28full(0)}}},
		{"seed-before-1970", c28case{W: 10, M: 2, t0: -15, ops: []c28op{upd(0, A), adv(10), upd(0, B), c28full(0), adv(10), c28full(0), adv(10), c28full(0)}}},
		{"seed-limit", c28case{W: 10, M: 3, t0: 100, ops: []c28op{upd(0, A), upd(0, B), adv(10), upd(0, C), upd(0, done(A)),
			{k: 3, h: 0, n: 0}, {k: 3, h: 0, n: -1}, {k: 3, h: 0, n: 1}, {k: 3, h: 0, n: 2}, {k: 3, h: 0, n: 3}, {k: 3, h: 0, n: 4}, c28full(0)}}},
		{"seed-same-id-different-address", c28case{W: 30, M: 4, t0: 1700000000, ops: []c28op{upd(0, A),
			upd(0, c28peer{id: A.id, ip: "::2", port: 16001}), upd(0, c28peer{id: A.id, ip: "::1", port: 16002}), c28full(0)}}},
		{"seed-negative-port", c28case{W: 30, M: 4, t0: 1700000000, ops: []c28op{upd(0, c28peer{id: A.id, ip: "::1", port: -(1 << 63)}),
			upd(0, c28peer{id: B.id, ip: "h", port: 1<<63 - 1, complete: true}), c28full(0)}}},
		{"seed-empty-and-colon-ips", c28case{W: 30, M: 4, t0: 1700000000, ops: []c28op{upd(0, c28peer{id: A.id, ip: "", port: 1}),
			upd(0, c28peer{id: A.id, ip: ":", port: 1}), upd(0, c28peer{id: A.id, ip: "::", port: 1}), upd(0, c28peer{id: A.id, ip: "1:1", port: 1}), c28full(0)}}},
		// entries written by the previous encoding (IPv4) are read unchanged
		{"seed-old-encoding-entry", c28case{W: 30, M: 4, t0: 1700000010, ops: []c28op{
			{k: 2, h: 0, w: 1700000010 - 1700000010%30, s: hexB + ":10.0.0.1:16001:1"}, upd(0, B), c28full(0)}}},
		{"seed-malformed-entries", c28case{W: 30, M: 4, t0: 1700000010, ops: []c28op{
			{k: 2, h: 0, w: 1700000010 - 1700000010%30, s: hexB + ":80:1"}, {k: 2, h: 0, w: 1700000010 - 1700000010%30, s: "zz:h:80:1"},
			{k: 2, h: 0, w: 1700000010 - 1700000010%30, s: hexB + ":h:x:1"}, upd(0, A), c28full(0)}}},
		{"seed-subsecond", c28case{W: 10, Wfrac: 900 * time.Millisecond, M: 2, t0: 99, frac: 999 * time.Millisecond, ops: []c28op{upd(0, A), adv(1), upd(0, B), c28full(0), adv(10), c28full(0)}}},
	}
}

func c28(ctx *hlib.Ctx) {
	r := hlib.NewRng(ctx.Seed)
	emit := func(c c28case, kind string) {
		res := c28run(c)
		ctx.Emit(hlib.Case{Coq: res.coq, NT: res.nt, Kind: kind, Hist: res.hist, Sample: res.sample, Tags: res.tags, Incon: res.incon})
	}
	for _, s := range c28seeds() {
		emit(s.c, s.name)
	}
	if ctx.Tier == "thorough" {
		// every history of length <= 4 over a small alphabet (validates the correspondence; not the proof)
		A := c28peer{id: c28id(0), ip: "::1", port: 1}
		B := c28peer{id: c28id(1), ip: "10.0.0.1", port: 2}
		A1 := A
		A1.complete = true
		alpha := []c28op{{k: 0, dt: 1}, {k: 0, dt: 2}, {k: 1, h: 0, p: A}, {k: 1, h: 0, p: A1}, {k: 1, h: 0, p: B}, c28full(0), {k: 3, h: 0, n: 1}}
		var rec func(prefix []c28op, depth int)
		rec = func(prefix []c28op, depth int) {
			if len(prefix) > 0 {
				ops := append(append([]c28op{}, prefix...), c28full(0))
				emit(c28case{W: 2, M: 2, t0: 1, ops: ops}, "exhaustive")
			}
			if depth == 0 {
				return
			}
			for _, a := range alpha {
				rec(append(prefix, a), depth-1)
			}
		}
		rec(nil, 4)
	}
	for i := 0; i < ctx.N; i++ {
		inject := i%7 == 3 // ~14 %: histories with entries written by somebody else (incl. malformed)
		kind := "random"
		if inject {
			kind = "random-inject"
		}
		emit(c28random(r.Fork(), inject), kind)
		if i%200 == 199 {
			runtime.GC() // lets the finalizers close pooled connections of finished cases
		}
	}
}
