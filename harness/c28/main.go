// Command c28 hosts the driver of property C28 (Redis peer store round trip).
package main

import "verifharness/hlib"

func main() { hlib.Main() }
