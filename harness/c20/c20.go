package main

import (
	"fmt"

	"github.com/uber/kraken/core"
	"github.com/uber/kraken/lib/torrent/scheduler/announcequeue"
	"verifharness/hlib"
)

// C20: histories over the real announcequeue.QueueImpl.
func init() { hlib.Register("C20", c20) }

type c20op struct {
	k int // 0 Add 1 Next 2 Ready 3 Eject
	h int
}

func c20hash(i int) core.InfoHash {
	var h core.InfoHash
	h[0] = byte(i)
	h[19] = byte(i * 7)
	return h
}

func c20run(ops []c20op) (string, string, bool) {
	q := announcequeue.New()
	names := map[core.InfoHash]int{}
	for i := 0; i < 16; i++ {
		names[c20hash(i)] = i
	}
	var sops, sobs []string
	served := 0
	for _, o := range ops {
		switch o.k {
		case 0:
			q.Add(c20hash(o.h))
			sops = append(sops, fmt.Sprintf("Add %d", o.h))
			sobs = append(sobs, "OUnit")
		case 1:
			h, ok := q.Next()
			sops = append(sops, "Next")
			if ok {
				served++
				id, known := names[h]
				if !known {
					id = 999
				}
				sobs = append(sobs, fmt.Sprintf("ONext (Some %d)", id))
			} else {
				sobs = append(sobs, "ONext None")
			}
		case 2:
			q.Ready(c20hash(o.h))
			sops = append(sops, fmt.Sprintf("Ready %d", o.h))
			sobs = append(sobs, "OUnit")
		case 3:
			q.Eject(c20hash(o.h))
			sops = append(sops, fmt.Sprintf("Eject %d", o.h))
			sobs = append(sobs, "OUnit")
		}
	}
	return hlib.List(sops), hlib.List(sobs), served >= 2
}

// drain makes the final state observable through the public API: serve everything,
// finish every announce, serve again.
func c20drain(ops []c20op, nh int) []c20op {
	for i := 0; i < nh+3; i++ {
		ops = append(ops, c20op{1, 0})
	}
	for h := 0; h < nh; h++ {
		ops = append(ops, c20op{2, h})
	}
	for i := 0; i < nh+3; i++ {
		ops = append(ops, c20op{1, 0})
	}
	return ops
}

func c20(ctx *hlib.Ctx) {
	r := hlib.NewRng(ctx.Seed)
	emit := func(ops []c20op, kind string) {
		so, sb, nt := c20run(ops)
		var hist []string
		for _, o := range ops {
			hist = append(hist, [...]string{"Add", "Next", "Ready", "Eject"}[o.k])
		}
		ctx.Emit(hlib.Case{Coq: "mkcase " + so + " " + sb, NT: nt, Kind: kind, Hist: hist,
			Sample: map[string]string{"ops": so, "obs": sb}})
	}
	// boundary seeds (always run)
	emit(c20drain([]c20op{{0, 1}, {0, 1}, {3, 1}}, 4), "seed-double-add-eject")
	emit(c20drain([]c20op{{0, 1}, {1, 0}, {0, 1}, {2, 1}}, 4), "seed-add-while-inflight")
	emit(c20drain([]c20op{{0, 1}, {0, 2}, {1, 0}, {0, 3}, {2, 1}, {3, 2}, {1, 0}}, 4), "seed-typical")
	if ctx.Tier == "thorough" {
		// exhaustive: every history of length <= 6 over 2 hashes (validates R; not the proof)
		var rec func(prefix []c20op, depth int)
		alpha := []c20op{{0, 0}, {0, 1}, {1, 0}, {2, 0}, {2, 1}, {3, 0}, {3, 1}}
		rec = func(prefix []c20op, depth int) {
			if len(prefix) > 0 {
				emit(c20drain(append([]c20op{}, prefix...), 2), "exhaustive")
			}
			if depth == 0 {
				return
			}
			for _, a := range alpha {
				rec(append(prefix, a), depth-1)
			}
		}
		rec(nil, 5)
	}
	for i := 0; i < ctx.N; i++ {
		nh := r.Range(1, 4)
		n := r.Range(1, 25)
		// shadow state so that most Adds respect the contract (structured, mostly valid)
		present := map[int]bool{}
		respect := r.Chance(80)
		var ops []c20op
		for j := 0; j < n; j++ {
			k := r.Intn(10)
			h := r.Intn(nh)
			switch {
			case k < 3:
				if respect && present[h] {
					ops = append(ops, c20op{1, 0})
					continue
				}
				present[h] = true
				ops = append(ops, c20op{0, h})
			case k < 6:
				ops = append(ops, c20op{1, 0})
			case k < 8:
				ops = append(ops, c20op{2, h})
			default:
				delete(present, h)
				ops = append(ops, c20op{3, h})
			}
		}
		kind := "random-contract"
		if !respect {
			kind = "random-unguarded"
		}
		emit(c20drain(ops, nh), kind)
	}
}
