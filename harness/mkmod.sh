#!/bin/sh
# regenerate go.mod / go.sum of the harness module from /repo's (same versions, same replaces)
cd "$(dirname "$0")"
REPO=${VERIF_REPO:-/repo}
{
  sed -e 's#^module .*#module verifharness#' "$REPO/go.mod"
  echo
  echo "require github.com/uber/kraken v0.0.0"
  echo "replace github.com/uber/kraken => $REPO"
} > go.mod.new
if ! cmp -s go.mod.new go.mod 2>/dev/null; then mv go.mod.new go.mod; else rm go.mod.new; fi
cmp -s "$REPO/go.sum" go.sum 2>/dev/null || cp "$REPO/go.sum" go.sum
