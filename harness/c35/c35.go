package main

import (
	"bytes"
	"context"
	"errors"
	"fmt"
	"net"
	"net/http"
	"net/http/httptest"
	"strconv"
	"strings"
	"sync"
	"sync/atomic"
	"time"

	"github.com/uber/kraken/core"
	"github.com/uber/kraken/origin/blobclient"
	"github.com/uber/kraken/utils/httputil"
	"github.com/uber/kraken/utils/log"
	"go.uber.org/zap"
	"verifharness/hlib"
)

// C35: the real ClusterClient.DownloadBlob (and Poll with the plain download closure) against
// scripted httptest origins; every origin answers its successive requests from a script:
// no response, a status, a complete body, or a body cut after k bytes (hijacked connection).
func init() { hlib.Register("C35", c35) }

type c35resp struct {
	net   bool
	code  int
	body  []byte
	clean bool
	// harness-only variation, invisible to the model:
	// net: 0 close, 1 reset; clean: 0 Content-Length, 1 chunked;
	// cut: 0 Content-Length too large, 1 cut inside a chunk, 2 missing last chunk
	style int
}

type c35origin struct {
	script []c35resp
	budget int
}

type c35case struct {
	kind      string
	cluster   bool // entry point: ClusterClient.DownloadBlob, else Poll + plain closure
	blob      []byte
	patSeed   int // >0: blob = pat(patSeed, len(blob)), printed compactly
	resolveOK bool
	origins   []c35origin
}

type c35obs struct {
	res   string
	ok    bool
	dst   []byte
	cnt   []int
	incon bool
}

// ---- byte patterns (same generator as K.Run.C35_run.pat)

func c35pat(s, n int) []byte {
	out := make([]byte, n)
	x := s & 0xFFFFF
	for i := 0; i < n; i++ {
		out[i] = byte((x >> 12) & 255)
		x = (77*x + 75) & 0xFFFFF
	}
	return out
}

// c35enc prints b as a Coq list; long strings are written as concatenations of prefixes of
// the case's pattern blob B plus literal bytes.  The encoding is decoded again and compared.
func c35enc(b []byte, c *c35case) string {
	if c.patSeed == 0 || len(b) <= 24 {
		return hlib.Bytes(b)
	}
	type seg struct {
		k   int
		lit []byte
	}
	var segs []seg
	p := 0
	for p < len(b) {
		l := 0
		for p+l < len(b) && l < len(c.blob) && b[p+l] == c.blob[l] {
			l++
		}
		if l >= 8 {
			segs = append(segs, seg{k: l})
			p += l
			continue
		}
		if n := len(segs); n > 0 && segs[n-1].lit != nil {
			segs[n-1].lit = append(segs[n-1].lit, b[p])
		} else {
			segs = append(segs, seg{lit: []byte{b[p]}})
		}
		p++
	}
	var dec []byte
	var parts []string
	for _, s := range segs {
		if s.lit != nil {
			dec = append(dec, s.lit...)
			parts = append(parts, hlib.Bytes(s.lit))
		} else {
			dec = append(dec, c.blob[:s.k]...)
			if s.k == len(c.blob) {
				parts = append(parts, "B")
			} else {
				parts = append(parts, fmt.Sprintf("pre %d B", s.k))
			}
		}
	}
	if !bytes.Equal(dec, b) {
		panic("c35enc: encoding does not decode to the original bytes")
	}
	if len(parts) == 0 {
		return "[]"
	}
	return "(" + strings.Join(parts, " ++ ") + ")"
}

// ---- scripted origin

type c35srv struct {
	srv    *httptest.Server
	addr   string
	mu     sync.Mutex
	script []c35resp
	count  int32
	bad    int32 // handler could not play its script (hijack failed ...)
}

func (o *c35srv) set(script []c35resp) {
	o.mu.Lock()
	o.script = script
	o.mu.Unlock()
	atomic.StoreInt32(&o.count, 0)
	atomic.StoreInt32(&o.bad, 0)
}

func c35statusText(code int) string {
	if t := http.StatusText(code); t != "" {
		return t
	}
	return "X"
}

func (o *c35srv) ServeHTTP(w http.ResponseWriter, r *http.Request) {
	i := int(atomic.AddInt32(&o.count, 1)) - 1
	o.mu.Lock()
	rs := c35resp{net: true}
	if i < len(o.script) {
		rs = o.script[i]
	}
	o.mu.Unlock()
	if !strings.HasPrefix(r.URL.Path, "/namespace/") || r.Method != "GET" {
		atomic.StoreInt32(&o.bad, 1)
	}
	if rs.net || !rs.clean {
		hj, ok := w.(http.Hijacker)
		if !ok {
			atomic.StoreInt32(&o.bad, 1)
			return
		}
		conn, bufrw, err := hj.Hijack()
		if err != nil {
			atomic.StoreInt32(&o.bad, 1)
			return
		}
		defer conn.Close()
		if rs.net {
			if tc, ok := conn.(*net.TCPConn); ok && rs.style == 1 {
				tc.SetLinger(0) // RST instead of FIN
			}
			return
		}
		var sb bytes.Buffer
		fmt.Fprintf(&sb, "HTTP/1.1 %d %s\r\nConnection: close\r\n", rs.code, c35statusText(rs.code))
		n := len(rs.body)
		switch rs.style {
		case 1: // cut inside a chunk
			fmt.Fprintf(&sb, "Transfer-Encoding: chunked\r\n\r\n%x\r\n", n+5)
			sb.Write(rs.body)
		case 2: // all announced chunks complete, terminating chunk never arrives
			sb.WriteString("Transfer-Encoding: chunked\r\n\r\n")
			if n > 0 {
				fmt.Fprintf(&sb, "%x\r\n", n)
				sb.Write(rs.body)
				sb.WriteString("\r\n")
			}
		default: // Content-Length promises more than is sent
			fmt.Fprintf(&sb, "Content-Length: %d\r\n\r\n", n+1+n/2)
			sb.Write(rs.body)
		}
		if _, err := bufrw.Write(sb.Bytes()); err != nil {
			atomic.StoreInt32(&o.bad, 1)
		}
		if err := bufrw.Flush(); err != nil {
			atomic.StoreInt32(&o.bad, 1)
		}
		return // graceful close: everything written is delivered before the EOF
	}
	w.Header().Set("Connection", "close")
	if rs.style == 0 {
		w.Header().Set("Content-Length", strconv.Itoa(len(rs.body)))
		w.WriteHeader(rs.code)
		w.Write(rs.body)
		return
	}
	w.WriteHeader(rs.code)
	h := len(rs.body) / 2
	w.Write(rs.body[:h])
	if f, ok := w.(http.Flusher); ok {
		f.Flush() // forces chunked transfer encoding
	}
	w.Write(rs.body[h:])
}

const c35maxOrigins = 4

type c35worker struct{ srvs [c35maxOrigins]*c35srv }

func newC35worker() *c35worker {
	w := &c35worker{}
	for i := range w.srvs {
		o := &c35srv{}
		o.srv = httptest.NewUnstartedServer(o)
		o.srv.Config.SetKeepAlivesEnabled(false) // one connection per request: no transparent transport retry
		o.srv.Start()
		o.addr = strings.TrimPrefix(o.srv.URL, "http://")
		w.srvs[i] = o
	}
	return w
}

func (w *c35worker) close() {
	for _, o := range w.srvs {
		o.srv.Close()
	}
}

type c35resolver struct {
	clients []blobclient.Client
	err     error
}

func (r *c35resolver) Resolve(d core.Digest) ([]blobclient.Client, error) {
	return r.clients, r.err
}

// per-origin budget of non-Stop answers; Poll calls Reset once per origin, in order
type c35backoff struct {
	budgets []int
	origin  int
	used    int
}

func (b *c35backoff) Reset() { b.origin++; b.used = 0 }
func (b *c35backoff) NextBackOff() time.Duration {
	i := b.origin - 1
	if i < 0 || i >= len(b.budgets) || b.used >= b.budgets[i] {
		return -1 // backoff.Stop
	}
	b.used++
	return 0
}

func (w *c35worker) run(c *c35case) c35obs {
	var clients []blobclient.Client
	for i, o := range c.origins {
		w.srvs[i].set(o.script)
		clients = append(clients, blobclient.New(w.srvs[i].addr))
	}
	res := &c35resolver{clients: clients}
	if !c.resolveOK {
		res.err = errors.New("scripted resolve failure")
	}
	d, err := core.NewDigester().FromBytes(c.blob)
	if err != nil {
		panic(err)
	}
	var dst bytes.Buffer
	ctx := context.Background()
	const ns = "verif/ns"
	if c.cluster {
		err = blobclient.NewClusterClient(res).DownloadBlob(ctx, ns, d, &dst)
	} else {
		b := &c35backoff{}
		for _, o := range c.origins {
			b.budgets = append(b.budgets, o.budget)
		}
		err = blobclient.Poll(res, b, d, func(cl blobclient.Client) error {
			return cl.DownloadBlob(ctx, ns, d, &dst)
		})
	}
	var ob c35obs
	var serr httputil.StatusError
	switch {
	case err == nil:
		ob.res, ob.ok = "Ok", true
	case err == blobclient.ErrBlobNotFound:
		ob.res = "NotFound"
	case errors.As(err, &serr):
		ob.res = fmt.Sprintf("(StatusErr %d)", serr.Status)
	default:
		ob.res = "Failed"
	}
	ob.dst = append([]byte{}, dst.Bytes()...)
	for i := range c.origins {
		ob.cnt = append(ob.cnt, int(atomic.LoadInt32(&w.srvs[i].count)))
		if atomic.LoadInt32(&w.srvs[i].bad) != 0 {
			ob.incon = true
		}
	}
	return ob
}

// ---- printing

func c35respCoq(r c35resp, c *c35case) string {
	if r.net {
		return "RNet"
	}
	return fmt.Sprintf("RResp %d %s %s", r.code, c35enc(r.body, c), hlib.B(r.clean))
}

func c35emit(ctx *hlib.Ctx, c *c35case, ob c35obs) {
	var os []string
	var hist []string
	for _, o := range c.origins {
		var rs []string
		for _, r := range o.script {
			rs = append(rs, c35respCoq(r, c))
		}
		os = append(os, fmt.Sprintf("mkorigin %s %d", hlib.List(rs), o.budget))
	}
	entry := "PollDirect"
	if c.cluster {
		entry = "Cluster"
	}
	in := fmt.Sprintf("mkin %s %s %s %s", entry, c35enc(c.blob, c), hlib.B(c.resolveOK), hlib.List(os))
	obs := fmt.Sprintf("mkobs %s %s %s", ob.res, c35enc(ob.dst, c), hlib.Ns(ob.cnt))
	term := fmt.Sprintf("mkcase (%s) (%s)", in, obs)
	if c.patSeed != 0 {
		term = fmt.Sprintf("let B := pat %d %d in %s", c.patSeed, len(c.blob), term)
	}
	// what was consumed: histogram + non-triviality (a 200 answer was received) + tags
	nt := false
	wrote := false
	var tags []string
	for i, o := range c.origins {
		for j, r := range o.script {
			if i >= len(ob.cnt) || j >= ob.cnt[i] {
				break
			}
			switch {
			case r.net:
				hist = append(hist, "net")
			case r.code == 200 && r.clean:
				hist = append(hist, "200-complete")
				nt = true
			case r.code == 200:
				nt = true
				if len(r.body) == 0 {
					hist = append(hist, "200-cut-at-0")
				} else {
					hist = append(hist, "200-cut")
					wrote = true
				}
			case r.code == 202:
				hist = append(hist, "202")
			case r.code >= 500:
				hist = append(hist, "5xx")
			default:
				hist = append(hist, "other-status")
			}
		}
		if i < len(ob.cnt) && ob.cnt[i] > len(o.script) {
			hist = append(hist, "gone")
		}
	}
	if wrote && ob.ok {
		tags = append(tags, "partial-then-next-origin")
	}
	hist = append(hist, "result:"+strings.Trim(strings.Fields(ob.res)[0], "("))
	sample := map[string]interface{}{"entry": entry, "blob_len": len(c.blob), "resolve_ok": c.resolveOK,
		"origins": os, "result": ob.res, "dst_len": len(ob.dst), "requests": ob.cnt}
	if len(ob.dst) <= 64 {
		sample["dst"] = hlib.Bytes(ob.dst)
	}
	ctx.Emit(hlib.Case{Coq: term, NT: nt, Kind: c.kind, Hist: hist, Sample: sample, Tags: tags, Incon: ob.incon})
}

// ---- generators

func c35full(blob []byte, style int) c35resp {
	return c35resp{code: 200, body: blob, clean: true, style: style}
}
func c35cut(blob []byte, k, style int) c35resp {
	return c35resp{code: 200, body: blob[:k], clean: false, style: style}
}
func c35status(code int) c35resp {
	return c35resp{code: code, body: []byte{byte(code / 100), byte(code % 100)}, clean: true}
}
func c35one(rs ...c35resp) c35origin { return c35origin{script: rs, budget: 1000} }

var c35codes5 = []int{500, 502, 503, 504, 507, 599}
var c35codes4 = []int{404, 404, 404, 400, 401, 403, 409, 429, 499, 201, 206}

func c35seeds() []*c35case {
	b4 := []byte{1, 2, 3, 4}
	big := c35pat(7, 40000)
	mk := func(kind string, cluster bool, blob []byte, os ...c35origin) *c35case {
		return &c35case{kind: kind, cluster: cluster, blob: blob, resolveOK: true, origins: os}
	}
	cs := []*c35case{
		// the _refuted witness (Proof/C35.v partial_then_full_witness)
		mk("seed-partial-then-full", true, b4, c35one(c35cut(b4, 2, 0)), c35one(c35full(b4, 0))),
		mk("seed-cut-0-then-full", true, b4, c35one(c35cut(b4, 0, 0)), c35one(c35full(b4, 0))),
		mk("seed-cut-1-then-full", true, b4, c35one(c35cut(b4, 1, 1)), c35one(c35full(b4, 1))),
		mk("seed-cut-len-1-then-full", true, b4, c35one(c35cut(b4, 3, 0)), c35one(c35full(b4, 0))),
		mk("seed-cut-len-then-full", true, b4, c35one(c35cut(b4, 4, 2)), c35one(c35full(b4, 0))),
		mk("seed-cut-len-unterminated", true, b4, c35one(c35cut(b4, 4, 0))),
		mk("seed-partial-twice-then-full", true, b4, c35one(c35cut(b4, 1, 0)), c35one(c35cut(b4, 3, 1)), c35one(c35full(b4, 0))),
		mk("seed-partial-then-404", true, b4, c35one(c35cut(b4, 2, 0)), c35one(c35status(404))),
		mk("seed-partial-then-503", true, b4, c35one(c35cut(b4, 2, 0)), c35one(c35status(503))),
		mk("seed-full-first", true, b4, c35one(c35full(b4, 0)), c35one(c35full(b4, 0))),
		mk("seed-empty-blob", true, []byte{}, c35one(c35full([]byte{}, 0))),
		mk("seed-empty-blob-chunked", true, []byte{}, c35one(c35status(503)), c35one(c35full([]byte{}, 1))),
		mk("seed-net-then-full", true, b4, c35one(c35resp{net: true}), c35one(c35full(b4, 1))),
		mk("seed-reset-then-full", true, b4, c35one(c35resp{net: true, style: 1}), c35one(c35full(b4, 0))),
		mk("seed-5xx-then-full", true, b4, c35one(c35status(503)), c35one(c35status(500)), c35one(c35full(b4, 0))),
		mk("seed-404-first", true, b4, c35one(c35status(404)), c35one(c35full(b4, 0))),
		mk("seed-400-first", true, b4, c35one(c35status(400)), c35one(c35full(b4, 0))),
		mk("seed-499-vs-500", true, b4, c35one(c35status(500)), c35one(c35status(499)), c35one(c35full(b4, 0))),
		mk("seed-all-fail", true, b4, c35one(c35status(503)), c35one(c35resp{net: true}), c35one(c35cut(b4, 0, 0))),
		mk("seed-no-origins", true, b4),
		mk("seed-gone", true, b4, c35one(), c35one(c35full(b4, 0))),
		mk("seed-202-then-full", true, b4, c35one(c35status(202), c35full(b4, 0))),
		mk("seed-202-then-cut-then-full", true, b4, c35one(c35status(202), c35cut(b4, 2, 0)), c35one(c35full(b4, 0))),
		mk("seed-202-202-then-503-then-full", true, b4, c35one(c35status(202), c35status(202), c35status(503)), c35one(c35full(b4, 0))),
		mk("seed-503-cut-body", true, b4, c35one(c35resp{code: 503, body: []byte("oops"), clean: false}), c35one(c35full(b4, 0))),
		mk("seed-202-cut-body", true, b4, c35one(c35resp{code: 202, body: []byte("wait"), clean: false, style: 1}, c35full(b4, 0))),
		// Poll with the plain closure: back-off exhaustion
		mk("seed-poll-backoff-exhausted", false, b4, c35origin{[]c35resp{c35status(202), c35status(202), c35status(202), c35full(b4, 0)}, 2}, c35one(c35full(b4, 0))),
		mk("seed-poll-backoff-zero", false, b4, c35origin{[]c35resp{c35status(202), c35full(b4, 0)}, 0}),
		mk("seed-poll-backoff-just-enough", false, b4, c35origin{[]c35resp{c35status(202), c35status(202), c35full(b4, 0)}, 2}),
		mk("seed-poll-partial-then-full", false, b4, c35one(c35cut(b4, 2, 0)), c35one(c35full(b4, 0))),
		mk("seed-poll-404", false, b4, c35one(c35status(503)), c35one(c35status(404)), c35one(c35full(b4, 0))),
		// dishonest origin: a complete 200 that is not the blob (outside the property's hypothesis)
		mk("seed-dishonest-short", true, b4, c35one(c35resp{code: 200, body: []byte{1, 2}, clean: true})),
	}
	bigc := func(kind string, os ...c35origin) *c35case {
		return &c35case{kind: kind, cluster: true, blob: big, patSeed: 7, resolveOK: true, origins: os}
	}
	cs = append(cs,
		bigc("seed-big-full", c35one(c35full(big, 0))),
		bigc("seed-big-full-chunked", c35one(c35status(503)), c35one(c35full(big, 1))),
		bigc("seed-big-cut-32768", c35one(c35cut(big, 32768, 0)), c35one(c35full(big, 0))),
		bigc("seed-big-cut-32769", c35one(c35cut(big, 32769, 1)), c35one(c35full(big, 0))),
		bigc("seed-big-cut-1", c35one(c35cut(big, 1, 0)), c35one(c35full(big, 1))),
		bigc("seed-big-cut-39999", c35one(c35cut(big, 39999, 0)), c35one(c35full(big, 0))),
	)
	cs = append(cs, &c35case{kind: "seed-resolve-error", cluster: true, blob: b4, resolveOK: false,
		origins: []c35origin{c35one(c35full(b4, 0))}})
	cs = append(cs, &c35case{kind: "seed-poll-resolve-error", cluster: false, blob: b4, resolveOK: false,
		origins: []c35origin{c35one(c35full(b4, 0))}})
	return cs
}

func c35cutPoint(r *hlib.Rng, n int) int {
	if n == 0 {
		return 0
	}
	switch r.Intn(8) {
	case 0:
		return 0
	case 1:
		return 1 % (n + 1)
	case 2:
		return n - 1
	case 3:
		return n // every byte arrived, the framing did not complete
	case 4:
		return n / 2
	default:
		return r.Intn(n + 1)
	}
}

// one random case: structured, mostly honest; `dishonest` adds complete 200s that are not the
// blob and cut bodies that are not a prefix of it
func c35random(r *hlib.Rng, dishonest bool) *c35case {
	c := &c35case{resolveOK: !r.Chance(2)}
	c.cluster = r.Chance(65)
	switch k := r.Intn(100); {
	case k < 5:
		c.blob = []byte{}
	case k < 10:
		c.blob = r.Bytes(1)
	case k < 12: // larger than io.Copy's 32 KiB buffer
		c.patSeed = r.Range(1, 60000)
		c.blob = c35pat(c.patSeed, r.Range(32760, 42000))
	case k < 17:
		c.patSeed = r.Range(1, 60000)
		c.blob = c35pat(c.patSeed, r.Range(200, 5000))
	default:
		c.blob = r.Bytes(r.Range(2, 24))
	}
	no := r.Range(1, 3)
	if r.Chance(8) {
		no = 4
	}
	if r.Chance(2) {
		no = 0
	}
	n202total := 0
	for i := 0; i < no; i++ {
		var o c35origin
		o.budget = 1000
		n202 := 0
		if c.cluster {
			// every 202 costs a real second of back-off sleep here
			if r.Chance(12) && n202total < 2 {
				n202 = 1
				if r.Chance(15) && n202total == 0 {
					n202 = 2
				}
			}
		} else {
			o.budget = r.Intn(4)
			if r.Chance(45) {
				n202 = r.Intn(5)
			}
		}
		n202total += n202
		for j := 0; j < n202; j++ {
			rs := c35status(202)
			if r.Chance(10) {
				rs = c35resp{code: 202, body: []byte("w"), clean: false, style: r.Intn(3)}
			}
			o.script = append(o.script, rs)
		}
		term := r.Intn(100)
		switch {
		case term < 33:
			o.script = append(o.script, c35full(c.blob, r.Intn(2)))
		case term < 60:
			o.script = append(o.script, c35cut(c.blob, c35cutPoint(r, len(c.blob)), r.Intn(3)))
		case term < 70:
			o.script = append(o.script, c35resp{net: true, style: r.Intn(2)})
		case term < 82:
			o.script = append(o.script, c35status(c35codes5[r.Intn(len(c35codes5))]))
		case term < 89:
			o.script = append(o.script, c35status(c35codes4[r.Intn(len(c35codes4))]))
		case term < 93:
			code := c35codes5[r.Intn(len(c35codes5))]
			o.script = append(o.script, c35resp{code: code, body: []byte("cut"), clean: false, style: r.Intn(3)})
		default: // the origin disappears: script ends here
		}
		if dishonest && r.Chance(60) {
			var body []byte
			switch r.Intn(3) {
			case 0:
				body = append([]byte{}, c.blob[:len(c.blob)/2]...)
			case 1:
				body = append(append([]byte{}, c.blob...), 0x55)
			default:
				body = r.Bytes(r.Range(0, 12))
			}
			if c.patSeed != 0 && len(body) > 200 {
				body = body[:200]
			}
			rs := c35resp{code: 200, body: body, clean: r.Chance(60), style: r.Intn(2)}
			if len(o.script) > 0 && r.Bool() {
				o.script[len(o.script)-1] = rs
			} else {
				o.script = append(o.script, rs)
			}
		}
		if r.Chance(15) { // answers that must never be asked for
			o.script = append(o.script, c35full(c.blob, 0))
		}
		c.origins = append(c.origins, o)
	}
	c.kind = "random-poll"
	if c.cluster {
		c.kind = "random-cluster"
	}
	if dishonest {
		c.kind += "-dishonest"
	}
	return c
}

// exhaustive small scope: every vector of <= 3 origins over an alphabet of scripts
func c35exhaustive() []*c35case {
	blob := []byte{10, 20, 30}
	type shape struct {
		o    c35origin
		slow bool // contains a 202: a second of sleep through the cluster entry
	}
	alpha := []shape{
		{c35one(), false},
		{c35one(c35resp{net: true}), false},
		{c35one(c35status(503)), false},
		{c35one(c35status(404)), false},
		{c35one(c35status(400)), false},
		{c35one(c35cut(blob, 0, 0)), false},
		{c35one(c35cut(blob, 1, 0)), false},
		{c35one(c35cut(blob, 3, 2)), false},
		{c35one(c35full(blob, 0)), false},
		{c35one(c35status(202), c35full(blob, 0)), true},
		{c35origin{[]c35resp{c35status(202), c35status(202), c35full(blob, 0)}, 1}, true},
		{c35one(c35status(202), c35cut(blob, 1, 0)), true},
	}
	var out []*c35case
	var rec func(prefix []shape, depth int)
	rec = func(prefix []shape, depth int) {
		if len(prefix) > 0 {
			slow := 0
			var os []c35origin
			for _, s := range prefix {
				os = append(os, s.o)
				if s.slow {
					slow++
				}
			}
			out = append(out, &c35case{kind: "exhaustive-poll", cluster: false, blob: blob, resolveOK: true, origins: os})
			// through the cluster entry the back-off budget is 15 minutes: keep the shapes whose
			// budget is not the point, and at most one slow origin
			cl := slow <= 1
			var cos []c35origin
			for _, s := range prefix {
				if s.o.budget != 1000 {
					cl = false
				}
				cos = append(cos, s.o)
			}
			if cl {
				out = append(out, &c35case{kind: "exhaustive-cluster", cluster: true, blob: blob, resolveOK: true, origins: cos})
			}
		}
		if depth == 0 {
			return
		}
		for _, a := range alpha {
			rec(append(append([]shape{}, prefix...), a), depth-1)
		}
	}
	rec(nil, 3)
	return out
}

func c35(ctx *hlib.Ctx) {
	log.SetGlobalLogger(zap.NewNop().Sugar()) // the code under test logs every failed attempt
	r := hlib.NewRng(ctx.Seed)
	cases := c35seeds()
	if ctx.Tier == "thorough" {
		cases = append(cases, c35exhaustive()...)
	}
	for i := 0; i < ctx.N; i++ {
		cases = append(cases, c35random(r.Fork(), i%8 == 7))
	}
	// the cluster entry sleeps for real on every 202: run cases on a pool of workers, each
	// with its own set of origin servers; results are emitted in generation order
	nw := 48
	if len(cases) < nw {
		nw = len(cases)
	}
	obs := make([]c35obs, len(cases))
	var next int64 = -1
	var wg sync.WaitGroup
	for k := 0; k < nw; k++ {
		wg.Add(1)
		go func() {
			defer wg.Done()
			w := newC35worker()
			defer w.close()
			for {
				i := int(atomic.AddInt64(&next, 1))
				if i >= len(cases) {
					return
				}
				obs[i] = w.run(cases[i])
			}
		}()
	}
	wg.Wait()
	for i, c := range cases {
		c35emit(ctx, c, obs[i])
	}
}
