// Command c35 hosts the C35 driver (cluster blob download against scripted httptest origins).
package main

import "verifharness/hlib"

func main() { hlib.Main() }
